package main

import (
	"bytes"
	"crypto/sha256"
	"strings"
	"time"

	"go.sia.tech/core/consensus"
	"go.sia.tech/core/types"
)

// serialisation of blocks, supplements and states into the model's token protocol
// (the parsers are in coq/Extract/Api.v, section "ledger")

type tw struct {
	t     []string
	kinds map[string]int // every ID the block mentions, with the kind of element it names (Ledger/Kinds.v declsB)
	mixed bool           // some ID was declared with two kinds
	scCreated [][]byte   // siacoin IDs created by v2 transactions, payouts and the Foundation subsidy (Ledger/Fresh.v)
	scParents []scParent // siacoin parents consumed by v2 transactions
	sfCreated, v2Created                [][]byte   // Ledger/Fresh2.v
	sfParents, v2RevParents, v2ResParents []scParent
}

type scParent struct {
	id   []byte
	leaf uint64
}

// freshGen mirrors Ledger/Fresh2.v fresh_gen: for every parent of ps with an assigned leaf, nothing is created under its ID
// and every parent of qs with the same ID presents the same leaf
func freshGen(ps, qs []scParent, createdIDs [][]byte) bool {
	created := map[string]bool{}
	for _, c := range createdIDs {
		created[string(c)] = true
	}
	for _, p := range ps {
		if p.leaf == types.UnassignedLeafIndex {
			continue // created in this block
		}
		if created[string(p.id)] {
			return false
		}
		for _, q := range qs {
			if string(q.id) == string(p.id) && q.leaf != p.leaf {
				return false
			}
		}
	}
	return true
}

// fresh mirrors fresh_sc (Ledger/Fresh.v), fresh_sf and fresh_v2 (Ledger/Fresh2.v)
func (w *tw) fresh() [3]bool {
	return [3]bool{
		freshGen(w.scParents, w.scParents, w.scCreated),
		freshGen(w.sfParents, w.sfParents, w.sfCreated),
		freshGen(w.v2ResParents, append(append([]scParent(nil), w.v2RevParents...), w.v2ResParents...), w.v2Created),
	}
}

const (
	kSC = iota + 1
	kSF
	kFC
	kV2
	kAT
)

func (w *tw) decl(id []byte, kind int) {
	if w.kinds == nil {
		w.kinds = map[string]int{}
	}
	if k, ok := w.kinds[string(id)]; ok && k != kind {
		w.mixed = true
	}
	if _, ok := w.kinds[string(id)]; !ok {
		w.kinds[string(id)] = kind
	}
}

func (w *tw) z(u uint64)            { w.t = append(w.t, hx(u)) }
func (w *tw) i(n int)               { w.t = append(w.t, hx(uint64(n))) }
func (w *tw) b(b []byte)            { w.t = append(w.t, hb(b)) }
func (w *tw) bo(x bool)             { w.t = append(w.t, hbool(x)) }
func (w *tw) cur(c types.Currency)  { w.t = append(w.t, hbig(c.Big())) }
func (w *tw) raw(s ...string)       { w.t = append(w.t, s...) }
func (w *tw) sco(o types.SiacoinOutput) {
	w.cur(o.Value)
	w.b(o.Address[:])
}
func (w *tw) scos(os []types.SiacoinOutput) {
	w.i(len(os))
	for _, o := range os {
		w.sco(o)
	}
}
func (w *tw) sce(e types.SiacoinElement) {
	w.b(e.ID[:])
	w.sco(e.SiacoinOutput)
	w.z(e.MaturityHeight)
}
func (w *tw) sfe(e types.SiafundElement) {
	w.b(e.ID[:])
	w.z(e.SiafundOutput.Value)
	w.b(e.SiafundOutput.Address[:])
	w.cur(e.ClaimStart)
}
func (w *tw) fc1(fc types.FileContract) {
	w.z(fc.Filesize)
	w.b(fc.FileMerkleRoot[:])
	w.z(fc.WindowStart)
	w.z(fc.WindowEnd)
	w.cur(fc.Payout)
	w.scos(fc.ValidProofOutputs)
	w.scos(fc.MissedProofOutputs)
	w.b(fc.UnlockHash[:])
	w.z(fc.RevisionNumber)
}
func (w *tw) fce1(e types.FileContractElement) {
	w.b(e.ID[:])
	w.fc1(e.FileContract)
}
func (w *tw) fc2(cs consensus.State, fc types.V2FileContract) {
	w.z(fc.Capacity)
	w.z(fc.Filesize)
	w.b(fc.FileMerkleRoot[:])
	w.z(fc.ProofHeight)
	w.z(fc.ExpirationHeight)
	w.sco(fc.RenterOutput)
	w.sco(fc.HostOutput)
	w.cur(fc.MissedHostValue)
	w.cur(fc.TotalCollateral)
	w.b(fc.RenterPublicKey[:])
	w.b(fc.HostPublicKey[:])
	w.z(fc.RevisionNumber)
	w.b(fc.RenterSignature[:])
	w.b(fc.HostSignature[:])
	h := cs.ContractSigHash(fc)
	w.b(h[:])
}
func (w *tw) fce2(cs consensus.State, e types.V2FileContractElement) {
	w.b(e.ID[:])
	w.fc2(cs, e.V2FileContract)
}
func (w *tw) pres(se types.StateElement, ok bool) {
	w.z(se.LeafIndex)
	w.bo(ok)
}
func (w *tw) keys(uc types.UnlockConditions) {
	w.i(len(uc.PublicKeys))
	for _, k := range uc.PublicKeys {
		w.b(k.Algorithm[:])
		w.b(k.Key)
	}
	w.z(uc.SignaturesRequired)
}
func (w *tw) hashes(hs []types.Hash256) {
	w.i(len(hs))
	for _, h := range hs {
		w.b(h[:])
	}
}

// vcollector gathers every public key and every (sighash, signature) pair of a block; the oracle
// table handed to the model is the subset for which the real VerifyHash answers true
type vcollector struct {
	keys  map[types.PublicKey]bool
	pairs map[[96]byte]bool
	hl    map[types.Hash256]bool
	pre   map[[32]byte]bool
}

func newVC() *vcollector {
	return &vcollector{keys: map[types.PublicKey]bool{}, pairs: map[[96]byte]bool{}, hl: map[types.Hash256]bool{}, pre: map[[32]byte]bool{}}
}
func (v *vcollector) key(k []byte) {
	var pk types.PublicKey
	copy(pk[:], k)
	v.keys[pk] = true
}
func (v *vcollector) pair(h types.Hash256, sig []byte) {
	var p [96]byte
	copy(p[:32], h[:])
	copy(p[32:], sig)
	v.pairs[p] = true
}
func (v *vcollector) policy(p types.SpendPolicy) {
	switch pt := p.Type.(type) {
	case types.PolicyTypePublicKey:
		v.key(pt[:])
	case types.PolicyTypeHash:
		v.hl[types.Hash256(pt)] = true
	case types.PolicyTypeThreshold:
		for _, sp := range pt.Of {
			v.policy(sp)
		}
	case types.PolicyTypeUnlockConditions:
		for _, k := range pt.PublicKeys {
			v.key(k.Key)
		}
	}
}
func (v *vcollector) satisfied(h types.Hash256, sp types.SatisfiedPolicy) {
	v.policy(sp.Policy)
	for _, s := range sp.Signatures {
		v.pair(h, s[:])
	}
	for _, p := range sp.Preimages {
		v.pre[p] = true
	}
}
func (v *vcollector) toks(w *tw) {
	var out []string
	n := 0
	for k := range v.keys {
		for p := range v.pairs {
			var h types.Hash256
			var s types.Signature
			copy(h[:], p[:32])
			copy(s[:], p[32:])
			if k.VerifyHash(h, s) {
				out = append(out, hb(k[:]), hb(h[:]), hb(s[:]))
				n++
			}
		}
	}
	w.i(n)
	w.raw(out...)
	var pt []string
	m := 0
	for h := range v.hl {
		for p := range v.pre {
			if sha256.Sum256(p[:]) == h {
				pt = append(pt, hb(h[:]), hb(p[:]))
				m++
			}
		}
	}
	w.i(m)
	w.raw(pt...)
}

func satisfiedToks(w *tw, sp types.SatisfiedPolicy) {
	var ks, hs [][]byte
	w.raw(policyToks(sp.Policy, &ks, &hs)...)
	w.i(len(sp.Signatures))
	for _, s := range sp.Signatures {
		w.b(s[:])
	}
	w.i(len(sp.Preimages))
	for _, p := range sp.Preimages {
		w.b(p[:])
	}
}

func validCoveredFieldsH(txn types.Transaction, cf types.CoveredFields) bool {
	in := func(idx []uint64, n int) bool {
		for _, i := range idx {
			if i >= uint64(n) {
				return false
			}
		}
		return true
	}
	return in(cf.SiacoinInputs, len(txn.SiacoinInputs)) && in(cf.SiacoinOutputs, len(txn.SiacoinOutputs)) && in(cf.FileContracts, len(txn.FileContracts)) &&
		in(cf.FileContractRevisions, len(txn.FileContractRevisions)) && in(cf.StorageProofs, len(txn.StorageProofs)) && in(cf.SiafundInputs, len(txn.SiafundInputs)) &&
		in(cf.SiafundOutputs, len(txn.SiafundOutputs)) && in(cf.MinerFees, len(txn.MinerFees)) && in(cf.ArbitraryData, len(txn.ArbitraryData)) && in(cf.Signatures, len(txn.Signatures))
}

func txn1Toks(w *tw, vc *vcollector, cs consensus.State, txn types.Transaction) {
	id := txn.ID()
	w.b(id[:])
	w.z(cs.TransactionWeight(txn))
	w.i(len(txn.SiacoinInputs))
	for _, in := range txn.SiacoinInputs {
		w.b(in.ParentID[:])
		w.decl(in.ParentID[:], kSC)
		w.z(in.UnlockConditions.Timelock)
		uh := in.UnlockConditions.UnlockHash()
		w.b(uh[:])
		w.keys(in.UnlockConditions)
		for _, k := range in.UnlockConditions.PublicKeys {
			vc.key(k.Key)
		}
	}
	w.i(len(txn.SiacoinOutputs))
	for i, o := range txn.SiacoinOutputs {
		oid := txn.SiacoinOutputID(i)
		w.b(oid[:])
		w.decl(oid[:], kSC)
		w.sco(o)
	}
	w.i(len(txn.SiafundInputs))
	for _, in := range txn.SiafundInputs {
		w.b(in.ParentID[:])
		w.decl(in.ParentID[:], kSF)
		w.z(in.UnlockConditions.Timelock)
		uh := in.UnlockConditions.UnlockHash()
		w.b(uh[:])
		w.keys(in.UnlockConditions)
		w.b(in.ClaimAddress[:])
		cid := in.ParentID.ClaimOutputID()
		w.b(cid[:])
		w.decl(cid[:], kSC)
		for _, k := range in.UnlockConditions.PublicKeys {
			vc.key(k.Key)
		}
	}
	w.i(len(txn.SiafundOutputs))
	for i, o := range txn.SiafundOutputs {
		oid := txn.SiafundOutputID(i)
		w.b(oid[:])
		w.decl(oid[:], kSF)
		w.z(o.Value)
		w.b(o.Address[:])
	}
	w.i(len(txn.FileContracts))
	for i, fc := range txn.FileContracts {
		fid := txn.FileContractID(i)
		w.b(fid[:])
		w.decl(fid[:], kFC)
		w.fc1(fc)
	}
	w.i(len(txn.FileContractRevisions))
	for _, r := range txn.FileContractRevisions {
		w.b(r.ParentID[:])
		w.decl(r.ParentID[:], kFC)
		w.z(r.UnlockConditions.Timelock)
		uh := r.UnlockConditions.UnlockHash()
		w.b(uh[:])
		w.keys(r.UnlockConditions)
		w.fc1(r.FileContract)
		for _, k := range r.UnlockConditions.PublicKeys {
			vc.key(k.Key)
		}
	}
	w.i(len(txn.StorageProofs))
	for _, sp := range txn.StorageProofs {
		w.b(sp.ParentID[:])
		w.decl(sp.ParentID[:], kFC)
		w.b(sp.Leaf[:])
		w.hashes(sp.Proof)
		// valid output IDs: as many as any contract could have; the model zips them with the contract's outputs
		w.i(8)
		for i := 0; i < 8; i++ {
			oid := sp.ParentID.ValidOutputID(i)
			w.b(oid[:])
			w.decl(oid[:], kSC)
		}
	}
	w.i(len(txn.MinerFees))
	for _, f := range txn.MinerFees {
		w.cur(f)
	}
	w.i(len(txn.ArbitraryData))
	for _, arb := range txn.ArbitraryData {
		if bytes.HasPrefix(arb, types.SpecifierFoundation[:]) {
			var u types.FoundationAddressUpdate
			d := types.NewBufDecoder(arb[len(types.SpecifierFoundation):])
			if u.DecodeFrom(d); d.Err() != nil {
				w.raw("1")
			} else {
				w.raw("2")
				w.b(u.NewPrimary[:])
				w.b(u.NewFailsafe[:])
			}
		} else {
			w.raw("0")
		}
	}
	w.i(len(txn.Signatures))
	for _, sig := range txn.Signatures {
		w.b(sig.ParentID[:])
		w.z(sig.PublicKeyIndex)
		w.z(sig.Timelock)
		w.bo(sig.CoveredFields.WholeTransaction)
		ok := validCoveredFieldsH(txn, sig.CoveredFields)
		w.bo(ok)
		var s64 types.Signature
		copy(s64[:], sig.Signature)
		w.b(sig.Signature)
		var sh types.Hash256
		if ok {
			// (computing the sighash of out-of-range covered fields would index out of range)
			try(func() {
				if sig.CoveredFields.WholeTransaction {
					sh = cs.WholeSigHash(txn, sig.ParentID, sig.PublicKeyIndex, sig.Timelock, sig.CoveredFields.Signatures)
				} else {
					sh = cs.PartialSigHash(txn, sig.CoveredFields)
				}
			})
		}
		w.b(sh[:])
		vc.pair(sh, s64[:])
	}
}

func suppToks(w *tw, ts consensus.V1TransactionSupplement, ok func(types.StateElement) bool) {
	w.i(len(ts.SiacoinInputs))
	for _, e := range ts.SiacoinInputs {
		w.pres(e.StateElement, ok(e.StateElement))
		w.sce(e)
	}
	w.i(len(ts.SiafundInputs))
	for _, e := range ts.SiafundInputs {
		w.pres(e.StateElement, ok(e.StateElement))
		w.sfe(e)
	}
	w.i(len(ts.RevisedFileContracts))
	for _, e := range ts.RevisedFileContracts {
		w.pres(e.StateElement, ok(e.StateElement))
		w.fce1(e)
	}
	w.i(len(ts.StorageProofs))
	for _, sp := range ts.StorageProofs {
		w.pres(sp.FileContract.StateElement, ok(sp.FileContract.StateElement))
		w.fce1(sp.FileContract)
		w.b(sp.WindowID[:])
	}
}

func txn2Toks(w *tw, vc *vcollector, cs consensus.State, txn types.V2Transaction, ok func(types.StateElement) bool) {
	txid := txn.ID()
	w.b(txid[:])
	var wt uint64
	try(func() { wt = cs.V2TransactionWeight(txn) })
	w.z(wt)
	sh := cs.InputSigHash(txn)
	w.b(sh[:])
	w.i(len(txn.SiacoinInputs))
	for _, in := range txn.SiacoinInputs {
		w.pres(in.Parent.StateElement, ok(in.Parent.StateElement))
		w.sce(in.Parent)
		w.decl(in.Parent.ID[:], kSC)
		w.scParents = append(w.scParents, scParent{append([]byte(nil), in.Parent.ID[:]...), in.Parent.StateElement.LeafIndex})
		satisfiedToks(w, in.SatisfiedPolicy)
		vc.satisfied(sh, in.SatisfiedPolicy)
	}
	w.i(len(txn.SiacoinOutputs))
	for i, o := range txn.SiacoinOutputs {
		oid := txn.SiacoinOutputID(txid, i)
		w.b(oid[:])
		w.decl(oid[:], kSC)
		w.scCreated = append(w.scCreated, append([]byte(nil), oid[:]...))
		w.sco(o)
	}
	w.i(len(txn.SiafundInputs))
	for _, in := range txn.SiafundInputs {
		w.pres(in.Parent.StateElement, ok(in.Parent.StateElement))
		w.sfe(in.Parent)
		w.decl(in.Parent.ID[:], kSF)
		w.sfParents = append(w.sfParents, scParent{append([]byte(nil), in.Parent.ID[:]...), in.Parent.StateElement.LeafIndex})
		w.b(in.ClaimAddress[:])
		cid := in.Parent.ID.V2ClaimOutputID()
		w.b(cid[:])
		w.decl(cid[:], kSC)
		w.scCreated = append(w.scCreated, append([]byte(nil), cid[:]...))
		satisfiedToks(w, in.SatisfiedPolicy)
		vc.satisfied(sh, in.SatisfiedPolicy)
	}
	w.i(len(txn.SiafundOutputs))
	for i, o := range txn.SiafundOutputs {
		oid := txn.SiafundOutputID(txid, i)
		w.b(oid[:])
		w.decl(oid[:], kSF)
		w.sfCreated = append(w.sfCreated, append([]byte(nil), oid[:]...))
		w.z(o.Value)
		w.b(o.Address[:])
	}
	contractKeys := func(fc types.V2FileContract) {
		vc.key(fc.RenterPublicKey[:])
		vc.key(fc.HostPublicKey[:])
		h := cs.ContractSigHash(fc)
		vc.pair(h, fc.RenterSignature[:])
		vc.pair(h, fc.HostSignature[:])
	}
	w.i(len(txn.FileContracts))
	for i, fc := range txn.FileContracts {
		fid := txn.V2FileContractID(txid, i)
		w.b(fid[:])
		w.decl(fid[:], kV2)
		w.v2Created = append(w.v2Created, append([]byte(nil), fid[:]...))
		w.fc2(cs, fc)
		contractKeys(fc)
	}
	w.i(len(txn.FileContractRevisions))
	for _, r := range txn.FileContractRevisions {
		w.pres(r.Parent.StateElement, ok(r.Parent.StateElement))
		w.fce2(cs, r.Parent)
		w.decl(r.Parent.ID[:], kV2)
		w.v2RevParents = append(w.v2RevParents, scParent{append([]byte(nil), r.Parent.ID[:]...), r.Parent.StateElement.LeafIndex})
		w.fc2(cs, r.Revision)
		contractKeys(r.Parent.V2FileContract)
		contractKeys(r.Revision)
	}
	w.i(len(txn.FileContractResolutions))
	for _, r := range txn.FileContractResolutions {
		w.pres(r.Parent.StateElement, ok(r.Parent.StateElement))
		w.fce2(cs, r.Parent)
		w.decl(r.Parent.ID[:], kV2)
		w.v2ResParents = append(w.v2ResParents, scParent{append([]byte(nil), r.Parent.ID[:]...), r.Parent.StateElement.LeafIndex})
		contractKeys(r.Parent.V2FileContract)
		switch res := r.Resolution.(type) {
		case *types.V2FileContractRenewal:
			w.raw("0")
			w.sco(res.FinalRenterOutput)
			w.sco(res.FinalHostOutput)
			w.cur(res.RenterRollover)
			w.cur(res.HostRollover)
			w.fc2(cs, res.NewContract)
			w.b(res.RenterSignature[:])
			w.b(res.HostSignature[:])
			rh := cs.RenewalSigHash(*res)
			w.b(rh[:])
			nid := r.Parent.ID.V2RenewalID()
			w.b(nid[:])
			w.decl(nid[:], kV2)
			w.v2Created = append(w.v2Created, append([]byte(nil), nid[:]...))
			contractKeys(res.NewContract)
			vc.pair(rh, res.RenterSignature[:])
			vc.pair(rh, res.HostSignature[:])
		case *types.V2StorageProof:
			w.raw("1")
			w.pres(res.ProofIndex.StateElement, ok(res.ProofIndex.StateElement))
			w.b(res.ProofIndex.ChainIndex.ID[:])
			w.z(res.ProofIndex.ChainIndex.Height)
			w.b(res.Leaf[:])
			w.hashes(res.Proof)
		default:
			w.raw("2")
		}
		ri, hi := r.Parent.ID.V2RenterOutputID(), r.Parent.ID.V2HostOutputID()
		w.b(ri[:])
		w.b(hi[:])
		w.decl(ri[:], kSC)
		w.decl(hi[:], kSC)
		w.scCreated = append(w.scCreated, append([]byte(nil), ri[:]...), append([]byte(nil), hi[:]...))
	}
	w.i(len(txn.Attestations))
	for i, a := range txn.Attestations {
		aid := txn.AttestationID(txid, i)
		w.b(aid[:])
		w.decl(aid[:], kAT)
		w.bo(len(a.Key) == 0)
		w.b(a.PublicKey[:])
		w.b(a.Signature[:])
		ah := cs.AttestationSigHash(a)
		w.b(ah[:])
		vc.key(a.PublicKey[:])
		vc.pair(ah, a.Signature[:])
	}
	if txn.NewFoundationAddress != nil {
		w.raw("1")
		w.b(txn.NewFoundationAddress[:])
	} else {
		w.raw("0")
	}
	w.cur(txn.MinerFee)
}

func medianSeconds(cs consensus.State) int64 {
	k := 11
	if cs.Index.Height+1 < 11 {
		k = int(cs.Index.Height + 1)
	}
	ts := append([]time.Time(nil), cs.PrevTimestamps[:k]...)
	for i := 1; i < len(ts); i++ {
		for j := i; j > 0 && ts[j].Before(ts[j-1]); j-- {
			ts[j], ts[j-1] = ts[j-1], ts[j]
		}
	}
	if len(ts) == 0 {
		return 0
	}
	if len(ts)%2 == 1 {
		return ts[len(ts)/2].Unix()
	}
	l, r := ts[len(ts)/2-1], ts[len(ts)/2]
	return l.Add(r.Sub(l) / 2).Unix()
}

// blockToks renders one block with its supplement; nextMedian is the median timestamp of the state after it
func blockToks(cs consensus.State, b types.Block, bs consensus.V1BlockSupplement, headerCode int, nextMedian int64, ok func(types.StateElement) bool) ([]string, bool, [3]bool) {
	w := &tw{}
	vc := newVC()
	bid := b.ID()
	w.b(bid[:])
	w.bo(b.V2 != nil)
	if b.V2 != nil {
		w.z(b.V2.Height)
		commitOK := false
		if len(b.MinerPayouts) > 0 {
			commitOK = b.V2.Commitment == cs.Commitment(b.MinerPayouts[0].Address, b.Transactions, b.V2Transactions())
		}
		w.bo(commitOK)
	} else {
		w.z(0)
		w.bo(true)
	}
	w.i(headerCode)
	w.i(len(b.MinerPayouts))
	for i, mp := range b.MinerPayouts {
		oid := bid.MinerOutputID(i)
		w.b(oid[:])
		w.decl(oid[:], kSC)
		w.scCreated = append(w.scCreated, append([]byte(nil), oid[:]...))
		w.sco(mp)
	}
	fid := bid.FoundationOutputID()
	w.b(fid[:])
	w.decl(fid[:], kSC)
	w.scCreated = append(w.scCreated, append([]byte(nil), fid[:]...))
	w.i(len(b.Transactions))
	for _, txn := range b.Transactions {
		txn1Toks(w, vc, cs, txn)
	}
	v2 := b.V2Transactions()
	w.i(len(v2))
	for _, txn := range v2 {
		txn2Toks(w, vc, cs, txn, ok)
	}
	w.i(len(bs.Transactions))
	for _, ts := range bs.Transactions {
		suppToks(w, ts, ok)
	}
	w.i(len(bs.ExpiringFileContracts))
	for _, e := range bs.ExpiringFileContracts {
		w.pres(e.StateElement, ok(e.StateElement))
		w.fce1(e)
		w.decl(e.ID[:], kFC)
		w.i(8)
		for i := 0; i < 8; i++ {
			oid := e.ID.MissedOutputID(i)
			w.b(oid[:])
			w.decl(oid[:], kSC)
		}
	}
	if nextMedian < 0 {
		w.raw(hi(nextMedian))
	} else {
		w.z(uint64(nextMedian))
	}
	vc.toks(w)
	return w.t, !w.mixed, w.fresh()
}

func netLToks(n *consensus.Network) []string {
	w := &tw{}
	w.z(n.HardforkV2.AllowHeight)
	w.z(n.HardforkV2.RequireHeight)
	w.z(n.HardforkV2.FinalCutHeight)
	w.z(n.HardforkV2.EphemeralOutputHeight)
	w.z(n.MaturityDelay)
	w.z(n.HardforkTax.Height)
	w.z(n.HardforkStorageProof.Height)
	w.z(n.HardforkFoundation.Height)
	w.z(n.HardforkDevAddr.Height)
	w.b(n.HardforkDevAddr.OldAddress[:])
	w.b(n.HardforkDevAddr.NewAddress[:])
	w.cur(n.InitialCoinbase)
	w.cur(n.MinimumCoinbase)
	bpy := uint64(365 * 24 * time.Hour / n.BlockInterval)
	w.z(bpy / 12)
	w.z(bpy)
	return w.t
}

// error classes: the first failing check, numbered as in coq/Ledger/Validate.v
func ledgerErrCode(err error) int {
	if err == nil {
		return 0
	}
	m := err.Error()
	v2 := strings.HasPrefix(m, "v2 transaction")
	// ValidateBlock wraps transaction errors as "[v2 ]transaction N is invalid: <inner>"
	if (v2 || strings.HasPrefix(m, "transaction ")) && strings.Contains(m, " is invalid: ") {
		m = m[strings.Index(m, " is invalid: ")+len(" is invalid: "):]
	}
	has := func(s string) bool { return strings.Contains(m, s) }
	switch {
	case has("exceeds maximum weight") && has("block"):
		return 1
	case has("transaction fee has zero value"):
		return 2
	case has("v2 transaction fees overflow"):
		return 4
	case has("transaction fees overflow"):
		return 3
	case has("exactly one miner payout"):
		return 5
	case has("miner payout has zero value"):
		return 6
	case has("miner payouts overflow"):
		return 7
	case has("miner payout sum"):
		return 8
	case strings.HasPrefix(m, "block has "):
		return 9
	case has("does not increment parent height"):
		return 10
	case has("supplements are not allowed"):
		return 11
	case has("incorrect number of transactions"):
		return 12
	case has("siacoin element") && has("not present in the accumulator"):
		return 13
	case has("siafund element") && has("not present in the accumulator"):
		return 14
	case has("revised file contract") && has("not present in the accumulator"):
		return 15
	case has("valid file contract") && has("not present in the accumulator"):
		return 16
	case has("expiring file contract") && has("not present in the accumulator"):
		return 17
	case has("commitment hash mismatch"):
		return 18
	case has("v1 transactions are not allowed"):
		return 20
	case has("v2 transactions are not allowed"):
		return 70
	case has("transactions cannot be empty"):
		return 72
	case has("transaction outputs exceed inputs"):
		if v2 {
			return 71
		}
		return 21
	case has("transaction exceeds maximum block weight"):
		if v2 {
			return 73
		}
		return 22
	case has("zero-valued output"):
		return 23
	}
	if !v2 {
		switch {
		case has("siacoin input") && has("timelocked parent"):
			return 24
		case has("siacoin input") && has("double-spends parent output"):
			return 25
		case has("spends nonexistent siacoin output"):
			return 26
		case has("incorrect unlock conditions for siacoin output"):
			return 27
		case has("siacoin input") && has("immature parent"):
			return 28
		case has("siacoin inputs") && has("do not equal outputs"):
			return 29
		case has("siafund input") && has("timelocked parent"):
			return 30
		case has("siafund input") && has("double-spends parent output"):
			return 31
		case has("spends nonexistent siafund output"):
			return 32
		case has("incorrect unlock conditions for siafund output"):
			return 33
		case has("siafund inputs") && has("do not equal outputs"):
			return 34
		case has("file contract revision") && has("timelocked parent"):
			return 39
		case has("file contract revision") && has("window that starts in the past"):
			return 40
		case has("file contract revision") && has("window that ends before it begins"):
			return 41
		case has("conflicts with previous proof or revision"):
			return 42
		case has("revises nonexistent file contract"):
			return 43
		case has("after its proof window has opened"):
			return 44
		case has("does not have a higher revision number"):
			return 45
		case has("file contract revision") && has("claims incorrect unlock conditions"):
			return 46
		case has("changes valid payout sum"):
			return 47
		case has("changes missed payout sum"):
			return 48
		case has("window that starts in the past"):
			return 35
		case has("window that ends before it begins"):
			return 36
		case has("valid payout that does not equal missed payout"):
			return 37
		case has("payout with incorrect tax"):
			return 38
		case has("both a storage proof and other outputs"):
			return 49
		case has("already resolved by storage proof"):
			return 50
		case has("storage proof") && has("conflicts with previous proof"):
			return 51
		case has("references nonexistent file contract"):
			return 52
		case has("cannot be submitted until after window start"):
			return 53
		case has("root that does not match contract Merkle root"):
			return 54
		case has("improperly-encoded FoundationAddressUpdate"):
			return 55
		case has("uninitialized FoundationAddressUpdate"):
			return 56
		case has("unsigned FoundationAddressUpdate"):
			return 57
		case has("spends siacoin input") && has("more than once"):
			return 58
		case has("spends siafund input") && has("more than once"):
			return 59
		case has("revises file contract") && has("more than once"):
			return 60
		case has("references parent not present in transaction"):
			return 61
		case has("points to a nonexistent public key"):
			return 62
		case has("is redundant"):
			return 63
		case has("timelock of signature"):
			return 64
		case has("covers a nonexistent field"):
			return 65
		case has("uses an entropy public key"):
			return 67
		case has("has missing signatures"):
			return 68
		case strings.HasPrefix(m, "signature ") && strings.HasSuffix(m, " is invalid"):
			return 66
		}
		return 999
	}
	switch {
	case has("siacoin input") && has("double-spends parent output (previously spent in"):
		return 74
	case has("siacoin input") && has("double-spends parent output (previously spent by input"):
		return 75
	case has("siacoin input") && has("immature parent"):
		return 76
	case has("siacoin input") && has("spends nonexistent ephemeral output"):
		return 77
	case has("siacoin input") && has("claims incorrect value"):
		return 78
	case has("siacoin input") && has("claims incorrect maturity height"):
		return 79
	case has("siacoin input") && has("double-spends output"):
		return 80
	case has("siacoin input") && has("not present in the accumulator"):
		return 81
	case has("siacoin input") && has("claims incorrect policy for parent address"):
		return 82
	case has("siacoin input") && has("failed to satisfy spend policy"):
		return 83
	case has("siacoin output") && has("has zero value"):
		return 84
	case has("siacoin inputs") && has("do not equal outputs"):
		return 85
	case has("siafund input") && has("double-spends parent output (previously spent in"):
		return 86
	case has("siafund input") && has("double-spends parent output (previously spent by input"):
		return 87
	case has("siafund input") && has("spends nonexistent ephemeral output"):
		return 88
	case has("siafund input") && has("spends ephemeral output"):
		return 89
	case has("siafund input") && has("double-spends output"):
		return 90
	case has("siafund input") && has("not present in the accumulator"):
		return 91
	case has("siafund input") && has("claims incorrect policy for parent address"):
		return 92
	case has("siafund input") && has("failed to satisfy spend policy"):
		return 93
	case has("siafund output") && has("has zero value"):
		return 94
	case has("siafund inputs") && has("do not equal outputs"):
		return 95
	case has("has already been resolved in transaction"):
		return 110
	case has("has already been revised by contract revision"):
		return 111
	case has("has already been resolved by contract resolution"):
		return 112
	case has("has already been resolved in a previous block"):
		return 113
	case has("is not present in the accumulator"):
		return 114
	case has("cannot be applied to contract after proof height"):
		return 115
	case has("decreases capacity"):
		return 116
	case has("revises contract after its proof window has opened"):
		return 118
	case has("does not increase revision number"):
		return 119
	case has("modifies output sum"):
		return 120
	case has("exceeding old value"):
		return 121
	case has("modifies total collateral"):
		return 123
	case has("changes renter public key"):
		return 130
	case has("changes host public key"):
		return 131
	case has("does not match existing contract payout"):
		return 132
	case has("exceeding new contract cost"):
		return 133
	case has("file contract renewal") && has("has invalid renter signature") && !has("initial revision"):
		return 134
	case has("file contract renewal") && has("has invalid host signature") && !has("initial revision"):
		return 135
	case has("cannot be submitted until after proof height"):
		return 136
	case has("ProofIndex height"):
		return 137
	case has("invalid history proof"):
		return 138
	case has("root that does not match contract Merkle root"):
		return 139
	case has("cannot be submitted until after expiration height"):
		return 140
	case has("has empty key"):
		return 141
	case has("attestation") && has("invalid signature"):
		return 142
	case has("changes Foundation address"):
		return 143
	case has("exceeding capacity"):
		if has("file contract revision") {
			return 117
		}
		return 100
	case has("proof height") && has("that has already passed"):
		if has("file contract revision") {
			return 124
		}
		return 101
	case has("leaves no time between"):
		if has("file contract revision") {
			return 125
		}
		return 102
	case has("has zero value"):
		return 103
	case has("exceeding valid host value"):
		if has("total collateral") {
			return 105
		}
		if has("file contract revision") {
			return 122
		}
		return 104
	case has("has invalid renter signature"):
		return 106
	case has("has invalid host signature"):
		return 107
	}
	return 999
}
