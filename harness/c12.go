package main

import (
	"fmt"
	"reflect"
	"regexp"
	"strings"
	"time"

	"go.sia.tech/core/consensus"
	"go.sia.tech/core/types"
)

func init() { props["C12"] = runC12 }

type leafRef struct {
	path string
	v    reflect.Value
}

// leaves enumerates every settable scalar-like location of v (numbers, bools, byte arrays/slices, strings, times)
func leaves(v reflect.Value, path string, out *[]leafRef, depth int) {
	if depth > 14 || !v.IsValid() {
		return
	}
	t := v.Type()
	if t == timeType {
		*out = append(*out, leafRef{path, v})
		return
	}
	switch v.Kind() {
	case reflect.Bool, reflect.Uint8, reflect.Uint16, reflect.Uint32, reflect.Uint64, reflect.Uint, reflect.Int, reflect.Int64, reflect.String:
		*out = append(*out, leafRef{path, v})
	case reflect.Array:
		if t.Elem().Kind() == reflect.Uint8 {
			*out = append(*out, leafRef{path, v})
			return
		}
		for i := 0; i < v.Len(); i++ {
			leaves(v.Index(i), fmt.Sprintf("%s[%d]", path, i), out, depth+1)
		}
	case reflect.Slice:
		if t.Elem().Kind() == reflect.Uint8 {
			if v.Len() > 0 {
				*out = append(*out, leafRef{path, v})
			}
			return
		}
		for i := 0; i < v.Len(); i++ {
			leaves(v.Index(i), fmt.Sprintf("%s[%d]", path, i), out, depth+1)
		}
	case reflect.Struct:
		for i := 0; i < v.NumField(); i++ {
			if t.Field(i).IsExported() {
				leaves(v.Field(i), path+"."+t.Field(i).Name, out, depth+1)
			}
		}
	case reflect.Ptr:
		if !v.IsNil() {
			leaves(v.Elem(), path, out, depth+1)
		}
	case reflect.Interface:
		if !v.IsNil() {
			e := v.Elem()
			if e.Kind() == reflect.Ptr && !e.IsNil() {
				leaves(e.Elem(), path+"("+e.Elem().Type().Name()+")", out, depth+1)
			}
		}
	}
}

// mutate changes the location (and returns an undo)
func mutateLeaf(l leafRef) func() {
	v := l.v
	if v.Type() == timeType {
		old := v.Interface().(time.Time)
		v.Set(reflect.ValueOf(old.Add(time.Second)))
		return func() { v.Set(reflect.ValueOf(old)) }
	}
	switch v.Kind() {
	case reflect.Bool:
		old := v.Bool()
		v.SetBool(!old)
		return func() { v.SetBool(old) }
	case reflect.Uint8, reflect.Uint16, reflect.Uint32, reflect.Uint64, reflect.Uint:
		old := v.Uint()
		v.SetUint(old ^ 1)
		return func() { v.SetUint(old) }
	case reflect.Int, reflect.Int64:
		old := v.Int()
		v.SetInt(old ^ 1)
		return func() { v.SetInt(old) }
	case reflect.String:
		old := v.String()
		v.SetString(old + "x")
		return func() { v.SetString(old) }
	case reflect.Array, reflect.Slice:
		e := v.Index(v.Len() / 2)
		old := e.Uint()
		e.SetUint(old ^ 0x40)
		return func() { e.SetUint(old) }
	}
	return func() {}
}

var idxRe = regexp.MustCompile(`\[\d+\]`)

// classification of v2 transaction paths: does the field bear on what the transaction does?
func v2Class(p string) string {
	q := idxRe.ReplaceAllString(p, "[]")
	switch {
	case strings.Contains(q, ".SatisfiedPolicy"):
		return "witness"
	case strings.HasSuffix(q, "Inputs[].ClaimAddress"):
		return "known-F8"
	case strings.Contains(q, ".Parent.ID"):
		return "effect"
	case strings.Contains(q, ".Parent."):
		return "parent-content"
	case strings.HasSuffix(q, ".RenterSignature") || strings.HasSuffix(q, ".HostSignature"):
		return "signature"
	case strings.Contains(q, ".ProofIndex.StateElement.MerkleProof"):
		return "merkle-proof"
	}
	return "effect"
}

func c12V2(r *Run, cs consensus.State) {
	var txn types.V2Transaction
	r.fill(reflect.ValueOf(&txn).Elem(), 0)
	// non-empty collections so that every field kind is reachable
	id0 := txn.ID()
	sh0 := cs.InputSigHash(txn)
	fh0 := txn.FullHash()
	var ls []leafRef
	leaves(reflect.ValueOf(&txn).Elem(), "txn", &ls, 0)
	for _, l := range ls {
		undo := mutateLeaf(l)
		id1, sh1, fh1 := txn.ID(), cs.InputSigHash(txn), txn.FullHash()
		undo()
		cls := v2Class(l.path)
		r.count("oracle-v2-field-" + cls)
		changed := id1 != id0
		if (sh1 != sh0) != changed {
			r.violate("c12.sighash-vs-id", "v2 field %s: ID changed=%v but InputSigHash changed=%v", l.path, changed, sh1 != sh0)
		}
		if fh1 == fh0 {
			r.violate("c12.fullhash", "v2 field %s does not influence FullHash", l.path)
		}
		switch cls {
		case "effect":
			if !changed {
				r.violate("c12.v2-effect-field-not-bound:"+idxRe.ReplaceAllString(l.path, "[]"), "changing the effect-bearing v2 field %s leaves the transaction ID and input signature hash unchanged", l.path)
			}
		case "known-F8":
			if !changed {
				r.violate("known.F8", "changing %s leaves the v2 transaction ID and input signature hash unchanged", l.path)
			}
		default:
			if changed {
				r.violate("c12.v2-noneffect-field-bound:"+idxRe.ReplaceAllString(l.path, "[]"), "changing the %s field %s changes the transaction ID", cls, l.path)
			}
		}
	}
	if txn.ID() != id0 {
		r.violate("harness.c12-undo", "mutation undo failed")
	}
	// contract / renewal / attestation signature hashes: everything but the signatures they authorise
	var fc types.V2FileContract
	r.fill(reflect.ValueOf(&fc).Elem(), 0)
	h0 := cs.ContractSigHash(fc)
	ls = nil
	leaves(reflect.ValueOf(&fc).Elem(), "fc", &ls, 0)
	for _, l := range ls {
		undo := mutateLeaf(l)
		h1 := cs.ContractSigHash(fc)
		undo()
		sig := strings.HasSuffix(l.path, "Signature")
		r.count("oracle-contract-sighash")
		if (h1 != h0) == sig {
			r.violate("c12.contract-sighash:"+l.path, "ContractSigHash: field %s changed=%v", l.path, h1 != h0)
		}
	}
	var rn types.V2FileContractRenewal
	r.fill(reflect.ValueOf(&rn).Elem(), 0)
	rh0 := cs.RenewalSigHash(rn)
	ls = nil
	leaves(reflect.ValueOf(&rn).Elem(), "renewal", &ls, 0)
	for _, l := range ls {
		undo := mutateLeaf(l)
		h1 := cs.RenewalSigHash(rn)
		undo()
		sig := strings.HasSuffix(l.path, "Signature")
		r.count("oracle-renewal-sighash")
		if (h1 != rh0) == sig {
			r.violate("c12.renewal-sighash:"+l.path, "RenewalSigHash: field %s changed=%v", l.path, h1 != rh0)
		}
	}
	var at types.Attestation
	r.fill(reflect.ValueOf(&at).Elem(), 0)
	ah0 := cs.AttestationSigHash(at)
	ls = nil
	leaves(reflect.ValueOf(&at).Elem(), "attestation", &ls, 0)
	for _, l := range ls {
		undo := mutateLeaf(l)
		h1 := cs.AttestationSigHash(at)
		undo()
		sig := strings.HasSuffix(l.path, "Signature")
		if (h1 != ah0) == sig {
			r.violate("c12.attestation-sighash:"+l.path, "AttestationSigHash: field %s changed=%v", l.path, h1 != ah0)
		}
	}
	// purposes are separated: the four v2 signature hashes of related content never coincide
	if h0 == rh0 || h0 == ah0 || rh0 == ah0 || sh0 == h0 {
		r.violate("c12.sighash-purpose", "two v2 signature hashes of different purposes coincide")
	}
}

func c12V1(r *Run, cs consensus.State) {
	var txn types.Transaction
	for len(txn.SiacoinInputs) == 0 {
		txn = types.Transaction{}
		r.fill(reflect.ValueOf(&txn).Elem(), 0)
	}
	for i := range txn.Signatures {
		txn.Signatures[i].CoveredFields = types.CoveredFields{WholeTransaction: true}
	}
	id0 := txn.ID()
	parent := types.Hash256(txn.SiacoinInputs[0].ParentID)
	w0 := cs.WholeSigHash(txn, parent, 0, 0, nil)
	var ls []leafRef
	leaves(reflect.ValueOf(&txn).Elem(), "txn", &ls, 0)
	for _, l := range ls {
		undo := mutateLeaf(l)
		id1 := txn.ID()
		w1 := cs.WholeSigHash(txn, parent, 0, 0, nil)
		undo()
		sig := strings.HasPrefix(l.path, "txn.Signatures")
		if strings.Contains(l.path, "FileContractRevisions[") && strings.Contains(l.path, ".FileContract.Payout") {
			continue // a v1 revision carries no payout (the field is not transmitted: it is taken from the revised contract)
		}
		r.count("oracle-v1-field")
		if (id1 != id0) == sig {
			r.violate("c12.v1-id:"+idxRe.ReplaceAllString(l.path, "[]"), "v1 field %s: transaction ID changed=%v", l.path, id1 != id0)
		}
		if (w1 != w0) == sig {
			r.violate("c12.v1-wholesighash:"+idxRe.ReplaceAllString(l.path, "[]"), "v1 field %s: WholeSigHash changed=%v", l.path, w1 != w0)
		}
	}
	// the v1 Merkle leaf hash (what the v2 block commitment hashes) binds every field, signatures included
	m0 := txn.MerkleLeafHash()
	for _, l := range ls {
		undo := mutateLeaf(l)
		m1 := txn.MerkleLeafHash()
		undo()
		if strings.Contains(l.path, "FileContractRevisions[") && strings.Contains(l.path, ".FileContract.Payout") {
			continue
		}
		r.count("oracle-v1-leafhash")
		if m1 == m0 {
			r.violate("c12.v1-merkle-leaf-hash:"+idxRe.ReplaceAllString(l.path, "[]"), "v1 field %s does not influence the transaction's Merkle leaf hash (block commitment)", l.path)
		}
	}
	// partial signatures: exactly the covered fields are bound
	cf := types.CoveredFields{}
	if len(txn.SiacoinOutputs) > 0 {
		cf.SiacoinOutputs = []uint64{0}
	}
	cf.SiacoinInputs = []uint64{0}
	p0 := cs.PartialSigHash(txn, cf)
	for _, l := range ls {
		undo := mutateLeaf(l)
		p1 := cs.PartialSigHash(txn, cf)
		undo()
		covered := strings.HasPrefix(l.path, "txn.SiacoinInputs[0]") || (len(txn.SiacoinOutputs) > 0 && strings.HasPrefix(l.path, "txn.SiacoinOutputs[0]"))
		r.count("oracle-v1-partial")
		if (p1 != p0) != covered {
			r.violate("c12.v1-partialsighash", "PartialSigHash covering input 0/output 0: field %s changed=%v", l.path, p1 != p0)
		}
	}
}

func runC12(r *Run) {
	n := r.ledgerNet()
	n.HardforkV2.AllowHeight, n.HardforkV2.RequireHeight, n.HardforkV2.FinalCutHeight = 100, 200, 300
	cs := n.GenesisState()
	cs.Index.Height = 150
	iters := r.pick(60, 3000)
	for i := 0; i < iters; i++ {
		c12V2(r, cs)
		c12V1(r, cs)
	}
	// replay prefix: the same v1 transaction (with an input) has different signature hashes in different eras
	var txn types.Transaction
	for len(txn.SiacoinInputs) == 0 {
		txn = types.Transaction{}
		r.fill(reflect.ValueOf(&txn).Elem(), 0)
	}
	seen := map[types.Hash256]uint64{}
	for _, h := range []uint64{n.HardforkASIC.Height - 1, n.HardforkASIC.Height, n.HardforkFoundation.Height - 1, n.HardforkFoundation.Height, n.HardforkV2.AllowHeight - 1, n.HardforkV2.AllowHeight, n.HardforkV2.RequireHeight} {
		s := cs
		s.Index.Height = h
		sh := s.WholeSigHash(txn, types.Hash256(txn.SiacoinInputs[0].ParentID), 0, 0, nil)
		era := 0
		switch {
		case h >= n.HardforkV2.AllowHeight:
			era = 3
		case h >= n.HardforkFoundation.Height:
			era = 2
		case h >= n.HardforkASIC.Height:
			era = 1
		}
		for sh2, era2 := range seen {
			if (sh2 == sh) != (era2 == uint64(era)) {
				r.violate("c12.replay-prefix", "WholeSigHash at height %d (era %d) vs era %d: equal=%v", h, era, era2, sh2 == sh)
			}
		}
		seen[sh] = uint64(era)
		r.count("oracle-replay-prefix")
	}
	// the same for partial signatures, covering siacoin inputs only / siafund inputs only / both
	var ptxn types.Transaction
	for len(ptxn.SiacoinInputs) == 0 || len(ptxn.SiafundInputs) == 0 {
		ptxn = types.Transaction{}
		r.fill(reflect.ValueOf(&ptxn).Elem(), 0)
	}
	for ci, cf := range []types.CoveredFields{{SiacoinInputs: []uint64{0}}, {SiafundInputs: []uint64{0}}, {SiacoinInputs: []uint64{0}, SiafundInputs: []uint64{0}}} {
		pseen := map[types.Hash256]int{}
		for _, h := range []uint64{n.HardforkASIC.Height, n.HardforkFoundation.Height, n.HardforkV2.AllowHeight} {
			if h == 0 {
				continue
			}
			for _, hh := range []uint64{h - 1, h} {
				s := cs
				s.Index.Height = hh
				era := 0
				switch {
				case hh >= n.HardforkV2.AllowHeight:
					era = 3
				case hh >= n.HardforkFoundation.Height:
					era = 2
				case hh >= n.HardforkASIC.Height:
					era = 1
				}
				sh := s.PartialSigHash(ptxn, cf)
				for sh2, era2 := range pseen {
					if (sh2 == sh) != (era2 == era) {
						r.violate("c12.replay-prefix-partial", "PartialSigHash (coverage %d) at height %d (era %d) vs era %d: equal=%v", ci, hh, era, era2, sh2 == sh)
					}
				}
				pseen[sh] = era
				r.count("oracle-replay-prefix-partial")
			}
		}
	}
	// derived IDs: recomputed by the model, and pairwise distinct over kinds and indices
	all := map[types.Hash256]string{}
	reg := func(h types.Hash256, what string) {
		if prev, ok := all[h]; ok && prev != what {
			r.violate("c12.derived-collision", "derived IDs coincide: %s and %s", prev, what)
		}
		all[h] = what
	}
	for i := 0; i < r.pick(40, 1000); i++ {
		txid := types.TransactionID(r.randHash())
		var t2 types.V2Transaction
		for k := 0; k < 3; k++ {
			a := t2.SiacoinOutputID(txid, k)
			b := t2.SiafundOutputID(txid, k)
			c := t2.V2FileContractID(txid, k)
			d := t2.AttestationID(txid, k)
			reg(types.Hash256(a), fmt.Sprintf("sco %x %d", txid, k))
			reg(types.Hash256(b), fmt.Sprintf("sfo %x %d", txid, k))
			reg(types.Hash256(c), fmt.Sprintf("fc %x %d", txid, k))
			reg(types.Hash256(d), fmt.Sprintf("att %x %d", txid, k))
			r.emit(true, "derived", "c12.derive", []string{hb([]byte("id/siacoinoutput")), hb(txid[:]), hx(uint64(k))}, []string{hb(a[:])})
			r.emit(true, "derived", "c12.derive", []string{hb([]byte("id/siafundoutput")), hb(txid[:]), hx(uint64(k))}, []string{hb(b[:])})
			r.emit(true, "derived", "c12.derive", []string{hb([]byte("id/filecontract")), hb(txid[:]), hx(uint64(k))}, []string{hb(c[:])})
			r.emit(true, "derived", "c12.derive", []string{hb([]byte("id/attestation")), hb(txid[:]), hx(uint64(k))}, []string{hb(d[:])})
		}
		fcid := types.FileContractID(r.randHash())
		ro, ho, rnw := fcid.V2RenterOutputID(), fcid.V2HostOutputID(), fcid.V2RenewalID()
		reg(types.Hash256(ro), fmt.Sprintf("renter %x", fcid))
		reg(types.Hash256(ho), fmt.Sprintf("host %x", fcid))
		reg(types.Hash256(rnw), fmt.Sprintf("renewal %x", fcid))
		r.emit(true, "derived", "c12.derive", []string{hb([]byte("id/v2filecontractoutput")), hb(fcid[:]), "0"}, []string{hb(ro[:])})
		r.emit(true, "derived", "c12.derive", []string{hb([]byte("id/v2filecontractoutput")), hb(fcid[:]), "1"}, []string{hb(ho[:])})
		r.emit(true, "derived", "c12.derive1", []string{hb([]byte("id/v2filecontractrenewal")), hb(fcid[:])}, []string{hb(rnw[:])})
		sfoid := types.SiafundOutputID(r.randHash())
		cl := sfoid.V2ClaimOutputID()
		reg(types.Hash256(cl), fmt.Sprintf("claim %x", sfoid))
		r.emit(true, "derived", "c12.derive1", []string{hb([]byte("id/v2siacoinclaimoutput")), hb(sfoid[:])}, []string{hb(cl[:])})
		bid := types.BlockID(r.randHash())
		for k := 0; k < 2; k++ {
			m := bid.MinerOutputID(k)
			reg(types.Hash256(m), fmt.Sprintf("miner %x %d", bid, k))
			r.emit(true, "derived", "c12.raw", []string{hb(bid[:]), hx(uint64(k))}, []string{hb(m[:])})
		}
		f := bid.FoundationOutputID()
		reg(types.Hash256(f), fmt.Sprintf("foundation %x", bid))
		for k := 0; k < 2; k++ {
			reg(types.Hash256(fcid.ValidOutputID(k)), fmt.Sprintf("valid %x %d", fcid, k))
			reg(types.Hash256(fcid.MissedOutputID(k)), fmt.Sprintf("missed %x %d", fcid, k))
		}
		reg(types.Hash256(sfoid.ClaimOutputID()), fmt.Sprintf("v1claim %x", sfoid))
	}
}
