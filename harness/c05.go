package main

import (
	"fmt"
	"strings"

	"go.sia.tech/core/consensus"
	"go.sia.tech/core/types"
)

func init() { props["C05"] = runC05; props["C04"] = runC04 }

// accumulator-level simulation through the verif hooks
type simLeaf struct {
	se    types.StateElement
	ehash types.Hash256
	spent bool
}

func (l *simLeaf) copy() simLeaf {
	c := *l
	c.se.MerkleProof = append([]types.Hash256(nil), l.se.MerkleProof...)
	return c
}

type simBlock struct {
	upd []simLeaf // new contents (index, ehash, spent)
	add []simLeaf
}

type simState struct {
	acc    consensus.ElementAccumulator
	leaves []simLeaf // all leaves, index = position, proofs maintained by the implementation
}

func (s *simState) copy() simState {
	c := simState{acc: s.acc}
	c.leaves = make([]simLeaf, len(s.leaves))
	for i := range s.leaves {
		c.leaves[i] = s.leaves[i].copy()
	}
	return c
}

type accSim struct {
	r      *Run
	states []simState // states[i] = after blocks[:i]
	blocks []simBlock
}

func (r *Run) randHash() (h types.Hash256) {
	for i := 0; i < 32; i += 8 {
		v := r.rng.Uint64()
		for j := 0; j < 8; j++ {
			h[i+j] = byte(v >> (8 * j))
		}
	}
	return
}

func newAccSim(r *Run) *accSim { return &accSim{r: r, states: []simState{{}}} }

func (a *accSim) tip() *simState { return &a.states[len(a.states)-1] }

// apply a block that rewrites the leaves at idxs and appends nadd leaves
func (a *accSim) apply(idxs []int, nadd int) {
	r := a.r
	cur := a.tip().copy()
	var blk simBlock
	var updated, added []consensus.VerifLeaf
	isUpd := map[int]bool{}
	base := len(cur.leaves)
	for j := 0; j < nadd; j++ {
		l := simLeaf{ehash: r.randHash(), spent: r.rng.IntN(4) == 0}
		l.se.LeafIndex = types.UnassignedLeafIndex
		cur.leaves = append(cur.leaves, l)
	}
	// (pointers into cur.leaves are taken only after it has reached its final size)
	for _, i := range idxs {
		l := cur.leaves[i].copy()
		switch r.rng.IntN(3) {
		case 0:
			l.spent = !l.spent
		case 1:
			l.ehash = r.randHash()
		default:
			l.spent = true
			l.ehash = r.randHash()
		}
		cur.leaves[i] = l
		isUpd[i] = true
		blk.upd = append(blk.upd, l)
		updated = append(updated, consensus.VerifLeaf{Elem: &cur.leaves[i].se, ElementHash: l.ehash, Spent: l.spent})
	}
	for j := 0; j < nadd; j++ {
		l := &cur.leaves[base+j]
		added = append(added, consensus.VerifLeaf{Elem: &l.se, ElementHash: l.ehash, Spent: l.spent})
	}
	var eau *consensus.VerifApplyUpdate
	if pan, msg := try(func() { eau = consensus.VerifAccApply(&cur.acc, updated, added) }); pan {
		r.violate("c05.apply-panic", "applyBlock panicked (%s) on history %s + [upd %v add %d]", msg, a.describe(), idxs, nadd)
		return
	}
	for j := 0; j < nadd; j++ {
		blk.add = append(blk.add, cur.leaves[base+j])
	}
	for i := 0; i < base; i++ {
		if !isUpd[i] {
			if pan, msg := try(func() { eau.UpdateElementProof(&cur.leaves[i].se) }); pan {
				r.violate("c05.update-panic", "UpdateElementProof panicked (%s) for leaf %d on history %s + [upd %v add %d]", msg, i, a.describe(), idxs, nadd)
				return
			}
		}
	}
	// an element added by this block already carries its proof: giving it to the same update (as a wallet that updates
	// everything it holds does) must leave it as it is
	for j := 0; j < nadd; j++ {
		l := &cur.leaves[base+j]
		cp := l.se.Copy()
		if pan, msg := try(func() { eau.UpdateElementProof(&cp) }); pan {
			r.violate("c05.update-new-element-panic", "UpdateElementProof panicked (%s) for the new leaf %d on history %s + [upd %v add %d]", msg, base+j, a.describe(), idxs, nadd)
			return
		}
		same := cp.LeafIndex == l.se.LeafIndex && len(cp.MerkleProof) == len(l.se.MerkleProof)
		for k := 0; same && k < len(cp.MerkleProof); k++ {
			same = cp.MerkleProof[k] == l.se.MerkleProof[k]
		}
		if !same {
			r.violate("c05.update-new-element", "UpdateElementProof changed the proof of the new leaf %d on history %s + [upd %v add %d]", base+j, a.describe(), idxs, nadd)
			return
		}
		r.count("oracle-new-element-untouched")
	}
	a.emitUpdate(a.tip(), &cur, isUpd)
	a.states = append(a.states, cur)
	a.blocks = append(a.blocks, blk)
}

// updateLeaves + updateProof inside each tree of the pre-block accumulator that holds an updated leaf: the model
// recomputes the tree's new root, the updated leaves' new proofs and the patched proofs of other leaves of that tree
// from the pre-block proofs (Merkle/UpdateProofs.v: recompute_spec, update_proof_correct)
func (a *accSim) emitUpdate(pre, post *simState, isUpd map[int]bool) {
	r := a.r
	n := pre.acc.NumLeaves
	for h := 0; h < 64; h++ {
		if n&(1<<uint(h)) == 0 {
			continue
		}
		start := int(n &^ (1<<uint(h+1) - 1))
		end := start + 1<<uint(h)
		var us, ts []int
		for i := start; i < end; i++ {
			if isUpd[i] {
				us = append(us, i)
			}
		}
		if len(us) == 0 || h > 12 {
			continue
		}
		for k := 0; k < 6 && end-start > len(us); k++ {
			i := start + r.rng.IntN(end-start)
			if !isUpd[i] {
				ts = append(ts, i)
			}
		}
		proofToks := func(p []types.Hash256) []string {
			out := []string{hx(uint64(len(p)))}
			for _, x := range p {
				out = append(out, hb(x[:]))
			}
			return out
		}
		args := []string{hx(uint64(h)), hx(uint64(len(us)))}
		for _, i := range us {
			l := &post.leaves[i]
			lh := consensus.VerifLeafHash(consensus.VerifLeaf{Elem: &l.se, ElementHash: l.ehash, Spent: l.spent})
			args = append(args, hx(uint64(i)), hb(lh[:]))
			args = append(args, proofToks(pre.leaves[i].se.MerkleProof[:h])...)
		}
		args = append(args, hx(uint64(len(ts))))
		for _, i := range ts {
			args = append(args, hx(uint64(i)))
			args = append(args, proofToks(pre.leaves[i].se.MerkleProof[:h])...)
		}
		l0 := &post.leaves[us[0]]
		lh0 := consensus.VerifLeafHash(consensus.VerifLeaf{Elem: &l0.se, ElementHash: l0.ehash, Spent: l0.spent})
		root := consensus.VerifProofRoot(lh0, uint64(us[0]), l0.se.MerkleProof[:h])
		want := []string{hb(root[:])}
		for _, i := range us {
			want = append(want, proofToks(post.leaves[i].se.MerkleProof[:h])...)
		}
		for _, i := range ts {
			want = append(want, proofToks(post.leaves[i].se.MerkleProof[:h])...)
		}
		r.emit(true, "update-in-tree", "c05.update", args, want)
	}
}

// revert the tip block the way RevertBlock does: the reverted leaves carry their pre-block
// contents and pre-block proofs; every other element is refreshed through the revert update
func (a *accSim) revert() {
	n := len(a.states)
	post, pre := a.states[n-1].copy(), a.states[n-2]
	blk := a.blocks[n-2]
	acc := pre.acc
	var updated, added []consensus.VerifLeaf
	isUpd := map[int]bool{}
	scratch := make([]simLeaf, 0, len(blk.upd))
	for _, u := range blk.upd {
		i := int(u.se.LeafIndex)
		isUpd[i] = true
		scratch = append(scratch, pre.leaves[i].copy())
	}
	for k := range scratch {
		updated = append(updated, consensus.VerifLeaf{Elem: &scratch[k].se, ElementHash: scratch[k].ehash, Spent: scratch[k].spent})
	}
	addScratch := make([]simLeaf, len(blk.add))
	for k := range blk.add {
		addScratch[k] = blk.add[k].copy()
		addScratch[k].se.LeafIndex = types.UnassignedLeafIndex
		addScratch[k].se.MerkleProof = nil
		added = append(added, consensus.VerifLeaf{Elem: &addScratch[k].se, ElementHash: addScratch[k].ehash, Spent: addScratch[k].spent})
	}
	eru := consensus.VerifAccRevert(&acc, updated, added)
	// a store refreshes the elements it holds (post-block proofs), restores reverted contents
	res := simState{acc: pre.acc}
	for i := 0; i < len(pre.leaves); i++ {
		l := post.leaves[i].copy()
		if pan, msg := try(func() { eru.UpdateElementProof(&l.se) }); pan {
			a.r.violate("c05.revert-update-panic", "revert UpdateElementProof panicked (%s) for leaf %d reverting block %d of %s", msg, i, n-2, a.describe())
			l = pre.leaves[i].copy()
		}
		if isUpd[i] {
			l.ehash, l.spent = pre.leaves[i].ehash, pre.leaves[i].spent
		}
		res.leaves = append(res.leaves, l)
	}
	// oracle (C06 flavour): proofs after revert are exactly the pre-block proofs
	for i := range res.leaves {
		if !hashesEq(res.leaves[i].se.MerkleProof, pre.leaves[i].se.MerkleProof) {
			a.r.violate("c05.revert-proof", "after reverting block %d of %s: proof of leaf %d differs from its pre-block proof", n-2, a.describe(), i)
			break
		}
	}
	a.states = a.states[:n-1]
	a.states[n-2] = res
	a.blocks = a.blocks[:n-2]
}

func hashesEq(a, b []types.Hash256) bool {
	if len(a) != len(b) {
		return false
	}
	for i := range a {
		if a[i] != b[i] {
			return false
		}
	}
	return true
}

func (a *accSim) describe() string {
	var sb strings.Builder
	for _, b := range a.blocks {
		fmt.Fprintf(&sb, "[upd")
		for _, u := range b.upd {
			fmt.Fprintf(&sb, " %d", u.se.LeafIndex)
		}
		fmt.Fprintf(&sb, " add %d]", len(b.add))
	}
	return sb.String()
}

func (a *accSim) chainToks() []string {
	t := []string{hx(uint64(len(a.blocks)))}
	for _, b := range a.blocks {
		t = append(t, hx(uint64(len(b.upd))))
		for _, u := range b.upd {
			t = append(t, hx(u.se.LeafIndex), hb(u.ehash[:]), hbool(u.spent))
		}
		t = append(t, hx(uint64(len(b.add))))
		for _, u := range b.add {
			t = append(t, hb(u.ehash[:]), hbool(u.spent))
		}
	}
	return t
}

type accQuery struct {
	l     simLeaf
	want  bool
	class string
}

// emit compares the implementation's accumulator, maintained proofs and membership verdicts
// with the model's naive forest over the same history
func (a *accSim) emit(class string, maxTracked int, queries []accQuery) {
	r := a.r
	st := a.tip()
	args := a.chainToks()
	// tracked leaves
	var tracked []int
	if len(st.leaves) <= maxTracked {
		for i := range st.leaves {
			tracked = append(tracked, i)
		}
	} else {
		seen := map[int]bool{}
		for len(tracked) < maxTracked {
			i := r.rng.IntN(len(st.leaves))
			if !seen[i] {
				seen[i] = true
				tracked = append(tracked, i)
			}
		}
	}
	args = append(args, hx(uint64(len(tracked))))
	for _, i := range tracked {
		args = append(args, hx(uint64(i)))
	}
	args = append(args, hx(uint64(len(queries))))
	for _, q := range queries {
		args = append(args, hb(q.l.ehash[:]), hx(q.l.se.LeafIndex), hbool(q.l.spent), hx(uint64(len(q.l.se.MerkleProof))))
		for _, h := range q.l.se.MerkleProof {
			args = append(args, hb(h[:]))
		}
	}
	want := []string{hx(st.acc.NumLeaves)}
	for h := 0; h < 64; h++ {
		if st.acc.NumLeaves&(1<<h) != 0 {
			want = append(want, hx(uint64(h)), hb(st.acc.Trees[h][:]))
		}
	}
	want = append(want, "-1")
	for _, i := range tracked {
		l := &st.leaves[i]
		want = append(want, hx(uint64(len(l.se.MerkleProof))))
		for _, h := range l.se.MerkleProof {
			want = append(want, hb(h[:]))
		}
		// oracle: the maintained proof verifies and reflects the current status
		if !consensus.VerifContainsLeaf(&st.acc, consensus.VerifLeaf{Elem: &l.se, ElementHash: l.ehash, Spent: l.spent}) {
			r.violate("c05.proof-invalid", "history %s: maintained proof of leaf %d does not verify against the accumulator", a.describe(), i)
		}
	}
	want = append(want, "-1")
	for _, q := range queries {
		got := consensus.VerifContainsLeaf(&st.acc, consensus.VerifLeaf{Elem: &q.l.se, ElementHash: q.l.ehash, Spent: q.l.spent})
		want = append(want, hbool(got))
		if got != q.want {
			r.violate("c04."+q.class, "history %s: membership of %s leaf (index %d, spent %v, proof length %d) = %v, want %v", a.describe(), q.class, q.l.se.LeafIndex, q.l.spent, len(q.l.se.MerkleProof), got, q.want)
		}
		r.count("query-" + q.class)
	}
	r.emit(len(a.blocks) > 1 || len(queries) > 0, class, "c05.run", args, want)
}

// membership queries: genuine leaves and single-point mutations of them
func (a *accSim) queries(n int) []accQuery {
	r := a.r
	st := a.tip()
	var qs []accQuery
	if len(st.leaves) == 0 {
		return nil
	}
	for k := 0; k < n; k++ {
		i := r.rng.IntN(len(st.leaves))
		l := st.leaves[i].copy()
		switch r.rng.IntN(9) {
		case 0:
			qs = append(qs, accQuery{l, true, "genuine"})
		case 1:
			l.spent = !l.spent
			qs = append(qs, accQuery{l, false, "spent-flag-flipped"})
		case 2:
			l.ehash[r.rng.IntN(32)] ^= 1 << r.rng.IntN(8)
			qs = append(qs, accQuery{l, false, "element-altered"})
		case 3:
			j := r.rng.IntN(len(st.leaves))
			if j != i {
				l.se.MerkleProof = append([]types.Hash256(nil), st.leaves[j].se.MerkleProof...)
				same := hashesEq(l.se.MerkleProof, st.leaves[i].se.MerkleProof)
				qs = append(qs, accQuery{l, same, "other-proof"})
			}
		case 4:
			j := r.rng.IntN(len(st.leaves))
			if j != i {
				l.se.LeafIndex = uint64(j)
				qs = append(qs, accQuery{l, false, "other-index"})
			}
		case 5:
			// index altered only above the tree height (high bits): still committed by the leaf hash
			l.se.LeafIndex ^= 1 << (uint(len(l.se.MerkleProof)) + uint(r.rng.IntN(64-len(l.se.MerkleProof))))
			qs = append(qs, accQuery{l, false, "index-high-bit"})
		case 6:
			if len(l.se.MerkleProof) > 0 {
				l.se.MerkleProof[r.rng.IntN(len(l.se.MerkleProof))][r.rng.IntN(32)] ^= 0x10
				qs = append(qs, accQuery{l, false, "proof-hash-altered"})
			}
		case 7:
			if len(l.se.MerkleProof) > 0 && r.rng.IntN(2) == 0 {
				l.se.MerkleProof = l.se.MerkleProof[:len(l.se.MerkleProof)-1]
			} else {
				l.se.MerkleProof = append(l.se.MerkleProof, r.randHash())
			}
			qs = append(qs, accQuery{l, false, "proof-length"})
		case 8:
			// a leaf of a reverted branch or never created: fresh element with a real leaf's proof
			l.ehash = r.randHash()
			qs = append(qs, accQuery{l, false, "never-created"})
		}
	}
	// stale versions: contents from an earlier state of the history (spent/revised since)
	if len(a.states) > 2 {
		old := a.states[r.rng.IntN(len(a.states)-1)]
		if len(old.leaves) > 0 {
			i := r.rng.IntN(len(old.leaves))
			l := old.leaves[i].copy()
			cur := st.leaves[i]
			// present the old contents with the *current* proof (the attacker keeps proofs fresh)
			l.se.MerkleProof = append([]types.Hash256(nil), cur.se.MerkleProof...)
			qs = append(qs, accQuery{l, l.ehash == cur.ehash && l.spent == cur.spent, "stale-version"})
		}
	}
	return qs
}

func (r *Run) pickIdxs(n, k int) []int {
	if k > n {
		k = n
	}
	seen := map[int]bool{}
	var out []int
	for len(out) < k {
		i := r.rng.IntN(n)
		if !seen[i] {
			seen[i] = true
			out = append(out, i)
		}
	}
	return out
}

func accHistories(r *Run, withQueries bool) {
	// 1. every leaf count up to a bound (all bit patterns), a few updated leaves, 0..9 added
	maxN := r.pick(96, 300)
	for n := 0; n <= maxN; n++ {
		for _, nadd := range []int{0, 1, 2, 3, 5, 9} {
			a := newAccSim(r)
			if n > 0 {
				a.apply(nil, n)
			}
			k := 0
			if n > 0 {
				k = r.rng.IntN(4)
			}
			a.apply(r.pickIdxs(n, k), nadd)
			var qs []accQuery
			if withQueries {
				qs = a.queries(6)
			}
			a.emit("size-sweep", 24, qs)
			if len(a.blocks) > 0 && r.rng.IntN(2) == 0 {
				a.revert()
				a.emit("size-sweep-revert", 24, nil)
			}
		}
	}
	// 2. random histories with apply/revert interleavings
	nh := r.pick(400, 6000)
	for h := 0; h < nh; h++ {
		a := newAccSim(r)
		steps := 3 + r.rng.IntN(10)
		for s := 0; s < steps; s++ {
			if len(a.blocks) > 0 && r.rng.IntN(3) == 0 {
				depth := 1 + r.rng.IntN(min(len(a.blocks), 4))
				for d := 0; d < depth; d++ {
					a.revert()
				}
				a.emit("history-after-revert", 16, nil)
				continue
			}
			n := len(a.tip().leaves)
			k := 0
			if n > 0 {
				k = r.rng.IntN(min(n, 6) + 1)
			}
			nadd := r.rng.IntN(12)
			if r.rng.IntN(6) == 0 {
				nadd = 20 + r.rng.IntN(60)
			}
			a.apply(r.pickIdxs(n, k), nadd)
		}
		var qs []accQuery
		if withQueries {
			qs = a.queries(8)
		}
		a.emit("history", 16, qs)
	}
}

func runC05Ledger(r *Run) {
	// proofs as chain clients keep them: every stored element's proof after every applied and reverted block of
	// generated chains (incl. v1 contracts revised and proven within one block)
	runLedger(r, "C05")
}

func runC05(r *Run) {
	defer runC05Ledger(r)
	accHistories(r, false)
	c05Primitives(r)
}

func runC04(r *Run) {
	accHistories(r, true)
	// membership as consensus uses it: what becomes a live leaf when outputs are created and spent within one
	// block, and which leaves later blocks accept (generated chains, every block recomputed by the ledger model)
	runLedger(r, "C04")
}

// leaf hash and proofRoot on their own (index bit patterns beyond what histories reach)
func c05Primitives(r *Run) {
	for i := 0; i < r.pick(300, 5000); i++ {
		var se types.StateElement
		se.LeafIndex = r.rng.Uint64() >> uint(r.rng.IntN(64))
		eh := r.randHash()
		sp := r.rng.IntN(2) == 0
		lh := consensus.VerifLeafHash(consensus.VerifLeaf{Elem: &se, ElementHash: eh, Spent: sp})
		r.emit(se.LeafIndex >= 1<<32, "leafhash", "c05.leafhash", []string{hb(eh[:]), hx(se.LeafIndex), hbool(sp)}, []string{hb(lh[:])})
		np := r.rng.IntN(12)
		if r.rng.IntN(10) == 0 {
			np = 40 + r.rng.IntN(24)
		}
		args := []string{hb(lh[:]), hx(se.LeafIndex)}
		var proof []types.Hash256
		for j := 0; j < np; j++ {
			h := r.randHash()
			proof = append(proof, h)
			args = append(args, hb(h[:]))
		}
		root := consensus.VerifProofRoot(lh, se.LeafIndex, proof)
		r.emit(np > 0, "proofroot", "c05.proofroot", args, []string{hb(root[:])})
	}
}
