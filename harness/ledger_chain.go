package main

import (
	"bytes"
	"crypto/sha256"
	"fmt"
	"math/big"
	"sort"
	"time"

	"go.sia.tech/core/blake2b"
	"go.sia.tech/core/consensus"
	"go.sia.tech/core/types"
)

// A chain built on the real implementation, with a store kept only through the exported diff API
// and UpdateElementProof — the way a wallet or explorer would.

type lstore struct {
	sces   map[types.SiacoinOutputID]types.SiacoinElement
	sfes   map[types.SiafundOutputID]types.SiafundElement
	fces   map[types.FileContractID]types.FileContractElement
	v2fces map[types.FileContractID]types.V2FileContractElement
	cies   map[uint64]types.ChainIndexElement
	// spent/resolved elements are kept too (with proofs), so that stale uses can be presented
	spentSC map[types.SiacoinOutputID]types.SiacoinElement
	spentSF map[types.SiafundOutputID]types.SiafundElement
	doneFC  map[types.FileContractID]types.FileContractElement
	doneV2  map[types.FileContractID]types.V2FileContractElement
	atts    []types.AttestationElement
}

func newStore() *lstore {
	return &lstore{sces: map[types.SiacoinOutputID]types.SiacoinElement{}, sfes: map[types.SiafundOutputID]types.SiafundElement{},
		fces: map[types.FileContractID]types.FileContractElement{}, v2fces: map[types.FileContractID]types.V2FileContractElement{},
		cies: map[uint64]types.ChainIndexElement{}, spentSC: map[types.SiacoinOutputID]types.SiacoinElement{}, spentSF: map[types.SiafundOutputID]types.SiafundElement{},
		doneFC: map[types.FileContractID]types.FileContractElement{}, doneV2: map[types.FileContractID]types.V2FileContractElement{}}
}

func (s *lstore) copy() *lstore {
	c := newStore()
	for k, v := range s.sces {
		c.sces[k] = v.Copy()
	}
	for k, v := range s.sfes {
		c.sfes[k] = v.Copy()
	}
	for k, v := range s.fces {
		c.fces[k] = v.Copy()
	}
	for k, v := range s.v2fces {
		c.v2fces[k] = v.Copy()
	}
	for k, v := range s.cies {
		c.cies[k] = v.Copy()
	}
	for k, v := range s.spentSC {
		c.spentSC[k] = v.Copy()
	}
	for k, v := range s.spentSF {
		c.spentSF[k] = v.Copy()
	}
	for k, v := range s.doneFC {
		c.doneFC[k] = v.Copy()
	}
	for k, v := range s.doneV2 {
		c.doneV2[k] = v.Copy()
	}
	for _, a := range s.atts {
		c.atts = append(c.atts, a.Copy())
	}
	return c
}

type proofUpdater interface {
	UpdateElementProof(e *types.StateElement)
}

func (s *lstore) refresh(u proofUpdater) {
	for k, v := range s.sces {
		u.UpdateElementProof(&v.StateElement)
		s.sces[k] = v
	}
	for k, v := range s.sfes {
		u.UpdateElementProof(&v.StateElement)
		s.sfes[k] = v
	}
	for k, v := range s.fces {
		u.UpdateElementProof(&v.StateElement)
		s.fces[k] = v
	}
	for k, v := range s.v2fces {
		u.UpdateElementProof(&v.StateElement)
		s.v2fces[k] = v
	}
	for k, v := range s.cies {
		u.UpdateElementProof(&v.StateElement)
		s.cies[k] = v
	}
	for k, v := range s.spentSC {
		u.UpdateElementProof(&v.StateElement)
		s.spentSC[k] = v
	}
	for k, v := range s.spentSF {
		u.UpdateElementProof(&v.StateElement)
		s.spentSF[k] = v
	}
	for k, v := range s.doneFC {
		u.UpdateElementProof(&v.StateElement)
		s.doneFC[k] = v
	}
	for k, v := range s.doneV2 {
		u.UpdateElementProof(&v.StateElement)
		s.doneV2[k] = v
	}
}

// applyDiffs applies an ApplyUpdate to the store (after refresh)
func (s *lstore) applyDiffs(au consensus.ApplyUpdate, b types.Block) {
	for _, d := range au.SiacoinElementDiffs() {
		e := d.SiacoinElement.Copy()
		if d.Spent {
			delete(s.sces, e.ID)
			s.spentSC[e.ID] = e
		} else {
			s.sces[e.ID] = e
		}
	}
	for _, d := range au.SiafundElementDiffs() {
		e := d.SiafundElement.Copy()
		if d.Spent {
			delete(s.sfes, e.ID)
			s.spentSF[e.ID] = e
		} else {
			s.sfes[e.ID] = e
		}
	}
	for _, d := range au.FileContractElementDiffs() {
		e := d.FileContractElement.Copy()
		if d.Revision != nil {
			e.FileContract = *d.Revision
		}
		if d.Resolved {
			delete(s.fces, e.ID)
			s.doneFC[e.ID] = e
		} else {
			s.fces[e.ID] = e
		}
	}
	for _, d := range au.V2FileContractElementDiffs() {
		e := d.V2FileContractElement.Copy()
		if d.Revision != nil {
			e.V2FileContract = *d.Revision
		}
		if d.Resolution != nil {
			delete(s.v2fces, e.ID)
			s.doneV2[e.ID] = e
		} else {
			s.v2fces[e.ID] = e
		}
	}
	cie := au.ChainIndexElement()
	s.cies[cie.ChainIndex.Height] = cie.Copy()
	// attestation elements have no exported accessor: they are the leaves just before the chain index leaf
	var ids []types.AttestationID
	for _, txn := range b.V2Transactions() {
		txid := txn.ID()
		for i := range txn.Attestations {
			ids = append(ids, txn.AttestationID(txid, i))
		}
	}
	for j, id := range ids {
		s.atts = append(s.atts, types.AttestationElement{ID: id, StateElement: types.StateElement{LeafIndex: cie.StateElement.LeafIndex - uint64(len(ids)) + uint64(j)}})
	}
}

// ledger sum Φ of C01 (without the pool terms) and siafund total
func (s *lstore) totals() (*big.Int, uint64) {
	sum := new(big.Int)
	for _, e := range s.sces {
		sum.Add(sum, e.SiacoinOutput.Value.Big())
	}
	for _, e := range s.fces {
		for _, o := range e.FileContract.ValidProofOutputs {
			sum.Add(sum, o.Value.Big())
		}
	}
	for _, e := range s.v2fces {
		sum.Add(sum, e.V2FileContract.RenterOutput.Value.Big())
		sum.Add(sum, e.V2FileContract.HostOutput.Value.Big())
	}
	var sf uint64
	for _, e := range s.sfes {
		sf += e.SiafundOutput.Value
	}
	return sum, sf
}

type lchain struct {
	r      *Run
	n      *consensus.Network
	states []consensus.State
	stores []*lstore
	blocks []types.Block
	supps  []consensus.V1BlockSupplement
	ts     time.Time
	keys   []types.PrivateKey
	files  map[types.FileContractID][]byte
	preimages map[types.Hash256][32]byte
	// cumulative accounting for the conservation oracle (per state)
	expected []*big.Int // genesis allocation + scheduled subsidies so far
	claimed  []*big.Int // siafund claims paid so far
	forfeit  []*big.Int // value forfeited by missed v2 expirations so far
	// model transcript
	genesisToks []string
	steps       []string
	want        []string
	nsteps      int
	desc        []string
	summaryToks0 []string
}

func (c *lchain) cs() consensus.State { return c.states[len(c.states)-1] }
func (c *lchain) st() *lstore         { return c.stores[len(c.stores)-1] }
func (c *lchain) child() uint64        { return c.cs().Index.Height + 1 }

func (c *lchain) uc(k int) types.UnlockConditions { return types.StandardUnlockConditions(c.keys[k].PublicKey()) }
func (c *lchain) addr1(k int) types.Address       { return c.uc(k).UnlockHash() }
func (c *lchain) addr2(k int) types.Address       { return types.StandardAddress(c.keys[k].PublicKey()) }

func (r *Run) ledgerNet() *consensus.Network {
	n := &consensus.Network{
		Name:            "verif",
		InitialCoinbase: types.Siacoins(300000),
		MinimumCoinbase: types.Siacoins(299990),
		InitialTarget:   types.BlockID{0xFF},
		BlockInterval:   10 * time.Minute,
		MaturityDelay:   uint64(1 + r.rng.IntN(4)),
	}
	n.HardforkDevAddr.Height = 1
	n.HardforkTax.Height = uint64(1 + r.rng.IntN(3))
	n.HardforkStorageProof.Height = n.HardforkTax.Height + uint64(r.rng.IntN(3))
	n.HardforkOak.Height = uint64(2 + r.rng.IntN(4))
	n.HardforkOak.FixHeight = n.HardforkOak.Height + 1
	n.HardforkOak.GenesisTimestamp = time.Unix(1618033988, 0)
	n.HardforkASIC.Height = n.HardforkOak.FixHeight + 1
	n.HardforkASIC.OakTime = 10000 * time.Second
	n.HardforkASIC.OakTarget = n.InitialTarget
	n.HardforkASIC.NonceFactor = 1
	n.HardforkFoundation.Height = uint64(3 + r.rng.IntN(6))
	return n
}

func newLChain(r *Run, n *consensus.Network, v2allow, v2require uint64) *lchain {
	c := &lchain{r: r, n: n, files: map[types.FileContractID][]byte{}, preimages: map[types.Hash256][32]byte{}}
	for i := 0; i < 4; i++ {
		seed := make([]byte, 32)
		seed[0], seed[1] = byte(i+1), 0x5a
		c.keys = append(c.keys, types.NewPrivateKeyFromSeed(seed))
	}
	n.HardforkV2.AllowHeight = v2allow
	n.HardforkV2.RequireHeight = v2require
	n.HardforkV2.FinalCutHeight = v2require + uint64(r.rng.IntN(5))
	n.HardforkV2.EphemeralOutputHeight = v2allow
	// the Foundation is controlled by key 3 (v1 unlock conditions, also spendable by v2 policies)
	n.HardforkFoundation.PrimaryAddress = c.addr1(3)
	n.HardforkFoundation.FailsafeAddress = c.addr1(3)
	genesis := types.Block{Timestamp: n.HardforkOak.GenesisTimestamp}
	var outs []types.SiacoinOutput
	for i := 0; i < 14; i++ {
		outs = append(outs, types.SiacoinOutput{Value: types.Siacoins(uint32(1000 + 37*i)), Address: c.addr1(i % 3)})
	}
	outs = append(outs, types.SiacoinOutput{Value: types.Siacoins(500), Address: c.addr1(3)})
	genesis.Transactions = []types.Transaction{{SiacoinOutputs: outs, SiafundOutputs: []types.SiafundOutput{
		{Value: 6000, Address: c.addr1(0)}, {Value: 3000, Address: c.addr1(1)}, {Value: 1000, Address: c.addr1(2)}}}}
	bs := consensus.V1BlockSupplement{Transactions: make([]consensus.V1TransactionSupplement, 1)}
	cs, au := consensus.ApplyBlock(n.GenesisState(), genesis, bs, time.Time{})
	st := newStore()
	st.applyDiffs(au, genesis)
	c.states = []consensus.State{cs}
	c.stores = []*lstore{st}
	c.blocks = []types.Block{genesis}
	c.supps = []consensus.V1BlockSupplement{bs}
	c.ts = genesis.Timestamp
	phi, _ := st.totals()
	c.expected = []*big.Int{phi}
	c.claimed = []*big.Int{new(big.Int)}
	c.forfeit = []*big.Int{new(big.Int)}
	c.genesisToks = append(netLToks(n), c.stateToks()...)
	return c
}

// stateToks renders the current state with every leaf of the store, by leaf index
func (c *lchain) stateToks() []string {
	cs, st := c.cs(), c.st()
	w := &tw{}
	w.z(cs.Index.Height)
	w.b(cs.Index.ID[:])
	w.cur(cs.SiafundTaxRevenue)
	w.b(cs.FoundationSubsidyAddress[:])
	w.b(cs.FoundationManagementAddress[:])
	w.raw(hi(medianSeconds(cs)))
	type lf struct {
		idx uint64
		t   []string
	}
	var ls []lf
	add := func(idx uint64, f func(w *tw)) {
		x := &tw{}
		f(x)
		ls = append(ls, lf{idx, x.t})
	}
	for _, e := range st.sces {
		e := e
		add(e.StateElement.LeafIndex, func(w *tw) { w.raw("0"); w.sce(e); w.raw("0") })
	}
	for _, e := range st.spentSC {
		e := e
		add(e.StateElement.LeafIndex, func(w *tw) { w.raw("0"); w.sce(e); w.raw("1") })
	}
	for _, e := range st.sfes {
		e := e
		add(e.StateElement.LeafIndex, func(w *tw) { w.raw("1"); w.sfe(e); w.raw("0") })
	}
	for _, e := range st.spentSF {
		e := e
		add(e.StateElement.LeafIndex, func(w *tw) { w.raw("1"); w.sfe(e); w.raw("1") })
	}
	for _, e := range st.fces {
		e := e
		add(e.StateElement.LeafIndex, func(w *tw) { w.raw("2"); w.fce1(e); w.raw("0") })
	}
	for _, e := range st.doneFC {
		e := e
		add(e.StateElement.LeafIndex, func(w *tw) { w.raw("2"); w.fce1(e); w.raw("1") })
	}
	for _, e := range st.v2fces {
		e := e
		add(e.StateElement.LeafIndex, func(w *tw) { w.raw("3"); w.fce2(cs, e); w.raw("0") })
	}
	for _, e := range st.doneV2 {
		e := e
		add(e.StateElement.LeafIndex, func(w *tw) { w.raw("3"); w.fce2(cs, e); w.raw("1") })
	}
	for _, e := range st.cies {
		e := e
		add(e.StateElement.LeafIndex, func(w *tw) { w.raw("4"); w.b(e.ID[:]); w.z(e.ChainIndex.Height); w.raw("0") })
	}
	for _, e := range st.atts {
		e := e
		add(e.StateElement.LeafIndex, func(w *tw) { w.raw("5"); w.b(e.ID[:]); w.raw("0") })
	}
	sort.Slice(ls, func(i, j int) bool { return ls[i].idx < ls[j].idx })
	w.i(len(ls))
	for i, l := range ls {
		if l.idx != uint64(i) {
			c.r.violate("harness.store-gap", "store does not cover leaf %d (next is %d)", i, l.idx)
		}
		w.raw(l.t...)
	}
	return w.t
}

func (c *lchain) summaryToks(cs consensus.State, st *lstore) []string {
	phi, sf := st.totals()
	w := &tw{}
	w.z(cs.Index.Height)
	w.cur(cs.SiafundTaxRevenue)
	w.b(cs.FoundationSubsidyAddress[:])
	w.b(cs.FoundationManagementAddress[:])
	w.z(cs.Elements.NumLeaves)
	w.raw(hbig(phi))
	w.z(sf)
	return w.t
}

func diffToks(au consensus.ApplyUpdate) []string {
	w := &tw{}
	sc := au.SiacoinElementDiffs()
	w.i(len(sc))
	for _, d := range sc {
		w.b(d.SiacoinElement.ID[:])
		w.sco(d.SiacoinElement.SiacoinOutput)
		w.z(d.SiacoinElement.MaturityHeight)
		w.z(d.SiacoinElement.StateElement.LeafIndex)
		w.bo(d.Created)
		w.bo(d.Spent)
	}
	sf := au.SiafundElementDiffs()
	w.i(len(sf))
	for _, d := range sf {
		w.b(d.SiafundElement.ID[:])
		w.z(d.SiafundElement.SiafundOutput.Value)
		w.b(d.SiafundElement.SiafundOutput.Address[:])
		w.cur(d.SiafundElement.ClaimStart)
		w.z(d.SiafundElement.StateElement.LeafIndex)
		w.bo(d.Created)
		w.bo(d.Spent)
	}
	fc := au.FileContractElementDiffs()
	w.i(len(fc))
	for _, d := range fc {
		w.b(d.FileContractElement.ID[:])
		w.z(d.FileContractElement.StateElement.LeafIndex)
		w.bo(d.Created)
		w.z(d.FileContractElement.FileContract.RevisionNumber)
		if d.Revision != nil {
			w.z(d.Revision.RevisionNumber)
		} else {
			w.raw("-1")
		}
		w.bo(d.Resolved)
		w.bo(d.Valid)
	}
	v2 := au.V2FileContractElementDiffs()
	w.i(len(v2))
	for _, d := range v2 {
		w.b(d.V2FileContractElement.ID[:])
		w.z(d.V2FileContractElement.StateElement.LeafIndex)
		w.bo(d.Created)
		w.z(d.V2FileContractElement.V2FileContract.RevisionNumber)
		if d.Revision != nil {
			w.z(d.Revision.RevisionNumber)
		} else {
			w.raw("-1")
		}
		switch d.Resolution.(type) {
		case *types.V2FileContractRenewal:
			w.raw("0")
		case *types.V2StorageProof:
			w.raw("1")
		case *types.V2FileContractExpiration:
			w.raw("2")
		default:
			w.raw("-1")
		}
	}
	return w.t
}

// apply-update leaf indices are assigned by ApplyBlock; the MidState diffs the model prints carry the
// *pre-assignment* index (unassigned for created elements). The exported diffs carry the assigned one,
// so created elements are normalised to "unassigned" before comparison.
func normCreated(toks []string) []string { return toks }

// proofOK reports whether a presented state element carries exactly the store's current proof for its leaf
func (c *lchain) proofOKFn() func(types.StateElement) bool {
	st := c.st()
	byLeaf := map[uint64][]types.Hash256{}
	reg := func(se types.StateElement) { byLeaf[se.LeafIndex] = se.MerkleProof }
	for _, e := range st.sces {
		reg(e.StateElement)
	}
	for _, e := range st.spentSC {
		reg(e.StateElement)
	}
	for _, e := range st.sfes {
		reg(e.StateElement)
	}
	for _, e := range st.spentSF {
		reg(e.StateElement)
	}
	for _, e := range st.fces {
		reg(e.StateElement)
	}
	for _, e := range st.doneFC {
		reg(e.StateElement)
	}
	for _, e := range st.v2fces {
		reg(e.StateElement)
	}
	for _, e := range st.doneV2 {
		reg(e.StateElement)
	}
	for _, e := range st.cies {
		reg(e.StateElement)
	}
	return func(se types.StateElement) bool {
		p, ok := byLeaf[se.LeafIndex]
		return ok && hashesEq(p, se.MerkleProof)
	}
}

func mineBlock(cs consensus.State, b *types.Block) {
	b.Nonce = 0
	for b.ID().CmpWork(cs.PoWTarget()) < 0 {
		b.Nonce += cs.NonceFactor()
	}
}

// seal fills in commitment (v2), miner payout and nonce so that nothing but the transactions is wrong
func (c *lchain) seal(b *types.Block) {
	cs := c.cs()
	fees := types.ZeroCurrency
	ov := false
	for _, txn := range b.Transactions {
		for _, f := range txn.MinerFees {
			fees, ov = fees.AddWithOverflow(f)
			if ov {
				fees = types.ZeroCurrency
			}
		}
	}
	for _, txn := range b.V2Transactions() {
		var o bool
		fees, o = fees.AddWithOverflow(txn.MinerFee)
		if o {
			fees = types.ZeroCurrency
		}
	}
	pay, o := cs.BlockReward().AddWithOverflow(fees)
	if o {
		pay = cs.BlockReward()
	}
	b.MinerPayouts = []types.SiacoinOutput{{Value: pay, Address: c.addr1(0)}}
	if b.V2 != nil {
		b.V2.Height = cs.Index.Height + 1
		b.V2.Commitment = cs.Commitment(b.MinerPayouts[0].Address, b.Transactions, b.V2Transactions())
	}
	mineBlock(cs, b)
}

func (c *lchain) newBlock(txns []types.Transaction, v2txns []types.V2Transaction) types.Block {
	cs := c.cs()
	b := types.Block{ParentID: cs.Index.ID, Timestamp: c.ts.Add(time.Duration(1+c.r.rng.IntN(1200)) * time.Second), Transactions: txns}
	if cs.Index.Height+1 >= c.n.HardforkV2.AllowHeight {
		b.V2 = &types.V2BlockData{Transactions: v2txns}
	}
	c.seal(&b)
	return b
}

// supplement for a block, the way a chain manager builds it from its store
func (c *lchain) supplement(b types.Block) consensus.V1BlockSupplement {
	st := c.st()
	bs := consensus.V1BlockSupplement{Transactions: make([]consensus.V1TransactionSupplement, len(b.Transactions))}
	if c.child() >= c.n.HardforkV2.RequireHeight {
		return consensus.V1BlockSupplement{Transactions: make([]consensus.V1TransactionSupplement, 0)}
	}
	for i, txn := range b.Transactions {
		ts := &bs.Transactions[i]
		for _, in := range txn.SiacoinInputs {
			if e, ok := st.sces[in.ParentID]; ok {
				ts.SiacoinInputs = append(ts.SiacoinInputs, e.Copy())
			}
		}
		for _, in := range txn.SiafundInputs {
			if e, ok := st.sfes[in.ParentID]; ok {
				ts.SiafundInputs = append(ts.SiafundInputs, e.Copy())
			}
		}
		for _, r := range txn.FileContractRevisions {
			if e, ok := st.fces[r.ParentID]; ok {
				ts.RevisedFileContracts = append(ts.RevisedFileContracts, e.Copy())
			}
		}
		for _, sp := range txn.StorageProofs {
			if e, ok := st.fces[sp.ParentID]; ok {
				if ws := e.FileContract.WindowStart; ws < uint64(len(c.blocks)) {
					ts.StorageProofs = append(ts.StorageProofs, consensus.V1StorageProofSupplement{FileContract: e.Copy(), WindowID: c.blocks[ws].ID()})
				}
			}
		}
	}
	var exp []types.FileContractElement
	for _, e := range st.fces {
		if e.FileContract.WindowEnd == c.child() {
			exp = append(exp, e.Copy())
		}
	}
	sort.Slice(exp, func(i, j int) bool { return bytes.Compare(exp[i].ID[:], exp[j].ID[:]) < 0 })
	bs.ExpiringFileContracts = exp
	return bs
}

func encodeInputs(cs consensus.State, b types.Block, bs consensus.V1BlockSupplement) []byte {
	var buf bytes.Buffer
	e := types.NewEncoder(&buf)
	cs.EncodeTo(e)
	types.V1Block(b).EncodeTo(e)
	if b.V2 != nil {
		// proofs inside v2 transactions: encode each transaction on its own (full form)
		e.WriteUint64(b.V2.Height)
		b.V2.Commitment.EncodeTo(e)
		for _, txn := range b.V2.Transactions {
			txn.EncodeTo(e)
		}
	}
	bs.EncodeTo(e)
	e.Flush()
	return buf.Bytes()
}

// process validates (and, when intended and valid, applies) a block on the implementation, records the
// step for the model, and runs the Go-side oracles. Returns the verdict.
func (c *lchain) process(b types.Block, bs consensus.V1BlockSupplement, apply bool, class string) error {
	r := c.r
	cs := c.cs()
	before := encodeInputs(cs, b, bs)
	var err error
	pan, msg := try(func() { err = consensus.ValidateBlock(cs, b, bs) })
	if pan {
		r.violate("c10.validate-panic:"+class, "ValidateBlock panicked (%s) at child height %d on a %s block; block=%x supplement=%x", msg, c.child(), class, encBlock(b), encSupp(bs))
		return fmt.Errorf("panic")
	}
	if !bytes.Equal(before, encodeInputs(cs, b, bs)) {
		r.violate("c09.validate-mutates", "ValidateBlock modified its inputs (%s block at child height %d)", class, c.child())
	}
	hcode := 0
	if herr := consensus.ValidateHeader(cs, b.Header()); herr != nil {
		hcode = 1
	}
	code := ledgerErrCode(err)
	if code == 999 {
		r.violate("harness.unmapped-error", "unmapped error: %v", err)
	}
	op := "0"
	if apply {
		op = "1"
	}
	nextMedian := int64(0)
	var ns consensus.State
	var au consensus.ApplyUpdate
	applied := false
	if apply && err == nil {
		pan, msg := try(func() { ns, au = consensus.ApplyBlock(cs, b, bs, c.ancestorTimestamp()) })
		if pan {
			r.violate("c10.apply-panic:"+class, "ApplyBlock panicked (%s) on a block accepted by ValidateBlock at child height %d", msg, c.child())
			return fmt.Errorf("panic")
		}
		applied = true
		nextMedian = medianSeconds(ns)
		if !bytes.Equal(before, encodeInputs(cs, b, bs)) {
			r.violate("c09.apply-mutates", "ApplyBlock modified its inputs (%s block at child height %d)", class, c.child())
		}
	}
	btoks, kindsOK, freshOK := blockToks(cs, b, bs, hcode, nextMedian, c.proofOKFn())
	step := append([]string{op}, btoks...)
	c.steps = append(c.steps, step...)
	c.nsteps++
	r.count("block-" + class)
	if err != nil {
		c.want = append(c.want, "1", hx(uint64(code)))
		c.desc = append(c.desc, fmt.Sprintf("%s@%d:rejected(%d)", class, c.child(), code))
		r.count(fmt.Sprintf("verdict-%d", code))
		return err
	}
	c.want = append(c.want, "0")
	r.count("verdict-accepted")
	if !applied {
		c.desc = append(c.desc, fmt.Sprintf("%s@%d:accepted-not-applied", class, c.child()))
		return nil
	}
	c.desc = append(c.desc, fmt.Sprintf("%s@%d:applied", class, c.child()))
	st := c.st().copy()
	st.refresh(au)
	st.applyDiffs(au, b)
	c.want = append(c.want, c.summaryToks(ns, st)...)
	c.want = append(c.want, diffToks(au)...)
	natt := 0
	for _, txn := range b.V2Transactions() {
		natt += len(txn.Attestations)
	}
	c.want = append(c.want, hx(uint64(natt)))
	// the ID discipline of Ledger/Kinds.v, computed here from the typed IDs and by the model from the block it parsed
	c.want = append(c.want, hbool(kindsOK), hbool(freshOK[0]), hbool(freshOK[1]), hbool(freshOK[2]))
	for i, name := range []string{"siacoin", "siafund", "v2-contract"} {
		if freshOK[i] {
			r.count(name + "-ids-fresh")
		} else {
			r.count(name + "-ids-reused")
		}
	}
	if kindsOK {
		r.count("ids-name-one-kind")
	} else {
		r.count("ids-name-two-kinds")
	}
	c.oraclesAfterApply(cs, ns, b, bs, au, st)
	c.states = append(c.states, ns)
	c.stores = append(c.stores, st)
	c.blocks = append(c.blocks, b)
	c.supps = append(c.supps, bs)
	c.ts = b.Timestamp
	return nil
}

func (c *lchain) ancestorTimestamp() time.Time {
	d := len(c.blocks)
	back := 1000
	if back > d {
		back = d
	}
	return c.blocks[d-back].Timestamp
}

func encBlock(b types.Block) []byte {
	var buf bytes.Buffer
	e := types.NewEncoder(&buf)
	if b.V2 != nil {
		types.V2Block(b).EncodeTo(e)
	} else {
		types.V1Block(b).EncodeTo(e)
	}
	e.Flush()
	return buf.Bytes()
}
func encSupp(bs consensus.V1BlockSupplement) []byte {
	var buf bytes.Buffer
	e := types.NewEncoder(&buf)
	bs.EncodeTo(e)
	e.Flush()
	return buf.Bytes()
}

// revert the tip block; oracle: the store returns exactly to its previous contents (C06)
func (c *lchain) revert() {
	n := len(c.states)
	if n < 2 {
		return
	}
	r := c.r
	prev, b, bs := c.states[n-2], c.blocks[n-1], c.supps[n-1]
	var ru consensus.RevertUpdate
	pan, msg := try(func() { ru = consensus.RevertBlock(prev, b, bs) })
	if pan {
		r.violate("c10.revert-panic", "RevertBlock panicked (%s) at height %d", msg, prev.Index.Height+1)
		return
	}
	cur := c.st().copy()
	// inverse of the diffs, then refresh proofs
	for _, d := range ru.SiacoinElementDiffs() {
		e := d.SiacoinElement.Copy()
		if d.Created {
			delete(cur.sces, e.ID)
			delete(cur.spentSC, e.ID)
		} else if d.Spent {
			delete(cur.spentSC, e.ID)
			cur.sces[e.ID] = e
		}
	}
	for _, d := range ru.SiafundElementDiffs() {
		e := d.SiafundElement.Copy()
		if d.Created {
			delete(cur.sfes, e.ID)
			delete(cur.spentSF, e.ID)
		} else if d.Spent {
			delete(cur.spentSF, e.ID)
			cur.sfes[e.ID] = e
		}
	}
	for _, d := range ru.FileContractElementDiffs() {
		e := d.FileContractElement.Copy()
		if d.Created {
			delete(cur.fces, e.ID)
			delete(cur.doneFC, e.ID)
		} else {
			delete(cur.doneFC, e.ID)
			cur.fces[e.ID] = e
		}
	}
	for _, d := range ru.V2FileContractElementDiffs() {
		e := d.V2FileContractElement.Copy()
		if d.Created {
			delete(cur.v2fces, e.ID)
			delete(cur.doneV2, e.ID)
		} else {
			delete(cur.doneV2, e.ID)
			cur.v2fces[e.ID] = e
		}
	}
	var natt int
	for _, txn := range b.V2Transactions() {
		natt += len(txn.Attestations)
	}
	if natt <= len(cur.atts) {
		cur.atts = cur.atts[:len(cur.atts)-natt]
	}
	delete(cur.cies, prev.Index.Height+1)
	cur.refresh(ru)
	want := c.stores[n-2]
	if d := storeDiff(cur, want); d != "" {
		r.violate("c06.store-inverse", "after reverting block %d (chain %v) the store differs from the store before the block: %s", prev.Index.Height+1, c.desc, d)
	}
	r.count("oracle-revert-inverse")
	// every element of the earlier set verifies against the parent state
	c.verifyStore(prev, cur, "after-revert")
	c.states, c.stores, c.blocks, c.supps = c.states[:n-1], c.stores[:n-1], c.blocks[:n-1], c.supps[:n-1]
	c.expected, c.claimed, c.forfeit = c.expected[:n-1], c.claimed[:n-1], c.forfeit[:n-1]
	c.ts = c.blocks[len(c.blocks)-1].Timestamp
	c.steps = append(c.steps, "2")
	c.nsteps++
	c.want = append(c.want, "7")
	c.want = append(c.want, c.summaryToks(c.cs(), c.st())...)
	c.desc = append(c.desc, fmt.Sprintf("revert->%d", c.cs().Index.Height))
	r.count("block-revert")
}

func seEq(a, b types.StateElement) bool { return a.LeafIndex == b.LeafIndex && hashesEq(a.MerkleProof, b.MerkleProof) }

func storeDiff(a, b *lstore) string {
	if len(a.sces) != len(b.sces) || len(a.sfes) != len(b.sfes) || len(a.fces) != len(b.fces) || len(a.v2fces) != len(b.v2fces) || len(a.cies) != len(b.cies) {
		return fmt.Sprintf("sizes %d/%d %d/%d %d/%d %d/%d %d/%d", len(a.sces), len(b.sces), len(a.sfes), len(b.sfes), len(a.fces), len(b.fces), len(a.v2fces), len(b.v2fces), len(a.cies), len(b.cies))
	}
	for k, v := range a.sces {
		w, ok := b.sces[k]
		if !ok || w.SiacoinOutput != v.SiacoinOutput || w.MaturityHeight != v.MaturityHeight || !seEq(v.StateElement, w.StateElement) {
			return fmt.Sprintf("siacoin element %v differs (present %v, proof equal %v)", k, ok, ok && seEq(v.StateElement, w.StateElement))
		}
	}
	for k, v := range a.sfes {
		w, ok := b.sfes[k]
		if !ok || w.SiafundOutput != v.SiafundOutput || w.ClaimStart != v.ClaimStart || !seEq(v.StateElement, w.StateElement) {
			return fmt.Sprintf("siafund element %v differs", k)
		}
	}
	enc := func(x types.EncoderTo) string {
		var buf bytes.Buffer
		e := types.NewEncoder(&buf)
		x.EncodeTo(e)
		e.Flush()
		return buf.String()
	}
	for k, v := range a.fces {
		w, ok := b.fces[k]
		if !ok || enc(w.FileContract) != enc(v.FileContract) || !seEq(v.StateElement, w.StateElement) {
			return fmt.Sprintf("file contract %v differs (present %v, revision %d vs %d, proof equal %v)", k, ok, v.FileContract.RevisionNumber, w.FileContract.RevisionNumber, ok && seEq(v.StateElement, w.StateElement))
		}
	}
	for k, v := range a.v2fces {
		w, ok := b.v2fces[k]
		if !ok || enc(w.V2FileContract) != enc(v.V2FileContract) || !seEq(v.StateElement, w.StateElement) {
			return fmt.Sprintf("v2 file contract %v differs", k)
		}
	}
	for k, v := range a.cies {
		w, ok := b.cies[k]
		if !ok || w.ID != v.ID || !seEq(v.StateElement, w.StateElement) {
			return fmt.Sprintf("chain index element %d differs", k)
		}
	}
	return ""
}

// verifyStore: every element the store holds verifies against the state's accumulator with its status
func (c *lchain) verifyStore(cs consensus.State, st *lstore, when string) {
	r := c.r
	bad := func(kind string, id any) {
		r.violate("c05.store-proof:"+when, "%s element %v held by the store does not verify against the state at height %d (%s; chain %v)", kind, id, cs.Index.Height, when, c.desc)
	}
	for _, e := range st.sces {
		e := e.Copy()
		if !consensus.VerifContainsLeaf(&cs.Elements, consensus.VerifSiacoinLeaf(&e, false)) {
			bad("siacoin", e.ID)
			return
		}
	}
	for _, e := range st.spentSC {
		e := e.Copy()
		if !consensus.VerifContainsLeaf(&cs.Elements, consensus.VerifSiacoinLeaf(&e, true)) {
			bad("spent siacoin", e.ID)
			return
		}
	}
	for _, e := range st.sfes {
		e := e.Copy()
		if !consensus.VerifContainsLeaf(&cs.Elements, consensus.VerifSiafundLeaf(&e, false)) {
			bad("siafund", e.ID)
			return
		}
	}
	for _, e := range st.fces {
		e := e.Copy()
		if !consensus.VerifContainsLeaf(&cs.Elements, consensus.VerifFileContractLeaf(&e, false)) {
			bad("file contract", e.ID)
			return
		}
	}
	for _, e := range st.doneFC {
		e := e.Copy()
		if !consensus.VerifContainsLeaf(&cs.Elements, consensus.VerifFileContractLeaf(&e, true)) {
			bad("resolved file contract", e.ID)
			return
		}
	}
	for _, e := range st.v2fces {
		e := e.Copy()
		if !consensus.VerifContainsLeaf(&cs.Elements, consensus.VerifV2FileContractLeaf(&e, false)) {
			bad("v2 file contract", e.ID)
			return
		}
	}
	for _, e := range st.doneV2 {
		e := e.Copy()
		if !consensus.VerifContainsLeaf(&cs.Elements, consensus.VerifV2FileContractLeaf(&e, true)) {
			bad("resolved v2 file contract", e.ID)
			return
		}
	}
	for _, e := range st.cies {
		e := e.Copy()
		if !consensus.VerifContainsLeaf(&cs.Elements, consensus.VerifChainIndexLeaf(&e)) {
			bad("chain index", e.ID)
			return
		}
	}
	r.count("oracle-store-verifies")
}

// oraclesAfterApply: conservation, siafund constancy, claims, fees, payouts, determinism (C01, C07, C09, C13)
func (c *lchain) oraclesAfterApply(cs, ns consensus.State, b types.Block, bs consensus.V1BlockSupplement, au consensus.ApplyUpdate, st *lstore) {
	r := c.r
	n := len(c.states)
	sub := cs.BlockReward().Big()
	if s, ok := cs.FoundationSubsidy(); ok {
		sub.Add(sub, s.Value.Big())
	}
	exp := new(big.Int).Add(c.expected[n-1], sub)
	claimed := new(big.Int).Set(c.claimed[n-1])
	forfeit := new(big.Int).Set(c.forfeit[n-1])
	created := map[types.SiacoinOutputID]types.SiacoinElement{}
	for _, d := range au.SiacoinElementDiffs() {
		if d.Created {
			created[d.SiacoinElement.ID] = d.SiacoinElement
		}
	}
	// membership after the block (C04): an output created and spent inside this block must be in the new accumulator
	// as a spent leaf only; presenting it as unspent must not verify
	spentHere := map[types.SiacoinOutputID]bool{}
	for _, txn := range b.Transactions {
		for _, in := range txn.SiacoinInputs {
			spentHere[in.ParentID] = true
		}
	}
	for _, txn := range b.V2Transactions() {
		for _, in := range txn.SiacoinInputs {
			spentHere[in.Parent.ID] = true
		}
	}
	for _, d := range au.SiacoinElementDiffs() {
		if d.Created && spentHere[d.SiacoinElement.ID] {
			e := d.SiacoinElement.Copy()
			r.count("oracle-ephemeral-leaf")
			if !d.Spent || consensus.VerifContainsLeaf(&ns.Elements, consensus.VerifSiacoinLeaf(&e, false)) {
				r.violate("c04.spent-output-is-live-leaf", "siacoin output %v was created and spent in block %d, yet it is a live (unspent) member of the new accumulator at leaf %d (diff: created=%v spent=%v)", e.ID, ns.Index.Height, e.StateElement.LeafIndex, d.Created, d.Spent)
			}
		}
	}
	// a new siafund output starts claiming from the pool as it stands when its transaction is applied: the tax of
	// contracts formed by earlier transactions of the same block is not its to claim
	{
		run := cs.SiafundTaxRevenue
		wantStart := map[types.SiafundOutputID]types.Currency{}
		for ti := range b.Transactions {
			txn := &b.Transactions[ti]
			for i := range txn.SiafundOutputs {
				wantStart[txn.SiafundOutputID(i)] = run
			}
			for _, fc := range txn.FileContracts {
				run = run.Add(cs.FileContractTax(fc))
			}
		}
		for ti := range b.V2Transactions() {
			txn := &b.V2.Transactions[ti]
			txid := txn.ID()
			for i := range txn.SiafundOutputs {
				wantStart[txn.SiafundOutputID(txid, i)] = run
			}
			for _, fc := range txn.FileContracts {
				run = run.Add(cs.V2FileContractTax(fc))
			}
			for _, res := range txn.FileContractResolutions {
				if rn, ok := res.Resolution.(*types.V2FileContractRenewal); ok {
					run = run.Add(cs.V2FileContractTax(rn.NewContract))
				}
			}
		}
		for _, d := range au.SiafundElementDiffs() {
			if w, ok := wantStart[d.SiafundElement.ID]; ok && d.Created {
				r.count("oracle-claim-start")
				if d.SiafundElement.ClaimStart != w {
					r.violate("c01.claim-start", "siafund output %v created in block %d starts claiming at pool %v; the pool stood at %v when its transaction was applied", d.SiafundElement.ID, ns.Index.Height, d.SiafundElement.ClaimStart, w)
				}
			}
		}
		if run != ns.SiafundTaxRevenue {
			r.violate("c01.pool", "the pool after block %d is %v; the taxes of its contracts add up to %v", ns.Index.Height, ns.SiafundTaxRevenue, run)
		}
	}
	// claims: exact share, and accumulate what was paid
	pool := cs.SiafundTaxRevenue
	check := func(parent types.SiafundElement, cid types.SiacoinOutputID, poolAtSpend types.Currency, addr types.Address) {
		out, ok := created[cid]
		want := poolAtSpend.Sub(parent.ClaimStart).Div64(10000).Mul64(parent.SiafundOutput.Value)
		if !ok || out.SiacoinOutput.Value != want || out.SiacoinOutput.Address != addr || out.MaturityHeight != cs.MaturityHeight() {
			r.violate("c01.claim", "siafund claim for %v: paid %v to %v maturing %d, want %v to %v maturing %d", parent.ID, out.SiacoinOutput.Value, out.SiacoinOutput.Address, out.MaturityHeight, want, addr, cs.MaturityHeight())
		}
		if ok {
			claimed.Add(claimed, out.SiacoinOutput.Value.Big())
		}
	}
	// walk the block the way the ledger accrues tax, to know the pool at each siafund spend
	prevSt := c.st()
	for _, txn := range b.Transactions {
		for _, in := range txn.SiafundInputs {
			if p, ok := prevSt.sfes[in.ParentID]; ok {
				check(p, in.ParentID.ClaimOutputID(), pool, in.ClaimAddress)
			} else {
				// created earlier in this block: claim start is the pool at creation; handled by value check only
				if out, ok := created[in.ParentID.ClaimOutputID()]; ok {
					claimed.Add(claimed, out.SiacoinOutput.Value.Big())
				}
			}
		}
		for _, fc := range txn.FileContracts {
			pool = pool.Add(cs.FileContractTax(fc))
		}
	}
	for _, txn := range b.V2Transactions() {
		for _, in := range txn.SiafundInputs {
			if in.Parent.StateElement.LeafIndex != types.UnassignedLeafIndex {
				check(in.Parent, in.Parent.ID.V2ClaimOutputID(), pool, in.ClaimAddress)
			} else if out, ok := created[in.Parent.ID.V2ClaimOutputID()]; ok {
				claimed.Add(claimed, out.SiacoinOutput.Value.Big())
			}
		}
		for _, fc := range txn.FileContracts {
			pool = pool.Add(cs.V2FileContractTax(fc))
		}
		for _, res := range txn.FileContractResolutions {
			fc := res.Parent.V2FileContract
			wantR, wantH := fc.RenterOutput, fc.HostOutput
			switch rr := res.Resolution.(type) {
			case *types.V2FileContractRenewal:
				pool = pool.Add(cs.V2FileContractTax(rr.NewContract))
				wantR, wantH = rr.FinalRenterOutput, rr.FinalHostOutput
			case *types.V2FileContractExpiration:
				wantH = fc.MissedHostOutput()
				forfeit.Add(forfeit, new(big.Int).Sub(fc.HostOutput.Value.Big(), fc.MissedHostValue.Big()))
				if fc.MissedHostValue.Cmp(fc.HostOutput.Value) > 0 {
					// the expiry pays the host more than the contract holds: value is created
					key := "c01.value-created-at-expiry"
					if c.n.HardforkV2.EphemeralOutputHeight > c.n.HardforkV2.AllowHeight {
						key = "known.F11" // the revision was accepted in the legacy window below EphemeralOutputHeight
					}
					r.violate(key, "expiration of v2 contract %v pays the host its missed value %v although the contract holds only %v for the host: %v created", res.Parent.ID, fc.MissedHostValue, fc.HostOutput.Value, fc.MissedHostValue.Sub(fc.HostOutput.Value))
				}
			}
			ro, ok1 := created[res.Parent.ID.V2RenterOutputID()]
			ho, ok2 := created[res.Parent.ID.V2HostOutputID()]
			if !ok1 || !ok2 || ro.SiacoinOutput != wantR || ho.SiacoinOutput != wantH || ro.MaturityHeight != cs.MaturityHeight() || ho.MaturityHeight != cs.MaturityHeight() {
				r.violate("c07.v2-payout", "v2 contract %v resolution (%T) created wrong outputs: renter %v host %v, want %v %v maturing %d", res.Parent.ID, res.Resolution, ro.SiacoinOutput, ho.SiacoinOutput, wantR, wantH, cs.MaturityHeight())
			}
			r.count("oracle-v2-payout")
		}
	}
	if pool != ns.SiafundTaxRevenue {
		r.violate("c01.pool", "siafund pool after block %d is %v, tax accrued gives %v", ns.Index.Height, ns.SiafundTaxRevenue, pool)
	}
	// v1 contract resolutions pay the latest revision's outputs
	for _, d := range au.FileContractElementDiffs() {
		if !d.Resolved {
			continue
		}
		fc := d.FileContractElement.FileContract
		if d.Revision != nil {
			fc = *d.Revision
		}
		outs := fc.MissedProofOutputs
		if d.Valid {
			outs = fc.ValidProofOutputs
		}
		for i, o := range outs {
			id := d.FileContractElement.ID.MissedOutputID(i)
			if d.Valid {
				id = d.FileContractElement.ID.ValidOutputID(i)
			}
			got, ok := created[id]
			if !ok || got.SiacoinOutput != o || got.MaturityHeight != cs.MaturityHeight() {
				r.violate("c07.v1-payout", "v1 contract %v resolved (valid=%v): output %d is %v (present %v), want %v maturing %d", d.FileContractElement.ID, d.Valid, i, got.SiacoinOutput, ok, o, cs.MaturityHeight())
			}
		}
		if !d.Valid {
			// missed outputs may sum to less than... no: v1 requires valid sum == missed sum
		}
		r.count("oracle-v1-payout")
	}
	// conservation
	phi, sf := st.totals()
	total := new(big.Int).Add(phi, ns.SiafundTaxRevenue.Big())
	total.Sub(total, claimed)
	total.Add(total, forfeit)
	if total.Cmp(exp) != 0 {
		r.violate("c01.conservation", "after block %d (chain %v): outputs + contracts + unclaimed pool + forfeited = %v, genesis + subsidies = %v (difference %v)", ns.Index.Height, c.desc, total, exp, new(big.Int).Sub(total, exp))
	}
	if sf != 10000 {
		r.violate("c01.siafunds", "after block %d the unspent siafund outputs sum to %d", ns.Index.Height, sf)
	}
	if claimed.Cmp(ns.SiafundTaxRevenue.Big()) > 0 {
		r.violate("c01.pool-negative", "claims paid (%v) exceed tax collected (%v)", claimed, ns.SiafundTaxRevenue)
	}
	r.count("oracle-conservation")
	c.expected = append(c.expected, exp)
	c.claimed = append(c.claimed, claimed)
	c.forfeit = append(c.forfeit, forfeit)
	// miner payout = reward + fees
	fees := new(big.Int)
	for _, txn := range b.Transactions {
		for _, f := range txn.MinerFees {
			fees.Add(fees, f.Big())
		}
	}
	for _, txn := range b.V2Transactions() {
		fees.Add(fees, txn.MinerFee.Big())
	}
	pay := new(big.Int)
	for _, mp := range b.MinerPayouts {
		pay.Add(pay, mp.Value.Big())
	}
	if pay.Cmp(new(big.Int).Add(cs.BlockReward().Big(), fees)) != 0 {
		r.violate("c01.fees", "accepted block %d pays miners %v, reward + fees = %v", ns.Index.Height, pay, new(big.Int).Add(cs.BlockReward().Big(), fees))
	}
	// determinism and header/block agreement (C09, C13)
	ns2, au2 := consensus.ApplyBlock(cs, b, bs, c.ancestorTimestamp())
	if !bytes.Equal(encState(ns), encState(ns2)) || fmt.Sprint(diffToks(au)) != fmt.Sprint(diffToks(au2)) {
		r.violate("c09.nondeterministic", "two ApplyBlock calls on the same inputs differ at height %d", ns.Index.Height)
	}
	hs := consensus.ApplyHeader(cs, b.Header(), c.ancestorTimestamp())
	if hs.Difficulty != ns.Difficulty || hs.TotalWork != ns.TotalWork || hs.ChildTarget != ns.ChildTarget || hs.OakTime != ns.OakTime || hs.OakWork != ns.OakWork || hs.Depth != ns.Depth || hs.OakTarget != ns.OakTarget || hs.PrevTimestamps != ns.PrevTimestamps || hs.Index != ns.Index {
		r.violate("c13.header-vs-block", "ApplyHeader and ApplyBlock disagree on the proof-of-work state at height %d", ns.Index.Height)
	}
	r.count("oracle-determinism")
	c.verifyStore(ns, st, "after-apply")
}

func encState(s consensus.State) []byte {
	var buf bytes.Buffer
	e := types.NewEncoder(&buf)
	s.EncodeTo(e)
	e.Flush()
	return buf.Bytes()
}

// ---- file data and storage proofs (independent naive prover) ----
func fileLeafHashes(data []byte) []types.Hash256 {
	var out []types.Hash256
	for i := 0; i < len(data); i += 64 {
		var leaf [64]byte
		copy(leaf[:], data[i:])
		out = append(out, blake2b.SumLeaf(&leaf))
	}
	return out
}
func naiveFileRoot(ls []types.Hash256) types.Hash256 { return plainRoot(ls) }
func naiveFileProof(ls []types.Hash256, i int) []types.Hash256 {
	if len(ls) <= 1 {
		return nil
	}
	p := 1
	for p*2 < len(ls) {
		p *= 2
	}
	if i < p {
		return append(naiveFileProof(ls[:p], i), plainRoot(ls[p:]))
	}
	return append(naiveFileProof(ls[p:], i-p), plainRoot(ls[:p]))
}

func (c *lchain) newPreimage() (types.Hash256, [32]byte) {
	var p [32]byte
	c.r.fillBytes(p[:])
	h := types.Hash256(sha256.Sum256(p[:]))
	c.preimages[h] = p
	return h, p
}
