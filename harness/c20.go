package main

import (
	"bytes"
	"encoding"
	"encoding/json"
	"fmt"
	"math/big"
	"reflect"
	"strings"
	"time"
	"unicode/utf8"

	"go.sia.tech/core/consensus"
	rhp2 "go.sia.tech/core/rhp/v2"
	rhp4 "go.sia.tech/core/rhp/v4"
	"go.sia.tech/core/types"
)

func init() { props["C20"] = runC20 }

type textForm interface {
	encoding.TextMarshaler
}

// hexIDs: fixed-size identifiers whose text form is plain hex (k bytes)
func c20HexIDs(r *Run) {
	mk := []struct {
		name string
		k    int
		new  func() (encoding.TextUnmarshaler, func() []byte)
	}{
		{"Hash256", 32, func() (encoding.TextUnmarshaler, func() []byte) { v := new(types.Hash256); return v, func() []byte { return v[:] } }},
		{"BlockID", 32, func() (encoding.TextUnmarshaler, func() []byte) { v := new(types.BlockID); return v, func() []byte { return v[:] } }},
		{"TransactionID", 32, func() (encoding.TextUnmarshaler, func() []byte) { v := new(types.TransactionID); return v, func() []byte { return v[:] } }},
		{"SiacoinOutputID", 32, func() (encoding.TextUnmarshaler, func() []byte) { v := new(types.SiacoinOutputID); return v, func() []byte { return v[:] } }},
		{"SiafundOutputID", 32, func() (encoding.TextUnmarshaler, func() []byte) { v := new(types.SiafundOutputID); return v, func() []byte { return v[:] } }},
		{"FileContractID", 32, func() (encoding.TextUnmarshaler, func() []byte) { v := new(types.FileContractID); return v, func() []byte { return v[:] } }},
		{"AttestationID", 32, func() (encoding.TextUnmarshaler, func() []byte) { v := new(types.AttestationID); return v, func() []byte { return v[:] } }},
		{"Signature", 64, func() (encoding.TextUnmarshaler, func() []byte) { v := new(types.Signature); return v, func() []byte { return v[:] } }},
	}
	for _, m := range mk {
		for it := 0; it < r.pick(40, 1500); it++ {
			raw := r.randBytes(m.k)
			s := []byte(fmt.Sprintf("%x", raw))
			cands := [][]byte{s, s[:len(s)-1], s[:len(s)-2], append(append([]byte{}, s...), '0'), append(append([]byte{}, s...), '0', '0'), bytes.ToUpper(s), append([]byte("0x"), s...), nil}
			for k := 0; k < 4; k++ {
				c := append([]byte{}, s...)
				c[r.rng.IntN(len(c))] = []byte("gz: -_GX\x00/")[r.rng.IntN(10)]
				cands = append(cands, c)
			}
			for _, c := range cands {
				body := c
				v, get := m.new()
				var err error
				pan, msg := try(func() { err = v.UnmarshalText(c) })
				r.count("oracle-hex-id")
				if pan {
					r.violate("c20.text-panic:"+m.name, "%s.UnmarshalText(%q) panicked: %s", m.name, c, msg)
					continue
				}
				if err == nil && !bytes.Equal(get(), raw) {
					r.violate("c20.id-accepted-as-other:"+m.name, "%s: %q (from %x) was accepted as the different value %x", m.name, c, raw, get())
				}
				if bytes.Equal(c, s) && err != nil {
					r.violate("c20.text-roundtrip:"+m.name, "%s: its own text form %q is rejected: %v", m.name, c, err)
				}
				want := []string{"1"}
				if err == nil {
					want = []string{"0", hb(get())}
				}
				r.emit(true, "hex-"+want[0], "c20.hex", []string{hx(uint64(m.k)), hb(body)}, want)
			}
		}
	}
}

func c20Addresses(r *Run) {
	alts := []byte("0123456789abcdefABCDEFgG xz")
	for it := 0; it < r.pick(30, 1200); it++ {
		var a types.Address
		copy(a[:], r.randBytes(32))
		s := a.String()
		r.emit(true, "addr-render", "c20.addr_render", []string{hb(a[:])}, []string{hb([]byte(s))})
		var back types.Address
		if err := back.UnmarshalText([]byte(s)); err != nil || back != a {
			r.violate("c20.address-roundtrip", "address %x does not parse back from %q: %v", a[:], s, err)
		}
		// every position, several replacement characters
		for i := 0; i < len(s); i++ {
			for k := 0; k < r.pick(2, 6); k++ {
				c := alts[r.rng.IntN(len(alts))]
				if c == s[i] {
					continue
				}
				t := []byte(s)
				t[i] = c
				var got types.Address
				err := got.UnmarshalText(t)
				r.count("oracle-address-single-char")
				if err == nil && got != a {
					r.violate("c20.address-accepted-as-other", "address string with character %d changed (%q -> %q) was accepted as a different address", i, s[i], c)
				}
				if k == 0 && i%5 == it%5 {
					want := []string{"1"}
					if err == nil {
						want = []string{"0", hb(got[:])}
					}
					r.emit(true, "addr-altered-"+want[0], "c20.addr_parse", []string{hb(t)}, want)
				}
			}
		}
		for _, t := range [][]byte{[]byte(s[:75]), []byte(s + "0"), []byte(s[2:]), []byte("addr:" + s), []byte(strings.ToUpper(s)), nil} {
			var got types.Address
			err := got.UnmarshalText(t)
			if err == nil && got != a {
				r.violate("c20.address-accepted-as-other", "address string %q was accepted as a different address", t)
			}
			want := []string{"1"}
			if err == nil {
				want = []string{"0", hb(got[:])}
			}
			r.emit(true, "addr-length-"+want[0], "c20.addr_parse", []string{hb(t)}, want)
		}
	}
}

func (r *Run) c20Currency() types.Currency {
	switch r.rng.IntN(8) {
	case 0:
		return types.ZeroCurrency
	case 1:
		return types.MaxCurrency
	case 2:
		return types.NewCurrency64(r.rng.Uint64N(2000))
	case 3: // powers of ten and their neighbours
		p := new(big.Int).Exp(big.NewInt(10), big.NewInt(int64(r.rng.IntN(39))), nil)
		p.Add(p, big.NewInt(int64(r.rng.IntN(3)-1)))
		if p.Sign() < 0 || p.BitLen() > 128 {
			return types.ZeroCurrency
		}
		return types.NewCurrency(p.Uint64(), new(big.Int).Rsh(p, 64).Uint64())
	case 4: // few significant digits
		p := new(big.Int).Exp(big.NewInt(10), big.NewInt(int64(r.rng.IntN(36))), nil)
		p.Mul(p, big.NewInt(int64(1+r.rng.IntN(999))))
		if p.BitLen() > 128 {
			return types.ZeroCurrency
		}
		return types.NewCurrency(p.Uint64(), new(big.Int).Rsh(p, 64).Uint64())
	default:
		return types.NewCurrency(r.rng.Uint64(), r.rng.Uint64()>>uint(r.rng.IntN(64)))
	}
}

func c20Currencies(r *Run) {
	for it := 0; it < r.pick(400, 20000); it++ {
		c := r.c20Currency()
		s := c.String()
		ex := c.ExactString()
		r.emit(true, "cur-render", "c20.cur_render", []string{hc(c)}, []string{hb([]byte(s))})
		r.emit(true, "cur-exact", "c20.cur_exact", []string{hc(c)}, []string{hb([]byte(ex))})
		for _, form := range []string{s, ex} {
			back, err := types.ParseCurrency(form)
			r.count("oracle-currency-roundtrip")
			if err != nil || back != c {
				r.violate("c20.currency-roundtrip", "currency %s prints as %q, which parses as %v (%v)", ex, form, back, err)
			}
		}
		js, _ := json.Marshal(c)
		var cj types.Currency
		if err := json.Unmarshal(js, &cj); err != nil || cj != c {
			r.violate("c20.currency-json", "currency %s: JSON %s parses as %v (%v)", ex, js, cj, err)
		}
		// mutated strings within the modelled grammar: Go's verdict and value are recomputed by the model
		muts := []string{s, ex, strings.Replace(s, " ", "", 1), strings.Replace(s, " ", "  ", 1), s + " ", "+" + s, "-" + s, strings.Replace(s, ".", "..", 1),
			strings.Replace(s, "SC", "sc", 1), strings.Replace(s, "S", "X", 1), "0" + s, strings.TrimRight(ex, "0") + " SC", ex + "0", ex + " H", ex + " pS", "." + ex + " TS", ex + ". KS"}
		if len(ex) > 3 {
			muts = append(muts, ex[:len(ex)-3]+"."+ex[len(ex)-3:]+" pS", ex[:1]+"."+ex[1:]+" TS", ex[:1]+"."+ex[1:]+" mS")
		}
		for _, m := range muts {
			v, err := types.ParseCurrency(m)
			want := []string{"1"}
			if err == nil {
				want = []string{"0", hc(v)}
			}
			r.emit(true, "cur-parse-"+want[0], "c20.cur_parse", []string{hb([]byte(m))}, want)
		}
	}
}

func jsonRepresentable(v reflect.Value, depth int) bool {
	if depth > 20 {
		return true
	}
	switch v.Kind() {
	case reflect.String:
		return utf8.ValidString(v.String())
	case reflect.Struct:
		if t, ok := v.Interface().(time.Time); ok {
			y := t.Year()
			return y >= 0 && y <= 9999
		}
		for i := 0; i < v.NumField(); i++ {
			if v.Type().Field(i).IsExported() && !jsonRepresentable(v.Field(i), depth+1) {
				return false
			}
		}
	case reflect.Slice, reflect.Array:
		for i := 0; i < v.Len(); i++ {
			if !jsonRepresentable(v.Index(i), depth+1) {
				return false
			}
		}
	case reflect.Ptr, reflect.Interface:
		if !v.IsNil() {
			return jsonRepresentable(v.Elem(), depth+1)
		}
	}
	return true
}

// JSON round trip of every public type with a JSON form; equality is judged on the binary encoding where the type
// has one (nil vs empty collections are the same value there) and on the JSON text otherwise
func c20JSON(r *Run) {
	extra := []wireType{
		{"types.Currency", reflect.TypeOf(types.Currency{})}, {"types.Block", reflect.TypeOf(types.Block{})},
		{"types.Specifier", reflect.TypeOf(types.Specifier{})}, {"types.UnlockKey", reflect.TypeOf(types.UnlockKey{})},
		{"types.PublicKey", reflect.TypeOf(types.PublicKey{})}, {"types.Signature", reflect.TypeOf(types.Signature{})},
		{"consensus.Network", reflect.TypeOf(consensus.Network{})},
		{"consensus.SiacoinElementDiff", reflect.TypeOf(consensus.SiacoinElementDiff{})}, {"consensus.SiafundElementDiff", reflect.TypeOf(consensus.SiafundElementDiff{})},
		{"consensus.FileContractElementDiff", reflect.TypeOf(consensus.FileContractElementDiff{})}, {"consensus.V2FileContractElementDiff", reflect.TypeOf(consensus.V2FileContractElementDiff{})},
		{"rhp4.ProtocolVersion", reflect.TypeOf(rhp4.ProtocolVersion{})}, {"rhp4.Usage", reflect.TypeOf(rhp4.Usage{})},
		{"rhp2.HostSettings", reflect.TypeOf(rhp2.HostSettings{})},
	}
	all := append(allWireTypes(), extra...)
	for _, tt := range all {
		if needsState[tt.name] || strings.Contains(tt.name, "rhp/v2.RPC") || strings.Contains(tt.name, "rhp/v3.") || strings.Contains(tt.name, "Func") || strings.Contains(tt.name, "#") {
			continue
		}
		bad := 0
		for it := 0; it < r.pick(25, 800) && bad < 2; it++ {
			v := reflect.New(tt.typ)
			r.fill(v.Elem(), 0)
			r.fixups(tt.name, v)
			if it == 0 {
				v = reflect.New(tt.typ)
				if hasAnyEncoder(v) {
					if _, e := encodeVal(v); e != nil {
						continue // the zero value of this type is not a value (a policy without a type)
					}
				}
			}
			if !jsonRepresentable(v.Elem(), 0) {
				r.count("json-not-representable")
				continue
			}
			var j1 []byte
			var err error
			pan, msg := try(func() { j1, err = json.Marshal(v.Interface()) })
			if pan {
				if it != 0 {
					r.violate("c20.json-marshal-panic:"+tt.name, "%s: json.Marshal panicked: %s", tt.name, msg)
					bad++
				}
				continue
			}
			if err != nil {
				r.count("json-marshal-error")
				continue
			}
			w := reflect.New(tt.typ)
			pan, msg = try(func() { err = json.Unmarshal(j1, w.Interface()) })
			r.count("oracle-json-roundtrip")
			if pan {
				r.violate("c20.json-unmarshal-panic:"+tt.name, "%s: json.Unmarshal panicked on its own output: %s\n%s", tt.name, msg, trunc(j1))
				bad++
				continue
			}
			if err != nil {
				r.violate("c20.json-roundtrip:"+tt.name, "%s: its own JSON does not parse: %v\n%s", tt.name, err, trunc(j1))
				bad++
				continue
			}
			j2, _ := json.Marshal(w.Interface())
			if !bytes.Equal(j1, j2) {
				r.violate("c20.json-roundtrip:"+tt.name, "%s: JSON differs after a round trip\n%s\n%s", tt.name, trunc(j1), trunc(j2))
				bad++
				continue
			}
			if b1, e1 := encodeVal(v); e1 == nil && hasAnyEncoder(v) {
				if b2, e2 := encodeVal(w); e2 == nil && !bytes.Equal(b1, b2) {
					r.violate("c20.json-value:"+tt.name, "%s: the value read back from JSON has a different binary encoding\n%s", tt.name, trunc(j1))
					bad++
				}
			}
		}
	}
}

func hasAnyEncoder(v reflect.Value) bool {
	if hasEncoderTo(v) {
		return true
	}
	_, ok := v.Interface().(rhp4.Object)
	return ok
}

func trunc(b []byte) string {
	if len(b) > 400 {
		return string(b[:400]) + "..."
	}
	return string(b)
}

// other text forms: policies (string and JSON), specifiers, unlock keys, chain indices, public keys, versions, accounts
func c20Misc(r *Run) {
	for it := 0; it < r.pick(300, 10000); it++ {
		p := r.randPolicy(0)
		s := p.String()
		q, err := types.ParseSpendPolicy(s)
		r.count("oracle-policy-string")
		if err != nil || q.Address() != p.Address() || q.String() != s {
			key := "c20.policy-string"
			if strings.ContainsAny(specifiersOf(p), "(),[]: \t\n\"") {
				key = "known.F6"
			}
			r.violate(key, "policy %q does not parse back to itself: %v", s, err)
		}
		// the model renders the policy and re-parses mutated strings (specifiers that print unquoted only)
		if !strings.ContainsAny(s, "\"\\") && len(s) < 1500 {
			var ks, hs [][]byte
			r.emit(true, "policy-render", "c20.pol_render", policyToks(p, &ks, &hs), []string{"0", hb([]byte(s))})
			muts := []string{s, " " + s + " ", strings.ReplaceAll(s, "(", " ( "), strings.ReplaceAll(s, ",", " ,\t"), s + ")", s[:len(s)-1], strings.Replace(s, "(", "((", 1),
				strings.Replace(s, "0x", "0X", 1), strings.Replace(s, "0x", "", 1), strings.ToUpper(s), strings.Replace(s, "])", ",])", 1), strings.Replace(s, "[", "[,", 1),
				strings.Replace(s, "(", "(+", 1), strings.Replace(s, "(", "(-", 1), strings.Replace(s, "(", "(0", 1), s + "x", "x" + s}
			if k := r.rng.IntN(len(s)); true {
				muts = append(muts, s[:k]+s[k+1:], s[:k]+string("0a(),[]: x"[r.rng.IntN(10)])+s[k:])
			}
			for _, m := range muts {
				if strings.ContainsAny(m, "\"\\") {
					continue
				}
				q, err := types.ParseSpendPolicy(m)
				want := []string{"1"}
				if err == nil {
					qs := q.String()
					if strings.ContainsAny(qs, "\"\\") {
						continue
					}
					want = []string{"0", hb([]byte(qs))}
				}
				r.emit(true, "policy-parse-"+want[0], "c20.pol_parse", []string{hb([]byte(m))}, want)
			}
		}
		js, _ := json.Marshal(p)
		var pj types.SpendPolicy
		if err := json.Unmarshal(js, &pj); err != nil || pj.Address() != p.Address() {
			key := "c20.policy-json"
			if strings.ContainsAny(specifiersOf(p), "(),[]: \t\n\"") {
				key = "known.F6"
			}
			r.violate(key, "policy JSON %s does not parse back to the same policy: %v", trunc(js), err)
		}
		// specifier
		var sp types.Specifier
		r.fillBytes(sp[:r.rng.IntN(17)])
		if r.rng.IntN(2) == 0 {
			sp = types.NewSpecifier([]string{"ed25519", "entropy", "a b", "x\"y", "(", "ü", ""}[r.rng.IntN(7)])
		}
		if utf8.Valid(bytes.TrimRight(sp[:], "\x00")) {
			txt, _ := sp.MarshalText()
			var sp2 types.Specifier
			err := sp2.UnmarshalText(txt)
			r.count("oracle-specifier-text")
			if err != nil || sp2 != sp {
				r.violate("c20.specifier-text", "specifier %q prints as %q which parses as %q (%v)", sp[:], txt, sp2[:], err)
			}
		}
		// public key, chain index, unlock key
		var pk types.PublicKey
		r.fillBytes(pk[:])
		var pk2 types.PublicKey
		if err := pk2.UnmarshalText([]byte(pk.String())); err != nil || pk2 != pk {
			r.violate("c20.publickey-text", "public key does not parse back: %v", err)
		}
		for _, bad := range []string{pk.String()[8:], "ed25519" + pk.String()[8:], "sig:" + pk.String()[8:], pk.String()[:len(pk.String())-1], pk.String() + "0", "ED25519:" + pk.String()[8:]} {
			var pk3 types.PublicKey
			var err error
			pan, msg := try(func() { err = pk3.UnmarshalText([]byte(bad)) })
			if pan {
				r.violate("c20.text-panic:PublicKey", "PublicKey.UnmarshalText(%q) panicked: %s", bad, msg)
			} else if err == nil && pk3 != pk {
				r.violate("c20.id-accepted-as-other:PublicKey", "%q accepted as a different public key", bad)
			} else if err == nil {
				r.violate("c20.publickey-prefix", "%q (wrong prefix or length) accepted as a public key", bad)
			}
		}
		ci := types.ChainIndex{Height: r.rng.Uint64() >> uint(r.rng.IntN(64)), ID: types.BlockID(r.randHash())}
		txt, _ := ci.MarshalText()
		var ci2 types.ChainIndex
		if err := ci2.UnmarshalText(txt); err != nil || ci2 != ci {
			r.violate("c20.chainindex-text", "chain index %q does not parse back: %v", txt, err)
		}
		for _, bad := range []string{string(txt) + "0", string(txt[:len(txt)-1]), strings.Replace(string(txt), "::", ":", 1), "-1" + string(txt[1:]), string(txt) + "::00"} {
			var ci3 types.ChainIndex
			var err error
			pan, msg := try(func() { err = ci3.UnmarshalText([]byte(bad)) })
			if pan {
				r.violate("c20.text-panic:ChainIndex", "ChainIndex.UnmarshalText(%q) panicked: %s", bad, msg)
			} else if err == nil && ci3 != ci {
				r.violate("c20.id-accepted-as-other:ChainIndex", "%q accepted as the different chain index %v", bad, ci3)
			}
		}
		uk := types.UnlockKey{Algorithm: types.SpecifierEd25519, Key: r.randBytes(r.rng.IntN(40))}
		if r.rng.IntN(3) == 0 {
			uk.Algorithm = types.NewSpecifier("entropy")
		}
		txt, _ = uk.MarshalText()
		var uk2 types.UnlockKey
		if err := uk2.UnmarshalText(txt); err != nil || uk2.Algorithm != uk.Algorithm || !bytes.Equal(uk2.Key, uk.Key) {
			r.violate("c20.unlockkey-text", "unlock key %q does not parse back: %v", txt, err)
		}
		// rhp4 protocol version and account
		pv := rhp4.ProtocolVersion{byte(r.rng.IntN(256)), byte(r.rng.IntN(256)), byte(r.rng.IntN(256))}
		txt, _ = pv.MarshalText()
		var pv2 rhp4.ProtocolVersion
		if err := pv2.UnmarshalText(txt); err != nil || pv2 != pv {
			r.violate("c20.version-text", "protocol version %q does not parse back: %v", txt, err)
		}
		var acc rhp4.Account
		r.fillBytes(acc[:])
		txt, _ = acc.MarshalText()
		var acc2 rhp4.Account
		if err := acc2.UnmarshalText(txt); err != nil || acc2 != acc {
			r.violate("c20.account-text", "account %q does not parse back: %v", txt, err)
		}
		for _, bad := range []string{string(txt) + "00", string(txt[:len(txt)-2]), "acct" + string(txt[4:]), string(txt[5:])} {
			var a3 rhp4.Account
			var err error
			pan, msg := try(func() { err = a3.UnmarshalText([]byte(bad)) })
			if pan {
				r.violate("c20.text-panic:Account", "Account.UnmarshalText(%q) panicked: %s", bad, msg)
			} else if err == nil && a3 != acc {
				r.violate("c20.id-accepted-as-other:Account", "%q accepted as a different account", bad)
			}
		}
	}
}

func specifiersOf(p types.SpendPolicy) string {
	var sb strings.Builder
	switch t := p.Type.(type) {
	case types.PolicyTypeUnlockConditions:
		for _, k := range t.PublicKeys {
			sb.Write(bytes.TrimRight(k.Algorithm[:], "\x00"))
		}
	case types.PolicyTypeThreshold:
		for _, q := range t.Of {
			sb.WriteString(specifiersOf(q))
		}
	}
	return sb.String()
}

// an apply/revert update that has been through JSON refreshes element proofs exactly as the original does
func c20Updates(r *Run) {
	for ci := 0; ci < r.pick(6, 120); ci++ {
		n := r.ledgerNet()
		allow, require := r.ledgerEra(ci)
		c := newLChain(r, n, allow, require)
		for step := 0; step < 18; step++ {
			b, bs := c.honestBlock()
			cs := c.cs()
			if err := consensus.ValidateBlock(cs, b, bs); err != nil {
				break
			}
			st := c.st()
			_, au := consensus.ApplyBlock(cs, cloneBlock(b), bs, time.Time{})
			js, err := json.Marshal(au)
			if err != nil {
				r.violate("c20.update-json", "ApplyUpdate does not marshal: %v", err)
				break
			}
			var au2 consensus.ApplyUpdate
			pan, msg := try(func() { err = json.Unmarshal(js, &au2) })
			if pan || err != nil {
				r.violate("c20.update-json", "ApplyUpdate JSON does not parse back: %v %s", err, msg)
				break
			}
			js2, _ := json.Marshal(au2)
			if !bytes.Equal(js, js2) {
				r.violate("c20.update-json", "ApplyUpdate JSON differs after a round trip")
			}
			ru := consensus.RevertBlock(cs, cloneBlock(b), bs)
			jr, _ := json.Marshal(ru)
			var ru2 consensus.RevertUpdate
			pan, msg = try(func() { err = json.Unmarshal(jr, &ru2) })
			if pan || err != nil {
				r.violate("c20.update-json", "RevertUpdate JSON does not parse back: %v %s", err, msg)
				break
			}
			// every tracked element that survives the block: both updates must produce the same proof
			spent := map[types.Hash256]bool{}
			for _, d := range au.SiacoinElementDiffs() {
				if d.Spent {
					spent[types.Hash256(d.SiacoinElement.ID)] = true
				}
			}
			check := func(kind string, se types.StateElement) {
				a, bb := se, se
				a.MerkleProof = append([]types.Hash256(nil), se.MerkleProof...)
				bb.MerkleProof = append([]types.Hash256(nil), se.MerkleProof...)
				p1, _ := try(func() { au.UpdateElementProof(&a) })
				p2, m2 := try(func() { au2.UpdateElementProof(&bb) })
				r.count("oracle-update-json-proof")
				if p1 != p2 || !reflect.DeepEqual(a, bb) {
					r.violate("c20.update-json-proof", "after JSON, ApplyUpdate refreshes the proof of a %s element (leaf %d) differently (panic %v %s)", kind, se.LeafIndex, p2, m2)
				}
			}
			for _, e := range sortedSC(st.sces) {
				if !spent[types.Hash256(e.ID)] {
					check("siacoin", e.StateElement)
				}
			}
			for _, e := range st.sfes {
				check("siafund", e.StateElement)
			}
			for _, e := range st.v2fces {
				check("v2 contract", e.StateElement)
			}
			for _, e := range st.fces {
				check("contract", e.StateElement)
			}
			if err := c.process(b, bs, true, "honest"); err != nil {
				break
			}
			// revert direction: elements of the new state, reverted by the original and by the JSON copy
			st2 := c.st()
			k := 0
			for _, e := range sortedSC(st2.sces) {
				if k++; k > 12 {
					break
				}
				if e.StateElement.LeafIndex >= cs.Elements.NumLeaves {
					continue
				}
				a, bb := e.Copy().StateElement, e.Copy().StateElement
				p1, _ := try(func() { ru.UpdateElementProof(&a) })
				p2, _ := try(func() { ru2.UpdateElementProof(&bb) })
				r.count("oracle-revert-json-proof")
				if p1 != p2 || !reflect.DeepEqual(a, bb) {
					r.violate("c20.update-json-proof", "after JSON, RevertUpdate refreshes the proof of leaf %d differently", e.StateElement.LeafIndex)
				}
			}
		}
	}
}

func runC20(r *Run) {
	c20HexIDs(r)
	c20Addresses(r)
	c20Currencies(r)
	c20JSON(r)
	c20Misc(r)
	c20Updates(r)
	c20Forms(r)
}
