package main

import (
	"bytes"
	"io"

	"go.sia.tech/core/blake2b"
	rhp2 "go.sia.tech/core/rhp/v2"
	rhp4 "go.sia.tech/core/rhp/v4"
	"go.sia.tech/core/types"
	"golang.org/x/sys/cpu"
)

func init() { props["C16"] = runC16 }

func hashToks(hs []types.Hash256) []string {
	t := []string{hx(uint64(len(hs)))}
	for i := range hs {
		t = append(t, hb(hs[i][:]))
	}
	return t
}

func (r *Run) randHashes(n int) []types.Hash256 {
	out := make([]types.Hash256, n)
	for i := range out {
		out[i] = r.randHash()
	}
	return out
}

func cat(ts ...[]string) []string {
	var out []string
	for _, t := range ts {
		out = append(out, t...)
	}
	return out
}

func tryBool(f func() bool) []string {
	var v bool
	p, _ := try(func() { v = f() })
	if p {
		return []string{"2", "1"}
	}
	return []string{hbool(v)}
}

func c16Range(r *Run, roots []types.Hash256, start, end uint64, class string, corrupt bool) {
	n := uint64(len(roots))
	root := rhp2.MetaRoot(roots)
	proof := rhp2.BuildSectorRangeProof(roots, start, end)
	r.emit(n > 2, class, "c16.build_range", cat(hashToks(roots), []string{hx(start), hx(end)}), hashToks(proof))
	sz := rhp2.RangeProofSize(n, start, end)
	r.emit(n > 2, class, "c16.sizes", []string{hx(n), hx(start), hx(end)}, []string{hx(sz)})
	if uint64(len(proof)) != sz {
		r.violate("c16.range-size", "RangeProofSize(%d,%d,%d)=%d but built proof has %d hashes", n, start, end, sz, len(proof))
	}
	rr := roots[start:end]
	verify := func(p, rr []types.Hash256, s, e, n uint64, root types.Hash256, want bool, what string) {
		var ok bool
		pan, msg := try(func() { ok = rhp2.VerifySectorRangeProof(p, rr, s, e, n, root) })
		if pan {
			r.violate("c16.range-panic", "VerifySectorRangeProof panicked (%s) on %s n=%d [%d,%d)", msg, what, n, s, e)
			return
		}
		r.emit(true, class+"/"+what, "c16.verify_range", cat(hashToks(p), hashToks(rr), []string{hx(s), hx(e), hx(n), hb(root[:])}), []string{hbool(ok)})
		if ok != want {
			r.violate("c16.range-"+what, "VerifySectorRangeProof on %s (n=%d, range [%d,%d)) = %v, want %v", what, n, s, e, ok, want)
		}
	}
	verify(proof, rr, start, end, n, root, true, "honest")
	if ok := rhp4.VerifySectorRootsProof(proof, rr, n, start, end, root); !ok {
		r.violate("c16.range-v4", "rhp4.VerifySectorRootsProof rejects the honest proof n=%d [%d,%d)", n, start, end)
	}
	if !corrupt {
		return
	}
	// every single-element corruption, count held true
	for i := range proof {
		p := append([]types.Hash256(nil), proof...)
		p[i][r.rng.IntN(32)] ^= 1 << r.rng.IntN(8)
		verify(p, rr, start, end, n, root, false, "proof-hash")
	}
	for i := range rr {
		q := append([]types.Hash256(nil), rr...)
		q[i][r.rng.IntN(32)] ^= 1 << r.rng.IntN(8)
		verify(proof, q, start, end, n, root, false, "datum")
	}
	bad := root
	bad[r.rng.IntN(32)] ^= 4
	verify(proof, rr, start, end, n, bad, false, "root")
	if len(proof) > 0 {
		verify(proof[:len(proof)-1], rr, start, end, n, root, false, "short")
		verify(proof[1:], rr, start, end, n, root, false, "short")
	}
	verify(append(append([]types.Hash256(nil), proof...), r.randHash()), rr, start, end, n, root, false, "long")
	// shifted index (same length): proves other positions
	if end < n {
		want := bytes.Equal(flat(roots[start+1:end+1]), flat(rr)) && false
		verify(proof, rr, start+1, end+1, n, root, want, "index")
	}
	if start > 0 {
		verify(proof, rr, start-1, end-1, n, root, false, "index")
	}
}

func flat(hs []types.Hash256) []byte {
	var b []byte
	for i := range hs {
		b = append(b, hs[i][:]...)
	}
	return b
}

func actionToks(as []rhp2.RPCWriteAction) []string {
	t := []string{hx(uint64(len(as)))}
	for _, a := range as {
		switch a.Type {
		case rhp2.RPCWriteActionAppend:
			t = append(t, "0")
		case rhp2.RPCWriteActionTrim:
			t = append(t, "1", hx(a.A))
		case rhp2.RPCWriteActionSwap:
			t = append(t, "2", hx(a.A), hx(a.B))
		}
	}
	return t
}

// apply actions to a root list (reference semantics of RPCWrite)
func applyActions(roots []types.Hash256, as []rhp2.RPCWriteAction, appendRoots []types.Hash256) []types.Hash256 {
	out := append([]types.Hash256(nil), roots...)
	for _, a := range as {
		switch a.Type {
		case rhp2.RPCWriteActionAppend:
			out = append(out, appendRoots[0])
			appendRoots = appendRoots[1:]
		case rhp2.RPCWriteActionTrim:
			out = out[:uint64(len(out))-a.A]
		case rhp2.RPCWriteActionSwap:
			out[a.A], out[a.B] = out[b2i(a.B)], out[b2i(a.A)]
		}
	}
	return out
}
func b2i(x uint64) uint64 { return x }

func c16Diff(r *Run, roots []types.Hash256, as []rhp2.RPCWriteAction, appendRoots []types.Hash256, class string, corrupt bool) {
	n := uint64(len(roots))
	oldRoot := rhp2.MetaRoot(roots)
	newRoots := applyActions(roots, as, appendRoots)
	newRoot := rhp2.MetaRoot(newRoots)
	th, lh := rhp2.BuildDiffProof(as, roots)
	sz := rhp2.DiffProofSize(as, n)
	r.emit(true, class, "c16.build_diff", cat(actionToks(as), hashToks(roots)), cat(hashToks(th), hashToks(lh), []string{hx(sz)}))
	if uint64(len(th)+len(lh)) != sz {
		r.violate("c16.diff-size", "DiffProofSize=%d but proof has %d+%d hashes (n=%d, actions %v)", sz, len(th), len(lh), n, actionToks(as))
	}
	verify := func(th, lh []types.Hash256, n uint64, o, nw types.Hash256, ar []types.Hash256, want bool, what string) {
		res := tryBool(func() bool { return rhp2.VerifyDiffProof(as, n, th, lh, o, nw, ar) })
		r.emit(true, class+"/"+what, "c16.verify_diff", cat(actionToks(as), []string{hx(n)}, hashToks(th), hashToks(lh), []string{hb(o[:]), hb(nw[:])}, hashToks(ar)), res)
		if len(res) == 1 && (res[0] == "1") != want {
			r.violate("c16.diff-"+what, "VerifyDiffProof on %s (n=%d, actions %v) = %s, want %v", what, n, actionToks(as), res[0], want)
		}
		if len(res) == 2 && want {
			r.violate("c16.diff-panic", "VerifyDiffProof panicked on the honest proof (n=%d, actions %v)", n, actionToks(as))
		}
	}
	verify(th, lh, n, oldRoot, newRoot, appendRoots, true, "honest")
	if !corrupt {
		return
	}
	for i := range th {
		p := append([]types.Hash256(nil), th...)
		p[i][r.rng.IntN(32)] ^= 2
		verify(p, lh, n, oldRoot, newRoot, appendRoots, false, "tree-hash")
	}
	for i := range lh {
		p := append([]types.Hash256(nil), lh...)
		p[i][r.rng.IntN(32)] ^= 2
		verify(th, p, n, oldRoot, newRoot, appendRoots, false, "leaf-hash")
	}
	b := oldRoot
	b[3] ^= 1
	verify(th, lh, n, b, newRoot, appendRoots, false, "old-root")
	b = newRoot
	b[7] ^= 1
	verify(th, lh, n, oldRoot, b, appendRoots, false, "new-root")
	if len(th) > 0 {
		verify(th[:len(th)-1], lh, n, oldRoot, newRoot, appendRoots, false, "short")
	}
	verify(append(append([]types.Hash256(nil), th...), r.randHash()), lh, n, oldRoot, newRoot, appendRoots, false, "long")
}

func c16Free(r *Run, roots []types.Hash256, freed []uint64, class string) {
	n := uint64(len(roots))
	oldRoot := rhp2.MetaRoot(roots)
	// reference: swap freed[i] with n-i-1, then trim
	nr := append([]types.Hash256(nil), roots...)
	for i, f := range freed {
		nr[f], nr[n-uint64(i)-1] = nr[n-uint64(i)-1], nr[f]
	}
	nr = nr[:n-uint64(len(freed))]
	newRoot := rhp2.MetaRoot(nr)
	th, lh := rhp4.BuildFreeSectorsProof(roots, freed)
	ft := []string{hx(uint64(len(freed)))}
	for _, f := range freed {
		ft = append(ft, hx(f))
	}
	r.emit(true, class, "c16.build_free", cat(ft, hashToks(roots)), cat(hashToks(th), hashToks(lh)))
	res := tryBool(func() bool { return rhp4.VerifyFreeSectorsProof(th, lh, freed, n, oldRoot, newRoot) })
	r.emit(true, class, "c16.verify_free", cat(ft, []string{hx(n)}, hashToks(th), hashToks(lh), []string{hb(oldRoot[:]), hb(newRoot[:])}), res)
	if len(res) != 1 || res[0] != "1" {
		r.violate("c16.free-honest", "VerifyFreeSectorsProof rejects the honest proof: n=%d freed=%v -> %v", n, freed, res)
	}
	// wrong new root
	b := newRoot
	b[0] ^= 1
	res = tryBool(func() bool { return rhp4.VerifyFreeSectorsProof(th, lh, freed, n, oldRoot, b) })
	r.emit(true, class+"/new-root", "c16.verify_free", cat(ft, []string{hx(n)}, hashToks(th), hashToks(lh), []string{hb(oldRoot[:]), hb(b[:])}), res)
	if len(res) == 1 && res[0] == "1" {
		r.violate("c16.free-new-root", "VerifyFreeSectorsProof accepts a wrong new root: n=%d freed=%v", n, freed)
	}
}

func c16Append(r *Run, roots, appended []types.Hash256, class string) {
	n := uint64(len(roots))
	oldRoot := rhp2.MetaRoot(roots)
	newRoot := rhp2.MetaRoot(append(append([]types.Hash256(nil), roots...), appended...))
	sub, nr := rhp4.BuildAppendProof(roots, appended)
	r.emit(true, class, "c16.build_append", cat(hashToks(roots), hashToks(appended)), cat(hashToks(sub), []string{hb(nr[:])}))
	if nr != newRoot {
		r.violate("c16.append-root", "BuildAppendProof new root differs from MetaRoot of the extended list (n=%d, +%d)", n, len(appended))
	}
	chk := func(sub, app []types.Hash256, o, nw types.Hash256, want bool, what string) {
		ok := rhp4.VerifyAppendSectorsProof(n, sub, app, o, nw)
		r.emit(true, class+"/"+what, "c16.verify_append_sectors", cat([]string{hx(n)}, hashToks(sub), hashToks(app), []string{hb(o[:]), hb(nw[:])}), []string{hbool(ok)})
		if ok != want {
			r.violate("c16.append-"+what, "VerifyAppendSectorsProof on %s (n=%d, +%d) = %v, want %v", what, n, len(app), ok, want)
		}
	}
	chk(sub, appended, oldRoot, newRoot, true, "honest")
	for i := range sub {
		p := append([]types.Hash256(nil), sub...)
		p[i][5] ^= 1
		chk(p, appended, oldRoot, newRoot, false, "subtree-root")
	}
	for i := range appended {
		p := append([]types.Hash256(nil), appended...)
		p[i][5] ^= 1
		chk(sub, p, oldRoot, newRoot, false, "datum")
	}
	b := newRoot
	b[1] ^= 1
	chk(sub, appended, oldRoot, b, false, "new-root")
	if n > 0 {
		b = oldRoot
		b[1] ^= 1
		chk(sub, appended, b, newRoot, false, "old-root")
	}
	if len(appended) == 1 {
		ok := rhp2.VerifyAppendProof(n, sub, appended[0], oldRoot, newRoot)
		r.emit(true, class+"/v2", "c16.verify_append", cat([]string{hx(n)}, hashToks(sub), []string{hb(appended[0][:]), hb(oldRoot[:]), hb(newRoot[:])}), []string{hbool(ok)})
		if !ok {
			r.violate("c16.append-v2", "rhp2.VerifyAppendProof rejects the honest proof (n=%d)", n)
		}
		// the same corruptions for the v2 verifier: a tree hash, the appended root, the new root, the old root
		chk2 := func(sub []types.Hash256, app, o, nw types.Hash256, what string) {
			ok := rhp2.VerifyAppendProof(n, sub, app, o, nw)
			r.emit(true, class+"/v2-"+what, "c16.verify_append", cat([]string{hx(n)}, hashToks(sub), []string{hb(app[:]), hb(o[:]), hb(nw[:])}), []string{hbool(ok)})
			if ok {
				r.violate("c16.append-v2-"+what, "rhp2.VerifyAppendProof accepts a corrupted %s (n=%d)", what, n)
			}
		}
		for i := range sub {
			p := append([]types.Hash256(nil), sub...)
			p[i][5] ^= 1
			chk2(p, appended[0], oldRoot, newRoot, "subtree-root")
		}
		a := appended[0]
		a[5] ^= 1
		chk2(sub, a, oldRoot, newRoot, "datum")
		b = newRoot
		b[1] ^= 1
		chk2(sub, appended[0], oldRoot, b, "new-root")
		if n > 0 {
			b = oldRoot
			b[1] ^= 1
			chk2(sub, appended[0], b, newRoot, "old-root")
		}
	}
}

// data-level roots: ReaderRoot over k leaves with every chunking, both CPU paths; model hashes the data itself
func c16Data(r *Run) {
	for _, k := range []int{1, 2, 3, 4, 5, 7, 8, 9, 15, 16, 17, 31, 33, 64, 100} {
		data := make([]byte, 64*k)
		for i := range data {
			data[i] = byte(r.rng.IntN(256))
		}
		var roots [2]types.Hash256
		for pi, avx := range []bool{true, false} {
			old := cpu.X86.HasAVX2
			cpu.X86.HasAVX2 = avx && old
			root, err := rhp2.ReaderRoot(bytes.NewReader(data))
			if err != nil {
				r.violate("c16.readerroot-err", "ReaderRoot error %v", err)
			}
			// random chunking reader
			root2, _ := rhp2.ReaderRoot(&chunkReader{r: r, b: data})
			if root2 != root {
				r.violate("c16.chunking", "ReaderRoot depends on reader chunking (k=%d leaves, avx2=%v)", k, cpu.X86.HasAVX2)
			}
			cpu.X86.HasAVX2 = old
			roots[pi] = root
		}
		if roots[0] != roots[1] {
			r.violate("c16.cpu-path", "ReaderRoot differs between AVX2 and generic paths for %d leaves", k)
		}
		args := []string{hx(uint64(k))}
		for i := 0; i < k; i++ {
			args = append(args, hb(data[64*i:64*i+64]))
		}
		r.emit(true, "data-root", "c16.dataroot", args, []string{hb(roots[0][:])})
	}
}

type chunkReader struct {
	r *Run
	b []byte
}

func (c *chunkReader) Read(p []byte) (int, error) {
	if len(c.b) == 0 {
		return 0, io.EOF
	}
	n := 1 + c.r.rng.IntN(min(len(p), len(c.b), 200))
	copy(p, c.b[:n])
	c.b = c.b[n:]
	if len(c.b) == 0 {
		return n, nil
	}
	return n, nil
}

// full sector: SectorRoot / ReadSectorRoot / MetaRoot of leaf hashes / cached-subtree proofs on both CPU paths
func c16Sector(r *Run, nsectors int) {
	for s := 0; s < nsectors; s++ {
		var sector [rhp2.SectorSize]byte
		switch s % 3 {
		case 0:
			for i := 0; i < len(sector); i += 8 {
				v := r.rng.Uint64()
				for j := 0; j < 8; j++ {
					sector[i+j] = byte(v >> (8 * j))
				}
			}
		case 1: // structured: leaf index in each leaf
			for i := 0; i < rhp2.LeavesPerSector; i++ {
				sector[i*64] = byte(i)
				sector[i*64+1] = byte(i >> 8)
			}
		}
		// plain definition on the Go side: leaf hashes with the generic hasher, MetaRoot over them
		leafHashes := make([]types.Hash256, rhp2.LeavesPerSector)
		for i := range leafHashes {
			leafHashes[i] = blake2b.SumLeaf((*[64]byte)(sector[i*64 : i*64+64]))
		}
		var roots []types.Hash256
		for _, avx := range []bool{true, false} {
			old := cpu.X86.HasAVX2
			cpu.X86.HasAVX2 = avx && old
			a := rhp2.SectorRoot(&sector)
			b, _ := rhp2.ReadSectorRoot(bytes.NewReader(sector[:]))
			c, _ := rhp2.ReaderRoot(bytes.NewReader(sector[:]))
			d := rhp4.SectorRoot(&sector)
			cpu.X86.HasAVX2 = old
			if a != b || a != c || a != d {
				r.violate("c16.sector-root", "SectorRoot/ReadSectorRoot/ReaderRoot disagree (avx2 requested %v)", avx)
			}
			roots = append(roots, a)
		}
		plain := plainRoot(leafHashes)
		r.count("oracle-sector-root")
		if roots[0] != roots[1] || roots[0] != plain {
			r.violate("c16.sector-root-plain", "SectorRoot differs from the plain tree root (or between CPU paths)")
		}
		// a subtree of the sector goes to the model with its data: 128 leaves
		off := r.rng.IntN(rhp2.LeavesPerSector/128) * 128
		args := []string{hx(128)}
		for i := off; i < off+128; i++ {
			args = append(args, hb(sector[64*i:64*i+64]))
		}
		sub := plainRoot(leafHashes[off : off+128])
		r.emit(true, "sector-subtree", "c16.dataroot", args, []string{hb(sub[:])})
		// leaf-range proofs: v2 BuildProof, v4 BuildSectorProof with cache, verifier, against the plain range proof
		cache := rhp4.CachedSectorSubtrees(&sector)
		for t := 0; t < 6; t++ {
			var start, end uint64
			switch t {
			case 0:
				start, end = 0, 1
			case 1:
				start, end = rhp2.LeavesPerSector-1, rhp2.LeavesPerSector
			case 2:
				p := uint64(1) << r.rng.IntN(16)
				start, end = p-1, min(p+1, rhp2.LeavesPerSector)
			default:
				start = uint64(r.rng.IntN(rhp2.LeavesPerSector))
				end = start + 1 + uint64(r.rng.IntN(min(300, rhp2.LeavesPerSector-int(start))))
			}
			p2 := rhp2.BuildProof(&sector, start, end, nil)
			ss, se := rhp4.SectorSubtreeRange(start, end)
			p4 := rhp4.BuildSectorProof(sector[ss*64:se*64], start, end, cache)
			ref := rhp2.BuildSectorRangeProof(leafHashes, start, end) // plain definition over leaf hashes
			r.count("oracle-sector-proof")
			if !hashesEq(p2, ref) || !hashesEq(p4, ref) {
				r.violate("c16.sector-proof", "BuildProof/BuildSectorProof differ from the plain range proof for leaves [%d,%d)", start, end)
			}
			rpvEmit := func(what string, pr []types.Hash256, ok bool) {
				r.emit(true, "rpv/"+what, "c16.rpv_verify", cat(hashToks(pr), hashToks(leafHashes[start:end]), []string{hx(start), hx(end), hx(rhp2.LeavesPerSector), hb(roots[0][:])}), []string{hbool(ok)})
			}
			v := rhp2.NewRangeProofVerifier(start, end)
			v.ReadFrom(bytes.NewReader(sector[start*64 : end*64]))
			okH := v.Verify(p2, roots[0])
			rpvEmit("honest", p2, okH)
			if !okH {
				r.violate("c16.sector-verify", "RangeProofVerifier rejects the honest proof for leaves [%d,%d)", start, end)
			}
			v = rhp2.NewRangeProofVerifier(start, end)
			v.ReadFrom(bytes.NewReader(sector[start*64 : end*64]))
			if len(p2) > 0 {
				q := append([]types.Hash256(nil), p2...)
				q[r.rng.IntN(len(q))][0] ^= 1
				okC := v.Verify(q, roots[0])
				rpvEmit("corrupt", q, okC)
				if okC {
					r.violate("c16.sector-verify-corrupt", "RangeProofVerifier accepts a corrupted proof for leaves [%d,%d)", start, end)
				}
			}
			v = rhp2.NewRangeProofVerifier(start, end)
			v.ReadFrom(bytes.NewReader(sector[start*64 : end*64]))
			longP := append(append([]types.Hash256(nil), p2...), r.randHash())
			okL := v.Verify(longP, roots[0])
			rpvEmit("long", longP, okL)
			if okL {
				r.violate("c16.sector-verify-long", "RangeProofVerifier accepts an over-long proof for leaves [%d,%d)", start, end)
			}
			if end == start+1 {
				var leaf [64]byte
				copy(leaf[:], sector[start*64:])
				if !rhp4.VerifyLeafProof(p2, leaf, start, roots[0]) {
					r.violate("c16.leaf-proof", "VerifyLeafProof rejects the honest proof of leaf %d", start)
				}
				leaf[9] ^= 1
				if rhp4.VerifyLeafProof(p2, leaf, start, roots[0]) {
					r.violate("c16.leaf-proof-corrupt", "VerifyLeafProof accepts altered data for leaf %d", start)
				}
				// consensus ordering
				conv := rhp2.ConvertProofOrdering(p2, start)
				r.emit(true, "convert-order", "c16.convert_order", cat(hashToks(p2), []string{hx(start)}), hashToks(conv))
			}
		}
	}
}

func plainRoot(hs []types.Hash256) types.Hash256 {
	if len(hs) == 0 {
		return types.Hash256{}
	} else if len(hs) == 1 {
		return hs[0]
	}
	k := 1
	for k*2 < len(hs) {
		k *= 2
	}
	return blake2b.SumPair(plainRoot(hs[:k]), plainRoot(hs[k:]))
}

func runC16(r *Run) {
	// meta roots for every count
	maxN := r.pick(70, 300)
	for n := 0; n <= maxN; n++ {
		hs := r.randHashes(n)
		root := rhp2.MetaRoot(hs)
		r.emit(n > 1, "metaroot", "c16.mroot", hashToks(hs), []string{hb(root[:])})
		if root != plainRoot(hs) {
			r.violate("c16.metaroot", "MetaRoot of %d roots differs from the plain tree", n)
		}
	}
	// all (n, start, end) up to a bound; corruptions on a sample
	bound := r.pick(14, 40)
	for n := 1; n <= bound; n++ {
		roots := r.randHashes(n)
		for s := 0; s < n; s++ {
			for e := s + 1; e <= n; e++ {
				c16Range(r, roots, uint64(s), uint64(e), "range-exhaustive", n <= r.pick(7, 12) || r.rng.IntN(r.pick(40, 25)) == 0)
			}
		}
	}
	for i := 0; i < r.pick(40, 1500); i++ {
		n := 1 + r.rng.IntN(r.pick(300, 2000))
		if i%4 == 0 {
			p := 1 << r.rng.IntN(10)
			n = max(1, p+r.rng.IntN(3)-1)
		}
		roots := r.randHashes(n)
		s := r.rng.IntN(n)
		e := s + 1 + r.rng.IntN(n-s)
		c16Range(r, roots, uint64(s), uint64(e), "range-random", i%5 == 0)
	}
	// contracts with more sectors than a sector has leaves (65536): sizes recomputed by the model, honest proofs verified
	for _, n := range []int{65535, 65536, 65537, 70000, 131072, 131075} {
		roots := make([]types.Hash256, n)
		for i := range roots {
			roots[i][0], roots[i][1], roots[i][2], roots[i][3] = byte(i), byte(i>>8), byte(i>>16), 0x5c
		}
		root := rhp2.MetaRoot(roots)
		for k := 0; k < r.pick(4, 40); k++ {
			s := r.rng.IntN(n)
			if k%2 == 0 {
				s = 65000 + r.rng.IntN(n-65000)
			}
			e := s + 1 + r.rng.IntN(min(n-s, 700))
			proof := rhp2.BuildSectorRangeProof(roots, uint64(s), uint64(e))
			sz := rhp2.RangeProofSize(uint64(n), uint64(s), uint64(e))
			r.emit(true, "range-large", "c16.sizes", []string{hx(uint64(n)), hx(uint64(s)), hx(uint64(e))}, []string{hx(sz)})
			r.count("oracle-range-large")
			if uint64(len(proof)) != sz {
				r.violate("c16.range-size", "RangeProofSize(%d,%d,%d)=%d but the built proof has %d hashes", n, s, e, sz, len(proof))
			}
			if !rhp2.VerifySectorRangeProof(proof, roots[s:e], uint64(s), uint64(e), uint64(n), root) {
				r.violate("c16.range-honest", "the honest range proof for sectors [%d,%d) of %d is rejected", s, e, n)
			}
			p4 := rhp4.BuildSectorRootsProof(roots, uint64(s), uint64(e))
			if !rhp4.VerifySectorRootsProof(p4, roots[s:e], uint64(n), uint64(s), uint64(e), root) {
				r.violate("c16.range-honest", "the honest rhp/v4 sector roots proof for [%d,%d) of %d is rejected", s, e, n)
			}
		}
	}
	// append proofs
	for n := 0; n <= r.pick(20, 80); n++ {
		for _, k := range []int{1, 2, 3, 7} {
			c16Append(r, r.randHashes(n), r.randHashes(k), "append")
		}
	}
	// free-sector (swap then trim) proofs: all subsets for small n, random beyond
	for n := 1; n <= r.pick(6, 10); n++ {
		roots := r.randHashes(n)
		for mask := 1; mask < 1<<n; mask++ {
			var freed []uint64
			for i := 0; i < n; i++ {
				if mask&(1<<i) != 0 {
					freed = append(freed, uint64(i))
				}
			}
			r.rng.Shuffle(len(freed), func(i, j int) { freed[i], freed[j] = freed[j], freed[i] })
			c16Free(r, roots, freed, "free-exhaustive")
		}
	}
	for i := 0; i < r.pick(40, 800); i++ {
		n := 2 + r.rng.IntN(r.pick(120, 600))
		roots := r.randHashes(n)
		k := 1 + r.rng.IntN(min(n, 12))
		var freed []uint64
		for _, x := range r.pickIdxs(n, k) {
			freed = append(freed, uint64(x))
		}
		c16Free(r, roots, freed, "free-random")
	}
	// general v2 diff proofs: swaps, trims and appends in any order
	for i := 0; i < r.pick(150, 3000); i++ {
		n := 1 + r.rng.IntN(r.pick(40, 200))
		roots := r.randHashes(n)
		cur := n
		var as []rhp2.RPCWriteAction
		var ar []types.Hash256
		for k := 0; k < 1+r.rng.IntN(5); k++ {
			switch r.rng.IntN(3) {
			case 0:
				as = append(as, rhp2.RPCWriteAction{Type: rhp2.RPCWriteActionAppend})
				ar = append(ar, r.randHash())
				cur++
			case 1:
				if cur > 0 {
					t := 1 + r.rng.IntN(min(cur, 3))
					as = append(as, rhp2.RPCWriteAction{Type: rhp2.RPCWriteActionTrim, A: uint64(t)})
					cur -= t
				}
			case 2:
				if cur > 1 {
					a, b := r.rng.IntN(cur), r.rng.IntN(cur)
					as = append(as, rhp2.RPCWriteAction{Type: rhp2.RPCWriteActionSwap, A: uint64(a), B: uint64(b)})
				}
			}
		}
		if len(as) == 0 {
			continue
		}
		c16Diff(r, roots, as, ar, "diff-random", i%4 == 0)
	}
	// grafted proofs: one tree hash fewer, an interior node presented as the last leaf hash (fixed 7283819)
	for n := 4; n <= r.pick(40, 200); n += 2 {
		c16Graft(r, r.randHashes(n))
	}
	c16Data(r)
	c16Sector(r, r.pick(2, 12))
}

// c16Graft: trimming (or freeing) the last of an even number of sectors. The honest proof ends with the root of sector
// n-2 as a one-leaf subtree followed by the leaf hash of sector n-1; the grafted proof drops that tree hash and presents
// node(root[n-2], root[n-1]) as the leaf hash, with the root of the first n-2 sectors as the new root.
func c16Graft(r *Run, roots []types.Hash256) {
	n := uint64(len(roots))
	as := []rhp2.RPCWriteAction{{Type: rhp2.RPCWriteActionTrim, A: 1}}
	oldRoot := rhp2.MetaRoot(roots)
	th, _ := rhp2.BuildDiffProof(as, roots)
	if len(th) == 0 {
		return
	}
	gth := th[:len(th)-1]
	glh := []types.Hash256{types.Hash256(blake2b.SumPair(roots[n-2], roots[n-1]))}
	gnew := rhp2.MetaRoot(roots[:n-2])
	res := tryBool(func() bool { return rhp2.VerifyDiffProof(as, n, gth, glh, oldRoot, gnew, nil) })
	r.emit(true, "diff-graft", "c16.verify_diff", cat(actionToks(as), []string{hx(n)}, hashToks(gth), hashToks(glh), []string{hb(oldRoot[:]), hb(gnew[:])}, hashToks(nil)), res)
	if len(res) != 1 || res[0] != "0" {
		r.violate("c16.diff-graft", "VerifyDiffProof accepts a proof with one tree hash fewer and an interior node as leaf hash (n=%d, trim 1): %v", n, res)
	}
	freed := []uint64{n - 1}
	ft := []string{hx(1), hx(n - 1)}
	res = tryBool(func() bool { return rhp4.VerifyFreeSectorsProof(gth, glh, freed, n, oldRoot, gnew) })
	r.emit(true, "free-graft", "c16.verify_free", cat(ft, []string{hx(n)}, hashToks(gth), hashToks(glh), []string{hb(oldRoot[:]), hb(gnew[:])}), res)
	if len(res) != 1 || res[0] != "0" {
		r.violate("c16.free-graft", "VerifyFreeSectorsProof accepts a proof with one tree hash fewer and an interior node as leaf hash (n=%d, freed %d): %v", n, n-1, res)
	}
}
