package main

import (
	"encoding/json"
	"fmt"
	"math/big"
	"strings"

	"go.sia.tech/core/types"
)

func init() { props["C15"] = runC15 }

var two128 = new(big.Int).Lsh(big.NewInt(1), 128)
var two64 = new(big.Int).Lsh(big.NewInt(1), 64)

func curOfBig(b *big.Int) types.Currency {
	m := new(big.Int).Mod(b, two128)
	return types.NewCurrency(new(big.Int).Mod(m, two64).Uint64(), new(big.Int).Rsh(m, 64).Uint64())
}

func c15Boundary() []types.Currency {
	var out []types.Currency
	seen := map[types.Currency]bool{}
	add := func(b *big.Int) {
		if b.Sign() < 0 || b.Cmp(two128) >= 0 {
			return
		}
		c := curOfBig(b)
		if !seen[c] {
			seen[c] = true
			out = append(out, c)
		}
	}
	for _, e := range []uint{0, 1, 31, 32, 33, 63, 64, 65, 95, 96, 126, 127, 128} {
		p := new(big.Int).Lsh(big.NewInt(1), e)
		for d := int64(-2); d <= 2; d++ {
			add(new(big.Int).Add(p, big.NewInt(d)))
		}
	}
	// values around sqrt(2^128), 2^64+2^63 and hi/lo limb patterns
	for _, s := range []string{"18446744073709551615", "27670116110564327424", "13043817825332782212", "340282366920938463463374607431768211455",
		"170141183460469231731687303715884105727", "79228162514264337593543950336", "1000000000000000000000000", "10000"} {
		b, _ := new(big.Int).SetString(s, 10)
		add(b)
		add(new(big.Int).Add(b, big.NewInt(1)))
	}
	return out
}

func (r *Run) randCur() types.Currency {
	// magnitude drawn per limb
	lim := func() uint64 {
		switch r.rng.IntN(6) {
		case 0:
			return 0
		case 1:
			return uint64(r.rng.IntN(4))
		case 2:
			return ^uint64(0) - uint64(r.rng.IntN(4))
		case 3:
			return r.rng.Uint64() >> uint(r.rng.IntN(64))
		default:
			return r.rng.Uint64()
		}
	}
	return types.NewCurrency(lim(), lim())
}

func curToks(c types.Currency) []string { return []string{hx(c.Lo), hx(c.Hi)} }

func panicToks(msg string) []string {
	switch {
	case strings.Contains(msg, "underflow"):
		return []string{"2", "3"}
	case strings.Contains(msg, "divide by zero"):
		return []string{"2", "4"}
	case strings.Contains(msg, "overflow"):
		return []string{"2", "2"}
	}
	return []string{"2", "ff", msg}
}

func c15Pair(r *Run, a, b types.Currency, class string) {
	A, B := a.Big(), b.Big()
	args := append(curToks(a), curToks(b)...)
	// flag-returning forms
	s, ov := a.AddWithOverflow(b)
	r.emit(ov, class, "c15.add_wo", args, append(curToks(s), hbool(ov)))
	ex := new(big.Int).Add(A, B)
	if (ex.Cmp(two128) >= 0) != ov || s != curOfBig(ex) {
		r.violate("c15.add", "AddWithOverflow(%d,%d) = %d,%v; exact %d", a, b, s, ov, ex)
	}
	d, un := a.SubWithUnderflow(b)
	r.emit(un, class, "c15.sub_wu", args, append(curToks(d), hbool(un)))
	ex = new(big.Int).Sub(A, B)
	if (ex.Sign() < 0) != un || d != curOfBig(ex) {
		r.violate("c15.sub", "SubWithUnderflow(%d,%d) = %d,%v; exact %d", a, b, d, un, ex)
	}
	m, mov := a.MulWithOverflow(b)
	r.emit(mov || (a.Hi != 0 || b.Hi != 0), class, "c15.mul_wo", args, append(curToks(m), hbool(mov)))
	ex = new(big.Int).Mul(A, B)
	if (ex.Cmp(two128) >= 0) != mov || m != curOfBig(ex) {
		r.violate("c15.mul", "MulWithOverflow(%d,%d) = %d,%v; exact %d", a, b, m, mov, ex)
	}
	cmp := a.Cmp(b)
	r.emit(a.Hi == b.Hi, class, "c15.cmp", args, []string{hi(int64(cmp))})
	if cmp != A.Cmp(B) {
		r.violate("c15.cmp", "Cmp(%d,%d) = %d", a, b, cmp)
	}
	// panicking forms
	chk := func(name string, f func() types.Currency, exact *big.Int, defined bool) {
		var v types.Currency
		p, msg := try(func() { v = f() })
		if p {
			r.emit(true, class, name, args, panicToks(msg))
			if defined {
				r.violate(name, "%s(%d,%d) panicked (%s) although the exact result %d fits", name, a, b, msg, exact)
			}
		} else {
			r.emit(false, class, name, args, append([]string{"0"}, curToks(v)...))
			if !defined || v.Big().Cmp(exact) != 0 {
				r.violate(name, "%s(%d,%d) = %d; exact %v (representable: %v)", name, a, b, v, exact, defined)
			}
		}
	}
	sum := new(big.Int).Add(A, B)
	chk("c15.add", func() types.Currency { return a.Add(b) }, sum, sum.Cmp(two128) < 0)
	diff := new(big.Int).Sub(A, B)
	chk("c15.sub", func() types.Currency { return a.Sub(b) }, diff, diff.Sign() >= 0)
	prod := new(big.Int).Mul(A, B)
	chk("c15.mul", func() types.Currency { return a.Mul(b) }, prod, prod.Cmp(two128) < 0)
	if B.Sign() != 0 {
		chk("c15.div", func() types.Currency { return a.Div(b) }, new(big.Int).Quo(A, B), true)
	} else {
		chk("c15.div", func() types.Currency { return a.Div(b) }, nil, false)
	}
	// 64-bit forms with b.Lo
	v := b.Lo
	args3 := append(curToks(a), hx(v))
	V := new(big.Int).SetUint64(v)
	m64, ov64 := a.Mul64WithOverflow(v)
	r.emit(ov64, class, "c15.mul64_wo", args3, append(curToks(m64), hbool(ov64)))
	ex = new(big.Int).Mul(A, V)
	if (ex.Cmp(two128) >= 0) != ov64 || m64 != curOfBig(ex) {
		r.violate("c15.mul64", "Mul64WithOverflow(%d,%d) = %d,%v; exact %d", a, v, m64, ov64, ex)
	}
	chk3 := func(name string, f func() types.Currency, exact *big.Int, defined bool) {
		var x types.Currency
		p, msg := try(func() { x = f() })
		if p {
			r.emit(true, class, name, args3, panicToks(msg))
			if defined {
				r.violate(name, "%s(%d,%d) panicked (%s) although the exact result %d fits", name, a, v, msg, exact)
			}
		} else {
			r.emit(false, class, name, args3, append([]string{"0"}, curToks(x)...))
			if !defined || x.Big().Cmp(exact) != 0 {
				r.violate(name, "%s(%d,%d) = %d; exact %v (representable: %v)", name, a, v, x, exact, defined)
			}
		}
	}
	chk3("c15.mul64", func() types.Currency { return a.Mul64(v) }, ex, ex.Cmp(two128) < 0)
	if v != 0 {
		chk3("c15.div64", func() types.Currency { return a.Div64(v) }, new(big.Int).Quo(A, V), true)
	} else {
		chk3("c15.div64", func() types.Currency { return a.Div64(v) }, nil, false)
	}
}

// text forms: oracle only on the Go side (print, parse back, compare); malformed inputs rejected
func c15Text(r *Run, c types.Currency) {
	forms := []string{c.ExactString(), c.String(), fmt.Sprintf("%d", c), fmt.Sprintf("%v", c), fmt.Sprintf("%s", c)}
	js, _ := json.Marshal(c)
	var cj types.Currency
	if err := json.Unmarshal(js, &cj); err != nil || cj != c {
		r.violate("c15.text", "JSON round trip of %d: %s -> %d (%v)", c, js, cj, err)
	}
	for _, s := range forms {
		p, err := types.ParseCurrency(s)
		r.count("text-roundtrip")
		if s == c.String() && s != "0 SC" && !strings.HasSuffix(s, " H") {
			// unit-suffixed form keeps every digit (mantissa is not rounded)
		}
		if err != nil || p != c {
			r.violate("c15.text", "ParseCurrency(%q) = %d, %v; printed from %d", s, p, err, c)
		}
	}
}

func c15Malformed(r *Run) {
	bad := []string{"-1", "-1 SC", "1.5 H", "1.5", "0.0000000000001 pS", "340282366920938463463374607431768211456",
		"340282366920938463463374607431768211456 H", "340282366920939 SC", "1 XS", "", "SC", "1e400 H", "0.5 H", "-0.5 SC", "1..2 SC", "0x10"}
	for _, s := range bad {
		var c types.Currency
		var err error
		p, msg := try(func() { c, err = types.ParseCurrency(s) })
		r.count("text-malformed")
		if p {
			r.violate("c15.parse-panic", "ParseCurrency(%q) panicked: %s", s, msg)
		} else if err == nil {
			r.violate("c15.parse-accepts", "ParseCurrency(%q) accepted as %d", s, c)
		}
	}
	good := map[string]string{"1 SC": "1000000000000000000000000", "1.5 SC": "1500000000000000000000000", "0.000000000001 pS": "1", "1 pS": "1000000000000",
		"12 H": "12", "12": "12", "340282366920938.463463374607431768211455 SC": "340282366920938463463374607431768211455", "1 TS": "1000000000000000000000000000000000000"}
	for s, want := range good {
		c, err := types.ParseCurrency(s)
		r.count("text-good")
		if err != nil || c.ExactString() != want {
			r.violate("c15.parse-good", "ParseCurrency(%q) = %d, %v; want %s", s, c, err, want)
		}
	}
}

func runC15(r *Run) {
	bs := c15Boundary()
	for _, a := range bs {
		for _, b := range bs {
			c15Pair(r, a, b, "boundary-pair")
		}
		c15Text(r, a)
	}
	r.Notes = append(r.Notes, fmt.Sprintf("boundary set of %d values, all %d ordered pairs enumerated", len(bs), len(bs)*len(bs)))
	n := r.pick(8000, 600000)
	for i := 0; i < n; i++ {
		a, b := r.randCur(), r.randCur()
		switch r.rng.IntN(8) {
		case 0: // near-equal operands
			b = a
			b.Lo += uint64(r.rng.IntN(3)) - 1
		case 1: // product near 2^128
			if a.Big().Sign() != 0 {
				q := new(big.Int).Quo(new(big.Int).Sub(two128, big.NewInt(1)), a.Big())
				q.Add(q, big.NewInt(int64(r.rng.IntN(3))-1))
				if q.Sign() >= 0 {
					b = curOfBig(q)
				}
			}
		case 2: // sum near 2^128
			b = curOfBig(new(big.Int).Add(new(big.Int).Sub(two128, a.Big()), big.NewInt(int64(r.rng.IntN(3))-1)))
		}
		c15Pair(r, a, b, "random-pair")
		if i%16 == 0 {
			c15Text(r, a)
		}
	}
	c15Malformed(r)
}
