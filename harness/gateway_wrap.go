package main

import (
	"go.sia.tech/core/gateway"
	"go.sia.tech/core/types"
)

// gwReq / gwResp present a gateway RPC object's request / response codec (unexported methods, reached through the
// verif hooks) as an ordinary EncoderTo/DecoderFrom pair, so that the generic wire-type machinery applies to them.
type gwReq[T any, P interface {
	*T
	gateway.Object
}] struct{ O T }

func (w *gwReq[T, P]) EncodeTo(e *types.Encoder)   { gateway.VerifEncodeRequest(P(&w.O), e) }
func (w *gwReq[T, P]) DecodeFrom(d *types.Decoder) { gateway.VerifDecodeRequest(P(&w.O), d) }

type gwResp[T any, P interface {
	*T
	gateway.Object
}] struct{ O T }

func (w *gwResp[T, P]) EncodeTo(e *types.Encoder)   { gateway.VerifEncodeResponse(P(&w.O), e) }
func (w *gwResp[T, P]) DecodeFrom(d *types.Decoder) { gateway.VerifDecodeResponse(P(&w.O), d) }
