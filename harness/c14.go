package main

import (
	"crypto/sha256"
	"strings"
	"time"

	"go.sia.tech/core/types"
)

func init() { props["C14"] = runC14 }

type penv struct {
	height  uint64
	median  time.Time
	sigHash types.Hash256
}

// independently written evaluator of a policy's meaning (oracle)
func specVerify(p types.SpendPolicy, e penv, sigs []types.Signature, pres [][32]byte) bool {
	total := 0
	var rec func(p types.SpendPolicy) bool
	rec = func(p types.SpendPolicy) bool {
		switch pt := p.Type.(type) {
		case types.PolicyTypeAbove:
			return e.height >= uint64(pt)
		case types.PolicyTypeAfter:
			return e.median.After(time.Time(pt))
		case types.PolicyTypePublicKey:
			if len(sigs) == 0 {
				return false
			}
			s := sigs[0]
			sigs = sigs[1:]
			return types.PublicKey(pt).VerifyHash(e.sigHash, s)
		case types.PolicyTypeHash:
			if len(pres) == 0 {
				return false
			}
			x := pres[0]
			pres = pres[1:]
			return types.Hash256(pt) == sha256.Sum256(x[:])
		case types.PolicyTypeThreshold:
			total += len(pt.Of)
			if total > 1024 || len(pt.Of) > 255 {
				return false
			}
			n := 0
			for _, sp := range pt.Of {
				switch sp.Type.(type) {
				case types.PolicyTypeUnlockConditions:
					return false
				case types.PolicyTypeOpaque:
					continue
				}
				if n == int(pt.N) {
					return false
				}
				if !rec(sp) {
					return false
				}
				n++
			}
			return n == int(pt.N)
		case types.PolicyTypeOpaque:
			return false
		case types.PolicyTypeUnlockConditions:
			if e.height < pt.Timelock {
				return false
			}
			need := pt.SignaturesRequired
			for i, pk := range pt.PublicKeys {
				if need == 0 || need > uint64(len(pt.PublicKeys)-i) || need > uint64(len(sigs)) {
					break
				}
				switch pk.Algorithm {
				case types.SpecifierEntropy:
					return false
				case types.SpecifierEd25519:
					var epk types.PublicKey
					copy(epk[:], pk.Key)
					if epk.VerifyHash(e.sigHash, sigs[0]) {
						sigs = sigs[1:]
						need--
					}
				default:
					sigs = sigs[1:]
					need--
				}
			}
			return need == 0
		}
		return false
	}
	return rec(p) && len(sigs) == 0 && len(pres) == 0
}

var c14keys []types.PrivateKey

func (r *Run) fillBytes(b []byte) {
	for i := range b {
		b[i] = byte(r.rng.IntN(256))
	}
}

func genPolicy(r *Run, depth int, e penv, sigs *[]types.Signature, pres *[][32]byte) types.SpendPolicy {
	k := r.rng.IntN(7)
	if depth >= 3 && k == 4 {
		k = 2
	}
	if depth > 0 && k == 6 && r.rng.IntN(8) != 0 {
		k = 3
	}
	switch k {
	case 0:
		h := e.height
		switch r.rng.IntN(3) {
		case 0:
			h++
		case 1:
			if h > 0 {
				h--
			}
		}
		return types.PolicyAbove(h)
	case 1:
		return types.PolicyAfter(e.median.Add(time.Duration(r.rng.IntN(3)-1) * time.Second))
	case 2:
		sk := c14keys[r.rng.IntN(len(c14keys))]
		s := sk.SignHash(e.sigHash)
		switch r.rng.IntN(6) {
		case 0:
			s[3] ^= 1
		case 1:
			return types.PolicyPublicKey(sk.PublicKey())
		}
		*sigs = append(*sigs, s)
		return types.PolicyPublicKey(sk.PublicKey())
	case 3:
		var pre [32]byte
		r.fillBytes(pre[:])
		h := sha256.Sum256(pre[:])
		switch r.rng.IntN(6) {
		case 0:
			pre[0] ^= 1
		case 1:
			return types.PolicyHash(h)
		}
		*pres = append(*pres, pre)
		return types.PolicyHash(h)
	case 4:
		n := r.rng.IntN(4)
		var of []types.SpendPolicy
		sat := 0
		for i := 0; i < n; i++ {
			if r.rng.IntN(3) == 0 {
				var ds []types.Signature
				var dp [][32]byte
				of = append(of, types.PolicyOpaque(genPolicy(r, depth+1, e, &ds, &dp)))
			} else {
				of = append(of, genPolicy(r, depth+1, e, sigs, pres))
				sat++
			}
		}
		N := sat
		if r.rng.IntN(5) == 0 {
			N = r.rng.IntN(4)
		}
		return types.PolicyThreshold(uint8(N), of)
	case 5:
		var a types.Address
		r.fillBytes(a[:])
		return types.SpendPolicy{Type: types.PolicyTypeOpaque(a)}
	default:
		nk := r.rng.IntN(4)
		uc := types.UnlockConditions{Timelock: e.height + uint64(r.rng.IntN(3)) - 1}
		if r.rng.IntN(2) == 0 {
			uc.Timelock = 0
		}
		var chosen []int
		for i := 0; i < nk; i++ {
			sk := c14keys[r.rng.IntN(len(c14keys))]
			uk := sk.PublicKey().UnlockKey()
			switch r.rng.IntN(8) {
			case 0:
				uk.Algorithm = types.NewSpecifier("other")
			case 1:
				uk.Algorithm = types.SpecifierEntropy
			case 2:
				uk.Key = uk.Key[:16]
			}
			uc.PublicKeys = append(uc.PublicKeys, uk)
			if r.rng.IntN(2) == 0 {
				chosen = append(chosen, i)
				*sigs = append(*sigs, sk.SignHash(e.sigHash))
			}
		}
		uc.SignaturesRequired = uint64(len(chosen))
		if r.rng.IntN(5) == 0 {
			uc.SignaturesRequired = uint64(r.rng.IntN(4))
		}
		return types.SpendPolicy{Type: types.PolicyTypeUnlockConditions(uc)}
	}
}

func policyToks(p types.SpendPolicy, keys *[][]byte, hashes *[][]byte) []string {
	switch pt := p.Type.(type) {
	case types.PolicyTypeAbove:
		return []string{"1", hx(uint64(pt))}
	case types.PolicyTypeAfter:
		return []string{"2", hi(time.Time(pt).Unix())}
	case types.PolicyTypePublicKey:
		*keys = append(*keys, append([]byte(nil), pt[:]...))
		return []string{"3", hb(pt[:])}
	case types.PolicyTypeHash:
		*hashes = append(*hashes, append([]byte(nil), pt[:]...))
		return []string{"4", hb(pt[:])}
	case types.PolicyTypeThreshold:
		t := []string{"5", hx(uint64(pt.N)), hx(uint64(len(pt.Of)))}
		for _, sp := range pt.Of {
			t = append(t, policyToks(sp, keys, hashes)...)
		}
		return t
	case types.PolicyTypeOpaque:
		return []string{"6", hb(pt[:])}
	case types.PolicyTypeUnlockConditions:
		t := []string{"7", hx(pt.Timelock), hx(uint64(len(pt.PublicKeys)))}
		for _, uk := range pt.PublicKeys {
			t = append(t, hb(uk.Algorithm[:]), hb(uk.Key))
			var k32 [32]byte
			copy(k32[:], uk.Key)
			*keys = append(*keys, k32[:])
		}
		return append(t, hx(pt.SignaturesRequired))
	}
	panic("policy type")
}

func perrCode(err error) []string {
	if err == nil {
		return []string{"0"}
	}
	m := err.Error()
	code := 99
	switch {
	case strings.HasPrefix(m, "height"):
		code = 1
	case strings.HasPrefix(m, "median timestamp"):
		code = 2
	case m == "invalid signature":
		code = 3
	case m == "invalid preimage":
		code = 4
	case m == "policy is too complex":
		code = 5
	case m == "unlock conditions cannot be sub-policies":
		code = 6
	case m == "threshold exceeded":
		code = 7
	case strings.HasPrefix(m, "threshold not reached: satisfied"):
		code = 8
	case m == "opaque policy":
		code = 9
	case m == "policy uses an entropy public key":
		code = 10
	case strings.HasPrefix(m, "threshold not reached: remaining"):
		code = 11
	case m == "superfluous signature(s)":
		code = 12
	case m == "superfluous preimage(s)":
		code = 13
	}
	return []string{"1", hx(uint64(code))}
}

func c14Case(r *Run, p types.SpendPolicy, e penv, sigs []types.Signature, pres [][32]byte, class string) {
	var err error
	pan, msg := try(func() {
		err = p.Verify(e.height, e.median, e.sigHash, append([]types.Signature(nil), sigs...), append([][32]byte(nil), pres...))
	})
	if pan {
		r.violate("c14.panic", "Verify panicked (%s) on %v", msg, p)
		return
	}
	want := specVerify(p, e, append([]types.Signature(nil), sigs...), append([][32]byte(nil), pres...))
	if (err == nil) != want {
		r.violate("c14.verify", "policy %v at height %d, median %d with %d sigs, %d preimages: Verify=%v, meaning=%v", p, e.height, e.median.Unix(), len(sigs), len(pres), err, want)
	}
	var keys, hashes [][]byte
	pt := policyToks(p, &keys, &hashes)
	args := append([]string{hx(e.height), hi(e.median.Unix())}, pt...)
	args = append(args, hx(uint64(len(sigs))))
	for _, s := range sigs {
		args = append(args, hb(s[:]))
	}
	args = append(args, hx(uint64(len(pres))))
	for _, x := range pres {
		args = append(args, hb(x[:]))
	}
	// oracle tables from the real ed25519 and sha256
	var st, ptab []string
	ns, np := 0, 0
	seen := map[string]bool{}
	for _, k := range keys {
		var pk types.PublicKey
		copy(pk[:], k)
		for _, s := range sigs {
			key := string(k) + string(s[:])
			if !seen[key] && pk.VerifyHash(e.sigHash, s) {
				seen[key] = true
				st = append(st, hb(k), hb(s[:]))
				ns++
			}
		}
	}
	for _, h := range hashes {
		for _, x := range pres {
			key := string(h) + "|" + string(x[:])
			d := sha256.Sum256(x[:])
			if !seen[key] && string(d[:]) == string(h) {
				seen[key] = true
				ptab = append(ptab, hb(h), hb(x[:]))
				np++
			}
		}
	}
	args = append(args, hx(uint64(ns)))
	args = append(args, st...)
	args = append(args, hx(uint64(np)))
	args = append(args, ptab...)
	r.emit(err == nil || len(pt) > 4, class, "c14.verify", args, perrCode(err))
	if err == nil {
		r.count("accepted")
	} else {
		r.count("rejected")
	}
}

func c14Address(r *Run, p types.SpendPolicy, class string) {
	var keys, hashes [][]byte
	pt := policyToks(p, &keys, &hashes)
	a := p.Address()
	r.emit(len(pt) > 3, class, "c14.address", pt, []string{hb(a[:])})
	// opaque substitution of any subset of children keeps the address
	if th, ok := p.Type.(types.PolicyTypeThreshold); ok && len(th.Of) > 0 {
		of := append([]types.SpendPolicy(nil), th.Of...)
		changed := false
		for j := range of {
			if _, isUC := of[j].Type.(types.PolicyTypeUnlockConditions); !isUC && r.rng.IntN(2) == 0 {
				of[j] = types.PolicyOpaque(of[j])
				changed = true
			}
		}
		if changed {
			q := types.PolicyThreshold(th.N, of)
			r.count("oracle-opaque-address")
			if q.Address() != a {
				r.violate("c14.opaque-address", "address changed by opaque substitution: %v -> %v", p, q)
			}
			var k2, h2 [][]byte
			qa := q.Address()
			r.emit(true, class+"/opaque", "c14.address", policyToks(q, &k2, &h2), []string{hb(qa[:])})
		}
	}
}

// exhaustive small trees: depth <= 2, breadth <= 2 over the leaf kinds, thresholds n in 0..2
func c14Small(r *Run, e penv) {
	sk0, sk1 := c14keys[0], c14keys[1]
	var pre [32]byte
	pre[0] = 7
	h := sha256.Sum256(pre[:])
	type leaf struct {
		p    types.SpendPolicy
		sig  *types.Signature
		pre  *[32]byte
		kind string
	}
	good0 := sk0.SignHash(e.sigHash)
	good1 := sk1.SignHash(e.sigHash)
	leaves := []leaf{
		{types.PolicyAbove(e.height), nil, nil, "above="},
		{types.PolicyAbove(e.height + 1), nil, nil, "above+"},
		{types.PolicyAfter(e.median.Add(-time.Second)), nil, nil, "after-"},
		{types.PolicyAfter(e.median), nil, nil, "after="},
		{types.PolicyPublicKey(sk0.PublicKey()), &good0, nil, "pk"},
		{types.PolicyPublicKey(sk1.PublicKey()), &good1, nil, "pk"},
		{types.PolicyHash(h), nil, &pre, "hash"},
		{types.PolicyOpaque(types.PolicyPublicKey(sk0.PublicKey())), nil, nil, "opaque"},
	}
	collect := func(ls []leaf) (sigs []types.Signature, pres [][32]byte) {
		for _, l := range ls {
			if l.sig != nil {
				sigs = append(sigs, *l.sig)
			}
			if l.pre != nil {
				pres = append(pres, *l.pre)
			}
		}
		return
	}
	variants := func(p types.SpendPolicy, ls []leaf) {
		sigs, pres := collect(ls)
		c14Case(r, p, e, sigs, pres, "small/valid-witnesses")
		if len(sigs) > 0 {
			c14Case(r, p, e, sigs[1:], pres, "small/missing-sig")
			bad := append([]types.Signature(nil), sigs...)
			bad[len(bad)-1][0] ^= 1
			c14Case(r, p, e, bad, pres, "small/corrupt-sig")
			if len(sigs) > 1 && sigs[0] != sigs[1] {
				sw := append([]types.Signature(nil), sigs...)
				sw[0], sw[1] = sw[1], sw[0]
				c14Case(r, p, e, sw, pres, "small/reordered")
			}
		}
		if len(pres) > 0 {
			c14Case(r, p, e, sigs, pres[1:], "small/missing-pre")
			bad := append([][32]byte(nil), pres...)
			bad[0][5] ^= 1
			c14Case(r, p, e, sigs, bad, "small/corrupt-pre")
		}
		c14Case(r, p, e, append(append([]types.Signature(nil), sigs...), good0), pres, "small/surplus-sig")
		c14Case(r, p, e, sigs, append(append([][32]byte(nil), pres...), pre), "small/surplus-pre")
		c14Address(r, p, "small/address")
	}
	for _, l := range leaves {
		variants(l.p, []leaf{l})
	}
	for i, a := range leaves {
		for j, b := range leaves {
			for n := 0; n <= 2; n++ {
				variants(types.PolicyThreshold(uint8(n), []types.SpendPolicy{a.p, b.p}), []leaf{a, b})
				if r.thorough() || (i+j+n)%3 == 0 {
					// nested: thresh(n, [a, thresh(1,[b, opaque])])
					inner := types.PolicyThreshold(1, []types.SpendPolicy{b.p, leaves[7].p})
					variants(types.PolicyThreshold(uint8(n), []types.SpendPolicy{a.p, inner}), []leaf{a, b})
					inner2 := types.PolicyThreshold(2, []types.SpendPolicy{b.p, a.p})
					variants(types.PolicyThreshold(uint8(n), []types.SpendPolicy{inner2, leaves[4].p}), []leaf{b, a, leaves[4]})
				}
			}
		}
	}
}

func runC14(r *Run) {
	c14keys = nil
	for i := 0; i < 4; i++ {
		seed := make([]byte, 32)
		seed[0] = byte(i + 1)
		c14keys = append(c14keys, types.NewPrivateKeyFromSeed(seed))
	}
	e0 := penv{height: 7, median: time.Unix(1_700_000_000, 0)}
	r.fillBytes(e0.sigHash[:])
	c14Small(r, e0)
	n := r.pick(3000, 150000)
	for i := 0; i < n; i++ {
		e := penv{height: uint64(5 + r.rng.IntN(5)), median: time.Unix(1000+int64(r.rng.IntN(5)), 0)}
		r.fillBytes(e.sigHash[:])
		var sigs []types.Signature
		var pres [][32]byte
		p := genPolicy(r, 0, e, &sigs, &pres)
		switch r.rng.IntN(10) {
		case 0:
			sigs = append(sigs, types.Signature{})
		case 1:
			pres = append(pres, [32]byte{})
		case 2:
			if len(sigs) > 1 {
				sigs[0], sigs[1] = sigs[1], sigs[0]
			}
		}
		c14Case(r, p, e, sigs, pres, "random")
		if i%3 == 0 {
			c14Address(r, p, "random/address")
		}
	}
	// complexity limits: > 255 children, > 1024 total
	for _, k := range []int{255, 256, 300} {
		of := make([]types.SpendPolicy, k)
		for i := range of {
			of[i] = types.PolicyOpaque(types.PolicyAbove(uint64(i)))
		}
		c14Case(r, types.PolicyThreshold(0, of), e0, nil, nil, "limits")
	}
	for _, groups := range []int{4, 5, 6} {
		var outer []types.SpendPolicy
		for g := 0; g < groups; g++ {
			of := make([]types.SpendPolicy, 250)
			for i := range of {
				of[i] = types.PolicyOpaque(types.PolicyAbove(uint64(i)))
			}
			outer = append(outer, types.PolicyThreshold(0, of))
		}
		c14Case(r, types.PolicyThreshold(uint8(groups), outer), e0, nil, nil, "limits")
	}
	// the total exactly at the bound: 1023, 1024 (accepted), 1025 (too complex)
	for _, sizes := range [][]int{{255, 255, 255, 254}, {255, 255, 255, 255}, {255, 255, 255, 255, 0}, {255, 255, 255, 255, 1}} {
		var outer []types.SpendPolicy
		for _, k := range sizes {
			of := make([]types.SpendPolicy, k)
			for i := range of {
				of[i] = types.PolicyOpaque(types.PolicyAbove(uint64(i)))
			}
			outer = append(outer, types.PolicyThreshold(0, of))
		}
		c14Case(r, types.PolicyThreshold(uint8(len(sizes)), outer), e0, nil, nil, "limits")
		r.count("limit-total-at-bound")
	}
	// standard addresses
	for i := 0; i < 20; i++ {
		pk := c14keys[i%4].PublicKey()
		if types.StandardAddress(pk) != types.PolicyPublicKey(pk).Address() {
			r.violate("c14.standard-address", "StandardAddress differs from PolicyPublicKey(pk).Address()")
		}
		uc := types.StandardUnlockConditions(pk)
		if types.StandardUnlockHash(pk) != (types.SpendPolicy{Type: types.PolicyTypeUnlockConditions(uc)}).Address() || uc.UnlockHash() != types.StandardUnlockHash(pk) {
			r.violate("c14.standard-unlockhash", "StandardUnlockHash differs from the unlock conditions root")
		}
		c14Address(r, types.SpendPolicy{Type: types.PolicyTypeUnlockConditions(uc)}, "standard")
		r.count("oracle-standard-address")
	}
}
