package main

import (
	"bytes"
	"reflect"
	"encoding/binary"
	"fmt"
	"strings"

	"go.sia.tech/core/consensus"
	"go.sia.tech/core/gateway"
	"go.sia.tech/core/types"
)

func init() { props["C18"] = runC18 }

type mpLeaf struct {
	idx   uint64
	hash  types.Hash256
	proof *[]types.Hash256
}

// element leaves in the order of types.forEachElementLeaf (ephemeral parents skipped); leaf hashes come
// from the consensus package's own leaf constructors (verif hooks), not from the copy in package types
func mpLeaves(txns []types.V2Transaction) (ls []mpLeaf) {
	add := func(se *types.StateElement, vl consensus.VerifLeaf) {
		if se.LeafIndex != types.UnassignedLeafIndex {
			ls = append(ls, mpLeaf{se.LeafIndex, consensus.VerifLeafHash(vl), &se.MerkleProof})
		}
	}
	for ti := range txns {
		txn := &txns[ti]
		for i := range txn.SiacoinInputs {
			e := &txn.SiacoinInputs[i].Parent
			add(&e.StateElement, consensus.VerifSiacoinLeaf(e, false))
		}
		for i := range txn.SiafundInputs {
			e := &txn.SiafundInputs[i].Parent
			add(&e.StateElement, consensus.VerifSiafundLeaf(e, false))
		}
		for i := range txn.FileContractRevisions {
			e := &txn.FileContractRevisions[i].Parent
			add(&e.StateElement, consensus.VerifV2FileContractLeaf(e, false))
		}
		for i := range txn.FileContractResolutions {
			e := &txn.FileContractResolutions[i].Parent
			add(&e.StateElement, consensus.VerifV2FileContractLeaf(e, false))
			if sp, ok := txn.FileContractResolutions[i].Resolution.(*types.V2StorageProof); ok {
				add(&sp.ProofIndex.StateElement, consensus.VerifChainIndexLeaf(&sp.ProofIndex))
			}
		}
	}
	return
}

func encSet(txns []types.V2Transaction) []byte {
	var buf bytes.Buffer
	e := types.NewEncoder(&buf)
	types.V2TransactionsMultiproof(txns).EncodeTo(e)
	e.Flush()
	return buf.Bytes()
}

func cloneSet(txns []types.V2Transaction) []types.V2Transaction {
	out := make([]types.V2Transaction, len(txns))
	for i := range txns {
		out[i] = cloneV2(txns[i])
	}
	return out
}

// the multiproof encoding is: EncodeSlice(proofless txns) | numLeaves | multiproof hashes
func splitSetEncoding(txns []types.V2Transaction, enc []byte) (prefixLen int, numLeaves uint64, mp []types.Hash256, ok bool) {
	pl := cloneSet(txns)
	for _, l := range mpLeaves(pl) {
		*l.proof = nil
	}
	var buf bytes.Buffer
	e := types.NewEncoder(&buf)
	types.EncodeSlice(e, pl)
	e.Flush()
	prefixLen = buf.Len()
	if len(enc) < prefixLen+8 || !bytes.Equal(enc[:prefixLen], buf.Bytes()) || (len(enc)-prefixLen-8)%32 != 0 {
		return prefixLen, 0, nil, false
	}
	numLeaves = binary.LittleEndian.Uint64(enc[prefixLen:])
	for p := prefixLen + 8; p < len(enc); p += 32 {
		mp = append(mp, types.Hash256(enc[p:p+32]))
	}
	return prefixLen, numLeaves, mp, true
}

func leafToks(ls []mpLeaf, withProof bool) []string {
	t := []string{hx(uint64(len(ls)))}
	for _, l := range ls {
		t = append(t, hx(l.idx), hb(l.hash[:]))
		if withProof {
			t = append(t, hx(uint64(len(*l.proof))))
			for _, h := range *l.proof {
				t = append(t, hb(h[:]))
			}
		}
	}
	return t
}

// one transaction set whose proofs are valid for one state: Go round trip + model recomputation
func c18Set(r *Run, txns []types.V2Transaction, what string) {
	if len(txns) == 0 {
		return
	}
	kp := "c18."
	if r.Prop == "C11" {
		kp = "c11.multiproof-"
	}
	orig := cloneSet(txns)
	var enc []byte
	if pan, msg := try(func() { enc = encSet(txns) }); pan {
		r.violate(kp+"encode-panic", "multiproof encoding of a valid transaction set panicked (%s): %s", what, msg)
		return
	}
	for i := range txns {
		if !bytes.Equal(encAny(txns[i]), encAny(orig[i])) {
			r.violate("c09.multiproof-encode-mutates", "encoding a transaction set as a multiproof changed transaction %d (%s)", i, what)
		}
	}
	var dec types.V2TransactionsMultiproof
	var derr error
	pan, msg := try(func() {
		d := types.NewBufDecoder(append(append([]byte(nil), enc...), 0xAB, 0xCD, 0xEF, 1, 2, 3, 4, 5))
		dec.DecodeFrom(d)
		if d.Err() == nil && d.ReadUint64() != 0x0504030201EFCDAB {
			derr = fmt.Errorf("decoder did not stop at the end of the multiproof")
		} else {
			derr = d.Err()
		}
	})
	if pan {
		r.violate(kp+"decode-panic", "decoding a multiproof-encoded valid set panicked (%s): %s", what, msg)
		return
	}
	if derr != nil {
		r.violate(kp+"decode-rejects", "decoding a multiproof-encoded valid set failed (%s): %v", what, derr)
		return
	}
	r.count("oracle-set-roundtrip")
	if len(dec) != len(txns) {
		r.violate(kp+"roundtrip", "decoded %d transactions, encoded %d (%s)", len(dec), len(txns), what)
		return
	}
	for i := range txns {
		if !bytes.Equal(encAny(txns[i]), encAny(dec[i])) {
			r.violate(kp+"roundtrip", "transaction %d of the set differs after the multiproof round trip (%s): ID equal=%v FullHash equal=%v", i, what, txns[i].ID() == dec[i].ID(), txns[i].FullHash() == dec[i].FullHash())
			break
		}
	}
	ls := mpLeaves(txns)
	_, numLeaves, mp, ok := splitSetEncoding(txns, enc)
	if !ok {
		r.violate(kp+"layout", "multiproof encoding is not (proofless transactions | leaf count | hashes) (%s)", what)
		return
	}
	nontrivial := len(ls) >= 2
	r.count(fmt.Sprintf("set-leaves-%d", min(len(ls), 8)))
	r.count(fmt.Sprintf("set-multiproof-%d", min(len(mp), 40)/8*8))
	// model: multiproof and inferred leaf count from the individual proofs
	want := append([]string{"0", hx(numLeaves), hx(uint64(len(mp)))}, hashToks(mp)...)
	r.emit(nontrivial, "multiproof", "c18.multiproof", leafToks(ls, true), want)
	// model: individual proofs from the multiproof
	dls := mpLeaves(dec)
	want = []string{"0", "0"}
	for _, l := range dls {
		want = append(want, hashToks(*l.proof)...)
	}
	args := append([]string{hx(numLeaves)}, leafToks(ls, false)...)
	args = append(args, hashToks(mp)...)
	r.emit(nontrivial, "expand", "c18.expand", args, want)
	decodedAlias(r, dec, what)
}

// a decoded set owns its proofs: growing one proof in place (as UpdateElementProof does) must not disturb another
func decodedAlias(r *Run, dec []types.V2Transaction, what string) {
	ls := mpLeaves(dec)
	var before [][]types.Hash256
	for _, l := range ls {
		before = append(before, append([]types.Hash256(nil), *l.proof...))
	}
	marker := types.Hash256{0xA5, 0x5A}
	for _, l := range ls {
		*l.proof = append(*l.proof, marker)
	}
	for i, l := range ls {
		p := *l.proof
		same := len(p) == len(before[i])+1
		for k := 0; same && k < len(before[i]); k++ {
			same = p[k] == before[i][k]
		}
		if !same {
			r.violate("c09.decoded-proofs-alias", "after appending to each decoded proof in turn, proof %d of the decoded set is no longer the decoded proof (%s): decoded proofs share memory", i, what)
			break
		}
	}
	for i, l := range ls {
		*l.proof = before[i]
	}
	r.count("oracle-decoded-alias")
}

// hostile leaf counts in an otherwise valid multiproof encoding (decode must reject or succeed, never panic)
func hostileMultiproof(r *Run, txns []types.V2Transaction) {
	ls := mpLeaves(txns)
	if len(ls) == 0 {
		return
	}
	enc := encSet(txns)
	prefix, numLeaves, mp, ok := splitSetEncoding(txns, enc)
	if !ok {
		return
	}
	cands := []uint64{0, 1, numLeaves - 1, numLeaves + 1, numLeaves << 1, ^uint64(0), 1 << 63, r.rng.Uint64()}
	for _, l := range ls {
		cands = append(cands, l.idx, l.idx+1, l.idx-1, l.idx^1, l.idx|1<<40)
	}
	for _, nl := range cands {
		b := append([]byte(nil), enc...)
		binary.LittleEndian.PutUint64(b[prefix:], nl)
		var dec types.V2TransactionsMultiproof
		var derr error
		pan, msg := try(func() {
			d := types.NewBufDecoder(b)
			dec.DecodeFrom(d)
			derr = d.Err()
		})
		r.count("oracle-hostile-multiproof")
		if pan {
			r.violate("c10.multiproof-decode-panic", "decoding a multiproof whose leaf count is %d (leaf indices %v) panicked: %s", nl, func() (o []uint64) {
				for _, l := range ls {
					o = append(o, l.idx)
				}
				return
			}(), msg)
			continue
		}
		verdict := "0"
		if derr != nil {
			verdict = "2"
			if strings.Contains(derr.Error(), "invalid leaf index") {
				verdict = "1"
			}
		}
		args := append([]string{hx(nl)}, leafToks(ls, false)...)
		args = append(args, hashToks(mp)...)
		r.emit(true, "hostile-"+verdict, "c18.verdict", args, []string{verdict})
	}
}

func c18Block(r *Run, c *lchain, b types.Block, bs consensus.V1BlockSupplement) {
	cs := c.cs()
	if b.V2 == nil {
		return
	}
	txns := b.V2.Transactions
	c18Set(r, txns, "whole block")
	// subsets and permutations: any set whose proofs are valid for this state
	for k := 0; k < 3 && len(txns) > 1; k++ {
		var sub []types.V2Transaction
		for _, i := range r.rng.Perm(len(txns)) {
			if r.rng.IntN(3) != 0 {
				sub = append(sub, txns[i])
			}
		}
		// repeated elements (duplicate leaves) are allowed in a relayed set
		if len(sub) > 0 && r.rng.IntN(3) == 0 {
			sub = append(sub, sub[r.rng.IntN(len(sub))])
		}
		c18Set(r, sub, "subset")
	}
	// the block codec (V2BlockData uses the multiproof form)
	var buf bytes.Buffer
	e := types.NewEncoder(&buf)
	types.V2Block(b).EncodeTo(e)
	e.Flush()
	var db types.V2Block
	var derr error
	pan, msg := try(func() {
		d := types.NewBufDecoder(buf.Bytes())
		db.DecodeFrom(d)
		derr = d.Err()
	})
	if pan || derr != nil {
		r.violate("c18.block-decode", "a valid v2 block does not decode from its compressed form: %v %s", derr, msg)
		return
	}
	b2 := db.Cast()
	r.count("oracle-block-roundtrip")
	if b2.ID() != b.ID() {
		r.violate("c18.block-id", "block ID changed by the compressed round trip")
	}
	if cs.Commitment(b2.MinerPayouts[0].Address, b2.Transactions, b2.V2Transactions()) != cs.Commitment(b.MinerPayouts[0].Address, b.Transactions, b.V2Transactions()) {
		r.violate("c18.block-commitment", "block commitment changed by the compressed round trip")
	}
	if !bytes.Equal(encAny(types.V1Block(b)), encAny(types.V1Block(b2))) && len(b.Transactions) >= 0 {
		// V1Block encoding ignores V2 data; compare the v2 transactions one by one instead
	}
	if len(b2.V2Transactions()) != len(txns) {
		r.violate("c18.block-roundtrip", "decoded block has %d v2 transactions, original %d", len(b2.V2Transactions()), len(txns))
	} else {
		for i := range txns {
			if !bytes.Equal(encAny(txns[i]), encAny(b2.V2.Transactions[i])) {
				r.violate("c18.block-roundtrip", "v2 transaction %d differs after the block round trip", i)
				break
			}
		}
	}
	e1 := consensus.ValidateBlock(cs, b, bs)
	e2 := consensus.ValidateBlock(cs, b2, bs)
	if (e1 == nil) != (e2 == nil) {
		r.violate("c18.block-validity", "validity changed by the compressed round trip: %v vs %v", e1, e2)
	}
	c18Outline(r, cs, b)
}

type anyTxn struct {
	v1 *types.Transaction
	v2 *types.V2Transaction
}

func (a anyTxn) hash() types.Hash256 {
	if a.v1 != nil {
		return a.v1.MerkleLeafHash()
	}
	return a.v2.MerkleLeafHash()
}

func outlineRoundTrip(bo gateway.V2BlockOutline) (out gateway.V2BlockOutline, err error, panicked string) {
	var buf bytes.Buffer
	e := types.NewEncoder(&buf)
	gateway.VerifEncodeRequest(&gateway.RPCRelayV2BlockOutline{Block: bo}, e)
	e.Flush()
	var dec gateway.RPCRelayV2BlockOutline
	pan, msg := try(func() {
		d := types.NewBufDecoder(buf.Bytes())
		gateway.VerifDecodeRequest(&dec, d)
		err = d.Err()
	})
	if pan {
		return dec.Block, nil, msg
	}
	return dec.Block, err, ""
}

func c18Outline(r *Run, cs consensus.State, b types.Block) {
	var all []anyTxn
	for i := range b.Transactions {
		all = append(all, anyTxn{v1: &b.Transactions[i]})
	}
	for i := range b.V2.Transactions {
		all = append(all, anyTxn{v2: &b.V2.Transactions[i]})
	}
	blockEnc := encAny(types.V2Block(b))
	for iter := 0; iter < 4; iter++ {
		// omitted subset: none, all, random
		var om1 []types.Transaction
		var om2 []types.V2Transaction
		omitted := map[types.Hash256]bool{}
		for _, a := range all {
			omit := iter == 1 || (iter >= 2 && r.rng.IntN(2) == 0)
			if omit {
				omitted[a.hash()] = true
				if a.v1 != nil {
					om1 = append(om1, *a.v1)
				} else {
					om2 = append(om2, *a.v2)
				}
			}
		}
		bo := gateway.OutlineBlock(cloneBlock(b), om1, om2)
		r.count("oracle-outline")
		if bo.ID(cs) != b.ID() {
			r.violate("c18.outline-id", "outline with %d of %d transactions omitted has a different ID than the block", len(omitted), len(all))
		}
		// the outline goes over the wire
		bo2, err, pan := outlineRoundTrip(bo)
		if pan != "" || err != nil {
			r.violate("c18.outline-codec", "outline of a valid block does not survive its codec: %v %s", err, pan)
			continue
		}
		if bo2.ID(cs) != b.ID() {
			r.violate("c18.outline-id", "decoded outline has a different ID than the block")
		}
		if len(bo2.Missing()) != len(omitted) && len(omitted) == len(om1)+len(om2) {
			// duplicates in a block would be rejected by consensus; honest blocks have none
			r.violate("c18.outline-missing", "decoded outline reports %d missing, %d were omitted", len(bo2.Missing()), len(omitted))
		}
		// candidate pool: a random part of the omitted transactions, plus unrelated extras, shuffled
		var pool1 []types.Transaction
		var pool2 []types.V2Transaction
		offered := map[types.Hash256]bool{}
		full := iter%2 == 1 || r.rng.IntN(2) == 0
		for _, a := range all {
			if omitted[a.hash()] && (full || r.rng.IntN(2) == 0) || (!omitted[a.hash()] && r.rng.IntN(3) == 0) {
				offered[a.hash()] = true
				if a.v1 != nil {
					pool1 = append(pool1, cloneTxn(*a.v1))
				} else {
					pool2 = append(pool2, cloneV2(*a.v2))
				}
			}
		}
		pool2 = append(pool2, types.V2Transaction{MinerFee: types.NewCurrency64(r.rng.Uint64())})
		pool1 = append(pool1, types.Transaction{ArbitraryData: [][]byte{r.randBytes(8)}})
		r.rng.Shuffle(len(pool1), func(i, j int) { pool1[i], pool1[j] = pool1[j], pool1[i] })
		r.rng.Shuffle(len(pool2), func(i, j int) { pool2[i], pool2[j] = pool2[j], pool2[i] })
		var wantMissing []types.Hash256
		for _, a := range all {
			if omitted[a.hash()] && !offered[a.hash()] {
				wantMissing = append(wantMissing, a.hash())
			}
		}
		var cb types.Block
		var missing []types.Hash256
		if pan, msg := try(func() { cb, missing = bo2.Complete(cs, pool1, pool2) }); pan {
			r.violate("c18.outline-complete-panic", "Complete panicked: %s", msg)
			continue
		}
		if len(missing) != len(wantMissing) {
			r.violate("c18.outline-missing", "Complete reports %d missing hashes, expected %d (omitted and not offered)", len(missing), len(wantMissing))
		} else {
			for i := range missing {
				if missing[i] != wantMissing[i] {
					r.violate("c18.outline-missing", "Complete reports a wrong missing hash at %d", i)
					break
				}
			}
		}
		if len(wantMissing) == 0 {
			if !bytes.Equal(encAny(types.V2Block(cb)), blockEnc) || cb.ID() != b.ID() {
				r.violate("c18.outline-complete", "completed block differs from the original block (omitted %d of %d)", len(omitted), len(all))
			}
		}
		// model recomputation on hashes
		var bt, ot, pt []string
		for _, a := range all {
			h := a.hash()
			bt = append(bt, hb(h[:]))
			if omitted[h] {
				ot = append(ot, hb(h[:]))
			}
		}
		for i := range pool1 {
			h := pool1[i].MerkleLeafHash()
			pt = append(pt, hb(h[:]))
		}
		for i := range pool2 {
			h := pool2[i].MerkleLeafHash()
			pt = append(pt, hb(h[:]))
		}
		args := append([]string{hx(uint64(len(bt)))}, bt...)
		args = append(append(args, hx(uint64(len(ot)))), ot...)
		args = append(append(args, hx(uint64(len(pt)))), pt...)
		var want []string
		miss := map[types.Hash256]bool{}
		for _, h := range missing {
			miss[h] = true
		}
		for _, a := range all {
			want = append(want, hbool(!miss[a.hash()]))
		}
		want = append(want, hi(-1))
		for _, h := range missing {
			want = append(want, hb(h[:]))
		}
		r.emit(len(omitted) > 0, "outline", "c18.outline", args, want)
	}
}

func runC18(r *Run) {
	for i := 0; i < r.pick(60, 1500); i++ {
		c18Synthetic(r)
	}
	nchains := r.pick(16, 300)
	for ci := 0; ci < nchains; ci++ {
		n := r.ledgerNet()
		allow, require := r.ledgerEra(1 + ci%3)
		c := newLChain(r, n, allow, require)
		length := 22 + r.rng.IntN(14)
		for step := 0; step < length; step++ {
			if len(c.states) > 2 && r.rng.IntN(9) == 0 {
				c.revert()
				continue
			}
			b, bs := c.honestBlock()
			c18Block(r, c, b, bs)
			if err := c.process(b, bs, true, "honest"); err != nil {
				r.violate("ledger.honest-rejected", "an honestly built block was rejected at child height %d: %v", c.child(), err)
				break
			}
		}
	}
}

// synthetic states: many elements of all four kinds in one accumulator (built by the implementation's own
// applyBlock through the hooks), and transaction sets spending random subsets of them
type synthElem struct {
	sce *types.SiacoinElement
	sfe *types.SiafundElement
	fce *types.V2FileContractElement
	cie *types.ChainIndexElement
}

func (s synthElem) se() *types.StateElement {
	switch {
	case s.sce != nil:
		return &s.sce.StateElement
	case s.sfe != nil:
		return &s.sfe.StateElement
	case s.fce != nil:
		return &s.fce.StateElement
	}
	return &s.cie.StateElement
}

func (s synthElem) leaf() consensus.VerifLeaf {
	switch {
	case s.sce != nil:
		return consensus.VerifSiacoinLeaf(s.sce, false)
	case s.sfe != nil:
		return consensus.VerifSiafundLeaf(s.sfe, false)
	case s.fce != nil:
		return consensus.VerifV2FileContractLeaf(s.fce, false)
	}
	return consensus.VerifChainIndexLeaf(s.cie)
}

func c18Synthetic(r *Run) {
	var n int
	switch r.rng.IntN(4) {
	case 0:
		n = 1 + r.rng.IntN(12)
	case 1:
		n = 1<<uint(1+r.rng.IntN(8)) + r.rng.IntN(3) - 1 // around powers of two
	default:
		n = 1 + r.rng.IntN(r.pick(700, 6000))
	}
	var elems []synthElem
	var acc consensus.ElementAccumulator
	for len(elems) < n {
		batch := 1 + r.rng.IntN(max(1, n/3))
		if len(elems)+batch > n {
			batch = n - len(elems)
		}
		var added []consensus.VerifLeaf
		start := len(elems)
		for i := 0; i < batch; i++ {
			var s synthElem
			switch r.rng.IntN(4) {
			case 0:
				s.sce = new(types.SiacoinElement)
				r.fill(reflect.ValueOf(s.sce).Elem(), 0)
			case 1:
				s.sfe = new(types.SiafundElement)
				r.fill(reflect.ValueOf(s.sfe).Elem(), 0)
			case 2:
				s.fce = new(types.V2FileContractElement)
				r.fill(reflect.ValueOf(s.fce).Elem(), 0)
			default:
				s.cie = new(types.ChainIndexElement)
				r.fill(reflect.ValueOf(s.cie).Elem(), 0)
			}
			*s.se() = types.StateElement{LeafIndex: types.UnassignedLeafIndex}
			elems = append(elems, s)
		}
		for _, s := range elems[start:] {
			added = append(added, s.leaf())
		}
		u := consensus.VerifAccApply(&acc, nil, added)
		for _, s := range elems[:start] {
			u.UpdateElementProof(s.se())
		}
	}
	// a few sets over this state
	for k := 0; k < 4; k++ {
		cnt := 1 + r.rng.IntN(min(n, 40))
		if r.rng.IntN(3) == 0 {
			cnt = 1 + r.rng.IntN(min(n, 4))
		}
		var txns []types.V2Transaction
		var txn types.V2Transaction
		// clustered or scattered picks
		center := r.rng.IntN(n)
		for j := 0; j < cnt; j++ {
			i := r.rng.IntN(n)
			if k%2 == 1 {
				i = (center + r.rng.IntN(min(n, 16))) % n
			}
			s := elems[i]
			switch {
			case s.sce != nil:
				in := types.V2SiacoinInput{Parent: s.sce.Copy()}
				r.fill(reflect.ValueOf(&in.SatisfiedPolicy).Elem(), 0)
				if r.rng.IntN(6) == 0 { // ephemeral parent: no proof at all
					in.Parent.StateElement = types.StateElement{LeafIndex: types.UnassignedLeafIndex}
				}
				txn.SiacoinInputs = append(txn.SiacoinInputs, in)
			case s.sfe != nil:
				in := types.V2SiafundInput{Parent: s.sfe.Copy()}
				r.fill(reflect.ValueOf(&in.SatisfiedPolicy).Elem(), 0)
				txn.SiafundInputs = append(txn.SiafundInputs, in)
			case s.fce != nil:
				if r.rng.IntN(2) == 0 {
					rev := types.V2FileContractRevision{Parent: s.fce.Copy()}
					r.fill(reflect.ValueOf(&rev.Revision).Elem(), 0)
					txn.FileContractRevisions = append(txn.FileContractRevisions, rev)
				} else {
					res := types.V2FileContractResolution{Parent: s.fce.Copy()}
					switch r.rng.IntN(3) {
					case 0:
						res.Resolution = &types.V2FileContractExpiration{}
					case 1:
						rn := new(types.V2FileContractRenewal)
						r.fill(reflect.ValueOf(rn).Elem(), 0)
						res.Resolution = rn
					default:
						// a storage proof brings a chain index element of the same state
						sp := new(types.V2StorageProof)
						r.fill(reflect.ValueOf(sp).Elem(), 0)
						sp.ProofIndex.StateElement = types.StateElement{LeafIndex: types.UnassignedLeafIndex}
						for tries := 0; tries < 50; tries++ {
							if c := elems[r.rng.IntN(n)]; c.cie != nil {
								sp.ProofIndex = c.cie.Copy()
								break
							}
						}
						if sp.ProofIndex.StateElement.LeafIndex == types.UnassignedLeafIndex {
							res.Resolution = &types.V2FileContractExpiration{}
						} else {
							res.Resolution = sp
						}
					}
					txn.FileContractResolutions = append(txn.FileContractResolutions, res)
				}
			default:
				continue
			}
			if r.rng.IntN(3) == 0 {
				txns = append(txns, txn)
				txn = types.V2Transaction{}
			}
		}
		txns = append(txns, txn)
		// generator sanity: every proof verifies against the accumulator the implementation built
		for _, e := range elems[:min(len(elems), 3)] {
			if !consensus.VerifContainsLeaf(&acc, e.leaf()) {
				r.violate("harness.c18-synthetic", "synthetic element does not verify against its accumulator")
			}
		}
		if r.Prop == "C10" {
			hostileMultiproof(r, txns)
		} else if r.Prop == "C09" {
			var dec types.V2TransactionsMultiproof
			d := types.NewBufDecoder(encSet(txns))
			dec.DecodeFrom(d)
			if d.Err() == nil {
				decodedAlias(r, dec, fmt.Sprintf("synthetic state with %d leaves", n))
			}
		} else {
			c18Set(r, txns, fmt.Sprintf("synthetic state with %d leaves", n))
		}
	}
}
