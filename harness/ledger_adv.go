package main

import (
	"bytes"
	"fmt"
	"reflect"
	"sort"
	"time"

	"go.sia.tech/core/consensus"
	"go.sia.tech/core/types"
)

// adversarial variants of blocks: each is presented to ValidateBlock only (never applied); the verdict and
// its class are recomputed by the model, and the property oracle states what the verdict must be.

func cloneTxn(t types.Transaction) types.Transaction {
	var buf bytes.Buffer
	e := types.NewEncoder(&buf)
	t.EncodeTo(e)
	e.Flush()
	var c types.Transaction
	c.DecodeFrom(types.NewBufDecoder(buf.Bytes()))
	return c
}

// cloneV2 copies through the wire format (V2Transaction.DeepCopy shares the renewal struct, see C09)
func cloneV2(t types.V2Transaction) types.V2Transaction {
	var buf bytes.Buffer
	e := types.NewEncoder(&buf)
	t.EncodeTo(e)
	e.Flush()
	var c types.V2Transaction
	c.DecodeFrom(types.NewBufDecoder(buf.Bytes()))
	return c
}

func cloneBlock(b types.Block) types.Block {
	c := b
	c.MinerPayouts = append([]types.SiacoinOutput(nil), b.MinerPayouts...)
	c.Transactions = nil
	for _, t := range b.Transactions {
		c.Transactions = append(c.Transactions, cloneTxn(t))
	}
	if b.V2 != nil {
		v2 := *b.V2
		v2.Transactions = nil
		for _, t := range b.V2.Transactions {
			v2.Transactions = append(v2.Transactions, cloneV2(t))
		}
		c.V2 = &v2
	}
	return c
}

func copySCI(in types.V2SiacoinInput) types.V2SiacoinInput {
	t := types.V2Transaction{SiacoinInputs: []types.V2SiacoinInput{in}}
	return t.DeepCopy().SiacoinInputs[0]
}
func copySFI(in types.V2SiafundInput) types.V2SiafundInput {
	t := types.V2Transaction{SiafundInputs: []types.V2SiafundInput{in}}
	return t.DeepCopy().SiafundInputs[0]
}

var currencyT = reflect.TypeOf(types.Currency{})

// currencyFields collects pointers to every Currency inside v (through slices, pointers, structs, interfaces)
func currencyFields(v reflect.Value, out *[]*types.Currency, depth int) {
	if depth > 12 || !v.IsValid() {
		return
	}
	switch v.Kind() {
	case reflect.Struct:
		if v.Type() == currencyT {
			if v.CanAddr() {
				*out = append(*out, v.Addr().Interface().(*types.Currency))
			}
			return
		}
		for i := 0; i < v.NumField(); i++ {
			if v.Type().Field(i).IsExported() {
				currencyFields(v.Field(i), out, depth+1)
			}
		}
	case reflect.Slice, reflect.Array:
		for i := 0; i < v.Len(); i++ {
			currencyFields(v.Index(i), out, depth+1)
		}
	case reflect.Ptr, reflect.Interface:
		if !v.IsNil() {
			currencyFields(v.Elem(), out, depth+1)
		}
	}
}

type variant struct {
	name   string
	b      types.Block
	bs     *consensus.V1BlockSupplement // nil: rebuild from the store
	expect string                       // "reject", "accept" or "" (no oracle)
	known  string                       // known-finding key when the implementation is known to deviate
}

func (c *lchain) resignV1(txn *types.Transaction) {
	keyFor := map[types.Hash256]int{}
	for _, in := range txn.SiacoinInputs {
		for k := range c.keys {
			if in.UnlockConditions.UnlockHash() == c.addr1(k) {
				keyFor[types.Hash256(in.ParentID)] = k
			}
		}
		if o, ok := specialUCs[in.UnlockConditions.UnlockHash()]; ok && o.key >= 0 {
			keyFor[types.Hash256(in.ParentID)] = o.key
		}
	}
	for _, in := range txn.SiafundInputs {
		for k := range c.keys {
			if in.UnlockConditions.UnlockHash() == c.addr1(k) {
				keyFor[types.Hash256(in.ParentID)] = k
			}
		}
	}
	for _, r := range txn.FileContractRevisions {
		for k := range c.keys {
			if r.UnlockConditions.UnlockHash() == c.addr1(k) {
				keyFor[types.Hash256(r.ParentID)] = k
			}
		}
	}
	c.signV1(txn, keyFor, false)
}

func (c *lchain) resignV2(txn *types.V2Transaction) {
	var owners, sfo []v2owner
	for _, in := range txn.SiacoinInputs {
		o, _ := c.ownerOf(in.Parent.SiacoinOutput.Address, v2policies)
		owners = append(owners, o)
	}
	for _, in := range txn.SiafundInputs {
		o, _ := c.ownerOf(in.Parent.SiafundOutput.Address, v2policies)
		sfo = append(sfo, o)
	}
	c.signV2Inputs(txn, owners, sfo)
}

// variants derives adversarial blocks from an honest one (not yet applied)
func (c *lchain) variants(b types.Block) []variant {
	r := c.r
	var out []variant
	add := func(name string, nb types.Block, expect, known string) {
		c.seal(&nb)
		out = append(out, variant{name: name, b: nb, expect: expect, known: known})
	}
	// ---- v1 ----
	for ti, txn := range b.Transactions {
		if len(txn.SiacoinInputs) > 0 {
			// C02: the same input twice in one transaction, re-signed
			nb := cloneBlock(b)
			t := &nb.Transactions[ti]
			t.SiacoinInputs = append(t.SiacoinInputs, t.SiacoinInputs[0])
			if e, ok := c.st().sces[t.SiacoinInputs[0].ParentID]; ok {
				// the value counted twice is paid out, so that nothing but the repeated input is wrong
				t.SiacoinOutputs = append(t.SiacoinOutputs, types.SiacoinOutput{Value: e.SiacoinOutput.Value, Address: c.addr1(1)})
			}
			c.resignV1(t)
			add("c02.v1-dup-input-same-txn", nb, "reject", "")
			// C02: a second transaction spending the same output
			nb = cloneBlock(b)
			t2 := types.Transaction{SiacoinInputs: []types.SiacoinInput{txn.SiacoinInputs[0]}}
			if e, ok := c.st().sces[txn.SiacoinInputs[0].ParentID]; ok {
				t2.SiacoinOutputs = []types.SiacoinOutput{{Value: e.SiacoinOutput.Value, Address: c.addr1(0)}}
			}
			c.resignV1(&t2)
			nb.Transactions = append(nb.Transactions, t2)
			add("c02.v1-dup-input-other-txn", nb, "reject", "")
			// C03: tamper an output address after signing
			if len(txn.SiacoinOutputs) > 0 && len(txn.Signatures) > 0 && txn.Signatures[0].CoveredFields.WholeTransaction {
				nb = cloneBlock(b)
				nb.Transactions[ti].SiacoinOutputs[0].Address[3] ^= 1
				add("c03.v1-output-tampered", nb, "reject", "")
			}
			// C03: corrupt / drop / add a signature; another key
			if len(txn.Signatures) > 0 {
				nb = cloneBlock(b)
				nb.Transactions[ti].Signatures[0].Signature[r.rng.IntN(64)] ^= 1 << r.rng.IntN(8)
				add("c03.v1-sig-corrupted", nb, "reject", "")
				nb = cloneBlock(b)
				nb.Transactions[ti].Signatures = nb.Transactions[ti].Signatures[1:]
				add("c03.v1-sig-dropped", nb, "reject", "")
				nb = cloneBlock(b)
				nb.Transactions[ti].Signatures = append(nb.Transactions[ti].Signatures, nb.Transactions[ti].Signatures[0])
				add("c03.v1-sig-added", nb, "reject", "")
				nb = cloneBlock(b)
				t = &nb.Transactions[ti]
				sh := c.cs().WholeSigHash(*t, t.Signatures[0].ParentID, 0, 0, nil)
				s := c.keys[3].SignHash(sh)
				if !t.Signatures[0].CoveredFields.WholeTransaction {
					s = c.keys[3].SignHash(c.cs().PartialSigHash(*t, t.Signatures[0].CoveredFields))
				}
				if txn.SiacoinInputs[0].UnlockConditions.UnlockHash() != c.addr1(3) {
					t.Signatures[0].Signature = s[:]
					add("c03.v1-signed-by-other-key", nb, "reject", "")
				}
				// substituted unlock conditions (other key's conditions, properly signed by that key)
				nb = cloneBlock(b)
				t = &nb.Transactions[ti]
				if t.SiacoinInputs[0].UnlockConditions.UnlockHash() != c.addr1(3) {
					t.SiacoinInputs[0].UnlockConditions = c.uc(3)
					c.resignV1(t)
					add("c03.v1-substituted-conditions", nb, "reject", "")
				}
				// C10: covered fields pointing outside the transaction
				nb = cloneBlock(b)
				t = &nb.Transactions[ti]
				t.Signatures[0].CoveredFields = types.CoveredFields{SiacoinOutputs: []uint64{uint64(len(t.SiacoinOutputs)) + uint64(r.rng.IntN(3))}}
				add("c10.v1-covered-out-of-range", nb, "reject", "")
				nb = cloneBlock(b)
				t = &nb.Transactions[ti]
				t.Signatures[0].CoveredFields = types.CoveredFields{WholeTransaction: true, Signatures: []uint64{1 << 63}}
				add("c10.v1-covered-signature-index-huge", nb, "reject", "")
			}
			// C01: inflate an output by one hasting
			if len(txn.SiacoinOutputs) > 0 {
				nb = cloneBlock(b)
				t = &nb.Transactions[ti]
				t.SiacoinOutputs[0].Value = t.SiacoinOutputs[0].Value.Add(types.NewCurrency64(1))
				c.resignV1(t)
				add("c01.v1-output-inflated", nb, "reject", "")
			}
			// C10: a fee so large that outputs + fee pass 2^128
			nb = cloneBlock(b)
			t = &nb.Transactions[ti]
			t.MinerFees = append(t.MinerFees, types.NewCurrency(0, 1<<63))
			if len(t.SiacoinOutputs) > 0 {
				t.SiacoinOutputs[0].Value = types.NewCurrency(0, 1<<63)
			}
			c.resignV1(t)
			add("c10.v1-fee-overflow", nb, "reject", "")
			// C04: the parent supplied with one field altered (handled through a custom supplement)
		}
		if len(txn.FileContracts) > 0 {
			nb := cloneBlock(b)
			t := &nb.Transactions[ti]
			t.FileContracts[0].Payout = t.FileContracts[0].Payout.Add(types.NewCurrency64(10000))
			if len(t.SiacoinOutputs) > 0 && t.SiacoinOutputs[0].Value.Cmp(types.NewCurrency64(10000)) > 0 {
				t.SiacoinOutputs[0].Value = t.SiacoinOutputs[0].Value.Sub(types.NewCurrency64(10000))
			}
			c.resignV1(t)
			// (the tax is rounded down to a multiple of 10000: in about 4% of the cases the larger payout carries
			// exactly 10000 more tax and the altered contract is a valid one; only the others must be rejected)
			var vsum types.Currency
			for _, o := range t.FileContracts[0].ValidProofOutputs {
				vsum = vsum.Add(o.Value)
			}
			if t.FileContracts[0].Payout != vsum.Add(c.cs().FileContractTax(t.FileContracts[0])) {
				add("c01.v1-contract-wrong-tax", nb, "reject", "")
			}
		}
		if len(txn.FileContractRevisions) > 0 {
			nb := cloneBlock(b)
			t := &nb.Transactions[ti]
			rv := &t.FileContractRevisions[0]
			rv.FileContract.ValidProofOutputs[0].Value = rv.FileContract.ValidProofOutputs[0].Value.Add(types.NewCurrency64(1))
			c.resignV1(t)
			add("c07.v1-revision-changes-total", nb, "reject", "")
			nb = cloneBlock(b)
			t = &nb.Transactions[ti]
			if e, ok := c.st().fces[t.FileContractRevisions[0].ParentID]; ok {
				t.FileContractRevisions[0].FileContract.RevisionNumber = e.FileContract.RevisionNumber
				c.resignV1(t)
				add("c07.v1-revision-number-not-higher", nb, "reject", "")
			}
			// C02: revise twice in the same transaction
			nb = cloneBlock(b)
			t = &nb.Transactions[ti]
			t.FileContractRevisions = append(t.FileContractRevisions, t.FileContractRevisions[0])
			c.resignV1(t)
			add("c02.v1-revise-twice-same-txn", nb, "reject", "")
		}
		if len(txn.StorageProofs) > 0 {
			sp := txn.StorageProofs[0]
			nb := cloneBlock(b)
			nb.Transactions[ti].StorageProofs = append(nb.Transactions[ti].StorageProofs, sp)
			add("c02.v1-proof-twice-same-txn", nb, "reject", "")
			nb = cloneBlock(b)
			nb.Transactions = append(nb.Transactions, types.Transaction{StorageProofs: []types.StorageProof{sp}})
			add("c02.v1-proof-twice-other-txn", nb, "reject", "")
			if e, ok := c.st().fces[sp.ParentID]; ok && e.FileContract.Filesize > 0 {
				nb = cloneBlock(b)
				nb.Transactions[ti].StorageProofs[0].Leaf[0] ^= 1
				exp := "reject"
				if e.FileContract.Filesize%64 != 0 && c.child() >= c.n.HardforkTax.Height {
					// a flipped byte beyond the last leaf's real length is not part of the proven data
					exp = ""
				}
				add("c07.v1-proof-leaf-corrupted", nb, exp, "")
				if len(sp.Proof) > 0 {
					nb = cloneBlock(b)
					nb.Transactions[ti].StorageProofs[0].Proof[0][1] ^= 1
					add("c07.v1-proof-hash-corrupted", nb, "reject", "")
					nb = cloneBlock(b)
					p := nb.Transactions[ti].StorageProofs[0].Proof
					nb.Transactions[ti].StorageProofs[0].Proof = p[:len(p)-1]
					add("c07.v1-proof-short", nb, "reject", "")
				}
			}
			// C02: revise a contract that this block proves
			if e, ok := c.st().fces[sp.ParentID]; ok {
				k, _, okk := c.keyOf(e.FileContract.UnlockHash)
				if okk {
					nb = cloneBlock(b)
					rev := e.FileContract
					rev.RevisionNumber++
					t := types.Transaction{FileContractRevisions: []types.FileContractRevision{{ParentID: sp.ParentID, UnlockConditions: c.uc(k), FileContract: rev}}}
					c.resignV1(&t)
					nb.Transactions = append(nb.Transactions, t)
					add("c02.v1-revise-after-proof", nb, "reject", "")
				}
			}
		}
		if len(txn.SiafundInputs) > 0 {
			nb := cloneBlock(b)
			t := &nb.Transactions[ti]
			t.SiafundOutputs[0].Value++
			c.resignV1(t)
			add("c01.v1-siafund-inflated", nb, "reject", "")
			nb = cloneBlock(b)
			t = &nb.Transactions[ti]
			t.SiafundInputs = append(t.SiafundInputs, t.SiafundInputs[0])
			if e, ok := c.st().sfes[t.SiafundInputs[0].ParentID]; ok {
				t.SiafundOutputs = append(t.SiafundOutputs, types.SiafundOutput{Value: e.SiafundOutput.Value, Address: c.addr1(1)})
			}
			c.resignV1(t)
			add("c02.v1-dup-siafund-input", nb, "reject", "")
		}
	}
	// C02/C01: a v1 input whose ParentID is the ID of an element of another kind created earlier in the block
	for ti, txn := range b.Transactions {
		for fi := range txn.FileContracts {
			for k := 0; k < 3; k++ {
				nb := cloneBlock(b)
				t := types.Transaction{SiacoinInputs: []types.SiacoinInput{{ParentID: types.SiacoinOutputID(nb.Transactions[ti].FileContractID(fi)), UnlockConditions: c.uc(k)}},
					SiacoinOutputs: []types.SiacoinOutput{{Value: types.Siacoins(1), Address: c.addr1(k)}}}
				c.resignV1(&t)
				nb.Transactions = append(nb.Transactions, t)
				add("c02.v1-alias-parent-id", nb, "reject", "")
			}
		}
		// C10: every currency field pushed to an extreme value (re-signed): never a panic
		var fields []*types.Currency
		probe := cloneTxn(txn)
		currencyFields(reflect.ValueOf(&probe).Elem(), &fields, 0)
		for fi := range fields {
			if r.rng.IntN(3) != 0 {
				continue
			}
			nb := cloneBlock(b)
			var fs []*types.Currency
			currencyFields(reflect.ValueOf(&nb.Transactions[ti]).Elem(), &fs, 0)
			switch r.rng.IntN(3) {
			case 0:
				*fs[fi] = types.MaxCurrency
			case 1:
				*fs[fi] = types.NewCurrency(0, 1<<63)
			default:
				*fs[fi] = types.ZeroCurrency
			}
			c.resignV1(&nb.Transactions[ti])
			add("c10.v1-extreme-currency", nb, "", "")
		}
	}
	// ---- v2 ----
	prevRev := map[types.FileContractID]types.V2FileContract{}
	if b.V2 != nil {
		for ti, txn := range b.V2.Transactions {
			var fields []*types.Currency
			probe := cloneV2(txn)
			currencyFields(reflect.ValueOf(&probe).Elem(), &fields, 0)
			for fi := range fields {
				if r.rng.IntN(3) != 0 {
					continue
				}
				nb := cloneBlock(b)
				var fs []*types.Currency
				currencyFields(reflect.ValueOf(&nb.V2.Transactions[ti]).Elem(), &fs, 0)
				if fi >= len(fs) {
					continue
				}
				switch r.rng.IntN(3) {
				case 0:
					*fs[fi] = types.MaxCurrency
				case 1:
					*fs[fi] = types.NewCurrency(0, 1<<63)
				default:
					*fs[fi] = types.ZeroCurrency
				}
				c.resignV2(&nb.V2.Transactions[ti])
				add("c10.v2-extreme-currency", nb, "", "")
			}
			// C03: a second revision in the block must be signed by the keys the first one installed
			for ri, rv := range txn.FileContractRevisions {
				if prev, ok := prevRev[rv.Parent.ID]; ok && prev.RenterPublicKey != rv.Parent.V2FileContract.RenterPublicKey {
					nb := cloneBlock(b)
					rev := &nb.V2.Transactions[ti].FileContractRevisions[ri].Revision
					c.signContract(rev, c.keyIdx(rv.Parent.V2FileContract.RenterPublicKey), c.keyIdx(rv.Parent.V2FileContract.HostPublicKey))
					add("c03.v2-second-revision-signed-by-replaced-key", nb, "reject", "")
				}
				prevRev[rv.Parent.ID] = rv.Revision
			}
		}
	}
	revisedEarlier := map[types.FileContractID]types.V2FileContract{}
	if b.V2 != nil {
		for ti, txn := range b.V2.Transactions {
			if len(txn.SiacoinInputs) > 0 {
				eph := txn.SiacoinInputs[0].Parent.StateElement.LeafIndex == types.UnassignedLeafIndex
				nb := cloneBlock(b)
				t := &nb.V2.Transactions[ti]
				t.SiacoinInputs = append(t.SiacoinInputs, copySCI(t.SiacoinInputs[0]))
				t.SiacoinOutputs = append(t.SiacoinOutputs, types.SiacoinOutput{Value: t.SiacoinInputs[0].Parent.SiacoinOutput.Value, Address: c.addr2(1)})
				c.resignV2(t)
				add("c02.v2-dup-input-same-txn", nb, "reject", "")
				nb = cloneBlock(b)
				t2 := types.V2Transaction{SiacoinInputs: []types.V2SiacoinInput{copySCI(txn.SiacoinInputs[0])},
					SiacoinOutputs: []types.SiacoinOutput{{Value: txn.SiacoinInputs[0].Parent.SiacoinOutput.Value, Address: c.addr2(0)}}}
				c.resignV2(&t2)
				nb.V2.Transactions = append(nb.V2.Transactions, t2)
				name := "c02.v2-dup-input-other-txn"
				if eph {
					name = "c02.v2-ephemeral-spent-twice"
				}
				add(name, nb, "reject", "")
				if len(txn.SiacoinOutputs) > 0 {
					nb = cloneBlock(b)
					nb.V2.Transactions[ti].SiacoinOutputs[0].Address[5] ^= 1
					add("c03.v2-output-tampered", nb, "reject", "")
					nb = cloneBlock(b)
					t = &nb.V2.Transactions[ti]
					t.SiacoinOutputs[0].Value = t.SiacoinOutputs[0].Value.Add(types.NewCurrency64(1))
					c.resignV2(t)
					add("c01.v2-output-inflated", nb, "reject", "")
				}
				sp := txn.SiacoinInputs[0].SatisfiedPolicy
				if len(sp.Signatures) > 0 {
					nb = cloneBlock(b)
					nb.V2.Transactions[ti].SiacoinInputs[0].SatisfiedPolicy.Signatures[0][r.rng.IntN(64)] ^= 1 << r.rng.IntN(8)
					add("c03.v2-sig-corrupted", nb, "reject", "")
					nb = cloneBlock(b)
					s := nb.V2.Transactions[ti].SiacoinInputs[0].SatisfiedPolicy.Signatures
					nb.V2.Transactions[ti].SiacoinInputs[0].SatisfiedPolicy.Signatures = s[1:]
					add("c03.v2-sig-dropped", nb, "reject", "")
					nb = cloneBlock(b)
					s = nb.V2.Transactions[ti].SiacoinInputs[0].SatisfiedPolicy.Signatures
					nb.V2.Transactions[ti].SiacoinInputs[0].SatisfiedPolicy.Signatures = append(s, s[0])
					add("c03.v2-sig-added", nb, "reject", "")
				}
				if len(sp.Preimages) > 0 {
					nb = cloneBlock(b)
					nb.V2.Transactions[ti].SiacoinInputs[0].SatisfiedPolicy.Preimages[0][0] ^= 1
					add("c03.v2-preimage-corrupted", nb, "reject", "")
				}
				// substituted policy: another key's policy, properly signed by that key
				nb = cloneBlock(b)
				t = &nb.V2.Transactions[ti]
				other := types.PolicyPublicKey(c.keys[3].PublicKey())
				if other.Address() != t.SiacoinInputs[0].Parent.SiacoinOutput.Address {
					for i := range t.SiacoinInputs {
						t.SiacoinInputs[i].SatisfiedPolicy = types.SatisfiedPolicy{Policy: other}
					}
					h := c.cs().InputSigHash(*t)
					for i := range t.SiacoinInputs {
						t.SiacoinInputs[i].SatisfiedPolicy.Signatures = []types.Signature{c.keys[3].SignHash(h)}
					}
					add("c03.v2-substituted-policy", nb, "reject", "")
				}
				if !eph {
					// C04: the parent with one field altered / with a wrong position
					nb = cloneBlock(b)
					t = &nb.V2.Transactions[ti]
					t.SiacoinInputs[0].Parent.SiacoinOutput.Value = t.SiacoinInputs[0].Parent.SiacoinOutput.Value.Add(types.NewCurrency64(1))
					if len(t.SiacoinOutputs) > 0 {
						t.SiacoinOutputs[0].Value = t.SiacoinOutputs[0].Value.Add(types.NewCurrency64(1))
					}
					c.resignV2(t)
					add("c04.v2-parent-value-altered", nb, "reject", "")
					nb = cloneBlock(b)
					t = &nb.V2.Transactions[ti]
					t.SiacoinInputs[0].Parent.MaturityHeight ^= 1
					c.resignV2(t)
					add("c04.v2-parent-maturity-altered", nb, "reject", "")
					if len(t.SiacoinInputs[0].Parent.StateElement.MerkleProof) > 0 {
						nb = cloneBlock(b)
						t = &nb.V2.Transactions[ti]
						t.SiacoinInputs[0].Parent.StateElement.MerkleProof[0][0] ^= 1
						c.resignV2(t)
						add("c04.v2-parent-proof-altered", nb, "reject", "")
					}
					nb = cloneBlock(b)
					t = &nb.V2.Transactions[ti]
					t.SiacoinInputs[0].Parent.StateElement.LeafIndex ^= 1 << 40
					c.resignV2(t)
					add("c04.v2-parent-index-high-bit", nb, "reject", "")
				}
				// C10: maximal miner fee
				nb = cloneBlock(b)
				t = &nb.V2.Transactions[ti]
				t.MinerFee = types.NewCurrency(^uint64(0), ^uint64(0))
				c.resignV2(t)
				add("c10.v2-fee-max", nb, "reject", "")
			}
			if len(txn.SiafundInputs) > 0 {
				// C03/C12: the claim address redirected after signing (F8: not covered by the signature)
				nb := cloneBlock(b)
				nb.V2.Transactions[ti].SiafundInputs[0].ClaimAddress[7] ^= 1
				add("c03.v2-claim-address-redirected", nb, "reject", "F8")
				nb = cloneBlock(b)
				t := &nb.V2.Transactions[ti]
				t.SiafundInputs = append(t.SiafundInputs, copySFI(t.SiafundInputs[0]))
				t.SiafundOutputs = append(t.SiafundOutputs, types.SiafundOutput{Value: t.SiafundInputs[0].Parent.SiafundOutput.Value, Address: c.addr2(1)})
				c.resignV2(t)
				add("c02.v2-dup-siafund-input", nb, "reject", "")
			}
			for fi := range txn.FileContracts {
				nb := cloneBlock(b)
				nb.V2.Transactions[ti].FileContracts[fi].HostSignature[2] ^= 1
				add("c03.v2-contract-host-sig-corrupted", nb, "reject", "")
				nb = cloneBlock(b)
				t := &nb.V2.Transactions[ti]
				fc := &t.FileContracts[fi]
				fc.HostPublicKey = c.keys[3].PublicKey()
				c.resignV2(t)
				add("c03.v2-contract-key-substituted", nb, "reject", "")
			}
			for ri, rv := range txn.FileContractRevisions {
				cur := rv.Parent.V2FileContract
				if prev, ok := revisedEarlier[rv.Parent.ID]; ok {
					cur = prev // the contract as it currently stands inside this block
				}
				revisedEarlier[rv.Parent.ID] = rv.Revision
				rk, hk := c.keyIdx(cur.RenterPublicKey), c.keyIdx(cur.HostPublicKey)
				mk := func(name string, f func(rev *types.V2FileContract), signR, signH int, exp string) {
					nb := cloneBlock(b)
					rev := &nb.V2.Transactions[ti].FileContractRevisions[ri].Revision
					f(rev)
					c.signContract(rev, signR, signH)
					add(name, nb, exp, "")
				}
				mk("c07.v2-revision-changes-total", func(rev *types.V2FileContract) { rev.RenterOutput.Value = rev.RenterOutput.Value.Add(types.NewCurrency64(1)) }, rk, hk, "reject")
				mk("c07.v2-revision-number-not-higher", func(rev *types.V2FileContract) { rev.RevisionNumber = cur.RevisionNumber }, rk, hk, "reject")
				mk("c07.v2-revision-raises-missed-host", func(rev *types.V2FileContract) { rev.MissedHostValue = cur.MissedHostValue.Add(types.NewCurrency64(1)) }, rk, hk, "reject")
				mk("c07.v2-revision-alters-collateral", func(rev *types.V2FileContract) { rev.TotalCollateral = rev.TotalCollateral.Add(types.NewCurrency64(1)) }, rk, hk, "reject")
				mk("c07.v2-revision-lowers-capacity", func(rev *types.V2FileContract) {
					if rev.Capacity > 0 {
						rev.Capacity--
						if rev.Filesize > rev.Capacity {
							rev.Filesize = rev.Capacity
						}
					} else {
						rev.RevisionNumber = cur.RevisionNumber
					}
				}, rk, hk, "reject")
				// C03: revision that rotates the renter key must be signed by the *current* key
				if rv.Revision.RenterPublicKey != cur.RenterPublicKey {
					mk("c03.v2-revision-signed-by-new-key", func(rev *types.V2FileContract) {}, c.keyIdx(rv.Revision.RenterPublicKey), hk, "reject")
					// known finding F12: after this key rotation, a later transaction of the same block renews the contract
					// under the keys of the accumulator leaf (the old keys): the contract as it currently stands has new keys
					if pfc := rv.Parent.V2FileContract; pfc.ProofHeight >= c.child() && rv.Revision.ProofHeight >= c.child() {
						prk, phk := c.keyIdx(pfc.RenterPublicKey), c.keyIdx(pfc.HostPublicKey)
						total := pfc.RenterOutput.Value.Add(pfc.HostOutput.Value)
						nt := total.Div64(52).Div64(25).Mul64(25)
						if !nt.IsZero() {
							cost := nt.Add(nt.Div64(25))
							rr := cost
							if pfc.RenterOutput.Value.Cmp(rr) < 0 {
								rr = pfc.RenterOutput.Value
							}
							hr := cost.Sub(rr)
							nc := types.V2FileContract{Capacity: pfc.Capacity, Filesize: pfc.Filesize, FileMerkleRoot: pfc.FileMerkleRoot,
								ProofHeight: c.child() + 3, ExpirationHeight: c.child() + 5,
								RenterOutput: types.SiacoinOutput{Value: nt.Div64(2), Address: pfc.RenterOutput.Address},
								HostOutput:   types.SiacoinOutput{Value: nt.Sub(nt.Div64(2)), Address: pfc.HostOutput.Address},
								RenterPublicKey: pfc.RenterPublicKey, HostPublicKey: pfc.HostPublicKey}
							c.signContract(&nc, prk, phk)
							ren := &types.V2FileContractRenewal{NewContract: nc, RenterRollover: rr, HostRollover: hr,
								FinalRenterOutput: types.SiacoinOutput{Value: pfc.RenterOutput.Value.Sub(rr), Address: pfc.RenterOutput.Address},
								FinalHostOutput:   types.SiacoinOutput{Value: pfc.HostOutput.Value.Sub(hr), Address: pfc.HostOutput.Address}}
							if hr.Cmp(pfc.HostOutput.Value) <= 0 {
								h := c.cs().RenewalSigHash(*ren)
								ren.RenterSignature, ren.HostSignature = c.keys[prk].SignHash(h), c.keys[phk].SignHash(h)
								nb := cloneBlock(b)
								nb.V2.Transactions = append(nb.V2.Transactions, types.V2Transaction{FileContractResolutions: []types.V2FileContractResolution{{Parent: rv.Parent.Copy(), Resolution: ren}}})
								c.seal(&nb)
								add("c03.v2-renewal-under-rotated-away-keys", nb, "reject", "F12")
							}
						}
					}
				} else {
					mk("c03.v2-revision-signed-by-other-key", func(rev *types.V2FileContract) {}, (rk+1)%4, hk, "reject")
				}
				// C02: revised twice in one transaction
				nb := cloneBlock(b)
				t := &nb.V2.Transactions[ti]
				t.FileContractRevisions = append(t.FileContractRevisions, t.FileContractRevisions[ri])
				add("c02.v2-revise-twice-same-txn", nb, "reject", "")
				// C02: revise and resolve (expire) in one block
				nb = cloneBlock(b)
				nb.V2.Transactions = append(nb.V2.Transactions, types.V2Transaction{FileContractResolutions: []types.V2FileContractResolution{{Parent: rv.Parent.Copy(), Resolution: &types.V2FileContractExpiration{}}}})
				add("c08.v2-expire-before-expiration", nb, "reject", "")
			}
			for ri, rs := range txn.FileContractResolutions {
				nb := cloneBlock(b)
				t := &nb.V2.Transactions[ti]
				t.FileContractResolutions = append(t.FileContractResolutions, types.V2FileContractResolution{Parent: rs.Parent.Copy(), Resolution: &types.V2FileContractExpiration{}})
				add("c02.v2-resolve-twice-same-txn", nb, "reject", "")
				nb = cloneBlock(b)
				nb.V2.Transactions = append(nb.V2.Transactions, types.V2Transaction{FileContractResolutions: []types.V2FileContractResolution{{Parent: rs.Parent.Copy(), Resolution: &types.V2FileContractExpiration{}}}})
				add("c02.v2-resolve-twice-other-txn", nb, "reject", "")
				switch res := rs.Resolution.(type) {
				case *types.V2StorageProof:
					if rs.Parent.V2FileContract.Filesize > 0 {
						nb = cloneBlock(b)
						p := nb.V2.Transactions[ti].FileContractResolutions[ri].Resolution.(*types.V2StorageProof)
						cp := *p
						cp.Leaf[0] ^= 1
						nb.V2.Transactions[ti].FileContractResolutions[ri].Resolution = &cp
						exp := "reject"
						if rs.Parent.V2FileContract.Filesize%64 != 0 {
							exp = "" // (zero padding of a partial last leaf is part of the leaf hash: still rejected, but leave the oracle out)
							exp = "reject"
						}
						add("c07.v2-proof-leaf-corrupted", nb, exp, "")
						if len(res.Proof) > 0 {
							nb = cloneBlock(b)
							p = nb.V2.Transactions[ti].FileContractResolutions[ri].Resolution.(*types.V2StorageProof)
							cp = *p
							cp.Proof = append([]types.Hash256(nil), p.Proof...)
							cp.Proof[0][3] ^= 1
							nb.V2.Transactions[ti].FileContractResolutions[ri].Resolution = &cp
							add("c07.v2-proof-hash-corrupted", nb, "reject", "")
							nb = cloneBlock(b)
							cp = *p
							cp.Proof = p.Proof[:len(p.Proof)-1]
							nb.V2.Transactions[ti].FileContractResolutions[ri].Resolution = &cp
							add("c07.v2-proof-short", nb, "reject", "")
							nb = cloneBlock(b)
							cp = *p
							cp.Proof = append(append([]types.Hash256(nil), p.Proof...), types.Hash256{1})
							nb.V2.Transactions[ti].FileContractResolutions[ri].Resolution = &cp
							add("c07.v2-proof-long", nb, "reject", "")
						}
					}
					// proof index of another height
					if other, ok := c.st().cies[res.ProofIndex.ChainIndex.Height-1]; ok {
						nb = cloneBlock(b)
						cp := *res
						cp.ProofIndex = other.Copy()
						nb.V2.Transactions[ti].FileContractResolutions[ri].Resolution = &cp
						add("c08.v2-proof-index-wrong-height", nb, "reject", "")
					}
				case *types.V2FileContractRenewal:
					fc := rs.Parent.V2FileContract
					rk, hk := c.keyIdx(fc.RenterPublicKey), c.keyIdx(fc.HostPublicKey)
					remake := func(name string, f func(rn *types.V2FileContractRenewal), sr, sh int, exp string) {
						nb := cloneBlock(b)
						t := &nb.V2.Transactions[ti]
						rn := *t.FileContractResolutions[ri].Resolution.(*types.V2FileContractRenewal)
						f(&rn)
						c.signContract(&rn.NewContract, c.keyIdx(rn.NewContract.RenterPublicKey), c.keyIdx(rn.NewContract.HostPublicKey))
						h := c.cs().RenewalSigHash(rn)
						rn.RenterSignature, rn.HostSignature = c.keys[sr].SignHash(h), c.keys[sh].SignHash(h)
						t.FileContractResolutions[ri].Resolution = &rn
						c.resignV2(t)
						add(name, nb, exp, "")
					}
					remake("c03.v2-renewal-signed-by-other-key", func(rn *types.V2FileContractRenewal) {}, (rk+1)%4, hk, "reject")
					remake("c03.v2-renewal-changes-renter-key", func(rn *types.V2FileContractRenewal) { rn.NewContract.RenterPublicKey = c.keys[(rk+1)%4].PublicKey() }, rk, hk, "reject")
					remake("c10.v2-renewal-host-rollover-max", func(rn *types.V2FileContractRenewal) { rn.HostRollover = types.MaxCurrency }, rk, hk, "reject")
					remake("c10.v2-renewal-renter-rollover-max", func(rn *types.V2FileContractRenewal) { rn.RenterRollover = types.MaxCurrency }, rk, hk, "reject")
					remake("c07.v2-renewal-payout-mismatch", func(rn *types.V2FileContractRenewal) {
						rn.FinalRenterOutput.Value = rn.FinalRenterOutput.Value.Add(types.NewCurrency64(1))
					}, rk, hk, "reject")
				}
			}
			for ai := range txn.Attestations {
				nb := cloneBlock(b)
				nb.V2.Transactions[ti].Attestations[ai].Value = append(nb.V2.Transactions[ti].Attestations[ai].Value, 1)
				add("c03.v2-attestation-tampered", nb, "reject", "")
			}
			if txn.NewFoundationAddress != nil {
				nb := cloneBlock(b)
				t := &nb.V2.Transactions[ti]
				// fund the update from an ordinary output instead of the management address
				if in, o, ok := c.plan().pickV2(types.Siacoins(1)); ok && in.SiacoinOutput.Address != c.cs().FoundationManagementAddress {
					t.SiacoinInputs = []types.V2SiacoinInput{{Parent: in}}
					t.SiacoinOutputs = []types.SiacoinOutput{{Value: in.SiacoinOutput.Value, Address: c.addr2(0)}}
					c.signV2Inputs(t, []v2owner{o}, nil)
					add("c03.v2-foundation-update-unauthorised", nb, "reject", "")
				}
			}
		}
	}
	// block-level: payout not equal to reward + fees; commitment not matching
	nb := cloneBlock(b)
	c.seal(&nb)
	nb.MinerPayouts[0].Value = nb.MinerPayouts[0].Value.Add(types.NewCurrency64(1))
	if nb.V2 != nil {
		nb.V2.Commitment = c.cs().Commitment(nb.MinerPayouts[0].Address, nb.Transactions, nb.V2Transactions())
	}
	mineBlock(c.cs(), &nb)
	out = append(out, variant{name: "c01.payout-inflated", b: nb, expect: "reject"})
	if b.V2 != nil && len(b.V2.Transactions) > 0 {
		nb = cloneBlock(b)
		c.seal(&nb)
		nb.V2.Transactions = nb.V2.Transactions[:len(nb.V2.Transactions)-1]
		mineBlock(c.cs(), &nb)
		out = append(out, variant{name: "c12.commitment-stale", b: nb, expect: "reject"})
	}
	return out
}

// probes: actions built regardless of whether the height allows them, to pin every boundary (C08)
func (c *lchain) boundaryProbes() []variant {
	var out []variant
	cs := c.cs()
	child := c.child()
	add := func(name string, txns []types.Transaction, v2txns []types.V2Transaction, allowed bool) {
		b := c.newBlock(txns, v2txns)
		exp := "reject"
		if allowed {
			exp = "accept"
		}
		out = append(out, variant{name: name, b: b, expect: exp})
	}
	v1ok := child < c.n.HardforkV2.RequireHeight
	v2ok := child >= c.n.HardforkV2.AllowHeight
	// maturity: spend an output maturing at child (allowed) / child+1 (not yet)
	for _, e := range sortedSC(c.st().sces) {
		d := int64(e.MaturityHeight) - int64(child)
		if (d != 0 && d != 1) || e.SiacoinOutput.Value.IsZero() || e.MaturityHeight == 0 {
			continue
		}
		k, v1, ok := c.keyOf(e.SiacoinOutput.Address)
		if !ok {
			continue
		}
		if v1 && v1ok {
			txn := types.Transaction{SiacoinInputs: []types.SiacoinInput{{ParentID: e.ID, UnlockConditions: c.uc(k)}}, SiacoinOutputs: []types.SiacoinOutput{{Value: e.SiacoinOutput.Value, Address: c.addr1(k)}}}
			c.signV1(&txn, map[types.Hash256]int{types.Hash256(e.ID): k}, false)
			add(fmt.Sprintf("c08.v1-maturity%+d", -d), []types.Transaction{txn}, nil, d == 0)
		}
		if v2ok {
			o, _ := c.ownerOf(e.SiacoinOutput.Address, v2policies)
			txn := types.V2Transaction{SiacoinInputs: []types.V2SiacoinInput{{Parent: e.Copy()}}, SiacoinOutputs: []types.SiacoinOutput{{Value: e.SiacoinOutput.Value, Address: c.addr2(k)}}}
			c.signV2Inputs(&txn, []v2owner{o}, nil)
			add(fmt.Sprintf("c08.v2-maturity%+d", -d), nil, []types.V2Transaction{txn}, d == 0)
		}
		break
	}
	// policy locks (height compared with the parent block, time with the median) and v1 timelocks
	if v2ok {
		n := 0
		for _, e := range sortedSC(c.st().sces) {
			o, ok := v2policies[e.SiacoinOutput.Address]
			if !ok || e.MaturityHeight > child || e.SiacoinOutput.Value.IsZero() || n >= 3 {
				continue
			}
			th, isT := o.policy.Type.(types.PolicyTypeThreshold)
			if !isT || int(th.N) != len(th.Of) {
				continue
			}
			locked := false
			for _, sp := range th.Of {
				switch sp.Type.(type) {
				case types.PolicyTypeAbove, types.PolicyTypeAfter:
					locked = true
				}
			}
			if !locked {
				continue
			}
			n++
			txn := types.V2Transaction{SiacoinInputs: []types.V2SiacoinInput{{Parent: e.Copy()}}, SiacoinOutputs: []types.SiacoinOutput{{Value: e.SiacoinOutput.Value, Address: c.addr2(0)}}}
			c.signV2Inputs(&txn, []v2owner{o}, nil)
			add("c08.v2-policy-lock", nil, []types.V2Transaction{txn}, c.policyUnlocked(o.policy))
		}
	}
	if v1ok {
		for _, e := range sortedSC(c.st().sces) {
			o, ok := specialUCs[e.SiacoinOutput.Address]
			if !ok || o.key < 0 || e.MaturityHeight > child || e.SiacoinOutput.Value.IsZero() {
				continue
			}
			if d := int64(o.uc.Timelock) - int64(child); d >= -1 && d <= 1 {
				txn := types.Transaction{SiacoinInputs: []types.SiacoinInput{{ParentID: e.ID, UnlockConditions: o.uc}}, SiacoinOutputs: []types.SiacoinOutput{{Value: e.SiacoinOutput.Value, Address: c.addr1(0)}}}
				c.signV1(&txn, map[types.Hash256]int{types.Hash256(e.ID): o.key}, false)
				add(fmt.Sprintf("c08.v1-timelock%+d", -d), []types.Transaction{txn}, nil, d <= 0)
			}
		}
	}
	// unlock-condition timelocks of siafund inputs and of contract revisions; the timelock of a signature
	if v1ok {
		var sfids []types.SiafundOutputID
		for id := range c.st().sfes {
			sfids = append(sfids, id)
		}
		sort.Slice(sfids, func(i, j int) bool { return string(sfids[i][:]) < string(sfids[j][:]) })
		for _, id := range sfids {
			e := c.st().sfes[id]
			o, ok := specialUCs[e.SiafundOutput.Address]
			if !ok || o.key < 0 {
				continue
			}
			if d := int64(o.uc.Timelock) - int64(child); d >= -1 && d <= 1 {
				txn := types.Transaction{SiafundInputs: []types.SiafundInput{{ParentID: id, UnlockConditions: o.uc, ClaimAddress: c.addr1(0)}},
					SiafundOutputs: []types.SiafundOutput{{Value: e.SiafundOutput.Value, Address: c.addr1(0)}}}
				c.signV1(&txn, map[types.Hash256]int{types.Hash256(id): o.key}, false)
				add(fmt.Sprintf("c08.v1-sf-timelock%+d", -d), []types.Transaction{txn}, nil, d <= 0)
			}
		}
		var fcids []types.FileContractID
		for id := range c.st().fces {
			fcids = append(fcids, id)
		}
		sort.Slice(fcids, func(i, j int) bool { return string(fcids[i][:]) < string(fcids[j][:]) })
		for _, id := range fcids {
			fc := c.st().fces[id].FileContract
			o, ok := specialUCs[fc.UnlockHash]
			if !ok || o.key < 0 || fc.WindowStart < child || fc.RevisionNumber >= 1<<60 {
				continue
			}
			if d := int64(o.uc.Timelock) - int64(child); d >= -1 && d <= 1 {
				rev := fc
				rev.RevisionNumber++
				txn := types.Transaction{FileContractRevisions: []types.FileContractRevision{{ParentID: id, UnlockConditions: o.uc, FileContract: rev}}}
				c.signV1(&txn, map[types.Hash256]int{types.Hash256(id): o.key}, false)
				add(fmt.Sprintf("c08.v1-revise-timelock%+d", -d), []types.Transaction{txn}, nil, d <= 0)
			}
		}
		if in, k, _, ok := c.plan().pickSC(types.Siacoins(1), true); ok {
			for _, d := range []uint64{0, 1} {
				txn := types.Transaction{SiacoinInputs: []types.SiacoinInput{{ParentID: in.ID, UnlockConditions: c.uc(k)}},
					SiacoinOutputs: []types.SiacoinOutput{{Value: in.SiacoinOutput.Value, Address: c.addr1(k)}}}
				tl := child + d
				txn.Signatures = []types.TransactionSignature{{ParentID: types.Hash256(in.ID), CoveredFields: types.CoveredFields{WholeTransaction: true}, Timelock: tl}}
				sig := c.keys[k].SignHash(cs.WholeSigHash(txn, types.Hash256(in.ID), 0, tl, nil))
				txn.Signatures[0].Signature = sig[:]
				add(fmt.Sprintf("c08.v1-sig-timelock%+d", -int64(d)), []types.Transaction{txn}, nil, d == 0)
			}
		}
	}
	// a v2 contract formed with its proof height at the child height (allowed) / one below (already passed)
	if v2ok && child > 0 {
		if in, o, ok := c.plan().pickV2(types.Siacoins(120)); ok {
			for _, d := range []int64{-1, 0} {
				rk, hk := 0, 1
				fc := types.V2FileContract{ProofHeight: uint64(int64(child) + d),
					RenterOutput:    types.SiacoinOutput{Value: types.Siacoins(5), Address: c.addr2(rk)},
					HostOutput:      types.SiacoinOutput{Value: types.Siacoins(10), Address: c.addr2(hk)},
					RenterPublicKey: c.keys[rk].PublicKey(), HostPublicKey: c.keys[hk].PublicKey(),
					TotalCollateral: types.Siacoins(4), MissedHostValue: types.Siacoins(8)}
				fc.ExpirationHeight = fc.ProofHeight + 2
				c.signContract(&fc, rk, hk)
				cost := fc.RenterOutput.Value.Add(fc.HostOutput.Value).Add(cs.V2FileContractTax(fc))
				txn := types.V2Transaction{SiacoinInputs: []types.V2SiacoinInput{{Parent: in.Copy()}}, FileContracts: []types.V2FileContract{fc},
					SiacoinOutputs: []types.SiacoinOutput{{Value: in.SiacoinOutput.Value.Sub(cost), Address: c.addr2(o.key % 3)}}}
				c.signV2Inputs(&txn, []v2owner{o}, nil)
				add(fmt.Sprintf("c08.v2-form-proofheight%+d", d), nil, []types.V2Transaction{txn}, d >= 0)
			}
		}
	}
	// v1 contracts: revision and proof around the window
	if v1ok {
		for id, e := range c.st().fces {
			fc := e.FileContract
			k, _, ok := c.keyOf(fc.UnlockHash)
			if !ok {
				continue
			}
			if d := int64(fc.WindowStart) - int64(child); d >= -1 && d <= 1 && fc.RevisionNumber < 1<<60 {
				rev := fc
				rev.RevisionNumber++
				txn := types.Transaction{FileContractRevisions: []types.FileContractRevision{{ParentID: id, UnlockConditions: c.uc(k), FileContract: rev}}}
				c.signV1(&txn, map[types.Hash256]int{types.Hash256(id): k}, false)
				add(fmt.Sprintf("c08.v1-revise-window%+d", d), []types.Transaction{txn}, nil, d >= 0)
			}
			if d := int64(child) - int64(fc.WindowStart); d >= 0 && d <= 1 && fc.WindowEnd >= child {
				if sp, ok := c.v1Proof(id, e); ok {
					add(fmt.Sprintf("c08.v1-prove-window%+d", d), []types.Transaction{{StorageProofs: []types.StorageProof{sp}}}, nil, true)
				} else if d == 0 {
					// the window-start block does not exist yet: no window ID can be supplied
					add("c08.v1-prove-before-window", []types.Transaction{{StorageProofs: []types.StorageProof{{ParentID: id}}}}, nil, false)
				}
			}
		}
	}
	// v2 contracts: revision / proof / expiration around their heights
	if v2ok {
		for _, e := range c.plan().sortedV2() {
			fc := e.V2FileContract
			rk, hk := c.keyIdx(fc.RenterPublicKey), c.keyIdx(fc.HostPublicKey)
			if d := int64(fc.ProofHeight) - int64(child); d >= -1 && d <= 1 && fc.RevisionNumber < 1<<60 {
				rev := fc
				rev.RevisionNumber++
				c.signContract(&rev, rk, hk)
				add(fmt.Sprintf("c08.v2-revise-proofheight%+d", d), nil, []types.V2Transaction{{FileContractRevisions: []types.V2FileContractRevision{{Parent: e.Copy(), Revision: rev}}}}, d >= 0)
			}
			if d := int64(child) - int64(fc.ProofHeight); d >= 0 && d <= 1 {
				if cie, ok := c.st().cies[fc.ProofHeight]; ok {
					if data, ok := c.files[e.ID]; ok {
						sp := &types.V2StorageProof{ProofIndex: cie.Copy()}
						idx := cs.StorageProofLeafIndex(fc.Filesize, cie.ChainIndex.ID, e.ID)
						if len(data) > 0 {
							copy(sp.Leaf[:], data[idx*64:])
							sp.Proof = naiveFileProof(fileLeafHashes(data), int(idx))
						}
						add(fmt.Sprintf("c08.v2-prove%+d", d), nil, []types.V2Transaction{{FileContractResolutions: []types.V2FileContractResolution{{Parent: e.Copy(), Resolution: sp}}}}, true)
					}
				}
			}
			if d := int64(child) - int64(fc.ExpirationHeight); d >= 0 && d <= 1 {
				add(fmt.Sprintf("c08.v2-expire%+d", d), nil, []types.V2Transaction{{FileContractResolutions: []types.V2FileContractResolution{{Parent: e.Copy(), Resolution: &types.V2FileContractExpiration{}}}}}, d >= 1)
			}
		}
	}
	// fork gates: a v1 transaction at the require height, a v2 transaction before the allow height
	if d := int64(child) - int64(c.n.HardforkV2.RequireHeight); d >= -1 && d <= 0 {
		p := c.plan()
		if p.v1Pay() {
			b := types.Block{ParentID: cs.Index.ID, Timestamp: c.ts.Add(time.Second), Transactions: p.txns}
			if child >= c.n.HardforkV2.AllowHeight {
				b.V2 = &types.V2BlockData{}
			}
			c.seal(&b)
			exp := "accept"
			if d >= 0 {
				exp = "reject"
			}
			out = append(out, variant{name: fmt.Sprintf("c08.v1-at-require%+d", d), b: b, expect: exp})
		}
	}
	if d := int64(child) - int64(c.n.HardforkV2.AllowHeight); d == -1 {
		p := c.plan()
		if p.v2Pay() {
			b := types.Block{ParentID: cs.Index.ID, Timestamp: c.ts.Add(time.Second), V2: &types.V2BlockData{Transactions: p.v2txns}}
			c.seal(&b)
			out = append(out, variant{name: "c08.v2-before-allow", b: b, expect: "reject"})
		}
	}
	return out
}

// stale uses across blocks (C02/C04): elements spent or resolved earlier, presented again with their maintained proofs
func (c *lchain) staleProbes() []variant {
	var out []variant
	child := c.child()
	if child >= c.n.HardforkV2.AllowHeight {
		for _, e := range c.st().spentSC {
			if e.StateElement.LeafIndex == types.UnassignedLeafIndex || e.MaturityHeight > child {
				continue
			}
			o, ok := c.ownerOf(e.SiacoinOutput.Address, v2policies)
			if !ok {
				continue
			}
			txn := types.V2Transaction{SiacoinInputs: []types.V2SiacoinInput{{Parent: e.Copy()}}, SiacoinOutputs: []types.SiacoinOutput{{Value: e.SiacoinOutput.Value, Address: c.addr2(0)}}}
			c.signV2Inputs(&txn, []v2owner{o}, nil)
			out = append(out, variant{name: "c02.v2-spent-output-again", b: c.newBlock(nil, []types.V2Transaction{txn}), expect: "reject"})
			break
		}
		for _, e := range c.st().doneV2 {
			out = append(out, variant{name: "c02.v2-resolved-contract-again", b: c.newBlock(nil, []types.V2Transaction{{FileContractResolutions: []types.V2FileContractResolution{{Parent: e.Copy(), Resolution: &types.V2FileContractExpiration{}}}}}), expect: "reject"})
			break
		}
	}
	if child < c.n.HardforkV2.RequireHeight {
		for _, e := range c.st().spentSC {
			k, v1, ok := c.keyOf(e.SiacoinOutput.Address)
			if !ok || !v1 || e.MaturityHeight > child {
				continue
			}
			txn := types.Transaction{SiacoinInputs: []types.SiacoinInput{{ParentID: e.ID, UnlockConditions: c.uc(k)}}, SiacoinOutputs: []types.SiacoinOutput{{Value: e.SiacoinOutput.Value, Address: c.addr1(k)}}}
			c.signV1(&txn, map[types.Hash256]int{types.Hash256(e.ID): k}, false)
			b := c.newBlock([]types.Transaction{txn}, nil)
			// the attacker supplies the spent element (with its maintained proof) in the supplement
			bs := consensus.V1BlockSupplement{Transactions: []consensus.V1TransactionSupplement{{SiacoinInputs: []types.SiacoinElement{e.Copy()}}}}
			out = append(out, variant{name: "c02.v1-spent-output-again", b: b, bs: &bs, expect: "reject"})
			break
		}
	}
	return out
}

// runVariant presents one adversarial block; oracle: the stated expectation
func (c *lchain) runVariant(v variant) {
	bs := c.supplement(v.b)
	if v.bs != nil {
		bs = *v.bs
	}
	err := c.process(v.b, bs, false, v.name)
	if err != nil && err.Error() == "panic" {
		return
	}
	switch v.expect {
	case "reject":
		if err == nil {
			key := "ledger.accepted:" + v.name
			if v.known != "" {
				key = "known." + v.known
			}
			c.r.violate(key, "%s: a block that must be rejected was accepted at child height %d (block %x)", v.name, c.child(), encBlock(v.b))
		}
	case "accept":
		if err != nil {
			c.r.violate("ledger.rejected:"+v.name, "%s: a block that must be accepted was rejected at child height %d: %v", v.name, c.child(), err)
		}
	}
}
