// Correspondence harness: runs the implementation in /repo on generated inputs, writes the
// cases (with the implementation's observed results) for the extracted Coq model to re-compute,
// and evaluates each property's own oracle directly on the implementation.
package main

import (
	"flag"
	"fmt"
	"os"
)

var props = map[string]func(*Run){}

func main() {
	tier := flag.String("tier", "quick", "quick|thorough")
	seed := flag.Uint64("seed", 1, "PRNG seed")
	out := flag.String("out", ".", "output directory")
	replay := flag.String("replay", "", "replay file")
	limits := flag.String("limits", "", "write the implementation's length limits as a Coq file and exit")
	flag.Parse()
	if *limits != "" {
		writeLimits(*limits)
		return
	}
	if flag.NArg() < 1 {
		fmt.Fprintln(os.Stderr, "usage: harness [flags] <property>")
		os.Exit(2)
	}
	p := flag.Arg(0)
	f, ok := props[p]
	if !ok {
		fmt.Fprintln(os.Stderr, "unknown property", p)
		os.Exit(2)
	}
	_ = replay
	r := newRun(p, *tier, *seed, *out)
	f(r)
	r.finish(*out)
}
