package main

import (
	"errors"
	"fmt"
	"math/big"
	"reflect"
	"strings"
	"time"

	"go.sia.tech/core/consensus"
	rhp2 "go.sia.tech/core/rhp/v2"
	rhp3 "go.sia.tech/core/rhp/v3"
	rhp4 "go.sia.tech/core/rhp/v4"
	"go.sia.tech/core/types"
)

func init() { props["C17"] = runC17 }

func hc(c types.Currency) string { return hbig(c.Big()) }

func fcToks(fc types.V2FileContract) []string {
	return []string{hx(fc.Capacity), hx(fc.Filesize), hx(fc.ProofHeight), hx(fc.ExpirationHeight), hc(fc.RenterOutput.Value), hc(fc.HostOutput.Value),
		hc(fc.MissedHostValue), hc(fc.TotalCollateral), hx(fc.RevisionNumber)}
}

func priceToks(p rhp4.HostPrices) []string {
	return []string{hc(p.ContractPrice), hc(p.Collateral), hc(p.StoragePrice), hc(p.IngressPrice), hc(p.EgressPrice), hc(p.FreeSectorPrice), hx(p.TipHeight)}
}

func usageToks(u rhp4.Usage) []string {
	return []string{hc(u.RPC), hc(u.Storage), hc(u.Egress), hc(u.Ingress), hc(u.AccountFunding), hc(u.RiskedCollateral)}
}

// currencies: mostly realistic, sometimes tiny, sometimes near the top of the range
func (r *Run) c17Cur(scale int) types.Currency {
	switch r.rng.IntN(12) {
	case 0:
		return types.ZeroCurrency
	case 1:
		return types.NewCurrency64(uint64(r.rng.IntN(3)))
	case 2:
		if scale > 1 {
			return types.NewCurrency(r.rng.Uint64(), r.rng.Uint64()>>uint(1+r.rng.IntN(60)))
		}
		return types.NewCurrency64(r.rng.Uint64())
	default:
		switch scale {
		case 0: // per-byte-per-block prices
			return types.NewCurrency64(r.rng.Uint64N(1 << uint(1+r.rng.IntN(34))))
		case 1: // per-RPC prices
			return types.NewCurrency64(r.rng.Uint64N(1 << uint(1+r.rng.IntN(62))))
		default: // allowances, collateral
			return types.Siacoins(uint32(1 + r.rng.IntN(5000))).Div64(uint64(1 + r.rng.IntN(1000)))
		}
	}
}

func (r *Run) c17Prices(tip uint64) rhp4.HostPrices {
	return rhp4.HostPrices{ContractPrice: r.c17Cur(1), Collateral: r.c17Cur(0), StoragePrice: r.c17Cur(0), IngressPrice: r.c17Cur(0),
		EgressPrice: r.c17Cur(0), FreeSectorPrice: r.c17Cur(1), TipHeight: tip, ValidUntil: time.Now().Add(time.Hour)}
}

func errClass17(err error) []string {
	switch {
	case err == nil:
		return []string{"0"}
	case strings.Contains(err.Error(), "insufficient renter funds"):
		return []string{"1", "1"}
	case strings.Contains(err.Error(), "insufficient host collateral"):
		return []string{"1", "2"}
	}
	return []string{"1", "63"}
}

type c17Sim struct {
	r      *Run
	fc     types.V2FileContract
	prices rhp4.HostPrices
	calls  int
	fixedN uint64
}

// an append of exactly n sectors (directed scenarios)
func (s *c17Sim) appendExactly(n uint64) {
	s.fixedN = n
	s.revise(0)
	s.fixedN = 0
}

// one constructor call on the Go side and in the model; returns the new contract when the call succeeded
func (s *c17Sim) revise(kind int) {
	r := s.r
	fc := s.fc
	var rev types.V2FileContract
	var usage rhp4.Usage
	var err error
	var n uint64
	sectors := fc.Filesize / rhp4.SectorSize
	switch kind {
	case 0: // append within the request validation's bound
		n = 1 + r.rng.Uint64N(8)
		if r.rng.IntN(8) == 0 {
			n = 1 + r.rng.Uint64N(rhp4.MaxSectorBatchSize)
		}
		if s.fixedN != 0 {
			n = s.fixedN
		}
	case 1:
		if sectors == 0 {
			n = 0
		} else {
			n = 1 + r.rng.Uint64N(sectors)
		}
	case 2:
		n = 1 + r.rng.Uint64N(1+min(sectors, rhp4.MaxSectorBatchSize))
	default:
		switch r.rng.IntN(5) {
		case 0: // exact-boundary balances
			n = 0
			_ = n
		}
	}
	var amount types.Currency
	if kind == 3 {
		switch r.rng.IntN(6) {
		case 0:
			amount = fc.RenterOutput.Value // exactly everything
		case 1:
			amount = fc.RenterOutput.Value.Add(types.NewCurrency64(1)) // one too many
		case 2:
			if !fc.RenterOutput.Value.IsZero() {
				amount = fc.RenterOutput.Value.Sub(types.NewCurrency64(1))
			}
		default:
			amount = fc.RenterOutput.Value.Div64(uint64(2 + r.rng.IntN(50)))
		}
	}
	if kind == 0 && s.calls%4 == 3 && fc.Capacity < 1<<60 {
		// a consensus-valid contract need not keep its spare capacity a whole number of sectors
		fc.Capacity += 1 + uint64(s.calls*7919)%(rhp4.SectorSize-1)
		r.count("append-unaligned-capacity")
	}
	pan, msg := try(func() {
		switch kind {
		case 0:
			rev, usage, err = rhp4.ReviseForAppendSectors(fc, s.prices, types.Hash256{1}, n)
		case 1:
			rev, usage, err = rhp4.ReviseForFreeSectors(fc, s.prices, types.Hash256{2}, int(n))
		case 2:
			rev, usage, err = rhp4.ReviseForSectorRoots(fc, s.prices, n)
		case 3:
			if r.rng.IntN(2) == 0 {
				rev, usage, err = rhp4.ReviseForFundAccounts(fc, amount)
			} else {
				rev, usage, err = rhp4.ReviseForReplenish(fc, amount)
			}
		}
	})
	arg := hx(n)
	if kind == 3 {
		arg = hc(amount)
	}
	args := append([]string{hx(uint64(kind))}, fcToks(fc)...)
	args = append(append(args, priceToks(s.prices)...), arg)
	var want []string
	switch {
	case pan:
		want = []string{"2"}
		_ = msg
	case err != nil:
		want = errClass17(err)
	default:
		want = append(append([]string{"0"}, fcToks(rev)...), usageToks(usage)...)
	}
	s.calls++
	r.emit(true, fmt.Sprintf("revise-%d-%s", kind, want[0]), "c17.revise", args, want)
	if pan || err != nil {
		if pan && s.reachable() {
			// on a contract reached through the constructors only the cost arithmetic itself may overflow
			var u rhp4.Usage
			costPan, _ := try(func() {
				switch kind {
				case 0:
					growth := n - min(n, (fc.Capacity-fc.Filesize)/rhp4.SectorSize)
					u = s.prices.RPCAppendSectorsCost(growth, fc.ExpirationHeight-s.prices.TipHeight)
				case 1:
					u = s.prices.RPCFreeSectorsCost(int(n))
				case 2:
					u = s.prices.RPCSectorRootsCost(n)
				default:
					u = rhp4.Usage{AccountFunding: amount}
				}
				_ = u.RenterCost()
			})
			if !costPan {
				r.violate("c17.unclean-failure", "constructor kind %d panics (%s) on a reachable contract although the usage %+v is computable: insufficient funds must be an error", kind, msg, u)
			}
			r.count("revise-panic-on-reachable")
		}
		return
	}
	// Go-side oracle: the identities of the property
	old := fc
	if rev.RenterOutput.Value.Add(rev.HostOutput.Value) != old.RenterOutput.Value.Add(old.HostOutput.Value) {
		r.violate("c17.revision-total", "constructor kind %d changes the contract total", kind)
	}
	if old.RenterOutput.Value.Sub(rev.RenterOutput.Value) != usage.RenterCost() {
		r.violate("c17.revision-charge", "constructor kind %d: renter charged %v, usage reports %v", kind, old.RenterOutput.Value.Sub(rev.RenterOutput.Value), usage.RenterCost())
	}
	if old.MissedHostValue.Cmp(rev.MissedHostValue) < 0 || old.MissedHostValue.Sub(rev.MissedHostValue) != usage.HostRiskedCollateral() {
		r.violate("c17.revision-collateral", "constructor kind %d: missed host value %v -> %v, usage reports risked %v", kind, old.MissedHostValue, rev.MissedHostValue, usage.HostRiskedCollateral())
	}
	if rev.TotalCollateral != old.TotalCollateral {
		r.violate("c17.revision-total-collateral", "constructor kind %d touches total collateral", kind)
	}
	if old.Filesize <= old.Capacity && rev.Filesize > rev.Capacity {
		r.violate("c17.revision-filesize-capacity", "constructor kind %d yields filesize %d above capacity %d (from %d / %d): consensus rejects the revision", kind, rev.Filesize, rev.Capacity, old.Filesize, old.Capacity)
	}
	r.count("oracle-revision-identities")
	s.fc = rev
}

func (s *c17Sim) reachable() bool {
	fc := s.fc
	return fc.MissedHostValue.Cmp(fc.TotalCollateral) <= 0 && fc.TotalCollateral.Cmp(fc.HostOutput.Value) <= 0
}

func renewalToks(rn types.V2FileContractRenewal, u rhp4.Usage) []string {
	t := []string{hc(rn.FinalRenterOutput.Value), hc(rn.FinalHostOutput.Value), hc(rn.RenterRollover), hc(rn.HostRollover)}
	t = append(t, fcToks(rn.NewContract)...)
	return append(t, usageToks(u)...)
}

func (s *c17Sim) renew(cs consensus.State, kind int) (rn types.V2FileContractRenewal, ok bool) {
	r := s.r
	fc := s.fc
	allowance := r.c17Cur(2)
	collateral := r.c17Cur(2)
	if allowance.IsZero() {
		allowance = types.NewCurrency64(1)
	}
	switch r.rng.IntN(6) { // boundary: exactly what is left / one more / one less
	case 0:
		allowance = fc.RenterOutput.Value
	case 1:
		allowance = fc.RenterOutput.Value.Add(types.NewCurrency64(1))
	case 2:
		if fc.RenterOutput.Value.Cmp(s.prices.ContractPrice) > 0 {
			allowance = fc.RenterOutput.Value.Sub(s.prices.ContractPrice)
		}
	}
	if allowance.IsZero() {
		allowance = types.NewCurrency64(1)
	}
	switch r.rng.IntN(7) { // requested collateral around the collateral the old contract has locked
	case 0:
		collateral = fc.TotalCollateral
	case 1:
		if !fc.TotalCollateral.IsZero() {
			collateral = fc.TotalCollateral.Sub(types.NewCurrency64(1))
		}
	case 2:
		collateral = fc.TotalCollateral.Add(types.NewCurrency64(1))
	case 3:
		collateral = fc.TotalCollateral.Div64(2)
	case 4:
		collateral = fc.MissedHostValue
	}
	ph := fc.ProofHeight + 1 + uint64(r.rng.IntN(300))
	fee := types.NewCurrency64(1 + r.rng.Uint64N(1e12))
	var usage rhp4.Usage
	var rc, hcst types.Currency
	var costPan bool
	pan, _ := try(func() {
		switch kind {
		case 0:
			rn, usage = rhp4.RenewContract(fc, s.prices, types.Address{9}, rhp4.RPCRenewContractParams{Allowance: allowance, Collateral: collateral, ProofHeight: ph})
		case 1:
			rn, usage = rhp4.RefreshContractPartialRollover(fc, s.prices, types.Address{9}, rhp4.RPCRefreshContractParams{Allowance: allowance, Collateral: collateral})
		default:
			rn, usage = rhp4.RefreshContractFullRollover(fc, s.prices, types.Address{9}, rhp4.RPCRefreshContractParams{Allowance: allowance, Collateral: collateral})
		}
	})
	args := append([]string{hx(uint64(kind))}, fcToks(fc)...)
	args = append(args, priceToks(s.prices)...)
	args = append(args, hc(allowance), hc(collateral), hx(ph), hc(fee))
	if pan {
		r.emit(true, fmt.Sprintf("renew-%d-panic", kind), "c17.renew", args, []string{"2"})
		// on a reachable contract the constructors only panic when a price product overflows a Currency; with every
		// quantity below 2^90 and at most 2^22-byte sectors x 2^20 blocks that cannot happen
		small := func(c types.Currency) bool { return c.Hi < 1<<26 }
		if s.reachable() && small(fc.RenterOutput.Value) && small(fc.HostOutput.Value) && small(allowance) && small(collateral) &&
			small(s.prices.ContractPrice) && s.prices.Collateral.Hi == 0 && s.prices.Collateral.Lo < 1<<30 && s.prices.StoragePrice.Hi == 0 && s.prices.StoragePrice.Lo < 1<<30 &&
			fc.Filesize < 1<<45 && ph < 1<<20 && fc.ExpirationHeight < 1<<20 {
			r.violate("c17.renewal-panic", "renewal constructor kind %d panics on a reachable contract (renter %v, host %v, missed %v, total collateral %v, filesize %d) with allowance %v, collateral %v", kind,
				fc.RenterOutput.Value, fc.HostOutput.Value, fc.MissedHostValue, fc.TotalCollateral, fc.Filesize, allowance, collateral)
		}
		return rn, false
	}
	costPan, _ = try(func() {
		if kind == 0 {
			rc, hcst = rhp4.RenewalCost(cs, rn, fee)
		} else {
			rc, hcst = rhp4.RefreshCost(cs, s.prices, rn, fee)
		}
	})
	want := append([]string{"0"}, renewalToks(rn, usage)...)
	if costPan {
		want = append(want, "2")
	} else {
		want = append(want, "0", hc(rc), hc(hcst))
	}
	r.emit(true, fmt.Sprintf("renew-%d-ok", kind), "c17.renew", args, want)
	// oracle: identities
	if rn.FinalRenterOutput.Value.Add(rn.RenterRollover) != fc.RenterOutput.Value || rn.FinalHostOutput.Value.Add(rn.HostRollover) != fc.HostOutput.Value {
		r.violate("c17.renewal-split", "renewal kind %d does not split the old contract's value exactly into final outputs and rollover", kind)
	}
	nc := rn.NewContract
	bg := func(c types.Currency) *big.Int { return c.Big() }
	tax := new(big.Int).Div(new(big.Int).Add(bg(nc.RenterOutput.Value), bg(nc.HostOutput.Value)), new(big.Int).SetInt64(25))
	cost := new(big.Int).Add(new(big.Int).Add(bg(nc.RenterOutput.Value), bg(nc.HostOutput.Value)), tax)
	roll := new(big.Int).Add(bg(rn.RenterRollover), bg(rn.HostRollover))
	if roll.Cmp(cost) > 0 {
		r.violate("c17.renewal-rollover", "renewal kind %d rolls over %v, more than the new contract costs (%v)", kind, roll, cost)
	}
	if !costPan {
		lhs := new(big.Int).Add(new(big.Int).Add(bg(rc), bg(hcst)), roll)
		rhs := new(big.Int).Add(cost, bg(fee))
		if lhs.Cmp(rhs) != 0 {
			r.violate("c17.renewal-funding", "renewal kind %d: renter cost %v + host cost %v + rollover %v != new contract + tax + fee %v", kind, rc, hcst, roll, rhs)
		}
	}
	r.count("oracle-renewal-identities")
	return rn, !costPan
}

// sequences of constructor calls starting from NewContract, Go vs model, with the property's identities checked in Go
func c17Sequences(r *Run) {
	n := r.ledgerNet()
	n.HardforkV2.AllowHeight, n.HardforkV2.RequireHeight = 1, 2
	cs := n.GenesisState()
	for it := 0; it < r.pick(150, 6000); it++ {
		tip := uint64(10 + r.rng.IntN(1000))
		prices := r.c17Prices(tip)
		allowance, collateral := r.c17Cur(2), r.c17Cur(2)
		if allowance.IsZero() {
			allowance = types.NewCurrency64(1)
		}
		ph := tip + 1 + uint64(r.rng.IntN(4000))
		fee := types.NewCurrency64(1 + r.rng.Uint64N(1e12))
		var fc types.V2FileContract
		var usage rhp4.Usage
		var rc, hcst types.Currency
		var costPan bool
		pan, _ := try(func() {
			fc, usage = rhp4.NewContract(prices, rhp4.RPCFormContractParams{Allowance: allowance, Collateral: collateral, ProofHeight: ph}, types.PublicKey{1}, types.Address{2})
		})
		args := append(priceToks(prices), hc(allowance), hc(collateral), hx(ph), hc(fee))
		if pan {
			r.emit(true, "new-panic", "c17.new", args, []string{"2"})
			continue
		}
		costPan, _ = try(func() { rc, hcst = rhp4.ContractCost(cs, fc, fee) })
		want := append(append([]string{"0"}, fcToks(fc)...), usageToks(usage)...)
		if costPan {
			want = append(want, "2")
		} else {
			want = append(want, "0", hc(rc), hc(hcst))
			tax := cs.V2FileContractTax(fc)
			if rc.Add(hcst) != fc.RenterOutput.Value.Add(fc.HostOutput.Value).Add(tax).Add(fee) {
				r.violate("c17.formation-funding", "ContractCost: renter %v + host %v does not fund contract + tax + fee", rc, hcst)
			}
		}
		r.emit(true, "new-ok", "c17.new", args, want)
		s := &c17Sim{r: r, fc: fc, prices: prices}
		steps := r.rng.IntN(14)
		for k := 0; k < steps; k++ {
			if r.rng.IntN(10) == 0 {
				s.prices = r.c17Prices(tip)
			}
			s.revise(r.rng.IntN(4))
		}
		if rn, ok := s.renew(cs, r.rng.IntN(3)); ok && r.rng.IntN(2) == 0 {
			// keep going on the renewed contract
			s.fc = rn.NewContract
			for k := 0; k < r.rng.IntN(6); k++ {
				s.revise(r.rng.IntN(4))
			}
			s.renew(cs, r.rng.IntN(3))
		}
		// allowance / collateral bounds
		x := r.c17Cur(2)
		var mn, mx types.Currency
		p1, _ := try(func() { mn = rhp4.MinRenterAllowance(prices, x) })
		p2, _ := try(func() { mx = rhp4.MaxHostCollateral(prices, x) })
		w := []string{}
		if p1 {
			w = append(w, "2")
		} else {
			w = append(w, "0", hc(mn))
		}
		if p2 {
			w = append(w, "2")
		} else {
			w = append(w, "0", hc(mx))
		}
		r.emit(false, "minmax", "c17.minmax", append(priceToks(prices), hc(x)), w)
	}
	// collateral depletion: appends that each risk 35-65% of the total collateral, so that after one or two of them the
	// remaining MissedHostValue is below the next request while the request is still below TotalCollateral; the
	// constructor must then fail cleanly (insufficient host collateral), never panic
	for it := 0; it < r.pick(40, 1500); it++ {
		tip := uint64(10 + r.rng.IntN(1000))
		prices := r.c17Prices(tip)
		nsec := 1 + r.rng.Uint64N(4)
		ph := tip + 1 + uint64(r.rng.IntN(300))
		collateral := types.NewCurrency64(1 << uint(30+r.rng.IntN(30))).Mul64(1 + r.rng.Uint64N(1000))
		// per-byte-block collateral price so that one append of nsec sectors until expiration risks pct% of the total
		pct := uint64(35 + r.rng.IntN(31))
		duration := ph + 144 - tip // ExpirationHeight - TipHeight of the contract NewContract builds
		prices.Collateral = collateral.Mul64(pct).Div64(100).Div64(rhp4.SectorSize).Div64(nsec).Div64(duration)
		prices.StoragePrice = types.NewCurrency64(r.rng.Uint64N(10))
		prices.IngressPrice = types.NewCurrency64(r.rng.Uint64N(10))
		allowance := types.NewCurrency64(1 << 62).Mul64(1 << 20) // never the limiting side
		var fc types.V2FileContract
		if pan, _ := try(func() {
			fc, _ = rhp4.NewContract(prices, rhp4.RPCFormContractParams{Allowance: allowance, Collateral: collateral, ProofHeight: ph}, types.PublicKey{1}, types.Address{2})
		}); pan {
			continue
		}
		s := &c17Sim{r: r, fc: fc, prices: prices}
		for k := 0; k < 4; k++ {
			s.appendExactly(nsec)
		}
		r.count("oracle-collateral-depletion")
	}
	// contracts that are consensus-valid but were not produced by the constructors (the host's value below the
	// total collateral): model and implementation must agree on where they panic
	for it := 0; it < r.pick(100, 3000); it++ {
		var fc types.V2FileContract
		r.fill(reflect.ValueOf(&fc).Elem(), 0)
		fc.RenterOutput.Value, fc.HostOutput.Value = r.c17Cur(2), r.c17Cur(2)
		fc.MissedHostValue, fc.TotalCollateral = r.c17Cur(2), r.c17Cur(2)
		s := &c17Sim{r: r, fc: fc, prices: r.c17Prices(fc.ProofHeight % 1000)}
		s.revise(r.rng.IntN(4))
		s.renew(cs, r.rng.IntN(3))
	}
}

// v1-era payouts: the tax inversion and the formation / renewal builders of RHP2 and RHP3
func c17V1(r *Run) {
	n := r.ledgerNet()
	cs := n.GenesisState()
	cs.Index.Height = n.HardforkTax.Height + 10
	hk := types.PublicKey{7}
	for it := 0; it < r.pick(300, 20000); it++ {
		renterPayout := types.NewCurrency(r.rng.Uint64(), r.rng.Uint64N(1<<uint(1+r.rng.IntN(40))))
		if r.rng.IntN(3) == 0 {
			renterPayout = types.NewCurrency64(r.rng.Uint64N(100000))
		}
		hostCollateral := types.NewCurrency(r.rng.Uint64(), r.rng.Uint64N(1<<uint(1+r.rng.IntN(30))))
		hs := rhp2.HostSettings{ContractPrice: types.NewCurrency64(r.rng.Uint64()), WindowSize: uint64(1 + r.rng.IntN(200)),
			StoragePrice: types.NewCurrency64(r.rng.Uint64N(1e6)), Collateral: types.NewCurrency64(r.rng.Uint64N(1e6))}
		end := uint64(100 + r.rng.IntN(1000))
		fc := rhp2.PrepareContractFormation(types.PublicKey{1}, hk, renterPayout, hostCollateral, end, hs, types.Address{3})
		check := func(what string, fc types.FileContract) {
			var valid, missed types.Currency
			for _, o := range fc.ValidProofOutputs {
				valid = valid.Add(o.Value)
			}
			for _, o := range fc.MissedProofOutputs {
				missed = missed.Add(o.Value)
			}
			r.count("oracle-v1-tax-equation")
			if valid != missed || fc.Payout != valid.Add(cs.FileContractTax(fc)) {
				r.violate("c17.v1-tax-equation", "%s: payout %v, valid %v, missed %v, tax %v do not satisfy the consensus equation", what, fc.Payout, valid, missed, cs.FileContractTax(fc))
			}
			// the transaction-level rule itself
			txn := types.Transaction{FileContracts: []types.FileContract{fc}}
			_ = txn
			target := valid
			r.emit(true, "tax", "c17.tax", []string{hc(target)}, []string{hc(fc.Payout), hc(cs.FileContractTax(fc))})
		}
		check("rhp2 formation", fc)
		// renewal of a revised contract
		rev := types.FileContractRevision{ParentID: types.FileContractID{1}, FileContract: fc}
		rev.Filesize = r.rng.Uint64N(1 << 30)
		rev.WindowEnd = end + hs.WindowSize
		newEnd := end + uint64(r.rng.IntN(500))
		pan, _ := try(func() {
			nfc, _ := rhp2.PrepareContractRenewal(rev, types.Address{4}, renterPayout, hostCollateral, hs, newEnd)
			check("rhp2 renewal", nfc)
		})
		if pan {
			r.count("rhp2-renewal-unsatisfiable-or-overflow")
		}
		pt := rhp3.HostPriceTable{ContractPrice: hs.ContractPrice, WindowSize: hs.WindowSize, WriteStoreCost: types.NewCurrency64(r.rng.Uint64N(1e5)),
			CollateralCost: types.NewCurrency64(r.rng.Uint64N(1e5)), MaxCollateral: types.NewCurrency(r.rng.Uint64(), r.rng.Uint64N(1<<30)), RenewContractCost: types.NewCurrency64(r.rng.Uint64N(1e9))}
		minNew := types.ZeroCurrency
		if r.rng.IntN(4) == 0 {
			minNew = types.NewCurrency64(r.rng.Uint64N(1e12))
		}
		pan, _ = try(func() {
			nfc, _, err := rhp3.PrepareContractRenewal(rev, types.Address{5}, types.Address{4}, renterPayout, minNew, pt, r.rng.Uint64N(1<<30), newEnd)
			if err == nil {
				check("rhp3 renewal", nfc)
			} else {
				r.count("rhp3-renewal-refused")
			}
		})
		if pan {
			r.count("rhp3-renewal-overflow")
		}
		// PayByContract keeps valid = missed sums and moves exactly the amount
		rev2 := types.FileContractRevision{ParentID: types.FileContractID{1}, FileContract: fc}
		rev2.ValidProofOutputs = append([]types.SiacoinOutput(nil), fc.ValidProofOutputs...)
		rev2.MissedProofOutputs = append([]types.SiacoinOutput(nil), fc.MissedProofOutputs...)
		amount := renterPayout.Div64(uint64(1 + r.rng.IntN(20)))
		switch r.rng.IntN(4) {
		case 0:
			amount = renterPayout
		case 1:
			amount = renterPayout.Add(types.NewCurrency64(1))
		}
		before := rev2.ValidRenterPayout()
		_, ok := rhp3.PayByContract(&rev2, amount, rhp3.Account{}, types.NewPrivateKeyFromSeed(make([]byte, 32)))
		r.count("oracle-paybycontract")
		if ok != (amount.Cmp(before) <= 0) {
			r.violate("c17.paybycontract-funds", "PayByContract ok=%v with amount %v and renter payout %v", ok, amount, before)
		}
		if ok {
			var valid, missed types.Currency
			for _, o := range rev2.ValidProofOutputs {
				valid = valid.Add(o.Value)
			}
			for _, o := range rev2.MissedProofOutputs {
				missed = missed.Add(o.Value)
			}
			if valid != missed || before.Sub(rev2.ValidRenterPayout()) != amount || rev2.RevisionNumber != fc.RevisionNumber+1 {
				r.violate("c17.paybycontract", "PayByContract does not move exactly the amount / keep the sums equal")
			}
		}
	}
}

// end to end on the real chain: what the constructors produce, signed and funded by the cost functions, is accepted
func c17Chain(r *Run) {
	for ci := 0; ci < r.pick(6, 120); ci++ {
		n := r.ledgerNet()
		c := newLChain(r, n, 2, 3)
		for c.child() < 6 {
			b, bs := c.honestBlock()
			if err := c.process(b, bs, true, "honest"); err != nil {
				r.violate("ledger.honest-rejected", "%v", err)
				return
			}
		}
		rk, hk := 0, 1
		var fcid types.FileContractID
		have := false
		for step := 0; step < 16; step++ {
			p := c.plan()
			cs := c.cs()
			prices := rhp4.HostPrices{ContractPrice: types.NewCurrency64(r.rng.Uint64N(1e9)), Collateral: types.NewCurrency64(r.rng.Uint64N(200)), StoragePrice: types.NewCurrency64(r.rng.Uint64N(100)),
				IngressPrice: types.NewCurrency64(r.rng.Uint64N(1000)), EgressPrice: types.NewCurrency64(r.rng.Uint64N(1000)), FreeSectorPrice: types.NewCurrency64(r.rng.Uint64N(1e6)), TipHeight: cs.Index.Height, ValidUntil: time.Now().Add(time.Hour)}
			fee := types.NewCurrency64(1 + r.rng.Uint64N(1e6))
			fund := func(txn *types.V2Transaction, total types.Currency) bool {
				in, o, ok := p.pickV2(total)
				if !ok {
					return false
				}
				txn.SiacoinInputs = []types.V2SiacoinInput{{Parent: in}}
				if ch := in.SiacoinOutput.Value.Sub(total); !ch.IsZero() {
					txn.SiacoinOutputs = []types.SiacoinOutput{{Value: ch, Address: c.addr2(o.key % 3)}}
				}
				c.signV2Inputs(txn, []v2owner{o}, nil)
				return true
			}
			cur, exists := c.st().v2fces[fcid]
			switch {
			case !have || !exists:
				fc, _ := rhp4.NewContract(prices, rhp4.RPCFormContractParams{RenterPublicKey: c.keys[rk].PublicKey(), RenterAddress: c.addr2(rk),
					Allowance: types.Siacoins(uint32(1 + r.rng.IntN(50))), Collateral: types.Siacoins(uint32(r.rng.IntN(60))), ProofHeight: c.child() + 4 + uint64(r.rng.IntN(20))},
					c.keys[hk].PublicKey(), c.addr2(hk))
				c.signContract(&fc, rk, hk)
				rc, hcst := rhp4.ContractCost(cs, fc, fee)
				txn := types.V2Transaction{FileContracts: []types.V2FileContract{fc}, MinerFee: fee}
				if !fund(&txn, rc.Add(hcst)) {
					break
				}
				if err := consensus.ValidateV2Transaction(consensus.NewMidState(cs), txn); err != nil {
					r.violate("c17.formation-rejected", "NewContract + ContractCost transaction rejected by consensus: %v", err)
					break
				}
				r.count("oracle-chain-formation")
				fcid = txn.V2FileContractID(txn.ID(), 0)
				have = true
				p.v2txns = append(p.v2txns, txn)
			case cur.V2FileContract.ProofHeight >= c.child() && r.rng.IntN(4) != 0:
				fc := cur.V2FileContract
				var rev types.V2FileContract
				var err error
				switch r.rng.IntN(4) {
				case 0:
					rev, _, err = rhp4.ReviseForAppendSectors(fc, prices, types.Hash256{byte(step)}, uint64(1+r.rng.IntN(5)))
				case 1:
					if fc.Filesize == 0 {
						continue
					}
					rev, _, err = rhp4.ReviseForFreeSectors(fc, prices, types.Hash256{byte(step)}, int(1+r.rng.Uint64N(fc.Filesize/rhp4.SectorSize)))
				case 2:
					rev, _, err = rhp4.ReviseForSectorRoots(fc, prices, uint64(1+r.rng.IntN(100)))
				default:
					rev, _, err = rhp4.ReviseForFundAccounts(fc, fc.RenterOutput.Value.Div64(uint64(1+r.rng.IntN(9))))
				}
				if err != nil {
					r.count("chain-revision-refused")
					continue
				}
				c.signContract(&rev, rk, hk)
				txn := types.V2Transaction{FileContractRevisions: []types.V2FileContractRevision{{Parent: cur.Copy(), Revision: rev}}}
				if err := consensus.ValidateV2Transaction(consensus.NewMidState(cs), txn); err != nil {
					r.violate("c17.revision-rejected", "revision built by a constructor is rejected by consensus: %v", err)
					continue
				}
				r.count("oracle-chain-revision")
				p.v2txns = append(p.v2txns, txn)
			default:
				fc := cur.V2FileContract
				var rn types.V2FileContractRenewal
				var rc, hcst types.Currency
				kind := r.rng.IntN(3)
				if fc.ProofHeight < c.child() {
					have = false
					continue
				}
				al, co := types.Siacoins(uint32(1+r.rng.IntN(60))), types.Siacoins(uint32(r.rng.IntN(80)))
				switch kind {
				case 0:
					rn, _ = rhp4.RenewContract(fc, prices, c.addr2(hk), rhp4.RPCRenewContractParams{ContractID: fcid, Allowance: al, Collateral: co, ProofHeight: max(fc.ProofHeight, c.child()) + 1 + uint64(r.rng.IntN(30))})
					rc, hcst = rhp4.RenewalCost(cs, rn, fee)
				case 1:
					rn, _ = rhp4.RefreshContractPartialRollover(fc, prices, c.addr2(hk), rhp4.RPCRefreshContractParams{ContractID: fcid, Allowance: al, Collateral: co})
					rc, hcst = rhp4.RefreshCost(cs, prices, rn, fee)
				default:
					rn, _ = rhp4.RefreshContractFullRollover(fc, prices, c.addr2(hk), rhp4.RPCRefreshContractParams{ContractID: fcid, Allowance: al, Collateral: co})
					rc, hcst = rhp4.RefreshCost(cs, prices, rn, fee)
				}
				c.signContract(&rn.NewContract, rk, hk)
				rh := cs.RenewalSigHash(rn)
				rn.RenterSignature, rn.HostSignature = c.keys[rk].SignHash(rh), c.keys[hk].SignHash(rh)
				txn := types.V2Transaction{FileContractResolutions: []types.V2FileContractResolution{{Parent: cur.Copy(), Resolution: &rn}}, MinerFee: fee}
				if !fund(&txn, rc.Add(hcst)) {
					break
				}
				if err := consensus.ValidateV2Transaction(consensus.NewMidState(cs), txn); err != nil {
					r.violate("c17.renewal-rejected", "renewal kind %d funded by its cost function is rejected by consensus: %v", kind, err)
					break
				}
				r.count(fmt.Sprintf("oracle-chain-renewal-%d", kind))
				fcid = fcid.V2RenewalID()
				p.v2txns = append(p.v2txns, txn)
			}
			b := c.newBlock(p.txns, p.v2txns)
			if err := c.process(b, c.supplement(b), true, "honest"); err != nil {
				r.violate("c17.block-rejected", "block with constructor-built transactions rejected: %v", err)
				break
			}
		}
	}
}

// requests at the boundaries of the protocol's own validation: whatever passes Validate must give a constructor
// result that consensus can accept (no wrapped sizes, window after proof height)
func c17Validate(r *Run) {
	sk := types.GeneratePrivateKey()
	hostKey := sk.PublicKey()
	signed := func(tip uint64) rhp4.HostPrices {
		p := r.c17Prices(tip)
		p.Signature = sk.SignHash(p.SigHash())
		return p
	}
	for it := 0; it < r.pick(200, 8000); it++ {
		sectors := uint64(r.rng.IntN(12))
		fc := types.V2FileContract{Filesize: sectors * rhp4.SectorSize, Capacity: (sectors + uint64(r.rng.IntN(3))) * rhp4.SectorSize,
			ProofHeight: 1000, ExpirationHeight: 1144, RenterOutput: types.SiacoinOutput{Value: types.Siacoins(100)}, HostOutput: types.SiacoinOutput{Value: types.Siacoins(100)},
			MissedHostValue: types.Siacoins(50), TotalCollateral: types.Siacoins(60)}
		prices := signed(10)
		// free sectors: index sets around the last sector, duplicates, everything
		var idx []uint64
		switch r.rng.IntN(6) {
		case 0: // every sector
			for i := uint64(0); i < sectors; i++ {
				idx = append(idx, i)
			}
		case 1: // every sector and one past the end
			for i := uint64(0); i <= sectors; i++ {
				idx = append(idx, i)
			}
		case 2:
			idx = []uint64{sectors}
		case 3:
			if sectors > 0 {
				idx = []uint64{sectors - 1, sectors - 1}
			}
		case 4:
			idx = []uint64{^uint64(0)}
		default:
			for i := uint64(0); i < sectors; i++ {
				if r.rng.IntN(2) == 0 {
					idx = append(idx, i)
				}
			}
		}
		req := rhp4.RPCFreeSectorsRequest{Prices: prices, Indices: idx}
		r.count("oracle-validate-free")
		if err := req.Validate(hostKey, fc); err == nil {
			var rev types.V2FileContract
			var rerr error
			if pan, _ := try(func() { rev, _, rerr = rhp4.ReviseForFreeSectors(fc, prices, types.Hash256{1}, len(idx)) }); pan {
				rerr = errors.New("cost overflow")
			}
			if rerr == nil && (rev.Filesize > rev.Capacity || rev.Filesize != fc.Filesize-rhp4.SectorSize*uint64(len(idx)) || uint64(len(idx)) > sectors) {
				r.violate("c17.validated-request-invalid-revision", "RPCFreeSectorsRequest with indices %v passes Validate on a contract of %d sectors, and ReviseForFreeSectors yields filesize %d / capacity %d", idx, sectors, rev.Filesize, rev.Capacity)
			}
		} else {
			ok := true
			seen := map[uint64]bool{}
			for _, i := range idx {
				if i >= sectors || seen[i] {
					ok = false
				}
				seen[i] = true
			}
			if ok {
				r.violate("c17.valid-request-rejected", "RPCFreeSectorsRequest with distinct in-range indices %v (contract of %d sectors) is rejected: %v", idx, sectors, err)
			}
		}
		// sector roots: offset / length windows
		off, ln := uint64(r.rng.IntN(int(sectors)+2)), uint64(r.rng.IntN(int(sectors)+3))
		rr := rhp4.RPCSectorRootsRequest{Prices: prices, Offset: off, Length: ln}
		inRange := ln > 0 && off <= sectors && ln <= sectors-off
		if err := rr.Validate(hostKey, fc); (err == nil) != inRange {
			r.violate("c17.sector-roots-validate", "RPCSectorRootsRequest offset %d length %d on %d sectors: Validate says %v", off, ln, sectors, err)
		}
		// renewals: proof heights at the top of the range must not wrap the expiration height
		ph := []uint64{fc.ProofHeight + 1, ^uint64(0) - rhp4.ProofWindow, ^uint64(0) - rhp4.ProofWindow + 1, ^uint64(0), ^uint64(0) - 1000}[r.rng.IntN(5)]
		rn := rhp4.RPCRenewContractRequest{Prices: prices, MinerFee: types.NewCurrency64(1), Basis: types.ChainIndex{Height: 1},
			Renewal: rhp4.RPCRenewContractParams{Allowance: types.Siacoins(1), Collateral: types.ZeroCurrency, ProofHeight: ph}}
		r.count("oracle-validate-renew")
		var verr error
		if pan, _ := try(func() { verr = rn.Validate(hostKey, types.ChainIndex{Height: 10}, fc, types.MaxCurrency, []uint64{1 << 20, ^uint64(0)}[r.rng.IntN(2)]) }); pan {
			// (absurd price x duration products overflow inside Validate; hosts bound the duration: not counted)
			r.count("validate-renew-overflow")
		} else if verr == nil {
			var ren types.V2FileContractRenewal
			pan, _ := try(func() { ren, _ = rhp4.RenewContract(fc, prices, types.Address{}, rn.Renewal) })
			if !pan && ren.NewContract.ExpirationHeight <= ren.NewContract.ProofHeight {
				r.violate("c17.validated-request-invalid-renewal", "RPCRenewContractRequest with proof height %d passes Validate, and RenewContract yields expiration height %d", ph, ren.NewContract.ExpirationHeight)
			}
		}
	}
}

func runC17(r *Run) {
	c17Validate(r)
	c17Sequences(r)
	c17V1(r)
	c17Chain(r)
}
