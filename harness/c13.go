package main

import (
	"math/big"
	"time"

	"go.sia.tech/core/consensus"
	"go.sia.tech/core/types"
)

func init() { props["C13"] = runC13 }

var two256 = new(big.Int).Lsh(big.NewInt(1), 256)

func workFromBig(i *big.Int) (w consensus.Work) {
	if err := w.UnmarshalText([]byte(i.String())); err != nil {
		panic(err)
	}
	return
}
func bigFromWork(w consensus.Work) *big.Int {
	i, _ := new(big.Int).SetString(w.String(), 10)
	return i
}
func bigFromID(b types.BlockID) *big.Int { return new(big.Int).SetBytes(b[:]) }
func idFromBig(i *big.Int) (b types.BlockID) {
	i.FillBytes(b[:])
	return
}
func tsNanos(t time.Time) *big.Int {
	x := new(big.Int).Mul(big.NewInt(t.Unix()), big.NewInt(1e9))
	return x.Add(x, big.NewInt(int64(t.Nanosecond())))
}
func hbigS(b *big.Int) string {
	if b.Sign() < 0 {
		return "-" + new(big.Int).Neg(b).Text(16)
	}
	return b.Text(16)
}

func netToks(n *consensus.Network) []string {
	return []string{hi(int64(n.BlockInterval)), hx(n.HardforkOak.Height), hx(n.HardforkOak.FixHeight), hbigS(tsNanos(n.HardforkOak.GenesisTimestamp)),
		hx(n.HardforkASIC.Height), hi(int64(n.HardforkASIC.OakTime)), hbig(bigFromID(n.HardforkASIC.OakTarget)), hx(n.HardforkASIC.NonceFactor),
		hx(n.HardforkV2.AllowHeight), hx(n.HardforkV2.FinalCutHeight)}
}

func stateToks(s consensus.State) []string {
	t := []string{hx(s.Index.Height)}
	for _, p := range s.PrevTimestamps {
		t = append(t, hbigS(tsNanos(p)))
	}
	return append(t, hbig(bigFromID(s.Depth)), hbig(bigFromID(s.ChildTarget)), hbig(bigFromID(s.OakTarget)),
		hbig(bigFromWork(s.TotalWork)), hbig(bigFromWork(s.Difficulty)), hbig(bigFromWork(s.OakWork)), hi(int64(s.OakTime)))
}

func c13Apply(r *Run, s consensus.State, bh types.BlockHeader, target time.Time, class string) (next consensus.State, ok bool) {
	genesis := bh.ParentID == (types.BlockID{})
	args := cat(netToks(s.Network), stateToks(s), []string{hbool(genesis), hbigS(tsNanos(bh.Timestamp)), hbigS(tsNanos(target))})
	pan, msg := try(func() { next = consensus.ApplyHeader(s, bh, target) })
	if pan {
		code := "ff"
		switch {
		case containsAny(msg, "overflow"):
			code = "2"
		case containsAny(msg, "underflow"):
			code = "3"
		case containsAny(msg, "division by zero", "divide by zero"):
			code = "4"
		}
		r.emit(true, class+"/panic", "c13.apply", args, []string{"2", code})
		return next, false
	}
	r.emit(true, class, "c13.apply", args, append([]string{"0"}, stateToks(next)...))
	return next, true
}

func containsAny(s string, subs ...string) bool {
	for _, x := range subs {
		if len(x) > 0 && len(s) >= len(x) {
			for i := 0; i+len(x) <= len(s); i++ {
				if s[i:i+len(x)] == x {
					return true
				}
			}
		}
	}
	return false
}

func (r *Run) randNet() *consensus.Network {
	n := &consensus.Network{}
	n.BlockInterval = time.Duration([]int{1, 3, 10, 60, 600, 600, 600, 3600}[r.rng.IntN(8)]) * time.Second
	n.InitialTarget = types.BlockID{0xFF}
	h := uint64(1 + r.rng.IntN(8))
	n.HardforkOak.Height = h
	if r.rng.IntN(3) == 0 {
		n.HardforkOak.Height = 500 + uint64(r.rng.IntN(600))
		h = n.HardforkOak.Height
	}
	h += uint64(1 + r.rng.IntN(10))
	n.HardforkOak.FixHeight = h
	n.HardforkOak.GenesisTimestamp = time.Unix(1_500_000_000+int64(r.rng.IntN(1e6)), 0)
	h += uint64(1 + r.rng.IntN(10))
	n.HardforkASIC.Height = h
	n.HardforkASIC.OakTime = time.Duration(1+r.rng.IntN(100000)) * time.Second
	n.HardforkASIC.OakTarget = idFromBig(new(big.Int).Rsh(two256, uint(1+r.rng.IntN(40))))
	n.HardforkASIC.NonceFactor = uint64(1 + r.rng.IntN(1009))
	h += uint64(1 + r.rng.IntN(30))
	n.HardforkV2.AllowHeight = h
	h += uint64(1 + r.rng.IntN(30))
	n.HardforkV2.RequireHeight = h
	h += uint64(r.rng.IntN(30))
	n.HardforkV2.FinalCutHeight = h
	return n
}

type eraInfo struct{ name string }

func eraOf(n *consensus.Network, child uint64) string {
	switch {
	case child <= n.HardforkOak.Height:
		return "pre-oak"
	case child < n.HardforkV2.AllowHeight:
		return "oak"
	case child < n.HardforkV2.FinalCutHeight:
		return "v2"
	default:
		return "finalcut"
	}
}

// clamp / monotonicity / inverse oracles on one accepted transition
func c13Oracles(r *Run, s, next consensus.State) {
	n := s.Network
	child := s.Index.Height + 1
	era := eraOf(n, child)
	D, D2 := bigFromWork(s.Difficulty), bigFromWork(next.Difficulty)
	tw, tw2 := bigFromWork(s.TotalWork), bigFromWork(next.TotalWork)
	r.count("oracle-" + era)
	if D2.Sign() == 0 {
		r.violate("c13.zero-difficulty", "difficulty became zero at child height %d (%s)", child, era)
	}
	if tw2.Cmp(tw) < 0 {
		r.violate("c13.work-decreased", "cumulative work decreased at child height %d (%s): %v -> %v", child, era, tw, tw2)
	}
	maxT := new(big.Int).Sub(two256, big.NewInt(1))
	switch era {
	case "v2", "finalcut":
		if tw2.Cmp(tw) <= 0 {
			r.violate("c13.work-not-increasing", "cumulative work did not strictly increase under v2 rules at child height %d", child)
		}
		adj := new(big.Int).Div(D, big.NewInt(250))
		if era == "finalcut" && adj.Sign() == 0 {
			adj.SetInt64(1)
		}
		lo, hi := new(big.Int).Sub(D, adj), new(big.Int).Add(D, adj)
		if era == "finalcut" && lo.Sign() <= 0 {
			lo.SetInt64(1)
		}
		if D2.Cmp(lo) < 0 || D2.Cmp(hi) > 0 {
			r.violate("c13.clamp-"+era, "difficulty %v -> %v at child height %d exceeds the 0.4%% clamp", D, D2, child)
		}
		// target is the floored inverse of difficulty
		var tgt types.BlockID
		if pan, _ := try(func() { tgt = next.PoWTarget() }); !pan && next.Index.Height+1 >= n.HardforkV2.FinalCutHeight {
			if bigFromID(tgt).Cmp(new(big.Int).Div(maxT, D2)) != 0 {
				r.violate("c13.inverse", "PoWTarget is not floor(max/Difficulty) at height %d", next.Index.Height)
			}
		}
		if era == "v2" && bigFromID(next.ChildTarget).Cmp(new(big.Int).Div(maxT, D2)) != 0 {
			r.violate("c13.inverse", "ChildTarget is not floor(max/Difficulty) at height %d", next.Index.Height)
		}
	case "oak":
		if child != n.HardforkASIC.Height {
			t, t2 := bigFromID(s.ChildTarget), bigFromID(next.ChildTarget)
			lo := new(big.Int).Div(new(big.Int).Mul(t, big.NewInt(1000)), big.NewInt(1004))
			hi := new(big.Int).Div(new(big.Int).Mul(t, big.NewInt(1004)), big.NewInt(1000))
			if hi.Cmp(maxT) > 0 {
				hi = maxT
			}
			if t2.Cmp(lo) < 0 || t2.Cmp(hi) > 0 {
				r.violate("c13.clamp-oak", "target %v -> %v at child height %d exceeds the 0.4%% clamp", t, t2, child)
			}
		}
		if bigFromWork(next.Difficulty).Cmp(new(big.Int).Div(maxT, bigFromID(next.ChildTarget))) != 0 {
			r.violate("c13.inverse", "Difficulty is not floor(max/ChildTarget) at height %d", next.Index.Height)
		}
	case "pre-oak":
		t, t2 := bigFromID(s.ChildTarget), bigFromID(next.ChildTarget)
		if child%500 != 0 {
			if t.Cmp(t2) != 0 {
				r.violate("c13.preoak-change", "target changed off the 500-block boundary at child height %d", child)
			}
		} else {
			lo := new(big.Int).Div(new(big.Int).Mul(t, big.NewInt(10)), big.NewInt(25))
			hi := new(big.Int).Div(new(big.Int).Mul(t, big.NewInt(25)), big.NewInt(10))
			if hi.Cmp(maxT) > 0 {
				hi = maxT
			}
			if t2.Cmp(lo) < 0 || t2.Cmp(hi) > 0 {
				r.violate("c13.clamp-preoak", "target %v -> %v at child height %d outside [0.4, 2.5]", t, t2, child)
			}
		}
	}
}

// chains from genesis with adversarial timestamp patterns, crossing every era
func c13Chain(r *Run, n *consensus.Network, length int, pattern int) {
	s := n.GenesisState()
	ts := n.HardforkOak.GenesisTimestamp
	var history []time.Time
	for i := 0; i < length; i++ {
		bh := types.BlockHeader{Timestamp: ts, Nonce: 0}
		if i > 0 {
			bh.ParentID = s.Index.ID
		}
		// target timestamp: ancestor 1000 (or fewer) blocks back, as chain managers supply it
		target := n.HardforkOak.GenesisTimestamp
		if d := len(history); d > 0 {
			back := 1000
			if back > d {
				back = d
			}
			target = history[d-back]
		}
		next, ok := c13Apply(r, s, bh, target, "chain-"+eraOf(n, s.Index.Height+1))
		if !ok {
			r.violate("c13.apply-panic", "ApplyHeader panicked on a median-rule-valid timestamp sequence (pattern %d) at child height %d, interval %v", pattern, s.Index.Height+1, n.BlockInterval)
			return
		}
		if i > 0 {
			c13Oracles(r, s, next)
		}
		history = append(history, ts)
		s = next
		s.Index.ID = types.BlockID{byte(i), byte(i >> 8), 1}
		// next timestamp, always >= median of the previous 11 (the header rule)
		med := medianOf(s)
		var nt time.Time
		switch pattern {
		case 0: // on schedule
			nt = ts.Add(n.BlockInterval)
		case 1: // constant
			nt = ts
		case 2: // as early as the rule allows
			nt = med
		case 3: // far future jumps
			nt = ts.Add(time.Duration(r.rng.IntN(5)) * 24 * time.Hour)
		case 4: // random around schedule
			nt = ts.Add(time.Duration(r.rng.Int64N(int64(2*n.BlockInterval)+1)))
			nt = nt.Truncate(time.Second)
		default: // alternate median / jump
			if i%2 == 0 {
				nt = med
			} else {
				nt = ts.Add(3 * n.BlockInterval)
			}
		}
		if nt.Before(med) {
			nt = med
		}
		ts = nt
	}
}

func medianOf(s consensus.State) time.Time {
	k := 11
	if s.Index.Height+1 < 11 {
		k = int(s.Index.Height + 1)
	}
	ts := append([]time.Time(nil), s.PrevTimestamps[:k]...)
	for i := 1; i < len(ts); i++ {
		for j := i; j > 0 && ts[j].Before(ts[j-1]); j-- {
			ts[j], ts[j-1] = ts[j-1], ts[j]
		}
	}
	if len(ts)%2 == 1 {
		return ts[len(ts)/2]
	}
	l, rr := ts[len(ts)/2-1], ts[len(ts)/2]
	return l.Add(rr.Sub(l) / 2)
}

// random (not necessarily reachable) states per era, within the physical guard
func c13Random(r *Run, iters int) {
	for it := 0; it < iters; it++ {
		n := r.randNet()
		s := n.GenesisState()
		switch r.rng.IntN(4) {
		case 0:
			s.Index.Height = uint64(r.rng.IntN(int(n.HardforkOak.Height) + 1))
			if r.rng.IntN(2) == 0 {
				s.Index.Height = 499 + 500*uint64(r.rng.IntN(3))
			}
		case 1:
			s.Index.Height = n.HardforkOak.Height + uint64(r.rng.IntN(int(n.HardforkV2.AllowHeight-n.HardforkOak.Height)))
		case 2:
			s.Index.Height = n.HardforkV2.AllowHeight - 1 + uint64(r.rng.IntN(int(n.HardforkV2.FinalCutHeight-n.HardforkV2.AllowHeight)+1))
		default:
			s.Index.Height = n.HardforkV2.FinalCutHeight - 1 + uint64(r.rng.IntN(200000))
		}
		s.Index.ID = types.BlockID{9}
		dbits := 1 + r.rng.IntN(200)
		D := new(big.Int).Rsh(new(big.Int).SetBytes(r.randBytes(32)), uint(256-dbits))
		D.Add(D, big.NewInt(1))
		s.Difficulty = workFromBig(D)
		maxT := new(big.Int).Sub(two256, big.NewInt(1))
		s.ChildTarget = idFromBig(new(big.Int).Div(maxT, D))
		ow := new(big.Int).Mul(D, big.NewInt(int64(1+r.rng.IntN(400))))
		s.OakWork = workFromBig(ow)
		s.OakTarget = idFromBig(new(big.Int).Div(maxT, ow))
		twk := new(big.Int).Mul(D, big.NewInt(int64(1+r.rng.IntN(100000))))
		s.TotalWork = workFromBig(twk)
		s.Depth = idFromBig(new(big.Int).Div(maxT, twk))
		s.OakTime = time.Duration(r.rng.Int64N(int64(400000*time.Second))) / time.Second * time.Second
		if r.rng.IntN(8) == 0 {
			s.OakTime = -s.OakTime
		}
		if r.rng.IntN(10) == 0 {
			s.OakTime = time.Duration(r.rng.IntN(3)) * time.Second
		}
		base := n.HardforkOak.GenesisTimestamp.Add(time.Duration(s.Index.Height) * n.BlockInterval)
		for i := range s.PrevTimestamps {
			s.PrevTimestamps[i] = base.Add(-time.Duration(i) * n.BlockInterval)
		}
		var ts time.Time
		switch r.rng.IntN(4) {
		case 0:
			ts = base
		case 1:
			ts = base.Add(time.Duration(r.rng.Int64N(2000000)-1000000) * time.Second)
		case 2: // around the pre-oak clamp boundaries
			ts = base.Add(time.Duration(r.rng.Int64N(100)-50) * time.Second)
		default:
			ts = base.Add(time.Duration(r.rng.Int64N(200000000)) * time.Second)
		}
		target := base.Add(-time.Duration(min(1000, s.Index.Height+1)) * n.BlockInterval)
		if r.rng.IntN(3) == 0 { // pre-oak clamp: elapsed within a few seconds of expected/2.5 and expected*2.5
			exp := int64(n.BlockInterval/time.Second) * int64(min(1000, s.Index.Height+1))
			k := []int64{exp * 10 / 25, exp * 25 / 10, exp, 0, -5}[r.rng.IntN(5)] + int64(r.rng.IntN(5)) - 2
			ts = target.Add(time.Duration(k) * time.Second)
		}
		bh := types.BlockHeader{ParentID: s.Index.ID, Timestamp: ts}
		next, ok := c13Apply(r, s, bh, target, "random-"+eraOf(n, s.Index.Height+1))
		if ok {
			c13Oracles(r, s, next)
		} else {
			r.violate("c13.apply-panic", "ApplyHeader panicked on a state within the physical guard (era %s, D=%v bits)", eraOf(n, s.Index.Height+1), dbits)
		}
		// header validation on this state
		c13Validate(r, s)
		// heavier relation
		t2 := s
		t2.TotalWork = workFromBig(new(big.Int).Add(twk, new(big.Int).Div(D, big.NewInt(int64(1+r.rng.IntN(10))))))
		c13Heavier(r, s, t2)
		c13Heavier(r, t2, s)
	}
}

func (r *Run) randBytes(n int) []byte {
	b := make([]byte, n)
	r.fillBytes(b)
	return b
}

func c13Heavier(r *Run, a, b consensus.State) {
	var x, y bool
	p1, _ := try(func() { x = a.SufficientlyHeavierThan(b) })
	p2, _ := try(func() { y = b.SufficientlyHeavierThan(a) })
	if p1 || p2 {
		return
	}
	r.emit(true, "heavier", "c13.heavier", cat(stateToks(a), stateToks(b)), []string{"0", hbool(x)})
	if x && y {
		r.violate("c13.heavier-symmetric", "two states are each sufficiently heavier than the other")
	}
}

func c13Validate(r *Run, s consensus.State) {
	n := s.Network
	med := medianOf(s)
	for k := 0; k < 4; k++ {
		bh := types.BlockHeader{ParentID: s.Index.ID, Timestamp: med.Add(time.Duration(r.rng.IntN(5)-2) * time.Second)}
		if k == 0 {
			bh.ParentID = types.BlockID{0xEE}
		}
		nf := s.NonceFactor()
		bh.Nonce = uint64(r.rng.IntN(50)) * nf
		if k == 1 && nf > 1 {
			bh.Nonce++
		}
		r.fillBytes(bh.Commitment[:])
		if k == 3 { // make the work check bite: lower the target below typical IDs
			s.ChildTarget = idFromBig(new(big.Int).Rsh(two256, uint(1+r.rng.IntN(4))))
			s.Difficulty = workFromBig(new(big.Int).Div(new(big.Int).Sub(two256, big.NewInt(1)), bigFromID(s.ChildTarget)))
		}
		var err error
		if pan, _ := try(func() { err = consensus.ValidateHeader(s, bh) }); pan {
			continue
		}
		code := 0
		if err != nil {
			switch err.Error() {
			case "wrong parent ID":
				code = 1
			case "timestamp too far in the past":
				code = 2
			case "nonce not divisible by required factor":
				code = 3
			case "insufficient work":
				code = 4
			}
		}
		id := bh.ID()
		args := cat(netToks(n), stateToks(s), []string{hbool(bh.ParentID == s.Index.ID), hbigS(tsNanos(bh.Timestamp)), hx(bh.Nonce), hbig(bigFromID(id))})
		r.emit(true, "validate-header", "c13.validate", args, []string{"0", hx(uint64(code))})
		// oracle: the four conditions
		want := 0
		switch {
		case bh.ParentID != s.Index.ID:
			want = 1
		case bh.Timestamp.Before(med):
			want = 2
		case bh.Nonce%nf != 0:
			want = 3
		default:
			tgt := s.PoWTarget()
			if bigFromID(id).Cmp(bigFromID(tgt)) > 0 {
				want = 4
			}
		}
		if want != code {
			r.violate("c13.validate-header", "ValidateHeader verdict %d, the four conditions give %d", code, want)
		}
	}
}

func runC13(r *Run) {
	nchains := r.pick(10, 120)
	for c := 0; c < nchains; c++ {
		n := r.randNet()
		length := int(n.HardforkV2.FinalCutHeight) + 40 + r.rng.IntN(60)
		if length > 1500 {
			length = 1500
		}
		c13Chain(r, n, length, c%6)
	}
	c13Random(r, r.pick(1500, 60000))
}
