package main

import (
	"crypto/sha256"
	"encoding/hex"
	"encoding/json"
	"fmt"
	"bufio"
	"math/big"
	"math/rand/v2"
	"os"
	"sort"
	"strings"
)

// Violation is a concrete input on which the implementation itself breaks the property
// (decided by the property oracle, independent of the Coq model).
type Violation struct {
	Key    string `json:"key"`    // input class, matched against known_findings.txt
	Detail string `json:"detail"` // the concrete failing input and what was observed
}

// Run collects the cases handed to the model and the statistics for the evidence file.
type Run struct {
	Prop     string
	Tier     string
	Seed     uint64
	rng      *rand.Rand
	w        *bufio.Writer
	f        *os.File
	Cases    int
	distinct map[[8]byte]struct{}
	Dist     map[string]int
	Samples  []string
	Viol     []Violation
	violCount map[string]int `json:"-"`
	Notes    []string
	Exhaustive bool
}

func newRun(prop, tier string, seed uint64, outdir string) *Run {
	f, err := os.Create(outdir + "/cases.txt")
	if err != nil {
		panic(err)
	}
	return &Run{Prop: prop, Tier: tier, Seed: seed, rng: rand.New(rand.NewPCG(seed, 0x5ca1ab1e)),
		w: bufio.NewWriterSize(f, 1<<20), f: f, distinct: map[[8]byte]struct{}{}, Dist: map[string]int{}}
}

func (r *Run) thorough() bool { return r.Tier == "thorough" }

// pick returns q in the quick tier and t in the thorough tier.
func (r *Run) pick(q, t int) int {
	if r.thorough() {
		return t
	}
	return q
}

// emit writes one case: the model is asked for name(args) and must answer want.
// nontrivial marks cases that exercise a non-default branch (counted distinct by hash).
func (r *Run) emit(nontrivial bool, class string, name string, args []string, want []string) {
	line := name + " " + strings.Join(args, " ") + " => " + strings.Join(want, " ")
	r.w.WriteString(line)
	r.w.WriteByte('\n')
	r.Cases++
	r.Dist[class]++
	if nontrivial {
		h := sha256.Sum256([]byte(line))
		var k [8]byte
		copy(k[:], h[:8])
		r.distinct[k] = struct{}{}
	}
	if len(r.Samples) < 12 && (r.Cases%97 == 1 || r.Cases < 4) {
		s := line
		if len(s) > 400 {
			s = s[:400] + "…"
		}
		r.Samples = append(r.Samples, s)
	}
}

func (r *Run) count(class string) { r.Dist[class]++ }

func (r *Run) violate(key, format string, a ...any) {
	// at most 5 reports per key (so that a repeated known finding cannot crowd out a new violation), 400 overall
	if r.violCount == nil {
		r.violCount = map[string]int{}
	}
	r.violCount[key]++
	if r.violCount[key] <= 5 && len(r.Viol) < 400 {
		r.Viol = append(r.Viol, Violation{Key: key, Detail: fmt.Sprintf(format, a...)})
	}
}

func (r *Run) finish(outdir string) {
	r.w.Flush()
	r.f.Close()
	keys := make([]string, 0, len(r.Dist))
	for k := range r.Dist {
		keys = append(keys, k)
	}
	sort.Strings(keys)
	st := map[string]any{
		"property": r.Prop, "tier": r.Tier, "seed": r.Seed, "cases": r.Cases,
		"distinct_nontrivial": len(r.distinct), "distribution": r.Dist, "samples": r.Samples,
		"violations": r.Viol, "notes": r.Notes, "exhaustive": r.Exhaustive,
	}
	b, _ := json.MarshalIndent(st, "", " ")
	os.WriteFile(outdir+"/stats.json", b, 0o644)
}

// token helpers
func hx(u uint64) string          { return fmt.Sprintf("%x", u) }
func hi(i int64) string {
	if i < 0 {
		return fmt.Sprintf("-%x", -i)
	}
	return fmt.Sprintf("%x", i)
}
func hbig(b *big.Int) string      { return b.Text(16) }
func hb(b []byte) string          { return "x" + hex.EncodeToString(b) }
func hbool(b bool) string {
	if b {
		return "1"
	}
	return "0"
}

// try runs f and reports a recovered panic as its message.
func try(f func()) (panicked bool, msg string) {
	defer func() {
		if e := recover(); e != nil {
			panicked, msg = true, fmt.Sprint(e)
		}
	}()
	f()
	return
}
