package main

import (
	"bytes"
	"fmt"
	"reflect"
	"sync"

	"go.sia.tech/core/consensus"
	"go.sia.tech/core/types"
)

// C09 extras: copies share no mutable memory with their originals; concurrent callers agree.

// scribble overwrites every location reachable from v through pointers, slices and interfaces
func scribble(v reflect.Value, depth int) {
	if depth > 14 || !v.IsValid() {
		return
	}
	switch v.Kind() {
	case reflect.Ptr:
		if !v.IsNil() {
			scribble(v.Elem(), depth+1)
		}
	case reflect.Interface:
		if !v.IsNil() {
			e := v.Elem()
			if e.Kind() == reflect.Ptr {
				scribble(e, depth+1)
			} else if e.Kind() == reflect.Struct || e.Kind() == reflect.Slice {
				// value inside an interface: its own slices may still be shared
				tmp := reflect.New(e.Type()).Elem()
				tmp.Set(e)
				scribbleShared(tmp, depth+1)
			}
		}
	case reflect.Slice:
		for i := 0; i < v.Len(); i++ {
			scribble(v.Index(i), depth+1)
		}
	case reflect.Array:
		for i := 0; i < v.Len(); i++ {
			scribble(v.Index(i), depth+1)
		}
	case reflect.Struct:
		for i := 0; i < v.NumField(); i++ {
			if v.Type().Field(i).IsExported() {
				scribble(v.Field(i), depth+1)
			}
		}
	case reflect.Uint8, reflect.Uint16, reflect.Uint32, reflect.Uint64, reflect.Uint:
		if v.CanSet() {
			v.SetUint(v.Uint() ^ 0x55)
		}
	case reflect.Bool:
		if v.CanSet() {
			v.SetBool(!v.Bool())
		}
	}
}

// scribbleShared writes only through reference types (what a by-value copy still shares)
func scribbleShared(v reflect.Value, depth int) {
	if depth > 14 || !v.IsValid() {
		return
	}
	switch v.Kind() {
	case reflect.Ptr, reflect.Slice:
		scribble(v, depth)
	case reflect.Interface:
		scribble(v, depth)
	case reflect.Struct:
		for i := 0; i < v.NumField(); i++ {
			if v.Type().Field(i).IsExported() {
				scribbleShared(v.Field(i), depth+1)
			}
		}
	case reflect.Array:
		for i := 0; i < v.Len(); i++ {
			scribbleShared(v.Index(i), depth+1)
		}
	}
}

func encAny(x types.EncoderTo) []byte {
	var buf bytes.Buffer
	e := types.NewEncoder(&buf)
	x.EncodeTo(e)
	e.Flush()
	return buf.Bytes()
}

func c09Copies(r *Run) {
	n := r.pick(300, 5000)
	for i := 0; i < n; i++ {
		// V2Transaction.DeepCopy
		var txn types.V2Transaction
		r.fill(reflect.ValueOf(&txn).Elem(), 0)
		before := encAny(txn)
		cp := txn.DeepCopy()
		if !bytes.Equal(encAny(cp), before) {
			r.violate("c09.deepcopy-differs", "V2Transaction.DeepCopy does not encode like its original")
		}
		scribble(reflect.ValueOf(&cp).Elem(), 0)
		r.count("oracle-copy-disjoint")
		if !bytes.Equal(encAny(txn), before) {
			what := "unknown part"
			// find which part is shared
			probe := func(name string, f func(t *types.V2Transaction)) {
				var t2 types.V2Transaction
				r.fill(reflect.ValueOf(&t2).Elem(), 0)
				t2 = txn
				_ = f
				_ = name
			}
			_ = probe
			if len(txn.FileContractResolutions) > 0 {
				what = "a resolution (renewal) or another pointer/slice inside the transaction"
			}
			r.violate("c09.deepcopy-shares-memory", "writing through V2Transaction.DeepCopy()'s result changed the original (%s); original encoding before %x", what, before[:min(len(before), 200)])
		}
		// element Copy()
		var sce types.SiacoinElement
		r.fill(reflect.ValueOf(&sce).Elem(), 0)
		b0 := encAny(sce)
		c1 := sce.Copy()
		scribble(reflect.ValueOf(&c1).Elem(), 0)
		if !bytes.Equal(encAny(sce), b0) {
			r.violate("c09.copy-shares-memory", "SiacoinElement.Copy() shares memory with its original")
		}
		var v2fce types.V2FileContractElement
		r.fill(reflect.ValueOf(&v2fce).Elem(), 0)
		b1 := encAny(v2fce)
		c2 := v2fce.Copy()
		scribble(reflect.ValueOf(&c2).Elem(), 0)
		if !bytes.Equal(encAny(v2fce), b1) {
			r.violate("c09.copy-shares-memory", "V2FileContractElement.Copy() shares memory with its original")
		}
		var fce types.FileContractElement
		r.fill(reflect.ValueOf(&fce).Elem(), 0)
		b2 := encAny(fce)
		c3 := fce.Copy()
		scribble(reflect.ValueOf(&c3).Elem(), 0)
		if !bytes.Equal(encAny(fce), b2) {
			r.violate("c09.copy-shares-memory", "FileContractElement.Copy() shares memory with its original (valid/missed output slices)")
		}
		var ae types.AttestationElement
		r.fill(reflect.ValueOf(&ae).Elem(), 0)
		b4 := append(append([]byte(nil), ae.Attestation.Value...), encAny(ae.StateElement)...)
		c5 := ae.Copy()
		scribble(reflect.ValueOf(&c5).Elem(), 0)
		if !bytes.Equal(append(append([]byte(nil), ae.Attestation.Value...), encAny(ae.StateElement)...), b4) {
			r.violate("c09.copy-shares-memory", "AttestationElement.Copy() shares memory with its original (attestation value)")
		}
		var cie types.ChainIndexElement
		r.fill(reflect.ValueOf(&cie).Elem(), 0)
		b3 := encAny(cie)
		c4 := cie.Copy()
		scribble(reflect.ValueOf(&c4).Elem(), 0)
		if !bytes.Equal(encAny(cie), b3) {
			r.violate("c09.copy-shares-memory", "ChainIndexElement.Copy() shares memory with its original")
		}
	}
}

// concurrent callers on shared inputs agree with the sequential result (run under the race detector when built with -race)
func (c *lchain) concurrent(b types.Block, bs consensus.V1BlockSupplement, workers int) {
	r := c.r
	cs := c.cs()
	wantErr := consensus.ValidateBlock(cs, b, bs)
	var wantState []byte
	var wantDiff string
	if wantErr == nil {
		ns, au := consensus.ApplyBlock(cs, b, bs, c.ancestorTimestamp())
		wantState = encState(ns)
		wantDiff = fmt.Sprint(diffToks(au))
	}
	before := encodeInputs(cs, b, bs)
	var wg sync.WaitGroup
	errs := make([]string, workers)
	for w := 0; w < workers; w++ {
		wg.Add(1)
		go func(w int) {
			defer wg.Done()
			defer func() {
				if e := recover(); e != nil {
					errs[w] = fmt.Sprint("panic: ", e)
				}
			}()
			for rep := 0; rep < 3; rep++ {
				err := consensus.ValidateBlock(cs, b, bs)
				if (err == nil) != (wantErr == nil) || (err != nil && err.Error() != wantErr.Error()) {
					errs[w] = fmt.Sprintf("verdict differs: %v vs %v", err, wantErr)
					return
				}
				if err == nil {
					ns, au := consensus.ApplyBlock(cs, b, bs, c.ancestorTimestamp())
					if !bytes.Equal(encState(ns), wantState) || fmt.Sprint(diffToks(au)) != wantDiff {
						errs[w] = "state or diffs differ between concurrent callers"
						return
					}
					ru := consensus.RevertBlock(cs, b, bs)
					_ = ru
				}
			}
		}(w)
	}
	wg.Wait()
	r.count("oracle-concurrent")
	for _, e := range errs {
		if e != "" {
			r.violate("c09.concurrent", "%d concurrent Validate/Apply/Revert callers on shared inputs at child height %d: %s", workers, c.child(), e)
			break
		}
	}
	if !bytes.Equal(before, encodeInputs(cs, b, bs)) {
		r.violate("c09.concurrent-mutates", "concurrent calls modified the shared block/supplement/state at child height %d", c.child())
	}
}
