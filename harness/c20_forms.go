package main

import (
	"fmt"
	"strings"

	"go.sia.tech/core/types"
)

// PublicKey ("ed25519:" + hex) and ChainIndex ("<height>::<hex id>") text forms: rendering and parsing of valid and
// altered strings, by the code and by the model (Text/Forms.v: pk_roundtrip, ci_roundtrip)
func c20Forms(r *Run) {
	for it := 0; it < r.pick(40, 1500); it++ {
		var pk types.PublicKey
		copy(pk[:], r.randBytes(32))
		s := pk.String()
		r.emit(true, "pk-render", "c20.pk_render", []string{hb(pk[:])}, []string{hb([]byte(s))})
		var back types.PublicKey
		if err := back.UnmarshalText([]byte(s)); err != nil || back != pk {
			r.violate("c20.publickey-roundtrip", "public key %x does not parse back from %q: %v", pk[:], s, err)
		}
		alts := []string{s, strings.ToUpper(s), "ed25519:" + strings.ToUpper(s[8:]), "ed25518" + s[7:], "Ed25519" + s[7:], s[8:], "ed25519" + s[8:],
			"ed25519::" + s[8:], s[:len(s)-1], s[:len(s)-2], s + "0", s + "00", ":" + s[8:], "ed25519:", "", s[:20] + "g" + s[21:], s[:30] + " " + s[31:], " " + s, s + " "}
		for _, t := range alts {
			var got types.PublicKey
			err := got.UnmarshalText([]byte(t))
			r.count("oracle-publickey-text")
			if err == nil && got != pk {
				r.violate("c20.publickey-accepted-as-other", "public key string %q was accepted as a different key", t)
			}
			want := []string{"1"}
			if err == nil {
				want = []string{"0", hb(got[:])}
			}
			r.emit(true, "pk-parse-"+want[0], "c20.pk_parse", []string{hb([]byte(t))}, want)
		}

		heights := []uint64{0, 1, 9, 10, 99, 1 << 32, 1<<63 - 1, 1 << 63, ^uint64(0), r.rng.Uint64(), r.rng.Uint64() >> uint(r.rng.IntN(64))}
		h := heights[it%len(heights)]
		var ci types.ChainIndex
		ci.Height = h
		copy(ci.ID[:], r.randBytes(32))
		b, _ := ci.MarshalText()
		cs := string(b)
		r.emit(true, "ci-render", "c20.ci_render", []string{hx(h), hb(ci.ID[:])}, []string{hb(b)})
		var cback types.ChainIndex
		if err := cback.UnmarshalText(b); err != nil || cback != ci {
			r.violate("c20.chainindex-roundtrip", "chain index %v does not parse back from %q: %v", ci, cs, err)
		}
		id := cs[strings.Index(cs, "::")+2:]
		hs := fmt.Sprint(h)
		calts := []string{cs, "00" + cs, "+" + cs, "-" + cs, "::" + id, hs + ":" + id, hs + ":::" + id, hs + "::::" + id, hs + "::" + id + "::", hs + "::" + id[:62], hs + "::" + id[:63],
			hs + "::" + id + "0", hs + "::" + id + "00", hs + "::" + strings.ToUpper(id), hs + "::" + id[:10] + "g" + id[11:], hs + " ::" + id, hs + ":: " + id[1:],
			"18446744073709551615::" + id, "18446744073709551616::" + id, "99999999999999999999999999::" + id, "1_0::" + id, "0x10::" + id, hs + "::", "", "::"}
		for _, t := range calts {
			var got types.ChainIndex
			err := got.UnmarshalText([]byte(t))
			r.count("oracle-chainindex-text")
			want := []string{"1"}
			if err == nil {
				want = []string{"0", hx(got.Height), hb(got.ID[:])}
				// whatever parses renders back to an equivalent string and parses to itself
				b2, _ := got.MarshalText()
				var again types.ChainIndex
				if err := again.UnmarshalText(b2); err != nil || again != got {
					r.violate("c20.chainindex-roundtrip", "chain index parsed from %q does not round-trip", t)
				}
			}
			r.emit(true, "ci-parse-"+want[0], "c20.ci_parse", []string{hb([]byte(t))}, want)
		}
	}
}
