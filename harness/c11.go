package main

import (
	"go.sia.tech/core/consensus"
	"bytes"
	"encoding/json"
	"fmt"
	"os"
	"reflect"
	"time"

	rhp3 "go.sia.tech/core/rhp/v3"
	rhp4 "go.sia.tech/core/rhp/v4"
	"go.sia.tech/core/types"
)

func init() { props["C11"] = runC11; props["C10"] = runC10 }

var timeType = reflect.TypeOf(time.Time{})
var policyType = reflect.TypeOf(types.SpendPolicy{})
var resType = reflect.TypeOf(types.V2FileContractResolution{})
var curType = reflect.TypeOf(types.Currency{})

func (r *Run) randPolicy(depth int) types.SpendPolicy {
	k := r.rng.IntN(7)
	if depth > 2 && k == 4 {
		k = 0
	}
	switch k {
	case 0:
		return types.PolicyAbove(r.rng.Uint64())
	case 1:
		if r.rng.IntN(4) == 0 { // before 1970, the zero time, one second either side of the epoch
			return types.PolicyAfter([]time.Time{time.Unix(-1, 0), time.Unix(0, 0), time.Unix(1, 0), {}, time.Unix(-int64(r.rng.Uint64()>>30), 0)}[r.rng.IntN(5)])
		}
		return types.PolicyAfter(time.Unix(int64(r.rng.Uint64()>>28), 0))
	case 2:
		var pk types.PublicKey
		r.fillBytes(pk[:])
		return types.PolicyPublicKey(pk)
	case 3:
		var h types.Hash256
		r.fillBytes(h[:])
		return types.PolicyHash(h)
	case 4:
		n := r.rng.IntN(4)
		if depth == 0 && r.rng.IntN(10) == 0 {
			n = []int{31, 32, 33, 34, 40, 64, 100, 255}[r.rng.IntN(8)] // wide thresholds (a 17-of-33 multisig is a valid policy)
		}
		var of []types.SpendPolicy
		for i := 0; i < n; i++ {
			if n > 8 {
				var pk types.PublicKey
				r.fillBytes(pk[:])
				of = append(of, types.PolicyPublicKey(pk))
			} else {
				of = append(of, r.randPolicy(depth+1))
			}
		}
		return types.PolicyThreshold(uint8(r.rng.IntN(5)), of)
	case 5:
		var a types.Address
		r.fillBytes(a[:])
		return types.SpendPolicy{Type: types.PolicyTypeOpaque(a)}
	default:
		var uc types.UnlockConditions
		r.fill(reflect.ValueOf(&uc).Elem(), 0)
		return types.SpendPolicy{Type: types.PolicyTypeUnlockConditions(uc)}
	}
}

// fill sets v to a random value: mostly full-range numbers, small collections, boundary currencies
func (r *Run) fill(v reflect.Value, depth int) {
	if depth > 8 {
		return
	}
	t := v.Type()
	switch {
	case t == timeType:
		v.Set(reflect.ValueOf(time.Unix(int64(r.rng.Uint64()>>28), 0)))
		return
	case t == policyType:
		v.Set(reflect.ValueOf(r.randPolicy(0)))
		return
	case t == curType || t.ConvertibleTo(curType) && t.Kind() == reflect.Struct && t.NumField() == 2 && t.Field(0).Name == "Lo":
		var c types.Currency
		switch r.rng.IntN(5) {
		case 0:
		case 1:
			c = types.NewCurrency(^uint64(0), ^uint64(0))
		case 2:
			c = types.NewCurrency64(r.rng.Uint64() >> uint(r.rng.IntN(64)))
		default:
			c = types.NewCurrency(r.rng.Uint64(), r.rng.Uint64()>>uint(r.rng.IntN(64)))
		}
		v.Set(reflect.ValueOf(c).Convert(t))
		return
	case t == resType:
		var res types.V2FileContractResolution
		r.fill(reflect.ValueOf(&res.Parent).Elem(), depth+1)
		switch r.rng.IntN(3) {
		case 0:
			x := new(types.V2FileContractRenewal)
			r.fill(reflect.ValueOf(x).Elem(), depth+1)
			res.Resolution = x
		case 1:
			x := new(types.V2StorageProof)
			r.fill(reflect.ValueOf(x).Elem(), depth+1)
			res.Resolution = x
		default:
			res.Resolution = new(types.V2FileContractExpiration)
		}
		v.Set(reflect.ValueOf(res))
		return
	}
	switch v.Kind() {
	case reflect.Bool:
		v.SetBool(r.rng.IntN(2) == 0)
	case reflect.Uint8, reflect.Uint16, reflect.Uint32, reflect.Uint64, reflect.Uint:
		x := r.rng.Uint64()
		if r.rng.IntN(4) == 0 {
			x = uint64(r.rng.IntN(3))
		}
		v.SetUint(x)
	case reflect.Int, reflect.Int64, reflect.Int32:
		v.SetInt(int64(r.rng.Uint64() >> 1))
	case reflect.String:
		b := make([]byte, r.rng.IntN(6))
		for i := range b {
			b[i] = byte('a' + r.rng.IntN(26))
		}
		v.SetString(string(b))
	case reflect.Array:
		for i := 0; i < v.Len(); i++ {
			r.fill(v.Index(i), depth+1)
		}
	case reflect.Slice:
		n := r.rng.IntN(4)
		if t.Elem().Kind() == reflect.Uint8 && r.rng.IntN(12) == 0 {
			// byte strings around and above the encoder's buffer size (1024) and larger
			n = []int{1023, 1024, 1025, 2048, 1500 + r.rng.IntN(3000)}[r.rng.IntN(5)]
		}
		if n == 0 {
			return
		}
		s := reflect.MakeSlice(t, n, n)
		for i := 0; i < n; i++ {
			r.fill(s.Index(i), depth+1)
		}
		v.Set(s)
	case reflect.Struct:
		for i := 0; i < v.NumField(); i++ {
			if t.Field(i).IsExported() {
				r.fill(v.Field(i), depth+1)
			}
		}
	case reflect.Ptr:
		if r.rng.IntN(2) == 0 {
			p := reflect.New(t.Elem())
			r.fill(p.Elem(), depth+1)
			v.Set(p)
		}
	}
}

// fixups makes a randomly filled value a value of its type where fields are not independent
func (r *Run) fixups(name string, v reflect.Value) {
	switch x := v.Interface().(type) {
	case *rhp3.RPCExecuteProgramResponse:
		x.OutputLength = uint64(len(x.Output))
	case *rhp3.RPCExecuteProgramRequest:
		x.Program = nil
		var instrs []reflect.Type
		for _, tt := range genAllTypes {
			if len(tt.name) > 12 && tt.name[:12] == "rhp/v3.Instr" {
				if _, ok := reflect.New(tt.typ).Interface().(rhp3.Instruction); ok {
					instrs = append(instrs, tt.typ)
				}
			}
		}
		for k := 0; k < r.rng.IntN(4) && len(instrs) > 0; k++ {
			p := reflect.New(instrs[r.rng.IntN(len(instrs))])
			r.fill(p.Elem(), 0)
			x.Program = append(x.Program, p.Interface().(rhp3.Instruction))
		}
	}
}

func encodeVal(v reflect.Value) (b []byte, err error) {
	defer func() {
		if e := recover(); e != nil {
			err = fmt.Errorf("PANIC %v", e)
		}
	}()
	var buf bytes.Buffer
	e := types.NewEncoder(&buf)
	if o, ok := v.Interface().(rhp4.Object); ok && !hasEncoderTo(v) {
		rhp4.VerifEncode(o, e)
	} else if et, ok := v.Elem().Interface().(types.EncoderTo); ok {
		et.EncodeTo(e)
	} else {
		v.Interface().(types.EncoderTo).EncodeTo(e)
	}
	e.Flush()
	return buf.Bytes(), nil
}

// decodeBytes decodes b as typ; reports panic, decoder error and the number of unread bytes
func decodeBytes(typ reflect.Type, b []byte) (w reflect.Value, derr error, panicked string) {
	w = reflect.New(typ)
	df, ok := w.Interface().(types.DecoderFrom)
	if o, isObj := w.Interface().(rhp4.Object); isObj && !ok {
		df, ok = types.DecoderFunc(func(d *types.Decoder) { rhp4.VerifDecode(o, d) }), true
	}
	if !ok {
		return w, fmt.Errorf("no decoder"), ""
	}
	d := types.NewBufDecoder(b)
	func() {
		defer func() {
			if e := recover(); e != nil {
				panicked = fmt.Sprint(e)
			}
		}()
		df.DecodeFrom(d)
	}()
	return w, d.Err(), panicked
}

func hasEncoderTo(v reflect.Value) bool {
	if _, ok := v.Interface().(types.EncoderTo); ok {
		return true
	}
	_, ok := v.Elem().Interface().(types.EncoderTo)
	return ok
}

type wireType struct {
	name string
	typ  reflect.Type
}

// every wire type: the exported EncodeTo/DecodeFrom pairs and the rhp/v4 RPC objects (through the verif hooks)
func allWireTypes() []wireType {
	var out []wireType
	for _, t := range genAllTypes {
		out = append(out, wireType{t.name, t.typ})
	}
	for _, o := range genRhp4Objects {
		out = append(out, wireType{o.name, reflect.TypeOf(o.mk()).Elem()})
	}
	for _, t := range genGatewayCodecs {
		out = append(out, wireType{t.name, t.typ})
	}
	return out
}

type genSchema struct {
	Type   string          `json:"type"`
	Enc    json.RawMessage `json:"enc"`
	Dec    json.RawMessage `json:"dec"`
	Opaque bool            `json:"opaque"`
}

// which types the model can recode: regular shape and every referenced type regular or recognised
func recodable() map[string]bool {
	data, err := os.ReadFile("../coq/Gen/schemas.json")
	if err != nil {
		return map[string]bool{}
	}
	var all []genSchema
	json.Unmarshal(data, &all)
	recog := map[string]bool{"types.V1Currency": true, "types.V1SiafundOutput": true, "types.SpendPolicy": true,
		"types.V2FileContractResolution": true, "types.V2Transaction": true}
	refs := map[string][]string{}
	opaque := map[string]bool{}
	var collect func(raw json.RawMessage, out *[]string)
	collect = func(raw json.RawMessage, out *[]string) {
		var s struct {
			K   string            `json:"k"`
			Ref string            `json:"ref"`
			Sub []json.RawMessage `json:"sub"`
		}
		if json.Unmarshal(raw, &s) != nil {
			return
		}
		if s.K == "ref" {
			*out = append(*out, s.Ref)
		}
		for _, x := range s.Sub {
			collect(x, out)
		}
	}
	for _, t := range all {
		var rs []string
		collect(t.Enc, &rs)
		collect(t.Dec, &rs)
		refs[t.Type] = rs
		opaque[t.Type] = t.Opaque
	}
	memo := map[string]int{}
	var ok func(string) bool
	ok = func(q string) bool {
		if recog[q] {
			return true
		}
		if memo[q] != 0 {
			return memo[q] == 1
		}
		memo[q] = 1
		res := !opaque[q]
		if _, known := refs[q]; !known {
			res = false
		}
		for _, x := range refs[q] {
			if !ok(x) {
				res = false
			}
		}
		if res {
			memo[q] = 1
		} else {
			memo[q] = 2
		}
		return res
	}
	out := map[string]bool{}
	for _, t := range all {
		out[t.Type] = ok(t.Type)
	}
	return out
}

var needsState = map[string]bool{"types.V2TransactionsMultiproof": true, "types.V2BlockData": true, "types.V2Block": true,
	"gateway.RPCSendCheckpoint#response": true, "gateway.RPCSendV2Blocks#response": true, "gateway.RPCRelayV2BlockOutline#request": true}

func runC11(r *Run) {
	for i := 0; i < r.pick(30, 800); i++ {
		c18Synthetic(r) // V2TransactionsMultiproof needs proofs valid for one state: generated here, round trip + model
	}
	c11StateLayout(r)
	c11PolicyNesting(r)
	c11TxnMasks(r)
	rec := recodable()
	nper := r.pick(60, 2500)
	nrec := 0
	for _, tt := range allWireTypes() {
		if rec[tt.name] {
			nrec++
		}
		if needsState[tt.name] {
			continue // only meaningful for proofs valid under one state: covered by C18 on generated chains
		}
		for iter := 0; iter < nper; iter++ {
			v := reflect.New(tt.typ)
			r.fill(v.Elem(), 0)
			r.fixups(tt.name, v)
			if iter == 0 {
				v = reflect.New(tt.typ) // the zero value: empty/nil collections
			}
			b1, err := encodeVal(v)
			if err != nil {
				if iter == 0 {
					continue // the zero value of this type is not a value (e.g. a policy without a type)
				}
				r.violate("c11.encode-panic", "%s: EncodeTo panicked: %v", tt.name, err)
				break
			}
			w, derr, pan := decodeBytes(tt.typ, b1)
			r.count("oracle-roundtrip")
			if pan != "" {
				r.violate("c11.decode-panic", "%s: DecodeFrom panicked on its own encoding: %s (%x)", tt.name, pan, b1)
				break
			}
			if derr != nil {
				r.violate("c11.roundtrip", "%s: decoding its own encoding fails: %v (%x)", tt.name, derr, b1)
				break
			}
			b2, _ := encodeVal(w)
			if !bytes.Equal(b1, b2) {
				r.violate("c11.roundtrip", "%s: re-encoding the decoded value gives different bytes (%x vs %x)", tt.name, b1, b2)
				break
			}
			// determinism
			b3, _ := encodeVal(v)
			if !bytes.Equal(b1, b3) {
				r.violate("c11.determinism", "%s: two encodings of one value differ", tt.name)
			}
			if rec[tt.name] && len(b1) < 6000 {
				r.emit(len(b1) > 8, "recode", "c11.recode", []string{hb([]byte(tt.name)), hb(b1)}, []string{"0", hb(b1), "0"})
			}
			// truncation: every proper prefix of short encodings, sampled prefixes of long ones
			if iter < r.pick(6, 40) {
				step := 1
				if len(b1) > 300 {
					step = len(b1)/150 + 1
				}
				for k := 0; k < len(b1); k += step {
					_, derr, pan := decodeBytes(tt.typ, b1[:k])
					r.count("oracle-truncation")
					if pan != "" {
						r.violate("c11.truncation-panic", "%s: DecodeFrom panicked on a %d-byte prefix of a %d-byte encoding: %s", tt.name, k, len(b1), pan)
						break
					}
					if derr == nil {
						r.violate("c11.truncation", "%s: a %d-byte proper prefix of a %d-byte encoding decodes without error (%x)", tt.name, k, len(b1), b1)
						break
					}
					if rec[tt.name] && k%3 == 0 {
						r.emit(true, "truncation", "c11.decode", []string{hb([]byte(tt.name)), hb(b1[:k])}, []string{"1"})
					}
				}
			}
		}
	}
	r.Notes = append(r.Notes, fmt.Sprintf("%d wire types (exported EncodeTo/DecodeFrom pairs and rhp/v4 RPC objects), %d recomputed by the model (regular shape closure incl. recognised V1Currency, V1SiafundOutput, SpendPolicy, V2FileContractResolution, V2Transaction)", len(allWireTypes()), nrec))
	_ = rhp3.RPCError{}
}

// C10 (decode half): hostile bytes never panic and never allocate out of proportion
func runC10(r *Run) {
	runLedger(r, "C10") // validation half: structure-aware adversarial blocks on generated chains
	for i := 0; i < r.pick(30, 800); i++ {
		c18Synthetic(r) // structure-aware hostile multiproofs (leaf count replaced in valid encodings)
	}
	rec := recodable()
	nper := r.pick(40, 1500)
	for _, tt := range allWireTypes() {
		for iter := 0; iter < nper; iter++ {
			var b []byte
			if needsState[tt.name] && iter%4 != 0 {
				continue
			}
			switch iter % 4 {
			case 0: // raw random
				b = r.randBytes(r.rng.IntN(200))
			case 1, 2: // bit-flipped / spliced valid encoding
				v := reflect.New(tt.typ)
				r.fill(v.Elem(), 0)
				r.fixups(tt.name, v)
				b, _ = encodeVal(v)
				b = append([]byte(nil), b...)
				for k := 0; k < 1+r.rng.IntN(3) && len(b) > 0; k++ {
					b[r.rng.IntN(len(b))] ^= 1 << r.rng.IntN(8)
				}
			default: // huge length prefixes
				v := reflect.New(tt.typ)
				r.fill(v.Elem(), 0)
				b, _ = encodeVal(v)
				b = append([]byte(nil), b...)
				if len(b) >= 8 {
					p := r.rng.IntN(len(b) - 7)
					for k := 0; k < 8; k++ {
						b[p+k] = 0xff
					}
					if r.rng.IntN(2) == 0 {
						b[p+7] = 0x7f
					}
				}
			}
			_, derr, pan := decodeBytes(tt.typ, b)
			r.count("oracle-hostile-decode")
			if pan != "" {
				r.violate("c10.decode-panic:"+tt.name, "%s.DecodeFrom panicked on %x: %s", tt.name, b, pan)
				break
			}
			if rec[tt.name] && len(b) < 4000 {
				want := "0"
				if derr != nil {
					want = "1"
				}
				r.emit(derr == nil, "hostile-decode", "c11.decode", []string{hb([]byte(tt.name)), hb(b)}, []string{want})
			}
		}
	}
}


// consensus.State has an irregular layout (only the timestamps in use are written; one accumulator root per set
// bit of the leaf count): its encoded length is recomputed by the model for the pre-genesis state, the first
// heights and random leaf counts, and it must round-trip
func c11StateLayout(r *Run) {
	heights := []uint64{^uint64(0), 0, 1, 2, 5, 9, 10, 11, 12, 1000, 1 << 40}
	for it := 0; it < r.pick(60, 2000); it++ {
		var s consensus.State
		r.fill(reflect.ValueOf(&s).Elem(), 0)
		s.Index.Height = heights[it%len(heights)]
		s.Network = nil
		nl := r.rng.Uint64() >> uint(r.rng.IntN(64))
		if it%7 == 0 {
			nl = 0
		}
		s.Elements.NumLeaves = nl
		for i := range s.Elements.Trees {
			if nl&(1<<uint(i)) == 0 {
				s.Elements.Trees[i] = types.Hash256{}
			}
		}
		b := encAny(s)
		r.emit(true, "state-layout", "c11.state_len", []string{hx(s.Index.Height), hx(nl)}, []string{hx(uint64(len(b)))})
		var s2 consensus.State
		d := types.NewBufDecoder(b)
		s2.DecodeFrom(d)
		r.count("oracle-state-roundtrip")
		if d.Err() != nil || !bytes.Equal(encAny(s2), b) {
			r.violate("c11.state-roundtrip", "State at height %d with %d leaves does not round-trip: %v", s.Index.Height, nl, d.Err())
		}
		// slots beyond the timestamps in use must not influence the bytes
		s3 := s
		for i := range s3.PrevTimestamps {
			if uint64(i) >= s.Index.Height+1 {
				s3.PrevTimestamps[i] = s3.PrevTimestamps[i].Add(time.Hour)
			}
		}
		if !bytes.Equal(encAny(s3), b) {
			r.violate("c11.state-unused-slots", "State at height %d: timestamp slots not in use influence the encoding", s.Index.Height)
		}
	}
}

// the policy decoder refuses nesting deeper than 32 thresholds and reads at most 255 children: chains of thresholds
// around every leaf kind at depths on both sides of the limit, wide thresholds, unknown opcodes and versions, decoded
// by the code and by the model (acceptance, re-encoding, bytes left)
func c11PolicyNesting(r *Run) {
	leaves := func() []types.SpendPolicy {
		uc := types.UnlockConditions{Timelock: r.rng.Uint64(), SignaturesRequired: r.rng.Uint64()}
		for i := 0; i < r.rng.IntN(3); i++ {
			uc.PublicKeys = append(uc.PublicKeys, types.UnlockKey{Algorithm: types.SpecifierEd25519, Key: r.randBytes(r.rng.IntN(40))})
		}
		return []types.SpendPolicy{types.PolicyAbove(r.rng.Uint64()), types.PolicyAfter(time.Unix(int64(r.rng.Uint64()>>2), 0)),
			types.PolicyPublicKey(types.PublicKey(r.randHash())), types.PolicyHash(r.randHash()), types.PolicyOpaque(types.PolicyAbove(r.rng.Uint64())),
			{Type: types.PolicyTypeUnlockConditions(uc)}, types.PolicyThreshold(uint8(r.rng.IntN(256)), nil)}
	}
	depths := []int{0, 1, 2, 30, 31, 32, 33, 34, 40, 64}
	for it := 0; it < r.pick(3, 40); it++ {
		for _, d := range depths {
			for _, leaf := range leaves() {
				p := leaf
				for k := 0; k < d; k++ {
					of := []types.SpendPolicy{p}
					if k == d/2 && r.rng.IntN(2) == 0 { // siblings at one level do not add depth
						of = append(of, types.PolicyAbove(1), types.PolicyThreshold(0, nil))
					}
					p = types.PolicyThreshold(uint8(r.rng.IntN(3)), of)
				}
				b := encAny(p)
				if r.rng.IntN(3) == 0 {
					b = append(b, r.randBytes(1+r.rng.IntN(5))...) // bytes left for the caller
				}
				var q types.SpendPolicy
				dd := types.NewBufDecoder(b)
				q.DecodeFrom(dd)
				r.count("oracle-policy-nesting")
				depthOf := d
				if _, isT := leaf.Type.(types.PolicyTypeThreshold); isT {
					depthOf = d // an empty threshold at depth d reads no children
				}
				if (dd.Err() == nil) != (depthOf <= 32) {
					r.violate("c11.policy-depth", "policy nested %d deep: decode error %v", d, dd.Err())
				}
				if dd.Err() == nil {
					b2 := encAny(q)
					if !bytes.Equal(b2, b[:len(b2)]) {
						r.violate("c11.policy-depth", "policy nested %d deep re-encodes differently", d)
					}
					r.emit(true, "policy-nesting", "c11.recode", []string{hb([]byte("types.SpendPolicy")), hb(b)}, []string{"0", hb(b2), hx(uint64(len(b) - len(b2)))})
				} else {
					r.emit(false, "policy-nesting", "c11.decode", []string{hb([]byte("types.SpendPolicy")), hb(b)}, []string{"1"})
				}
			}
		}
		// wide thresholds: 255 children, and hostile headers (count byte larger than the children present, unknown opcode, wrong version)
		var of []types.SpendPolicy
		for i := 0; i < 255; i++ {
			of = append(of, types.PolicyAbove(uint64(i)))
		}
		b := encAny(types.PolicyThreshold(uint8(r.rng.IntN(256)), of))
		r.emit(true, "policy-nesting", "c11.recode", []string{hb([]byte("types.SpendPolicy")), hb(b)}, []string{"0", hb(b), "0"})
		for _, mut := range []func([]byte){
			func(x []byte) { x[3]-- }, func(x []byte) { x[0] = byte(r.rng.IntN(256)) }, func(x []byte) { x[1] = byte(r.rng.IntN(256)) },
			func(x []byte) { x[4] = byte(8 + r.rng.IntN(248)) }, func(x []byte) { x[4] = 0 }} {
			c := append([]byte(nil), b...)
			mut(c)
			var q types.SpendPolicy
			dd := types.NewBufDecoder(c)
			q.DecodeFrom(dd)
			want := "0"
			if dd.Err() != nil {
				want = "1"
			}
			r.emit(dd.Err() == nil, "policy-nesting", "c11.decode", []string{hb([]byte("types.SpendPolicy")), hb(c)}, []string{want})
		}
	}
}
