package main

import (
	"bytes"
	"errors"
	"fmt"
	"io"
	"net"
	"reflect"
	"strings"
	"sync"
	"time"

	"go.sia.tech/core/gateway"
	rhp2 "go.sia.tech/core/rhp/v2"
	rhp3 "go.sia.tech/core/rhp/v3"
	rhp4 "go.sia.tech/core/rhp/v4"
	"go.sia.tech/core/types"
)

func init() { props["C19"] = runC19 }

// the protocol's own limits on the collections of each rhp/v4 RPC object, in encoding order
// (mirrors rpc_limits in coq/Codec/Framing.v; the model recomputes the sizes from the generated shapes)
func c19Limits() map[string][]uint64 {
	B, A := uint64(rhp4.MaxSectorBatchSize), uint64(rhp4.MaxAccountBatchSize)
	return map[string][]uint64{
		"rhp/v4.RPCAccountBalanceRequest": {}, "rhp/v4.RPCAccountBalanceResponse": {},
		"rhp/v4.RPCAppendSectorsRequest": {B}, "rhp/v4.RPCAppendSectorsResponse": {B, B},
		"rhp/v4.RPCAppendSectorsSecondResponse": {}, "rhp/v4.RPCAppendSectorsThirdResponse": {},
		"rhp/v4.RPCAttachPoolsRequest": {A}, "rhp/v4.RPCAttachPoolsResponse": {},
		"rhp/v4.RPCDetachPoolsRequest": {A}, "rhp/v4.RPCDetachPoolsResponse": {},
		"rhp/v4.RPCFreeSectorsRequest": {B},
		"rhp/v4.RPCFreeSectorsSecondResponse": {}, "rhp/v4.RPCFreeSectorsThirdResponse": {},
		"rhp/v4.RPCFundAccountsRequest": {A}, "rhp/v4.RPCFundAccountsResponse": {A},
		"rhp/v4.RPCLatestRevisionRequest": {}, "rhp/v4.RPCLatestRevisionResponse": {},
		"rhp/v4.RPCReadSectorRequest": {}, "rhp/v4.RPCReadSectorResponse": {32},
		"rhp/v4.RPCReplenishAccountsRequest": {A}, "rhp/v4.RPCReplenishAccountsResponse": {A},
		"rhp/v4.RPCReplenishAccountsSecondResponse": {}, "rhp/v4.RPCReplenishAccountsThirdResponse": {},
		"rhp/v4.RPCSectorRootsRequest": {}, "rhp/v4.RPCSectorRootsResponse": {128, B},
		"rhp/v4.RPCSettingsRequest": {},
		"rhp/v4.RPCVerifySectorRequest": {}, "rhp/v4.RPCVerifySectorResponse": {32},
		"rhp/v4.RPCWriteSectorRequest": {}, "rhp/v4.RPCWriteSectorResponse": {},
	}
}

// sizeSlices sets the length of every slice reachable from v, in field (= encoding) order, from lims
func sizeSlices(v reflect.Value, lims *[]uint64, delta int) {
	switch v.Kind() {
	case reflect.Struct:
		for i := 0; i < v.NumField(); i++ {
			if v.Type().Field(i).IsExported() {
				sizeSlices(v.Field(i), lims, delta)
			}
		}
	case reflect.Slice:
		if len(*lims) == 0 {
			return
		}
		n := int((*lims)[0]) + delta
		*lims = (*lims)[1:]
		if n < 0 {
			n = 0
		}
		v.Set(reflect.MakeSlice(v.Type(), n, n))
	}
}

type countingReader struct {
	r io.Reader
	n int
}

func (c *countingReader) Read(p []byte) (int, error) {
	n, err := c.r.Read(p)
	c.n += n
	return n, err
}

type garbage struct{ b byte }

func (g garbage) Read(p []byte) (int, error) {
	for i := range p {
		p[i] = g.b
	}
	return len(p), nil
}

func c19Rhp4(r *Run) {
	lims := c19Limits()
	rec := recodable()
	for _, ot := range genRhp4Objects {
		lm, crisp := lims[ot.name]
		isResp := strings.Contains(ot.name, "Response")
		maxLen := rhp4.VerifMaxLen(ot.mk())
		limit := maxLen
		if isResp {
			limit += rhp4.VerifMaxLen(new(rhp4.RPCError))
		}
		deltas := []int{0}
		if crisp && len(lm) > 0 {
			deltas = []int{0, -1, 1, 1000}
		}
		for _, delta := range deltas {
			if !crisp && delta != 0 {
				continue
			}
			o := ot.mk()
			if crisp {
				l := append([]uint64(nil), lm...)
				sizeSlices(reflect.ValueOf(o).Elem(), &l, delta)
			} else {
				// no crisp protocol limit (transaction sets, settings, free-sectors proof): random values
				r.fill(reflect.ValueOf(o).Elem(), 0)
			}
			var buf bytes.Buffer
			var werr error
			if isResp {
				werr = rhp4.WriteResponse(&buf, o)
			} else {
				e := types.NewEncoder(&buf)
				rhp4.VerifEncode(o, e)
				werr = e.Flush()
			}
			if werr != nil {
				r.violate("c19.write", "%s: write failed: %v", ot.name, werr)
				continue
			}
			enc := append([]byte(nil), buf.Bytes()...)
			within := delta <= 0
			// the receiver: the stream continues with garbage after the message
			cr := &countingReader{r: io.MultiReader(bytes.NewReader(enc), garbage{0x5a})}
			o2 := ot.mk()
			var rerr error
			pan, msg := try(func() {
				if isResp {
					rerr = rhp4.ReadResponse(cr, o2)
				} else {
					rerr = rhp4.ReadRequest(cr, o2)
				}
			})
			r.count("oracle-rhp4-frame")
			if pan {
				r.violate("c19.read-panic", "%s: reading a %d-byte message panicked: %s", ot.name, len(enc), msg)
				continue
			}
			if cr.n > limit {
				r.violate("c19.read-bound", "%s: the receiver read %d bytes, its limit is %d", ot.name, cr.n, limit)
			}
			if crisp && within {
				if len(enc) > limit {
					r.violate("c19.limit-too-small:"+ot.name, "%s within the protocol's limits %v (delta %d) encodes to %d bytes, the receiver's limit is %d", ot.name, lm, delta, len(enc), limit)
				}
				if rerr != nil {
					r.violate("c19.valid-rejected:"+ot.name, "%s within the protocol's limits %v (delta %d, %d bytes, limit %d) is rejected by the receiver: %v", ot.name, lm, delta, len(enc), limit, rerr)
				} else {
					var b2 bytes.Buffer
					e := types.NewEncoder(&b2)
					rhp4.VerifEncode(o2, e)
					e.Flush()
					body := enc
					if isResp {
						body = enc[1:]
					}
					if !bytes.Equal(b2.Bytes(), body) {
						r.violate("c19.roundtrip", "%s: the object read differs from the object written", ot.name)
					}
				}
			}
			// model: size at the limits (exact for the maximal object) and the receiver's limit
			if crisp && delta == 0 {
				args := []string{hb([]byte(ot.name)), hx(uint64(len(lm)))}
				for _, x := range lm {
					args = append(args, hx(x))
				}
				r.emit(true, "maxsize", "c19.maxsize", args, []string{"0", hx(uint64(len(enc))), hx(uint64(limit))})
			}
			// model: the receiver's verdict on this stream (first limit+8 bytes are all it can depend on)
			if rec[ot.name] && (len(enc) < 100000 || delta == 0 && len(enc) < 300000 && r.thorough()) {
				stream := append(append([]byte(nil), enc...), bytes.Repeat([]byte{0x5a}, 64)...)
				verdict := "0"
				var rpcErr *rhp4.RPCError
				if rerr != nil {
					verdict = "1"
					if errors.As(rerr, &rpcErr) {
						verdict = "2"
					}
				}
				r.emit(true, "frame-"+verdict, "c19.frame", []string{hb([]byte(ot.name)), hbool(isResp), hb(stream)}, []string{verdict})
			}
		}
		// an error response is delivered as that error, whatever the expected object
		if isResp {
			for _, dl := range []int{0, 1, 40, 500, 1014} {
				e := &rhp4.RPCError{Code: uint8(1 + r.rng.IntN(6)), Description: strings.Repeat("e", dl)}
				var buf bytes.Buffer
				rhp4.WriteResponse(&buf, e)
				stream := append(append([]byte(nil), buf.Bytes()...), bytes.Repeat([]byte{0x5a}, 32)...)
				err := rhp4.ReadResponse(bytes.NewReader(stream), ot.mk())
				var got *rhp4.RPCError
				r.count("oracle-error-delivery")
				if !errors.As(err, &got) || got.Code != e.Code || got.Description != e.Description {
					r.violate("c19.error-delivery", "%s: an error response (code %d, %d-byte description) is not delivered as that error: %v", ot.name, e.Code, dl, err)
				}
				if dl <= 40 && rec[ot.name] {
					r.emit(true, "frame-2", "c19.frame", []string{hb([]byte(ot.name)), "1", hb(stream)}, []string{"2"})
				}
			}
		}
	}
}

// ---- transports ----

// tamperConn flips one bit of the k-th byte written through it (k counted over the whole connection)
type tamperConn struct {
	net.Conn
	mu  sync.Mutex
	off int
	at  int // -1: never
}

func (t *tamperConn) Write(p []byte) (int, error) {
	t.mu.Lock()
	q := p
	if t.at >= t.off && t.at < t.off+len(p) {
		q = append([]byte(nil), p...)
		q[t.at-t.off] ^= 0x04
	}
	t.off += len(p)
	t.mu.Unlock()
	return t.Conn.Write(q)
}

type blobObj struct{ b []byte }

func (b *blobObj) EncodeTo(e *types.Encoder)   { e.WriteBytes(b.b) }
func (b *blobObj) DecodeFrom(d *types.Decoder) { b.b = d.ReadBytes() }

func withTimeout(d time.Duration, f func()) bool {
	done := make(chan struct{})
	go func() { f(); close(done) }()
	select {
	case <-done:
		return true
	case <-time.After(d):
		return false
	}
}

// RHP2: handshake, then a sequence of messages host->renter and renter->host; optionally one bit flipped in transit
func c19Rhp2(r *Run) {
	for it := 0; it < r.pick(40, 1500); it++ {
		hc, rc := net.Pipe()
		priv := types.GeneratePrivateKey()
		var msgs [][]byte
		nm := 1 + r.rng.IntN(4)
		total := 0
		for i := 0; i < nm; i++ {
			sz := []int{0, 1, 15, 16, 17, 31, 32, 63, 64, 65, 100, 1000, 4095, 4096, 5008, 5024, 70000}[r.rng.IntN(17)]
			switch r.rng.IntN(3) {
			case 0: // every byte count around the minimum-message-size padding threshold (4096 incl. prefix, nonce, tag)
				sz = 4030 + r.rng.IntN(90)
			case 1:
				sz = r.rng.IntN(9000)
			}
			m := make([]byte, sz)
			r.fillBytes(m)
			msgs = append(msgs, m)
			total += sz
		}
		// the host's frames: tamper somewhere after the handshake (the handshake is ~100 bytes), or not at all
		tamper := -1
		if it%2 == 1 {
			tamper = 200 + r.rng.IntN(total+nm*40+1)
		}
		thc := &tamperConn{Conn: hc, at: tamper}
		var got [][]byte
		var rerr, herr error
		raw := r.rng.IntN(3) == 0
		if raw {
			// the streaming reader finalises the MAC itself: ciphertext lengths (flag byte + 8-byte prefix + data) that are
			// multiples of 16, 1 off, and just above the minimum message size
			for i := range msgs {
				if r.rng.IntN(2) == 0 {
					sz := 16*(256+r.rng.IntN(300)) - 9 + []int{0, 0, 1, 15}[r.rng.IntN(4)]
					msgs[i] = make([]byte, sz)
					r.fillBytes(msgs[i])
				}
			}
		}
		ok := withTimeout(20*time.Second, func() {
			var wg sync.WaitGroup
			wg.Add(1)
			go func() {
				defer wg.Done()
				ht, err := rhp2.NewHostTransport(thc, priv)
				if err != nil {
					herr = err
					return
				}
				for _, m := range msgs {
					if err := ht.WriteResponse(&blobObj{m}); err != nil {
						herr = err
						return
					}
				}
			}()
			rt, err := rhp2.NewRenterTransport(rc, priv.PublicKey())
			if err != nil {
				rerr = err
			} else {
				for range msgs {
					if raw {
						rr, err := rt.RawResponse(1 << 20)
						if err != nil {
							rerr = err
							break
						}
						b, err := io.ReadAll(rr)
						if err == nil {
							err = rr.VerifyTag()
						}
						if err != nil {
							rerr = err
							break
						}
						// the raw stream is the encoded object (8-byte length prefix + bytes), padded to the minimum message size
						var o blobObj
						d := types.NewBufDecoder(b)
						o.DecodeFrom(d)
						if d.Err() != nil {
							rerr = d.Err()
							break
						}
						got = append(got, o.b)
					} else {
						var o blobObj
						if err := rt.ReadResponse(&o, 1<<20); err != nil {
							rerr = err
							break
						}
						got = append(got, o.b)
					}
				}
			}
			rc.Close()
			hc.Close()
			wg.Wait()
		})
		r.count("oracle-rhp2-session")
		if !ok {
			r.violate("c19.rhp2-hang", "RHP2 session did not finish (tamper at %d)", tamper)
			hc.Close()
			rc.Close()
			continue
		}
		tampered := tamper >= 0 && tamper < thc.off
		if !tampered {
			if rerr != nil || herr != nil || len(got) != len(msgs) {
				r.violate("c19.rhp2-faithful", "RHP2: an untampered session of %d messages failed: %v / %v (raw=%v)", len(msgs), rerr, herr, raw)
				continue
			}
			for i := range msgs {
				if !bytes.Equal(got[i], msgs[i]) {
					r.violate("c19.rhp2-faithful", "RHP2: message %d (%d bytes) read differs from the one written (raw=%v)", i, len(msgs[i]), raw)
					break
				}
			}
		} else {
			r.count("oracle-rhp2-tampered")
			// every message delivered must be one that was sent, in order; the session must not deliver all of them
			for i := range got {
				if i >= len(msgs) || !bytes.Equal(got[i], msgs[i]) {
					r.violate("c19.rhp2-tamper-accepted", "RHP2: after a bit flip at stream offset %d the renter accepted a message that was not sent (message %d, raw=%v)", tamper, i, raw)
					break
				}
			}
			if rerr == nil && len(got) == len(msgs) {
				r.violate("c19.rhp2-tamper-undetected", "RHP2: a bit flip at stream offset %d of the host's frames went undetected (%d messages, sizes %v, raw=%v)", tamper, len(msgs), func() (s []int) {
					for _, m := range msgs {
						s = append(s, len(m))
					}
					return
				}(), raw)
			}
		}
	}
}

// RHP3: streams over the multiplexer
func c19Rhp3(r *Run) {
	for it := 0; it < r.pick(20, 600); it++ {
		hc, rc := net.Pipe()
		priv := types.GeneratePrivateKey()
		nm := 1 + r.rng.IntN(4)
		var msgs [][]byte
		for i := 0; i < nm; i++ {
			m := make([]byte, []int{0, 1, 100, 1200, 1439, 1440, 1441, 5000, 20000}[r.rng.IntN(9)])
			r.fillBytes(m)
			msgs = append(msgs, m)
		}
		tamper := -1
		if it%2 == 1 {
			tamper = 300 + r.rng.IntN(2000)
		}
		thc := &tamperConn{Conn: hc, at: tamper}
		var got [][]byte
		var rerr, herr error
		renterDone := make(chan struct{})
		errFirst := it%3 == 0 // the first response is an error; the stream must stay usable for what follows
		var firstErr error
		id := types.NewSpecifier("Verif")
		ok := withTimeout(20*time.Second, func() {
			var wg sync.WaitGroup
			wg.Add(1)
			go func() {
				defer wg.Done()
				ht, err := rhp3.NewHostTransport(thc, priv)
				if err != nil {
					herr = err
					return
				}
				defer ht.Close()
				s, err := ht.AcceptStream()
				if err != nil {
					herr = err
					return
				}
				defer s.Close()
				s.SetDeadline(time.Now().Add(10 * time.Second))
				if gotID, err := s.ReadID(); err != nil || gotID != id {
					herr = fmt.Errorf("id: %v %v", gotID, err)
					return
				}
				var req blobObj
				if err := s.ReadRequest(&req, 1<<20); err != nil {
					herr = err
					return
				}
				if errFirst {
					if err := s.WriteResponseErr(errors.New("verif: first response is an error")); err != nil {
						herr = err
						return
					}
				}
				for _, m := range msgs {
					if err := s.WriteResponse(&blobObj{m}); err != nil {
						herr = err
						return
					}
				}
				select {
				case <-renterDone:
				case <-time.After(10 * time.Second):
				}
			}()
			rt, err := rhp3.NewRenterTransport(rc, priv.PublicKey())
			if err != nil {
				rerr = err
				close(renterDone)
			} else {
				s := rt.DialStream()
				s.SetDeadline(time.Now().Add(10 * time.Second))
				if err := s.WriteRequest(id, &blobObj{[]byte("request")}); err != nil {
					rerr = err
				} else {
					if errFirst {
						var o blobObj
						firstErr = s.ReadResponse(&o, 1<<20)
					}
					for range msgs {
						var o blobObj
						if err := s.ReadResponse(&o, 1<<20); err != nil {
							rerr = err
							break
						}
						got = append(got, o.b)
					}
				}
				close(renterDone)
				s.Close()
				rt.Close()
			}
			rc.Close()
			hc.Close()
			wg.Wait()
		})
		r.count("oracle-rhp3-session")
		if !ok {
			r.violate("c19.rhp3-hang", "RHP3 session did not finish (tamper at %d)", tamper)
			hc.Close()
			rc.Close()
			continue
		}
		tampered := tamper >= 0 && tamper < thc.off
		if !tampered {
			if errFirst {
				var re *rhp3.RPCError
				if !errors.As(firstErr, &re) || !strings.Contains(re.Description, "verif: first response is an error") {
					r.violate("c19.rhp3-error-delivery", "RHP3: an error response was not delivered as that error: %v", firstErr)
				}
			}
			if rerr != nil || herr != nil || len(got) != len(msgs) {
				r.violate("c19.rhp3-faithful", "RHP3: an untampered session of %d messages (error first: %v) failed: %v / %v", len(msgs), errFirst, rerr, herr)
				continue
			}
		} else {
			r.count("oracle-rhp3-tampered")
			if rerr == nil && len(got) == len(msgs) {
				r.violate("c19.rhp3-tamper-undetected", "RHP3: a bit flip at stream offset %d of the host's frames went undetected", tamper)
			}
		}
		for i := range got {
			if i >= len(msgs) || !bytes.Equal(got[i], msgs[i]) {
				r.violate("c19.rhp3-faithful", "RHP3: message %d read differs from the one written (tamper %d)", i, tamper)
				break
			}
		}
	}
}

// gateway: handshake over loopback TCP, header mismatches, RPC objects at their declared maxima
func c19Gateway(r *Run) {
	l, err := net.Listen("tcp", "127.0.0.1:0")
	if err != nil {
		r.Notes = append(r.Notes, "loopback TCP not available: gateway handshake not exercised: "+err.Error())
	} else {
		defer l.Close()
		genesis := types.BlockID{1}
		for it := 0; it < r.pick(12, 200); it++ {
			ours := gateway.Header{GenesisID: genesis, UniqueID: gateway.GenerateUniqueID(), NetAddress: "127.0.0.1:1234"}
			theirs := gateway.Header{GenesisID: genesis, UniqueID: gateway.GenerateUniqueID(), NetAddress: "127.0.0.1:4321"}
			want := true
			switch it % 4 {
			case 1:
				theirs.GenesisID = types.BlockID{2}
				want = false
			case 2:
				theirs.UniqueID = ours.UniqueID
				want = false
			}
			hdrs := &gateway.RPCSendHeaders{Index: types.ChainIndex{Height: 5, ID: types.BlockID{9}}, Max: uint64(1 + r.rng.IntN(500))}
			var aerr, derr, rpcErr error
			dialerDone := make(chan struct{})
			var gotReq gateway.RPCSendHeaders
			ok := withTimeout(20*time.Second, func() {
				var wg sync.WaitGroup
				wg.Add(1)
				go func() {
					defer wg.Done()
					c, err := l.Accept()
					if err != nil {
						aerr = err
						return
					}
					defer c.Close()
					t, err := gateway.Accept(c, ours)
					if err != nil {
						aerr = err
						return
					}
					defer t.Close()
					s, err := t.AcceptStream()
					if err != nil {
						aerr = err
						return
					}
					defer s.Close()
					id, err := s.ReadID()
					if err != nil {
						aerr = err
						return
					}
					o := gateway.ObjectForID(id)
					req, isHdr := o.(*gateway.RPCSendHeaders)
					if !isHdr {
						aerr = fmt.Errorf("wrong object for id %v", id)
						return
					}
					if err := s.ReadRequest(req); err != nil {
						aerr = err
						return
					}
					gotReq = *req
					for i := uint64(0); i < req.Max; i++ {
						req.Headers = append(req.Headers, types.BlockHeader{Nonce: i})
					}
					req.Remaining = 7
					aerr = s.WriteResponse(req)
					select {
					case <-dialerDone:
					case <-time.After(10 * time.Second):
					}
				}()
				defer wg.Wait()
				defer close(dialerDone)
				c, err := net.Dial("tcp", l.Addr().String())
				if err != nil {
					derr = err
					return
				}
				defer c.Close()
				t, err := gateway.Dial(c, theirs)
				if err != nil {
					derr = err
					return
				}
				s, err := t.DialStream()
				if err == nil {
					if err = s.WriteID(hdrs); err == nil {
						if err = s.WriteRequest(hdrs); err == nil {
							err = s.ReadResponse(hdrs)
						}
					}
					s.Close()
				}
				rpcErr = err
				t.Close()
			})
			r.count("oracle-gateway-handshake")
			if !ok {
				r.violate("c19.gateway-hang", "gateway session did not finish")
				continue
			}
			if want {
				if aerr != nil || derr != nil || rpcErr != nil {
					r.violate("c19.gateway-faithful", "gateway: handshake + RPC between compatible peers failed: accept %v dial %v rpc %v", aerr, derr, rpcErr)
				} else if gotReq.Index != (types.ChainIndex{Height: 5, ID: types.BlockID{9}}) || uint64(len(hdrs.Headers)) != hdrs.Max || hdrs.Remaining != 7 {
					r.violate("c19.gateway-faithful", "gateway: RPC objects differ after transport (%d headers for max %d)", len(hdrs.Headers), hdrs.Max)
				}
			} else if aerr == nil || derr == nil {
				r.violate("c19.gateway-header", "gateway: handshake with mismatching header (case %d) succeeded: accept %v dial %v", it%4, aerr, derr)
			}
		}
	}
	// declared maxima of gateway RPC objects
	checkLen := func(name string, o gateway.Object, resp bool) {
		var buf bytes.Buffer
		e := types.NewEncoder(&buf)
		limit := 0
		if resp {
			gateway.VerifEncodeResponse(o, e)
			limit = gateway.VerifMaxResponseLen(o)
		} else {
			gateway.VerifEncodeRequest(o, e)
			limit = gateway.VerifMaxRequestLen(o)
		}
		e.Flush()
		r.count("oracle-gateway-maxlen")
		if buf.Len() > limit {
			r.violate("c19.gateway-limit:"+name, "gateway %s at its maximal valid size encodes to %d bytes, the receiver's limit is %d", name, buf.Len(), limit)
		}
	}
	hist := make([]types.BlockID, 32)
	checkLen("RPCSendV2Blocks request", &gateway.RPCSendV2Blocks{History: hist, Max: 100}, false)
	checkLen("RPCSendHeaders request", &gateway.RPCSendHeaders{Max: 1000}, false)
	for _, n := range []uint64{1, 10, 1000, 10000} {
		checkLen(fmt.Sprintf("RPCSendHeaders response (%d)", n), &gateway.RPCSendHeaders{Max: n, Headers: make([]types.BlockHeader, n)}, true)
	}
	checkLen("RPCSendTransactions request", &gateway.RPCSendTransactions{Hashes: make([]types.Hash256, 100)}, false)
	checkLen("RPCRelayV2Header", &gateway.RPCRelayV2Header{}, false)
	checkLen("RPCSendCheckpoint request", &gateway.RPCSendCheckpoint{}, false)
	peers := make([]string, 100)
	for i := range peers {
		peers[i] = "255.255.255.255:65535"
	}
	checkLen("RPCShareNodes response", &gateway.RPCShareNodes{Peers: peers}, true)
	checkLen("RPCDiscoverIP response", &gateway.RPCDiscoverIP{IP: "ffff:ffff:ffff:ffff:ffff:ffff:255.255.255.255"}, true)
}

// the free-sectors response has no crisp bound: a request within the protocol's limits on a large contract
// yields a proof that exceeds the receiver's limit (documented in rhp/v4/encoding.go; known finding F10)
func c19FreeSectorsResponse(r *Run) {
	const n = 1 << 21 // sectors in the contract (8 TiB)
	roots := make([]types.Hash256, n)
	for i := range roots {
		roots[i][0], roots[i][1], roots[i][2] = byte(i), byte(i>>8), byte(i>>16)
	}
	var freed []uint64
	for i := uint64(0); i < n && len(freed) < int(rhp4.MaxSectorBatchSize); i += 8 {
		freed = append(freed, i+uint64(r.rng.IntN(8)))
	}
	req := rhp4.RPCFreeSectorsRequest{Indices: freed, Prices: rhp4.HostPrices{ValidUntil: time.Now().Add(time.Hour)}}
	sk := types.GeneratePrivateKey()
	req.Prices.Signature = sk.SignHash(req.Prices.SigHash())
	if err := req.Validate(sk.PublicKey(), types.V2FileContract{Filesize: n * rhp4.SectorSize, Capacity: n * rhp4.SectorSize}); err != nil {
		r.violate("harness.c19-f10", "free-sectors request does not validate: %v", err)
		return
	}
	th, lh := rhp4.BuildFreeSectorsProof(roots, freed)
	resp := &rhp4.RPCFreeSectorsResponse{OldSubtreeHashes: th, OldLeafHashes: lh}
	var buf bytes.Buffer
	rhp4.WriteResponse(&buf, resp)
	limit := rhp4.VerifMaxLen(resp) + rhp4.VerifMaxLen(new(rhp4.RPCError))
	err := rhp4.ReadResponse(&buf, new(rhp4.RPCFreeSectorsResponse))
	r.count("oracle-free-sectors-response")
	if err != nil {
		r.violate("known.F10", "RPCFreeSectorsResponse for a valid request (%d of %d sectors freed, every 8th) carries %d+%d hashes = %d bytes, the receiver's limit is %d: %v", len(freed), n, len(th), len(lh), 16+32*(len(th)+len(lh))+32, limit, err)
	}
}

func runC19(r *Run) {
	c19Rhp4(r)
	c19FreeSectorsResponse(r)
	c19Rhp2(r)
	c19Rhp3(r)
	c19Gateway(r)
}
