package main

import (
	"sort"
	"time"

	"go.sia.tech/core/consensus"
	"go.sia.tech/core/types"
)

// ---- honest transaction builders ----

type blockPlan struct {
	c       *lchain
	txns    []types.Transaction
	v2txns  []types.V2Transaction
	usedSC  map[types.SiacoinOutputID]bool
	usedSF  map[types.SiafundOutputID]bool
	usedFC  map[types.FileContractID]bool
	newFile map[int][]byte // v1 txn index -> file data of its contract
	newFile2 map[int][]byte
}

func (c *lchain) plan() *blockPlan {
	return &blockPlan{c: c, usedSC: map[types.SiacoinOutputID]bool{}, usedSF: map[types.SiafundOutputID]bool{}, usedFC: map[types.FileContractID]bool{}, newFile: map[int][]byte{}, newFile2: map[int][]byte{}}
}

func sortedSC(m map[types.SiacoinOutputID]types.SiacoinElement) []types.SiacoinElement {
	var out []types.SiacoinElement
	for _, e := range m {
		out = append(out, e)
	}
	sort.Slice(out, func(i, j int) bool { return out[i].StateElement.LeafIndex < out[j].StateElement.LeafIndex })
	return out
}

type ucOwner struct {
	uc  types.UnlockConditions
	key int // -1: no signature needed
}

var specialUCs = map[types.Address]ucOwner{}

// ucFor returns the unlock conditions (and signing key) for a v1 address of the wallet, incl. timelocked / anyone
func (c *lchain) ucFor(a types.Address) (types.UnlockConditions, int, bool) {
	if o, ok := specialUCs[a]; ok {
		return o.uc, o.key, true
	}
	for k := range c.keys {
		if a == c.addr1(k) {
			return c.uc(k), k, true
		}
	}
	return types.UnlockConditions{}, 0, false
}

// keyOf returns which wallet key controls an address, and whether it is a v1 (unlock conditions) address
func (c *lchain) keyOf(a types.Address) (int, bool, bool) {
	for k := range c.keys {
		if a == c.addr1(k) {
			return k, true, true
		}
		if a == c.addr2(k) {
			return k, false, true
		}
	}
	return 0, false, false
}

func (p *blockPlan) pickSC(min types.Currency, v1only bool) (types.SiacoinElement, int, bool, bool) {
	c := p.c
	es := sortedSC(c.st().sces)
	start := 0
	if len(es) > 0 {
		start = c.r.rng.IntN(len(es))
	}
	for i := range es {
		e := es[(start+i)%len(es)]
		k, v1, ok := c.keyOf(e.SiacoinOutput.Address)
		if !ok || p.usedSC[e.ID] || e.MaturityHeight > c.child() || e.SiacoinOutput.Value.Cmp(min) < 0 || (v1only && !v1) {
			continue
		}
		p.usedSC[e.ID] = true
		return e.Copy(), k, v1, true
	}
	return types.SiacoinElement{}, 0, false, false
}

func (c *lchain) signV1(txn *types.Transaction, keyFor map[types.Hash256]int, partial bool) {
	cs := c.cs()
	txn.Signatures = nil
	var ids []types.Hash256
	for _, in := range txn.SiacoinInputs {
		if in.UnlockConditions.SignaturesRequired == 0 {
			continue
		}
		ids = append(ids, types.Hash256(in.ParentID))
	}
	for _, in := range txn.SiafundInputs {
		ids = append(ids, types.Hash256(in.ParentID))
	}
	for _, r := range txn.FileContractRevisions {
		ids = append(ids, types.Hash256(r.ParentID))
	}
	for _, id := range ids {
		cf := types.CoveredFields{WholeTransaction: true}
		if partial {
			cf = types.CoveredFields{}
			for i := range txn.SiacoinInputs {
				cf.SiacoinInputs = append(cf.SiacoinInputs, uint64(i))
			}
			for i := range txn.SiacoinOutputs {
				cf.SiacoinOutputs = append(cf.SiacoinOutputs, uint64(i))
			}
			for i := range txn.MinerFees {
				cf.MinerFees = append(cf.MinerFees, uint64(i))
			}
			for i := range txn.FileContracts {
				cf.FileContracts = append(cf.FileContracts, uint64(i))
			}
			for i := range txn.FileContractRevisions {
				cf.FileContractRevisions = append(cf.FileContractRevisions, uint64(i))
			}
			for i := range txn.SiafundInputs {
				cf.SiafundInputs = append(cf.SiafundInputs, uint64(i))
			}
			for i := range txn.SiafundOutputs {
				cf.SiafundOutputs = append(cf.SiafundOutputs, uint64(i))
			}
			for i := range txn.ArbitraryData {
				cf.ArbitraryData = append(cf.ArbitraryData, uint64(i))
			}
		}
		txn.Signatures = append(txn.Signatures, types.TransactionSignature{ParentID: id, CoveredFields: cf})
	}
	for i := range txn.Signatures {
		var sh types.Hash256
		if partial {
			sh = cs.PartialSigHash(*txn, txn.Signatures[i].CoveredFields)
		} else {
			sh = cs.WholeSigHash(*txn, txn.Signatures[i].ParentID, 0, 0, nil)
		}
		s := c.keys[keyFor[txn.Signatures[i].ParentID]].SignHash(sh)
		txn.Signatures[i].Signature = s[:]
	}
}

func (p *blockPlan) v1Pay() bool {
	c := p.c
	in, k, _, ok := p.pickSC(types.Siacoins(2), true)
	if !ok {
		return false
	}
	fee := types.NewCurrency64(1 + c.r.rng.Uint64N(100000))
	v := in.SiacoinOutput.Value.Sub(fee)
	a := v.Div64(uint64(2 + c.r.rng.IntN(3)))
	to := c.r.rng.IntN(3)
	txn := types.Transaction{SiacoinInputs: []types.SiacoinInput{{ParentID: in.ID, UnlockConditions: c.uc(k)}},
		SiacoinOutputs: []types.SiacoinOutput{{Value: a, Address: c.addr1(to)}, {Value: v.Sub(a), Address: c.addr1(k)}}, MinerFees: []types.Currency{fee}}
	keyFor := map[types.Hash256]int{types.Hash256(in.ID): k}
	// sometimes a second input
	if c.r.rng.IntN(3) == 0 {
		if in2, k2, _, ok := p.pickSC(types.Siacoins(1), true); ok {
			txn.SiacoinInputs = append(txn.SiacoinInputs, types.SiacoinInput{ParentID: in2.ID, UnlockConditions: c.uc(k2)})
			txn.SiacoinOutputs = append(txn.SiacoinOutputs, types.SiacoinOutput{Value: in2.SiacoinOutput.Value, Address: c.addr1(k2)})
			keyFor[types.Hash256(in2.ID)] = k2
		}
	}
	if c.child() >= c.n.HardforkV2.AllowHeight && c.r.rng.IntN(2) == 0 {
		// move funds to a v2 (policy) address
		txn.SiacoinOutputs[0].Address = c.addr2(to)
	} else {
		switch c.r.rng.IntN(6) {
		case 0: // anyone-can-spend (no signatures required)
			uc := types.UnlockConditions{}
			specialUCs[uc.UnlockHash()] = ucOwner{uc, -1}
			txn.SiacoinOutputs[0].Address = uc.UnlockHash()
		case 1: // timelocked conditions
			uc := c.uc(to)
			uc.Timelock = c.child() + uint64(1+c.r.rng.IntN(3))
			specialUCs[uc.UnlockHash()] = ucOwner{uc, to}
			txn.SiacoinOutputs[0].Address = uc.UnlockHash()
		}
	}
	c.signV1(&txn, keyFor, c.r.rng.IntN(4) == 0)
	p.txns = append(p.txns, txn)
	return true
}

// v1SpendSpecial spends an output held under anyone-can-spend or (expired) timelocked conditions
func (p *blockPlan) v1SpendSpecial() bool {
	c := p.c
	for _, e := range sortedSC(c.st().sces) {
		o, ok := specialUCs[e.SiacoinOutput.Address]
		if !ok || p.usedSC[e.ID] || e.MaturityHeight > c.child() || o.uc.Timelock > c.child() || e.SiacoinOutput.Value.IsZero() {
			continue
		}
		p.usedSC[e.ID] = true
		txn := types.Transaction{SiacoinInputs: []types.SiacoinInput{{ParentID: e.ID, UnlockConditions: o.uc}}, SiacoinOutputs: []types.SiacoinOutput{{Value: e.SiacoinOutput.Value, Address: c.addr1(0)}}}
		if o.key >= 0 {
			c.signV1(&txn, map[types.Hash256]int{types.Hash256(e.ID): o.key}, false)
			c.r.count("gen-spend-timelocked")
		} else {
			c.r.count("gen-spend-anyone")
		}
		p.txns = append(p.txns, txn)
		return true
	}
	return false
}

// v1ReviseTwice revises one contract in two transactions of the same block
func (p *blockPlan) v1ReviseTwice() bool {
	c := p.c
	var ids []types.FileContractID
	for id := range c.st().fces {
		ids = append(ids, id)
	}
	sort.Slice(ids, func(i, j int) bool { return string(ids[i][:]) < string(ids[j][:]) })
	for _, id := range ids {
		e := c.st().fces[id]
		k, _, ok := c.keyOf(e.FileContract.UnlockHash)
		if !ok || p.usedFC[id] || e.FileContract.WindowStart < c.child() || e.FileContract.RevisionNumber > 1<<60 {
			continue
		}
		p.usedFC[id] = true
		rev := e.FileContract
		for n := 0; n < 2; n++ {
			rev.RevisionNumber += 1 + c.r.rng.Uint64N(3)
			rev.ValidProofOutputs = append([]types.SiacoinOutput(nil), rev.ValidProofOutputs...)
			d := rev.ValidProofOutputs[0].Value.Div64(5)
			rev.ValidProofOutputs[0].Value = rev.ValidProofOutputs[0].Value.Sub(d)
			rev.ValidProofOutputs[1].Value = rev.ValidProofOutputs[1].Value.Add(d)
			txn := types.Transaction{FileContractRevisions: []types.FileContractRevision{{ParentID: id, UnlockConditions: c.uc(k), FileContract: rev}}}
			c.signV1(&txn, map[types.Hash256]int{types.Hash256(id): k}, false)
			p.txns = append(p.txns, txn)
		}
		return true
	}
	return false
}

func (p *blockPlan) v1Form() bool {
	c := p.c
	in, k, _, ok := p.pickSC(types.Siacoins(120), true)
	if !ok {
		return false
	}
	size := []int{0, 1, 63, 64, 65, 128, 129, 200, 256, 320, 1000}[c.r.rng.IntN(11)]
	if c.child() < c.n.HardforkStorageProof.Height+8 && size%64 == 0 {
		size++ // eras before the storage-proof fork cannot prove aligned/empty files (known finding F19)
	}
	data := make([]byte, size)
	c.r.fillBytes(data)
	payout := types.Siacoins(uint32(10 + c.r.rng.IntN(50))).Add(types.NewCurrency64(c.r.rng.Uint64N(100000)))
	fc := types.FileContract{Filesize: uint64(size), FileMerkleRoot: naiveFileRoot(fileLeafHashes(data)), WindowStart: c.child() + uint64(c.r.rng.IntN(4)), Payout: payout, UnlockHash: c.addr1(k)}
	if c.child()%3 == 1 {
		// sometimes revisable only under timelocked conditions, for the boundary probes of C08
		uc := c.uc(k)
		uc.Timelock = c.child() + 1 + (c.child()/3)%2
		specialUCs[uc.UnlockHash()] = ucOwner{uc, k}
		fc.UnlockHash = uc.UnlockHash()
		fc.WindowStart = uc.Timelock + c.child()%2
		c.r.count("gen-v1-contract-timelocked")
	}
	fc.WindowEnd = fc.WindowStart + 1 + uint64(c.r.rng.IntN(4))
	tax := c.cs().FileContractTax(fc)
	vs := payout.Sub(tax)
	fc.ValidProofOutputs = []types.SiacoinOutput{{Value: vs.Div64(2), Address: c.addr1(k)}, {Value: vs.Sub(vs.Div64(2)), Address: c.addr1((k + 1) % 3)}}
	fc.MissedProofOutputs = []types.SiacoinOutput{{Value: vs.Div64(3), Address: c.addr1(k)}, {Value: vs.Sub(vs.Div64(3)), Address: types.VoidAddress}}
	txn := types.Transaction{SiacoinInputs: []types.SiacoinInput{{ParentID: in.ID, UnlockConditions: c.uc(k)}}, FileContracts: []types.FileContract{fc},
		SiacoinOutputs: []types.SiacoinOutput{{Value: in.SiacoinOutput.Value.Sub(payout), Address: c.addr1(k)}}}
	c.signV1(&txn, map[types.Hash256]int{types.Hash256(in.ID): k}, false)
	c.files[txn.FileContractID(0)] = data
	p.txns = append(p.txns, txn)
	return true
}

func (p *blockPlan) v1Revise() bool {
	c := p.c
	var ids []types.FileContractID
	for id := range c.st().fces {
		ids = append(ids, id)
	}
	sort.Slice(ids, func(i, j int) bool { return string(ids[i][:]) < string(ids[j][:]) })
	for _, id := range ids {
		e := c.st().fces[id]
		k, _, ok := c.keyOf(e.FileContract.UnlockHash)
		if !ok || p.usedFC[id] || e.FileContract.WindowStart < c.child() || e.FileContract.RevisionNumber > 1<<60 {
			continue
		}
		p.usedFC[id] = true
		rev := e.FileContract
		rev.RevisionNumber += 1 + c.r.rng.Uint64N(5)
		rev.ValidProofOutputs = append([]types.SiacoinOutput(nil), rev.ValidProofOutputs...)
		d := rev.ValidProofOutputs[0].Value.Div64(4)
		rev.ValidProofOutputs[0].Value = rev.ValidProofOutputs[0].Value.Sub(d)
		rev.ValidProofOutputs[1].Value = rev.ValidProofOutputs[1].Value.Add(d)
		if c.r.rng.IntN(3) == 0 && rev.WindowStart > c.child() {
			rev.WindowEnd++
		}
		txn := types.Transaction{FileContractRevisions: []types.FileContractRevision{{ParentID: id, UnlockConditions: c.uc(k), FileContract: rev}}}
		c.signV1(&txn, map[types.Hash256]int{types.Hash256(id): k}, false)
		p.txns = append(p.txns, txn)
		return true
	}
	return false
}

func (c *lchain) v1Proof(id types.FileContractID, e types.FileContractElement) (types.StorageProof, bool) {
	data, ok := c.files[id]
	if !ok || e.FileContract.WindowStart >= uint64(len(c.blocks)) {
		return types.StorageProof{}, false
	}
	windowID := c.blocks[e.FileContract.WindowStart].ID()
	idx := c.cs().StorageProofLeafIndex(uint64(len(data)), windowID, id)
	sp := types.StorageProof{ParentID: id}
	if len(data) > 0 {
		copy(sp.Leaf[:], data[idx*64:])
		sp.Proof = naiveFileProof(fileLeafHashes(data), int(idx))
	}
	return sp, true
}

func (p *blockPlan) v1Prove() bool {
	c := p.c
	var ids []types.FileContractID
	for id := range c.st().fces {
		ids = append(ids, id)
	}
	sort.Slice(ids, func(i, j int) bool { return string(ids[i][:]) < string(ids[j][:]) })
	for _, id := range ids {
		e := c.st().fces[id]
		if p.usedFC[id] || e.FileContract.WindowStart >= c.child() || e.FileContract.WindowEnd < c.child() {
			continue
		}
		sp, ok := c.v1Proof(id, e)
		if !ok {
			continue
		}
		p.usedFC[id] = true
		p.txns = append(p.txns, types.Transaction{StorageProofs: []types.StorageProof{sp}})
		return true
	}
	return false
}

// v1ReviseThenProve: in the one block whose height equals the contract's window start, a transaction revises the
// contract (changing the payout split) and a later transaction of the same block supplies the storage proof; the
// window ID is then the parent block's ID, and the payouts must be those of the revision
func (p *blockPlan) v1ReviseThenProve() bool {
	c := p.c
	var ids []types.FileContractID
	for id := range c.st().fces {
		ids = append(ids, id)
	}
	sort.Slice(ids, func(i, j int) bool { return string(ids[i][:]) < string(ids[j][:]) })
	for _, id := range ids {
		e := c.st().fces[id]
		k, _, ok := c.keyOf(e.FileContract.UnlockHash)
		data, okd := c.files[id]
		if !ok || !okd || p.usedFC[id] || e.FileContract.WindowStart != c.child() || e.FileContract.RevisionNumber > 1<<60 {
			continue
		}
		p.usedFC[id] = true
		rev := e.FileContract
		rev.RevisionNumber += 1 + c.r.rng.Uint64N(5)
		rev.ValidProofOutputs = append([]types.SiacoinOutput(nil), rev.ValidProofOutputs...)
		d := rev.ValidProofOutputs[0].Value.Div64(3)
		rev.ValidProofOutputs[0].Value = rev.ValidProofOutputs[0].Value.Sub(d)
		rev.ValidProofOutputs[1].Value = rev.ValidProofOutputs[1].Value.Add(d)
		txn := types.Transaction{FileContractRevisions: []types.FileContractRevision{{ParentID: id, UnlockConditions: c.uc(k), FileContract: rev}}}
		c.signV1(&txn, map[types.Hash256]int{types.Hash256(id): k}, false)
		idx := c.cs().StorageProofLeafIndex(uint64(len(data)), c.cs().Index.ID, id)
		sp := types.StorageProof{ParentID: id}
		if len(data) > 0 {
			copy(sp.Leaf[:], data[idx*64:])
			sp.Proof = naiveFileProof(fileLeafHashes(data), int(idx))
		}
		p.txns = append(p.txns, txn, types.Transaction{StorageProofs: []types.StorageProof{sp}})
		c.r.count("gen-v1-revise-then-prove")
		return true
	}
	return false
}

func (p *blockPlan) v1Siafunds() bool {
	c := p.c
	var ids []types.SiafundOutputID
	for id := range c.st().sfes {
		ids = append(ids, id)
	}
	sort.Slice(ids, func(i, j int) bool { return string(ids[i][:]) < string(ids[j][:]) })
	for _, id := range ids {
		e := c.st().sfes[id]
		k, v1, ok := c.keyOf(e.SiafundOutput.Address)
		if !ok || !v1 || p.usedSF[id] {
			continue
		}
		p.usedSF[id] = true
		a := e.SiafundOutput.Value / 2
		txn := types.Transaction{SiafundInputs: []types.SiafundInput{{ParentID: id, UnlockConditions: c.uc(k), ClaimAddress: c.addr1((k + 1) % 3)}}}
		if a > 0 {
			txn.SiafundOutputs = append(txn.SiafundOutputs, types.SiafundOutput{Value: a, Address: c.addr1(c.r.rng.IntN(3))})
			if c.child()%2 == 0 {
				// sometimes to timelocked conditions, for the boundary probes of C08
				uc := c.uc(k)
				uc.Timelock = c.child() + 1 + c.child()%3
				specialUCs[uc.UnlockHash()] = ucOwner{uc, k}
				txn.SiafundOutputs[0].Address = uc.UnlockHash()
				c.r.count("gen-siafunds-to-timelocked")
			}
		}
		txn.SiafundOutputs = append(txn.SiafundOutputs, types.SiafundOutput{Value: e.SiafundOutput.Value - a, Address: c.addr1(k)})
		c.signV1(&txn, map[types.Hash256]int{types.Hash256(id): k}, false)
		p.txns = append(p.txns, txn)
		return true
	}
	return false
}

func (p *blockPlan) v1Foundation() bool {
	c := p.c
	if c.child() < c.n.HardforkFoundation.Height {
		return false
	}
	// spend an output of the current management address (key 3), whole-transaction signature
	for _, e := range sortedSC(c.st().sces) {
		if p.usedSC[e.ID] || e.MaturityHeight > c.child() || e.SiacoinOutput.Address != c.cs().FoundationManagementAddress {
			continue
		}
		k, v1, ok := c.keyOf(e.SiacoinOutput.Address)
		if !ok || !v1 {
			continue
		}
		p.usedSC[e.ID] = true
		upd := types.FoundationAddressUpdate{NewPrimary: c.addr1(3), NewFailsafe: c.addr1(3)}
		var buf []byte
		buf = append(buf, types.SpecifierFoundation[:]...)
		buf = append(buf, upd.NewPrimary[:]...)
		buf = append(buf, upd.NewFailsafe[:]...)
		txn := types.Transaction{SiacoinInputs: []types.SiacoinInput{{ParentID: e.ID, UnlockConditions: c.uc(k)}},
			SiacoinOutputs: []types.SiacoinOutput{{Value: e.SiacoinOutput.Value, Address: c.addr1(3)}}, ArbitraryData: [][]byte{buf}}
		c.signV1(&txn, map[types.Hash256]int{types.Hash256(e.ID): k}, false)
		p.txns = append(p.txns, txn)
		return true
	}
	return false
}

// ---- v2 ----

// policyFor builds a policy that key k can satisfy, with its address
func (c *lchain) policyFor(k int, kind int) types.SpendPolicy {
	pk := types.PolicyPublicKey(c.keys[k].PublicKey())
	switch kind {
	case 1:
		return types.PolicyThreshold(2, []types.SpendPolicy{pk, types.PolicyAbove(1), types.PolicyPublicKey(c.keys[(k+1)%4].PublicKey())})
	case 2:
		h, _ := c.newPreimage()
		return types.PolicyThreshold(2, []types.SpendPolicy{pk, types.PolicyHash(h)})
	case 3:
		return types.PolicyThreshold(1, []types.SpendPolicy{types.PolicyAfter(time.Unix(100, 0)), pk})
	case 4: // spendable only from a later height (compared with the parent block's height)
		return types.PolicyThreshold(2, []types.SpendPolicy{pk, types.PolicyAbove(c.child() + uint64(1+c.r.rng.IntN(3)))})
	case 5: // spendable only after a time (compared with the median timestamp)
		return types.PolicyThreshold(2, []types.SpendPolicy{pk, types.PolicyAfter(c.ts.Add(time.Duration(200+c.r.rng.IntN(3000)) * time.Second))})
	}
	return pk
}

// policyUnlocked: do the height/time locks of a wallet policy allow spending in the child block?
func (c *lchain) policyUnlocked(p types.SpendPolicy) bool {
	th, ok := p.Type.(types.PolicyTypeThreshold)
	if !ok {
		return true
	}
	if int(th.N) < len(th.Of) {
		return true // the lock can be left opaque
	}
	for _, sp := range th.Of {
		switch x := sp.Type.(type) {
		case types.PolicyTypeAbove:
			if c.cs().Index.Height < uint64(x) {
				return false
			}
		case types.PolicyTypeAfter:
			if !time.Unix(medianSeconds(c.cs()), 0).After(time.Time(x)) {
				return false
			}
		}
	}
	return true
}

// satisfy produces the satisfied form of a policy created by policyFor (revealing what is needed, rest opaque)
func (c *lchain) satisfy(p types.SpendPolicy, k int, sigHash types.Hash256) types.SatisfiedPolicy {
	sig := c.keys[k].SignHash(sigHash)
	switch pt := p.Type.(type) {
	case types.PolicyTypePublicKey:
		return types.SatisfiedPolicy{Policy: p, Signatures: []types.Signature{sig}}
	case types.PolicyTypeUnlockConditions:
		return types.SatisfiedPolicy{Policy: p, Signatures: []types.Signature{sig}}
	case types.PolicyTypeThreshold:
		of := append([]types.SpendPolicy(nil), pt.Of...)
		sp := types.SatisfiedPolicy{}
		need := int(pt.N)
		for i := range of {
			switch x := of[i].Type.(type) {
			case types.PolicyTypePublicKey:
				if need > 0 && types.PublicKey(x) == c.keys[k].PublicKey() {
					sp.Signatures = append(sp.Signatures, sig)
					need--
					continue
				}
			case types.PolicyTypeHash:
				if need > 0 {
					sp.Preimages = append(sp.Preimages, c.preimages[types.Hash256(x)])
					need--
					continue
				}
			case types.PolicyTypeAbove, types.PolicyTypeAfter:
				if need > 0 && int(pt.N) == len(pt.Of) {
					need--
					continue
				}
				if _, isAbove := x.(types.PolicyTypeAbove); isAbove && need > 0 {
					need--
					continue
				}
			}
			of[i] = types.PolicyOpaque(of[i])
		}
		sp.Policy = types.PolicyThreshold(pt.N, of)
		return sp
	}
	return types.SatisfiedPolicy{Policy: p}
}

type v2owner struct {
	policy types.SpendPolicy
	key    int
}

// ownerOf finds how to spend an address in v2: legacy unlock conditions or one of the wallet's policies
func (c *lchain) ownerOf(a types.Address, policies map[types.Address]v2owner) (v2owner, bool) {
	if o, ok := policies[a]; ok {
		return o, true
	}
	if o, ok := specialUCs[a]; ok && o.key >= 0 && o.uc.Timelock <= c.cs().Index.Height {
		return v2owner{types.SpendPolicy{Type: types.PolicyTypeUnlockConditions(o.uc)}, o.key}, true
	}
	for k := range c.keys {
		if a == c.addr1(k) {
			return v2owner{types.SpendPolicy{Type: types.PolicyTypeUnlockConditions(c.uc(k))}, k}, true
		}
		if a == c.addr2(k) {
			return v2owner{types.PolicyPublicKey(c.keys[k].PublicKey()), k}, true
		}
	}
	return v2owner{}, false
}

func (c *lchain) signV2Inputs(txn *types.V2Transaction, owners []v2owner, sfOwners []v2owner) {
	for i := range txn.SiacoinInputs {
		txn.SiacoinInputs[i].SatisfiedPolicy = types.SatisfiedPolicy{Policy: owners[i].policy}
	}
	for i := range txn.SiafundInputs {
		txn.SiafundInputs[i].SatisfiedPolicy = types.SatisfiedPolicy{Policy: sfOwners[i].policy}
	}
	h := c.cs().InputSigHash(*txn)
	for i := range txn.SiacoinInputs {
		txn.SiacoinInputs[i].SatisfiedPolicy = c.satisfy(owners[i].policy, owners[i].key, h)
	}
	for i := range txn.SiafundInputs {
		txn.SiafundInputs[i].SatisfiedPolicy = c.satisfy(sfOwners[i].policy, sfOwners[i].key, h)
	}
}

func (c *lchain) signContract(fc *types.V2FileContract, rk, hk int) {
	h := c.cs().ContractSigHash(*fc)
	fc.RenterSignature = c.keys[rk].SignHash(h)
	fc.HostSignature = c.keys[hk].SignHash(h)
}

var v2policies = map[types.Address]v2owner{}

func (p *blockPlan) pickV2(min types.Currency) (types.SiacoinElement, v2owner, bool) {
	c := p.c
	es := sortedSC(c.st().sces)
	start := 0
	if len(es) > 0 {
		start = c.r.rng.IntN(len(es))
	}
	for i := range es {
		e := es[(start+i)%len(es)]
		o, ok := c.ownerOf(e.SiacoinOutput.Address, v2policies)
		if !ok || p.usedSC[e.ID] || e.MaturityHeight > c.child() || e.SiacoinOutput.Value.Cmp(min) < 0 || !c.policyUnlocked(o.policy) {
			continue
		}
		p.usedSC[e.ID] = true
		return e.Copy(), o, true
	}
	return types.SiacoinElement{}, v2owner{}, false
}

func (p *blockPlan) v2Pay() bool {
	c := p.c
	in, o, ok := p.pickV2(types.Siacoins(2))
	if !ok {
		return false
	}
	fee := types.NewCurrency64(1 + c.r.rng.Uint64N(100000))
	v := in.SiacoinOutput.Value.Sub(fee)
	a := v.Div64(uint64(2 + c.r.rng.IntN(3)))
	k := c.r.rng.IntN(3)
	pol := c.policyFor(k, c.r.rng.IntN(6))
	v2policies[pol.Address()] = v2owner{pol, k}
	txn := types.V2Transaction{SiacoinInputs: []types.V2SiacoinInput{{Parent: in}},
		SiacoinOutputs: []types.SiacoinOutput{{Value: a, Address: pol.Address()}, {Value: v.Sub(a), Address: c.addr2(o.key % 3)}}, MinerFee: fee}
	owners := []v2owner{o}
	c.signV2Inputs(&txn, owners, nil)
	p.v2txns = append(p.v2txns, txn)
	// ephemeral follow-up: spend the first output in the same block
	if c.r.rng.IntN(3) == 0 && c.policyUnlocked(pol) {
		txid := txn.ID()
		par := types.SiacoinElement{ID: txn.SiacoinOutputID(txid, 0), SiacoinOutput: txn.SiacoinOutputs[0], StateElement: types.StateElement{LeafIndex: types.UnassignedLeafIndex}}
		t2 := types.V2Transaction{SiacoinInputs: []types.V2SiacoinInput{{Parent: par}}, SiacoinOutputs: []types.SiacoinOutput{{Value: a, Address: c.addr2(k)}}}
		c.signV2Inputs(&t2, []v2owner{{pol, k}}, nil)
		p.v2txns = append(p.v2txns, t2)
	}
	return true
}

func (p *blockPlan) v2Siafunds() bool {
	c := p.c
	var ids []types.SiafundOutputID
	for id := range c.st().sfes {
		ids = append(ids, id)
	}
	sort.Slice(ids, func(i, j int) bool { return string(ids[i][:]) < string(ids[j][:]) })
	for _, id := range ids {
		e := c.st().sfes[id]
		o, ok := c.ownerOf(e.SiafundOutput.Address, v2policies)
		if !ok || p.usedSF[id] {
			continue
		}
		p.usedSF[id] = true
		a := e.SiafundOutput.Value / 2
		txn := types.V2Transaction{SiafundInputs: []types.V2SiafundInput{{Parent: e.Copy(), ClaimAddress: c.addr2(o.key % 3)}}}
		if a > 0 {
			txn.SiafundOutputs = append(txn.SiafundOutputs, types.SiafundOutput{Value: a, Address: c.addr2(c.r.rng.IntN(3))})
		}
		txn.SiafundOutputs = append(txn.SiafundOutputs, types.SiafundOutput{Value: e.SiafundOutput.Value - a, Address: c.addr1(o.key % 3)})
		c.signV2Inputs(&txn, nil, []v2owner{o})
		p.v2txns = append(p.v2txns, txn)
		return true
	}
	return false
}

func (p *blockPlan) v2Form() bool {
	c := p.c
	in, o, ok := p.pickV2(types.Siacoins(120))
	if !ok {
		return false
	}
	size := []int{0, 1, 64, 65, 129, 191, 257, 321, 385, 449, 577, 700, 1000}[c.r.rng.IntN(13)]
	data := make([]byte, size)
	c.r.fillBytes(data)
	rk, hk := c.r.rng.IntN(3), c.r.rng.IntN(3)
	fc := types.V2FileContract{
		Capacity: uint64(size) + uint64(c.r.rng.IntN(2))*64, Filesize: uint64(size), FileMerkleRoot: naiveFileRoot(fileLeafHashes(data)),
		ProofHeight: c.child() + uint64(1+c.r.rng.IntN(4)),
		RenterOutput:    types.SiacoinOutput{Value: types.Siacoins(uint32(5 + c.r.rng.IntN(20))), Address: c.addr2(rk)},
		HostOutput:      types.SiacoinOutput{Value: types.Siacoins(uint32(10 + c.r.rng.IntN(30))), Address: c.addr2(hk)},
		RenterPublicKey: c.keys[rk].PublicKey(), HostPublicKey: c.keys[hk].PublicKey(),
	}
	// a few odd hastings, so that the 4% tax (and with it the siafund pool) is not a multiple of the siafund count: a claim
	// then depends on dividing before multiplying (C01)
	fc.RenterOutput.Value = fc.RenterOutput.Value.Add(types.NewCurrency64(c.child()*7919%100000 + 1))
	fc.ExpirationHeight = fc.ProofHeight + uint64(1+c.r.rng.IntN(3))
	fc.TotalCollateral = fc.HostOutput.Value.Div64(2)
	fc.MissedHostValue = fc.HostOutput.Value.Sub(fc.TotalCollateral.Div64(uint64(1 + c.r.rng.IntN(3))))
	c.signContract(&fc, rk, hk)
	cost := fc.RenterOutput.Value.Add(fc.HostOutput.Value).Add(c.cs().V2FileContractTax(fc))
	txn := types.V2Transaction{SiacoinInputs: []types.V2SiacoinInput{{Parent: in}}, FileContracts: []types.V2FileContract{fc},
		SiacoinOutputs: []types.SiacoinOutput{{Value: in.SiacoinOutput.Value.Sub(cost), Address: c.addr2(o.key % 3)}}}
	c.signV2Inputs(&txn, []v2owner{o}, nil)
	c.files[txn.V2FileContractID(txn.ID(), 0)] = data
	p.v2txns = append(p.v2txns, txn)
	return true
}

func (c *lchain) keyIdx(pk types.PublicKey) int {
	for k := range c.keys {
		if c.keys[k].PublicKey() == pk {
			return k
		}
	}
	return 0
}

func (p *blockPlan) sortedV2() []types.V2FileContractElement {
	var out []types.V2FileContractElement
	for _, e := range p.c.st().v2fces {
		out = append(out, e)
	}
	sort.Slice(out, func(i, j int) bool { return out[i].StateElement.LeafIndex < out[j].StateElement.LeafIndex })
	return out
}

func (p *blockPlan) v2Revise() bool {
	c := p.c
	for _, e := range p.sortedV2() {
		fc := e.V2FileContract
		if p.usedFC[e.ID] || fc.ProofHeight < c.child() || fc.RevisionNumber > 1<<60 {
			continue
		}
		p.usedFC[e.ID] = true
		rev := fc
		rev.RevisionNumber += 1 + c.r.rng.Uint64N(3)
		// shift a little value from renter to host; reduce the host's missed value
		d := rev.RenterOutput.Value.Div64(10)
		rev.RenterOutput.Value = rev.RenterOutput.Value.Sub(d)
		rev.HostOutput.Value = rev.HostOutput.Value.Add(d)
		if c.r.rng.IntN(2) == 0 {
			rev.MissedHostValue = rev.MissedHostValue.Sub(rev.MissedHostValue.Div64(8))
		}
		rk, hk := c.keyIdx(fc.RenterPublicKey), c.keyIdx(fc.HostPublicKey)
		if c.r.rng.IntN(4) == 0 { // key rotation: signed by the *current* keys
			rev.RenterPublicKey = c.keys[(rk+1)%3].PublicKey()
		}
		c.signContract(&rev, rk, hk)
		p.v2txns = append(p.v2txns, types.V2Transaction{FileContractRevisions: []types.V2FileContractRevision{{Parent: e.Copy(), Revision: rev}}})
		return true
	}
	return false
}

// v2ReviseTwice: two revisions of one contract in one block; the first hands the renter key over,
// so the second must be signed by the new key (the contract as it currently stands)
func (p *blockPlan) v2ReviseTwice() bool {
	c := p.c
	for _, e := range p.sortedV2() {
		fc := e.V2FileContract
		if p.usedFC[e.ID] || fc.ProofHeight < c.child() || fc.RevisionNumber > 1<<60 {
			continue
		}
		p.usedFC[e.ID] = true
		rk, hk := c.keyIdx(fc.RenterPublicKey), c.keyIdx(fc.HostPublicKey)
		nk := (rk + 1) % 3
		rev1 := fc
		rev1.RevisionNumber++
		rev1.RenterPublicKey = c.keys[nk].PublicKey()
		c.signContract(&rev1, rk, hk)
		rev2 := rev1
		rev2.RevisionNumber++
		c.signContract(&rev2, nk, hk)
		p.v2txns = append(p.v2txns,
			types.V2Transaction{FileContractRevisions: []types.V2FileContractRevision{{Parent: e.Copy(), Revision: rev1}}},
			types.V2Transaction{FileContractRevisions: []types.V2FileContractRevision{{Parent: e.Copy(), Revision: rev2}}})
		return true
	}
	return false
}

func (p *blockPlan) v2Resolve() bool {
	c := p.c
	cs := c.cs()
	for _, e := range p.sortedV2() {
		fc := e.V2FileContract
		if p.usedFC[e.ID] {
			continue
		}
		rk, hk := c.keyIdx(fc.RenterPublicKey), c.keyIdx(fc.HostPublicKey)
		switch {
		case c.child() > fc.ExpirationHeight:
			p.usedFC[e.ID] = true
			p.v2txns = append(p.v2txns, types.V2Transaction{FileContractResolutions: []types.V2FileContractResolution{{Parent: e.Copy(), Resolution: &types.V2FileContractExpiration{}}}})
			return true
		case c.child() > fc.ProofHeight && c.r.rng.IntN(3) != 0:
			cie, ok := c.st().cies[fc.ProofHeight]
			data, ok2 := c.files[e.ID]
			if !ok || !ok2 {
				continue
			}
			p.usedFC[e.ID] = true
			sp := &types.V2StorageProof{ProofIndex: cie.Copy()}
			idx := cs.StorageProofLeafIndex(fc.Filesize, cie.ChainIndex.ID, e.ID)
			if len(data) > 0 {
				copy(sp.Leaf[:], data[idx*64:])
				sp.Proof = naiveFileProof(fileLeafHashes(data), int(idx))
			}
			p.v2txns = append(p.v2txns, types.V2Transaction{FileContractResolutions: []types.V2FileContractResolution{{Parent: e.Copy(), Resolution: sp}}})
			return true
		case c.child() <= fc.ProofHeight && c.r.rng.IntN(3) == 0:
			// renewal: roll part of the value into a new contract, funded by a fresh input
			in, o, ok := p.pickV2(types.Siacoins(200))
			if !ok {
				continue
			}
			p.usedFC[e.ID] = true
			nc := types.V2FileContract{Capacity: fc.Capacity, Filesize: fc.Filesize, FileMerkleRoot: fc.FileMerkleRoot,
				ProofHeight: c.child() + uint64(2+c.r.rng.IntN(3)), RenterOutput: types.SiacoinOutput{Value: types.Siacoins(20), Address: c.addr2(rk)},
				HostOutput: types.SiacoinOutput{Value: types.Siacoins(30), Address: c.addr2(hk)}, RenterPublicKey: fc.RenterPublicKey, HostPublicKey: fc.HostPublicKey}
			nc.ExpirationHeight = nc.ProofHeight + 2
			nc.TotalCollateral = types.Siacoins(10)
			nc.MissedHostValue = types.Siacoins(25)
			c.signContract(&nc, rk, hk)
			rr := fc.RenterOutput.Value.Div64(2)
			hr := fc.HostOutput.Value.Div64(3)
			ren := &types.V2FileContractRenewal{NewContract: nc, RenterRollover: rr, HostRollover: hr,
				FinalRenterOutput: types.SiacoinOutput{Value: fc.RenterOutput.Value.Sub(rr), Address: fc.RenterOutput.Address},
				FinalHostOutput:   types.SiacoinOutput{Value: fc.HostOutput.Value.Sub(hr), Address: fc.HostOutput.Address}}
			cost := nc.RenterOutput.Value.Add(nc.HostOutput.Value).Add(cs.V2FileContractTax(nc))
			if rr.Add(hr).Cmp(cost) > 0 {
				continue
			}
			h := cs.RenewalSigHash(*ren)
			ren.RenterSignature, ren.HostSignature = c.keys[rk].SignHash(h), c.keys[hk].SignHash(h)
			need := cost.Sub(rr.Add(hr))
			txn := types.V2Transaction{SiacoinInputs: []types.V2SiacoinInput{{Parent: in}},
				SiacoinOutputs:          []types.SiacoinOutput{{Value: in.SiacoinOutput.Value.Sub(need), Address: c.addr2(o.key % 3)}},
				FileContractResolutions: []types.V2FileContractResolution{{Parent: e.Copy(), Resolution: ren}}}
			c.signV2Inputs(&txn, []v2owner{o}, nil)
			c.files[e.ID.V2RenewalID()] = c.files[e.ID]
			p.v2txns = append(p.v2txns, txn)
			return true
		}
	}
	return false
}

func (p *blockPlan) v2Attest() bool {
	c := p.c
	k := c.r.rng.IntN(3)
	a := types.Attestation{PublicKey: c.keys[k].PublicKey(), Key: "k" + hx(c.r.rng.Uint64()), Value: c.r.randBytes(c.r.rng.IntN(20))}
	a.Signature = c.keys[k].SignHash(c.cs().AttestationSigHash(a))
	p.v2txns = append(p.v2txns, types.V2Transaction{Attestations: []types.Attestation{a}})
	return true
}

func (p *blockPlan) v2Foundation() bool {
	c := p.c
	for _, e := range sortedSC(c.st().sces) {
		if p.usedSC[e.ID] || e.MaturityHeight > c.child() || e.SiacoinOutput.Address != c.cs().FoundationManagementAddress {
			continue
		}
		o, ok := c.ownerOf(e.SiacoinOutput.Address, v2policies)
		if !ok {
			continue
		}
		p.usedSC[e.ID] = true
		na := c.addr1(3)
		txn := types.V2Transaction{SiacoinInputs: []types.V2SiacoinInput{{Parent: e.Copy()}}, SiacoinOutputs: []types.SiacoinOutput{{Value: e.SiacoinOutput.Value, Address: c.addr1(3)}}, NewFoundationAddress: &na}
		c.signV2Inputs(&txn, []v2owner{o}, nil)
		p.v2txns = append(p.v2txns, txn)
		return true
	}
	return false
}

// honestBlock builds a valid block with a random mix of whatever the era allows
func (c *lchain) honestBlock() (types.Block, consensus.V1BlockSupplement) {
	p := c.plan()
	v1ok := c.child() < c.n.HardforkV2.RequireHeight
	v2ok := c.child() >= c.n.HardforkV2.AllowHeight
	n := c.r.rng.IntN(5)
	if v1ok && c.r.rng.IntN(2) == 0 {
		p.v1SpendSpecial()
	}
	if v1ok {
		p.v1ReviseThenProve() // whenever a contract's window opens with this block
	}
	for i := 0; i < n; i++ {
		if v1ok && (!v2ok || c.r.rng.IntN(2) == 0) {
			switch c.r.rng.IntN(9) {
			case 7:
				p.v1SpendSpecial()
			case 8:
				p.v1ReviseTwice()
			case 0, 1:
				p.v1Pay()
			case 2:
				p.v1Form()
			case 3:
				p.v1Revise()
			case 4:
				p.v1Prove()
			case 5:
				p.v1Siafunds()
			case 6:
				p.v1Foundation()
			}
		} else if v2ok {
			switch c.r.rng.IntN(10) {
			case 9:
				p.v2ReviseTwice()
			case 0, 1:
				p.v2Pay()
			case 2:
				p.v2Form()
			case 3:
				p.v2Revise()
			case 4, 5:
				p.v2Resolve()
			case 6:
				p.v2Siafunds()
			case 7:
				p.v2Attest()
			case 8:
				p.v2Foundation()
			}
		}
	}
	b := c.newBlock(p.txns, p.v2txns)
	return b, c.supplement(b)
}
