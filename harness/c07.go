package main

import (
	"go.sia.tech/core/blake2b"
	"go.sia.tech/core/consensus"
	"go.sia.tech/core/types"
)

// storage proofs against files of every shape: 1 leaf, powers of two, one more / one less, partial last leaves.
// The siblings of leaf i in the plain tree (naiveFileProof, the same recursion as Merkle/StorageProof.v sp_prove) must
// verify through storageProofRoot; the model recomputes the proof, the plain root and the verifier's result
// (storage_proof_v2_complete is the theorem for all files); altered proofs, leaves, indices and sizes must not verify.
func c07StorageProofs(r *Run) {
	sizes := []int{1, 63, 64, 65, 127, 128, 129, 191, 192, 193, 255, 256, 257, 320, 511, 512, 513, 1000, 1024, 1025, 2047, 2048, 2049, 4096, 4097}
	for it := 0; it < r.pick(60, 1500); it++ {
		size := sizes[it%len(sizes)]
		if it >= len(sizes) && r.rng.IntN(2) == 0 {
			size = 1 + r.rng.IntN(9000)
		}
		data := r.randBytes(size)
		ls := fileLeafHashes(data)
		root := naiveFileRoot(ls)
		n := len(ls)
		idxs := []int{0, n - 1, n / 2, r.rng.IntN(n)}
		for _, i := range idxs {
			proof := naiveFileProof(ls, i)
			got := consensus.VerifStorageProofRoot(ls[i], uint64(i), uint64(size), proof)
			r.count("oracle-storage-proof")
			if got != root {
				r.violate("c07.storage-proof-complete", "file of %d bytes (%d leaves): the honest proof of leaf %d does not verify", size, n, i)
			}
			args := append(hashToks(ls), hx(uint64(i)), hx(uint64(size)))
			want := append(hashToks(proof), hb(root[:]), hb(got[:]))
			r.emit(n > 1, "storage-proof", "c07.prove", args, want)
			// tampering: a proof hash, the leaf, the index, the size class
			if len(proof) > 0 {
				p2 := append([]types.Hash256(nil), proof...)
				p2[r.rng.IntN(len(p2))][r.rng.IntN(32)] ^= 1 << uint(r.rng.IntN(8))
				if consensus.VerifStorageProofRoot(ls[i], uint64(i), uint64(size), p2) == root {
					r.violate("c07.storage-proof-sound", "file of %d bytes: a proof of leaf %d with one hash altered verifies", size, i)
				}
				if consensus.VerifStorageProofRoot(ls[i], uint64(i), uint64(size), proof[:len(proof)-1]) == root {
					r.violate("c07.storage-proof-sound", "file of %d bytes: a proof of leaf %d without its last hash verifies", size, i)
				}
			}
			var other [64]byte
			copy(other[:], r.randBytes(64))
			if consensus.VerifStorageProofRoot(blake2b.SumLeaf(&other), uint64(i), uint64(size), proof) == root {
				r.violate("c07.storage-proof-sound", "file of %d bytes: other data verifies as leaf %d", size, i)
			}
			if j := r.rng.IntN(n); j != i && ls[j] != ls[i] {
				if consensus.VerifStorageProofRoot(ls[j], uint64(i), uint64(size), proof) == root {
					r.violate("c07.storage-proof-sound", "file of %d bytes: leaf %d verifies at index %d", size, j, i)
				}
				g := consensus.VerifStorageProofRoot(ls[i], uint64(j), uint64(size), proof)
				r.emit(true, "storage-proof-wrong-index", "c07.verify", append(hashToks(proof), hb(ls[i][:]), hx(uint64(j)), hx(uint64(size))), []string{hb(g[:])})
				if g == root && !sameProof(naiveFileProof(ls, j), proof) {
					r.violate("c07.storage-proof-sound", "file of %d bytes: the proof of leaf %d verifies for index %d", size, i, j)
				}
			}
		}
	}
}

func sameProof(a, b []types.Hash256) bool {
	if len(a) != len(b) {
		return false
	}
	for i := range a {
		if a[i] != b[i] {
			return false
		}
	}
	return true
}
