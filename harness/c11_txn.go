package main

import (
	"bytes"
	"encoding/binary"
	"reflect"

	"go.sia.tech/core/types"
)

// the V2Transaction decoder accepts masks the encoder never writes (a set bit in front of an empty list, bits beyond
// the last field) and the resolution decoder refuses unknown tags: valid encodings with the mask or a tag rewritten,
// decoded and re-encoded by the code and by the model (acceptance, canonical re-encoding, bytes left)
func c11TxnMasks(r *Run) {
	for it := 0; it < r.pick(150, 4000); it++ {
		v := reflect.New(reflect.TypeOf(types.V2Transaction{}))
		r.fill(v.Elem(), 0)
		r.fixups("types.V2Transaction", v)
		txn := v.Elem().Interface().(types.V2Transaction)
		switch it % 5 {
		case 0: // few fields
			txn = types.V2Transaction{ArbitraryData: txn.ArbitraryData, MinerFee: txn.MinerFee}
		case 1:
			txn = types.V2Transaction{NewFoundationAddress: txn.NewFoundationAddress, Attestations: txn.Attestations}
		}
		b := encAny(txn)
		if len(b) < 9 {
			continue
		}
		mask := binary.LittleEndian.Uint64(b[1:9])
		var c []byte
		kind := r.rng.IntN(6)
		switch kind {
		case 0: // bits beyond the last field
			c = append([]byte(nil), b...)
			binary.LittleEndian.PutUint64(c[1:9], mask|uint64(1)<<uint(11+r.rng.IntN(53)))
		case 1: // an absent list field announced and sent empty (zero length prefix inserted at its position)
			var absent []int
			for i := 0; i < 9; i++ {
				if mask&(1<<uint(i)) == 0 {
					absent = append(absent, i)
				}
			}
			if len(absent) == 0 {
				continue
			}
			k := absent[r.rng.IntN(len(absent))]
			// position of field k: after the encodings of the present fields below k
			low := txn
			clear := []func(*types.V2Transaction){
				func(t *types.V2Transaction) { t.SiacoinInputs = nil }, func(t *types.V2Transaction) { t.SiacoinOutputs = nil },
				func(t *types.V2Transaction) { t.SiafundInputs = nil }, func(t *types.V2Transaction) { t.SiafundOutputs = nil },
				func(t *types.V2Transaction) { t.FileContracts = nil }, func(t *types.V2Transaction) { t.FileContractRevisions = nil },
				func(t *types.V2Transaction) { t.FileContractResolutions = nil }, func(t *types.V2Transaction) { t.Attestations = nil },
				func(t *types.V2Transaction) { t.ArbitraryData = nil }, func(t *types.V2Transaction) { t.NewFoundationAddress = nil },
				func(t *types.V2Transaction) { t.MinerFee = types.ZeroCurrency }}
			for i := k; i < len(clear); i++ {
				clear[i](&low)
			}
			pos := len(encAny(low))
			c = append([]byte(nil), b[:pos]...)
			c = append(c, make([]byte, 8)...)
			c = append(c, b[pos:]...)
			binary.LittleEndian.PutUint64(c[1:9], mask|1<<uint(k))
		case 2: // a zero miner fee announced
			if mask&(1<<10) != 0 {
				continue
			}
			c = append(append([]byte(nil), b...), make([]byte, 16)...)
			binary.LittleEndian.PutUint64(c[1:9], mask|1<<10)
		case 3: // a present field's bit cleared (the rest no longer lines up) or a random mask
			c = append([]byte(nil), b...)
			if r.rng.IntN(2) == 0 && mask != 0 {
				binary.LittleEndian.PutUint64(c[1:9], mask&^(1<<uint(r.rng.IntN(11))))
			} else {
				binary.LittleEndian.PutUint64(c[1:9], uint64(r.rng.IntN(1<<11)))
			}
		case 4: // wrong version
			c = append([]byte(nil), b...)
			c[0] = byte(r.rng.IntN(4))
		default: // a resolution tag rewritten
			if len(txn.FileContractResolutions) == 0 {
				continue
			}
			res := txn.FileContractResolutions[r.rng.IntN(len(txn.FileContractResolutions))]
			rb := encAny(res)
			pl := len(encAny(res.Parent))
			rc := append([]byte(nil), rb...)
			rc[pl] = byte(r.rng.IntN(5))
			var q types.V2FileContractResolution
			dd := types.NewBufDecoder(rc)
			q.DecodeFrom(dd)
			r.count("oracle-txn-mask")
			if dd.Err() == nil {
				b2 := encAny(q)
				r.emit(true, "txn-mask", "c11.recode", []string{hb([]byte("types.V2FileContractResolution")), hb(rc)}, []string{"0", hb(b2), hx(uint64(len(rc) - len(b2)))})
			} else {
				r.emit(false, "txn-mask", "c11.decode", []string{hb([]byte("types.V2FileContractResolution")), hb(rc)}, []string{"1"})
			}
			continue
		}
		extra := 0
		if r.rng.IntN(4) == 0 {
			extra = 1 + r.rng.IntN(4)
			c = append(c, r.randBytes(extra)...)
		}
		var q types.V2Transaction
		dd := types.NewBufDecoder(c)
		q.DecodeFrom(dd)
		r.count("oracle-txn-mask")
		if dd.Err() == nil {
			b2 := encAny(q)
			// the value decoded from a non-canonical mask re-encodes canonically and decodes to itself again
			var q2 types.V2Transaction
			d2 := types.NewBufDecoder(b2)
			q2.DecodeFrom(d2)
			if d2.Err() != nil || !bytes.Equal(encAny(q2), b2) {
				r.violate("c11.txn-mask", "re-encoding of a transaction decoded from mask %x does not round-trip", binary.LittleEndian.Uint64(c[1:9]))
			}
			if kind == 3 {
				extra = -1 // a rewritten mask that still parses leaves an unknown number of bytes: acceptance only
			}
			if extra >= 0 {
				r.emit(true, "txn-mask", "c11.recode", []string{hb([]byte("types.V2Transaction")), hb(c)}, []string{"0", hb(b2), hx(uint64(extra))})
			} else {
				r.emit(true, "txn-mask", "c11.decode", []string{hb([]byte("types.V2Transaction")), hb(c)}, []string{"0"})
			}
		} else {
			r.emit(false, "txn-mask", "c11.decode", []string{hb([]byte("types.V2Transaction")), hb(c)}, []string{"1"})
		}
	}
}
