package main

import (
	"fmt"

	"go.sia.tech/core/types"
)

func init() {
	for _, p := range []string{"C01", "C02", "C03", "C06", "C07", "C08", "C09", "L10"} {
		p := p
		props[p] = func(r *Run) { runLedger(r, p) }
	}
}

func (c *lchain) emit(class string) {
	args := append([]string{}, c.genesisToks...)
	args = append(args, hx(uint64(c.nsteps)))
	args = append(args, c.steps...)
	want := append(c.summaryToksAt(0), c.want...)
	c.r.emit(true, class, "ledger.chain", args, want)
}

func (c *lchain) summaryToksAt(i int) []string {
	return c.summaryToks0
}

// eras: where the v2 fork sits relative to the chain length decides v1-only / mixed / v2-only histories
func (r *Run) ledgerEra(i int) (allow, require uint64) {
	switch i % 4 {
	case 0:
		return 1000, 2000 // v1 only
	case 1:
		return uint64(6 + r.rng.IntN(6)), uint64(30 + r.rng.IntN(10)) // long mixed window
	case 2:
		a := uint64(5 + r.rng.IntN(5))
		return a, a + uint64(2+r.rng.IntN(6)) // reaches v2-only
	default:
		return 2, 3 // v2 almost from the start
	}
}

// the legacy window below HardforkV2.EphemeralOutputHeight: a revision may leave the host's missed value above
// its valid value, and the expiry then creates the difference (known finding F11; consensus-level, not repairable
// without a hardfork). One scripted chain reproduces it on every run.
func c01LegacyWindow(r *Run) {
	n := r.ledgerNet()
	c := newLChain(r, n, 2, 3)
	n.HardforkV2.EphemeralOutputHeight = 40
	c.genesisToks = append(netLToks(n), c.stateToks()...)
	c.summaryToks0 = c.summaryToks(c.cs(), c.st())
	step := func(build func(p *blockPlan)) bool {
		p := c.plan()
		build(p)
		b := c.newBlock(p.txns, p.v2txns)
		if err := c.process(b, c.supplement(b), true, "honest"); err != nil {
			r.violate("harness.c01-legacy", "scripted block rejected: %v", err)
			return false
		}
		return true
	}
	for c.child() < 6 {
		if !step(func(p *blockPlan) {}) {
			return
		}
	}
	if !step(func(p *blockPlan) { p.v2Form() }) {
		return
	}
	var fcid types.FileContractID
	for id := range c.st().v2fces {
		fcid = id
	}
	if !step(func(p *blockPlan) {
		e, ok := c.st().v2fces[fcid]
		if !ok || e.V2FileContract.ProofHeight < c.child() {
			return
		}
		fc := e.V2FileContract
		rev := fc
		rev.RevisionNumber++
		// move almost all of the host's value to the renter: the total is kept, the missed host value stays
		d := rev.HostOutput.Value.Sub(types.NewCurrency64(1))
		rev.HostOutput.Value = rev.HostOutput.Value.Sub(d)
		rev.RenterOutput.Value = rev.RenterOutput.Value.Add(d)
		c.signContract(&rev, c.keyIdx(fc.RenterPublicKey), c.keyIdx(fc.HostPublicKey))
		p.v2txns = append(p.v2txns, types.V2Transaction{FileContractRevisions: []types.V2FileContractRevision{{Parent: e.Copy(), Revision: rev}}})
	}) {
		return
	}
	for k := 0; k < 12; k++ {
		e, ok := c.st().v2fces[fcid]
		if !ok {
			break
		}
		if !step(func(p *blockPlan) {
			if c.child() > e.V2FileContract.ExpirationHeight {
				p.v2txns = append(p.v2txns, types.V2Transaction{FileContractResolutions: []types.V2FileContractResolution{{Parent: e.Copy(), Resolution: &types.V2FileContractExpiration{}}}})
			}
		}) {
			return
		}
	}
	c.emit("legacy-window")
}

// honest storage proofs in the blocks just before, at and after the storage-proof hardfork height, for files whose
// size is a multiple of the leaf size (the last leaf is a full leaf) and for empty files: from the fork height on they
// must be accepted (below it the legacy rules cannot prove them: outside the property's quantifier)
func c07ForkBoundary(r *Run) {
	for _, size := range []int{64, 0, 128, 192, 65} {
		n := r.ledgerNet()
		n.HardforkTax.Height = 2
		n.HardforkStorageProof.Height = 9
		c := newLChain(r, n, 1000, 2000)
		H := n.HardforkStorageProof.Height
		step := func(build func(p *blockPlan)) bool {
			p := c.plan()
			build(p)
			b := c.newBlock(p.txns, p.v2txns)
			if err := c.process(b, c.supplement(b), true, "honest"); err != nil {
				r.violate("c07.honest-proof-rejected", "an honest storage proof of a %d-byte file in the block at height %d (storage-proof fork height %d) is rejected: %v", size, c.child(), H, err)
				return false
			}
			return true
		}
		for c.child() < H-3 {
			if !step(func(p *blockPlan) {}) {
				return
			}
		}
		var ids []types.FileContractID
		if !step(func(p *blockPlan) {
			// three contracts over the same file, to be proven at heights H, H+1 and H+2
			for k := 0; k < 3; k++ {
				in, key, _, ok := p.pickSC(types.Siacoins(120), true)
				if !ok {
					return
				}
				data := make([]byte, size)
				r.fillBytes(data)
				payout := types.Siacoins(uint32(20 + k))
				fc := types.FileContract{Filesize: uint64(size), FileMerkleRoot: naiveFileRoot(fileLeafHashes(data)), WindowStart: H - 1, WindowEnd: H + 4, Payout: payout, UnlockHash: c.addr1(key)}
				tax := c.cs().FileContractTax(fc)
				vs := payout.Sub(tax)
				fc.ValidProofOutputs = []types.SiacoinOutput{{Value: vs, Address: c.addr1(key)}}
				fc.MissedProofOutputs = []types.SiacoinOutput{{Value: vs, Address: types.VoidAddress}}
				txn := types.Transaction{SiacoinInputs: []types.SiacoinInput{{ParentID: in.ID, UnlockConditions: c.uc(key)}}, FileContracts: []types.FileContract{fc},
					SiacoinOutputs: []types.SiacoinOutput{{Value: in.SiacoinOutput.Value.Sub(payout), Address: c.addr1(key)}}}
				c.signV1(&txn, map[types.Hash256]int{types.Hash256(in.ID): key}, false)
				c.files[txn.FileContractID(0)] = data
				ids = append(ids, txn.FileContractID(0))
				p.txns = append(p.txns, txn)
			}
		}) || len(ids) != 3 {
			return
		}
		for c.child() < H {
			if !step(func(p *blockPlan) {}) {
				return
			}
		}
		for k := 0; k < 3; k++ { // child heights H, H+1, H+2
			id := ids[k]
			if !step(func(p *blockPlan) {
				e, ok := c.st().fces[id]
				if !ok {
					return
				}
				if sp, ok := c.v1Proof(id, e); ok {
					p.txns = append(p.txns, types.Transaction{StorageProofs: []types.StorageProof{sp}})
					r.count("oracle-proof-at-fork-boundary")
				}
			}) {
				return
			}
		}
	}
}

func runLedger(r *Run, prop string) {
	if prop == "C01" {
		c01LegacyWindow(r)
	}
	if prop == "C07" || prop == "C08" {
		c07ForkBoundary(r)
	}
	if prop == "C07" {
		c07StorageProofs(r)
	}
	if prop == "C09" {
		c09Copies(r)
		for i := 0; i < r.pick(30, 800); i++ {
			c18Synthetic(r) // decoded multiproof sets own their proofs
		}
	}
	nchains := r.pick(40, 600)
	if prop == "C04" || prop == "C05" {
		nchains = r.pick(16, 200)
	}
	for ci := 0; ci < nchains; ci++ {
		n := r.ledgerNet()
		allow, require := r.ledgerEra(ci)
		c := newLChain(r, n, allow, require)
		c.summaryToks0 = c.summaryToks(c.cs(), c.st())
		length := 18 + r.rng.IntN(14)
		for step := 0; step < length; step++ {
			if len(c.states) > 2 && r.rng.IntN(7) == 0 {
				depth := 1 + r.rng.IntN(min(3, len(c.states)-1))
				for d := 0; d < depth; d++ {
					c.revert()
				}
				continue
			}
			b, bs := c.honestBlock()
			// adversarial variants of this block and boundary / stale-use probes at this height (validate only)
			focus := "c" + prop[1:] + "."
			vs := c.variants(b)
			vs = append(vs, c.boundaryProbes()...)
			vs = append(vs, c.staleProbes()...)
			for _, v := range vs {
				if len(v.name) >= 4 && v.name[:4] == focus || r.rng.IntN(r.pick(25, 8)) == 0 {
					c.runVariant(v)
				}
			}
			if prop == "C09" && step%3 == 0 {
				c.concurrent(b, bs, 2+r.rng.IntN(7))
			}
			if err := c.process(b, bs, true, "honest"); err != nil {
				r.violate("ledger.honest-rejected", "an honestly built block was rejected at child height %d: %v (chain %v)", c.child(), err, c.desc)
				break
			}
		}
		c.emit(fmt.Sprintf("chain-allow%d", min(int(allow), 99)))
	}
}
