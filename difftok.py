#!/usr/bin/env python3
"""difftok.py <cases.txt> [lineno]: run the model on one case and show where its answer departs from the expected one"""
import sys, subprocess
lines=[l for l in open(sys.argv[1]).read().split('\n') if l]
which=[int(sys.argv[2])-1] if len(sys.argv)>2 else range(len(lines))
for i in which:
    l=lines[i]
    lhs,rhs=l.split(' => ')
    out=subprocess.run(['bash','-c','ulimit -s unlimited; /verif/build/model -print'],input=(l+'\n').encode(),stdout=subprocess.PIPE).stdout.decode().split('\n')[0]
    got=out.split(' => ')[1].split() if ' => ' in out else []
    want=rhs.split()
    if got==want:
        print(i+1,'OK',len(want),'tokens'); continue
    k=0
    while k<min(len(got),len(want)) and got[k]==want[k]: k+=1
    print(i+1,'DIFF at token',k,'of want',len(want),'got',len(got))
    print('  want:',' '.join(x[:20] for x in want[max(0,k-12):k+8]))
    print('  got :',' '.join(x[:20] for x in got[max(0,k-12):k+8]))
