# sourced by setup.sh and check; Go is always the local 1.26 toolchain, offline
export GOFLAGS=-mod=mod GOPROXY=off GOSUMDB=off GOTOOLCHAIN=local CARGO_NET_OFFLINE=true PIP_NO_INDEX=1
export GO=go1.26
