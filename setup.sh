#!/bin/bash
# Build the whole framework from files on disk, offline: all Coq proofs (full .vo build),
# extraction, the OCaml driver, the translator and the Go harness.
set -e
cd "$(dirname "$0")"
. ./env.sh
mkdir -p build evidence replays coq/Gen
if [ -f translate/main.go ]; then
  (cd translate && $GO build -o ../build/translate . && ../build/translate -repo /repo -out ../coq/Gen -harness ../harness)
fi
cp /repo/go.sum harness/go.sum
(cd harness && $GO build -tags verif -o ../build/harness . && ../build/harness -limits ../coq/Gen/Limits.v)
(cd coq && coq_makefile -f _CoqProject -o Makefile >/dev/null && timeout 7200 make -j16)
(cd ocaml && coqc -Q ../coq Sia ../coq/Extract/Extract.v && ocamlfind ocamlopt -O3 -w -a -o ../build/model blake2b.ml model.mli model.ml driver.ml)
cp /repo/go.sum harness/go.sum
(cd harness && $GO build -tags verif -o ../build/harness .)
echo setup ok
