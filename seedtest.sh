#!/bin/bash
# usage: seedtest.sh <patch.diff> <property>... ; applies the patch to /repo, runs the quick checks, undoes it
p=$1; shift
cd /repo && git apply "$p" || { echo "patch does not apply"; exit 2; }
cd /verif
for c in "$@"; do ./check $c --tier quick 2>&1 | grep -E "VIOLATION|KNOWN|^C[0-9]+:" ; done
git -C /repo checkout -- . 
git -C /repo status --short | head -3
