#!/usr/bin/env python3
"""Regenerates MANIFEST.json from props_meta.MANIFEST (kept in one place so it is always valid)."""
import json, os, subprocess
import props_meta
root = os.path.dirname(os.path.abspath(__file__))
hooks_commits = [l.split()[0] for l in subprocess.run(['git', '-C', '/repo', 'log', '--format=%h %s', '--grep=^verif hook'],
                 stdout=subprocess.PIPE).stdout.decode().split('\n') if l.strip()]
checks = []
for pid in sorted(props_meta.META):
    m = props_meta.META[pid]
    checks.append({
        'property_id': pid,
        'quick_cmd': './check %s --tier quick' % pid,
        'thorough_cmd': './check %s --tier thorough' % pid,
        'evidence_file': 'evidence/%s.json' % pid,
        'replay_cmd_template': './check %s --replay {path}' % pid,
        'engine': 'rocq-model+correspondence',
        'level_claimed': {'category': 'proof', 'text': m['level_text'], 'design_ref': m.get('design_ref', 'DESIGN.md §6 ' + pid)},
        'level_note': '; '.join(m['trusted_base']) + ' | assumed: ' + '; '.join(m['assumptions']),
        'technique': m.get('technique', 'machine-checked proof in Rocq (Coq 8.16.1) of an executable Gallina model + correspondence of the extracted model with the Go implementation'),
    })
allp = [json.loads(l)['id'] for l in open(root + '/properties.jsonl')]
na = [{'property_id': p, 'reason': props_meta.NOT_YET.get(p, 'check not built yet in this round; planned, see DESIGN.md §9')} for p in allp if p not in props_meta.META]
man = {
    'version': 1,
    'setup_cmd': './setup.sh',
    'hooks': {'guard': 'verif', 'enable': 'go1.26 build -tags verif (harness module with replace go.sia.tech/core => /repo)',
              'baseline_off_cmd': 'cd /repo && go test -mod=mod -json -vet=off -count=1 -timeout 25m ./...',
              'source_commits': hooks_commits, 'add_only': True},
    'engines': [{'name': 'rocq-model+correspondence', 'path': 'check', 'serves_properties': sorted(props_meta.META),
                 'kind_free_text': 'Coq 8.16.1 theorems over executable Gallina models (coq/), translator-regenerated definitions (translate/ -> coq/Gen), extracted OCaml model (ocaml/) compared with the Go implementation by harness/'}],
    'checks': checks,
    'notes': 'Property theorems live in coq/Props/Cxx.v (statements only, each followed by Print Assumptions). known_findings.txt lists findings and repaired defects.',
    'not_applicable': na,
}
json.dump(man, open(root + '/MANIFEST.json', 'w'), indent=1)
print('MANIFEST.json: %d checks, %d not claimed' % (len(checks), len(na)))
