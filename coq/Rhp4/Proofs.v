(* Proofs about the RHP4 constructors: conservation, exact charging, clean failure, cost identities,
   and acceptance by the consensus rules of the ledger model (Ledger/Validate.v). *)
From Coq Require Import ZArith List Bool Lia.
From Sia Require Import Prim.Result Prim.Tok Ledger.Types Ledger.Mid Ledger.Validate Ledger.Proofs Rhp4.Model.
Import ListNotations.
Open Scope Z_scope.

Lemma cadd_ok a b c : cadd a b = Ok c -> c = a + b /\ a + b < C128.
Proof. unfold cadd. destruct (C128 <=? a + b) eqn:E; intros Q; inversion Q. lia. Qed.
Lemma csub_ok a b c : csub a b = Ok c -> c = a - b /\ b <= a.
Proof. unfold csub. destruct (a <? b) eqn:E; intros Q; inversion Q. lia. Qed.
Lemma cmul64_ok a b c : cmul64 a b = Ok c -> c = a * b /\ a * b < C128.
Proof. unfold cmul64. destruct (C128 <=? a * b) eqn:E; intros Q; inversion Q. lia. Qed.
Lemma cdiv64_ok a b c : cdiv64 a b = Ok c -> c = a / b /\ b <> 0.
Proof. unfold cdiv64. destruct (b =? 0) eqn:E; intros Q; inversion Q. lia. Qed.
Lemma cadd_is_ok a b : a + b < C128 -> cadd a b = Ok (a + b).
Proof. unfold cadd. intros. destruct (C128 <=? a + b) eqn:E; [lia | reflexivity]. Qed.
Lemma csub_is_ok a b : b <= a -> csub a b = Ok (a - b).
Proof. unfold csub. intros. destruct (a <? b) eqn:E; [lia | reflexivity]. Qed.

Ltac inv_ok :=
  repeat match goal with
  | Hb : bind ?r _ = Ok _ |- _ =>
      let x := fresh "x" in let E := fresh "E" in apply bind_ok in Hb; destruct Hb as (x & E & Hb)
  | Hc : cadd _ _ = Ok _ |- _ => apply cadd_ok in Hc; destruct Hc
  | Hc : csub _ _ = Ok _ |- _ => apply csub_ok in Hc; destruct Hc
  | Hc : cmul64 _ _ = Ok _ |- _ => apply cmul64_ok in Hc; destruct Hc
  | Hc : cdiv64 _ _ = Ok _ |- _ => apply cdiv64_ok in Hc; destruct Hc
  | Hc : Ok _ = Ok _ |- _ => inversion Hc; clear Hc
  | Hc : err _ = Ok _ |- _ => discriminate Hc
  | Hc : (if ?c then _ else _) = Ok _ |- _ => destruct c eqn:?; [try discriminate Hc | try discriminate Hc]
  end.

(* what every contract reachable through the constructors satisfies *)
Definition Inv (fc : fc2) : Prop :=
  0 <= c_missed_host fc /\ c_missed_host fc <= c_collateral fc /\ c_collateral fc <= sco_value (c_host fc) /\
  0 <= sco_value (c_renter fc) /\ sco_value (c_renter fc) + sco_value (c_host fc) < C128.
Definition usage_nonneg (u : usage) : Prop :=
  0 <= u_rpc u /\ 0 <= u_storage u /\ 0 <= u_egress u /\ 0 <= u_ingress u /\ 0 <= u_fund u /\ 0 <= u_risked u.

(* ---- PayWithContract ---- *)
Theorem pay_exact fc u fc' : Inv fc -> usage_nonneg u -> pay_with_contract fc u = Ok fc' ->
  exists cost, renter_cost u = Ok cost /\
    sco_value (c_renter fc') + sco_value (c_host fc') = sco_value (c_renter fc) + sco_value (c_host fc) /\
    sco_value (c_renter fc) - sco_value (c_renter fc') = cost /\
    cost = u_rpc u + u_storage u + u_egress u + u_ingress u + u_fund u /\
    c_missed_host fc - c_missed_host fc' = u_risked u /\
    c_missed_host fc' <= c_missed_host fc /\
    c_collateral fc' = c_collateral fc /\
    c_revnum fc' = w64 (c_revnum fc + 1) /\
    c_capacity fc' = c_capacity fc /\ c_filesize fc' = c_filesize fc /\
    c_proof_height fc' = c_proof_height fc /\ c_exp_height fc' = c_exp_height fc /\
    c_renter_key fc' = c_renter_key fc /\ c_host_key fc' = c_host_key fc /\
    Inv fc'.
Proof.
  intros (I1 & I2 & I3 & I4 & I5) (U1 & U2 & U3 & U4 & U5 & U6) P. unfold pay_with_contract in P.
  apply bind_ok in P. destruct P as (cost & RC & P). exists cost. split; [exact RC|].
  unfold renter_cost in RC. inv_ok. subst. cbn [fc_pay c_renter c_host c_missed_host c_collateral c_revnum c_capacity c_filesize
    c_proof_height c_exp_height c_renter_key c_host_key set_value sco_value].
  unfold Inv. cbn [fc_pay c_renter c_host c_missed_host c_collateral set_value sco_value].
  repeat split; try lia.
Qed.

(* failure is clean: with a computable cost, PayWithContract never panics on a reachable contract, and it
   refuses exactly when the renter's funds or the host's remaining collateral do not cover the usage *)
Theorem pay_clean fc u cost : Inv fc -> usage_nonneg u -> renter_cost u = Ok cost ->
  (sco_value (c_renter fc) < cost -> pay_with_contract fc u = err 1) /\
  (cost <= sco_value (c_renter fc) -> c_missed_host fc < u_risked u -> pay_with_contract fc u = err 2) /\
  (cost <= sco_value (c_renter fc) -> u_risked u <= c_missed_host fc -> exists fc', pay_with_contract fc u = Ok fc').
Proof.
  intros (I1 & I2 & I3 & I4 & I5) (U1 & U2 & U3 & U4 & U5 & U6) RC. unfold pay_with_contract. rewrite RC. cbn [bind].
  assert (C0 : 0 <= cost) by (unfold renter_cost in RC; inv_ok; lia).
  repeat split.
  - intros L. destruct (sco_value (c_renter fc) <? cost) eqn:E; [reflexivity | lia].
  - intros L1 L2. destruct (sco_value (c_renter fc) <? cost) eqn:E; [lia|].
    destruct (c_missed_host fc <? u_risked u) eqn:E2; [reflexivity | lia].
  - intros L1 L2. destruct (sco_value (c_renter fc) <? cost) eqn:E; [lia|].
    destruct (c_missed_host fc <? u_risked u) eqn:E2; [lia|].
    rewrite csub_is_ok by lia. cbn [bind]. rewrite cadd_is_ok by lia. cbn [bind]. rewrite csub_is_ok by lia. cbn [bind]. eauto.
Qed.

(* the usages computed by the price functions are non-negative *)
Definition prices_nonneg (p : prices) : Prop :=
  0 <= pr_contract p /\ 0 <= pr_collateral p /\ 0 <= pr_storage p /\ 0 <= pr_ingress p /\ 0 <= pr_egress p /\ 0 <= pr_free p.
Lemma round4k_nonneg n : 0 <= round4k n.
Proof. unfold round4k, w64, W64. pose proof (Z.mod_pos_bound (n + 4095) (2 ^ 64) ltac:(lia)). pose proof (Z.mod_le ((n + 4095) mod 2 ^ 64) 4096 ltac:(lia) ltac:(lia)). lia. Qed.
Lemma free_cost_nonneg p n u : prices_nonneg p -> 0 <= n -> free_cost p n = Ok u -> usage_nonneg u.
Proof. intros (P1 & P2 & P3 & P4 & P5 & P6) N F. unfold free_cost in F. inv_ok. subst. unfold usage_nonneg. cbn [u_rpc u_storage u_egress u_ingress u_fund u_risked]. repeat split; nia. Qed.
Lemma append_cost_nonneg p n d u : prices_nonneg p -> 0 <= n -> 0 <= d -> append_cost p n d = Ok u -> usage_nonneg u.
Proof.
  intros (P1 & P2 & P3 & P4 & P5 & P6) N D F. unfold append_cost in F. inv_ok. subst. unfold usage_nonneg. cbn [u_rpc u_storage u_egress u_ingress u_fund u_risked].
  pose proof (round4k_nonneg (w64 (32 * n))). unfold SECTOR. repeat split; try lia; repeat apply Z.mul_nonneg_nonneg; lia.
Qed.
Lemma roots_cost_nonneg p n u : prices_nonneg p -> roots_cost p n = Ok u -> usage_nonneg u.
Proof.
  intros (P1 & P2 & P3 & P4 & P5 & P6) F. unfold roots_cost in F. inv_ok. subst. unfold usage_nonneg. cbn [u_rpc u_storage u_egress u_ingress u_fund u_risked].
  pose proof (round4k_nonneg (w64 (32 * n))). repeat split; try lia; repeat apply Z.mul_nonneg_nonneg; lia.
Qed.

(* ---- revisions are accepted by consensus ---- *)
Section Consensus.
Variable H : bytes -> bytes.
Variable net : lnetwork.
Variable vt : vtab.
Variable pt : ptab.
Variable se sd : bytes.
Notation validate_revision := (validate_revision net vt).
Notation validate_contract := (validate_contract vt).
Notation validate_renewal := (validate_renewal vt).
Notation check_sigs := (check_sigs vt).

(* the consensus-side facts about the contract being revised (it is in the store, unrevised in this block, its
   proof window has not opened) and the physical guards on uint64 fields *)
Definition revisable (s : lstate) (m : mid) (e : fce2) : Prop :=
  elem_idx m (v2_id e) = None /\ child s <= c_proof_height (v2_fc e) /\
  c_proof_height (v2_fc e) < c_exp_height (v2_fc e) /\
  0 <= c_filesize (v2_fc e) /\ c_filesize (v2_fc e) <= c_capacity (v2_fc e) /\ c_capacity (v2_fc e) < W64 /\
  0 <= c_revnum (v2_fc e) /\ c_revnum (v2_fc e) + 1 < W64.

(* the contract handed to PayWithContract may differ from the stored one in its data fields only *)
Definition same_terms (a b : fc2) : Prop :=
  c_renter a = c_renter b /\ c_host a = c_host b /\ c_missed_host a = c_missed_host b /\ c_collateral a = c_collateral b /\
  c_revnum a = c_revnum b /\ c_proof_height a = c_proof_height b /\ c_exp_height a = c_exp_height b /\
  c_renter_key a = c_renter_key b /\ c_host_key a = c_host_key b.

Ltac split_ifs :=
  repeat match goal with |- context [if ?c then _ else _] =>
    match c with
    | context [vlookup] => fail 1
    | _ => destruct c eqn:?; try lia
    end end.

Lemma revision_accepted s m e fc1 u rev root : Inv (v2_fc e) -> usage_nonneg u -> revisable s m e ->
  same_terms fc1 (v2_fc e) -> c_capacity (v2_fc e) <= c_capacity fc1 -> c_filesize fc1 <= c_capacity fc1 ->
  pay_with_contract fc1 u = Ok rev ->
  let rev' := fc_data rev (c_capacity rev) (c_filesize rev) root in
  (forall a b c, validate_revision s m e (fc_sign rev' a b c) = check_sigs (fc_sign rev' a b c) (c_renter_key (v2_fc e)) (c_host_key (v2_fc e))) /\
  sco_value (c_renter rev') + sco_value (c_host rev') = sco_value (c_renter (v2_fc e)) + sco_value (c_host (v2_fc e)) /\
  c_missed_host rev' <= c_missed_host (v2_fc e) /\ c_collateral rev' = c_collateral (v2_fc e) /\ Inv rev'.
Proof.
  intros I U (RE & R1 & R2 & R3 & R4 & R5 & R6 & R7) (T1 & T2 & T3 & T4 & T5 & T6 & T7 & T8 & T9) C1 C2 P rev'.
  assert (I1' : Inv fc1) by (unfold Inv in *; rewrite T1, T2, T3, T4; exact I).
  destruct (pay_exact _ _ _ I1' U P) as (cost & RC & Sum & Ch & Cd & Ms & Ml & Col & Rn & Cap & Fs & Ph & Eh & Rk & Hk & I').
  destruct I as (I1 & I2 & I3 & I4 & I5). destruct I' as (J1 & J2 & J3 & J4 & J5).
  subst rev'. split; [intros sa sb sc; unfold Validate.validate_revision; rewrite RE; cbn [bind]|].
  all: cbn [fc_sign fc_data c_renter c_host c_missed_host c_collateral c_revnum c_capacity c_filesize c_proof_height c_exp_height
                   c_renter_key c_host_key].
  - rewrite (cadd_is_ok _ _ I5). cbn [bind]. rewrite (cadd_is_ok _ _ J5). cbn [bind].
    rewrite Cap, Fs, Ph, Eh, Col, Rn, T4, T5, T6, T7.
    assert (W : w64 (c_revnum (v2_fc e) + 1) = c_revnum (v2_fc e) + 1) by (unfold w64; apply Z.mod_small; lia).
    rewrite W. rewrite T1, T2, T3 in *.
    split_ifs. reflexivity.
  - rewrite T1, T2, T3, T4 in *. unfold Inv; cbn [fc_data c_renter c_host c_missed_host c_collateral]; repeat split; try lia.
Qed.

Lemma same_terms_data fc cap fs root : same_terms (fc_data fc cap fs root) fc.
Proof. unfold same_terms. cbn. repeat split. Qed.

(* a revision that only pays (same sizes) *)
Lemma fc_data_id rev : fc_data rev (c_capacity rev) (c_filesize rev) (c_root rev) = rev.
Proof. destruct rev; reflexivity. Qed.
Lemma same_terms_refl fc : same_terms fc fc.
Proof. unfold same_terms. repeat split. Qed.
Lemma pay_revision_accepted s m e u rev : Inv (v2_fc e) -> usage_nonneg u -> revisable s m e ->
  pay_with_contract (v2_fc e) u = Ok rev ->
  forall a b c, validate_revision s m e (fc_sign rev a b c) = check_sigs (fc_sign rev a b c) (c_renter_key (v2_fc e)) (c_host_key (v2_fc e)).
Proof.
  intros I U R P. pose proof R as (RE & R1 & R2 & R3 & R4 & R5 & R6 & R7).
  destruct (revision_accepted s m e (v2_fc e) u rev (c_root rev) I U R (same_terms_refl _)) as (V & _); auto; try lia.
Qed.

Definition money_result (e : fce2) (rev : fc2) (u : usage) : Prop :=
  sco_value (c_renter rev) + sco_value (c_host rev) = sco_value (c_renter (v2_fc e)) + sco_value (c_host (v2_fc e)) /\
  sco_value (c_renter (v2_fc e)) - sco_value (c_renter rev) = u_rpc u + u_storage u + u_egress u + u_ingress u + u_fund u /\
  c_missed_host (v2_fc e) - c_missed_host rev = u_risked u /\
  c_missed_host rev <= c_missed_host (v2_fc e) /\ c_collateral rev = c_collateral (v2_fc e).

(* ReviseForSectorRoots / ReviseForFundAccounts / ReviseForReplenish *)
Theorem revise_roots_accepted s m e p n rev u : Inv (v2_fc e) -> prices_nonneg p -> revisable s m e ->
  revise_roots (v2_fc e) p n = Ok (rev, u) ->
  (forall a b c, validate_revision s m e (fc_sign rev a b c) = check_sigs (fc_sign rev a b c) (c_renter_key (v2_fc e)) (c_host_key (v2_fc e))) /\ money_result e rev u /\ Inv rev.
Proof.
  intros I P R X. unfold revise_roots in X.
  apply bind_ok in X. destruct X as (u0 & E & X). apply bind_ok in X. destruct X as (fc' & E0 & X). inversion X as [[Hr Hu]]; subst fc' u0; clear X.
  pose proof (roots_cost_nonneg _ _ _ P E) as U.
  destruct (pay_exact _ _ _ I U E0) as (cost & RC & Sum & Ch & Cd & Ms & Ml & Col & _ & _ & _ & _ & _ & _ & _ & I').
  split; [intros; eapply pay_revision_accepted; eauto|]. split; [|exact I']. unfold money_result. repeat split; lia.
Qed.
Theorem revise_fund_accepted s m e amount rev u : Inv (v2_fc e) -> 0 <= amount -> revisable s m e ->
  revise_fund (v2_fc e) amount = Ok (rev, u) ->
  (forall a b c, validate_revision s m e (fc_sign rev a b c) = check_sigs (fc_sign rev a b c) (c_renter_key (v2_fc e)) (c_host_key (v2_fc e))) /\ money_result e rev u /\ Inv rev.
Proof.
  intros I A R X. unfold revise_fund in X.
  apply bind_ok in X. destruct X as (fc' & E & X). inversion X as [[Hr Hu]]; subst fc' u; clear X.
  assert (U : usage_nonneg (fund_usage amount)) by (unfold usage_nonneg, fund_usage; cbn; repeat split; lia).
  destruct (pay_exact _ _ _ I U E) as (cost & RC & Sum & Ch & Cd & Ms & Ml & Col & _ & _ & _ & _ & _ & _ & _ & I').
  split; [intros; eapply pay_revision_accepted; eauto|]. split; [|exact I']. unfold money_result. repeat split; lia.
Qed.

(* ReviseForAppendSectors: appended sectors fit in uint64 (physical guard) *)
Theorem revise_append_accepted s m e p root appended rev u : Inv (v2_fc e) -> prices_nonneg p -> revisable s m e ->
  0 <= appended -> c_capacity (v2_fc e) + SECTOR * appended < W64 ->
  revise_append (v2_fc e) p root appended = Ok (rev, u) ->
  (forall a b c, validate_revision s m e (fc_sign rev a b c) = check_sigs (fc_sign rev a b c) (c_renter_key (v2_fc e)) (c_host_key (v2_fc e))) /\ money_result e rev u /\ Inv rev /\
  c_filesize rev = c_filesize (v2_fc e) + SECTOR * appended /\ c_filesize rev <= c_capacity rev.
Proof.
  intros I P R A G X. pose proof R as (RE & R1 & R2 & R3 & R4 & R5 & R6 & R7).
  unfold revise_append in X.
  apply bind_ok in X. destruct X as (x & E & X). apply bind_ok in X. destruct X as (fc' & E0 & X). inversion X as [[Hr Hu]]; subst fc' x; clear X.
  set (fc := v2_fc e) in *.
  set (growth := appended - Z.min appended (w64 (c_capacity fc - c_filesize fc) / SECTOR)) in *.
  assert (Wd : w64 (c_capacity fc - c_filesize fc) = c_capacity fc - c_filesize fc) by (unfold w64, W64 in *; apply Z.mod_small; lia).
  assert (G0 : 0 <= growth <= appended).
  { subst growth. rewrite Wd. unfold SECTOR. assert (0 <= (c_capacity fc - c_filesize fc) / 4194304) by (apply Z.div_pos; lia). lia. }
  assert (Wg : w64 (SECTOR * growth) = SECTOR * growth) by (unfold w64, W64, SECTOR in *; apply Z.mod_small; nia).
  assert (Wa : w64 (SECTOR * appended) = SECTOR * appended) by (unfold w64, W64, SECTOR in *; apply Z.mod_small; nia).
  assert (Wc : w64 (c_capacity fc + SECTOR * growth) = c_capacity fc + SECTOR * growth) by (unfold w64, W64, SECTOR in *; apply Z.mod_small; nia).
  assert (Wf : w64 (c_filesize fc + SECTOR * appended) = c_filesize fc + SECTOR * appended) by (unfold w64, W64, SECTOR in *; apply Z.mod_small; nia).
  rewrite Wg, Wa, Wc, Wf in *.
  assert (FC : c_filesize fc + SECTOR * appended <= c_capacity fc + SECTOR * growth).
  { subst growth. rewrite Wd. unfold SECTOR.
    pose proof (Z.div_mod (c_capacity fc - c_filesize fc) 4194304 ltac:(lia)).
    pose proof (Z.mod_pos_bound (c_capacity fc - c_filesize fc) 4194304 ltac:(lia)). lia. }
  assert (U : usage_nonneg u).
  { eapply (append_cost_nonneg p growth (w64 (c_exp_height fc - pr_tip p))); eauto; try lia. unfold w64, W64. apply Z.mod_pos_bound. lia. }
  set (fc1 := fc_data fc (c_capacity fc + SECTOR * growth) (c_filesize fc + SECTOR * appended) root) in *.
  assert (I1' : Inv fc1) by exact I.
  destruct (pay_exact _ _ _ I1' U E0) as (cost & RC & Sum & Ch & Cd & Ms & Ml & Col & _ & Cap & Fs & _ & _ & _ & _ & I').
  destruct (revision_accepted s m e fc1 u rev (c_root rev) I U R (same_terms_data _ _ _ _)) as (V & _); auto.
  { subst fc1. cbn [fc_data c_capacity]. fold fc. unfold SECTOR in *. lia. }
  rewrite fc_data_id in V. split; [exact V|]. split; [unfold money_result; subst fc1; cbn [fc_data c_renter c_host c_missed_host c_collateral] in *; subst fc; repeat split; lia|].
  split; [exact I'|]. rewrite Fs, Cap. subst fc1. cbn [fc_data c_filesize c_capacity]. split; [reflexivity | exact FC].
Qed.

(* ReviseForFreeSectors: the request's validation guarantees the deleted sectors exist *)
Theorem revise_free_accepted s m e p root deletions rev u : Inv (v2_fc e) -> prices_nonneg p -> revisable s m e ->
  0 <= deletions -> SECTOR * deletions <= c_filesize (v2_fc e) ->
  revise_free (v2_fc e) p root deletions = Ok (rev, u) ->
  (forall a b c, validate_revision s m e (fc_sign rev a b c) = check_sigs (fc_sign rev a b c) (c_renter_key (v2_fc e)) (c_host_key (v2_fc e))) /\ money_result e rev u /\ Inv rev /\
  c_filesize rev = c_filesize (v2_fc e) - SECTOR * deletions.
Proof.
  intros I P R D G X. pose proof R as (RE & R1 & R2 & R3 & R4 & R5 & R6 & R7).
  unfold revise_free in X.
  apply bind_ok in X. destruct X as (x & E & X). apply bind_ok in X. destruct X as (x0 & E0 & X). inversion X as [[Hr Hu]]; subst x; clear X.
  set (fc := v2_fc e) in *.
  assert (Wa : w64 (SECTOR * deletions) = SECTOR * deletions) by (unfold w64, W64, SECTOR in *; apply Z.mod_small; lia).
  assert (Wf : w64 (c_filesize fc - SECTOR * deletions) = c_filesize fc - SECTOR * deletions) by (unfold w64, W64, SECTOR in *; apply Z.mod_small; lia).
  rewrite Wa, Wf in *.
  pose proof (free_cost_nonneg _ _ _ P D E) as U.
  set (fc1 := fc_data fc (c_capacity fc) (c_filesize fc - SECTOR * deletions) (c_root fc)) in *.
  assert (I1' : Inv fc1) by exact I.
  destruct (pay_exact _ _ _ I1' U E0) as (cost & RC & Sum & Ch & Cd & Ms & Ml & Col & _ & Cap & Fs & _ & _ & _ & _ & I').
  destruct (revision_accepted s m e fc1 u x0 root I U R (same_terms_data _ _ _ _)) as (V & _ & _ & _ & I''); auto.
  { subst fc1. cbn [fc_data c_capacity]. fold fc. lia. }
  { subst fc1. cbn [fc_data c_capacity c_filesize]. unfold SECTOR in *. lia. }
  split; [exact V|]. split; [unfold money_result; subst fc1; cbn [fc_data c_renter c_host c_missed_host c_collateral] in *; subst fc; repeat split; lia|].
  split; [exact I''|]. cbn [fc_data c_filesize]. rewrite Fs. reflexivity.
Qed.


(* ---- formation ---- *)
Theorem new_contract_valid s p allowance collateral ph ra ha rk hk fc u fee :
  prices_nonneg p -> 0 < allowance -> 0 <= collateral -> 0 <= ph -> child s <= ph -> ph + PROOF_WINDOW < W64 -> 0 <= fee ->
  allowance + (collateral + pr_contract p) + (allowance + (collateral + pr_contract p)) / 25 + fee < C128 ->
  new_contract p allowance collateral ph ra ha rk hk = Ok (fc, u) ->
  validate_contract s fc = check_sigs fc (c_renter_key fc) (c_host_key fc) /\ Inv fc /\
  exists rc hc tx, contract_cost fc fee = Ok (rc, hc) /\ v2_tax fc = Ok tx /\
    rc + hc = sco_value (c_renter fc) + sco_value (c_host fc) + tx + fee /\ hc = c_collateral fc.
Proof.
  intros (P1 & P2 & P3 & P4 & P5 & P6) A C Hp Hh W F FUND X. unfold new_contract in X.
  apply bind_ok in X. destruct X as (hv & E & X). apply cadd_ok in E. destruct E as [-> Hlt].
  inversion X as [[Hf Hu]]; clear X. subst fc u.
  assert (We : w64 (ph + PROOF_WINDOW) = ph + PROOF_WINDOW) by (unfold w64; apply Z.mod_small; unfold PROOF_WINDOW in *; lia).
  assert (D : 0 <= (allowance + (collateral + pr_contract p)) / 25) by (apply Z.div_pos; lia).
  split; [|split].
  - unfold Validate.validate_contract. cbn [c_capacity c_filesize c_proof_height c_exp_height c_renter c_host c_missed_host c_collateral sco_value].
    rewrite We. unfold PROOF_WINDOW. split_ifs. reflexivity.
  - unfold Inv. cbn [c_renter c_host c_missed_host c_collateral sco_value]. lia.
  - unfold contract_cost, v2_tax. cbn [c_renter c_host c_collateral sco_value].
    rewrite csub_is_ok by lia. cbn [bind]. rewrite cadd_is_ok by lia. cbn [bind]. rewrite cadd_is_ok by lia. cbn [bind].
    rewrite (cadd_is_ok allowance (collateral + pr_contract p)) by lia. cbn [bind]. unfold cdiv64. cbn [Z.eqb bind].
    rewrite cadd_is_ok by lia. cbn [bind]. do 3 eexists. split; [reflexivity|]. split; [reflexivity|]. lia.
Qed.

End Consensus.
