(* RHP4 renewals / refreshes: exact split, cost identities, acceptance by the consensus renewal rules; v1 tax inversion; histories. *)
From Coq Require Import ZArith List Bool Lia ZifyBool.
From Sia Require Import Prim.Result Prim.Tok Ledger.Types Ledger.Mid Ledger.Validate Ledger.Proofs Rhp4.Model Rhp4.Proofs.
Import ListNotations.
Open Scope Z_scope.

Ltac split_ifs :=
  repeat match goal with |- context [if ?c then _ else _] =>
    match c with
    | context [vlookup] => fail 1
    | _ => destruct c eqn:?; try lia
    end end.
Section Renew.
Variable H : bytes -> bytes.
Variable net : lnetwork.
Variable vt : vtab.
Variable pt : ptab.
Notation validate_contract := (validate_contract vt).
Notation validate_renewal := (validate_renewal vt).
Notation check_sigs := (check_sigs vt).

Definition renewal_sigs_only (fc : fc2) (rn : renewal) : R unit :=
  do _ <- check_sigs (rn_new rn) (c_renter_key (rn_new rn)) (c_host_key (rn_new rn));
  if negb (vlookup vt (c_renter_key fc) (rn_sighash rn) (rn_renter_sig rn)) then err 134
  else if negb (vlookup vt (c_host_key fc) (rn_sighash rn) (rn_host_sig rn)) then err 135
  else Ok tt.
Definition new_total (rn : renewal) : Z := sco_value (c_renter (rn_new rn)) + sco_value (c_host (rn_new rn)).

Definition renewal_facts (s : lstate) (fc : fc2) (rn : renewal) (fee : Z) (cost : R (Z * Z)) : Prop :=
  sco_value (rn_final_renter rn) + rn_renter_rollover rn = sco_value (c_renter fc) /\
  sco_value (rn_final_host rn) + rn_host_rollover rn = sco_value (c_host fc) /\
  0 <= sco_value (rn_final_renter rn) /\ 0 <= sco_value (rn_final_host rn) /\
  (forall a b c d e f, let rn' := rn_sign rn a b c (fc_sign (rn_new rn) d e f) in
     validate_renewal s fc rn' = renewal_sigs_only fc rn') /\
  Inv (rn_new rn) /\
  rn_renter_rollover rn + rn_host_rollover rn <= new_total rn + new_total rn / 25 /\
  exists rc hc, cost = Ok (rc, hc) /\
    rc + hc + rn_renter_rollover rn + rn_host_rollover rn = new_total rn + new_total rn / 25 + fee.

Ltac finish_validate_renewal :=
  unfold Validate.validate_renewal, renewal_sigs_only;
  cbn [rn_sign fc_sign mk_renewal mk_new rn_new rn_final_renter rn_final_host rn_renter_rollover rn_host_rollover rn_sighash rn_renter_sig rn_host_sig
       c_renter_key c_host_key c_renter c_host set_value sco_value];
  rewrite !beq_refl; cbn [negb].

Theorem renew_contract_facts s fc p ha allowance collateral ph rn u fee :
  Inv fc -> prices_nonneg p -> 0 < allowance -> 0 <= collateral -> 0 <= fee ->
  0 <= ph -> child s <= ph -> ph + PROOF_WINDOW < W64 -> 0 <= c_filesize fc ->
  renew_contract fc p ha allowance collateral ph = Ok (rn, u) ->
  new_total rn + new_total rn / 25 + fee < C128 ->
  renewal_facts s fc rn fee (renewal_cost rn fee).
Proof.
  intros (I1 & I2 & I3 & I4 & I5) (P1 & P2 & P3 & P4 & P5 & P6) A C F Hp Hh W FS X FUND.
  assert (We : w64 (ph + PROOF_WINDOW) = ph + PROOF_WINDOW) by (unfold w64; apply Z.mod_small; unfold PROOF_WINDOW in *; lia).
  unfold renew_contract in X. rewrite We in X.
  apply bind_ok in X. destruct X as (r1 & E1 & X). apply bind_ok in X. destruct X as (risked & E2 & X).
  apply bind_ok in X. destruct X as (total & E3 & X). apply bind_ok in X. destruct X as (s1 & E4 & X).
  apply bind_ok in X. destruct X as (storage & E5 & X). apply bind_ok in X. destruct X as (h1 & E6 & X).
  apply bind_ok in X. destruct X as (hv & E7 & X). apply bind_ok in X. destruct X as (fh & E8 & X).
  apply bind_ok in X. destruct X as (fr & E9 & X). apply bind_ok in X. destruct X as (us1 & E10 & X).
  apply bind_ok in X. destruct X as (us & E11 & X). apply bind_ok in X. destruct X as (rk & E12 & X).
  inversion X as [[Hrn Hu]]; clear X Hu E10 E11 E12.
  apply cmul64_ok in E1, E2, E4, E5. apply cadd_ok in E3, E6, E7. apply csub_ok in E8, E9.
  destruct E1 as [-> B1]. destruct E2 as [-> B2]. destruct E3 as [-> B3]. destruct E4 as [-> B4]. destruct E5 as [-> B5].
  destruct E6 as [-> B6]. destruct E7 as [-> B7]. destruct E8 as [-> B8]. destruct E9 as [-> B9].
  set (dur := w64 (ph + PROOF_WINDOW - pr_tip p)) in *.
  assert (D0 : 0 <= dur) by (subst dur; unfold w64, W64; apply Z.mod_pos_bound; lia).
  set (risked := pr_collateral p * c_filesize fc * dur) in *.
  set (storage := pr_storage p * c_filesize fc * w64 (ph + PROOF_WINDOW - c_exp_height fc)) in *.
  assert (R0 : 0 <= risked) by (subst risked; repeat apply Z.mul_nonneg_nonneg; lia).
  assert (S0 : 0 <= storage).
  { subst storage. repeat apply Z.mul_nonneg_nonneg; try lia. unfold w64, W64. apply Z.mod_pos_bound. lia. }
  set (hr := if collateral + risked <? c_collateral fc then collateral + risked else c_collateral fc) in *.
  set (rr := if allowance <? sco_value (c_renter fc) then allowance else sco_value (c_renter fc)) in *.
  assert (HR : 0 <= hr <= collateral + risked /\ hr <= c_collateral fc) by (subst hr; destruct (collateral + risked <? c_collateral fc) eqn:?; lia).
  assert (RR : 0 <= rr <= allowance /\ rr <= sco_value (c_renter fc)) by (subst rr; destruct (allowance <? sco_value (c_renter fc)) eqn:?; lia).
  subst rn. unfold new_total in *.
  cbn [mk_renewal mk_new rn_new rn_final_renter rn_final_host rn_renter_rollover rn_host_rollover c_renter c_host c_missed_host c_collateral set_value sco_value] in FUND.
  set (T := allowance + (collateral + risked + storage + pr_contract p)) in *.
  assert (T0 : 0 <= T / 25) by (apply Z.div_pos; subst T; lia).
  assert (TB : allowance + (collateral + risked + storage + pr_contract p) < C128) by (fold T; lia).
  unfold renewal_facts, new_total.
  cbn [mk_renewal mk_new rn_new rn_final_renter rn_final_host rn_renter_rollover rn_host_rollover c_renter c_host c_missed_host c_collateral set_value sco_value].
  fold T.
  split; [lia|]. split; [lia|]. split; [lia|]. split; [lia|]. split; [|split; [|split]].
  - intros sa sb sc sd se sf. cbv zeta. finish_validate_renewal.
    rewrite (cadd_is_ok (sco_value (c_renter fc) - rr) rr) by lia. cbn [bind].
    rewrite cadd_is_ok by lia. cbn [bind]. rewrite cadd_is_ok by lia. cbn [bind]. rewrite (cadd_is_ok _ _ I5). cbn [bind].
    replace (sco_value (c_renter fc) - rr + rr + (sco_value (c_host fc) - hr) + hr =? sco_value (c_renter fc) + sco_value (c_host fc)) with true by lia.
    cbn [negb].
    rewrite (cadd_is_ok allowance) by exact TB. cbn [bind]. fold T.
    unfold v2_tax. cbn [fc_sign mk_new c_renter c_host set_value sco_value]. rewrite (cadd_is_ok allowance) by exact TB. fold T. cbn [bind].
    unfold cdiv64. cbn [Z.eqb bind]. rewrite cadd_is_ok by lia. cbn [bind]. rewrite cadd_is_ok by lia. cbn [bind].
    destruct (T + T / 25 <? rr + hr) eqn:Q; [lia|].
    unfold Validate.validate_contract. cbn [fc_sign mk_new c_capacity c_filesize c_proof_height c_exp_height c_renter c_host c_missed_host c_collateral set_value sco_value].
    unfold PROOF_WINDOW in *. split_ifs. cbn [fc_sign mk_new c_renter_key c_host_key]. reflexivity.
  - unfold Inv. cbn [mk_new c_renter c_host c_missed_host c_collateral set_value sco_value]. lia.
  - lia.
  - unfold renewal_cost, v2_tax. cbn [mk_renewal mk_new rn_new rn_renter_rollover rn_host_rollover c_renter c_host c_collateral set_value sco_value].
    rewrite csub_is_ok by lia. cbn [bind]. rewrite cadd_is_ok by lia. cbn [bind]. rewrite cadd_is_ok by lia. cbn [bind].
    rewrite (cadd_is_ok allowance) by exact TB. cbn [bind]. unfold cdiv64. cbn [Z.eqb bind]. fold T.
    rewrite cadd_is_ok by lia. cbn [bind]. rewrite csub_is_ok by lia. cbn [bind]. rewrite csub_is_ok by lia. cbn [bind].
    do 2 eexists. split; [reflexivity|]. lia.
Qed.

Theorem refresh_partial_facts s fc p ha allowance collateral rn u fee :
  Inv fc -> prices_nonneg p -> 0 < allowance -> 0 <= collateral -> 0 <= fee ->
  child s <= c_proof_height fc -> c_proof_height fc < c_exp_height fc -> c_filesize fc <= c_capacity fc ->
  refresh_partial fc p ha allowance collateral = Ok (rn, u) ->
  new_total rn + new_total rn / 25 + fee < C128 ->
  renewal_facts s fc rn fee (refresh_cost p rn fee).
Proof.
  intros (I1 & I2 & I3 & I4 & I5) (P1 & P2 & P3 & P4 & P5 & P6) A C F Hh W FS X FUND.
  unfold refresh_partial, risked_revenue, risked_collateral in X.
  apply bind_ok in X. destruct X as (rev & E1 & X). apply bind_ok in X. destruct X as (rc & E2 & X).
  apply bind_ok in X. destruct X as (h1 & E3 & X). apply bind_ok in X. destruct X as (h2 & E4 & X).
  apply bind_ok in X. destruct X as (hv & E5 & X). apply bind_ok in X. destruct X as (rc' & E6 & X).
  apply bind_ok in X. destruct X as (total & E7 & X). apply bind_ok in X. destruct X as (hf & E8 & X).
  apply bind_ok in X. destruct X as (fh & E9 & X). apply bind_ok in X. destruct X as (rf & E10 & X).
  apply bind_ok in X. destruct X as (fr & E11 & X). apply bind_ok in X. destruct X as (rk & E12 & X).
  inversion X as [[Hrn Hu]]; clear X Hu E12.
  apply csub_ok in E1, E2, E6, E8, E9, E11. apply cadd_ok in E3, E4, E5, E7, E10.
  destruct E1 as [-> B1]. destruct E2 as [-> B2]. destruct E3 as [-> B3]. destruct E4 as [-> B4]. destruct E5 as [-> B5].
  destruct E6 as [-> B6]. destruct E7 as [-> B7]. destruct E8 as [-> B8].
  set (hv := sco_value (c_host fc) - c_collateral fc + (c_collateral fc - c_missed_host fc) + collateral + pr_contract p) in *.
  set (hr := if hv - pr_contract p <? sco_value (c_host fc) then hv - pr_contract p else sco_value (c_host fc)) in *.
  destruct E9 as [-> B9]. destruct E10 as [-> B10].
  set (rr := if allowance + pr_contract p <? sco_value (c_renter fc) then allowance + pr_contract p else sco_value (c_renter fc)) in *.
  destruct E11 as [-> B11].
  assert (HR : 0 <= hr <= hv - pr_contract p /\ hr <= sco_value (c_host fc))
    by (subst hr; destruct (hv - pr_contract p <? sco_value (c_host fc)) eqn:?; subst hv; lia).
  assert (RR : 0 <= rr <= allowance + pr_contract p /\ rr <= sco_value (c_renter fc))
    by (subst rr; destruct (allowance + pr_contract p <? sco_value (c_renter fc)) eqn:?; lia).
  assert (HV : hv = sco_value (c_host fc) - c_missed_host fc + collateral + pr_contract p) by (subst hv; lia).
  subst rn. unfold new_total in *.
  cbn [mk_renewal mk_new rn_new rn_final_renter rn_final_host rn_renter_rollover rn_host_rollover c_renter c_host c_missed_host c_collateral set_value sco_value] in FUND.
  set (T := allowance + hv) in *.
  assert (T0 : 0 <= T / 25) by (apply Z.div_pos; subst T; lia).
  assert (TB : allowance + hv < C128) by (fold T; lia).
  unfold renewal_facts, new_total.
  cbn [mk_renewal mk_new rn_new rn_final_renter rn_final_host rn_renter_rollover rn_host_rollover c_renter c_host c_missed_host c_collateral set_value sco_value].
  fold T.
  split; [lia|]. split; [lia|]. split; [lia|]. split; [lia|]. split; [|split; [|split]].
  - intros sa sb sc sd se sf. cbv zeta. finish_validate_renewal.
    rewrite (cadd_is_ok (sco_value (c_renter fc) - rr) rr) by lia. cbn [bind].
    rewrite cadd_is_ok by lia. cbn [bind]. rewrite cadd_is_ok by lia. cbn [bind]. rewrite (cadd_is_ok _ _ I5). cbn [bind].
    replace (sco_value (c_renter fc) - rr + rr + (sco_value (c_host fc) - hr) + hr =? sco_value (c_renter fc) + sco_value (c_host fc)) with true by lia.
    cbn [negb].
    rewrite (cadd_is_ok allowance) by exact TB. cbn [bind]. fold T.
    unfold v2_tax. cbn [fc_sign mk_new c_renter c_host set_value sco_value]. rewrite (cadd_is_ok allowance) by exact TB. fold T. cbn [bind].
    unfold cdiv64. cbn [Z.eqb bind]. rewrite cadd_is_ok by lia. cbn [bind]. rewrite cadd_is_ok by lia. cbn [bind].
    destruct (T + T / 25 <? rr + hr) eqn:Q; [subst T; lia|].
    unfold Validate.validate_contract. cbn [fc_sign mk_new c_capacity c_filesize c_proof_height c_exp_height c_renter c_host c_missed_host c_collateral set_value sco_value].
    split_ifs. cbn [fc_sign mk_new c_renter_key c_host_key]. reflexivity.
  - unfold Inv. cbn [mk_new c_renter c_host c_missed_host c_collateral set_value sco_value]. lia.
  - subst T. lia.
  - unfold refresh_cost, v2_tax. cbn [mk_renewal mk_new rn_new rn_renter_rollover rn_host_rollover c_renter c_host c_collateral set_value sco_value].
    rewrite cadd_is_ok by lia. cbn [bind]. rewrite csub_is_ok by lia. cbn [bind]. rewrite cadd_is_ok by (subst T; lia). cbn [bind].
    rewrite (cadd_is_ok allowance) by exact TB. cbn [bind]. unfold cdiv64. cbn [Z.eqb bind]. fold T.
    rewrite cadd_is_ok by (subst T; lia). cbn [bind]. rewrite csub_is_ok by lia. cbn [bind]. rewrite csub_is_ok by lia. cbn [bind].
    do 2 eexists. split; [reflexivity|]. subst T. lia.
Qed.

Theorem refresh_full_facts s fc p ha allowance collateral rn u fee :
  Inv fc -> prices_nonneg p -> 0 < allowance -> 0 <= collateral -> 0 <= fee ->
  child s <= c_proof_height fc -> c_proof_height fc < c_exp_height fc -> c_filesize fc <= c_capacity fc ->
  refresh_full fc p ha allowance collateral = Ok (rn, u) ->
  new_total rn + new_total rn / 25 + fee < C128 ->
  renewal_facts s fc rn fee (refresh_cost p rn fee).
Proof.
  intros (I1 & I2 & I3 & I4 & I5) (P1 & P2 & P3 & P4 & P5 & P6) A C F Hh W FS X FUND.
  unfold refresh_full, risked_collateral in X.
  apply bind_ok in X. destruct X as (rv & E1 & X). apply bind_ok in X. destruct X as (h1 & E2 & X).
  apply bind_ok in X. destruct X as (hv & E3 & X). apply bind_ok in X. destruct X as (mv & E4 & X).
  apply bind_ok in X. destruct X as (total & E5 & X). apply bind_ok in X. destruct X as (rk & E6 & X).
  inversion X as [[Hrn Hu]]; clear X Hu E6.
  apply cadd_ok in E1, E2, E3, E4, E5.
  destruct E1 as [-> B1]. destruct E2 as [-> B2]. destruct E3 as [-> B3]. destruct E4 as [-> B4]. destruct E5 as [-> B5].
  subst rn. unfold new_total in *.
  cbn [mk_renewal mk_new rn_new rn_final_renter rn_final_host rn_renter_rollover rn_host_rollover c_renter c_host c_missed_host c_collateral set_value sco_value] in FUND.
  set (T := sco_value (c_renter fc) + allowance + (sco_value (c_host fc) + collateral + pr_contract p)) in *.
  assert (T0 : 0 <= T / 25) by (apply Z.div_pos; subst T; lia).
  assert (TB : sco_value (c_renter fc) + allowance + (sco_value (c_host fc) + collateral + pr_contract p) < C128) by (fold T; lia).
  unfold renewal_facts, new_total.
  cbn [mk_renewal mk_new rn_new rn_final_renter rn_final_host rn_renter_rollover rn_host_rollover c_renter c_host c_missed_host c_collateral set_value sco_value].
  fold T.
  split; [lia|]. split; [lia|]. split; [lia|]. split; [lia|]. split; [|split; [|split]].
  - intros sa sb sc sd se sf. cbv zeta. finish_validate_renewal.
    rewrite (cadd_is_ok 0 (sco_value (c_renter fc))) by lia. cbn [bind].
    rewrite cadd_is_ok by lia. cbn [bind]. rewrite cadd_is_ok by lia. cbn [bind]. rewrite (cadd_is_ok _ _ I5). cbn [bind].
    replace (0 + sco_value (c_renter fc) + 0 + sco_value (c_host fc) =? sco_value (c_renter fc) + sco_value (c_host fc)) with true by lia.
    cbn [negb].
    rewrite (cadd_is_ok (sco_value (c_renter fc) + allowance)) by exact TB. cbn [bind]. fold T.
    unfold v2_tax. cbn [fc_sign mk_new c_renter c_host set_value sco_value]. rewrite (cadd_is_ok (sco_value (c_renter fc) + allowance)) by exact TB. fold T. cbn [bind].
    unfold cdiv64. cbn [Z.eqb bind]. repeat (rewrite cadd_is_ok by lia; cbn [bind]).
    destruct (T + T / 25 <? sco_value (c_renter fc) + sco_value (c_host fc)) eqn:Q; [subst T; lia|].
    unfold Validate.validate_contract. cbn [fc_sign mk_new c_capacity c_filesize c_proof_height c_exp_height c_renter c_host c_missed_host c_collateral set_value sco_value].
    split_ifs. cbn [fc_sign mk_new c_renter_key c_host_key]. reflexivity.
  - unfold Inv. cbn [mk_new c_renter c_host c_missed_host c_collateral set_value sco_value]. lia.
  - subst T. lia.
  - unfold refresh_cost, v2_tax. cbn [mk_renewal mk_new rn_new rn_renter_rollover rn_host_rollover c_renter c_host c_collateral set_value sco_value].
    rewrite cadd_is_ok by lia. cbn [bind]. rewrite csub_is_ok by lia. cbn [bind]. rewrite cadd_is_ok by (subst T; lia). cbn [bind].
    rewrite (cadd_is_ok (sco_value (c_renter fc) + allowance)) by exact TB. cbn [bind]. unfold cdiv64. cbn [Z.eqb bind]. fold T.
    rewrite cadd_is_ok by (subst T; lia). cbn [bind]. rewrite csub_is_ok by lia. cbn [bind]. rewrite csub_is_ok by lia. cbn [bind].
    do 2 eexists. split; [reflexivity|]. subst T. lia.
Qed.
End Renew.

(* ---- v1-era payouts ---- *)
Ltac Zify.zify_post_hook ::= Z.div_mod_to_equations.
Theorem tax_inversion target : 0 <= target ->
  tax_adjusted_payout target - fc_tax (tax_adjusted_payout target) = target.
Proof.
  intros Hn. unfold tax_adjusted_payout, fc_tax.
  destruct (Z.ltb_spec ((target * 1000 / 961) mod 10000) (target mod 10000)); lia.
Qed.
Theorem tax_inversion_nonneg target : 10000 <= target -> 0 <= tax_adjusted_payout target.
Proof. intros Hn. unfold tax_adjusted_payout. destruct (Z.ltb_spec ((target * 1000 / 961) mod 10000) (target mod 10000)); lia. Qed.

(* ---- histories: every sequence of revision constructors from a reachable contract stays reachable ---- *)
Inductive rop := OAppend (root : bytes) (n : Z) | OFree (root : bytes) (n : Z) | ORoots (n : Z) | OFund (amount : Z).
Definition rop_ok (o : rop) : Prop :=
  match o with OAppend _ n => 0 <= n | OFree _ n => 0 <= n | ORoots _ => True | OFund a => 0 <= a end.
Definition rstep (p : prices) (fc : fc2) (o : rop) : fc2 :=
  match (match o with
         | OAppend r n => revise_append fc p r n
         | OFree r n => revise_free fc p r n
         | ORoots n => revise_roots fc p n
         | OFund a => revise_fund fc a
         end) with
  | Ok (fc', _) => fc'
  | _ => fc            (* a refused or failed revision leaves the contract as it was *)
  end.

Definition Inv' (fc : fc2) : Prop := Inv fc /\ 0 <= c_revnum fc.
Lemma pay_inv' fc1 u rev : Inv' fc1 -> usage_nonneg u -> pay_with_contract fc1 u = Ok rev ->
  Inv' rev /\ c_revnum rev <= c_revnum fc1 + 1 /\
  sco_value (c_renter rev) + sco_value (c_host rev) = sco_value (c_renter fc1) + sco_value (c_host fc1) /\
  c_collateral rev = c_collateral fc1 /\ c_missed_host rev <= c_missed_host fc1 /\ sco_value (c_renter rev) <= sco_value (c_renter fc1).
Proof.
  intros [I R0] U P.
  destruct (pay_exact _ _ _ I U P) as (cost & RC & Sum & Ch & Cd & Ms & Ml & Col & Rn & _ & _ & _ & _ & _ & _ & I').
  destruct U as (U1 & U2 & U3 & U4 & U5 & U6).
  assert (0 <= w64 (c_revnum fc1 + 1) <= c_revnum fc1 + 1).
  { unfold w64, W64. split; [apply Z.mod_pos_bound; lia | apply Z.mod_le; lia]. }
  unfold Inv'. rewrite Rn. split; [split; [exact I' | lia]|]. repeat split; lia.
Qed.

Lemma fc_data_inv' fc cap fs root : Inv' fc -> Inv' (fc_data fc cap fs root).
Proof. intros H. exact H. Qed.

Lemma rstep_inv p fc o : prices_nonneg p -> rop_ok o -> Inv' fc ->
  Inv' (rstep p fc o) /\ c_revnum (rstep p fc o) <= c_revnum fc + 1 /\
  sco_value (c_renter (rstep p fc o)) + sco_value (c_host (rstep p fc o)) = sco_value (c_renter fc) + sco_value (c_host fc) /\
  c_collateral (rstep p fc o) = c_collateral fc /\ c_missed_host (rstep p fc o) <= c_missed_host fc /\
  sco_value (c_renter (rstep p fc o)) <= sco_value (c_renter fc).
Proof.
  intros P O I. unfold rstep.
  assert (Same : Inv' fc /\ c_revnum fc <= c_revnum fc + 1 /\
                 sco_value (c_renter fc) + sco_value (c_host fc) = sco_value (c_renter fc) + sco_value (c_host fc) /\
                 c_collateral fc = c_collateral fc /\ c_missed_host fc <= c_missed_host fc /\ sco_value (c_renter fc) <= sco_value (c_renter fc))
    by (split; [exact I | repeat split; lia]).
  destruct o as [root n|root n|n|a]; cbn [rop_ok] in O.
  - destruct (revise_append fc p root n) as [[fc' u]| |] eqn:X; try exact Same.
    unfold revise_append in X. apply bind_ok in X. destruct X as (u0 & E & X). apply bind_ok in X. destruct X as (fc'' & E0 & X).
    inversion X; subst; clear X.
    eapply (pay_inv' _ _ _ (fc_data_inv' _ _ _ _ I)); [|exact E0].
    eapply (append_cost_nonneg _ _ _ _ P); [| |exact E].
    + generalize (w64 (c_capacity fc - c_filesize fc) / SECTOR). intros k. lia.
    + unfold w64, W64. apply Z.mod_pos_bound. lia.
  - destruct (revise_free fc p root n) as [[fc' u]| |] eqn:X; try exact Same.
    unfold revise_free in X. apply bind_ok in X. destruct X as (u0 & E & X). apply bind_ok in X. destruct X as (fc'' & E0 & X).
    inversion X; subst; clear X.
    pose proof (free_cost_nonneg _ _ _ P O E) as U.
    destruct (pay_inv' _ _ _ (fc_data_inv' fc (c_capacity fc) (w64 (c_filesize fc - w64 (SECTOR * n))) (c_root fc) I) U E0) as (A & B & C & D & F & G).
    cbn [fc_data c_renter c_host c_missed_host c_collateral c_revnum] in *. split; [exact A | repeat split; lia].
  - destruct (revise_roots fc p n) as [[fc' u]| |] eqn:X; try exact Same.
    unfold revise_roots in X. apply bind_ok in X. destruct X as (u0 & E & X). apply bind_ok in X. destruct X as (fc'' & E0 & X).
    inversion X; subst; clear X.
    eapply pay_inv'; eauto. eapply roots_cost_nonneg; eauto.
  - destruct (revise_fund fc a) as [[fc' u]| |] eqn:X; try exact Same.
    unfold revise_fund in X. apply bind_ok in X. destruct X as (fc'' & E0 & X). inversion X; subst; clear X.
    eapply pay_inv'; eauto. unfold usage_nonneg, fund_usage; cbn; repeat split; lia.
Qed.

(* over any history of revision requests: the contract stays reachable (so every accepted request yields a
   consensus-valid revision by the theorems above), its total value and total collateral never change, the
   host's missed value and the renter's value never increase, and the revision number is at most the
   number of requests (it cannot wrap before 2^64 requests) *)
Theorem history_invariant p fc0 ops : prices_nonneg p -> Forall rop_ok ops -> Inv' fc0 ->
  let fc := fold_left (rstep p) ops fc0 in
  Inv' fc /\ c_revnum fc <= c_revnum fc0 + Z.of_nat (length ops) /\
  sco_value (c_renter fc) + sco_value (c_host fc) = sco_value (c_renter fc0) + sco_value (c_host fc0) /\
  c_collateral fc = c_collateral fc0 /\ c_missed_host fc <= c_missed_host fc0 /\
  sco_value (c_renter fc) <= sco_value (c_renter fc0).
Proof.
  intros P O. revert fc0. induction O as [|o ops Ho _ IH]; intros fc0 I; cbn [fold_left length].
  - split; [exact I | repeat split; lia].
  - destruct (rstep_inv p fc0 o P Ho I) as (I1 & R1 & S1 & C1 & M1 & V1).
    destruct (IH _ I1) as (I2 & R2 & S2 & C2 & M2 & V2).
    split; [exact I2 | repeat split; lia].
Qed.
