(* RHP4 contract constructors and cost functions (rhp/v4/rhp.go), over the ledger model's v2 contract
   record.  Currency arithmetic is the checked arithmetic of the implementation (a panic on overflow or
   underflow is an explicit Panic); uint64 arithmetic wraps (written out as w64). *)
From Coq Require Import ZArith List Bool.
From Sia Require Import Prim.Result Prim.Tok Ledger.Types Ledger.Mid.
Import ListNotations.
Open Scope Z_scope.

Definition SECTOR : Z := 4194304.
Definition PROOF_WINDOW : Z := 144.
Definition W64 : Z := 2 ^ 64.
Definition w64 (x : Z) : Z := x mod W64.

Record prices := { pr_contract : Z; pr_collateral : Z; pr_storage : Z; pr_ingress : Z; pr_egress : Z; pr_free : Z; pr_tip : Z }.
Record usage := { u_rpc : Z; u_storage : Z; u_egress : Z; u_ingress : Z; u_fund : Z; u_risked : Z }.
Definition u_zero : usage := {| u_rpc := 0; u_storage := 0; u_egress := 0; u_ingress := 0; u_fund := 0; u_risked := 0 |}.

(* Usage.RenterCost *)
Definition renter_cost (u : usage) : R Z :=
  do a <- cadd (u_rpc u) (u_storage u); do b <- cadd a (u_egress u); do c <- cadd b (u_ingress u); cadd c (u_fund u).

(* round4KiB on uint64 *)
Definition round4k (n : Z) : Z := let m := w64 (n + 4095) in m - m mod 4096.

Definition free_cost (p : prices) (sectors : Z) : R usage :=
  do r <- cmul64 (pr_free p) sectors;
  Ok {| u_rpc := r; u_storage := 0; u_egress := 0; u_ingress := 0; u_fund := 0; u_risked := 0 |}.
Definition append_cost (p : prices) (sectors duration : Z) : R usage :=
  do s1 <- cmul64 (pr_storage p) SECTOR; do s2 <- cmul64 s1 sectors; do s3 <- cmul64 s2 duration;
  do i <- cmul64 (pr_ingress p) (round4k (w64 (32 * sectors)));
  do c1 <- cmul64 (pr_collateral p) SECTOR; do c2 <- cmul64 c1 sectors; do c3 <- cmul64 c2 duration;
  Ok {| u_rpc := 0; u_storage := s3; u_egress := 0; u_ingress := i; u_fund := 0; u_risked := c3 |}.
Definition roots_cost (p : prices) (n : Z) : R usage :=
  do e <- cmul64 (pr_egress p) (round4k (w64 (32 * n)));
  Ok {| u_rpc := 0; u_storage := 0; u_egress := e; u_ingress := 0; u_fund := 0; u_risked := 0 |}.
Definition fund_usage (amount : Z) : usage :=
  {| u_rpc := 0; u_storage := 0; u_egress := 0; u_ingress := 0; u_fund := amount; u_risked := 0 |}.

Definition NOSIG : bytes := repeat 0%N 64.
Definition set_value (o : sco) (v : Z) : sco := {| sco_value := v; sco_addr := sco_addr o |}.

(* field updates of a contract *)
Definition fc_pay (fc : fc2) (renter host missed revnum : Z) : fc2 :=
  {| c_capacity := c_capacity fc; c_filesize := c_filesize fc; c_root := c_root fc; c_proof_height := c_proof_height fc;
     c_exp_height := c_exp_height fc; c_renter := set_value (c_renter fc) renter; c_host := set_value (c_host fc) host;
     c_missed_host := missed; c_collateral := c_collateral fc; c_renter_key := c_renter_key fc; c_host_key := c_host_key fc;
     c_revnum := revnum; c_renter_sig := NOSIG; c_host_sig := NOSIG; c_sighash := c_sighash fc; c_tax := c_tax fc |}.
Definition fc_data (fc : fc2) (capacity filesize : Z) (root : bytes) : fc2 :=
  {| c_capacity := capacity; c_filesize := filesize; c_root := root; c_proof_height := c_proof_height fc;
     c_exp_height := c_exp_height fc; c_renter := c_renter fc; c_host := c_host fc;
     c_missed_host := c_missed_host fc; c_collateral := c_collateral fc; c_renter_key := c_renter_key fc; c_host_key := c_host_key fc;
     c_revnum := c_revnum fc; c_renter_sig := c_renter_sig fc; c_host_sig := c_host_sig fc; c_sighash := c_sighash fc; c_tax := c_tax fc |}.

(* the parties sign what the constructors produce *)
Definition fc_sign (fc : fc2) (rs hs sh : bytes) : fc2 :=
  {| c_capacity := c_capacity fc; c_filesize := c_filesize fc; c_root := c_root fc; c_proof_height := c_proof_height fc;
     c_exp_height := c_exp_height fc; c_renter := c_renter fc; c_host := c_host fc;
     c_missed_host := c_missed_host fc; c_collateral := c_collateral fc; c_renter_key := c_renter_key fc; c_host_key := c_host_key fc;
     c_revnum := c_revnum fc; c_renter_sig := rs; c_host_sig := hs; c_sighash := sh; c_tax := c_tax fc |}.
Definition rn_sign (rn : renewal) (rs hs sh : bytes) (new' : fc2) : renewal :=
  {| rn_final_renter := rn_final_renter rn; rn_final_host := rn_final_host rn; rn_renter_rollover := rn_renter_rollover rn;
     rn_host_rollover := rn_host_rollover rn; rn_new := new'; rn_renter_sig := rs; rn_host_sig := hs; rn_sighash := sh;
     rn_new_id := rn_new_id rn |}.

(* error codes: 1 insufficient renter funds, 2 insufficient host collateral *)
Definition pay_with_contract (fc : fc2) (u : usage) : R fc2 :=
  do amount <- renter_cost u;
  let coll := u_risked u in
  if sco_value (c_renter fc) <? amount then err 1
  else if c_missed_host fc <? coll then err 2
  else
    do r <- csub (sco_value (c_renter fc)) amount;
    do h <- cadd (sco_value (c_host fc)) amount;
    do m <- csub (c_missed_host fc) coll;
    Ok (fc_pay fc r h m (w64 (c_revnum fc + 1))).

Definition revise_free (fc : fc2) (p : prices) (root : bytes) (deletions : Z) : R (fc2 * usage) :=
  let fc1 := fc_data fc (c_capacity fc) (w64 (c_filesize fc - w64 (SECTOR * deletions))) (c_root fc) in
  do u <- free_cost p deletions;
  do fc2' <- pay_with_contract fc1 u;
  Ok (fc_data fc2' (c_capacity fc2') (c_filesize fc2') root, u).

Definition revise_append (fc : fc2) (p : prices) (root : bytes) (appended : Z) : R (fc2 * usage) :=
  let growth := appended - Z.min appended (w64 (c_capacity fc - c_filesize fc) / SECTOR) in
  let fc1 := fc_data fc (w64 (c_capacity fc + w64 (SECTOR * growth))) (w64 (c_filesize fc + w64 (SECTOR * appended))) root in
  do u <- append_cost p growth (w64 (c_exp_height fc - pr_tip p));
  do fc2' <- pay_with_contract fc1 u;
  Ok (fc2', u).

Definition revise_roots (fc : fc2) (p : prices) (n : Z) : R (fc2 * usage) :=
  do u <- roots_cost p n; do fc' <- pay_with_contract fc u; Ok (fc', u).
Definition revise_fund (fc : fc2) (amount : Z) : R (fc2 * usage) :=
  do fc' <- pay_with_contract fc (fund_usage amount); Ok (fc', fund_usage amount).

(* NewContract *)
Definition new_contract (p : prices) (allowance collateral proof_height : Z) (renter_addr host_addr renter_key host_key : bytes) : R (fc2 * usage) :=
  do hv <- cadd collateral (pr_contract p);
  Ok ({| c_capacity := 0; c_filesize := 0; c_root := repeat 0%N 32; c_proof_height := proof_height;
         c_exp_height := w64 (proof_height + PROOF_WINDOW);
         c_renter := {| sco_value := allowance; sco_addr := renter_addr |};
         c_host := {| sco_value := hv; sco_addr := host_addr |};
         c_missed_host := collateral; c_collateral := collateral; c_renter_key := renter_key; c_host_key := host_key;
         c_revnum := 0; c_renter_sig := NOSIG; c_host_sig := NOSIG; c_sighash := []; c_tax := 0 |},
      {| u_rpc := pr_contract p; u_storage := 0; u_egress := 0; u_ingress := 0; u_fund := 0; u_risked := 0 |}).

Definition mk_new (fc : fc2) (capacity proof_height exp_height renter host missed collateral : Z) (host_addr : bytes) : fc2 :=
  {| c_capacity := capacity; c_filesize := c_filesize fc; c_root := c_root fc; c_proof_height := proof_height;
     c_exp_height := exp_height; c_renter := set_value (c_renter fc) renter;
     c_host := {| sco_value := host; sco_addr := host_addr |};
     c_missed_host := missed; c_collateral := collateral; c_renter_key := c_renter_key fc; c_host_key := c_host_key fc;
     c_revnum := 0; c_renter_sig := NOSIG; c_host_sig := NOSIG; c_sighash := c_sighash fc; c_tax := c_tax fc |}.
Definition mk_renewal (fc new : fc2) (final_renter final_host rr hr : Z) : renewal :=
  {| rn_final_renter := set_value (c_renter fc) final_renter; rn_final_host := set_value (c_host fc) final_host;
     rn_renter_rollover := rr; rn_host_rollover := hr; rn_new := new;
     rn_renter_sig := []; rn_host_sig := []; rn_sighash := []; rn_new_id := [] |}.
Definition risked_collateral (fc : fc2) : R Z := csub (c_collateral fc) (c_missed_host fc).
Definition risked_revenue (fc : fc2) : R Z := csub (sco_value (c_host fc)) (c_collateral fc).

(* RenewContract *)
Definition renew_contract (fc : fc2) (p : prices) (host_addr : bytes) (allowance collateral proof_height : Z) : R (renewal * usage) :=
  let exp := w64 (proof_height + PROOF_WINDOW) in
  do r1 <- cmul64 (pr_collateral p) (c_filesize fc); do risked <- cmul64 r1 (w64 (exp - pr_tip p));
  do total <- cadd collateral risked;
  do s1 <- cmul64 (pr_storage p) (c_filesize fc); do storage <- cmul64 s1 (w64 (exp - c_exp_height fc));
  do h1 <- cadd total storage; do hv <- cadd h1 (pr_contract p);
  let hr := if total <? c_collateral fc then total else c_collateral fc in
  do fh <- csub (sco_value (c_host fc)) hr;
  let rr := if allowance <? sco_value (c_renter fc) then allowance else sco_value (c_renter fc) in
  do fr <- csub (sco_value (c_renter fc)) rr;
  let new := mk_new fc (c_filesize fc) proof_height exp allowance hv collateral total host_addr in
  do us1 <- csub hv total; do us <- csub us1 (pr_contract p);
  do rk <- risked_collateral new;
  Ok (mk_renewal fc new fr fh rr hr,
      {| u_rpc := pr_contract p; u_storage := us; u_egress := 0; u_ingress := 0; u_fund := 0; u_risked := rk |}).

(* RefreshContractPartialRollover *)
Definition refresh_partial (fc : fc2) (p : prices) (host_addr : bytes) (allowance collateral : Z) : R (renewal * usage) :=
  do rev <- risked_revenue fc; do rc <- risked_collateral fc;
  do h1 <- cadd rev rc; do h2 <- cadd h1 collateral; do hv <- cadd h2 (pr_contract p);
  do rc' <- risked_collateral fc; do total <- cadd rc' collateral;
  do host_funds <- csub hv (pr_contract p);
  let hr := if host_funds <? sco_value (c_host fc) then host_funds else sco_value (c_host fc) in
  do fh <- csub (sco_value (c_host fc)) hr;
  do renter_funds <- cadd allowance (pr_contract p);
  let rr := if renter_funds <? sco_value (c_renter fc) then renter_funds else sco_value (c_renter fc) in
  do fr <- csub (sco_value (c_renter fc)) rr;
  let new := mk_new fc (c_capacity fc) (c_proof_height fc) (c_exp_height fc) allowance hv collateral total host_addr in
  do rk <- risked_collateral new;
  Ok (mk_renewal fc new fr fh rr hr,
      {| u_rpc := pr_contract p; u_storage := 0; u_egress := 0; u_ingress := 0; u_fund := 0; u_risked := rk |}).

(* RefreshContractFullRollover *)
Definition refresh_full (fc : fc2) (p : prices) (host_addr : bytes) (allowance collateral : Z) : R (renewal * usage) :=
  do rv <- cadd (sco_value (c_renter fc)) allowance;
  do h1 <- cadd (sco_value (c_host fc)) collateral; do hv <- cadd h1 (pr_contract p);
  do mv <- cadd (c_missed_host fc) collateral;
  do total <- cadd (c_collateral fc) collateral;
  let new := mk_new fc (c_capacity fc) (c_proof_height fc) (c_exp_height fc) rv hv mv total host_addr in
  do rk <- risked_collateral new;
  Ok (mk_renewal fc new 0 0 (sco_value (c_renter fc)) (sco_value (c_host fc)),
      {| u_rpc := pr_contract p; u_storage := 0; u_egress := 0; u_ingress := 0; u_fund := 0; u_risked := rk |}).

(* ContractCost / RenewalCost / RefreshCost: (renter, host) *)
Definition contract_cost (fc : fc2) (fee : Z) : R (Z * Z) :=
  do cc <- csub (sco_value (c_host fc)) (c_collateral fc);
  do a <- cadd (sco_value (c_renter fc)) cc; do b <- cadd a fee; do tx <- v2_tax fc; do r <- cadd b tx;
  Ok (r, c_collateral fc).
Definition renewal_cost (rn : renewal) (fee : Z) : R (Z * Z) :=
  let new := rn_new rn in
  do cc <- csub (sco_value (c_host new)) (c_collateral new);
  do a <- cadd (sco_value (c_renter new)) cc; do b <- cadd a fee; do tx <- v2_tax new; do c <- cadd b tx;
  do r <- csub c (rn_renter_rollover rn);
  do h <- csub (c_collateral new) (rn_host_rollover rn);
  Ok (r, h).
Definition refresh_cost (p : prices) (rn : renewal) (fee : Z) : R (Z * Z) :=
  let new := rn_new rn in
  do a <- cadd (sco_value (c_renter new)) (pr_contract p); do b <- csub a (rn_renter_rollover rn);
  do c <- cadd b fee; do tx <- v2_tax new; do r <- cadd c tx;
  do h1 <- csub (sco_value (c_host new)) (pr_contract p); do h <- csub h1 (rn_host_rollover rn);
  Ok (r, h).

(* MinRenterAllowance / MaxHostCollateral *)
Definition cmul (a b : Z) : R Z := if C128 <=? a * b then Panic POverflow else Ok (a * b).
Definition MAXCUR : Z := 2 ^ 128 - 1.
Definition min_renter_allowance (p : prices) (collateral : Z) : R Z :=
  if pr_collateral p =? 0 then Ok 0 else cmul (pr_storage p) (collateral / pr_collateral p).
Definition max_host_collateral (p : prices) (allowance : Z) : R Z :=
  if pr_storage p =? 0 then Ok MAXCUR else cmul (pr_collateral p) (allowance / pr_storage p).

(* ---- v1-era payouts (rhp/v2/contracts.go, rhp/v3) ---- *)
(* State.FileContractTax after the tax hardfork: payout*39/1000 rounded down to a multiple of the siafund count *)
Definition fc_tax (payout : Z) : Z := let t := payout * 39 / 1000 in t - t mod 10000.
(* taxAdjustedPayout *)
Definition tax_adjusted_payout (target : Z) : Z :=
  let guess := target * 1000 / 961 in
  let tm := target mod 10000 in let gm := guess mod 10000 in
  let guess := if gm <? tm then guess - 10000 else guess in
  guess + tm - gm.
