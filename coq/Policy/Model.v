(* types/policy.go: SpendPolicy.Verify and SpendPolicy.Address.
   Signature and preimage checks are oracles ([sigok], [preok]): the harness fills them with the
   answers of the real ed25519 / sha256 for the values that occur. *)
From Coq Require Import List NArith ZArith Bool.
From Sia Require Import Prim.Result Prim.Tok.
Import ListNotations.

Inductive policy :=
| PAbove (h : N)
| PAfter (t : Z)
| PPK (k : bytes)
| PHash (h : bytes)
| PThresh (n : N) (ps : list policy)
| POpaque (a : bytes)
| PUC (timelock : N) (keys : list (bytes * bytes)) (sigsreq : N).   (* (algorithm specifier, key) *)

Inductive perr := EHeight | ETime | ESig | EPre | EComplex | EUCSub | EExceeded | ENotReached
                | EOpaque | EEntropy | EUCNotReached | ESuperSig | ESuperPre.
Definition perr_code (e : perr) : Z :=
  match e with
  | EHeight => 1 | ETime => 2 | ESig => 3 | EPre => 4 | EComplex => 5 | EUCSub => 6 | EExceeded => 7
  | ENotReached => 8 | EOpaque => 9 | EEntropy => 10 | EUCNotReached => 11 | ESuperSig => 12 | ESuperPre => 13
  end%Z.

Section Verify.
Variable height : N.
Variable median : Z.
Variable sigok : bytes -> bytes -> bool.      (* key (32 bytes) -> signature -> VerifyHash(sigHash, sig) *)
Variable preok : bytes -> bytes -> bool.      (* hash -> preimage -> hash == sha256(preimage) *)
Variable spec_entropy spec_ed25519 : bytes.   (* the two 16-byte specifiers *)

Record st := mkSt { sigs : list bytes; pres : list bytes; total : N }.
Definition R := res perr st.

Definition bytes_eqb (a b : bytes) : bool := if list_eq_dec N.eq_dec a b then true else false.
Definition key32 (k : bytes) : bytes := firstn 32 (k ++ repeat 0%N 32).

(* legacy unlock conditions: walk the keys while signatures are still required and available *)
Fixpoint uc_walk (keys : list (bytes * bytes)) (req : N) (sg : list bytes) : res perr (N * list bytes) :=
  match keys with
  | [] => Ok (req, sg)
  | (alg, k) :: rest =>
    if (req =? 0)%N || (N.of_nat (length keys) <? req)%N || (N.of_nat (length sg) <? req)%N then Ok (req, sg)
    else if bytes_eqb alg spec_entropy then Err EEntropy
    else match sg with
         | [] => Ok (req, sg)                    (* unreachable: req <= length sg and req > 0 *)
         | s :: sg' =>
           if bytes_eqb alg spec_ed25519 then
             if sigok (key32 k) s then uc_walk rest (req - 1)%N sg' else uc_walk rest req sg
           else uc_walk rest (req - 1)%N sg'
         end
  end.

Definition is_uc (p : policy) := match p with PUC _ _ _ => true | _ => false end.
Definition is_opaque (p : policy) := match p with POpaque _ => true | _ => false end.

Fixpoint verify (p : policy) (s : st) : R :=
  match p with
  | PAbove h => if (h <=? height)%N then Ok s else Err EHeight
  | PAfter t => if (t <? median)%Z then Ok s else Err ETime
  | PPK k =>
    match sigs s with
    | sg :: rest => if sigok k sg then Ok (mkSt rest (pres s) (total s)) else Err ESig
    | [] => Err ESig
    end
  | PHash h =>
    match pres s with
    | pr :: rest => if preok h pr then Ok (mkSt (sigs s) rest (total s)) else Err EPre
    | [] => Err EPre
    end
  | PThresh n ps =>
    let tot := (total s + N.of_nat (length ps))%N in
    if (1024 <? tot)%N || (255 <? N.of_nat (length ps))%N then Err EComplex
    else
      (fix loop (ps : list policy) (satisfied : N) (s : st) : R :=
         match ps with
         | [] => if (satisfied =? n)%N then Ok s else Err ENotReached
         | sp :: rest =>
           if is_uc sp then Err EUCSub
           else if is_opaque sp then loop rest satisfied s
           else if (satisfied =? n)%N then Err EExceeded
           else match verify sp s with
                | Ok s' => loop rest (satisfied + 1)%N s'
                | Err e => Err e
                | Panic q => Panic q
                end
         end) ps 0%N (mkSt (sigs s) (pres s) tot)
  | POpaque _ => Err EOpaque
  | PUC tl keys req =>
    if (tl <=? height)%N then
      match uc_walk keys req (sigs s) with
      | Ok (req', sg') => if (req' =? 0)%N then Ok (mkSt sg' (pres s) (total s)) else Err EUCNotReached
      | Err e => Err e
      | Panic q => Panic q
      end
    else Err EHeight
  end.

Definition verify_policy (p : policy) (sg pr : list bytes) : res perr unit :=
  match verify p (mkSt sg pr 0) with
  | Ok s => match sigs s, pres s with
            | _ :: _, _ => Err ESuperSig
            | [], _ :: _ => Err ESuperPre
            | [], [] => Ok tt
            end
  | Err e => Err e
  | Panic q => Panic q
  end.
End Verify.

(* ---- encoding and address ---- *)
Section Address.
Variable H : bytes -> bytes.

Fixpoint le_bytes (n : nat) (x : N) : bytes :=
  match n with O => [] | S n' => N.modulo x 256 :: le_bytes n' (N.div x 256) end.
Definition u64 (x : N) : bytes := le_bytes 8 x.
Definition u8 (x : N) : bytes := [N.modulo x 256].
Definition time64 (t : Z) : bytes := u64 (Z.to_N (t mod 2 ^ 64)%Z).
Definition ascii_bytes (l : list N) : bytes := l.

Definition enc_uc (tl : N) (keys : list (bytes * bytes)) (req : N) : bytes :=
  u64 tl ++ u64 (N.of_nat (length keys))
    ++ concat (map (fun ak => fst ak ++ u64 (N.of_nat (length (snd ak))) ++ snd ak) keys)
    ++ u64 req.

Fixpoint enc_policy (p : policy) : bytes :=
  match p with
  | PAbove h => 1%N :: u64 h
  | PAfter t => 2%N :: time64 t
  | PPK k => 3%N :: k
  | PHash h => 4%N :: h
  | PThresh n ps => 5%N :: u8 n ++ u8 (N.of_nat (length ps)) ++ concat (map enc_policy ps)
  | POpaque a => 6%N :: a
  | PUC tl keys req => 7%N :: enc_uc tl keys req
  end.

(* "sia/address|" *)
Definition addr_prefix : bytes := [115; 105; 97; 47; 97; 100; 100; 114; 101; 115; 115; 124]%N.

(* blake2b.Accumulator over the unlock-condition leaves *)
Definition node (l r : bytes) : bytes := H (1%N :: l ++ r).
Fixpoint acc_add (h : bytes) (ds : list (option bytes)) : list (option bytes) :=
  match ds with
  | [] => [Some h]
  | None :: ds => Some h :: ds
  | Some t :: ds => None :: acc_add (node t h) ds
  end.
Fixpoint acc_root_aux (acc : option bytes) (ds : list (option bytes)) : option bytes :=
  match ds with
  | [] => acc
  | None :: ds => acc_root_aux acc ds
  | Some t :: ds => acc_root_aux (Some (match acc with None => t | Some r => node t r end)) ds
  end.
Definition uc_root (tl : N) (keys : list (bytes * bytes)) (req : N) : bytes :=
  let leaves := H (0%N :: u64 tl)
                :: map (fun ak => H (0%N :: fst ak ++ u64 (N.of_nat (length (snd ak))) ++ snd ak)) keys
                ++ [H (0%N :: u64 req)] in
  match acc_root_aux None (fold_left (fun a h => acc_add h a) leaves []) with Some r => r | None => [] end.

Fixpoint address (p : policy) : bytes :=
  match p with
  | PUC tl keys req => uc_root tl keys req
  | PThresh n ps =>
    H (addr_prefix ++ 1%N :: enc_policy (PThresh n (map (fun c => match c with POpaque _ => c | _ => POpaque (address c) end) ps)))
  | _ => H (addr_prefix ++ 1%N :: enc_policy p)
  end.

Definition opaque (p : policy) : policy := match p with POpaque _ => p | _ => POpaque (address p) end.
End Address.
