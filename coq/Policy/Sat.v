(* A declarative meaning of spend policies, written independently of the evaluator, and the proof that
   SpendPolicy.Verify (Policy/Model.v) accepts exactly when it holds. *)
From Coq Require Import List NArith ZArith Bool Lia ZifyN ZifyNat ZifyBool.
From Sia Require Import Prim.Result Prim.Tok Policy.Model Policy.Proofs.
Import ListNotations.

(* induction over policy trees with the hypothesis for every child of a threshold *)
Section PolicyInd.
Variable P : policy -> Prop.
Hypothesis Habove : forall h, P (PAbove h).
Hypothesis Hafter : forall t, P (PAfter t).
Hypothesis Hpk : forall k, P (PPK k).
Hypothesis Hhash : forall h, P (PHash h).
Hypothesis Hthresh : forall n ps, Forall P ps -> P (PThresh n ps).
Hypothesis Hopaque : forall a, P (POpaque a).
Hypothesis Huc : forall tl keys req, P (PUC tl keys req).
Fixpoint policy_ind' (p : policy) : P p :=
  match p with
  | PAbove h => Habove h | PAfter t => Hafter t | PPK k => Hpk k | PHash h => Hhash h
  | PThresh n ps => Hthresh n ps ((fix go (l : list policy) : Forall P l :=
                                     match l with [] => Forall_nil P | x :: r => Forall_cons x (policy_ind' x) (go r) end) ps)
  | POpaque a => Hopaque a | PUC tl keys req => Huc tl keys req
  end.
End PolicyInd.

Section Sat.
Variable height : N.
Variable median : Z.
Variable sigok preok : bytes -> bytes -> bool.
Variable se sd : bytes.     (* the entropy and ed25519 algorithm specifiers *)
Notation verify := (verify height median sigok preok se sd).
Notation verify_policy := (verify_policy height median sigok preok se sd).
Notation loop := (loop height median sigok preok se sd).

(* ---- legacy unlock conditions: [req] of the listed keys, in list order, each taking the next signature ----
   an ed25519 key takes the next signature if it verifies and is passed over otherwise; a key of an unknown
   algorithm takes the next signature unconditionally; an entropy key can take nothing *)
Inductive uc_match : list (bytes * bytes) -> N -> list bytes -> list bytes -> Prop :=
| um_done keys sg : uc_match keys 0 sg sg
| um_ed alg k rest req s sg sg' : bytes_eqb alg se = false -> bytes_eqb alg sd = true -> sigok (key32 k) s = true ->
    uc_match rest req sg sg' -> uc_match ((alg, k) :: rest) (req + 1) (s :: sg) sg'
| um_pass alg k rest req s sg sg' : bytes_eqb alg se = false -> bytes_eqb alg sd = true -> sigok (key32 k) s = false ->
    (0 < req)%N -> uc_match rest req (s :: sg) sg' -> uc_match ((alg, k) :: rest) req (s :: sg) sg'
| um_unknown alg k rest req s sg sg' : bytes_eqb alg se = false -> bytes_eqb alg sd = false ->
    uc_match rest req sg sg' -> uc_match ((alg, k) :: rest) (req + 1) (s :: sg) sg'.

Lemma uc_match_bounds keys req sg sg' : uc_match keys req sg sg' ->
  (req <= N.of_nat (length keys))%N /\ (req <= N.of_nat (length sg))%N.
Proof.
  induction 1 as [| ? ? ? ? ? ? ? _ _ _ _ IH | ? ? ? ? ? ? ? _ _ _ _ _ IH | ? ? ? ? ? ? ? _ _ _ IH]; cbn [length] in *; lia.
Qed.

Lemma uc_walk_iff keys : forall req sg sg', uc_walk sigok se sd keys req sg = Ok (0%N, sg') <-> uc_match keys req sg sg'.
Proof.
  induction keys as [|[alg k] rest IH]; intros req sg sg'; cbn [uc_walk].
  - split.
    + intros E. inversion E; subst. constructor.
    + intros M. inversion M; subst. reflexivity.
  - destruct ((req =? 0)%N || (N.of_nat (length ((alg, k) :: rest)) <? req)%N || (N.of_nat (length sg) <? req)%N) eqn:Eb.
    + split.
      * intros E. inversion E; subst. constructor.
      * intros M. destruct (uc_match_bounds _ _ _ _ M) as [B1 B2].
        apply orb_true_iff in Eb. destruct Eb as [Eb|Eb]; [apply orb_true_iff in Eb; destruct Eb as [Eb|Eb]|].
        -- apply N.eqb_eq in Eb. subst. inversion M; subst; try lia. reflexivity.
        -- apply N.ltb_lt in Eb. lia.
        -- apply N.ltb_lt in Eb. lia.
    + apply orb_false_iff in Eb. destruct Eb as [Eb E3]. apply orb_false_iff in Eb. destruct Eb as [E1 E2].
      apply N.eqb_neq in E1. apply N.ltb_ge in E2. apply N.ltb_ge in E3.
      destruct (bytes_eqb alg se) eqn:Ese.
      * split; [discriminate|]. intros M. inversion M; subst; congruence.
      * destruct sg as [|x sg0]; [cbn [length] in E3; lia|].
        destruct (bytes_eqb alg sd) eqn:Esd.
        -- destruct (sigok (key32 k) x) eqn:Es.
           ++ rewrite IH. split.
              ** intros M. replace req with (req - 1 + 1)%N by lia. apply um_ed; assumption.
              ** intros M. inversion M; subst; try congruence. replace (req0 + 1 - 1)%N with req0 by lia. assumption.
           ++ rewrite IH. split.
              ** intros M. apply um_pass; try assumption. lia.
              ** intros M. inversion M; subst; try congruence.
        -- rewrite IH. split.
           ** intros M. replace req with (req - 1 + 1)%N by lia. apply um_unknown; assumption.
           ** intros M. inversion M; subst; try congruence. replace (req0 + 1 - 1)%N with req0 by lia. assumption.
Qed.

(* ---- the meaning of a policy: sat p sg pr sg' pr' — p holds, consuming the signatures sg \ sg' and preimages pr \ pr'
   from the front, in order ---- *)
Inductive sat : policy -> list bytes -> list bytes -> list bytes -> list bytes -> Prop :=
| sat_above h sg pr : (h <= height)%N -> sat (PAbove h) sg pr sg pr
| sat_after t sg pr : (t < median)%Z -> sat (PAfter t) sg pr sg pr
| sat_pk k s sg pr : sigok k s = true -> sat (PPK k) (s :: sg) pr sg pr
| sat_hash h x sg pr : preok h x = true -> sat (PHash h) sg (x :: pr) sg pr
| sat_thresh n ps sg pr sg' pr' : (length ps <= 255)%nat -> sat_children ps n sg pr sg' pr' -> sat (PThresh n ps) sg pr sg' pr'
| sat_uc tl keys req sg pr sg' : (tl <= height)%N -> uc_match keys req sg sg' -> sat (PUC tl keys req) sg pr sg' pr
(* exactly [n] children are revealed and hold, left to right; every other child is opaque; none is an unlock-conditions policy *)
with sat_children : list policy -> N -> list bytes -> list bytes -> list bytes -> list bytes -> Prop :=
| sc_nil sg pr : sat_children [] 0 sg pr sg pr
| sc_opaque a rest n sg pr sg' pr' : sat_children rest n sg pr sg' pr' -> sat_children (POpaque a :: rest) n sg pr sg' pr'
| sc_reveal p rest n sg pr sg1 pr1 sg2 pr2 : is_uc p = false -> is_opaque p = false ->
    sat p sg pr sg1 pr1 -> sat_children rest n sg1 pr1 sg2 pr2 -> sat_children (p :: rest) (n + 1) sg pr sg2 pr2.

(* the complexity the evaluator charges: every threshold it enters costs its number of children *)
Fixpoint cost (p : policy) : N :=
  match p with
  | PThresh _ ps => N.of_nat (length ps) + fold_right (fun c a => cost c + a)%N 0%N ps
  | _ => 0
  end.
Definition costs (ps : list policy) : N := fold_right (fun c a => cost c + a)%N 0%N ps.
Lemma cost_thresh n ps : cost (PThresh n ps) = (N.of_nat (length ps) + costs ps)%N.
Proof. reflexivity. Qed.
Lemma cost_opaque a : cost (POpaque a) = 0%N. Proof. reflexivity. Qed.

(* [verify] accepts exactly when the policy holds and its cost stays within the budget of 1024; the state it returns
   is what is left of the witnesses and the budget spent *)
Definition accepts (p : policy) (s s' : st) : Prop :=
  sat p (sigs s) (pres s) (sigs s') (pres s') /\ (total s + cost p <= 1024)%N /\ total s' = (total s + cost p)%N.

Lemma st_eta s : mkSt (sigs s) (pres s) (total s) = s. Proof. destruct s; reflexivity. Qed.

Lemma sat_uc_inv tl keys req sg pr sg' pr' : sat (PUC tl keys req) sg pr sg' pr' ->
  (tl <= height)%N /\ uc_match keys req sg sg' /\ pr' = pr.
Proof. intros M. inversion M; subst. repeat split; assumption. Qed.

Lemma sc_cons_inv p rest m sg pr sg2 pr2 : sat_children (p :: rest) m sg pr sg2 pr2 ->
  (exists a, p = POpaque a /\ sat_children rest m sg pr sg2 pr2) \/
  (is_uc p = false /\ is_opaque p = false /\
   exists n sg1 pr1, m = (n + 1)%N /\ sat p sg pr sg1 pr1 /\ sat_children rest n sg1 pr1 sg2 pr2).
Proof.
  intros M. inversion M; subst.
  - left. eexists. split; [reflexivity | assumption].
  - right. repeat split; try assumption. do 3 eexists. repeat split; eassumption.
Qed.

Lemma loop_iff n ps : Forall (fun p => forall s s', (total s <= 1024)%N -> verify p s = Ok s' <-> accepts p s s') ps ->
  forall k s s', (total s <= 1024)%N -> (k <= n)%N ->
  loop n ps k s = Ok s' <->
  (sat_children ps (n - k) (sigs s) (pres s) (sigs s') (pres s') /\ (total s + costs ps <= 1024)%N /\ total s' = (total s + costs ps)%N).
Proof.
  induction 1 as [|p ps Hp _ IH]; intros k s s' T K; cbn [Proofs.loop costs fold_right].
  - destruct (N.eqb_spec k n) as [->|NE].
    + split.
      * intros E. inversion E; subst. rewrite N.sub_diag, N.add_0_r. split; [constructor | split; [exact T | reflexivity]].
      * intros (M & _ & Tt). inversion M; subst. rewrite N.add_0_r in Tt. f_equal. destruct s, s'; cbn in *; congruence.
    + split; [discriminate|]. intros (M & _). inversion M. lia.
  - fold (costs ps). destruct (is_uc p) eqn:Eu.
    + split; [discriminate|]. intros (M & _). apply sc_cons_inv in M. destruct M as [(a & -> & _)|(U & _)]; [discriminate | congruence].
    + destruct (is_opaque p) eqn:Eo.
      * destruct p; try discriminate. rewrite cost_opaque, N.add_0_l. rewrite (IH k s s' T K). split.
        -- intros (M & B). split; [constructor; exact M | exact B].
        -- intros (M & B). split; [|exact B]. apply sc_cons_inv in M. destruct M as [(a' & _ & M)|(_ & O & _)]; [assumption | discriminate].
      * assert (DET : forall sg1 pr1, sat p (sigs s) (pres s) sg1 pr1 -> (total s + cost p <= 1024)%N ->
                       verify p s = Ok (mkSt sg1 pr1 (total s + cost p))).
        { intros sg1 pr1 S1 C1. apply Hp; [exact T|]. split; [exact S1 | split; [exact C1 | reflexivity]]. }
        destruct (N.eqb_spec k n) as [->|NE].
        -- split; [discriminate|]. intros (M & _). rewrite N.sub_diag in M. apply sc_cons_inv in M.
           destruct M as [(a & -> & _)|(_ & _ & m & ? & ? & E & _)]; [discriminate | lia].
        -- destruct (verify p s) as [s1|e|q] eqn:V.
           ++ pose proof V as V0. apply (Hp s s1 T) in V. destruct V as (S1 & C1 & T1).
              assert (T1' : (total s1 <= 1024)%N) by lia.
              rewrite (IH (k + 1)%N s1 s' T1' ltac:(lia)). rewrite T1. split.
              ** intros (M & B1 & B2). split; [|split; lia].
                 replace (n - k)%N with (n - (k + 1) + 1)%N by lia. eapply sc_reveal; eauto.
              ** intros (M & B1 & B2). apply sc_cons_inv in M.
                 destruct M as [(a & -> & _)|(_ & _ & m & sg1 & pr1 & E & S2 & M)]; [discriminate|].
                 pose proof (DET sg1 pr1 S2 ltac:(lia)) as D. inversion D; subst s1. cbn [sigs pres] in *.
                 replace (n - (k + 1))%N with m by lia. split; [exact M | split; lia].
           ++ split; [discriminate|]. intros (M & B1 & B2). apply sc_cons_inv in M.
              destruct M as [(a & -> & _)|(_ & _ & m & sg1 & pr1 & E & S2 & M)]; [discriminate|]. exfalso.
              pose proof (DET sg1 pr1 S2 ltac:(lia)) as D. discriminate.
           ++ split; [discriminate|]. intros (M & B1 & B2). apply sc_cons_inv in M.
              destruct M as [(a & -> & _)|(_ & _ & m & sg1 & pr1 & E & S2 & M)]; [discriminate|]. exfalso.
              pose proof (DET sg1 pr1 S2 ltac:(lia)) as D. discriminate.
Qed.

Theorem verify_iff p : forall s s', (total s <= 1024)%N -> verify p s = Ok s' <-> accepts p s s'.
Proof.
  induction p as [h|t|k|h|n ps IH|a|tl keys req] using policy_ind'; intros s s' T; unfold accepts; cbn [cost]; rewrite ?N.add_0_r.
  - cbn [Model.verify]. destruct (N.leb_spec h height).
    + split; [intros E; inversion E; subst; split; [constructor; assumption | split; [exact T | reflexivity]]|].
      intros (M & _ & Tt). inversion M; subst. f_equal. destruct s, s'; cbn in *; congruence.
    + split; [discriminate|]. intros (M & _). inversion M; subst. lia.
  - cbn [Model.verify]. destruct (Z.ltb_spec t median).
    + split; [intros E; inversion E; subst; split; [constructor; assumption | split; [exact T | reflexivity]]|].
      intros (M & _ & Tt). inversion M; subst. f_equal. destruct s, s'; cbn in *; congruence.
    + split; [discriminate|]. intros (M & _). inversion M; subst. lia.
  - cbn [Model.verify]. destruct (sigs s) as [|x sg] eqn:Es.
    + split; [discriminate|]. intros (M & _). inversion M.
    + destruct (sigok k x) eqn:Ek.
      * split; [intros E; inversion E; subst; cbn; split; [constructor; assumption | split; [exact T | reflexivity]]|].
        intros (M & _ & Tt). inversion M; subst. f_equal. destruct s'; cbn in *; congruence.
      * split; [discriminate|]. intros (M & _). inversion M; subst. congruence.
  - cbn [Model.verify]. destruct (pres s) as [|x pr] eqn:Es.
    + split; [discriminate|]. intros (M & _). inversion M.
    + destruct (preok h x) eqn:Ek.
      * split; [intros E; inversion E; subst; cbn; split; [constructor; assumption | split; [exact T | reflexivity]]|].
        intros (M & _ & Tt). inversion M; subst. f_equal. destruct s'; cbn in *; congruence.
      * split; [discriminate|]. intros (M & _). inversion M; subst. congruence.
  - rewrite verify_thresh. fold (costs ps).
    destruct (N.ltb_spec 1024 (total s + N.of_nat (length ps))) as [L1|L1]; cbn [orb].
    + split; [discriminate|]. intros (_ & C & _). lia.
    + destruct (N.ltb_spec 255 (N.of_nat (length ps))) as [L2|L2].
      * split; [discriminate|]. intros (M & _). inversion M; subst. lia.
      * assert (T0 : (total (mkSt (sigs s) (pres s) (total s + N.of_nat (length ps))) <= 1024)%N) by (cbn [total]; exact L1).
        rewrite (loop_iff n ps IH 0%N _ s' T0 (N.le_0_l n)). cbn [sigs pres total]. rewrite N.sub_0_r. split.
        -- intros (M & B1 & B2). split; [constructor; [lia | exact M] | split; lia].
        -- intros (M & B1 & B2). inversion M; subst. split; [assumption | split; lia].
  - cbn [Model.verify]. split; [discriminate|]. intros (M & _). inversion M.
  - cbn [Model.verify]. destruct (N.leb_spec tl height) as [L|L].
    + destruct (uc_walk sigok se sd keys req (sigs s)) as [[req' sg']|e|q] eqn:W.
      * destruct (N.eqb_spec req' 0) as [->|NE].
        -- split.
           ++ intros E. inversion E; subst. cbn. apply uc_walk_iff in W. split; [constructor; assumption | split; [exact T | reflexivity]].
           ++ intros (M & _ & Tt). apply sat_uc_inv in M. destruct M as (_ & M & Ep). apply uc_walk_iff in M. rewrite W in M. inversion M; subst.
              f_equal. destruct s'; cbn in *; congruence.
        -- split; [discriminate|]. intros (M & _). apply sat_uc_inv in M. destruct M as (_ & M & _). apply uc_walk_iff in M. rewrite W in M. inversion M. congruence.
      * split; [discriminate|]. intros (M & _). apply sat_uc_inv in M. destruct M as (_ & M & _). apply uc_walk_iff in M. rewrite W in M. discriminate.
      * split; [discriminate|]. intros (M & _). apply sat_uc_inv in M. destruct M as (_ & M & _). apply uc_walk_iff in M. rewrite W in M. discriminate.
    + split; [discriminate|]. intros (M & _). apply sat_uc_inv in M. lia.
Qed.

(* Verify as called on a satisfied policy: accepted exactly when the policy holds, consuming every signature and
   preimage supplied, within the complexity budget *)
Theorem verify_policy_iff p sg pr : verify_policy p sg pr = Ok tt <-> (sat p sg pr [] [] /\ (cost p <= 1024)%N).
Proof.
  unfold Model.verify_policy. destruct (verify p (mkSt sg pr 0)) as [s|e|q] eqn:V.
  - apply verify_iff in V; [|cbn; lia]. destruct V as (M & C & Tt). cbn [sigs pres total] in *.
    destruct (sigs s) as [|x sg'] eqn:Es; [destruct (pres s) as [|y pr'] eqn:Ep|].
    + split; [intros _; split; [exact M | lia]|reflexivity].
    + split; [discriminate|]. intros (M2 & C2).
      assert (D : verify p (mkSt sg pr 0) = Ok (mkSt [] [] (0 + cost p))) by (apply verify_iff; [cbn; lia | split; [exact M2 | split; [cbn; lia | reflexivity]]]).
      assert (D2 : verify p (mkSt sg pr 0) = Ok s) by (apply verify_iff; [cbn; lia | split; [rewrite Es, Ep; exact M | split; [exact C | exact Tt]]]).
      rewrite D in D2. inversion D2; subst s. discriminate.
    + split; [discriminate|]. intros (M2 & C2).
      assert (D : verify p (mkSt sg pr 0) = Ok (mkSt [] [] (0 + cost p))) by (apply verify_iff; [cbn; lia | split; [exact M2 | split; [cbn; lia | reflexivity]]]).
      assert (D2 : verify p (mkSt sg pr 0) = Ok s) by (apply verify_iff; [cbn; lia | split; [rewrite Es; exact M | split; [exact C | exact Tt]]]).
      rewrite D in D2. inversion D2; subst s. discriminate.
  - split; [discriminate|]. intros (M2 & C2).
    assert (D : verify p (mkSt sg pr 0) = Ok (mkSt [] [] (0 + cost p))) by (apply verify_iff; [cbn; lia | split; [exact M2 | split; [cbn; lia | reflexivity]]]).
    rewrite V in D. discriminate.
  - split; [discriminate|]. intros (M2 & C2).
    assert (D : verify p (mkSt sg pr 0) = Ok (mkSt [] [] (0 + cost p))) by (apply verify_iff; [cbn; lia | split; [exact M2 | split; [cbn; lia | reflexivity]]]).
    rewrite V in D. discriminate.
Qed.
End Sat.
