From Coq Require Import List NArith ZArith Bool Lia.
From Sia Require Import Prim.Result Prim.Tok Policy.Model.
Import ListNotations.

Section AddressProofs.
Variable H : bytes -> bytes.

Lemma opaque_idem p : opaque H (opaque H p) = opaque H p.
Proof. destruct p; reflexivity. Qed.

Definition opq (c : policy) : policy := match c with POpaque _ => c | _ => POpaque (address H c) end.
Lemma opq_opaque p : opq (opaque H p) = opq p.
Proof. destruct p; reflexivity. Qed.

Lemma address_thresh n ps :
  address H (PThresh n ps) = H (addr_prefix ++ 1%N :: enc_policy (PThresh n (map opq ps))).
Proof. reflexivity. Qed.

(* replacing any subset of a threshold's children by their opaque forms never changes the address *)
Theorem opaque_address n ps ps' :
  Forall2 (fun p p' => p' = p \/ p' = opaque H p) ps ps' ->
  address H (PThresh n ps') = address H (PThresh n ps).
Proof.
  intros F. rewrite !address_thresh.
  assert (E : map opq ps' = map opq ps).
  { induction F as [|p p' ps ps' [->| ->] _ IH]; simpl; [reflexivity| |]; rewrite ?opq_opaque; f_equal; exact IH. }
  now rewrite E.
Qed.

(* the opaque form has the address it stands for *)
Theorem opaque_carries_address p : match opaque H p with POpaque a => a = address H p \/ p = POpaque a | _ => False end.
Proof. destruct p; simpl; auto. Qed.
End AddressProofs.

Section VerifyProofs.
Variable height : N.
Variable median : Z.
Variable sigok preok : bytes -> bytes -> bool.
Variable se sd : bytes.
Notation verify := (verify height median sigok preok se sd).
Notation verify_policy := (verify_policy height median sigok preok se sd).

Theorem above_iff h s : verify (PAbove h) s = Ok s <-> (h <= height)%N.
Proof. simpl. destruct (N.leb_spec h height); split; intros; try reflexivity; try discriminate; try lia. Qed.

Theorem after_iff t s : verify (PAfter t) s = Ok s <-> (t < median)%Z.
Proof. simpl. destruct (Z.ltb_spec t median); split; intros; try reflexivity; try discriminate; try lia. Qed.

Theorem opaque_unusable a sg pr : verify_policy (POpaque a) sg pr = Err EOpaque.
Proof. reflexivity. Qed.

Theorem uc_timelock tl keys req s : (height < tl)%N -> verify (PUC tl keys req) s = Err EHeight.
Proof. intros Hl. simpl. destruct (N.leb_spec tl height); [lia|reflexivity]. Qed.

Theorem no_leftover p sg pr : verify_policy p sg pr = Ok tt ->
  exists s, verify p (mkSt sg pr 0) = Ok s /\ sigs s = [] /\ pres s = [].
Proof.
  unfold Model.verify_policy. destruct (verify p (mkSt sg pr 0)) as [s|e|q]; try discriminate.
  destruct (sigs s) eqn:E1; [|discriminate]. destruct (pres s) eqn:E2; [|discriminate]. eauto.
Qed.

Theorem surplus_signature_rejected p sg pr s x rest :
  verify p (mkSt sg pr 0) = Ok s -> sigs s = x :: rest -> verify_policy p sg pr = Err ESuperSig.
Proof. intros E1 E2. unfold Model.verify_policy. rewrite E1, E2. reflexivity. Qed.

Theorem surplus_preimage_rejected p sg pr s x rest :
  verify p (mkSt sg pr 0) = Ok s -> sigs s = [] -> pres s = x :: rest -> verify_policy p sg pr = Err ESuperPre.
Proof. intros E1 E2 E3. unfold Model.verify_policy. rewrite E1, E2, E3. reflexivity. Qed.

Theorem pk_corrupt k sg rest pr tot : sigok k sg = false -> verify (PPK k) (mkSt (sg :: rest) pr tot) = Err ESig.
Proof. intros E. simpl. now rewrite E. Qed.
Theorem pk_consumes_one k sg rest pr tot : sigok k sg = true ->
  verify (PPK k) (mkSt (sg :: rest) pr tot) = Ok (mkSt rest pr tot).
Proof. intros E. simpl. now rewrite E. Qed.
Theorem hash_corrupt h x rest sg tot : preok h x = false -> verify (PHash h) (mkSt sg (x :: rest) tot) = Err EPre.
Proof. intros E. simpl. now rewrite E. Qed.
Theorem hash_consumes_one h x rest sg tot : preok h x = true ->
  verify (PHash h) (mkSt sg (x :: rest) tot) = Ok (mkSt sg rest tot).
Proof. intros E. simpl. now rewrite E. Qed.

(* complexity limits reject instead of recursing *)
Theorem limit_children n ps s : (255 < N.of_nat (length ps))%N -> verify (PThresh n ps) s = Err EComplex.
Proof.
  intros Hl. simpl. destruct (N.ltb_spec 255 (N.of_nat (length ps))); [|lia]. now rewrite orb_true_r.
Qed.
Theorem limit_total n ps s : (1024 < total s + N.of_nat (length ps))%N -> verify (PThresh n ps) s = Err EComplex.
Proof. intros Hl. simpl. destruct (N.ltb_spec 1024 (total s + N.of_nat (length ps))); [reflexivity|lia]. Qed.

(* the threshold loop, named *)
Fixpoint loop (n : N) (ps : list policy) (satisfied : N) (s : st) : res perr st :=
  match ps with
  | [] => if (satisfied =? n)%N then Ok s else Err ENotReached
  | sp :: rest =>
    if is_uc sp then Err EUCSub
    else if is_opaque sp then loop n rest satisfied s
    else if (satisfied =? n)%N then Err EExceeded
    else match verify sp s with
         | Ok s' => loop n rest (satisfied + 1)%N s'
         | Err e => Err e
         | Panic q => Panic q
         end
  end.
Lemma verify_thresh n ps s :
  verify (PThresh n ps) s =
  if (1024 <? total s + N.of_nat (length ps))%N || (255 <? N.of_nat (length ps))%N then Err EComplex
  else loop n ps 0%N (mkSt (sigs s) (pres s) (total s + N.of_nat (length ps))%N).
Proof.
  cbn [Model.verify]. destruct ((1024 <? total s + N.of_nat (length ps))%N || (255 <? N.of_nat (length ps))%N); [reflexivity|].
  generalize (mkSt (sigs s) (pres s) (total s + N.of_nat (length ps))%N) as s0. generalize 0%N as k.
  induction ps as [|sp rest IH]; intros k s0; simpl; [reflexivity|].
  destruct (is_uc sp); [reflexivity|]. destruct (is_opaque sp); [apply IH|].
  destruct (k =? n)%N; [reflexivity|]. destruct (verify sp s0); auto.
Qed.

Definition revealed (ps : list policy) : N := N.of_nat (length (filter (fun p => negb (is_opaque p)) ps)).

Lemma loop_exact n ps k s s' : loop n ps k s = Ok s' -> (k + revealed ps = n)%N /\ Forall (fun p => is_uc p = false) ps.
Proof.
  revert k s. induction ps as [|sp rest IH]; intros k s; simpl.
  - destruct (N.eqb_spec k n); [|discriminate]. intros _. unfold revealed; simpl. split; [lia|constructor].
  - destruct (is_uc sp) eqn:Eu; [discriminate|]. unfold revealed. simpl. destruct (is_opaque sp) eqn:Eo; simpl.
    + intros E. destruct (IH _ _ E) as [A B]. split; [exact A|constructor; auto].
    + destruct (k =? n)%N; [discriminate|]. destruct (verify sp s) as [s1|e|q]; try discriminate.
      intros E. destruct (IH _ _ E) as [A B]. unfold revealed in A. split; [lia|constructor; auto].
Qed.

(* accepted => exactly N children are revealed (all others opaque), none is an unlock-conditions policy *)
Theorem threshold_exact n ps s s' : verify (PThresh n ps) s = Ok s' ->
  revealed ps = n /\ Forall (fun p => is_uc p = false) ps /\ (N.of_nat (length ps) <= 255)%N.
Proof.
  rewrite verify_thresh.
  destruct (N.ltb_spec 1024 (total s + N.of_nat (length ps))); [discriminate|].
  destruct (N.ltb_spec 255 (N.of_nat (length ps))); [discriminate|]. simpl.
  intros E. destruct (loop_exact _ _ _ _ _ E) as [A B]. split; [lia|]. split; [exact B|lia].
Qed.

(* a failing revealed child is fatal for the threshold (it should have been opaque) *)
Theorem threshold_child_fatal n sp rest k s e : is_uc sp = false -> is_opaque sp = false -> (k =? n)%N = false ->
  verify sp s = Err e -> loop n (sp :: rest) k s = Err e.
Proof. intros A B C D. simpl. now rewrite A, B, C, D. Qed.

(* legacy unlock conditions: every accepted signature is consumed against a distinct listed key, in key order *)
Lemma uc_walk_ok keys req sg req' sg' : uc_walk sigok se sd keys req sg = Ok (req', sg') ->
  (req' <= req)%N /\ exists used, sg = used ++ sg' /\ N.of_nat (length used) = (req - req')%N /\ (length used <= length keys)%nat.
Proof.
  revert req sg. induction keys as [|[alg k] rest IH]; intros req sg; cbn [uc_walk].
  - intros E; inversion E; subst. split; [lia|]. exists []. simpl. split; [reflexivity|]. split; lia.
  - destruct ((req =? 0)%N || (N.of_nat (length ((alg, k) :: rest)) <? req)%N || (N.of_nat (length sg) <? req)%N) eqn:Eb.
    + intros E; inversion E; subst. split; [lia|]. exists []. simpl. split; [reflexivity|]. split; lia.
    + apply orb_false_iff in Eb. destruct Eb as [Eb E3]. apply orb_false_iff in Eb. destruct Eb as [E1 E2].
      apply N.eqb_neq in E1.
      destruct (Model.bytes_eqb alg se); [discriminate|].
      destruct sg as [|x sg0].
      * intros E; inversion E; subst. split; [lia|]. exists []. simpl. split; [reflexivity|]. split; lia.
      * assert (Hcons : forall r, uc_walk sigok se sd rest (req - 1) sg0 = Ok r -> r = (req', sg') ->
                  (req' <= req)%N /\ exists used, x :: sg0 = used ++ sg' /\ N.of_nat (length used) = (req - req')%N /\ (length used <= length ((alg, k) :: rest))%nat).
        { intros r Er ->. destruct (IH _ _ Er) as [A (used & B & C & D)]. split; [lia|].
          exists (x :: used). simpl. split; [now rewrite B|]. split; lia. }
        assert (Hskip : uc_walk sigok se sd rest req (x :: sg0) = Ok (req', sg') ->
                  (req' <= req)%N /\ exists used, x :: sg0 = used ++ sg' /\ N.of_nat (length used) = (req - req')%N /\ (length used <= length ((alg, k) :: rest))%nat).
        { intros Er. destruct (IH _ _ Er) as [A (used & B & C & D)]. split; [lia|]. exists used. simpl. split; [exact B|]. split; lia. }
        destruct (Model.bytes_eqb alg sd).
        -- destruct (sigok (key32 k) x); intros E; [eapply Hcons; eauto|apply Hskip; exact E].
        -- intros E. eapply Hcons; eauto.
Qed.

Theorem uc_needs_required_sigs tl keys req s s' : verify (PUC tl keys req) s = Ok s' ->
  (tl <= height)%N /\ exists used, sigs s = used ++ sigs s' /\ N.of_nat (length used) = req /\ (length used <= length keys)%nat.
Proof.
  simpl. destruct (N.leb_spec tl height); [|discriminate].
  destruct (uc_walk sigok se sd keys req (sigs s)) as [[req' sg']|e|q] eqn:E; try discriminate.
  destruct (N.eqb_spec req' 0); [|discriminate]. intros E2; inversion E2; subst; simpl.
  destruct (uc_walk_ok _ _ _ _ _ E) as [A (used & B & C & D)]. split; [lia|]. exists used. split; [exact B|]. split; [lia|exact D].
Qed.
End VerifyProofs.
