(* Obligations re-checked on every run against the shapes regenerated from /repo. *)
From Coq Require Import String.
From Coq Require Import List NArith Bool.
From Sia Require Import Prim.Tok Codec.Schema Codec.Shape Codec.Canonical Codec.PolicyWire Codec.Tagged Codec.Irregular Gen.Schemas Codec.Wire Codec.Golden.
Import ListNotations.
Open Scope string_scope.

Definition T := (string * shape * shape)%type.

(* 1. the decoder of every type reads exactly the shape its encoder writes *)
Definition agree (t : T) : bool := let '(_, e, d) := t in opt_schema_eqb (to_schema e) (to_schema d).
Lemma schemas_agree : forallb agree gen_types = true.
Proof. vm_compute. reflexivity. Qed.

(* 2. every slice element occupies at least one byte (length prefixes are bounded by the input) *)
Definition wf_ok (t : T) : bool := let '(_, e, _) := t in match to_schema e with Some s => wfb s | None => false end.
Lemma all_wf : forallb wf_ok gen_types = true.
Proof. vm_compute. reflexivity. Qed.

(* 3. the layout equals the pinned layout, type by type, in order *)
Fixpoint types_eqb (a b : list T) : bool :=
  match a, b with
  | [], [] => true
  | (n, e, d) :: ra, (m, e', d') :: rb =>
    String.eqb n m && opt_schema_eqb (to_schema e) (to_schema e') && opt_schema_eqb (to_schema d) (to_schema d') && types_eqb ra rb
  | _, _ => false
  end.
Lemma layout_pinned : types_eqb gen_types golden_types = true.
Proof. vm_compute. reflexivity. Qed.

(* 4. the set of methods the translator could not read is exactly the hand-modelled list *)
Fixpoint strs_eqb (a b : list string) : bool :=
  match a, b with [], [] => true | x :: ra, y :: rb => String.eqb x y && strs_eqb ra rb | _, _ => false end.
Lemma opaque_pinned : strs_eqb gen_opaque golden_opaque = true.
Proof. vm_compute. reflexivity. Qed.

(* 4b. the codec methods of the irregular (hand-modelled) types have exactly the source text the models were written
   against: any edit to one of them voids the hand-written model until it is re-confirmed *)
Fixpoint pairs_eqb (a b : list (string * string)) : bool :=
  match a, b with [], [] => true | (x, h) :: ra, (y, k) :: rb => String.eqb x y && String.eqb h k && pairs_eqb ra rb | _, _ => false end.
Definition opaque_src_changed : list string :=
  flat_map (fun '(n, h) => if existsb (fun '(m, k) => String.eqb n m && String.eqb h k) golden_opaque_src then [] else [n]) gen_opaque_src.
Lemma opaque_src_pinned : opaque_src_changed = [] /\ pairs_eqb gen_opaque_src golden_opaque_src = true.
Proof. vm_compute. split; reflexivity. Qed.

(* 5. every struct field is written by its encoder, except the documented ones *)
Definition not_transmitted : list (string * string) := [
  ("types.FileContractRevision", "FileContract");  (* written field by field; Payout replaced by a sentinel on decode *)
  ("types.StateElement", "shared");                (* in-memory ownership flag *)
  ("types.txnSansSigs", "Signatures");             (* by definition: the transaction without its signatures *)
  (* Transaction.EncodeTo delegates to txnSansSigs(txn), where these nine fields are covered *)
  ("types.Transaction", "SiacoinInputs"); ("types.Transaction", "SiacoinOutputs"); ("types.Transaction", "FileContracts");
  ("types.Transaction", "FileContractRevisions"); ("types.Transaction", "StorageProofs"); ("types.Transaction", "SiafundInputs");
  ("types.Transaction", "SiafundOutputs"); ("types.Transaction", "MinerFees"); ("types.Transaction", "ArbitraryData");
  ("types.V1Block", "V2");                         (* the v1 block encoding has no v2 part *)
  (* V2Block.EncodeTo delegates to V1Block(b), where these are covered *)
  ("types.V2Block", "ParentID"); ("types.V2Block", "Nonce"); ("types.V2Block", "Timestamp"); ("types.V2Block", "MinerPayouts"); ("types.V2Block", "Transactions");
  ("rhp/v3.InstrReadRegistryNoVersion", "InstrReadRegistry"); ("rhp/v3.InstrUpdateRegistryNoType", "InstrUpdateRegistry")  (* embedded, encoded field by field *)
].
(* gateway RPC objects have one codec for the request and one for the response ("Type#request", "Type#response"):
   a field is covered when either of them writes it; the embedded emptyRequest / emptyResponse carry no data *)
Definition base_name (s : string) : string :=
  match index 0 "#" s with Some i => substring 0 i s | None => s end.
Definition sibling_writes (tn f : string) : bool :=
  existsb (fun x => let '(tn2, _, ps2) := x in
             String.eqb (base_name tn2) (base_name tn) && negb (String.eqb tn2 tn) && existsb (fun p => substringb ("." ++ f) p) ps2) gen_fields.
Definition field_ok (tn : string) (paths : list string) (f : string) : bool :=
  existsb (fun p => substringb ("." ++ f) p) paths
  || existsb (fun '(t, g) => String.eqb t tn && String.eqb g f) not_transmitted
  || sibling_writes tn f
  || String.eqb f "emptyRequest" || String.eqb f "emptyResponse".
Definition fields_ok (x : string * list string * list string) : bool :=
  let '(tn, fs, ps) := x in
  existsb (String.eqb tn) gen_opaque || forallb (field_ok tn ps) fs.
Definition uncovered : list (string * list string) :=
  flat_map (fun x => let '(tn, fs, ps) := x in
     if existsb (String.eqb tn) gen_opaque then [] else
     match filter (fun f => negb (field_ok tn ps f)) fs with [] => [] | l => [(tn, l)] end) gen_fields.
Lemma fields_covered : uncovered = [].
Proof. vm_compute. reflexivity. Qed.

(* ---- the generic theorems instantiated on every generated type ---- *)
Lemma in_types_wf n e d : In (n, e, d) gen_types ->
  exists s, to_schema e = Some s /\ to_schema d = Some s /\ wf s.
Proof.
  intros Hin.
  pose proof (proj1 (forallb_forall _ _) schemas_agree _ Hin) as A.
  pose proof (proj1 (forallb_forall _ _) all_wf _ Hin) as B.
  unfold agree, opt_schema_eqb in A. unfold wf_ok in B.
  destruct (to_schema e) as [s|]; [|discriminate]. destruct (to_schema d) as [s'|]; [|discriminate].
  apply schema_eqb_eq in A. subst s'. exists s. repeat split; auto. now apply wfb_wf.
Qed.

(* the layouts the hand-written union and masked record are assembled from exist, and decoder = encoder for them *)
Definition part_ok (ed : shape * shape) : bool :=
  match to_schema (fst ed), to_schema (snd ed) with Some a, Some b => schema_eqb a b | _, _ => false end.
Lemma wire_parts_pinned : forallb part_ok [
  (enc_types_V2FileContractElement, dec_types_V2FileContractElement); (enc_types_V2FileContractRenewal, dec_types_V2FileContractRenewal);
  (enc_types_V2StorageProof, dec_types_V2StorageProof); (enc_types_V2FileContractExpiration, dec_types_V2FileContractExpiration);
  (HSlice enc_types_V2SiacoinInput, HSlice dec_types_V2SiacoinInput); (HSlice enc_types_V2SiacoinOutput, HSlice dec_types_V2SiacoinOutput);
  (HSlice enc_types_V2SiafundInput, HSlice dec_types_V2SiafundInput); (HSlice enc_types_V2SiafundOutput, HSlice dec_types_V2SiafundOutput);
  (HSlice enc_types_V2FileContract, HSlice dec_types_V2FileContract); (HSlice enc_types_V2FileContractRevision, HSlice dec_types_V2FileContractRevision);
  (HSlice enc_types_V2FileContractResolution, HSlice dec_types_V2FileContractResolution); (HSlice enc_types_Attestation, HSlice dec_types_Attestation);
  (HBytes, HBytes); (enc_types_Address, dec_types_Address); (enc_types_V2Currency, dec_types_V2Currency)] = true.
Proof. vm_compute. reflexivity. Qed.
(* the unlock-conditions leaf of the policy codec is the generated UnlockConditions layout *)
Lemma uc_schema_pinned : to_schema enc_types_UnlockConditions = Some uc_schema /\ to_schema dec_types_UnlockConditions = Some uc_schema.
Proof. vm_compute. split; reflexivity. Qed.

(* Every generated type, with all hand-modelled fragments (V1Currency, V1SiafundOutput, SpendPolicy,
   V2FileContractResolution, V2Transaction) recognised: *)
Theorem roundtrip_all n e d : In (n, e, d) gen_types ->
  exists s, to_schema e = Some s /\ to_schema d = Some s /\
    forall v rest, wt rvalid_all s v -> dec recog_all s (enc s v ++ rest)%list = Some (v, rest).
Proof.
  intros Hin. destruct (in_types_wf _ _ _ Hin) as (s & A & B & W). exists s. repeat split; auto.
  intros v rest Hv. apply (roundtrip recog_all rvalid_all recog_all_ok rvalid_all_nonempty s W v rest Hv).
Qed.

Theorem injective_all n e d s : In (n, e, d) gen_types -> to_schema e = Some s ->
  forall v w, wt rvalid_all s v -> wt rvalid_all s w -> enc s v = enc s w -> v = w.
Proof.
  intros Hin E v w. destruct (in_types_wf _ _ _ Hin) as (s' & A & _ & W). rewrite E in A. inversion A; subst s'.
  apply (enc_injective recog_all rvalid_all recog_all_ok rvalid_all_nonempty s v w W).
Qed.

(* no proper prefix of an encoding is accepted: a truncated encoding is an error, never a partial value *)
Theorem truncation_all n e d : In (n, e, d) gen_types ->
  exists s, to_schema e = Some s /\ to_schema d = Some s /\
    forall v p q, wt rvalid_all s v -> enc s v = (p ++ q)%list -> q <> [] -> dec recog_all s p = None.
Proof.
  intros Hin. destruct (in_types_wf _ _ _ Hin) as (s & A & B & W). exists s. split; [exact A|]. split; [exact B|].
  intros v p q Wt E NE. apply (prefix_rejected recog_all recog_all_extend s (enc s v) v p q); auto.
  pose proof (roundtrip recog_all rvalid_all recog_all_ok rvalid_all_nonempty s W v [] Wt) as R. rewrite app_nil_r in R. exact R.
Qed.

(* decoder canonicity: for every generated type that does not contain a V2Transaction, whatever the decoder accepts is
   the encoding of the value it returns followed by the bytes it left, so no value has a second accepted encoding
   (the V2Transaction decoder is not canonical: Wire.txn_noncanonical_accepted) *)
Theorem canonical_all n e d : In (n, e, d) gen_types ->
  exists s, to_schema e = Some s /\ to_schema d = Some s /\
    (mentions txn_name s = false ->
     forall b v r, byte_okl b -> dec recog_all s b = Some (v, r) -> b = (enc s v ++ r)%list /\ wt rvalid_all s v).
Proof.
  intros Hin. destruct (in_types_wf _ _ _ Hin) as (s & A & B & W). exists s. split; [exact A|]. split; [exact B|].
  intros M b v r O D. unfold recog_all in D. rewrite (dec_add_irrelevant _ _ _ s M) in D.
  destruct (dec_canonical recog1 rvalid1 recog1_sound s b v r O D) as [E Wt]. split; [exact E|].
  apply wt_add_irrelevant; assumption.
Qed.
(* how many generated types that covers *)
Definition canonical_types : list string :=
  flat_map (fun t => let '(n, e, _) := t in match to_schema e with Some s => if mentions txn_name s then [] else [n] | None => [] end) gen_types.
