(* Decoder canonicity for the generic codec: whatever the decoder accepts is the encoding of the value it returns
   (followed by the bytes it left), so every value has exactly one accepted encoding, and no proper prefix of an
   encoding is accepted. *)
From Coq Require Import String.
From Coq Require Import List NArith Lia Bool PeanoNat ZifyN ZifyNat ZifyBool.
From Sia Require Import Prim.Tok Codec.Schema.
Import ListNotations.
Local Open Scope N_scope.

Definition byte_okl (b : bytes) : Prop := Forall (fun x => x < 256) b.

Lemma le_val_bound h : byte_okl h -> le_val h < 256 ^ N.of_nat (length h).
Proof.
  induction 1 as [|x h Hx _ IH]; cbn [le_val length]; [cbn; lia|].
  rewrite Nat2N.inj_succ, N.pow_succ_r'. lia.
Qed.
Lemma le_bytes_val h : byte_okl h -> le_bytes (length h) (le_val h) = h.
Proof.
  induction 1 as [|x h Hx _ IH]; [reflexivity|]. cbn [length le_val le_bytes].
  assert (M : (x + 256 * le_val h) mod 256 = x).
  { replace (x + 256 * le_val h) with (x + le_val h * 256) by lia. rewrite N.mod_add by lia. apply N.mod_small; exact Hx. }
  assert (D : (x + 256 * le_val h) / 256 = le_val h).
  { replace (x + 256 * le_val h) with (x + le_val h * 256) by lia. rewrite N.div_add by lia. rewrite (N.div_small x 256 Hx). lia. }
  rewrite M, D, IH. reflexivity.
Qed.

Lemma take_split k b h r : take k b = Some (h, r) -> b = h ++ r /\ length h = k.
Proof.
  unfold take. destruct (Nat.leb_spec k (length b)); [|discriminate]. intros E; inversion E; subst.
  split; [symmetry; apply firstn_skipn | apply firstn_length_le; assumption].
Qed.
Lemma byte_okl_app a b : byte_okl (a ++ b) -> byte_okl a /\ byte_okl b.
Proof. intros F. apply Forall_app in F. exact F. Qed.

Section Canon.
Variable recog : string -> bytes -> option (bytes * bytes).
Variable rvalid : string -> bytes -> Prop.
(* the hand-modelled fragments are recognised soundly: what is split off is a valid fragment and a prefix *)
Hypothesis recog_sound : forall name b x r, byte_okl b -> recog name b = Some (x, r) -> b = x ++ r /\ rvalid name x.

Theorem dec_canonical s : forall b v r, byte_okl b -> dec recog s b = Some (v, r) ->
  b = enc s v ++ r /\ wt rvalid s v.
Proof.
  induction s as [| | |k| |s IH|s IH| |a IHa c IHc|name]; intros b v r OK D; cbn [dec] in D.
  - (* u8 *) destruct b as [|x b']; [discriminate|]. inversion D; subst. inversion OK; subst. split; [reflexivity | assumption].
  - (* u64 *) destruct (take 8 b) as [[h r']|] eqn:T; [|discriminate]. inversion D; subst.
    destruct (take_split _ _ _ _ T) as [-> L]. destruct (byte_okl_app _ _ OK) as [Oh _].
    cbn [enc wt]. rewrite <- L at 1. rewrite (le_bytes_val h Oh). split; [reflexivity|].
    pose proof (le_val_bound h Oh) as B. rewrite L in B. exact B.
  - (* bool *) destruct b as [|x b']; [discriminate|]. destruct x as [|p]; [inversion D; subst; split; [reflexivity | exact I]|].
    destruct p; try discriminate. inversion D; subst. split; [reflexivity | exact I].
  - (* fixed *) destruct (take k b) as [[h r']|] eqn:T; [|discriminate]. inversion D; subst.
    destruct (take_split _ _ _ _ T) as [-> L]. split; [reflexivity | exact L].
  - (* bytes *) destruct (take 8 b) as [[h r1]|] eqn:T; [|discriminate].
    destruct (le_val h <=? N.of_nat (length r1)) eqn:LE; [|discriminate].
    destruct (take (N.to_nat (le_val h)) r1) as [[d r2]|] eqn:T2; [|discriminate]. inversion D; subst.
    destruct (take_split _ _ _ _ T) as [-> L]. destruct (take_split _ _ _ _ T2) as [-> L2].
    destruct (byte_okl_app _ _ OK) as [Oh _]. cbn [enc wt].
    assert (E : N.of_nat (length d) = le_val h) by lia.
    rewrite E. rewrite <- L at 1. rewrite (le_bytes_val h Oh). split; [rewrite <- app_assoc; reflexivity|].
    pose proof (le_val_bound h Oh) as B. rewrite L in B. cbn in B. lia.
  - (* slice *) destruct (take 8 b) as [[h r1]|] eqn:T; [|discriminate].
    destruct (le_val h <=? N.of_nat (length r1)) eqn:LE; [|discriminate].
    destruct (take_split _ _ _ _ T) as [-> L]. destruct (byte_okl_app _ _ OK) as [Oh Or1].
    set (loop := fix loop (k : nat) (r : bytes) : option (list val * bytes) :=
                   match k with
                   | O => Some ([], r)
                   | S k => match dec recog s r with
                            | Some (x, r') => match loop k r' with Some (xs, r'') => Some (x :: xs, r'') | None => None end
                            | None => None end
                   end) in D.
    assert (G : forall k r0 xs r', byte_okl r0 -> loop k r0 = Some (xs, r') ->
               r0 = flat_map (enc s) xs ++ r' /\ length xs = k /\
               (fix all (l : list val) := match l with [] => True | x :: t => wt rvalid s x /\ all t end) xs).
    { induction k as [|k IHk]; intros r0 xs r' O0 E; cbn [loop] in E.
      - inversion E; subst. repeat split.
      - destruct (dec recog s r0) as [[x rx]|] eqn:Dx; [|discriminate].
        destruct (loop k rx) as [[xs' rr]|] eqn:Lk; [|discriminate]. inversion E; subst.
        destruct (IH _ _ _ O0 Dx) as [-> Wx]. destruct (byte_okl_app _ _ O0) as [_ Orx].
        destruct (IHk _ _ _ Orx Lk) as (-> & Len & Wt). cbn [flat_map length]. rewrite <- app_assoc.
        repeat split; auto. }
    destruct (loop (N.to_nat (le_val h)) r1) as [[xs r2]|] eqn:Lp; [|discriminate]. inversion D; subst.
    destruct (G _ _ _ _ Or1 Lp) as (-> & Len & Wt). cbn [enc wt].
    assert (E : N.of_nat (length xs) = le_val h) by lia.
    rewrite E. rewrite <- L at 1. rewrite (le_bytes_val h Oh). split; [rewrite <- app_assoc; reflexivity|].
    split; [|exact Wt]. pose proof (le_val_bound h Oh) as B. rewrite L in B. cbn in B. lia.
  - (* ptr *) destruct b as [|x b']; [discriminate|]. destruct x as [|p].
    + inversion D; subst. split; [reflexivity | exact I].
    + destruct p; try discriminate. destruct (dec recog s b') as [[y r']|] eqn:Dy; [|discriminate]. inversion D; subst.
      inversion OK; subst. destruct (IH _ _ _ H2 Dy) as [-> Wy]. split; [reflexivity | exact Wy].
  - (* unit *) inversion D; subst. split; [reflexivity | exact I].
  - (* pair *) destruct (dec recog a b) as [[x r1]|] eqn:Dx; [|discriminate].
    destruct (dec recog c r1) as [[y r2]|] eqn:Dy; [|discriminate]. inversion D; subst.
    destruct (IHa _ _ _ OK Dx) as [-> Wx]. destruct (byte_okl_app _ _ OK) as [_ O1].
    destruct (IHc _ _ _ O1 Dy) as [-> Wy]. cbn [enc wt]. rewrite <- app_assoc. split; [reflexivity | split; assumption].
  - (* raw *) destruct (recog name b) as [[x r']|] eqn:Rx; [|discriminate]. inversion D; subst.
    destruct (recog_sound _ _ _ _ OK Rx) as [-> V]. split; [reflexivity | exact V].
Qed.
End Canon.

(* ---- consequences ---- *)
Section Consequences.
Variable recog : string -> bytes -> option (bytes * bytes).
Variable rvalid : string -> bytes -> Prop.
Hypothesis recog_ok : forall name b rest, rvalid name b -> recog name (b ++ rest)%list = Some (b, rest).
Hypothesis rvalid_nonempty : forall name b, rvalid name b -> (1 <= length b)%nat.
Hypothesis recog_sound : forall name b x r, byte_okl b -> recog name b = Some (x, r) -> b = (x ++ r)%list /\ rvalid name x.

(* every value has exactly one accepted encoding *)
Corollary unique_encoding s b v : byte_okl b -> dec recog s b = Some (v, []) -> b = enc s v.
Proof. intros O D. destruct (dec_canonical recog rvalid recog_sound s b v [] O D) as [E _]. rewrite app_nil_r in E. exact E. Qed.

(* two byte strings that decode completely to the same value are the same bytes *)
Corollary decode_injective s b1 b2 v : byte_okl b1 -> byte_okl b2 ->
  dec recog s b1 = Some (v, []) -> dec recog s b2 = Some (v, []) -> b1 = b2.
Proof. intros O1 O2 D1 D2. rewrite (unique_encoding s b1 v O1 D1), (unique_encoding s b2 v O2 D2). reflexivity. Qed.

(* no proper prefix of an encoding is accepted *)
Theorem truncation_rejected s v p q : wf s -> wt rvalid s v -> byte_okl (enc s v) ->
  enc s v = (p ++ q)%list -> q <> [] -> dec recog s p = None.
Proof.
  intros Wf Wt O E NE. destruct (dec recog s p) as [[v' r']|] eqn:D; [|reflexivity]. exfalso.
  assert (Op : byte_okl p) by (rewrite E in O; apply Forall_app in O; tauto).
  destruct (dec_canonical recog rvalid recog_sound s p v' r' Op D) as [Ep Wt'].
  pose proof (roundtrip recog rvalid recog_ok rvalid_nonempty s Wf v [] Wt) as R1. rewrite app_nil_r in R1.
  pose proof (roundtrip recog rvalid recog_ok rvalid_nonempty s Wf v' (r' ++ q)%list Wt') as R2.
  rewrite E, Ep, <- app_assoc in R1. rewrite R1 in R2. inversion R2 as [[Ev Er]].
  destruct r'; [|discriminate]. cbn in Er. symmetry in Er. contradiction.
Qed.
End Consequences.

(* ---- extension stability and truncation ---- *)
Lemma take_extend k b h r q : take k b = Some (h, r) -> take k (b ++ q) = Some (h, r ++ q).
Proof.
  unfold take. destruct (Nat.leb_spec k (length b)) as [L|]; [|discriminate]. intros E; inversion E; subst.
  rewrite app_length. destruct (Nat.leb_spec k (length b + length q)); [|lia].
  rewrite firstn_app, skipn_app. replace (k - length b)%nat with O by lia. cbn [firstn skipn]. rewrite app_nil_r. reflexivity.
Qed.

Section Extend.
Variable recog : string -> bytes -> option (bytes * bytes).
(* the hand-modelled fragments do not look past what they consume *)
Hypothesis recog_extend : forall name b x r q, recog name b = Some (x, r) -> recog name (b ++ q) = Some (x, r ++ q).

(* decoding never depends on the bytes after the value: appending anything to the input appends it to the rest *)
Theorem dec_extend s : forall b v r q, dec recog s b = Some (v, r) -> dec recog s (b ++ q) = Some (v, r ++ q).
Proof.
  induction s as [| | |k| |s IH|s IH| |a IHa c IHc|name]; intros b v r q D; cbn [dec] in D |- *.
  - destruct b as [|x b']; [discriminate|]. inversion D; subst. reflexivity.
  - destruct (take 8 b) as [[h r']|] eqn:T; [|discriminate]. inversion D; subst. rewrite (take_extend _ _ _ _ q T). reflexivity.
  - destruct b as [|x b']; [discriminate|]. destruct x as [|p]; [inversion D; subst; reflexivity|].
    destruct p; try discriminate. inversion D; subst. reflexivity.
  - destruct (take k b) as [[h r']|] eqn:T; [|discriminate]. inversion D; subst. rewrite (take_extend _ _ _ _ q T). reflexivity.
  - destruct (take 8 b) as [[h r1]|] eqn:T; [|discriminate]. rewrite (take_extend _ _ _ _ q T).
    destruct (le_val h <=? N.of_nat (length r1)) eqn:LE; [|discriminate].
    destruct (take (N.to_nat (le_val h)) r1) as [[d r2]|] eqn:T2; [|discriminate]. inversion D; subst.
    rewrite app_length. destruct (le_val h <=? N.of_nat (length r1 + length q)) eqn:LE2; [|lia].
    rewrite (take_extend _ _ _ _ q T2). reflexivity.
  - destruct (take 8 b) as [[h r1]|] eqn:T; [|discriminate]. rewrite (take_extend _ _ _ _ q T).
    destruct (le_val h <=? N.of_nat (length r1)) eqn:LE; [|discriminate].
    rewrite app_length. destruct (le_val h <=? N.of_nat (length r1 + length q)) eqn:LE2; [|lia].
    set (loop := fix loop (k : nat) (r : bytes) : option (list val * bytes) :=
                   match k with
                   | O => Some ([], r)
                   | S k => match dec recog s r with
                            | Some (x, r') => match loop k r' with Some (xs, r'') => Some (x :: xs, r'') | None => None end
                            | None => None end
                   end) in D |- *.
    assert (G : forall k r0 xs r', loop k r0 = Some (xs, r') -> loop k (r0 ++ q) = Some (xs, r' ++ q)).
    { induction k as [|k IHk]; intros r0 xs r' E; cbn [loop] in E |- *.
      - inversion E; subst. reflexivity.
      - destruct (dec recog s r0) as [[x rx]|] eqn:Dx; [|discriminate].
        destruct (loop k rx) as [[xs' rr]|] eqn:Lk; [|discriminate]. inversion E; subst.
        rewrite (IH _ _ _ q Dx), (IHk _ _ _ Lk). reflexivity. }
    destruct (loop (N.to_nat (le_val h)) r1) as [[xs r2]|] eqn:Lp; [|discriminate]. inversion D; subst.
    rewrite (G _ _ _ _ Lp). reflexivity.
  - destruct b as [|x b']; [discriminate|]. destruct x as [|p]; [inversion D; subst; reflexivity|].
    destruct p; try discriminate. destruct (dec recog s b') as [[y r']|] eqn:Dy; [|discriminate]. inversion D; subst.
    cbn [app]. rewrite (IH _ _ _ q Dy). reflexivity.
  - inversion D; subst. reflexivity.
  - destruct (dec recog a b) as [[x r1]|] eqn:Dx; [|discriminate].
    destruct (dec recog c r1) as [[y r2]|] eqn:Dy; [|discriminate]. inversion D; subst.
    rewrite (IHa _ _ _ q Dx), (IHc _ _ _ q Dy). reflexivity.
  - destruct (recog name b) as [[x r']|] eqn:Rx; [|discriminate]. inversion D; subst. rewrite (recog_extend _ _ _ _ q Rx). reflexivity.
Qed.

(* hence no proper prefix of anything the decoder accepts completely is accepted: a truncated encoding is an
   error, never a partial value (no canonicity needed) *)
Theorem prefix_rejected s b v p q : dec recog s b = Some (v, []) -> b = p ++ q -> q <> [] -> dec recog s p = None.
Proof.
  intros D E NE. destruct (dec recog s p) as [[v' r']|] eqn:Dp; [|reflexivity]. exfalso.
  pose proof (dec_extend s p v' r' q Dp) as X. rewrite <- E, D in X. inversion X as [[Ev Er]].
  destruct r'; [|discriminate]. cbn in Er. symmetry in Er. contradiction.
Qed.
End Extend.
