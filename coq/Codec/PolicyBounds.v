From Coq Require Import String.
From Coq Require Import List NArith Lia Bool PeanoNat ZifyN ZifyNat ZifyBool.
From Sia Require Import Prim.Tok Codec.Schema Codec.Canonical Codec.PolicyWire.
Import ListNotations.

(* the deepest nesting of any node (the root is at depth 0) and the node count of a decoded policy *)
Fixpoint pw_depth (p : pw) : nat :=
  match p with
  | PThresh _ [] => 0%nat
  | PThresh _ of => S (fold_right (fun c a => Nat.max (pw_depth c) a) 0%nat of)
  | _ => 0%nat
  end.
Fixpoint pw_nodes (p : pw) : nat :=
  match p with PThresh _ of => S (fold_right (fun c a => (pw_nodes c + a)%nat) 0%nat of) | _ => 1%nat end.

Lemma pw_ok_depth fuel : forall p, pw_ok fuel p -> (pw_depth p < fuel)%nat.
Proof.
  induction fuel as [|f IH]; intros p OK; [destruct OK|]. destruct p as [op pl|v|n of]; cbn [pw_depth]; try lia.
  cbn [pw_ok] in OK. destruct OK as (_ & _ & F). destruct of as [|c0 r0]; [lia|].
  assert (B : forall l, Forall (pw_ok f) l -> l <> [] -> (fold_right (fun c a => Nat.max (pw_depth c) a) 0 l < f)%nat).
  { intros l Fl. induction Fl as [|c r Hc Fr IHr]; intros Hne; [contradiction|]. cbn [fold_right]. pose proof (IH c Hc).
    destruct r as [|c1 r1]; [cbn; lia|]. specialize (IHr ltac:(discriminate)). lia. }
  specialize (B (c0 :: r0) F ltac:(discriminate)). lia.
Qed.

(* every policy the decoder returns nests at most 32 thresholds deep (no unbounded recursion on hostile input) ... *)
Theorem decoded_policy_depth b p r : byte_okl b -> dec_pw max_policy_levels b = Some (p, r) -> (pw_depth p <= 32)%nat.
Proof. intros O D. destruct (dec_pw_canonical max_policy_levels b p r O D) as [_ OK]. pose proof (pw_ok_depth _ _ OK). unfold max_policy_levels in *. lia. Qed.

Lemma enc_pw_nodes : forall p, (pw_nodes p <= length (enc_pw p))%nat.
Proof.
  fix F 1. intros [op pl|v|n of]; cbn [pw_nodes enc_pw length]; try lia.
  assert (B : (fold_right (fun c a => (pw_nodes c + a)%nat) 0%nat of <= length (flat_map enc_pw of))%nat).
  { revert of. fix G 1. intros [|c r]; cbn [fold_right flat_map]; [lia|]. rewrite app_length. pose proof (F c). pose proof (G r). lia. }
  lia.
Qed.
(* ... and has no more nodes than the input has bytes (no amplification) *)
Theorem decoded_policy_size b p r : byte_okl b -> dec_pw max_policy_levels b = Some (p, r) -> (pw_nodes p + length r <= length b)%nat.
Proof.
  intros O D. destruct (dec_pw_canonical max_policy_levels b p r O D) as [-> _]. rewrite app_length. pose proof (enc_pw_nodes p). lia.
Qed.
