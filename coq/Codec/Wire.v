(* The full set of hand-modelled fragments seen by the generic codec, in layers:
     recog  (Irregular.v)  V1Currency, V1SiafundOutput, SpendPolicy
     recog1                + V2FileContractResolution  (tagged union over generated layouts, decoded with recog)
     recog_all             + V2Transaction             (versioned bit-masked record over generated layouts, decoded with recog1)
   The layouts of the parts are taken from Gen/Schemas.v (regenerated from /repo on every run); the tag values,
   the version byte and the bit order are written here and exercised by the correspondence check. *)
From Coq Require Import String.
From Coq Require Import List NArith Lia Bool PeanoNat.
From Sia Require Import Prim.Tok Codec.Schema Codec.Shape Codec.Canonical Codec.PolicyWire Codec.Tagged Codec.Irregular Gen.Schemas.
Import ListNotations.
Local Open Scope string_scope.

(* ---- adding one named fragment to a recogniser ---- *)
Section Add.
Variable n : string.
Variable f : bytes -> option (bytes * bytes).
Variable P : bytes -> Prop.
Variable recog : string -> bytes -> option (bytes * bytes).
Variable rvalid : string -> bytes -> Prop.
Definition add_recog (name : string) (b : bytes) : option (bytes * bytes) := if name =? n then f b else recog name b.
Definition add_valid (name : string) (b : bytes) : Prop := if name =? n then P b else rvalid name b.
Lemma add_ok : (forall b rest, P b -> f (b ++ rest)%list = Some (b, rest)) ->
  (forall name b rest, rvalid name b -> recog name (b ++ rest)%list = Some (b, rest)) ->
  forall name b rest, add_valid name b -> add_recog name (b ++ rest)%list = Some (b, rest).
Proof. intros Hf Hr name b rest. unfold add_valid, add_recog. destruct (name =? n); [apply Hf | apply Hr]. Qed.
Lemma add_nonempty : (forall b, P b -> (1 <= length b)%nat) -> (forall name b, rvalid name b -> (1 <= length b)%nat) ->
  forall name b, add_valid name b -> (1 <= length b)%nat.
Proof. intros Hf Hr name b. unfold add_valid. destruct (name =? n); [apply Hf | apply Hr]. Qed.
Lemma add_extend : (forall b x r q, f b = Some (x, r) -> f (b ++ q)%list = Some (x, (r ++ q)%list)) ->
  (forall name b x r q, recog name b = Some (x, r) -> recog name (b ++ q)%list = Some (x, (r ++ q)%list)) ->
  forall name b x r q, add_recog name b = Some (x, r) -> add_recog name (b ++ q)%list = Some (x, (r ++ q)%list).
Proof. intros Hf Hr name b x r q. unfold add_recog. destruct (name =? n); [apply Hf | apply Hr]. Qed.
Lemma add_sound : (forall b x r, byte_okl b -> f b = Some (x, r) -> b = (x ++ r)%list /\ P x) ->
  (forall name b x r, byte_okl b -> recog name b = Some (x, r) -> b = (x ++ r)%list /\ rvalid name x) ->
  forall name b x r, byte_okl b -> add_recog name b = Some (x, r) -> b = (x ++ r)%list /\ add_valid name x.
Proof. intros Hf Hr name b x r. unfold add_recog, add_valid. destruct (name =? n); [apply Hf | apply Hr]. Qed.
End Add.

Definition sch (h : shape) : schema := match to_schema h with Some s => s | None => SUnit end.

(* ---- V2FileContractResolution: parent element, tag, resolution ---- *)
Definition res_pre : schema := Eval vm_compute in sch enc_types_V2FileContractElement.
Definition res_cases : list schema := Eval vm_compute in
  [sch enc_types_V2FileContractRenewal; sch enc_types_V2StorageProof; sch enc_types_V2FileContractExpiration].
Lemma res_pre_wf : wf res_pre. Proof. apply wfb_wf. vm_compute. reflexivity. Qed.
Lemma res_cases_wf : Forall wf res_cases. Proof. repeat constructor; apply wfb_wf; vm_compute; reflexivity. Qed.

Definition resolution_name := "types.V2FileContractResolution".
Definition recog_resolution := recog_union recog res_pre res_cases.
Definition valid_resolution := valid_union rvalid res_pre res_cases.
Definition recog1 := add_recog resolution_name recog_resolution recog.
Definition rvalid1 := add_valid resolution_name valid_resolution rvalid.

Lemma recog1_ok name b rest : rvalid1 name b -> recog1 name (b ++ rest)%list = Some (b, rest).
Proof. apply add_ok; [apply (recog_union_ok recog rvalid recog_ok rvalid_nonempty _ _ res_pre_wf res_cases_wf) | apply recog_ok]. Qed.
Lemma rvalid1_nonempty name b : rvalid1 name b -> (1 <= length b)%nat.
Proof. apply add_nonempty; [apply valid_union_nonempty | apply rvalid_nonempty]. Qed.
Lemma recog1_extend name b x r q : recog1 name b = Some (x, r) -> recog1 name (b ++ q)%list = Some (x, (r ++ q)%list).
Proof. apply add_extend; [apply (recog_union_extend recog recog_extend) | apply recog_extend]. Qed.
Lemma recog1_sound name b x r : byte_okl b -> recog1 name b = Some (x, r) -> b = (x ++ r)%list /\ rvalid1 name x.
Proof. apply add_sound; [apply (recog_union_sound recog rvalid _ _ recog_sound) | apply recog_sound]. Qed.

(* ---- V2Transaction: version 2, field mask, present fields in bit order ---- *)
Definition empty_list (v : val) : bool := match v with VList [] => true | _ => false end.
Definition empty_bytes (v : val) : bool := match v with VBytes [] => true | _ => false end.
Definition zero_currency (v : val) : bool := match v with VPair (VN 0) (VN 0) => true | _ => false end.
Definition never (_ : val) : bool := false.
Definition txn_field_shapes : list shape := [
  HSlice enc_types_V2SiacoinInput; HSlice enc_types_V2SiacoinOutput; HSlice enc_types_V2SiafundInput; HSlice enc_types_V2SiafundOutput;
  HSlice enc_types_V2FileContract; HSlice enc_types_V2FileContractRevision; HSlice enc_types_V2FileContractResolution;
  HSlice enc_types_Attestation; HBytes; enc_types_Address; enc_types_V2Currency].
Definition txn_field_schemas : list schema := Eval vm_compute in map sch txn_field_shapes.
Definition txn_defaults : list (val -> bool) :=
  [empty_list; empty_list; empty_list; empty_list; empty_list; empty_list; empty_list; empty_list; empty_bytes; never; zero_currency].
Definition txn_fields : list (schema * (val -> bool)) := combine txn_field_schemas txn_defaults.
Lemma txn_fields_wf : Forall (fun f => wf (fst f)) txn_fields.
Proof. repeat constructor; apply wfb_wf; vm_compute; reflexivity. Qed.

Definition txn_name := "types.V2Transaction".
Definition recog_txn := recog_masked recog1 2 txn_fields.
Definition valid_txn := valid_masked rvalid1 2 txn_fields.
Definition recog_all := add_recog txn_name recog_txn recog1.
Definition rvalid_all := add_valid txn_name valid_txn rvalid1.

Lemma recog_all_ok name b rest : rvalid_all name b -> recog_all name (b ++ rest)%list = Some (b, rest).
Proof. apply add_ok; [apply (recog_masked_ok recog1 rvalid1 recog1_ok rvalid1_nonempty recog1_extend _ _ txn_fields_wf) | apply recog1_ok]. Qed.
Lemma rvalid_all_nonempty name b : rvalid_all name b -> (1 <= length b)%nat.
Proof. apply add_nonempty; [apply valid_masked_nonempty | apply rvalid1_nonempty]. Qed.
Lemma recog_all_extend name b x r q : recog_all name b = Some (x, r) -> recog_all name (b ++ q)%list = Some (x, (r ++ q)%list).
Proof. apply add_extend; [apply (recog_masked_extend recog1 recog1_extend) | apply recog1_extend]. Qed.

(* the V2Transaction decoder is not canonical: a set bit with an empty list, or a bit beyond the last field, is
   accepted and re-encodes differently *)
Example txn_noncanonical_accepted :
  exists b x, recog_txn b = Some (x, []) /\ b <> x.
Proof.
  exists (2 :: le_bytes 8 (1 + 2 ^ 20) ++ le_bytes 8 0)%N, (2 :: le_bytes 8 0)%N. split; [vm_compute; reflexivity | discriminate].
Qed.

(* schemas that do not mention a name decode the same with or without its recogniser *)
Fixpoint mentions (n : string) (s : schema) : bool :=
  match s with
  | SRaw m => m =? n
  | SSlice a | SPtr a => mentions n a
  | SPair a b => mentions n a || mentions n b
  | _ => false
  end.
Lemma dec_add_irrelevant n f recog s : mentions n s = false -> forall b, dec (add_recog n f recog) s b = dec recog s b.
Proof.
  induction s as [| | |k| |s IH|s IH| |a IHa c IHc|name]; intros M b; cbn [dec mentions] in *; try reflexivity.
  - destruct (take 8 b) as [[h r]|]; [|reflexivity]. destruct (_ <=? _)%N; [|reflexivity].
    assert (G : forall k r, (fix loop (k : nat) (r : bytes) : option (list val * bytes) :=
                   match k with
                   | O => Some ([], r)
                   | S k => match dec (add_recog n f recog) s r with
                            | Some (x, r') => match loop k r' with Some (xs, r'') => Some (x :: xs, r'') | None => None end
                            | None => None end
                   end) k r =
                (fix loop (k : nat) (r : bytes) : option (list val * bytes) :=
                   match k with
                   | O => Some ([], r)
                   | S k => match dec recog s r with
                            | Some (x, r') => match loop k r' with Some (xs, r'') => Some (x :: xs, r'') | None => None end
                            | None => None end
                   end) k r).
    { induction k as [|k IHk]; intros r0; [reflexivity|]. rewrite (IH M r0). destruct (dec recog s r0) as [[x rx]|]; [|reflexivity].
      rewrite IHk. reflexivity. }
    rewrite G. reflexivity.
  - destruct b as [|x b']; [reflexivity|]. destruct x as [|p]; [reflexivity|]. destruct p; try reflexivity. rewrite (IH M). reflexivity.
  - apply orb_false_iff in M. destruct M as [Ma Mc]. rewrite (IHa Ma). destruct (dec recog a b) as [[x r]|]; [|reflexivity].
    rewrite (IHc Mc). reflexivity.
  - unfold add_recog. rewrite M. reflexivity.
Qed.
Lemma wt_add_irrelevant n P rvalid s : mentions n s = false -> forall v, wt rvalid s v -> wt (add_valid n P rvalid) s v.
Proof.
  induction s as [| | |k| |s IH|s IH| |a IHa c IHc|name]; intros M v W; destruct v; cbn [wt mentions] in *; try exact W.
  - destruct W as [L A]. split; [exact L|]. clear L. induction l as [|x l IHl]; [exact I|]. destruct A as [Wx Wl]. split; [apply IH; assumption | apply IHl; assumption].
  - destruct o; [apply IH; assumption | exact I].
  - apply orb_false_iff in M. destruct M as [Ma Mc]. destruct W. split; [apply IHa | apply IHc]; assumption.
  - unfold add_valid. rewrite M. exact W.
Qed.
