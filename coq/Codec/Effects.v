(* What the semantic encoding of a v2 transaction (the pre-image of its ID and of the input signature
   hash) must write and must blank — compared on every run with what the translator reads off
   V2TransactionSemantics.EncodeTo in /repo. *)
From Coq Require Import String.
From Coq Require Import List Bool.
From Sia Require Import Prim.Tok Codec.Shape Codec.Oblig Gen.Schemas Hash.Ids.
Import ListNotations.
Open Scope string_scope.

Definition find3 (n : string) (l : list (string * list string * list string)) : option (list string * list string) :=
  match find (fun x => String.eqb (fst (fst x)) n) l with Some (_, w, nl) => Some (w, nl) | None => None end.

(* effect-bearing content of a v2 transaction: everything except witnesses, contract / renewal signatures,
   parent element contents other than their IDs, and Merkle proofs.
   NOTE (known finding F8): SiafundInputs[].ClaimAddress is effect-bearing but is NOT written by the
   implementation; it is deliberately absent from this pinned list and reported as a known finding. *)
Definition semantics_written : list string := [
  "uint64(len(txn.SiacoinInputs))"; "txn.SiacoinInputs[].Parent.ID";
  "uint64(len(txn.SiacoinOutputs))"; "V2SiacoinOutput(txn.SiacoinOutputs[])";
  "uint64(len(txn.SiafundInputs))"; "txn.SiafundInputs[].Parent.ID";
  "uint64(len(txn.SiafundOutputs))"; "V2SiafundOutput(txn.SiafundOutputs[])";
  "uint64(len(txn.FileContracts))"; "txn.FileContracts[]";
  "uint64(len(txn.FileContractRevisions))"; "txn.FileContractRevisions[].Parent.ID"; "txn.FileContractRevisions[].Revision";
  "uint64(len(txn.FileContractResolutions))"; "txn.FileContractResolutions[].Parent.ID"; "txn.FileContractResolutions[].Resolution";
  "uint64(len(txn.Attestations))"; "txn.Attestations[]";
  "txn.ArbitraryData"; "txn.NewFoundationAddress"; "V2Currency(txn.MinerFee)" ].
Definition semantics_blanked : list string := [
  "txn.FileContracts[].RenterSignature"; "txn.FileContracts[].HostSignature";
  "txn.FileContractRevisions[].Revision.RenterSignature"; "txn.FileContractRevisions[].Revision.HostSignature";
  "renewal.NewContract.RenterSignature"; "renewal.NewContract.HostSignature"; "renewal.RenterSignature"; "renewal.HostSignature";
  "sp.ProofIndex.StateElement.MerkleProof" ].

Lemma semantics_pinned :
  match find3 "types.V2TransactionSemantics" gen_written with
  | Some (w, nl) => strs_eqb w semantics_written && strs_eqb nl semantics_blanked
  | None => false
  end = true.
Proof. vm_compute. reflexivity. Qed.

(* the v1 transaction ID hashes the transaction without its signatures: every other field is written *)
Lemma v1_id_covers :
  match find3 "types.txnSansSigs" gen_written with
  | Some (w, _) => forallb (fun f => existsb (fun p => substringb ("txn." ++ f) p) w)
                     ["SiacoinInputs"; "SiacoinOutputs"; "FileContracts"; "FileContractRevisions"; "StorageProofs";
                      "SiafundInputs"; "SiafundOutputs"; "MinerFees"; "ArbitraryData"]
                   && negb (existsb (fun p => substringb "Signatures" p) w)
  | None => false
  end = true.
Proof. vm_compute. reflexivity. Qed.

(* the byte strings used as distinguishers contain no '|' (so that "sia/<name>|" is self-delimiting) *)
Definition bytes_of_string (s : string) : bytes := map (fun a => Ascii.N_of_ascii a) (list_ascii_of_string s).
Definition distinguishers : list string := [
  "id/transaction"; "id/siacoinoutput"; "id/siafundoutput"; "id/filecontract"; "id/attestation";
  "id/v2siacoinclaimoutput"; "id/v2filecontractoutput"; "id/v2filecontractrenewal";
  "sig/input"; "sig/filecontract"; "sig/filecontractrenewal"; "sig/attestation";
  "leaf/chainindex"; "leaf/siacoin"; "leaf/siafund"; "leaf/filecontract"; "leaf/v2filecontract"; "leaf/attestation";
  "address"; "commitment" ].
Lemma distinguishers_wellformed : forallb (fun s => no_barb (bytes_of_string s)) distinguishers = true.
Proof. vm_compute. reflexivity. Qed.
Fixpoint pairwise_distinct (l : list string) : bool :=
  match l with [] => true | x :: r => negb (existsb (String.eqb x) r) && pairwise_distinct r end.
Lemma distinguishers_distinct : pairwise_distinct distinguishers = true.
Proof. vm_compute. reflexivity. Qed.
