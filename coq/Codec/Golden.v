(* Golden copy of the translator output for the pinned tree: the wire layout as implemented there. Made by make_golden.sh. *)
From Coq Require Import List String.
From Sia Require Import Codec.Shape.
Import ListNotations.
Open Scope string_scope.

Definition g_enc_types_Address : shape := (HSeq [(HFixed 32)]).
Definition g_dec_types_Address : shape := (HSeq [(HFixed 32)]).
Definition g_enc_types_PublicKey : shape := (HSeq [(HFixed 32)]).
Definition g_dec_types_PublicKey : shape := (HSeq [(HFixed 32)]).
Definition g_enc_types_Signature : shape := (HSeq [(HFixed 64)]).
Definition g_dec_types_Signature : shape := (HSeq [(HFixed 64)]).
Definition g_enc_types_Attestation : shape := (HSeq [g_enc_types_PublicKey; HBytes; HBytes; g_enc_types_Signature]).
Definition g_dec_types_Attestation : shape := (HSeq [g_dec_types_PublicKey; HBytes; HBytes; g_dec_types_Signature]).
Definition g_enc_types_AttestationID : shape := (HSeq [(HFixed 32)]).
Definition g_dec_types_AttestationID : shape := (HSeq [(HFixed 32)]).
Definition g_enc_types_BlockID : shape := (HSeq [(HFixed 32)]).
Definition g_dec_types_BlockID : shape := (HSeq [(HFixed 32)]).
Definition g_enc_types_Hash256 : shape := (HSeq [(HFixed 32)]).
Definition g_dec_types_Hash256 : shape := (HSeq [(HFixed 32)]).
Definition g_enc_types_BlockHeader : shape := (HSeq [g_enc_types_BlockID; HU64; HTime; g_enc_types_Hash256]).
Definition g_dec_types_BlockHeader : shape := (HSeq [g_dec_types_BlockID; HU64; HTime; g_dec_types_Hash256]).
Definition g_enc_types_ChainIndex : shape := (HSeq [HU64; g_enc_types_BlockID]).
Definition g_dec_types_ChainIndex : shape := (HSeq [HU64; g_dec_types_BlockID]).
Definition g_enc_types_StateElement : shape := (HSeq [HU64; (HSlice g_enc_types_Hash256)]).
Definition g_dec_types_StateElement : shape := (HSeq [HU64; (HSlice g_dec_types_Hash256)]).
Definition g_enc_types_ChainIndexElement : shape := (HSeq [g_enc_types_StateElement; g_enc_types_BlockID; g_enc_types_ChainIndex]).
Definition g_dec_types_ChainIndexElement : shape := (HSeq [g_dec_types_StateElement; g_dec_types_BlockID; g_dec_types_ChainIndex]).
Definition g_enc_types_CoveredFields : shape := (HSeq [HBool; (HSlice HU64); (HSlice HU64); (HSlice HU64); (HSlice HU64); (HSlice HU64); (HSlice HU64); (HSlice HU64); (HSlice HU64); (HSlice HU64); (HSlice HU64)]).
Definition g_dec_types_CoveredFields : shape := (HSeq [HBool; (HSlice HU64); (HSlice HU64); (HSlice HU64); (HSlice HU64); (HSlice HU64); (HSlice HU64); (HSlice HU64); (HSlice HU64); (HSlice HU64); (HSlice HU64)]).
Definition g_enc_types_DecoderFunc : shape := HNamed "types.DecoderFunc".
Definition g_dec_types_DecoderFunc : shape := HNamed "types.DecoderFunc".
(* opaque because: enc statement fn(d) | dec statement fn(d) *)
Definition g_enc_types_EncoderFunc : shape := HNamed "types.EncoderFunc".
Definition g_dec_types_EncoderFunc : shape := HNamed "types.EncoderFunc".
(* opaque because: enc statement fn(e) | dec statement fn(e) *)
Definition g_enc_types_V1Currency : shape := HNamed "types.V1Currency".
Definition g_dec_types_V1Currency : shape := HNamed "types.V1Currency".
(* opaque because: enc statement binary.BigEndian.PutUint64(buf[:8], c.Hi) | dec statement if n > 16 { d.SetErr(fmt.Errorf("Currency too large: %v bytes", n)) return } *)
Definition g_enc_types_V1SiacoinOutput : shape := (HSeq [g_enc_types_V1Currency; g_enc_types_Address]).
Definition g_dec_types_V1SiacoinOutput : shape := (HSeq [g_dec_types_V1Currency; g_dec_types_Address]).
Definition g_enc_types_FileContract : shape := (HSeq [HU64; g_enc_types_Hash256; HU64; HU64; g_enc_types_V1Currency; (HSlice g_enc_types_V1SiacoinOutput); (HSlice g_enc_types_V1SiacoinOutput); g_enc_types_Address; HU64]).
Definition g_dec_types_FileContract : shape := (HSeq [HU64; g_dec_types_Hash256; HU64; HU64; g_dec_types_V1Currency; (HSlice g_dec_types_V1SiacoinOutput); (HSlice g_dec_types_V1SiacoinOutput); g_dec_types_Address; HU64]).
Definition g_enc_types_FileContractID : shape := (HSeq [(HFixed 32)]).
Definition g_dec_types_FileContractID : shape := (HSeq [(HFixed 32)]).
Definition g_enc_types_FileContractElement : shape := (HSeq [g_enc_types_StateElement; g_enc_types_FileContractID; g_enc_types_FileContract]).
Definition g_dec_types_FileContractElement : shape := (HSeq [g_dec_types_StateElement; g_dec_types_FileContractID; g_dec_types_FileContract]).
Definition g_enc_types_Specifier : shape := (HSeq [(HFixed 16)]).
Definition g_dec_types_Specifier : shape := (HSeq [(HFixed 16)]).
Definition g_enc_types_UnlockKey : shape := (HSeq [g_enc_types_Specifier; HBytes]).
Definition g_dec_types_UnlockKey : shape := (HSeq [g_dec_types_Specifier; HBytes]).
Definition g_enc_types_UnlockConditions : shape := (HSeq [HU64; (HSlice g_enc_types_UnlockKey); HU64]).
Definition g_dec_types_UnlockConditions : shape := (HSeq [HU64; (HSlice g_dec_types_UnlockKey); HU64]).
Definition g_enc_types_FileContractRevision : shape := (HSeq [g_enc_types_FileContractID; g_enc_types_UnlockConditions; HU64; HU64; g_enc_types_Hash256; HU64; HU64; (HSlice g_enc_types_V1SiacoinOutput); (HSlice g_enc_types_V1SiacoinOutput); g_enc_types_Address]).
Definition g_dec_types_FileContractRevision : shape := (HSeq [g_dec_types_FileContractID; g_dec_types_UnlockConditions; HU64; HU64; g_dec_types_Hash256; HU64; HU64; (HSlice g_dec_types_V1SiacoinOutput); (HSlice g_dec_types_V1SiacoinOutput); g_dec_types_Address]).
Definition g_enc_types_FoundationAddressUpdate : shape := (HSeq [g_enc_types_Address; g_enc_types_Address]).
Definition g_dec_types_FoundationAddressUpdate : shape := (HSeq [g_dec_types_Address; g_dec_types_Address]).
Definition g_enc_types_SpendPolicy : shape := HNamed "types.SpendPolicy".
Definition g_dec_types_SpendPolicy : shape := HNamed "types.SpendPolicy".
(* opaque because: enc statement p.encodePolicy(e) | dec statement readPolicy = func(depth int) (SpendPolicy, error) { if depth > maxPolicyDepth { return SpendPolicy{}, fmt.Errorf("policy exceeds maximum nesting depth of %d", maxPolicyDepth) } switch op := d.ReadUint8(); op { case opAbove: return PolicyAbove(d.ReadUint64()), nil case opAfter: return PolicyAfter(d.ReadTime()), nil case opPublicKey: var pk PublicKey pk.DecodeFrom(d) return PolicyPublicKey(pk), nil case opHash: var h Hash256 h.DecodeFrom(d) return PolicyHash(h), nil case opThreshold: n := d.ReadUint8() of := make([]SpendPolicy, d.ReadUint8()) var err error for i := range of { if of[i], err = readPolicy(depth + 1); err != nil { return SpendPolicy{}, err } } return PolicyThreshold(n, of), nil case opOpaque: var p PolicyTypeOpaque ( *Address)(&p).DecodeFrom(d) return SpendPolicy{p}, nil case opUnlockConditions: var uc UnlockConditions uc.DecodeFrom(d) return SpendPolicy{PolicyTypeUnlockConditions(uc)}, nil default: return SpendPolicy{}, fmt.Errorf("unknown policy (opcode %d)", op) } } *)
Definition g_enc_types_SatisfiedPolicy : shape := (HSeq [g_enc_types_SpendPolicy; (HSlice g_enc_types_Signature); (HSlice g_enc_types_Hash256)]).
Definition g_dec_types_SatisfiedPolicy : shape := (HSeq [g_dec_types_SpendPolicy; (HSlice g_dec_types_Signature); (HSlice g_dec_types_Hash256)]).
Definition g_enc_types_SiacoinOutputID : shape := (HSeq [(HFixed 32)]).
Definition g_dec_types_SiacoinOutputID : shape := (HSeq [(HFixed 32)]).
Definition g_enc_types_V2Currency : shape := (HSeq [HU64; HU64]).
Definition g_dec_types_V2Currency : shape := (HSeq [HU64; HU64]).
Definition g_enc_types_V2SiacoinOutput : shape := (HSeq [g_enc_types_V2Currency; g_enc_types_Address]).
Definition g_dec_types_V2SiacoinOutput : shape := (HSeq [g_dec_types_V2Currency; g_dec_types_Address]).
Definition g_enc_types_SiacoinElement : shape := (HSeq [g_enc_types_StateElement; g_enc_types_SiacoinOutputID; g_enc_types_V2SiacoinOutput; HU64]).
Definition g_dec_types_SiacoinElement : shape := (HSeq [g_dec_types_StateElement; g_dec_types_SiacoinOutputID; g_dec_types_V2SiacoinOutput; HU64]).
Definition g_enc_types_SiacoinInput : shape := (HSeq [g_enc_types_SiacoinOutputID; g_enc_types_UnlockConditions]).
Definition g_dec_types_SiacoinInput : shape := (HSeq [g_dec_types_SiacoinOutputID; g_dec_types_UnlockConditions]).
Definition g_enc_types_SiafundOutputID : shape := (HSeq [(HFixed 32)]).
Definition g_dec_types_SiafundOutputID : shape := (HSeq [(HFixed 32)]).
Definition g_enc_types_V2SiafundOutput : shape := (HSeq [HU64; g_enc_types_Address]).
Definition g_dec_types_V2SiafundOutput : shape := (HSeq [HU64; g_dec_types_Address]).
Definition g_enc_types_SiafundElement : shape := (HSeq [g_enc_types_StateElement; g_enc_types_SiafundOutputID; g_enc_types_V2SiafundOutput; g_enc_types_V2Currency]).
Definition g_dec_types_SiafundElement : shape := (HSeq [g_dec_types_StateElement; g_dec_types_SiafundOutputID; g_dec_types_V2SiafundOutput; g_dec_types_V2Currency]).
Definition g_enc_types_SiafundInput : shape := (HSeq [g_enc_types_SiafundOutputID; g_enc_types_UnlockConditions; g_enc_types_Address]).
Definition g_dec_types_SiafundInput : shape := (HSeq [g_dec_types_SiafundOutputID; g_dec_types_UnlockConditions; g_dec_types_Address]).
Definition g_enc_types_StorageProof : shape := (HSeq [g_enc_types_FileContractID; (HFixed 64); (HSlice g_enc_types_Hash256)]).
Definition g_dec_types_StorageProof : shape := (HSeq [g_dec_types_FileContractID; (HFixed 64); (HSlice g_dec_types_Hash256)]).
Definition g_enc_types_TransactionSignature : shape := (HSeq [g_enc_types_Hash256; HU64; HU64; g_enc_types_CoveredFields; HBytes]).
Definition g_dec_types_TransactionSignature : shape := (HSeq [g_dec_types_Hash256; HU64; HU64; g_dec_types_CoveredFields; HBytes]).
Definition g_enc_types_V1SiafundOutput : shape := HNamed "types.V1SiafundOutput".
Definition g_dec_types_V1SiafundOutput : shape := HNamed "types.V1SiafundOutput".
(* opaque because: enc  | dec statement if val.Hi != 0 { d.SetErr(errors.New("value overflows siafund representation")) return } *)
Definition g_enc_types_txnSansSigs : shape := (HSeq [(HSlice g_enc_types_SiacoinInput); (HSlice g_enc_types_V1SiacoinOutput); (HSlice g_enc_types_FileContract); (HSlice g_enc_types_FileContractRevision); (HSlice g_enc_types_StorageProof); (HSlice g_enc_types_SiafundInput); (HSlice g_enc_types_V1SiafundOutput); (HSlice g_enc_types_V1Currency); (HSlice HBytes)]).
Definition g_dec_types_txnSansSigs : shape := (HSeq [(HSlice g_dec_types_SiacoinInput); (HSlice g_dec_types_V1SiacoinOutput); (HSlice g_dec_types_FileContract); (HSlice g_dec_types_FileContractRevision); (HSlice g_dec_types_StorageProof); (HSlice g_dec_types_SiafundInput); (HSlice g_dec_types_V1SiafundOutput); (HSlice g_dec_types_V1Currency); (HSlice HBytes)]).
Definition g_enc_types_Transaction : shape := (HSeq [g_enc_types_txnSansSigs; (HSlice g_enc_types_TransactionSignature)]).
Definition g_dec_types_Transaction : shape := (HSeq [(HSlice g_dec_types_SiacoinInput); (HSlice g_dec_types_V1SiacoinOutput); (HSlice g_dec_types_FileContract); (HSlice g_dec_types_FileContractRevision); (HSlice g_dec_types_StorageProof); (HSlice g_dec_types_SiafundInput); (HSlice g_dec_types_V1SiafundOutput); (HSlice g_dec_types_V1Currency); (HSlice HBytes); (HSlice g_dec_types_TransactionSignature)]).
Definition g_enc_types_TransactionID : shape := (HSeq [(HFixed 32)]).
Definition g_dec_types_TransactionID : shape := (HSeq [(HFixed 32)]).
Definition g_enc_types_V1Block : shape := (HSeq [g_enc_types_BlockID; HU64; HTime; (HSlice g_enc_types_V1SiacoinOutput); (HSlice g_enc_types_Transaction)]).
Definition g_dec_types_V1Block : shape := (HSeq [g_dec_types_BlockID; HU64; HTime; (HSlice g_dec_types_V1SiacoinOutput); (HSlice g_dec_types_Transaction)]).
Definition g_enc_types_V2TransactionsMultiproof : shape := HNamed "types.V2TransactionsMultiproof".
Definition g_dec_types_V2TransactionsMultiproof : shape := HNamed "types.V2TransactionsMultiproof".
(* opaque because: enc statement for i := range prooflessTxns { prooflessTxns[i] = txns[i].DeepCopy() } | dec cannot type ( *[]V2Transaction)(txns) *)
Definition g_enc_types_V2BlockData : shape := (HSeq [HU64; g_enc_types_Hash256; g_enc_types_V2TransactionsMultiproof]).
Definition g_dec_types_V2BlockData : shape := (HSeq [HU64; g_dec_types_Hash256; g_dec_types_V2TransactionsMultiproof]).
Definition g_enc_types_V2Block : shape := (HSeq [g_enc_types_V1Block; (HPtr g_enc_types_V2BlockData)]).
Definition g_dec_types_V2Block : shape := (HSeq [g_dec_types_V1Block; (HPtr g_dec_types_V2BlockData)]).
Definition g_enc_types_V2FileContract : shape := (HSeq [HU64; HU64; g_enc_types_Hash256; HU64; HU64; g_enc_types_V2SiacoinOutput; g_enc_types_V2SiacoinOutput; g_enc_types_V2Currency; g_enc_types_V2Currency; g_enc_types_PublicKey; g_enc_types_PublicKey; HU64; g_enc_types_Signature; g_enc_types_Signature]).
Definition g_dec_types_V2FileContract : shape := (HSeq [HU64; HU64; g_dec_types_Hash256; HU64; HU64; g_dec_types_V2SiacoinOutput; g_dec_types_V2SiacoinOutput; g_dec_types_V2Currency; g_dec_types_V2Currency; g_dec_types_PublicKey; g_dec_types_PublicKey; HU64; g_dec_types_Signature; g_dec_types_Signature]).
Definition g_enc_types_V2FileContractElement : shape := (HSeq [g_enc_types_StateElement; g_enc_types_FileContractID; g_enc_types_V2FileContract]).
Definition g_dec_types_V2FileContractElement : shape := (HSeq [g_dec_types_StateElement; g_dec_types_FileContractID; g_dec_types_V2FileContract]).
Definition g_enc_types_V2FileContractExpiration : shape := (HSeq []).
Definition g_dec_types_V2FileContractExpiration : shape := (HSeq []).
Definition g_enc_types_V2FileContractRenewal : shape := (HSeq [g_enc_types_V2SiacoinOutput; g_enc_types_V2SiacoinOutput; g_enc_types_V2Currency; g_enc_types_V2Currency; g_enc_types_V2FileContract; g_enc_types_Signature; g_enc_types_Signature]).
Definition g_dec_types_V2FileContractRenewal : shape := (HSeq [g_dec_types_V2SiacoinOutput; g_dec_types_V2SiacoinOutput; g_dec_types_V2Currency; g_dec_types_V2Currency; g_dec_types_V2FileContract; g_dec_types_Signature; g_dec_types_Signature]).
Definition g_enc_types_V2FileContractResolution : shape := HNamed "types.V2FileContractResolution".
Definition g_dec_types_V2FileContractResolution : shape := HNamed "types.V2FileContractResolution".
(* opaque because: enc statement switch r := res.Resolution.(type) { case *V2FileContractRenewal: e.WriteUint8(0) case *V2StorageProof: e.WriteUint8(1) case *V2FileContractExpiration: e.WriteUint8(2) default: panic(fmt.Sprintf("unhandled resolution type %T", r)) } | dec statement switch t := d.ReadUint8(); t { case 0: res.Resolution = new(V2FileContractRenewal) case 1: res.Resolution = new(V2StorageProof) case 2: res.Resolution = new(V2FileContractExpiration) default: d.SetErr(fmt.Errorf("unknown resolution type %d", t)) return } *)
Definition g_enc_types_V2FileContractRevision : shape := (HSeq [g_enc_types_V2FileContractElement; g_enc_types_V2FileContract]).
Definition g_dec_types_V2FileContractRevision : shape := (HSeq [g_dec_types_V2FileContractElement; g_dec_types_V2FileContract]).
Definition g_enc_types_V2SiacoinInput : shape := (HSeq [g_enc_types_SiacoinElement; g_enc_types_SatisfiedPolicy]).
Definition g_dec_types_V2SiacoinInput : shape := (HSeq [g_dec_types_SiacoinElement; g_dec_types_SatisfiedPolicy]).
Definition g_enc_types_V2SiafundInput : shape := (HSeq [g_enc_types_SiafundElement; g_enc_types_Address; g_enc_types_SatisfiedPolicy]).
Definition g_dec_types_V2SiafundInput : shape := (HSeq [g_dec_types_SiafundElement; g_dec_types_Address; g_dec_types_SatisfiedPolicy]).
Definition g_enc_types_V2StorageProof : shape := (HSeq [g_enc_types_ChainIndexElement; (HFixed 64); (HSlice g_enc_types_Hash256)]).
Definition g_dec_types_V2StorageProof : shape := (HSeq [g_dec_types_ChainIndexElement; (HFixed 64); (HSlice g_dec_types_Hash256)]).
Definition g_enc_types_V2Transaction : shape := HNamed "types.V2Transaction".
Definition g_dec_types_V2Transaction : shape := HNamed "types.V2Transaction".
(* opaque because: enc statement for i, b := range [...]bool{ len(txn.SiacoinInputs) != 0, len(txn.SiacoinOutputs) != 0, len(txn.SiafundInputs) != 0, len(txn.SiafundOutputs) != 0, len(txn.FileContracts) != 0, len(txn.FileContractRevisions) != 0, len(txn.FileContractResolutions) != 0, len(txn.Attestations) != 0, len(txn.ArbitraryData) != 0, txn.NewFoundationAddress != nil, !txn.MinerFee.IsZero(), } { if b { fields |= 1 << i } } | dec statement if version := d.ReadUint8(); version != 2 { d.SetErr(fmt.Errorf("unsupported transaction version (%v)", version)) return } *)
Definition g_enc_types_V2TransactionSemantics : shape := HNamed "types.V2TransactionSemantics".
Definition g_dec_types_V2TransactionSemantics : shape := HNamed "types.V2TransactionSemantics".
(* opaque because: enc  | dec  *)
Definition g_enc_consensus_ElementAccumulator : shape := HNamed "consensus.ElementAccumulator".
Definition g_dec_consensus_ElementAccumulator : shape := HNamed "consensus.ElementAccumulator".
(* opaque because: enc statement for i, root := range acc.Trees { if acc.hasTreeAtHeight(i) { types.Hash256(root).EncodeTo(e) } } | dec statement for i := range acc.Trees { if acc.hasTreeAtHeight(i) { ( *types.Hash256)(&acc.Trees[i]).DecodeFrom(d) } } *)
Definition g_enc_consensus_Work : shape := (HSeq [(HFixed 32)]).
Definition g_dec_consensus_Work : shape := (HSeq [(HFixed 32)]).
Definition g_enc_consensus_State : shape := HNamed "consensus.State".
Definition g_dec_consensus_State : shape := HNamed "consensus.State".
(* opaque because: enc statement for _, ts := range s.PrevTimestamps[:s.numTimestamps()] { e.WriteTime(ts) } | dec statement for i := range s.PrevTimestamps[:s.numTimestamps()] { s.PrevTimestamps[i] = d.ReadTime() } *)
Definition g_enc_consensus_V1StorageProofSupplement : shape := (HSeq [g_enc_types_FileContractElement; g_enc_types_BlockID]).
Definition g_dec_consensus_V1StorageProofSupplement : shape := (HSeq [g_dec_types_FileContractElement; g_dec_types_BlockID]).
Definition g_enc_consensus_V1TransactionSupplement : shape := (HSeq [(HSlice g_enc_types_SiacoinElement); (HSlice g_enc_types_SiafundElement); (HSlice g_enc_types_FileContractElement); (HSlice g_enc_consensus_V1StorageProofSupplement)]).
Definition g_dec_consensus_V1TransactionSupplement : shape := (HSeq [(HSlice g_dec_types_SiacoinElement); (HSlice g_dec_types_SiafundElement); (HSlice g_dec_types_FileContractElement); (HSlice g_dec_consensus_V1StorageProofSupplement)]).
Definition g_enc_consensus_V1BlockSupplement : shape := (HSeq [(HSlice g_enc_consensus_V1TransactionSupplement); (HSlice g_enc_types_FileContractElement)]).
Definition g_dec_consensus_V1BlockSupplement : shape := (HSeq [(HSlice g_dec_consensus_V1TransactionSupplement); (HSlice g_dec_types_FileContractElement)]).
Definition g_enc_gateway_Header : shape := (HSeq [g_enc_types_BlockID; (HFixed 8); HBytes]).
Definition g_dec_gateway_Header : shape := (HSeq [g_dec_types_BlockID; (HFixed 8); HBytes]).
Definition g_enc_gateway_RPCDiscoverIP_response : shape := (HSeq [HBytes]).
Definition g_dec_gateway_RPCDiscoverIP_response : shape := (HSeq [HBytes]).
Definition g_enc_gateway_V2BlockOutline : shape := HNamed "gateway.V2BlockOutline".
Definition g_dec_gateway_V2BlockOutline : shape := HNamed "gateway.V2BlockOutline".
(* opaque because: enc statement switch { case ot.Transaction != nil: txns = append(txns, *ot.Transaction) kinds = append(kinds, 0) case ot.V2Transaction != nil: v2txns = append(v2txns, *ot.V2Transaction) kinds = append(kinds, 1) default: hashes = append(hashes, ot.Hash) kinds = append(kinds, 2) } | dec statement for i := range kinds { kinds[i] = d.ReadUint8() if kinds[i] > 2 { d.SetErr(fmt.Errorf("invalid outline transaction type (%d)", kinds[i])) return } counts[kinds[i]]++ } *)
Definition g_enc_gateway_RPCRelayV2BlockOutline_request : shape := (HSeq [g_enc_gateway_V2BlockOutline]).
Definition g_dec_gateway_RPCRelayV2BlockOutline_request : shape := (HSeq [g_dec_gateway_V2BlockOutline]).
Definition g_enc_gateway_RPCRelayV2Header_request : shape := (HSeq [g_enc_types_BlockHeader]).
Definition g_dec_gateway_RPCRelayV2Header_request : shape := (HSeq [g_dec_types_BlockHeader]).
Definition g_enc_gateway_RPCRelayV2TransactionSet_request : shape := (HSeq [g_enc_types_ChainIndex; (HSlice g_enc_types_V2Transaction)]).
Definition g_dec_gateway_RPCRelayV2TransactionSet_request : shape := (HSeq [g_dec_types_ChainIndex; (HSlice g_dec_types_V2Transaction)]).
Definition g_enc_gateway_RPCSendCheckpoint_request : shape := (HSeq [g_enc_types_ChainIndex]).
Definition g_dec_gateway_RPCSendCheckpoint_request : shape := (HSeq [g_dec_types_ChainIndex]).
Definition g_enc_gateway_RPCSendCheckpoint_response : shape := (HSeq [g_enc_types_V2Block; g_enc_consensus_State]).
Definition g_dec_gateway_RPCSendCheckpoint_response : shape := (HSeq [g_dec_types_V2Block; g_dec_consensus_State]).
Definition g_enc_gateway_RPCSendHeaders_request : shape := (HSeq [g_enc_types_ChainIndex; HU64]).
Definition g_dec_gateway_RPCSendHeaders_request : shape := (HSeq [g_dec_types_ChainIndex; HU64]).
Definition g_enc_gateway_RPCSendHeaders_response : shape := (HSeq [(HSlice g_enc_types_BlockHeader); HU64]).
Definition g_dec_gateway_RPCSendHeaders_response : shape := (HSeq [(HSlice g_dec_types_BlockHeader); HU64]).
Definition g_enc_gateway_RPCSendTransactions_request : shape := (HSeq [g_enc_types_ChainIndex; (HSlice g_enc_types_Hash256)]).
Definition g_dec_gateway_RPCSendTransactions_request : shape := (HSeq [g_dec_types_ChainIndex; (HSlice g_dec_types_Hash256)]).
Definition g_enc_gateway_RPCSendTransactions_response : shape := (HSeq [(HSlice g_enc_types_Transaction); (HSlice g_enc_types_V2Transaction)]).
Definition g_dec_gateway_RPCSendTransactions_response : shape := (HSeq [(HSlice g_dec_types_Transaction); (HSlice g_dec_types_V2Transaction)]).
Definition g_enc_gateway_RPCSendV2Blocks_request : shape := (HSeq [(HSlice g_enc_types_BlockID); HU64]).
Definition g_dec_gateway_RPCSendV2Blocks_request : shape := (HSeq [(HSlice g_dec_types_BlockID); HU64]).
Definition g_enc_gateway_RPCSendV2Blocks_response : shape := (HSeq [(HSlice g_enc_types_V2Block); HU64]).
Definition g_dec_gateway_RPCSendV2Blocks_response : shape := (HSeq [(HSlice g_dec_types_V2Block); HU64]).
Definition g_enc_gateway_RPCShareNodes_response : shape := (HSeq [(HSlice HBytes)]).
Definition g_dec_gateway_RPCShareNodes_response : shape := (HSeq [(HSlice HBytes)]).
Definition g_enc_gateway_emptyRequest_request : shape := (HSeq []).
Definition g_dec_gateway_emptyRequest_request : shape := (HSeq []).
Definition g_enc_gateway_emptyResponse_response : shape := (HSeq []).
Definition g_dec_gateway_emptyResponse_response : shape := (HSeq []).
Definition g_enc_rhp_v2_Challenge : shape := (HSeq [(HFixed 16)]).
Definition g_dec_rhp_v2_Challenge : shape := (HSeq [(HFixed 16)]).
Definition g_enc_rhp_v2_RPCError : shape := (HSeq [g_enc_types_Specifier; HBytes; HBytes]).
Definition g_dec_rhp_v2_RPCError : shape := (HSeq [g_dec_types_Specifier; HBytes; HBytes]).
Definition g_enc_rhp_v2_RPCFormContractAdditions : shape := (HSeq [(HSlice g_enc_types_Transaction); (HSlice g_enc_types_SiacoinInput); (HSlice g_enc_types_V1SiacoinOutput)]).
Definition g_dec_rhp_v2_RPCFormContractAdditions : shape := (HSeq [(HSlice g_dec_types_Transaction); (HSlice g_dec_types_SiacoinInput); (HSlice g_dec_types_V1SiacoinOutput)]).
Definition g_enc_rhp_v2_RPCFormContractRequest : shape := (HSeq [(HSlice g_enc_types_Transaction); g_enc_types_UnlockKey]).
Definition g_dec_rhp_v2_RPCFormContractRequest : shape := (HSeq [(HSlice g_dec_types_Transaction); g_dec_types_UnlockKey]).
Definition g_enc_rhp_v2_RPCFormContractSignatures : shape := (HSeq [(HSlice g_enc_types_TransactionSignature); g_enc_types_TransactionSignature]).
Definition g_dec_rhp_v2_RPCFormContractSignatures : shape := (HSeq [(HSlice g_dec_types_TransactionSignature); g_dec_types_TransactionSignature]).
Definition g_enc_rhp_v2_RPCLockRequest : shape := (HSeq [g_enc_types_FileContractID; HBytes; HU64]).
Definition g_dec_rhp_v2_RPCLockRequest : shape := (HSeq [g_dec_types_FileContractID; HBytes; HU64]).
Definition g_enc_rhp_v2_RPCLockResponse : shape := (HSeq [HBool; g_enc_rhp_v2_Challenge; g_enc_types_FileContractRevision; (HSlice g_enc_types_TransactionSignature)]).
Definition g_dec_rhp_v2_RPCLockResponse : shape := (HSeq [HBool; g_dec_rhp_v2_Challenge; g_dec_types_FileContractRevision; (HSlice g_dec_types_TransactionSignature)]).
Definition g_enc_rhp_v2_RPCReadRequest : shape := HNamed "rhp/v2.RPCReadRequest".
Definition g_dec_rhp_v2_RPCReadRequest : shape := HNamed "rhp/v2.RPCReadRequest".
(* opaque because: enc  | dec cannot type s.MerkleRoot *)
Definition g_enc_rhp_v2_RPCReadResponse : shape := HNamed "rhp/v2.RPCReadResponse".
Definition g_dec_rhp_v2_RPCReadResponse : shape := HNamed "rhp/v2.RPCReadResponse".
(* opaque because: enc  | dec statement append(r.Data[:0], d.ReadBytes()...) *)
Definition g_enc_rhp_v2_RPCRenewAndClearContractRequest : shape := (HSeq [(HSlice g_enc_types_Transaction); g_enc_types_UnlockKey; (HSlice g_enc_types_V1Currency); (HSlice g_enc_types_V1Currency)]).
Definition g_dec_rhp_v2_RPCRenewAndClearContractRequest : shape := (HSeq [(HSlice g_dec_types_Transaction); g_dec_types_UnlockKey; (HSlice g_dec_types_V1Currency); (HSlice g_dec_types_V1Currency)]).
Definition g_enc_rhp_v2_RPCRenewAndClearContractSignatures : shape := (HSeq [(HSlice g_enc_types_TransactionSignature); g_enc_types_TransactionSignature; HBytes]).
Definition g_dec_rhp_v2_RPCRenewAndClearContractSignatures : shape := (HSeq [(HSlice g_dec_types_TransactionSignature); g_dec_types_TransactionSignature; HBytes]).
Definition g_enc_rhp_v2_RPCSectorRootsRequest : shape := (HSeq [HU64; HU64; HU64; (HSlice g_enc_types_V1Currency); (HSlice g_enc_types_V1Currency); HBytes]).
Definition g_dec_rhp_v2_RPCSectorRootsRequest : shape := (HSeq [HU64; HU64; HU64; (HSlice g_dec_types_V1Currency); (HSlice g_dec_types_V1Currency); HBytes]).
Definition g_enc_rhp_v2_RPCSectorRootsResponse : shape := (HSeq [HBytes; (HSlice g_enc_types_Hash256); (HSlice g_enc_types_Hash256)]).
Definition g_dec_rhp_v2_RPCSectorRootsResponse : shape := (HSeq [HBytes; (HSlice g_dec_types_Hash256); (HSlice g_dec_types_Hash256)]).
Definition g_enc_rhp_v2_RPCSettingsResponse : shape := (HSeq [HBytes]).
Definition g_dec_rhp_v2_RPCSettingsResponse : shape := (HSeq [HBytes]).
Definition g_enc_rhp_v2_RPCWriteMerkleProof : shape := (HSeq [(HSlice g_enc_types_Hash256); (HSlice g_enc_types_Hash256); g_enc_types_Hash256]).
Definition g_dec_rhp_v2_RPCWriteMerkleProof : shape := (HSeq [(HSlice g_dec_types_Hash256); (HSlice g_dec_types_Hash256); g_dec_types_Hash256]).
Definition g_enc_rhp_v2_RPCWriteRequest : shape := HNamed "rhp/v2.RPCWriteRequest".
Definition g_dec_rhp_v2_RPCWriteRequest : shape := HNamed "rhp/v2.RPCWriteRequest".
(* opaque because: enc  | dec cannot type a.Type *)
Definition g_enc_rhp_v2_RPCWriteResponse : shape := (HSeq [HBytes]).
Definition g_dec_rhp_v2_RPCWriteResponse : shape := (HSeq [HBytes]).
Definition g_enc_rhp_v2_loopKeyExchangeRequest : shape := HNamed "rhp/v2.loopKeyExchangeRequest".
Definition g_dec_rhp_v2_loopKeyExchangeRequest : shape := HNamed "rhp/v2.loopKeyExchangeRequest".
(* opaque because: enc cannot type loopEnter | dec cannot type new(types.Specifier) *)
Definition g_enc_rhp_v2_loopKeyExchangeResponse : shape := (HSeq [(HFixed 32); HBytes; g_enc_types_Specifier]).
Definition g_dec_rhp_v2_loopKeyExchangeResponse : shape := (HSeq [(HFixed 32); HBytes; g_dec_types_Specifier]).
Definition g_enc_rhp_v2_rpcResponse : shape := HNamed "rhp/v2.rpcResponse".
Definition g_dec_rhp_v2_rpcResponse : shape := HNamed "rhp/v2.rpcResponse".
(* opaque because: enc statement if resp.err != nil { resp.err.EncodeTo(e) return } | dec statement if d.ReadBool() { resp.err = new(RPCError) resp.err.DecodeFrom(d) return } *)
Definition g_enc_rhp_v3_Account : shape := HNamed "rhp/v3.Account".
Definition g_dec_rhp_v3_Account : shape := HNamed "rhp/v3.Account".
(* opaque because: enc statement if *a != ZeroAccount { uk.Algorithm = types.SpecifierEd25519 uk.Key = a[:] } | dec statement if spk.Algorithm == (types.Specifier{}) && len(spk.Key) == 0 { *a = ZeroAccount return } else if spk.Algorithm != types.SpecifierEd25519 { d.SetErr(fmt.Errorf("unsupported signature algorithm: %v", spk.Algorithm)) return } *)
Definition g_enc_rhp_v3_FundAccountReceipt : shape := (HSeq [g_enc_types_UnlockKey; g_enc_rhp_v3_Account; g_enc_types_V1Currency; HTime]).
Definition g_dec_rhp_v3_FundAccountReceipt : shape := (HSeq [g_dec_types_UnlockKey; g_dec_rhp_v3_Account; g_dec_types_V1Currency; HTime]).
Definition g_enc_rhp_v3_InstrAppendSector : shape := (HSeq [HU64; HBool]).
Definition g_dec_rhp_v3_InstrAppendSector : shape := (HSeq [HU64; HBool]).
Definition g_enc_rhp_v3_InstrAppendSectorRoot : shape := (HSeq [HU64; HBool]).
Definition g_dec_rhp_v3_InstrAppendSectorRoot : shape := (HSeq [HU64; HBool]).
Definition g_enc_rhp_v3_InstrDropSectors : shape := (HSeq [HU64; HBool]).
Definition g_dec_rhp_v3_InstrDropSectors : shape := (HSeq [HU64; HBool]).
Definition g_enc_rhp_v3_InstrHasSector : shape := (HSeq [HU64]).
Definition g_dec_rhp_v3_InstrHasSector : shape := (HSeq [HU64]).
Definition g_enc_rhp_v3_InstrReadOffset : shape := (HSeq [HU64; HU64; HBool]).
Definition g_dec_rhp_v3_InstrReadOffset : shape := (HSeq [HU64; HU64; HBool]).
Definition g_enc_rhp_v3_InstrReadRegistry : shape := (HSeq [HU64; HU64; HU64; HU8]).
Definition g_dec_rhp_v3_InstrReadRegistry : shape := (HSeq [HU64; HU64; HU64; HU8]).
Definition g_enc_rhp_v3_InstrReadRegistryNoVersion : shape := (HSeq [HU64; HU64; HU64]).
Definition g_dec_rhp_v3_InstrReadRegistryNoVersion : shape := (HSeq [HU64; HU64; HU64]).
Definition g_enc_rhp_v3_InstrReadSector : shape := (HSeq [HU64; HU64; HU64; HBool]).
Definition g_dec_rhp_v3_InstrReadSector : shape := (HSeq [HU64; HU64; HU64; HBool]).
Definition g_enc_rhp_v3_InstrRevision : shape := (HSeq []).
Definition g_dec_rhp_v3_InstrRevision : shape := (HSeq []).
Definition g_enc_rhp_v3_InstrStoreSector : shape := (HSeq [HU64; HU64]).
Definition g_dec_rhp_v3_InstrStoreSector : shape := (HSeq [HU64; HU64]).
Definition g_enc_rhp_v3_InstrSwapSector : shape := (HSeq [HU64; HU64; HBool]).
Definition g_dec_rhp_v3_InstrSwapSector : shape := (HSeq [HU64; HU64; HBool]).
Definition g_enc_rhp_v3_InstrUpdateRegistry : shape := (HSeq [HU64; HU64; HU64; HU64; HU64; HU64; HU64; HU8]).
Definition g_dec_rhp_v3_InstrUpdateRegistry : shape := (HSeq [HU64; HU64; HU64; HU64; HU64; HU64; HU64; HU8]).
Definition g_enc_rhp_v3_InstrUpdateRegistryNoType : shape := (HSeq [HU64; HU64; HU64; HU64; HU64; HU64; HU64]).
Definition g_dec_rhp_v3_InstrUpdateRegistryNoType : shape := (HSeq [HU64; HU64; HU64; HU64; HU64; HU64; HU64]).
Definition g_enc_rhp_v3_InstrUpdateSector : shape := (HSeq [HU64; HU64; HU64; HBool]).
Definition g_dec_rhp_v3_InstrUpdateSector : shape := (HSeq [HU64; HU64; HU64; HBool]).
Definition g_enc_rhp_v3_PayByContractRequest : shape := (HSeq [g_enc_types_FileContractID; HU64; (HSlice g_enc_types_V1Currency); (HSlice g_enc_types_V1Currency); g_enc_rhp_v3_Account; HBytes]).
Definition g_dec_rhp_v3_PayByContractRequest : shape := (HSeq [g_dec_types_FileContractID; HU64; (HSlice g_dec_types_V1Currency); (HSlice g_dec_types_V1Currency); g_dec_rhp_v3_Account; HBytes]).
Definition g_enc_rhp_v3_PayByEphemeralAccountRequest : shape := (HSeq [g_enc_rhp_v3_Account; HU64; g_enc_types_V1Currency; (HFixed 8); g_enc_types_Signature; HU64]).
Definition g_dec_rhp_v3_PayByEphemeralAccountRequest : shape := (HSeq [g_dec_rhp_v3_Account; HU64; g_dec_types_V1Currency; (HFixed 8); g_dec_types_Signature; HU64]).
Definition g_enc_rhp_v3_PaymentResponse : shape := (HSeq [g_enc_types_Signature]).
Definition g_dec_rhp_v3_PaymentResponse : shape := (HSeq [g_dec_types_Signature]).
Definition g_enc_rhp_v3_RPCAccountBalanceRequest : shape := (HSeq [g_enc_rhp_v3_Account]).
Definition g_dec_rhp_v3_RPCAccountBalanceRequest : shape := (HSeq [g_dec_rhp_v3_Account]).
Definition g_enc_rhp_v3_RPCAccountBalanceResponse : shape := (HSeq [g_enc_types_V1Currency]).
Definition g_dec_rhp_v3_RPCAccountBalanceResponse : shape := (HSeq [g_dec_types_V1Currency]).
Definition g_enc_rhp_v3_RPCError : shape := (HSeq [g_enc_types_Specifier; HBytes; HBytes]).
Definition g_dec_rhp_v3_RPCError : shape := (HSeq [g_dec_types_Specifier; HBytes; HBytes]).
Definition g_enc_rhp_v3_RPCExecuteProgramRequest : shape := HNamed "rhp/v3.RPCExecuteProgramRequest".
Definition g_dec_rhp_v3_RPCExecuteProgramRequest : shape := HNamed "rhp/v3.RPCExecuteProgramRequest".
(* opaque because: enc cannot type instructionID(instr) | dec statement instructionForID(id, d.ReadUint64()) *)
Definition g_enc_rhp_v3_RPCExecuteProgramResponse : shape := HNamed "rhp/v3.RPCExecuteProgramResponse".
Definition g_dec_rhp_v3_RPCExecuteProgramResponse : shape := HNamed "rhp/v3.RPCExecuteProgramResponse".
(* opaque because: enc statement if r.Error != nil { errString = r.Error.Error() } | dec statement if s := d.ReadString(); s != "" { r.Error = errors.New(s) } *)
Definition g_enc_rhp_v3_RPCFinalizeProgramRequest : shape := (HSeq [HBytes; HU64; (HSlice g_enc_types_V1Currency); (HSlice g_enc_types_V1Currency)]).
Definition g_dec_rhp_v3_RPCFinalizeProgramRequest : shape := (HSeq [HBytes; HU64; (HSlice g_dec_types_V1Currency); (HSlice g_dec_types_V1Currency)]).
Definition g_enc_rhp_v3_RPCFinalizeProgramResponse : shape := (HSeq [HBytes]).
Definition g_dec_rhp_v3_RPCFinalizeProgramResponse : shape := (HSeq [HBytes]).
Definition g_enc_rhp_v3_RPCFundAccountRequest : shape := (HSeq [g_enc_rhp_v3_Account]).
Definition g_dec_rhp_v3_RPCFundAccountRequest : shape := (HSeq [g_dec_rhp_v3_Account]).
Definition g_enc_rhp_v3_RPCFundAccountResponse : shape := (HSeq [g_enc_types_V1Currency; g_enc_rhp_v3_FundAccountReceipt; g_enc_types_Signature]).
Definition g_dec_rhp_v3_RPCFundAccountResponse : shape := (HSeq [g_dec_types_V1Currency; g_dec_rhp_v3_FundAccountReceipt; g_dec_types_Signature]).
Definition g_enc_rhp_v3_RPCLatestRevisionRequest : shape := (HSeq [g_enc_types_FileContractID]).
Definition g_dec_rhp_v3_RPCLatestRevisionRequest : shape := (HSeq [g_dec_types_FileContractID]).
Definition g_enc_rhp_v3_RPCLatestRevisionResponse : shape := (HSeq [g_enc_types_FileContractRevision]).
Definition g_dec_rhp_v3_RPCLatestRevisionResponse : shape := (HSeq [g_dec_types_FileContractRevision]).
Definition g_enc_rhp_v3_RPCPriceTableResponse : shape := (HSeq []).
Definition g_dec_rhp_v3_RPCPriceTableResponse : shape := (HSeq []).
Definition g_enc_rhp_v3_RPCRenewContractHostAdditions : shape := (HSeq [(HSlice g_enc_types_Transaction); (HSlice g_enc_types_SiacoinInput); (HSlice g_enc_types_V1SiacoinOutput); g_enc_types_Signature]).
Definition g_dec_rhp_v3_RPCRenewContractHostAdditions : shape := (HSeq [(HSlice g_dec_types_Transaction); (HSlice g_dec_types_SiacoinInput); (HSlice g_dec_types_V1SiacoinOutput); g_dec_types_Signature]).
Definition g_enc_rhp_v3_RPCRenewContractRequest : shape := (HSeq [(HSlice g_enc_types_Transaction); g_enc_types_UnlockKey; g_enc_types_Signature]).
Definition g_dec_rhp_v3_RPCRenewContractRequest : shape := (HSeq [(HSlice g_dec_types_Transaction); g_dec_types_UnlockKey; g_dec_types_Signature]).
Definition g_enc_rhp_v3_RPCRenewSignatures : shape := (HSeq [(HSlice g_enc_types_TransactionSignature); g_enc_types_TransactionSignature]).
Definition g_dec_rhp_v3_RPCRenewSignatures : shape := (HSeq [(HSlice g_dec_types_TransactionSignature); g_dec_types_TransactionSignature]).
Definition g_enc_rhp_v3_RPCUpdatePriceTableResponse : shape := (HSeq [HBytes]).
Definition g_dec_rhp_v3_RPCUpdatePriceTableResponse : shape := (HSeq [HBytes]).
Definition g_enc_rhp_v3_SettingsID : shape := (HSeq [(HFixed 16)]).
Definition g_dec_rhp_v3_SettingsID : shape := (HSeq [(HFixed 16)]).
Definition g_enc_rhp_v3_rpcResponse : shape := HNamed "rhp/v3.rpcResponse".
Definition g_dec_rhp_v3_rpcResponse : shape := HNamed "rhp/v3.rpcResponse".
(* opaque because: enc statement if resp.err != nil { resp.err.EncodeTo(e) return } | dec statement if d.ReadBool() { resp.err = new(RPCError) resp.err.DecodeFrom(d) return } *)
Definition g_enc_rhp_v4_Account : shape := (HSeq [(HFixed 32)]).
Definition g_dec_rhp_v4_Account : shape := (HSeq [(HFixed 32)]).
Definition g_enc_rhp_v4_AccountDeposit : shape := (HSeq [g_enc_rhp_v4_Account; g_enc_types_V2Currency]).
Definition g_dec_rhp_v4_AccountDeposit : shape := (HSeq [g_dec_rhp_v4_Account; g_dec_types_V2Currency]).
Definition g_enc_rhp_v4_AccountToken : shape := (HSeq [g_enc_types_PublicKey; g_enc_rhp_v4_Account; HTime; g_enc_types_Signature]).
Definition g_dec_rhp_v4_AccountToken : shape := (HSeq [g_dec_types_PublicKey; g_dec_rhp_v4_Account; HTime; g_dec_types_Signature]).
Definition g_enc_rhp_v4_HostPrices : shape := (HSeq [g_enc_types_V2Currency; g_enc_types_V2Currency; g_enc_types_V2Currency; g_enc_types_V2Currency; g_enc_types_V2Currency; g_enc_types_V2Currency; HU64; HTime; g_enc_types_Signature]).
Definition g_dec_rhp_v4_HostPrices : shape := (HSeq [g_dec_types_V2Currency; g_dec_types_V2Currency; g_dec_types_V2Currency; g_dec_types_V2Currency; g_dec_types_V2Currency; g_dec_types_V2Currency; HU64; HTime; g_dec_types_Signature]).
Definition g_enc_rhp_v4_HostSettings : shape := (HSeq [(HFixed 3); HBytes; g_enc_types_Address; HBool; g_enc_types_V2Currency; HU64; HU64; HU64; g_enc_rhp_v4_HostPrices]).
Definition g_dec_rhp_v4_HostSettings : shape := (HSeq [(HFixed 3); HBytes; g_dec_types_Address; HBool; g_dec_types_V2Currency; HU64; HU64; HU64; g_dec_rhp_v4_HostPrices]).
Definition g_enc_rhp_v4_PoolAttachment : shape := (HSeq [g_enc_rhp_v4_Account; g_enc_rhp_v4_Account; HTime; g_enc_types_Signature]).
Definition g_dec_rhp_v4_PoolAttachment : shape := (HSeq [g_dec_rhp_v4_Account; g_dec_rhp_v4_Account; HTime; g_dec_types_Signature]).
Definition g_enc_rhp_v4_PoolDetachment : shape := (HSeq [g_enc_rhp_v4_Account; g_enc_rhp_v4_Account; HTime; g_enc_types_Signature]).
Definition g_dec_rhp_v4_PoolDetachment : shape := (HSeq [g_dec_rhp_v4_Account; g_dec_rhp_v4_Account; HTime; g_dec_types_Signature]).
Definition g_enc_rhp_v4_RPCAccountBalanceRequest : shape := (HSeq [g_enc_rhp_v4_Account]).
Definition g_dec_rhp_v4_RPCAccountBalanceRequest : shape := (HSeq [g_dec_rhp_v4_Account]).
Definition g_enc_rhp_v4_RPCAccountBalanceResponse : shape := (HSeq [g_enc_types_V2Currency]).
Definition g_dec_rhp_v4_RPCAccountBalanceResponse : shape := (HSeq [g_dec_types_V2Currency]).
Definition g_enc_rhp_v4_RPCAppendSectorsRequest : shape := (HSeq [g_enc_rhp_v4_HostPrices; (HSlice g_enc_types_Hash256); g_enc_types_FileContractID; g_enc_types_Signature]).
Definition g_dec_rhp_v4_RPCAppendSectorsRequest : shape := (HSeq [g_dec_rhp_v4_HostPrices; (HSlice g_dec_types_Hash256); g_dec_types_FileContractID; g_dec_types_Signature]).
Definition g_enc_rhp_v4_RPCAppendSectorsResponse : shape := (HSeq [(HSlice HBool); (HSlice g_enc_types_Hash256); g_enc_types_Hash256]).
Definition g_dec_rhp_v4_RPCAppendSectorsResponse : shape := (HSeq [(HSlice HBool); (HSlice g_dec_types_Hash256); g_dec_types_Hash256]).
Definition g_enc_rhp_v4_RPCAppendSectorsSecondResponse : shape := (HSeq [g_enc_types_Signature]).
Definition g_dec_rhp_v4_RPCAppendSectorsSecondResponse : shape := (HSeq [g_dec_types_Signature]).
Definition g_enc_rhp_v4_RPCAppendSectorsThirdResponse : shape := (HSeq [g_enc_types_Signature]).
Definition g_dec_rhp_v4_RPCAppendSectorsThirdResponse : shape := (HSeq [g_dec_types_Signature]).
Definition g_enc_rhp_v4_RPCAttachPoolsRequest : shape := (HSeq [(HSlice g_enc_rhp_v4_PoolAttachment)]).
Definition g_dec_rhp_v4_RPCAttachPoolsRequest : shape := (HSeq [(HSlice g_dec_rhp_v4_PoolAttachment)]).
Definition g_enc_rhp_v4_RPCAttachPoolsResponse : shape := (HSeq []).
Definition g_dec_rhp_v4_RPCAttachPoolsResponse : shape := (HSeq []).
Definition g_enc_rhp_v4_RPCDetachPoolsRequest : shape := (HSeq [(HSlice g_enc_rhp_v4_PoolDetachment)]).
Definition g_dec_rhp_v4_RPCDetachPoolsRequest : shape := (HSeq [(HSlice g_dec_rhp_v4_PoolDetachment)]).
Definition g_enc_rhp_v4_RPCDetachPoolsResponse : shape := (HSeq []).
Definition g_dec_rhp_v4_RPCDetachPoolsResponse : shape := (HSeq []).
Definition g_enc_rhp_v4_RPCError : shape := (HSeq [HU8; HBytes]).
Definition g_dec_rhp_v4_RPCError : shape := (HSeq [HU8; HBytes]).
Definition g_enc_rhp_v4_RPCFormContractParams : shape := (HSeq [g_enc_types_PublicKey; g_enc_types_Address; g_enc_types_V2Currency; g_enc_types_V2Currency; HU64]).
Definition g_dec_rhp_v4_RPCFormContractParams : shape := (HSeq [g_dec_types_PublicKey; g_dec_types_Address; g_dec_types_V2Currency; g_dec_types_V2Currency; HU64]).
Definition g_enc_rhp_v4_RPCFormContractRequest : shape := (HSeq [g_enc_rhp_v4_HostPrices; g_enc_rhp_v4_RPCFormContractParams; g_enc_types_ChainIndex; g_enc_types_V2Currency; (HSlice g_enc_types_SiacoinElement); (HSlice g_enc_types_V2Transaction)]).
Definition g_dec_rhp_v4_RPCFormContractRequest : shape := (HSeq [g_dec_rhp_v4_HostPrices; g_dec_rhp_v4_RPCFormContractParams; g_dec_types_ChainIndex; g_dec_types_V2Currency; (HSlice g_dec_types_SiacoinElement); (HSlice g_dec_types_V2Transaction)]).
Definition g_enc_rhp_v4_RPCFormContractResponse : shape := (HSeq [(HSlice g_enc_types_V2SiacoinInput)]).
Definition g_dec_rhp_v4_RPCFormContractResponse : shape := (HSeq [(HSlice g_dec_types_V2SiacoinInput)]).
Definition g_enc_rhp_v4_RPCFormContractSecondResponse : shape := (HSeq [g_enc_types_Signature; (HSlice g_enc_types_SatisfiedPolicy)]).
Definition g_dec_rhp_v4_RPCFormContractSecondResponse : shape := (HSeq [g_dec_types_Signature; (HSlice g_dec_types_SatisfiedPolicy)]).
Definition g_enc_rhp_v4_RPCFormContractThirdResponse : shape := (HSeq [g_enc_types_ChainIndex; (HSlice g_enc_types_V2Transaction)]).
Definition g_dec_rhp_v4_RPCFormContractThirdResponse : shape := (HSeq [g_dec_types_ChainIndex; (HSlice g_dec_types_V2Transaction)]).
Definition g_enc_rhp_v4_RPCFreeSectorsRequest : shape := (HSeq [g_enc_types_FileContractID; g_enc_rhp_v4_HostPrices; (HSlice HU64); g_enc_types_Signature]).
Definition g_dec_rhp_v4_RPCFreeSectorsRequest : shape := (HSeq [g_dec_types_FileContractID; g_dec_rhp_v4_HostPrices; (HSlice HU64); g_dec_types_Signature]).
Definition g_enc_rhp_v4_RPCFreeSectorsResponse : shape := (HSeq [(HSlice g_enc_types_Hash256); (HSlice g_enc_types_Hash256); g_enc_types_Hash256]).
Definition g_dec_rhp_v4_RPCFreeSectorsResponse : shape := (HSeq [(HSlice g_dec_types_Hash256); (HSlice g_dec_types_Hash256); g_dec_types_Hash256]).
Definition g_enc_rhp_v4_RPCFreeSectorsSecondResponse : shape := (HSeq [g_enc_types_Signature]).
Definition g_dec_rhp_v4_RPCFreeSectorsSecondResponse : shape := (HSeq [g_dec_types_Signature]).
Definition g_enc_rhp_v4_RPCFreeSectorsThirdResponse : shape := (HSeq [g_enc_types_Signature]).
Definition g_dec_rhp_v4_RPCFreeSectorsThirdResponse : shape := (HSeq [g_dec_types_Signature]).
Definition g_enc_rhp_v4_RPCFundAccountsRequest : shape := (HSeq [g_enc_types_FileContractID; (HSlice g_enc_rhp_v4_AccountDeposit); g_enc_types_Signature]).
Definition g_dec_rhp_v4_RPCFundAccountsRequest : shape := (HSeq [g_dec_types_FileContractID; (HSlice g_dec_rhp_v4_AccountDeposit); g_dec_types_Signature]).
Definition g_enc_rhp_v4_RPCFundAccountsResponse : shape := (HSeq [(HSlice g_enc_types_V2Currency); g_enc_types_Signature]).
Definition g_dec_rhp_v4_RPCFundAccountsResponse : shape := (HSeq [(HSlice g_dec_types_V2Currency); g_dec_types_Signature]).
Definition g_enc_rhp_v4_RPCLatestRevisionRequest : shape := (HSeq [g_enc_types_FileContractID]).
Definition g_dec_rhp_v4_RPCLatestRevisionRequest : shape := (HSeq [g_dec_types_FileContractID]).
Definition g_enc_rhp_v4_RPCLatestRevisionResponse : shape := (HSeq [g_enc_types_V2FileContract; HBool; HBool]).
Definition g_dec_rhp_v4_RPCLatestRevisionResponse : shape := (HSeq [g_dec_types_V2FileContract; HBool; HBool]).
Definition g_enc_rhp_v4_RPCReadSectorRequest : shape := (HSeq [g_enc_rhp_v4_HostPrices; g_enc_rhp_v4_AccountToken; g_enc_types_Hash256; HU64; HU64]).
Definition g_dec_rhp_v4_RPCReadSectorRequest : shape := (HSeq [g_dec_rhp_v4_HostPrices; g_dec_rhp_v4_AccountToken; g_dec_types_Hash256; HU64; HU64]).
Definition g_enc_rhp_v4_RPCReadSectorResponse : shape := (HSeq [(HSlice g_enc_types_Hash256); HU64]).
Definition g_dec_rhp_v4_RPCReadSectorResponse : shape := (HSeq [(HSlice g_dec_types_Hash256); HU64]).
Definition g_enc_rhp_v4_RPCRefreshContractParams : shape := (HSeq [g_enc_types_FileContractID; g_enc_types_V2Currency; g_enc_types_V2Currency]).
Definition g_dec_rhp_v4_RPCRefreshContractParams : shape := (HSeq [g_dec_types_FileContractID; g_dec_types_V2Currency; g_dec_types_V2Currency]).
Definition g_enc_rhp_v4_RPCRefreshContractRequest : shape := (HSeq [g_enc_rhp_v4_HostPrices; g_enc_rhp_v4_RPCRefreshContractParams; g_enc_types_V2Currency; g_enc_types_ChainIndex; (HSlice g_enc_types_SiacoinElement); (HSlice g_enc_types_V2Transaction); g_enc_types_Signature]).
Definition g_dec_rhp_v4_RPCRefreshContractRequest : shape := (HSeq [g_dec_rhp_v4_HostPrices; g_dec_rhp_v4_RPCRefreshContractParams; g_dec_types_V2Currency; g_dec_types_ChainIndex; (HSlice g_dec_types_SiacoinElement); (HSlice g_dec_types_V2Transaction); g_dec_types_Signature]).
Definition g_enc_rhp_v4_RPCRefreshContractResponse : shape := (HSeq [(HSlice g_enc_types_V2SiacoinInput)]).
Definition g_dec_rhp_v4_RPCRefreshContractResponse : shape := (HSeq [(HSlice g_dec_types_V2SiacoinInput)]).
Definition g_enc_rhp_v4_RPCRefreshContractSecondResponse : shape := (HSeq [g_enc_types_Signature; g_enc_types_Signature; (HSlice g_enc_types_SatisfiedPolicy)]).
Definition g_dec_rhp_v4_RPCRefreshContractSecondResponse : shape := (HSeq [g_dec_types_Signature; g_dec_types_Signature; (HSlice g_dec_types_SatisfiedPolicy)]).
Definition g_enc_rhp_v4_RPCRefreshContractThirdResponse : shape := (HSeq [g_enc_types_ChainIndex; (HSlice g_enc_types_V2Transaction)]).
Definition g_dec_rhp_v4_RPCRefreshContractThirdResponse : shape := (HSeq [g_dec_types_ChainIndex; (HSlice g_dec_types_V2Transaction)]).
Definition g_enc_rhp_v4_RPCRenewContractParams : shape := (HSeq [g_enc_types_FileContractID; g_enc_types_V2Currency; g_enc_types_V2Currency; HU64]).
Definition g_dec_rhp_v4_RPCRenewContractParams : shape := (HSeq [g_dec_types_FileContractID; g_dec_types_V2Currency; g_dec_types_V2Currency; HU64]).
Definition g_enc_rhp_v4_RPCRenewContractRequest : shape := (HSeq [g_enc_rhp_v4_HostPrices; g_enc_rhp_v4_RPCRenewContractParams; g_enc_types_V2Currency; g_enc_types_ChainIndex; (HSlice g_enc_types_SiacoinElement); (HSlice g_enc_types_V2Transaction); g_enc_types_Signature]).
Definition g_dec_rhp_v4_RPCRenewContractRequest : shape := (HSeq [g_dec_rhp_v4_HostPrices; g_dec_rhp_v4_RPCRenewContractParams; g_dec_types_V2Currency; g_dec_types_ChainIndex; (HSlice g_dec_types_SiacoinElement); (HSlice g_dec_types_V2Transaction); g_dec_types_Signature]).
Definition g_enc_rhp_v4_RPCRenewContractResponse : shape := (HSeq [(HSlice g_enc_types_V2SiacoinInput)]).
Definition g_dec_rhp_v4_RPCRenewContractResponse : shape := (HSeq [(HSlice g_dec_types_V2SiacoinInput)]).
Definition g_enc_rhp_v4_RPCRenewContractSecondResponse : shape := (HSeq [g_enc_types_Signature; g_enc_types_Signature; (HSlice g_enc_types_SatisfiedPolicy)]).
Definition g_dec_rhp_v4_RPCRenewContractSecondResponse : shape := (HSeq [g_dec_types_Signature; g_dec_types_Signature; (HSlice g_dec_types_SatisfiedPolicy)]).
Definition g_enc_rhp_v4_RPCRenewContractThirdResponse : shape := (HSeq [g_enc_types_ChainIndex; (HSlice g_enc_types_V2Transaction)]).
Definition g_dec_rhp_v4_RPCRenewContractThirdResponse : shape := (HSeq [g_dec_types_ChainIndex; (HSlice g_dec_types_V2Transaction)]).
Definition g_enc_rhp_v4_RPCReplenishAccountsRequest : shape := (HSeq [(HSlice g_enc_rhp_v4_Account); g_enc_types_V2Currency; g_enc_types_FileContractID; g_enc_types_Signature]).
Definition g_dec_rhp_v4_RPCReplenishAccountsRequest : shape := (HSeq [(HSlice g_dec_rhp_v4_Account); g_dec_types_V2Currency; g_dec_types_FileContractID; g_dec_types_Signature]).
Definition g_enc_rhp_v4_RPCReplenishAccountsResponse : shape := (HSeq [(HSlice g_enc_rhp_v4_AccountDeposit)]).
Definition g_dec_rhp_v4_RPCReplenishAccountsResponse : shape := (HSeq [(HSlice g_dec_rhp_v4_AccountDeposit)]).
Definition g_enc_rhp_v4_RPCReplenishAccountsSecondResponse : shape := (HSeq [g_enc_types_Signature]).
Definition g_dec_rhp_v4_RPCReplenishAccountsSecondResponse : shape := (HSeq [g_dec_types_Signature]).
Definition g_enc_rhp_v4_RPCReplenishAccountsThirdResponse : shape := (HSeq [g_enc_types_Signature]).
Definition g_dec_rhp_v4_RPCReplenishAccountsThirdResponse : shape := (HSeq [g_dec_types_Signature]).
Definition g_enc_rhp_v4_RPCSectorRootsRequest : shape := (HSeq [g_enc_rhp_v4_HostPrices; g_enc_types_FileContractID; g_enc_types_Signature; HU64; HU64]).
Definition g_dec_rhp_v4_RPCSectorRootsRequest : shape := (HSeq [g_dec_rhp_v4_HostPrices; g_dec_types_FileContractID; g_dec_types_Signature; HU64; HU64]).
Definition g_enc_rhp_v4_RPCSectorRootsResponse : shape := (HSeq [(HSlice g_enc_types_Hash256); (HSlice g_enc_types_Hash256); g_enc_types_Signature]).
Definition g_dec_rhp_v4_RPCSectorRootsResponse : shape := (HSeq [(HSlice g_dec_types_Hash256); (HSlice g_dec_types_Hash256); g_dec_types_Signature]).
Definition g_enc_rhp_v4_RPCSettingsRequest : shape := (HSeq []).
Definition g_dec_rhp_v4_RPCSettingsRequest : shape := (HSeq []).
Definition g_enc_rhp_v4_RPCSettingsResponse : shape := (HSeq [g_enc_rhp_v4_HostSettings]).
Definition g_dec_rhp_v4_RPCSettingsResponse : shape := (HSeq [g_dec_rhp_v4_HostSettings]).
Definition g_enc_rhp_v4_RPCVerifySectorRequest : shape := (HSeq [g_enc_rhp_v4_HostPrices; g_enc_rhp_v4_AccountToken; g_enc_types_Hash256; HU64]).
Definition g_dec_rhp_v4_RPCVerifySectorRequest : shape := (HSeq [g_dec_rhp_v4_HostPrices; g_dec_rhp_v4_AccountToken; g_dec_types_Hash256; HU64]).
Definition g_enc_rhp_v4_RPCVerifySectorResponse : shape := (HSeq [(HSlice g_enc_types_Hash256); (HFixed 64)]).
Definition g_dec_rhp_v4_RPCVerifySectorResponse : shape := (HSeq [(HSlice g_dec_types_Hash256); (HFixed 64)]).
Definition g_enc_rhp_v4_RPCWriteSectorRequest : shape := (HSeq [g_enc_rhp_v4_HostPrices; g_enc_rhp_v4_AccountToken; HU64]).
Definition g_dec_rhp_v4_RPCWriteSectorRequest : shape := (HSeq [g_dec_rhp_v4_HostPrices; g_dec_rhp_v4_AccountToken; HU64]).
Definition g_enc_rhp_v4_RPCWriteSectorResponse : shape := (HSeq [g_enc_types_Hash256]).
Definition g_dec_rhp_v4_RPCWriteSectorResponse : shape := (HSeq [g_dec_types_Hash256]).

Definition golden_types : list (string * shape * shape) := [
  ("types.Address", g_enc_types_Address, g_dec_types_Address);
  ("types.PublicKey", g_enc_types_PublicKey, g_dec_types_PublicKey);
  ("types.Signature", g_enc_types_Signature, g_dec_types_Signature);
  ("types.Attestation", g_enc_types_Attestation, g_dec_types_Attestation);
  ("types.AttestationID", g_enc_types_AttestationID, g_dec_types_AttestationID);
  ("types.BlockID", g_enc_types_BlockID, g_dec_types_BlockID);
  ("types.Hash256", g_enc_types_Hash256, g_dec_types_Hash256);
  ("types.BlockHeader", g_enc_types_BlockHeader, g_dec_types_BlockHeader);
  ("types.ChainIndex", g_enc_types_ChainIndex, g_dec_types_ChainIndex);
  ("types.StateElement", g_enc_types_StateElement, g_dec_types_StateElement);
  ("types.ChainIndexElement", g_enc_types_ChainIndexElement, g_dec_types_ChainIndexElement);
  ("types.CoveredFields", g_enc_types_CoveredFields, g_dec_types_CoveredFields);
  ("types.V1SiacoinOutput", g_enc_types_V1SiacoinOutput, g_dec_types_V1SiacoinOutput);
  ("types.FileContract", g_enc_types_FileContract, g_dec_types_FileContract);
  ("types.FileContractID", g_enc_types_FileContractID, g_dec_types_FileContractID);
  ("types.FileContractElement", g_enc_types_FileContractElement, g_dec_types_FileContractElement);
  ("types.Specifier", g_enc_types_Specifier, g_dec_types_Specifier);
  ("types.UnlockKey", g_enc_types_UnlockKey, g_dec_types_UnlockKey);
  ("types.UnlockConditions", g_enc_types_UnlockConditions, g_dec_types_UnlockConditions);
  ("types.FileContractRevision", g_enc_types_FileContractRevision, g_dec_types_FileContractRevision);
  ("types.FoundationAddressUpdate", g_enc_types_FoundationAddressUpdate, g_dec_types_FoundationAddressUpdate);
  ("types.SatisfiedPolicy", g_enc_types_SatisfiedPolicy, g_dec_types_SatisfiedPolicy);
  ("types.SiacoinOutputID", g_enc_types_SiacoinOutputID, g_dec_types_SiacoinOutputID);
  ("types.V2Currency", g_enc_types_V2Currency, g_dec_types_V2Currency);
  ("types.V2SiacoinOutput", g_enc_types_V2SiacoinOutput, g_dec_types_V2SiacoinOutput);
  ("types.SiacoinElement", g_enc_types_SiacoinElement, g_dec_types_SiacoinElement);
  ("types.SiacoinInput", g_enc_types_SiacoinInput, g_dec_types_SiacoinInput);
  ("types.SiafundOutputID", g_enc_types_SiafundOutputID, g_dec_types_SiafundOutputID);
  ("types.V2SiafundOutput", g_enc_types_V2SiafundOutput, g_dec_types_V2SiafundOutput);
  ("types.SiafundElement", g_enc_types_SiafundElement, g_dec_types_SiafundElement);
  ("types.SiafundInput", g_enc_types_SiafundInput, g_dec_types_SiafundInput);
  ("types.StorageProof", g_enc_types_StorageProof, g_dec_types_StorageProof);
  ("types.TransactionSignature", g_enc_types_TransactionSignature, g_dec_types_TransactionSignature);
  ("types.txnSansSigs", g_enc_types_txnSansSigs, g_dec_types_txnSansSigs);
  ("types.Transaction", g_enc_types_Transaction, g_dec_types_Transaction);
  ("types.TransactionID", g_enc_types_TransactionID, g_dec_types_TransactionID);
  ("types.V1Block", g_enc_types_V1Block, g_dec_types_V1Block);
  ("types.V2BlockData", g_enc_types_V2BlockData, g_dec_types_V2BlockData);
  ("types.V2Block", g_enc_types_V2Block, g_dec_types_V2Block);
  ("types.V2FileContract", g_enc_types_V2FileContract, g_dec_types_V2FileContract);
  ("types.V2FileContractElement", g_enc_types_V2FileContractElement, g_dec_types_V2FileContractElement);
  ("types.V2FileContractExpiration", g_enc_types_V2FileContractExpiration, g_dec_types_V2FileContractExpiration);
  ("types.V2FileContractRenewal", g_enc_types_V2FileContractRenewal, g_dec_types_V2FileContractRenewal);
  ("types.V2FileContractRevision", g_enc_types_V2FileContractRevision, g_dec_types_V2FileContractRevision);
  ("types.V2SiacoinInput", g_enc_types_V2SiacoinInput, g_dec_types_V2SiacoinInput);
  ("types.V2SiafundInput", g_enc_types_V2SiafundInput, g_dec_types_V2SiafundInput);
  ("types.V2StorageProof", g_enc_types_V2StorageProof, g_dec_types_V2StorageProof);
  ("consensus.Work", g_enc_consensus_Work, g_dec_consensus_Work);
  ("consensus.V1StorageProofSupplement", g_enc_consensus_V1StorageProofSupplement, g_dec_consensus_V1StorageProofSupplement);
  ("consensus.V1TransactionSupplement", g_enc_consensus_V1TransactionSupplement, g_dec_consensus_V1TransactionSupplement);
  ("consensus.V1BlockSupplement", g_enc_consensus_V1BlockSupplement, g_dec_consensus_V1BlockSupplement);
  ("gateway.Header", g_enc_gateway_Header, g_dec_gateway_Header);
  ("gateway.RPCDiscoverIP#response", g_enc_gateway_RPCDiscoverIP_response, g_dec_gateway_RPCDiscoverIP_response);
  ("gateway.RPCRelayV2BlockOutline#request", g_enc_gateway_RPCRelayV2BlockOutline_request, g_dec_gateway_RPCRelayV2BlockOutline_request);
  ("gateway.RPCRelayV2Header#request", g_enc_gateway_RPCRelayV2Header_request, g_dec_gateway_RPCRelayV2Header_request);
  ("gateway.RPCRelayV2TransactionSet#request", g_enc_gateway_RPCRelayV2TransactionSet_request, g_dec_gateway_RPCRelayV2TransactionSet_request);
  ("gateway.RPCSendCheckpoint#request", g_enc_gateway_RPCSendCheckpoint_request, g_dec_gateway_RPCSendCheckpoint_request);
  ("gateway.RPCSendCheckpoint#response", g_enc_gateway_RPCSendCheckpoint_response, g_dec_gateway_RPCSendCheckpoint_response);
  ("gateway.RPCSendHeaders#request", g_enc_gateway_RPCSendHeaders_request, g_dec_gateway_RPCSendHeaders_request);
  ("gateway.RPCSendHeaders#response", g_enc_gateway_RPCSendHeaders_response, g_dec_gateway_RPCSendHeaders_response);
  ("gateway.RPCSendTransactions#request", g_enc_gateway_RPCSendTransactions_request, g_dec_gateway_RPCSendTransactions_request);
  ("gateway.RPCSendTransactions#response", g_enc_gateway_RPCSendTransactions_response, g_dec_gateway_RPCSendTransactions_response);
  ("gateway.RPCSendV2Blocks#request", g_enc_gateway_RPCSendV2Blocks_request, g_dec_gateway_RPCSendV2Blocks_request);
  ("gateway.RPCSendV2Blocks#response", g_enc_gateway_RPCSendV2Blocks_response, g_dec_gateway_RPCSendV2Blocks_response);
  ("gateway.RPCShareNodes#response", g_enc_gateway_RPCShareNodes_response, g_dec_gateway_RPCShareNodes_response);
  ("gateway.emptyRequest#request", g_enc_gateway_emptyRequest_request, g_dec_gateway_emptyRequest_request);
  ("gateway.emptyResponse#response", g_enc_gateway_emptyResponse_response, g_dec_gateway_emptyResponse_response);
  ("rhp/v2.Challenge", g_enc_rhp_v2_Challenge, g_dec_rhp_v2_Challenge);
  ("rhp/v2.RPCError", g_enc_rhp_v2_RPCError, g_dec_rhp_v2_RPCError);
  ("rhp/v2.RPCFormContractAdditions", g_enc_rhp_v2_RPCFormContractAdditions, g_dec_rhp_v2_RPCFormContractAdditions);
  ("rhp/v2.RPCFormContractRequest", g_enc_rhp_v2_RPCFormContractRequest, g_dec_rhp_v2_RPCFormContractRequest);
  ("rhp/v2.RPCFormContractSignatures", g_enc_rhp_v2_RPCFormContractSignatures, g_dec_rhp_v2_RPCFormContractSignatures);
  ("rhp/v2.RPCLockRequest", g_enc_rhp_v2_RPCLockRequest, g_dec_rhp_v2_RPCLockRequest);
  ("rhp/v2.RPCLockResponse", g_enc_rhp_v2_RPCLockResponse, g_dec_rhp_v2_RPCLockResponse);
  ("rhp/v2.RPCRenewAndClearContractRequest", g_enc_rhp_v2_RPCRenewAndClearContractRequest, g_dec_rhp_v2_RPCRenewAndClearContractRequest);
  ("rhp/v2.RPCRenewAndClearContractSignatures", g_enc_rhp_v2_RPCRenewAndClearContractSignatures, g_dec_rhp_v2_RPCRenewAndClearContractSignatures);
  ("rhp/v2.RPCSectorRootsRequest", g_enc_rhp_v2_RPCSectorRootsRequest, g_dec_rhp_v2_RPCSectorRootsRequest);
  ("rhp/v2.RPCSectorRootsResponse", g_enc_rhp_v2_RPCSectorRootsResponse, g_dec_rhp_v2_RPCSectorRootsResponse);
  ("rhp/v2.RPCSettingsResponse", g_enc_rhp_v2_RPCSettingsResponse, g_dec_rhp_v2_RPCSettingsResponse);
  ("rhp/v2.RPCWriteMerkleProof", g_enc_rhp_v2_RPCWriteMerkleProof, g_dec_rhp_v2_RPCWriteMerkleProof);
  ("rhp/v2.RPCWriteResponse", g_enc_rhp_v2_RPCWriteResponse, g_dec_rhp_v2_RPCWriteResponse);
  ("rhp/v2.loopKeyExchangeResponse", g_enc_rhp_v2_loopKeyExchangeResponse, g_dec_rhp_v2_loopKeyExchangeResponse);
  ("rhp/v3.FundAccountReceipt", g_enc_rhp_v3_FundAccountReceipt, g_dec_rhp_v3_FundAccountReceipt);
  ("rhp/v3.InstrAppendSector", g_enc_rhp_v3_InstrAppendSector, g_dec_rhp_v3_InstrAppendSector);
  ("rhp/v3.InstrAppendSectorRoot", g_enc_rhp_v3_InstrAppendSectorRoot, g_dec_rhp_v3_InstrAppendSectorRoot);
  ("rhp/v3.InstrDropSectors", g_enc_rhp_v3_InstrDropSectors, g_dec_rhp_v3_InstrDropSectors);
  ("rhp/v3.InstrHasSector", g_enc_rhp_v3_InstrHasSector, g_dec_rhp_v3_InstrHasSector);
  ("rhp/v3.InstrReadOffset", g_enc_rhp_v3_InstrReadOffset, g_dec_rhp_v3_InstrReadOffset);
  ("rhp/v3.InstrReadRegistry", g_enc_rhp_v3_InstrReadRegistry, g_dec_rhp_v3_InstrReadRegistry);
  ("rhp/v3.InstrReadRegistryNoVersion", g_enc_rhp_v3_InstrReadRegistryNoVersion, g_dec_rhp_v3_InstrReadRegistryNoVersion);
  ("rhp/v3.InstrReadSector", g_enc_rhp_v3_InstrReadSector, g_dec_rhp_v3_InstrReadSector);
  ("rhp/v3.InstrRevision", g_enc_rhp_v3_InstrRevision, g_dec_rhp_v3_InstrRevision);
  ("rhp/v3.InstrStoreSector", g_enc_rhp_v3_InstrStoreSector, g_dec_rhp_v3_InstrStoreSector);
  ("rhp/v3.InstrSwapSector", g_enc_rhp_v3_InstrSwapSector, g_dec_rhp_v3_InstrSwapSector);
  ("rhp/v3.InstrUpdateRegistry", g_enc_rhp_v3_InstrUpdateRegistry, g_dec_rhp_v3_InstrUpdateRegistry);
  ("rhp/v3.InstrUpdateRegistryNoType", g_enc_rhp_v3_InstrUpdateRegistryNoType, g_dec_rhp_v3_InstrUpdateRegistryNoType);
  ("rhp/v3.InstrUpdateSector", g_enc_rhp_v3_InstrUpdateSector, g_dec_rhp_v3_InstrUpdateSector);
  ("rhp/v3.PayByContractRequest", g_enc_rhp_v3_PayByContractRequest, g_dec_rhp_v3_PayByContractRequest);
  ("rhp/v3.PayByEphemeralAccountRequest", g_enc_rhp_v3_PayByEphemeralAccountRequest, g_dec_rhp_v3_PayByEphemeralAccountRequest);
  ("rhp/v3.PaymentResponse", g_enc_rhp_v3_PaymentResponse, g_dec_rhp_v3_PaymentResponse);
  ("rhp/v3.RPCAccountBalanceRequest", g_enc_rhp_v3_RPCAccountBalanceRequest, g_dec_rhp_v3_RPCAccountBalanceRequest);
  ("rhp/v3.RPCAccountBalanceResponse", g_enc_rhp_v3_RPCAccountBalanceResponse, g_dec_rhp_v3_RPCAccountBalanceResponse);
  ("rhp/v3.RPCError", g_enc_rhp_v3_RPCError, g_dec_rhp_v3_RPCError);
  ("rhp/v3.RPCFinalizeProgramRequest", g_enc_rhp_v3_RPCFinalizeProgramRequest, g_dec_rhp_v3_RPCFinalizeProgramRequest);
  ("rhp/v3.RPCFinalizeProgramResponse", g_enc_rhp_v3_RPCFinalizeProgramResponse, g_dec_rhp_v3_RPCFinalizeProgramResponse);
  ("rhp/v3.RPCFundAccountRequest", g_enc_rhp_v3_RPCFundAccountRequest, g_dec_rhp_v3_RPCFundAccountRequest);
  ("rhp/v3.RPCFundAccountResponse", g_enc_rhp_v3_RPCFundAccountResponse, g_dec_rhp_v3_RPCFundAccountResponse);
  ("rhp/v3.RPCLatestRevisionRequest", g_enc_rhp_v3_RPCLatestRevisionRequest, g_dec_rhp_v3_RPCLatestRevisionRequest);
  ("rhp/v3.RPCLatestRevisionResponse", g_enc_rhp_v3_RPCLatestRevisionResponse, g_dec_rhp_v3_RPCLatestRevisionResponse);
  ("rhp/v3.RPCPriceTableResponse", g_enc_rhp_v3_RPCPriceTableResponse, g_dec_rhp_v3_RPCPriceTableResponse);
  ("rhp/v3.RPCRenewContractHostAdditions", g_enc_rhp_v3_RPCRenewContractHostAdditions, g_dec_rhp_v3_RPCRenewContractHostAdditions);
  ("rhp/v3.RPCRenewContractRequest", g_enc_rhp_v3_RPCRenewContractRequest, g_dec_rhp_v3_RPCRenewContractRequest);
  ("rhp/v3.RPCRenewSignatures", g_enc_rhp_v3_RPCRenewSignatures, g_dec_rhp_v3_RPCRenewSignatures);
  ("rhp/v3.RPCUpdatePriceTableResponse", g_enc_rhp_v3_RPCUpdatePriceTableResponse, g_dec_rhp_v3_RPCUpdatePriceTableResponse);
  ("rhp/v3.SettingsID", g_enc_rhp_v3_SettingsID, g_dec_rhp_v3_SettingsID);
  ("rhp/v4.Account", g_enc_rhp_v4_Account, g_dec_rhp_v4_Account);
  ("rhp/v4.AccountDeposit", g_enc_rhp_v4_AccountDeposit, g_dec_rhp_v4_AccountDeposit);
  ("rhp/v4.AccountToken", g_enc_rhp_v4_AccountToken, g_dec_rhp_v4_AccountToken);
  ("rhp/v4.HostPrices", g_enc_rhp_v4_HostPrices, g_dec_rhp_v4_HostPrices);
  ("rhp/v4.HostSettings", g_enc_rhp_v4_HostSettings, g_dec_rhp_v4_HostSettings);
  ("rhp/v4.PoolAttachment", g_enc_rhp_v4_PoolAttachment, g_dec_rhp_v4_PoolAttachment);
  ("rhp/v4.PoolDetachment", g_enc_rhp_v4_PoolDetachment, g_dec_rhp_v4_PoolDetachment);
  ("rhp/v4.RPCAccountBalanceRequest", g_enc_rhp_v4_RPCAccountBalanceRequest, g_dec_rhp_v4_RPCAccountBalanceRequest);
  ("rhp/v4.RPCAccountBalanceResponse", g_enc_rhp_v4_RPCAccountBalanceResponse, g_dec_rhp_v4_RPCAccountBalanceResponse);
  ("rhp/v4.RPCAppendSectorsRequest", g_enc_rhp_v4_RPCAppendSectorsRequest, g_dec_rhp_v4_RPCAppendSectorsRequest);
  ("rhp/v4.RPCAppendSectorsResponse", g_enc_rhp_v4_RPCAppendSectorsResponse, g_dec_rhp_v4_RPCAppendSectorsResponse);
  ("rhp/v4.RPCAppendSectorsSecondResponse", g_enc_rhp_v4_RPCAppendSectorsSecondResponse, g_dec_rhp_v4_RPCAppendSectorsSecondResponse);
  ("rhp/v4.RPCAppendSectorsThirdResponse", g_enc_rhp_v4_RPCAppendSectorsThirdResponse, g_dec_rhp_v4_RPCAppendSectorsThirdResponse);
  ("rhp/v4.RPCAttachPoolsRequest", g_enc_rhp_v4_RPCAttachPoolsRequest, g_dec_rhp_v4_RPCAttachPoolsRequest);
  ("rhp/v4.RPCAttachPoolsResponse", g_enc_rhp_v4_RPCAttachPoolsResponse, g_dec_rhp_v4_RPCAttachPoolsResponse);
  ("rhp/v4.RPCDetachPoolsRequest", g_enc_rhp_v4_RPCDetachPoolsRequest, g_dec_rhp_v4_RPCDetachPoolsRequest);
  ("rhp/v4.RPCDetachPoolsResponse", g_enc_rhp_v4_RPCDetachPoolsResponse, g_dec_rhp_v4_RPCDetachPoolsResponse);
  ("rhp/v4.RPCError", g_enc_rhp_v4_RPCError, g_dec_rhp_v4_RPCError);
  ("rhp/v4.RPCFormContractParams", g_enc_rhp_v4_RPCFormContractParams, g_dec_rhp_v4_RPCFormContractParams);
  ("rhp/v4.RPCFormContractRequest", g_enc_rhp_v4_RPCFormContractRequest, g_dec_rhp_v4_RPCFormContractRequest);
  ("rhp/v4.RPCFormContractResponse", g_enc_rhp_v4_RPCFormContractResponse, g_dec_rhp_v4_RPCFormContractResponse);
  ("rhp/v4.RPCFormContractSecondResponse", g_enc_rhp_v4_RPCFormContractSecondResponse, g_dec_rhp_v4_RPCFormContractSecondResponse);
  ("rhp/v4.RPCFormContractThirdResponse", g_enc_rhp_v4_RPCFormContractThirdResponse, g_dec_rhp_v4_RPCFormContractThirdResponse);
  ("rhp/v4.RPCFreeSectorsRequest", g_enc_rhp_v4_RPCFreeSectorsRequest, g_dec_rhp_v4_RPCFreeSectorsRequest);
  ("rhp/v4.RPCFreeSectorsResponse", g_enc_rhp_v4_RPCFreeSectorsResponse, g_dec_rhp_v4_RPCFreeSectorsResponse);
  ("rhp/v4.RPCFreeSectorsSecondResponse", g_enc_rhp_v4_RPCFreeSectorsSecondResponse, g_dec_rhp_v4_RPCFreeSectorsSecondResponse);
  ("rhp/v4.RPCFreeSectorsThirdResponse", g_enc_rhp_v4_RPCFreeSectorsThirdResponse, g_dec_rhp_v4_RPCFreeSectorsThirdResponse);
  ("rhp/v4.RPCFundAccountsRequest", g_enc_rhp_v4_RPCFundAccountsRequest, g_dec_rhp_v4_RPCFundAccountsRequest);
  ("rhp/v4.RPCFundAccountsResponse", g_enc_rhp_v4_RPCFundAccountsResponse, g_dec_rhp_v4_RPCFundAccountsResponse);
  ("rhp/v4.RPCLatestRevisionRequest", g_enc_rhp_v4_RPCLatestRevisionRequest, g_dec_rhp_v4_RPCLatestRevisionRequest);
  ("rhp/v4.RPCLatestRevisionResponse", g_enc_rhp_v4_RPCLatestRevisionResponse, g_dec_rhp_v4_RPCLatestRevisionResponse);
  ("rhp/v4.RPCReadSectorRequest", g_enc_rhp_v4_RPCReadSectorRequest, g_dec_rhp_v4_RPCReadSectorRequest);
  ("rhp/v4.RPCReadSectorResponse", g_enc_rhp_v4_RPCReadSectorResponse, g_dec_rhp_v4_RPCReadSectorResponse);
  ("rhp/v4.RPCRefreshContractParams", g_enc_rhp_v4_RPCRefreshContractParams, g_dec_rhp_v4_RPCRefreshContractParams);
  ("rhp/v4.RPCRefreshContractRequest", g_enc_rhp_v4_RPCRefreshContractRequest, g_dec_rhp_v4_RPCRefreshContractRequest);
  ("rhp/v4.RPCRefreshContractResponse", g_enc_rhp_v4_RPCRefreshContractResponse, g_dec_rhp_v4_RPCRefreshContractResponse);
  ("rhp/v4.RPCRefreshContractSecondResponse", g_enc_rhp_v4_RPCRefreshContractSecondResponse, g_dec_rhp_v4_RPCRefreshContractSecondResponse);
  ("rhp/v4.RPCRefreshContractThirdResponse", g_enc_rhp_v4_RPCRefreshContractThirdResponse, g_dec_rhp_v4_RPCRefreshContractThirdResponse);
  ("rhp/v4.RPCRenewContractParams", g_enc_rhp_v4_RPCRenewContractParams, g_dec_rhp_v4_RPCRenewContractParams);
  ("rhp/v4.RPCRenewContractRequest", g_enc_rhp_v4_RPCRenewContractRequest, g_dec_rhp_v4_RPCRenewContractRequest);
  ("rhp/v4.RPCRenewContractResponse", g_enc_rhp_v4_RPCRenewContractResponse, g_dec_rhp_v4_RPCRenewContractResponse);
  ("rhp/v4.RPCRenewContractSecondResponse", g_enc_rhp_v4_RPCRenewContractSecondResponse, g_dec_rhp_v4_RPCRenewContractSecondResponse);
  ("rhp/v4.RPCRenewContractThirdResponse", g_enc_rhp_v4_RPCRenewContractThirdResponse, g_dec_rhp_v4_RPCRenewContractThirdResponse);
  ("rhp/v4.RPCReplenishAccountsRequest", g_enc_rhp_v4_RPCReplenishAccountsRequest, g_dec_rhp_v4_RPCReplenishAccountsRequest);
  ("rhp/v4.RPCReplenishAccountsResponse", g_enc_rhp_v4_RPCReplenishAccountsResponse, g_dec_rhp_v4_RPCReplenishAccountsResponse);
  ("rhp/v4.RPCReplenishAccountsSecondResponse", g_enc_rhp_v4_RPCReplenishAccountsSecondResponse, g_dec_rhp_v4_RPCReplenishAccountsSecondResponse);
  ("rhp/v4.RPCReplenishAccountsThirdResponse", g_enc_rhp_v4_RPCReplenishAccountsThirdResponse, g_dec_rhp_v4_RPCReplenishAccountsThirdResponse);
  ("rhp/v4.RPCSectorRootsRequest", g_enc_rhp_v4_RPCSectorRootsRequest, g_dec_rhp_v4_RPCSectorRootsRequest);
  ("rhp/v4.RPCSectorRootsResponse", g_enc_rhp_v4_RPCSectorRootsResponse, g_dec_rhp_v4_RPCSectorRootsResponse);
  ("rhp/v4.RPCSettingsRequest", g_enc_rhp_v4_RPCSettingsRequest, g_dec_rhp_v4_RPCSettingsRequest);
  ("rhp/v4.RPCSettingsResponse", g_enc_rhp_v4_RPCSettingsResponse, g_dec_rhp_v4_RPCSettingsResponse);
  ("rhp/v4.RPCVerifySectorRequest", g_enc_rhp_v4_RPCVerifySectorRequest, g_dec_rhp_v4_RPCVerifySectorRequest);
  ("rhp/v4.RPCVerifySectorResponse", g_enc_rhp_v4_RPCVerifySectorResponse, g_dec_rhp_v4_RPCVerifySectorResponse);
  ("rhp/v4.RPCWriteSectorRequest", g_enc_rhp_v4_RPCWriteSectorRequest, g_dec_rhp_v4_RPCWriteSectorRequest);
  ("rhp/v4.RPCWriteSectorResponse", g_enc_rhp_v4_RPCWriteSectorResponse, g_dec_rhp_v4_RPCWriteSectorResponse)].

Definition golden_opaque : list string := [
  "types.DecoderFunc";
  "types.EncoderFunc";
  "types.V1Currency";
  "types.SpendPolicy";
  "types.V1SiafundOutput";
  "types.V2TransactionsMultiproof";
  "types.V2FileContractResolution";
  "types.V2Transaction";
  "types.V2TransactionSemantics";
  "consensus.ElementAccumulator";
  "consensus.State";
  "gateway.V2BlockOutline";
  "rhp/v2.RPCReadRequest";
  "rhp/v2.RPCReadResponse";
  "rhp/v2.RPCWriteRequest";
  "rhp/v2.loopKeyExchangeRequest";
  "rhp/v2.rpcResponse";
  "rhp/v3.Account";
  "rhp/v3.RPCExecuteProgramRequest";
  "rhp/v3.RPCExecuteProgramResponse";
  "rhp/v3.rpcResponse"].

(* opaque codecs: hash of the normalised source text of the codec methods of the type *)
Definition golden_opaque_src : list (string * string) := [
  ("types.DecoderFunc", "80fd5a1970d3fe5f32a6737a126b41e3");
  ("types.EncoderFunc", "36a0aa7b5f129b01387114f1896024b2");
  ("types.V1Currency", "2b7090958465abcbf84c1a9e1b759344");
  ("types.SpendPolicy", "641a5f517e443d8018717903f58bf29d");
  ("types.V1SiafundOutput", "ea3bad06be8650cb51d08e19bbf36689");
  ("types.V2TransactionsMultiproof", "7347ebc176144dbd22a55a2e99b209ad");
  ("types.V2FileContractResolution", "23d78cbe1c39db6cc6b32e773aa8be40");
  ("types.V2Transaction", "8ec4272d4ca50ad1e44ac3f9a339b0e6");
  ("types.V2TransactionSemantics", "dff7b667560acf5c4baa0e96f56b3926");
  ("consensus.ElementAccumulator", "bb41763c4c2c2c6821fd851d24b672cb");
  ("consensus.State", "92716c35e1bb33b5074d3668bdbd6e6d");
  ("gateway.V2BlockOutline", "32bb5f614f82b2503c7818d4f58e4d42");
  ("rhp/v2.RPCReadRequest", "ce3d96747d637f75d719ae0aec75853b");
  ("rhp/v2.RPCReadResponse", "d22d32f95735e0aa0326b5f4f8b5964a");
  ("rhp/v2.RPCWriteRequest", "a8e5bc0ec6380caf25d5a4beda774891");
  ("rhp/v2.loopKeyExchangeRequest", "5dbd387b0738680b47b9f0d964ceae64");
  ("rhp/v2.rpcResponse", "1e21b0845833616b97a58cbe053b1814");
  ("rhp/v3.Account", "0fb677b1047635188aaf7d06ff65eb80");
  ("rhp/v3.RPCExecuteProgramRequest", "f4ffb833481ebcd0774c38c04293795e");
  ("rhp/v3.RPCExecuteProgramResponse", "4f8410ee368645014e3609b7f1ad95ac");
  ("rhp/v3.rpcResponse", "1e21b0845833616b97a58cbe053b1814")].

(* struct fields and the expressions each encoder writes *)
Definition golden_fields : list (string * list string * list string) := [
  ("types.Address", [], ["a"]);
  ("types.PublicKey", [], ["pk"]);
  ("types.Signature", [], ["s"]);
  ("types.Attestation", ["PublicKey"; "Key"; "Value"; "Signature"], ["a.PublicKey"; "a.Key"; "a.Value"; "a.Signature"]);
  ("types.AttestationID", [], ["id"]);
  ("types.BlockID", [], ["id"]);
  ("types.Hash256", [], ["h"]);
  ("types.BlockHeader", ["ParentID"; "Nonce"; "Timestamp"; "Commitment"], ["h.ParentID"; "h.Nonce"; "h.Timestamp"; "h.Commitment"]);
  ("types.ChainIndex", ["Height"; "ID"], ["index.Height"; "index.ID"]);
  ("types.StateElement", ["LeafIndex"; "MerkleProof"; "shared"], ["se.LeafIndex"; "se.MerkleProof"]);
  ("types.ChainIndexElement", ["ID"; "StateElement"; "ChainIndex"], ["cie.StateElement"; "cie.ID"; "cie.ChainIndex"]);
  ("types.CoveredFields", ["WholeTransaction"; "SiacoinInputs"; "SiacoinOutputs"; "FileContracts"; "FileContractRevisions"; "StorageProofs"; "SiafundInputs"; "SiafundOutputs"; "MinerFees"; "ArbitraryData"; "Signatures"], ["cf.WholeTransaction"; "cf.SiacoinInputs"; "cf.SiacoinOutputs"; "cf.FileContracts"; "cf.FileContractRevisions"; "cf.StorageProofs"; "cf.SiafundInputs"; "cf.SiafundOutputs"; "cf.MinerFees"; "cf.ArbitraryData"; "cf.Signatures"]);
  ("types.DecoderFunc", [], []);
  ("types.EncoderFunc", [], []);
  ("types.V1Currency", ["Lo"; "Hi"], ["bytes.TrimLeft(buf[:], '\x00')"]);
  ("types.V1SiacoinOutput", ["Value"; "Address"], ["V1Currency(sco.Value)"; "sco.Address"]);
  ("types.FileContract", ["Filesize"; "FileMerkleRoot"; "WindowStart"; "WindowEnd"; "Payout"; "ValidProofOutputs"; "MissedProofOutputs"; "UnlockHash"; "RevisionNumber"], ["fc.Filesize"; "fc.FileMerkleRoot"; "fc.WindowStart"; "fc.WindowEnd"; "V1Currency(fc.Payout)"; "fc.ValidProofOutputs"; "fc.MissedProofOutputs"; "fc.UnlockHash"; "fc.RevisionNumber"]);
  ("types.FileContractID", [], ["id"]);
  ("types.FileContractElement", ["ID"; "StateElement"; "FileContract"], ["fce.StateElement"; "fce.ID"; "fce.FileContract"]);
  ("types.Specifier", [], ["s"]);
  ("types.UnlockKey", ["Algorithm"; "Key"], ["uk.Algorithm"; "uk.Key"]);
  ("types.UnlockConditions", ["Timelock"; "PublicKeys"; "SignaturesRequired"], ["uc.Timelock"; "uc.PublicKeys"; "uc.SignaturesRequired"]);
  ("types.FileContractRevision", ["ParentID"; "UnlockConditions"; "FileContract"], ["rev.ParentID"; "rev.UnlockConditions"; "rev.FileContract.RevisionNumber"; "rev.FileContract.Filesize"; "rev.FileContract.FileMerkleRoot"; "rev.FileContract.WindowStart"; "rev.FileContract.WindowEnd"; "rev.FileContract.ValidProofOutputs"; "rev.FileContract.MissedProofOutputs"; "rev.FileContract.UnlockHash"]);
  ("types.FoundationAddressUpdate", ["NewPrimary"; "NewFailsafe"], ["fau.NewPrimary"; "fau.NewFailsafe"]);
  ("types.SpendPolicy", ["Type"], ["version"]);
  ("types.SatisfiedPolicy", ["Policy"; "Signatures"; "Preimages"], ["sp.Policy"; "sp.Signatures"; "sp.Preimages"]);
  ("types.SiacoinOutputID", [], ["id"]);
  ("types.V2Currency", ["Lo"; "Hi"], ["c.Lo"; "c.Hi"]);
  ("types.V2SiacoinOutput", ["Value"; "Address"], ["V2Currency(sco.Value)"; "sco.Address"]);
  ("types.SiacoinElement", ["ID"; "StateElement"; "SiacoinOutput"; "MaturityHeight"], ["sce.StateElement"; "sce.ID"; "V2SiacoinOutput(sce.SiacoinOutput)"; "sce.MaturityHeight"]);
  ("types.SiacoinInput", ["ParentID"; "UnlockConditions"], ["in.ParentID"; "in.UnlockConditions"]);
  ("types.SiafundOutputID", [], ["id"]);
  ("types.V2SiafundOutput", ["Value"; "Address"], ["sfo.Value"; "sfo.Address"]);
  ("types.SiafundElement", ["ID"; "StateElement"; "SiafundOutput"; "ClaimStart"], ["sfe.StateElement"; "sfe.ID"; "V2SiafundOutput(sfe.SiafundOutput)"; "V2Currency(sfe.ClaimStart)"]);
  ("types.SiafundInput", ["ParentID"; "UnlockConditions"; "ClaimAddress"], ["in.ParentID"; "in.UnlockConditions"; "in.ClaimAddress"]);
  ("types.StorageProof", ["ParentID"; "Leaf"; "Proof"], ["sp.ParentID"; "sp.Leaf"; "sp.Proof"]);
  ("types.TransactionSignature", ["ParentID"; "PublicKeyIndex"; "Timelock"; "CoveredFields"; "Signature"], ["ts.ParentID"; "ts.PublicKeyIndex"; "ts.Timelock"; "ts.CoveredFields"; "ts.Signature"]);
  ("types.V1SiafundOutput", ["Value"; "Address"], ["V1Currency(NewCurrency64(sfo.Value))"; "sfo.Address"; "(V1Currency{})"]);
  ("types.txnSansSigs", ["SiacoinInputs"; "SiacoinOutputs"; "FileContracts"; "FileContractRevisions"; "StorageProofs"; "SiafundInputs"; "SiafundOutputs"; "MinerFees"; "ArbitraryData"; "Signatures"], ["txn.SiacoinInputs"; "txn.SiacoinOutputs"; "txn.FileContracts"; "txn.FileContractRevisions"; "txn.StorageProofs"; "txn.SiafundInputs"; "txn.SiafundOutputs"; "txn.MinerFees"; "txn.ArbitraryData"]);
  ("types.Transaction", ["SiacoinInputs"; "SiacoinOutputs"; "FileContracts"; "FileContractRevisions"; "StorageProofs"; "SiafundInputs"; "SiafundOutputs"; "MinerFees"; "ArbitraryData"; "Signatures"], ["txnSansSigs(txn)"; "txn.Signatures"]);
  ("types.TransactionID", [], ["id"]);
  ("types.V1Block", ["ParentID"; "Nonce"; "Timestamp"; "MinerPayouts"; "Transactions"; "V2"], ["b.ParentID"; "b.Nonce"; "b.Timestamp"; "b.MinerPayouts"; "b.Transactions"]);
  ("types.V2TransactionsMultiproof", [], ["numLeaves"]);
  ("types.V2BlockData", ["Height"; "Commitment"; "Transactions"], ["b.Height"; "b.Commitment"; "V2TransactionsMultiproof(b.Transactions)"]);
  ("types.V2Block", ["ParentID"; "Nonce"; "Timestamp"; "MinerPayouts"; "Transactions"; "V2"], ["V1Block(b)"; "b.V2"]);
  ("types.V2FileContract", ["Capacity"; "Filesize"; "FileMerkleRoot"; "ProofHeight"; "ExpirationHeight"; "RenterOutput"; "HostOutput"; "MissedHostValue"; "TotalCollateral"; "RenterPublicKey"; "HostPublicKey"; "RevisionNumber"; "RenterSignature"; "HostSignature"], ["fc.Capacity"; "fc.Filesize"; "fc.FileMerkleRoot"; "fc.ProofHeight"; "fc.ExpirationHeight"; "V2SiacoinOutput(fc.RenterOutput)"; "V2SiacoinOutput(fc.HostOutput)"; "V2Currency(fc.MissedHostValue)"; "V2Currency(fc.TotalCollateral)"; "fc.RenterPublicKey"; "fc.HostPublicKey"; "fc.RevisionNumber"; "fc.RenterSignature"; "fc.HostSignature"]);
  ("types.V2FileContractElement", ["ID"; "StateElement"; "V2FileContract"], ["fce.StateElement"; "fce.ID"; "fce.V2FileContract"]);
  ("types.V2FileContractExpiration", [], []);
  ("types.V2FileContractRenewal", ["FinalRenterOutput"; "FinalHostOutput"; "RenterRollover"; "HostRollover"; "NewContract"; "RenterSignature"; "HostSignature"], ["V2SiacoinOutput(ren.FinalRenterOutput)"; "V2SiacoinOutput(ren.FinalHostOutput)"; "V2Currency(ren.RenterRollover)"; "V2Currency(ren.HostRollover)"; "ren.NewContract"; "ren.RenterSignature"; "ren.HostSignature"]);
  ("types.V2FileContractResolution", ["Parent"; "Resolution"], ["res.Parent"; "res.Resolution"]);
  ("types.V2FileContractRevision", ["Parent"; "Revision"], ["rev.Parent"; "rev.Revision"]);
  ("types.V2SiacoinInput", ["Parent"; "SatisfiedPolicy"], ["in.Parent"; "in.SatisfiedPolicy"]);
  ("types.V2SiafundInput", ["Parent"; "ClaimAddress"; "SatisfiedPolicy"], ["in.Parent"; "in.ClaimAddress"; "in.SatisfiedPolicy"]);
  ("types.V2StorageProof", ["ProofIndex"; "Leaf"; "Proof"], ["sp.ProofIndex"; "sp.Leaf"; "sp.Proof"]);
  ("types.V2Transaction", ["SiacoinInputs"; "SiacoinOutputs"; "SiafundInputs"; "SiafundOutputs"; "FileContracts"; "FileContractRevisions"; "FileContractResolutions"; "Attestations"; "ArbitraryData"; "NewFoundationAddress"; "MinerFee"], ["version"; "fields"]);
  ("types.V2TransactionSemantics", ["SiacoinInputs"; "SiacoinOutputs"; "SiafundInputs"; "SiafundOutputs"; "FileContracts"; "FileContractRevisions"; "FileContractResolutions"; "Attestations"; "ArbitraryData"; "NewFoundationAddress"; "MinerFee"], ["uint64(len(txn.SiacoinInputs))"; "txn.SiacoinInputs"; "in.Parent.ID"; "uint64(len(txn.SiacoinOutputs))"; "txn.SiacoinOutputs"; "V2SiacoinOutput(out)"; "uint64(len(txn.SiafundInputs))"; "txn.SiafundInputs"; "in.Parent.ID"; "uint64(len(txn.SiafundOutputs))"; "txn.SiafundOutputs"; "V2SiafundOutput(out)"; "uint64(len(txn.FileContracts))"; "txn.FileContracts"; "fc.RenterSignature"; "fc.HostSignature"; "fc"; "uint64(len(txn.FileContractRevisions))"; "txn.FileContractRevisions"; "fcr.Parent.ID"; "fcr.Revision.RenterSignature"; "fcr.Revision.HostSignature"; "fcr.Revision"; "uint64(len(txn.FileContractResolutions))"; "txn.FileContractResolutions"; "fcr.Parent.ID"; "renewal.NewContract.RenterSignature"; "renewal.NewContract.HostSignature"; "renewal.RenterSignature"; "renewal.HostSignature"; "sp.ProofIndex.StateElement.MerkleProof"; "fcr.Resolution"; "uint64(len(txn.Attestations))"; "txn.Attestations"; "a"; "txn.ArbitraryData"; "txn.NewFoundationAddress"; "V2Currency(txn.MinerFee)"]);
  ("consensus.ElementAccumulator", ["Trees"; "NumLeaves"], ["acc.NumLeaves"]);
  ("consensus.Work", ["n"], ["w.n"]);
  ("consensus.State", ["Network"; "Index"; "PrevTimestamps"; "Depth"; "ChildTarget"; "SiafundTaxRevenue"; "OakTime"; "OakTarget"; "FoundationSubsidyAddress"; "FoundationManagementAddress"; "TotalWork"; "Difficulty"; "OakWork"; "Elements"; "Attestations"], ["s.Index"; "s.Depth"; "s.ChildTarget"; "types.V2Currency(s.SiafundTaxRevenue)"; "uint64(s.OakTime)"; "s.OakTarget"; "s.FoundationSubsidyAddress"; "s.FoundationManagementAddress"; "s.TotalWork"; "s.Difficulty"; "s.OakWork"; "s.Elements"; "s.Attestations"]);
  ("consensus.V1StorageProofSupplement", ["FileContract"; "WindowID"], ["sps.FileContract"; "sps.WindowID"]);
  ("consensus.V1TransactionSupplement", ["SiacoinInputs"; "SiafundInputs"; "RevisedFileContracts"; "StorageProofs"], ["ts.SiacoinInputs"; "ts.SiafundInputs"; "ts.RevisedFileContracts"; "ts.StorageProofs"]);
  ("consensus.V1BlockSupplement", ["Transactions"; "ExpiringFileContracts"], ["bs.Transactions"; "bs.ExpiringFileContracts"]);
  ("gateway.Header", ["GenesisID"; "UniqueID"; "NetAddress"], ["h.GenesisID"; "h.UniqueID"; "h.NetAddress"]);
  ("gateway.RPCDiscoverIP#response", ["emptyRequest"; "IP"], ["r.IP"]);
  ("gateway.V2BlockOutline", ["Height"; "ParentID"; "Nonce"; "Timestamp"; "MinerAddress"; "Transactions"], ["ob.Height"; "ob.ParentID"; "ob.Nonce"; "ob.Timestamp"; "ob.MinerAddress"; "ob.Transactions"; "txns"; "types.V2TransactionsMultiproof(v2txns)"; "hashes"; "kinds"; "kinds[i]"]);
  ("gateway.RPCRelayV2BlockOutline#request", ["Block"; "emptyResponse"], ["r.Block"]);
  ("gateway.RPCRelayV2Header#request", ["Header"; "emptyResponse"], ["r.Header"]);
  ("gateway.RPCRelayV2TransactionSet#request", ["Index"; "Transactions"; "emptyResponse"], ["r.Index"; "r.Transactions"]);
  ("gateway.RPCSendCheckpoint#request", ["Index"; "Block"; "State"], ["r.Index"]);
  ("gateway.RPCSendCheckpoint#response", ["Index"; "Block"; "State"], ["(types.V2Block)(r.Block)"; "r.State"]);
  ("gateway.RPCSendHeaders#request", ["Index"; "Max"; "Headers"; "Remaining"], ["r.Index"; "r.Max"]);
  ("gateway.RPCSendHeaders#response", ["Index"; "Max"; "Headers"; "Remaining"], ["r.Headers"; "r.Remaining"]);
  ("gateway.RPCSendTransactions#request", ["Index"; "Hashes"; "Transactions"; "V2Transactions"], ["r.Index"; "r.Hashes"]);
  ("gateway.RPCSendTransactions#response", ["Index"; "Hashes"; "Transactions"; "V2Transactions"], ["r.Transactions"; "r.V2Transactions"]);
  ("gateway.RPCSendV2Blocks#request", ["History"; "Max"; "Blocks"; "Remaining"], ["r.History"; "r.Max"]);
  ("gateway.RPCSendV2Blocks#response", ["History"; "Max"; "Blocks"; "Remaining"], ["r.Blocks"; "r.Remaining"]);
  ("gateway.RPCShareNodes#response", ["emptyRequest"; "Peers"], ["r.Peers"]);
  ("gateway.emptyRequest#request", [], []);
  ("gateway.emptyResponse#response", [], []);
  ("rhp/v2.Challenge", [], ["c"]);
  ("rhp/v2.RPCError", ["Type"; "Data"; "Description"], ["r.Type"; "r.Data"; "r.Description"]);
  ("rhp/v2.RPCFormContractAdditions", ["Parents"; "Inputs"; "Outputs"], ["r.Parents"; "r.Inputs"; "r.Outputs"]);
  ("rhp/v2.RPCFormContractRequest", ["Transactions"; "RenterKey"], ["r.Transactions"; "r.RenterKey"]);
  ("rhp/v2.RPCFormContractSignatures", ["ContractSignatures"; "RevisionSignature"], ["r.ContractSignatures"; "r.RevisionSignature"]);
  ("rhp/v2.RPCLockRequest", ["ContractID"; "Signature"; "Timeout"], ["r.ContractID"; "r.Signature[:]"; "r.Timeout"]);
  ("rhp/v2.RPCLockResponse", ["Acquired"; "NewChallenge"; "Revision"; "Signatures"], ["r.Acquired"; "r.NewChallenge"; "r.Revision"; "r.Signatures"]);
  ("rhp/v2.RPCReadRequest", ["Sections"; "MerkleProof"; "RevisionNumber"; "ValidProofValues"; "MissedProofValues"; "Signature"], ["r.Sections"; "r.MerkleProof"; "r.RevisionNumber"; "r.ValidProofValues"; "r.MissedProofValues"; "r.Signature[:]"]);
  ("rhp/v2.RPCReadResponse", ["Signature"; "Data"; "MerkleProof"], ["r.Signature[:]"; "r.Data"; "r.MerkleProof"]);
  ("rhp/v2.RPCRenewAndClearContractRequest", ["Transactions"; "RenterKey"; "FinalValidProofValues"; "FinalMissedProofValues"], ["r.Transactions"; "r.RenterKey"; "r.FinalValidProofValues"; "r.FinalMissedProofValues"]);
  ("rhp/v2.RPCRenewAndClearContractSignatures", ["ContractSignatures"; "RevisionSignature"; "FinalRevisionSignature"], ["r.ContractSignatures"; "r.RevisionSignature"; "r.FinalRevisionSignature[:]"]);
  ("rhp/v2.RPCSectorRootsRequest", ["RootOffset"; "NumRoots"; "RevisionNumber"; "ValidProofValues"; "MissedProofValues"; "Signature"], ["r.RootOffset"; "r.NumRoots"; "r.RevisionNumber"; "r.ValidProofValues"; "r.MissedProofValues"; "r.Signature[:]"]);
  ("rhp/v2.RPCSectorRootsResponse", ["Signature"; "SectorRoots"; "MerkleProof"], ["r.Signature[:]"; "r.SectorRoots"; "r.MerkleProof"]);
  ("rhp/v2.RPCSettingsResponse", ["Settings"], ["r.Settings"]);
  ("rhp/v2.RPCWriteMerkleProof", ["OldSubtreeHashes"; "OldLeafHashes"; "NewMerkleRoot"], ["r.OldSubtreeHashes"; "r.OldLeafHashes"; "r.NewMerkleRoot"]);
  ("rhp/v2.RPCWriteRequest", ["Actions"; "MerkleProof"; "RevisionNumber"; "ValidProofValues"; "MissedProofValues"], ["r.Actions"; "r.MerkleProof"; "r.RevisionNumber"; "r.ValidProofValues"; "r.MissedProofValues"]);
  ("rhp/v2.RPCWriteResponse", ["Signature"], ["r.Signature[:]"]);
  ("rhp/v2.loopKeyExchangeRequest", ["PublicKey"; "Ciphers"], ["r.PublicKey"; "r.Ciphers"]);
  ("rhp/v2.loopKeyExchangeResponse", ["PublicKey"; "Signature"; "Cipher"], ["r.PublicKey"; "r.Signature[:]"; "r.Cipher"]);
  ("rhp/v2.rpcResponse", ["err"; "data"], ["resp.err != nil"]);
  ("rhp/v3.Account", [], ["uk"]);
  ("rhp/v3.FundAccountReceipt", ["Host"; "Account"; "Amount"; "Timestamp"], ["r.Host"; "r.Account"; "types.V1Currency(r.Amount)"; "r.Timestamp"]);
  ("rhp/v3.InstrAppendSector", ["SectorDataOffset"; "ProofRequired"], ["i.SectorDataOffset"; "i.ProofRequired"]);
  ("rhp/v3.InstrAppendSectorRoot", ["MerkleRootOffset"; "ProofRequired"], ["i.MerkleRootOffset"; "i.ProofRequired"]);
  ("rhp/v3.InstrDropSectors", ["SectorCountOffset"; "ProofRequired"], ["i.SectorCountOffset"; "i.ProofRequired"]);
  ("rhp/v3.InstrHasSector", ["MerkleRootOffset"], ["i.MerkleRootOffset"]);
  ("rhp/v3.InstrReadOffset", ["LengthOffset"; "OffsetOffset"; "ProofRequired"], ["i.OffsetOffset"; "i.LengthOffset"; "i.ProofRequired"]);
  ("rhp/v3.InstrReadRegistry", ["PublicKeyOffset"; "PublicKeyLength"; "TweakOffset"; "Version"], ["i.PublicKeyOffset"; "i.PublicKeyLength"; "i.TweakOffset"; "i.Version"]);
  ("rhp/v3.InstrReadRegistryNoVersion", ["InstrReadRegistry"], ["i.PublicKeyOffset"; "i.PublicKeyLength"; "i.TweakOffset"]);
  ("rhp/v3.InstrReadSector", ["LengthOffset"; "OffsetOffset"; "MerkleRootOffset"; "ProofRequired"], ["i.MerkleRootOffset"; "i.OffsetOffset"; "i.LengthOffset"; "i.ProofRequired"]);
  ("rhp/v3.InstrRevision", [], []);
  ("rhp/v3.InstrStoreSector", ["DataOffset"; "Duration"], ["i.DataOffset"; "i.Duration"]);
  ("rhp/v3.InstrSwapSector", ["Sector1Offset"; "Sector2Offset"; "ProofRequired"], ["i.Sector1Offset"; "i.Sector2Offset"; "i.ProofRequired"]);
  ("rhp/v3.InstrUpdateRegistry", ["TweakOffset"; "RevisionOffset"; "SignatureOffset"; "PublicKeyOffset"; "PublicKeyLength"; "DataOffset"; "DataLength"; "EntryType"], ["i.TweakOffset"; "i.RevisionOffset"; "i.SignatureOffset"; "i.PublicKeyOffset"; "i.PublicKeyLength"; "i.DataOffset"; "i.DataLength"; "uint8(i.EntryType)"]);
  ("rhp/v3.InstrUpdateRegistryNoType", ["InstrUpdateRegistry"], ["i.TweakOffset"; "i.RevisionOffset"; "i.SignatureOffset"; "i.PublicKeyOffset"; "i.PublicKeyLength"; "i.DataOffset"; "i.DataLength"]);
  ("rhp/v3.InstrUpdateSector", ["Offset"; "Length"; "DataOffset"; "ProofRequired"], ["i.Offset"; "i.Length"; "i.DataOffset"; "i.ProofRequired"]);
  ("rhp/v3.PayByContractRequest", ["ContractID"; "RevisionNumber"; "ValidProofValues"; "MissedProofValues"; "RefundAccount"; "Signature"], ["r.ContractID"; "r.RevisionNumber"; "r.ValidProofValues"; "r.MissedProofValues"; "r.RefundAccount"; "r.Signature[:]"]);
  ("rhp/v3.PayByEphemeralAccountRequest", ["Account"; "Expiry"; "Amount"; "Nonce"; "Signature"; "Priority"], ["r.Account"; "r.Expiry"; "types.V1Currency(r.Amount)"; "r.Nonce"; "r.Signature"; "uint64(r.Priority)"]);
  ("rhp/v3.PaymentResponse", ["Signature"], ["r.Signature"]);
  ("rhp/v3.RPCAccountBalanceRequest", ["Account"], ["r.Account"]);
  ("rhp/v3.RPCAccountBalanceResponse", ["Balance"], ["types.V1Currency(r.Balance)"]);
  ("rhp/v3.RPCError", ["Type"; "Data"; "Description"], ["r.Type"; "r.Data"; "r.Description"]);
  ("rhp/v3.RPCExecuteProgramRequest", ["FileContractID"; "Program"; "ProgramData"], ["r.FileContractID"; "uint64(len(r.Program))"; "r.Program"; "buf.Bytes()"; "r.ProgramData"]);
  ("rhp/v3.RPCExecuteProgramResponse", ["AdditionalCollateral"; "OutputLength"; "NewMerkleRoot"; "NewSize"; "Proof"; "Error"; "TotalCost"; "FailureRefund"; "Output"], ["types.V1Currency(r.AdditionalCollateral)"; "r.OutputLength"; "r.NewMerkleRoot"; "r.NewSize"; "r.Proof"; "errString"; "types.V1Currency(r.TotalCost)"; "types.V1Currency(r.FailureRefund)"]);
  ("rhp/v3.RPCFinalizeProgramRequest", ["Signature"; "RevisionNumber"; "ValidProofValues"; "MissedProofValues"], ["r.Signature[:]"; "r.RevisionNumber"; "r.ValidProofValues"; "r.MissedProofValues"]);
  ("rhp/v3.RPCFinalizeProgramResponse", ["Signature"], ["r.Signature[:]"]);
  ("rhp/v3.RPCFundAccountRequest", ["Account"], ["r.Account"]);
  ("rhp/v3.RPCFundAccountResponse", ["Balance"; "Receipt"; "Signature"], ["types.V1Currency(r.Balance)"; "r.Receipt"; "r.Signature"]);
  ("rhp/v3.RPCLatestRevisionRequest", ["ContractID"], ["r.ContractID"]);
  ("rhp/v3.RPCLatestRevisionResponse", ["Revision"], ["r.Revision"]);
  ("rhp/v3.RPCPriceTableResponse", [], []);
  ("rhp/v3.RPCRenewContractHostAdditions", ["Parents"; "SiacoinInputs"; "SiacoinOutputs"; "FinalRevisionSignature"], ["r.Parents"; "r.SiacoinInputs"; "r.SiacoinOutputs"; "r.FinalRevisionSignature"]);
  ("rhp/v3.RPCRenewContractRequest", ["TransactionSet"; "RenterKey"; "FinalRevisionSignature"], ["r.TransactionSet"; "r.RenterKey"; "r.FinalRevisionSignature"]);
  ("rhp/v3.RPCRenewSignatures", ["TransactionSignatures"; "RevisionSignature"], ["r.TransactionSignatures"; "r.RevisionSignature"]);
  ("rhp/v3.RPCUpdatePriceTableResponse", ["PriceTableJSON"], ["r.PriceTableJSON"]);
  ("rhp/v3.SettingsID", [], ["s"]);
  ("rhp/v3.rpcResponse", ["err"; "data"], ["resp.err != nil"]);
  ("rhp/v4.Account", [], ["a"]);
  ("rhp/v4.AccountDeposit", ["Account"; "Amount"], ["ad.Account"; "types.V2Currency(ad.Amount)"]);
  ("rhp/v4.AccountToken", ["HostKey"; "Account"; "ValidUntil"; "Signature"], ["at.HostKey"; "at.Account"; "at.ValidUntil"; "at.Signature"]);
  ("rhp/v4.HostPrices", ["ContractPrice"; "Collateral"; "StoragePrice"; "IngressPrice"; "EgressPrice"; "FreeSectorPrice"; "TipHeight"; "ValidUntil"; "Signature"], ["types.V2Currency(hp.ContractPrice)"; "types.V2Currency(hp.Collateral)"; "types.V2Currency(hp.StoragePrice)"; "types.V2Currency(hp.IngressPrice)"; "types.V2Currency(hp.EgressPrice)"; "types.V2Currency(hp.FreeSectorPrice)"; "hp.TipHeight"; "hp.ValidUntil"; "hp.Signature"]);
  ("rhp/v4.HostSettings", ["ProtocolVersion"; "Release"; "WalletAddress"; "AcceptingContracts"; "MaxCollateral"; "MaxContractDuration"; "RemainingStorage"; "TotalStorage"; "Prices"], ["hs.ProtocolVersion"; "hs.Release"; "hs.WalletAddress"; "hs.AcceptingContracts"; "types.V2Currency(hs.MaxCollateral)"; "hs.MaxContractDuration"; "hs.RemainingStorage"; "hs.TotalStorage"; "hs.Prices"]);
  ("rhp/v4.PoolAttachment", ["Account"; "Pool"; "ValidUntil"; "Signature"], ["a.Account"; "a.Pool"; "a.ValidUntil"; "a.Signature"]);
  ("rhp/v4.PoolDetachment", ["Account"; "Pool"; "ValidUntil"; "Signature"], ["d.Account"; "d.Pool"; "d.ValidUntil"; "d.Signature"]);
  ("rhp/v4.RPCAccountBalanceRequest", ["Account"], ["r.Account"]);
  ("rhp/v4.RPCAccountBalanceResponse", ["Balance"], ["types.V2Currency(r.Balance)"]);
  ("rhp/v4.RPCAppendSectorsRequest", ["Prices"; "Sectors"; "ContractID"; "ChallengeSignature"], ["r.Prices"; "r.Sectors"; "r.ContractID"; "r.ChallengeSignature"]);
  ("rhp/v4.RPCAppendSectorsResponse", ["Accepted"; "SubtreeRoots"; "NewMerkleRoot"], ["r.Accepted"; "r.SubtreeRoots"; "r.NewMerkleRoot"]);
  ("rhp/v4.RPCAppendSectorsSecondResponse", ["RenterSignature"], ["r.RenterSignature"]);
  ("rhp/v4.RPCAppendSectorsThirdResponse", ["HostSignature"], ["r.HostSignature"]);
  ("rhp/v4.RPCAttachPoolsRequest", ["Attachments"], ["r.Attachments"]);
  ("rhp/v4.RPCAttachPoolsResponse", [], []);
  ("rhp/v4.RPCDetachPoolsRequest", ["Detachments"], ["r.Detachments"]);
  ("rhp/v4.RPCDetachPoolsResponse", [], []);
  ("rhp/v4.RPCError", ["Code"; "Description"], ["r.Code"; "r.Description"]);
  ("rhp/v4.RPCFormContractParams", ["RenterPublicKey"; "RenterAddress"; "Allowance"; "Collateral"; "ProofHeight"], ["r.RenterPublicKey"; "r.RenterAddress"; "types.V2Currency(r.Allowance)"; "types.V2Currency(r.Collateral)"; "r.ProofHeight"]);
  ("rhp/v4.RPCFormContractRequest", ["Prices"; "Contract"; "MinerFee"; "Basis"; "RenterInputs"; "RenterParents"], ["r.Prices"; "r.Contract"; "r.Basis"; "types.V2Currency(r.MinerFee)"; "r.RenterInputs"; "r.RenterParents"]);
  ("rhp/v4.RPCFormContractResponse", ["HostInputs"], ["r.HostInputs"]);
  ("rhp/v4.RPCFormContractSecondResponse", ["RenterContractSignature"; "RenterSatisfiedPolicies"], ["r.RenterContractSignature"; "r.RenterSatisfiedPolicies"]);
  ("rhp/v4.RPCFormContractThirdResponse", ["Basis"; "TransactionSet"], ["r.Basis"; "r.TransactionSet"]);
  ("rhp/v4.RPCFreeSectorsRequest", ["ContractID"; "Prices"; "Indices"; "ChallengeSignature"], ["r.ContractID"; "r.Prices"; "r.Indices"; "r.ChallengeSignature"]);
  ("rhp/v4.RPCFreeSectorsResponse", ["OldSubtreeHashes"; "OldLeafHashes"; "NewMerkleRoot"], ["r.OldSubtreeHashes"; "r.OldLeafHashes"; "r.NewMerkleRoot"]);
  ("rhp/v4.RPCFreeSectorsSecondResponse", ["RenterSignature"], ["r.RenterSignature"]);
  ("rhp/v4.RPCFreeSectorsThirdResponse", ["HostSignature"], ["r.HostSignature"]);
  ("rhp/v4.RPCFundAccountsRequest", ["ContractID"; "Deposits"; "RenterSignature"], ["r.ContractID"; "r.Deposits"; "r.RenterSignature"]);
  ("rhp/v4.RPCFundAccountsResponse", ["Balances"; "HostSignature"], ["r.Balances"; "r.HostSignature"]);
  ("rhp/v4.RPCLatestRevisionRequest", ["ContractID"], ["r.ContractID"]);
  ("rhp/v4.RPCLatestRevisionResponse", ["Contract"; "Revisable"; "Renewed"], ["r.Contract"; "r.Revisable"; "r.Renewed"]);
  ("rhp/v4.RPCReadSectorRequest", ["Prices"; "Token"; "Root"; "Offset"; "Length"], ["r.Prices"; "r.Token"; "r.Root"; "r.Offset"; "r.Length"]);
  ("rhp/v4.RPCReadSectorResponse", ["Proof"; "DataLength"], ["r.Proof"; "r.DataLength"]);
  ("rhp/v4.RPCRefreshContractParams", ["ContractID"; "Allowance"; "Collateral"], ["r.ContractID"; "types.V2Currency(r.Allowance)"; "types.V2Currency(r.Collateral)"]);
  ("rhp/v4.RPCRefreshContractRequest", ["Prices"; "Refresh"; "MinerFee"; "Basis"; "RenterInputs"; "RenterParents"; "ChallengeSignature"], ["r.Prices"; "r.Refresh"; "types.V2Currency(r.MinerFee)"; "r.Basis"; "r.RenterInputs"; "r.RenterParents"; "r.ChallengeSignature"]);
  ("rhp/v4.RPCRefreshContractResponse", ["HostInputs"], ["r.HostInputs"]);
  ("rhp/v4.RPCRefreshContractSecondResponse", ["RenterRenewalSignature"; "RenterContractSignature"; "RenterSatisfiedPolicies"], ["r.RenterRenewalSignature"; "r.RenterContractSignature"; "r.RenterSatisfiedPolicies"]);
  ("rhp/v4.RPCRefreshContractThirdResponse", ["Basis"; "TransactionSet"], ["r.Basis"; "r.TransactionSet"]);
  ("rhp/v4.RPCRenewContractParams", ["ContractID"; "Allowance"; "Collateral"; "ProofHeight"], ["r.ContractID"; "types.V2Currency(r.Allowance)"; "types.V2Currency(r.Collateral)"; "r.ProofHeight"]);
  ("rhp/v4.RPCRenewContractRequest", ["Prices"; "Renewal"; "MinerFee"; "Basis"; "RenterInputs"; "RenterParents"; "ChallengeSignature"], ["r.Prices"; "r.Renewal"; "types.V2Currency(r.MinerFee)"; "r.Basis"; "r.RenterInputs"; "r.RenterParents"; "r.ChallengeSignature"]);
  ("rhp/v4.RPCRenewContractResponse", ["HostInputs"], ["r.HostInputs"]);
  ("rhp/v4.RPCRenewContractSecondResponse", ["RenterRenewalSignature"; "RenterContractSignature"; "RenterSatisfiedPolicies"], ["r.RenterRenewalSignature"; "r.RenterContractSignature"; "r.RenterSatisfiedPolicies"]);
  ("rhp/v4.RPCRenewContractThirdResponse", ["Basis"; "TransactionSet"], ["r.Basis"; "r.TransactionSet"]);
  ("rhp/v4.RPCReplenishAccountsRequest", ["Accounts"; "Target"; "ContractID"; "ChallengeSignature"], ["r.Accounts"; "types.V2Currency(r.Target)"; "r.ContractID"; "r.ChallengeSignature"]);
  ("rhp/v4.RPCReplenishAccountsResponse", ["Deposits"], ["r.Deposits"]);
  ("rhp/v4.RPCReplenishAccountsSecondResponse", ["RenterSignature"], ["r.RenterSignature"]);
  ("rhp/v4.RPCReplenishAccountsThirdResponse", ["HostSignature"], ["r.HostSignature"]);
  ("rhp/v4.RPCSectorRootsRequest", ["Prices"; "ContractID"; "RenterSignature"; "Offset"; "Length"], ["r.Prices"; "r.ContractID"; "r.RenterSignature"; "r.Offset"; "r.Length"]);
  ("rhp/v4.RPCSectorRootsResponse", ["Proof"; "Roots"; "HostSignature"], ["r.Proof"; "r.Roots"; "r.HostSignature"]);
  ("rhp/v4.RPCSettingsRequest", [], []);
  ("rhp/v4.RPCSettingsResponse", ["Settings"], ["r.Settings"]);
  ("rhp/v4.RPCVerifySectorRequest", ["Prices"; "Token"; "Root"; "LeafIndex"], ["r.Prices"; "r.Token"; "r.Root"; "r.LeafIndex"]);
  ("rhp/v4.RPCVerifySectorResponse", ["Proof"; "Leaf"], ["r.Proof"; "r.Leaf"]);
  ("rhp/v4.RPCWriteSectorRequest", ["Prices"; "Token"; "DataLength"], ["r.Prices"; "r.Token"; "r.DataLength"]);
  ("rhp/v4.RPCWriteSectorResponse", ["Root"], ["r.Root"])].

(* every expression each encoder writes (loop variables qualified) and every field it blanks first *)
Definition golden_written : list (string * list string * list string) := [
  ("types.Address", ["a"], []);
  ("types.PublicKey", ["pk"], []);
  ("types.Signature", ["s"], []);
  ("types.Attestation", ["a.PublicKey"; "a.Key"; "a.Value"; "a.Signature"], []);
  ("types.AttestationID", ["id"], []);
  ("types.BlockID", ["id"], []);
  ("types.Hash256", ["h"], []);
  ("types.BlockHeader", ["h.ParentID"; "h.Nonce"; "h.Timestamp"; "h.Commitment"], []);
  ("types.ChainIndex", ["index.Height"; "index.ID"], []);
  ("types.StateElement", ["se.LeafIndex"; "se.MerkleProof"], []);
  ("types.ChainIndexElement", ["cie.StateElement"; "cie.ID"; "cie.ChainIndex"], []);
  ("types.CoveredFields", ["cf.WholeTransaction"; "cf.SiacoinInputs"; "cf.SiacoinOutputs"; "cf.FileContracts"; "cf.FileContractRevisions"; "cf.StorageProofs"; "cf.SiafundInputs"; "cf.SiafundOutputs"; "cf.MinerFees"; "cf.ArbitraryData"; "cf.Signatures"], []);
  ("types.DecoderFunc", [], []);
  ("types.EncoderFunc", [], []);
  ("types.V1Currency", ["bytes.TrimLeft(buf[:], '\x00')"], []);
  ("types.V1SiacoinOutput", ["V1Currency(sco.Value)"; "sco.Address"], []);
  ("types.FileContract", ["fc.Filesize"; "fc.FileMerkleRoot"; "fc.WindowStart"; "fc.WindowEnd"; "V1Currency(fc.Payout)"; "fc.ValidProofOutputs"; "fc.MissedProofOutputs"; "fc.UnlockHash"; "fc.RevisionNumber"], []);
  ("types.FileContractID", ["id"], []);
  ("types.FileContractElement", ["fce.StateElement"; "fce.ID"; "fce.FileContract"], []);
  ("types.Specifier", ["s"], []);
  ("types.UnlockKey", ["uk.Algorithm"; "uk.Key"], []);
  ("types.UnlockConditions", ["uc.Timelock"; "uc.PublicKeys"; "uc.SignaturesRequired"], []);
  ("types.FileContractRevision", ["rev.ParentID"; "rev.UnlockConditions"; "rev.FileContract.RevisionNumber"; "rev.FileContract.Filesize"; "rev.FileContract.FileMerkleRoot"; "rev.FileContract.WindowStart"; "rev.FileContract.WindowEnd"; "rev.FileContract.ValidProofOutputs"; "rev.FileContract.MissedProofOutputs"; "rev.FileContract.UnlockHash"], []);
  ("types.FoundationAddressUpdate", ["fau.NewPrimary"; "fau.NewFailsafe"], []);
  ("types.SpendPolicy", ["version"], []);
  ("types.SatisfiedPolicy", ["sp.Policy"; "sp.Signatures"; "sp.Preimages"], []);
  ("types.SiacoinOutputID", ["id"], []);
  ("types.V2Currency", ["c.Lo"; "c.Hi"], []);
  ("types.V2SiacoinOutput", ["V2Currency(sco.Value)"; "sco.Address"], []);
  ("types.SiacoinElement", ["sce.StateElement"; "sce.ID"; "V2SiacoinOutput(sce.SiacoinOutput)"; "sce.MaturityHeight"], []);
  ("types.SiacoinInput", ["in.ParentID"; "in.UnlockConditions"], []);
  ("types.SiafundOutputID", ["id"], []);
  ("types.V2SiafundOutput", ["sfo.Value"; "sfo.Address"], []);
  ("types.SiafundElement", ["sfe.StateElement"; "sfe.ID"; "V2SiafundOutput(sfe.SiafundOutput)"; "V2Currency(sfe.ClaimStart)"], []);
  ("types.SiafundInput", ["in.ParentID"; "in.UnlockConditions"; "in.ClaimAddress"], []);
  ("types.StorageProof", ["sp.ParentID"; "sp.Leaf"; "sp.Proof"], []);
  ("types.TransactionSignature", ["ts.ParentID"; "ts.PublicKeyIndex"; "ts.Timelock"; "ts.CoveredFields"; "ts.Signature"], []);
  ("types.V1SiafundOutput", ["V1Currency(NewCurrency64(sfo.Value))"; "sfo.Address"; "(V1Currency{})"], []);
  ("types.txnSansSigs", ["txn.SiacoinInputs"; "txn.SiacoinOutputs"; "txn.FileContracts"; "txn.FileContractRevisions"; "txn.StorageProofs"; "txn.SiafundInputs"; "txn.SiafundOutputs"; "txn.MinerFees"; "txn.ArbitraryData"], []);
  ("types.Transaction", ["txnSansSigs(txn)"; "txn.Signatures"], []);
  ("types.TransactionID", ["id"], []);
  ("types.V1Block", ["b.ParentID"; "b.Nonce"; "b.Timestamp"; "b.MinerPayouts"; "b.Transactions"], []);
  ("types.V2TransactionsMultiproof", ["numLeaves"], []);
  ("types.V2BlockData", ["b.Height"; "b.Commitment"; "V2TransactionsMultiproof(b.Transactions)"], []);
  ("types.V2Block", ["V1Block(b)"; "b.V2"], []);
  ("types.V2FileContract", ["fc.Capacity"; "fc.Filesize"; "fc.FileMerkleRoot"; "fc.ProofHeight"; "fc.ExpirationHeight"; "V2SiacoinOutput(fc.RenterOutput)"; "V2SiacoinOutput(fc.HostOutput)"; "V2Currency(fc.MissedHostValue)"; "V2Currency(fc.TotalCollateral)"; "fc.RenterPublicKey"; "fc.HostPublicKey"; "fc.RevisionNumber"; "fc.RenterSignature"; "fc.HostSignature"], []);
  ("types.V2FileContractElement", ["fce.StateElement"; "fce.ID"; "fce.V2FileContract"], []);
  ("types.V2FileContractExpiration", [], []);
  ("types.V2FileContractRenewal", ["V2SiacoinOutput(ren.FinalRenterOutput)"; "V2SiacoinOutput(ren.FinalHostOutput)"; "V2Currency(ren.RenterRollover)"; "V2Currency(ren.HostRollover)"; "ren.NewContract"; "ren.RenterSignature"; "ren.HostSignature"], []);
  ("types.V2FileContractResolution", ["res.Parent"; "res.Resolution"], []);
  ("types.V2FileContractRevision", ["rev.Parent"; "rev.Revision"], []);
  ("types.V2SiacoinInput", ["in.Parent"; "in.SatisfiedPolicy"], []);
  ("types.V2SiafundInput", ["in.Parent"; "in.ClaimAddress"; "in.SatisfiedPolicy"], []);
  ("types.V2StorageProof", ["sp.ProofIndex"; "sp.Leaf"; "sp.Proof"], []);
  ("types.V2Transaction", ["version"; "fields"], []);
  ("types.V2TransactionSemantics", ["uint64(len(txn.SiacoinInputs))"; "txn.SiacoinInputs[].Parent.ID"; "uint64(len(txn.SiacoinOutputs))"; "V2SiacoinOutput(txn.SiacoinOutputs[])"; "uint64(len(txn.SiafundInputs))"; "txn.SiafundInputs[].Parent.ID"; "uint64(len(txn.SiafundOutputs))"; "V2SiafundOutput(txn.SiafundOutputs[])"; "uint64(len(txn.FileContracts))"; "txn.FileContracts[]"; "uint64(len(txn.FileContractRevisions))"; "txn.FileContractRevisions[].Parent.ID"; "txn.FileContractRevisions[].Revision"; "uint64(len(txn.FileContractResolutions))"; "txn.FileContractResolutions[].Parent.ID"; "txn.FileContractResolutions[].Resolution"; "uint64(len(txn.Attestations))"; "txn.Attestations[]"; "txn.ArbitraryData"; "txn.NewFoundationAddress"; "V2Currency(txn.MinerFee)"], ["txn.FileContracts[].RenterSignature"; "txn.FileContracts[].HostSignature"; "txn.FileContractRevisions[].Revision.RenterSignature"; "txn.FileContractRevisions[].Revision.HostSignature"; "renewal.NewContract.RenterSignature"; "renewal.NewContract.HostSignature"; "renewal.RenterSignature"; "renewal.HostSignature"; "sp.ProofIndex.StateElement.MerkleProof"]);
  ("consensus.ElementAccumulator", ["acc.NumLeaves"], []);
  ("consensus.Work", ["w.n"], []);
  ("consensus.State", ["s.Index"; "s.Depth"; "s.ChildTarget"; "types.V2Currency(s.SiafundTaxRevenue)"; "uint64(s.OakTime)"; "s.OakTarget"; "s.FoundationSubsidyAddress"; "s.FoundationManagementAddress"; "s.TotalWork"; "s.Difficulty"; "s.OakWork"; "s.Elements"; "s.Attestations"], []);
  ("consensus.V1StorageProofSupplement", ["sps.FileContract"; "sps.WindowID"], []);
  ("consensus.V1TransactionSupplement", ["ts.SiacoinInputs"; "ts.SiafundInputs"; "ts.RevisedFileContracts"; "ts.StorageProofs"], []);
  ("consensus.V1BlockSupplement", ["bs.Transactions"; "bs.ExpiringFileContracts"], []);
  ("gateway.Header", ["h.GenesisID"; "h.UniqueID"; "h.NetAddress"], []);
  ("gateway.RPCDiscoverIP#response", ["r.IP"], []);
  ("gateway.V2BlockOutline", ["ob.Height"; "ob.ParentID"; "ob.Nonce"; "ob.Timestamp"; "ob.MinerAddress"; "txns"; "types.V2TransactionsMultiproof(v2txns)"; "hashes"; "kinds[i]"], []);
  ("gateway.RPCRelayV2BlockOutline#request", ["r.Block"], []);
  ("gateway.RPCRelayV2Header#request", ["r.Header"], []);
  ("gateway.RPCRelayV2TransactionSet#request", ["r.Index"; "r.Transactions"], []);
  ("gateway.RPCSendCheckpoint#request", ["r.Index"], []);
  ("gateway.RPCSendCheckpoint#response", ["(types.V2Block)(r.Block)"; "r.State"], []);
  ("gateway.RPCSendHeaders#request", ["r.Index"; "r.Max"], []);
  ("gateway.RPCSendHeaders#response", ["r.Headers"; "r.Remaining"], []);
  ("gateway.RPCSendTransactions#request", ["r.Index"; "r.Hashes"], []);
  ("gateway.RPCSendTransactions#response", ["r.Transactions"; "r.V2Transactions"], []);
  ("gateway.RPCSendV2Blocks#request", ["r.History"; "r.Max"], []);
  ("gateway.RPCSendV2Blocks#response", ["r.Blocks"; "r.Remaining"], []);
  ("gateway.RPCShareNodes#response", ["r.Peers"], []);
  ("gateway.emptyRequest#request", [], []);
  ("gateway.emptyResponse#response", [], []);
  ("rhp/v2.Challenge", ["c"], []);
  ("rhp/v2.RPCError", ["r.Type"; "r.Data"; "r.Description"], []);
  ("rhp/v2.RPCFormContractAdditions", ["r.Parents"; "r.Inputs"; "r.Outputs"], []);
  ("rhp/v2.RPCFormContractRequest", ["r.Transactions"; "r.RenterKey"], []);
  ("rhp/v2.RPCFormContractSignatures", ["r.ContractSignatures"; "r.RevisionSignature"], []);
  ("rhp/v2.RPCLockRequest", ["r.ContractID"; "r.Signature[:]"; "r.Timeout"], []);
  ("rhp/v2.RPCLockResponse", ["r.Acquired"; "r.NewChallenge"; "r.Revision"; "r.Signatures"], []);
  ("rhp/v2.RPCReadRequest", ["r.Sections"; "r.MerkleProof"; "r.RevisionNumber"; "r.ValidProofValues"; "r.MissedProofValues"; "r.Signature[:]"], []);
  ("rhp/v2.RPCReadResponse", ["r.Signature[:]"; "r.Data"; "r.MerkleProof"], []);
  ("rhp/v2.RPCRenewAndClearContractRequest", ["r.Transactions"; "r.RenterKey"; "r.FinalValidProofValues"; "r.FinalMissedProofValues"], []);
  ("rhp/v2.RPCRenewAndClearContractSignatures", ["r.ContractSignatures"; "r.RevisionSignature"; "r.FinalRevisionSignature[:]"], []);
  ("rhp/v2.RPCSectorRootsRequest", ["r.RootOffset"; "r.NumRoots"; "r.RevisionNumber"; "r.ValidProofValues"; "r.MissedProofValues"; "r.Signature[:]"], []);
  ("rhp/v2.RPCSectorRootsResponse", ["r.Signature[:]"; "r.SectorRoots"; "r.MerkleProof"], []);
  ("rhp/v2.RPCSettingsResponse", ["r.Settings"], []);
  ("rhp/v2.RPCWriteMerkleProof", ["r.OldSubtreeHashes"; "r.OldLeafHashes"; "r.NewMerkleRoot"], []);
  ("rhp/v2.RPCWriteRequest", ["r.Actions"; "r.MerkleProof"; "r.RevisionNumber"; "r.ValidProofValues"; "r.MissedProofValues"], []);
  ("rhp/v2.RPCWriteResponse", ["r.Signature[:]"], []);
  ("rhp/v2.loopKeyExchangeRequest", ["r.PublicKey"; "r.Ciphers"], []);
  ("rhp/v2.loopKeyExchangeResponse", ["r.PublicKey"; "r.Signature[:]"; "r.Cipher"], []);
  ("rhp/v2.rpcResponse", ["resp.err != nil"], []);
  ("rhp/v3.Account", ["uk"], []);
  ("rhp/v3.FundAccountReceipt", ["r.Host"; "r.Account"; "types.V1Currency(r.Amount)"; "r.Timestamp"], []);
  ("rhp/v3.InstrAppendSector", ["i.SectorDataOffset"; "i.ProofRequired"], []);
  ("rhp/v3.InstrAppendSectorRoot", ["i.MerkleRootOffset"; "i.ProofRequired"], []);
  ("rhp/v3.InstrDropSectors", ["i.SectorCountOffset"; "i.ProofRequired"], []);
  ("rhp/v3.InstrHasSector", ["i.MerkleRootOffset"], []);
  ("rhp/v3.InstrReadOffset", ["i.OffsetOffset"; "i.LengthOffset"; "i.ProofRequired"], []);
  ("rhp/v3.InstrReadRegistry", ["i.PublicKeyOffset"; "i.PublicKeyLength"; "i.TweakOffset"; "i.Version"], []);
  ("rhp/v3.InstrReadRegistryNoVersion", ["i.PublicKeyOffset"; "i.PublicKeyLength"; "i.TweakOffset"], []);
  ("rhp/v3.InstrReadSector", ["i.MerkleRootOffset"; "i.OffsetOffset"; "i.LengthOffset"; "i.ProofRequired"], []);
  ("rhp/v3.InstrRevision", [], []);
  ("rhp/v3.InstrStoreSector", ["i.DataOffset"; "i.Duration"], []);
  ("rhp/v3.InstrSwapSector", ["i.Sector1Offset"; "i.Sector2Offset"; "i.ProofRequired"], []);
  ("rhp/v3.InstrUpdateRegistry", ["i.TweakOffset"; "i.RevisionOffset"; "i.SignatureOffset"; "i.PublicKeyOffset"; "i.PublicKeyLength"; "i.DataOffset"; "i.DataLength"; "uint8(i.EntryType)"], []);
  ("rhp/v3.InstrUpdateRegistryNoType", ["i.TweakOffset"; "i.RevisionOffset"; "i.SignatureOffset"; "i.PublicKeyOffset"; "i.PublicKeyLength"; "i.DataOffset"; "i.DataLength"], []);
  ("rhp/v3.InstrUpdateSector", ["i.Offset"; "i.Length"; "i.DataOffset"; "i.ProofRequired"], []);
  ("rhp/v3.PayByContractRequest", ["r.ContractID"; "r.RevisionNumber"; "r.ValidProofValues"; "r.MissedProofValues"; "r.RefundAccount"; "r.Signature[:]"], []);
  ("rhp/v3.PayByEphemeralAccountRequest", ["r.Account"; "r.Expiry"; "types.V1Currency(r.Amount)"; "r.Nonce"; "r.Signature"; "uint64(r.Priority)"], []);
  ("rhp/v3.PaymentResponse", ["r.Signature"], []);
  ("rhp/v3.RPCAccountBalanceRequest", ["r.Account"], []);
  ("rhp/v3.RPCAccountBalanceResponse", ["types.V1Currency(r.Balance)"], []);
  ("rhp/v3.RPCError", ["r.Type"; "r.Data"; "r.Description"], []);
  ("rhp/v3.RPCExecuteProgramRequest", ["r.FileContractID"; "uint64(len(r.Program))"; "buf.Bytes()"; "r.ProgramData"], []);
  ("rhp/v3.RPCExecuteProgramResponse", ["types.V1Currency(r.AdditionalCollateral)"; "r.OutputLength"; "r.NewMerkleRoot"; "r.NewSize"; "r.Proof"; "errString"; "types.V1Currency(r.TotalCost)"; "types.V1Currency(r.FailureRefund)"], []);
  ("rhp/v3.RPCFinalizeProgramRequest", ["r.Signature[:]"; "r.RevisionNumber"; "r.ValidProofValues"; "r.MissedProofValues"], []);
  ("rhp/v3.RPCFinalizeProgramResponse", ["r.Signature[:]"], []);
  ("rhp/v3.RPCFundAccountRequest", ["r.Account"], []);
  ("rhp/v3.RPCFundAccountResponse", ["types.V1Currency(r.Balance)"; "r.Receipt"; "r.Signature"], []);
  ("rhp/v3.RPCLatestRevisionRequest", ["r.ContractID"], []);
  ("rhp/v3.RPCLatestRevisionResponse", ["r.Revision"], []);
  ("rhp/v3.RPCPriceTableResponse", [], []);
  ("rhp/v3.RPCRenewContractHostAdditions", ["r.Parents"; "r.SiacoinInputs"; "r.SiacoinOutputs"; "r.FinalRevisionSignature"], []);
  ("rhp/v3.RPCRenewContractRequest", ["r.TransactionSet"; "r.RenterKey"; "r.FinalRevisionSignature"], []);
  ("rhp/v3.RPCRenewSignatures", ["r.TransactionSignatures"; "r.RevisionSignature"], []);
  ("rhp/v3.RPCUpdatePriceTableResponse", ["r.PriceTableJSON"], []);
  ("rhp/v3.SettingsID", ["s"], []);
  ("rhp/v3.rpcResponse", ["resp.err != nil"], []);
  ("rhp/v4.Account", ["a"], []);
  ("rhp/v4.AccountDeposit", ["ad.Account"; "types.V2Currency(ad.Amount)"], []);
  ("rhp/v4.AccountToken", ["at.HostKey"; "at.Account"; "at.ValidUntil"; "at.Signature"], []);
  ("rhp/v4.HostPrices", ["types.V2Currency(hp.ContractPrice)"; "types.V2Currency(hp.Collateral)"; "types.V2Currency(hp.StoragePrice)"; "types.V2Currency(hp.IngressPrice)"; "types.V2Currency(hp.EgressPrice)"; "types.V2Currency(hp.FreeSectorPrice)"; "hp.TipHeight"; "hp.ValidUntil"; "hp.Signature"], []);
  ("rhp/v4.HostSettings", ["hs.ProtocolVersion"; "hs.Release"; "hs.WalletAddress"; "hs.AcceptingContracts"; "types.V2Currency(hs.MaxCollateral)"; "hs.MaxContractDuration"; "hs.RemainingStorage"; "hs.TotalStorage"; "hs.Prices"], []);
  ("rhp/v4.PoolAttachment", ["a.Account"; "a.Pool"; "a.ValidUntil"; "a.Signature"], []);
  ("rhp/v4.PoolDetachment", ["d.Account"; "d.Pool"; "d.ValidUntil"; "d.Signature"], []);
  ("rhp/v4.RPCAccountBalanceRequest", ["r.Account"], []);
  ("rhp/v4.RPCAccountBalanceResponse", ["types.V2Currency(r.Balance)"], []);
  ("rhp/v4.RPCAppendSectorsRequest", ["r.Prices"; "r.Sectors"; "r.ContractID"; "r.ChallengeSignature"], []);
  ("rhp/v4.RPCAppendSectorsResponse", ["r.Accepted"; "r.SubtreeRoots"; "r.NewMerkleRoot"], []);
  ("rhp/v4.RPCAppendSectorsSecondResponse", ["r.RenterSignature"], []);
  ("rhp/v4.RPCAppendSectorsThirdResponse", ["r.HostSignature"], []);
  ("rhp/v4.RPCAttachPoolsRequest", ["r.Attachments"], []);
  ("rhp/v4.RPCAttachPoolsResponse", [], []);
  ("rhp/v4.RPCDetachPoolsRequest", ["r.Detachments"], []);
  ("rhp/v4.RPCDetachPoolsResponse", [], []);
  ("rhp/v4.RPCError", ["r.Code"; "r.Description"], []);
  ("rhp/v4.RPCFormContractParams", ["r.RenterPublicKey"; "r.RenterAddress"; "types.V2Currency(r.Allowance)"; "types.V2Currency(r.Collateral)"; "r.ProofHeight"], []);
  ("rhp/v4.RPCFormContractRequest", ["r.Prices"; "r.Contract"; "r.Basis"; "types.V2Currency(r.MinerFee)"; "r.RenterInputs"; "r.RenterParents"], []);
  ("rhp/v4.RPCFormContractResponse", ["r.HostInputs"], []);
  ("rhp/v4.RPCFormContractSecondResponse", ["r.RenterContractSignature"; "r.RenterSatisfiedPolicies"], []);
  ("rhp/v4.RPCFormContractThirdResponse", ["r.Basis"; "r.TransactionSet"], []);
  ("rhp/v4.RPCFreeSectorsRequest", ["r.ContractID"; "r.Prices"; "r.Indices"; "r.ChallengeSignature"], []);
  ("rhp/v4.RPCFreeSectorsResponse", ["r.OldSubtreeHashes"; "r.OldLeafHashes"; "r.NewMerkleRoot"], []);
  ("rhp/v4.RPCFreeSectorsSecondResponse", ["r.RenterSignature"], []);
  ("rhp/v4.RPCFreeSectorsThirdResponse", ["r.HostSignature"], []);
  ("rhp/v4.RPCFundAccountsRequest", ["r.ContractID"; "r.Deposits"; "r.RenterSignature"], []);
  ("rhp/v4.RPCFundAccountsResponse", ["r.Balances"; "r.HostSignature"], []);
  ("rhp/v4.RPCLatestRevisionRequest", ["r.ContractID"], []);
  ("rhp/v4.RPCLatestRevisionResponse", ["r.Contract"; "r.Revisable"; "r.Renewed"], []);
  ("rhp/v4.RPCReadSectorRequest", ["r.Prices"; "r.Token"; "r.Root"; "r.Offset"; "r.Length"], []);
  ("rhp/v4.RPCReadSectorResponse", ["r.Proof"; "r.DataLength"], []);
  ("rhp/v4.RPCRefreshContractParams", ["r.ContractID"; "types.V2Currency(r.Allowance)"; "types.V2Currency(r.Collateral)"], []);
  ("rhp/v4.RPCRefreshContractRequest", ["r.Prices"; "r.Refresh"; "types.V2Currency(r.MinerFee)"; "r.Basis"; "r.RenterInputs"; "r.RenterParents"; "r.ChallengeSignature"], []);
  ("rhp/v4.RPCRefreshContractResponse", ["r.HostInputs"], []);
  ("rhp/v4.RPCRefreshContractSecondResponse", ["r.RenterRenewalSignature"; "r.RenterContractSignature"; "r.RenterSatisfiedPolicies"], []);
  ("rhp/v4.RPCRefreshContractThirdResponse", ["r.Basis"; "r.TransactionSet"], []);
  ("rhp/v4.RPCRenewContractParams", ["r.ContractID"; "types.V2Currency(r.Allowance)"; "types.V2Currency(r.Collateral)"; "r.ProofHeight"], []);
  ("rhp/v4.RPCRenewContractRequest", ["r.Prices"; "r.Renewal"; "types.V2Currency(r.MinerFee)"; "r.Basis"; "r.RenterInputs"; "r.RenterParents"; "r.ChallengeSignature"], []);
  ("rhp/v4.RPCRenewContractResponse", ["r.HostInputs"], []);
  ("rhp/v4.RPCRenewContractSecondResponse", ["r.RenterRenewalSignature"; "r.RenterContractSignature"; "r.RenterSatisfiedPolicies"], []);
  ("rhp/v4.RPCRenewContractThirdResponse", ["r.Basis"; "r.TransactionSet"], []);
  ("rhp/v4.RPCReplenishAccountsRequest", ["r.Accounts"; "types.V2Currency(r.Target)"; "r.ContractID"; "r.ChallengeSignature"], []);
  ("rhp/v4.RPCReplenishAccountsResponse", ["r.Deposits"], []);
  ("rhp/v4.RPCReplenishAccountsSecondResponse", ["r.RenterSignature"], []);
  ("rhp/v4.RPCReplenishAccountsThirdResponse", ["r.HostSignature"], []);
  ("rhp/v4.RPCSectorRootsRequest", ["r.Prices"; "r.ContractID"; "r.RenterSignature"; "r.Offset"; "r.Length"], []);
  ("rhp/v4.RPCSectorRootsResponse", ["r.Proof"; "r.Roots"; "r.HostSignature"], []);
  ("rhp/v4.RPCSettingsRequest", [], []);
  ("rhp/v4.RPCSettingsResponse", ["r.Settings"], []);
  ("rhp/v4.RPCVerifySectorRequest", ["r.Prices"; "r.Token"; "r.Root"; "r.LeafIndex"], []);
  ("rhp/v4.RPCVerifySectorResponse", ["r.Proof"; "r.Leaf"], []);
  ("rhp/v4.RPCWriteSectorRequest", ["r.Prices"; "r.Token"; "r.DataLength"], []);
  ("rhp/v4.RPCWriteSectorResponse", ["r.Root"], [])].
