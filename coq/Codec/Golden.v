(* Golden copy of the translator output for the pinned tree: the wire layout as implemented there. Made by make_golden.sh. *)
From Coq Require Import List String.
From Sia Require Import Codec.Shape.
Import ListNotations.
Open Scope string_scope.

Definition g_enc_types_Address : shape := (HSeq [(HFixed 32)]).
Definition g_dec_types_Address : shape := (HSeq [(HFixed 32)]).
Definition g_enc_types_PublicKey : shape := (HSeq [(HFixed 32)]).
Definition g_dec_types_PublicKey : shape := (HSeq [(HFixed 32)]).
Definition g_enc_types_Signature : shape := (HSeq [(HFixed 64)]).
Definition g_dec_types_Signature : shape := (HSeq [(HFixed 64)]).
Definition g_enc_types_Attestation : shape := (HSeq [g_enc_types_PublicKey; HBytes; HBytes; g_enc_types_Signature]).
Definition g_dec_types_Attestation : shape := (HSeq [g_dec_types_PublicKey; HBytes; HBytes; g_dec_types_Signature]).
Definition g_enc_types_AttestationID : shape := (HSeq [(HFixed 32)]).
Definition g_dec_types_AttestationID : shape := (HSeq [(HFixed 32)]).
Definition g_enc_types_BlockID : shape := (HSeq [(HFixed 32)]).
Definition g_dec_types_BlockID : shape := (HSeq [(HFixed 32)]).
Definition g_enc_types_Hash256 : shape := (HSeq [(HFixed 32)]).
Definition g_dec_types_Hash256 : shape := (HSeq [(HFixed 32)]).
Definition g_enc_types_BlockHeader : shape := (HSeq [g_enc_types_BlockID; HU64; HTime; g_enc_types_Hash256]).
Definition g_dec_types_BlockHeader : shape := (HSeq [g_dec_types_BlockID; HU64; HTime; g_dec_types_Hash256]).
Definition g_enc_types_ChainIndex : shape := (HSeq [HU64; g_enc_types_BlockID]).
Definition g_dec_types_ChainIndex : shape := (HSeq [HU64; g_dec_types_BlockID]).
Definition g_enc_types_StateElement : shape := (HSeq [HU64; (HSlice g_enc_types_Hash256)]).
Definition g_dec_types_StateElement : shape := (HSeq [HU64; (HSlice g_dec_types_Hash256)]).
Definition g_enc_types_ChainIndexElement : shape := (HSeq [g_enc_types_StateElement; g_enc_types_BlockID; g_enc_types_ChainIndex]).
Definition g_dec_types_ChainIndexElement : shape := (HSeq [g_dec_types_StateElement; g_dec_types_BlockID; g_dec_types_ChainIndex]).
Definition g_enc_types_CoveredFields : shape := (HSeq [HBool; (HSlice HU64); (HSlice HU64); (HSlice HU64); (HSlice HU64); (HSlice HU64); (HSlice HU64); (HSlice HU64); (HSlice HU64); (HSlice HU64); (HSlice HU64)]).
Definition g_dec_types_CoveredFields : shape := (HSeq [HBool; (HSlice HU64); (HSlice HU64); (HSlice HU64); (HSlice HU64); (HSlice HU64); (HSlice HU64); (HSlice HU64); (HSlice HU64); (HSlice HU64); (HSlice HU64)]).
Definition g_enc_types_DecoderFunc : shape := HNamed "types.DecoderFunc".
Definition g_dec_types_DecoderFunc : shape := HNamed "types.DecoderFunc".
(* opaque because: enc statement fn(d) | dec statement fn(d) *)
Definition g_enc_types_EncoderFunc : shape := HNamed "types.EncoderFunc".
Definition g_dec_types_EncoderFunc : shape := HNamed "types.EncoderFunc".
(* opaque because: enc statement fn(e) | dec statement fn(e) *)
Definition g_enc_types_V1Currency : shape := HNamed "types.V1Currency".
Definition g_dec_types_V1Currency : shape := HNamed "types.V1Currency".
(* opaque because: enc statement binary.BigEndian.PutUint64(buf[:8], c.Hi) | dec statement if n > 16 { d.SetErr(fmt.Errorf("Currency too large: %v bytes", n)) return } *)
Definition g_enc_types_V1SiacoinOutput : shape := (HSeq [g_enc_types_V1Currency; g_enc_types_Address]).
Definition g_dec_types_V1SiacoinOutput : shape := (HSeq [g_dec_types_V1Currency; g_dec_types_Address]).
Definition g_enc_types_FileContract : shape := (HSeq [HU64; g_enc_types_Hash256; HU64; HU64; g_enc_types_V1Currency; (HSlice g_enc_types_V1SiacoinOutput); (HSlice g_enc_types_V1SiacoinOutput); g_enc_types_Address; HU64]).
Definition g_dec_types_FileContract : shape := (HSeq [HU64; g_dec_types_Hash256; HU64; HU64; g_dec_types_V1Currency; (HSlice g_dec_types_V1SiacoinOutput); (HSlice g_dec_types_V1SiacoinOutput); g_dec_types_Address; HU64]).
Definition g_enc_types_FileContractID : shape := (HSeq [(HFixed 32)]).
Definition g_dec_types_FileContractID : shape := (HSeq [(HFixed 32)]).
Definition g_enc_types_FileContractElement : shape := (HSeq [g_enc_types_StateElement; g_enc_types_FileContractID; g_enc_types_FileContract]).
Definition g_dec_types_FileContractElement : shape := (HSeq [g_dec_types_StateElement; g_dec_types_FileContractID; g_dec_types_FileContract]).
Definition g_enc_types_Specifier : shape := (HSeq [(HFixed 16)]).
Definition g_dec_types_Specifier : shape := (HSeq [(HFixed 16)]).
Definition g_enc_types_UnlockKey : shape := (HSeq [g_enc_types_Specifier; HBytes]).
Definition g_dec_types_UnlockKey : shape := (HSeq [g_dec_types_Specifier; HBytes]).
Definition g_enc_types_UnlockConditions : shape := (HSeq [HU64; (HSlice g_enc_types_UnlockKey); HU64]).
Definition g_dec_types_UnlockConditions : shape := (HSeq [HU64; (HSlice g_dec_types_UnlockKey); HU64]).
Definition g_enc_types_FileContractRevision : shape := (HSeq [g_enc_types_FileContractID; g_enc_types_UnlockConditions; HU64; HU64; g_enc_types_Hash256; HU64; HU64; (HSlice g_enc_types_V1SiacoinOutput); (HSlice g_enc_types_V1SiacoinOutput); g_enc_types_Address]).
Definition g_dec_types_FileContractRevision : shape := (HSeq [g_dec_types_FileContractID; g_dec_types_UnlockConditions; HU64; HU64; g_dec_types_Hash256; HU64; HU64; (HSlice g_dec_types_V1SiacoinOutput); (HSlice g_dec_types_V1SiacoinOutput); g_dec_types_Address]).
Definition g_enc_types_FoundationAddressUpdate : shape := (HSeq [g_enc_types_Address; g_enc_types_Address]).
Definition g_dec_types_FoundationAddressUpdate : shape := (HSeq [g_dec_types_Address; g_dec_types_Address]).
Definition g_enc_types_SpendPolicy : shape := HNamed "types.SpendPolicy".
Definition g_dec_types_SpendPolicy : shape := HNamed "types.SpendPolicy".
(* opaque because: enc statement p.encodePolicy(e) | dec statement readPolicy = func(depth int) (SpendPolicy, error) { if depth > maxPolicyDepth { return SpendPolicy{}, fmt.Errorf("policy exceeds maximum nesting depth of %d", maxPolicyDepth) } switch op := d.ReadUint8(); op { case opAbove: return PolicyAbove(d.ReadUint64()), nil case opAfter: return PolicyAfter(d.ReadTime()), nil case opPublicKey: var pk PublicKey pk.DecodeFrom(d) return PolicyPublicKey(pk), nil case opHash: var h Hash256 h.DecodeFrom(d) return PolicyHash(h), nil case opThreshold: n := d.ReadUint8() of := make([]SpendPolicy, d.ReadUint8()) var err error for i := range of { if of[i], err = readPolicy(depth + 1); err != nil { return SpendPolicy{}, err } } return PolicyThreshold(n, of), nil case opOpaque: var p PolicyTypeOpaque ( *Address)(&p).DecodeFrom(d) return SpendPolicy{p}, nil case opUnlockConditions: var uc UnlockConditions uc.DecodeFrom(d) return SpendPolicy{PolicyTypeUnlockConditions(uc)}, nil default: return SpendPolicy{}, fmt.Errorf("unknown policy (opcode %d)", op) } } *)
Definition g_enc_types_SatisfiedPolicy : shape := (HSeq [g_enc_types_SpendPolicy; (HSlice g_enc_types_Signature); (HSlice g_enc_types_Hash256)]).
Definition g_dec_types_SatisfiedPolicy : shape := (HSeq [g_dec_types_SpendPolicy; (HSlice g_dec_types_Signature); (HSlice g_dec_types_Hash256)]).
Definition g_enc_types_SiacoinOutputID : shape := (HSeq [(HFixed 32)]).
Definition g_dec_types_SiacoinOutputID : shape := (HSeq [(HFixed 32)]).
Definition g_enc_types_V2Currency : shape := (HSeq [HU64; HU64]).
Definition g_dec_types_V2Currency : shape := (HSeq [HU64; HU64]).
Definition g_enc_types_V2SiacoinOutput : shape := (HSeq [g_enc_types_V2Currency; g_enc_types_Address]).
Definition g_dec_types_V2SiacoinOutput : shape := (HSeq [g_dec_types_V2Currency; g_dec_types_Address]).
Definition g_enc_types_SiacoinElement : shape := (HSeq [g_enc_types_StateElement; g_enc_types_SiacoinOutputID; g_enc_types_V2SiacoinOutput; HU64]).
Definition g_dec_types_SiacoinElement : shape := (HSeq [g_dec_types_StateElement; g_dec_types_SiacoinOutputID; g_dec_types_V2SiacoinOutput; HU64]).
Definition g_enc_types_SiacoinInput : shape := (HSeq [g_enc_types_SiacoinOutputID; g_enc_types_UnlockConditions]).
Definition g_dec_types_SiacoinInput : shape := (HSeq [g_dec_types_SiacoinOutputID; g_dec_types_UnlockConditions]).
Definition g_enc_types_SiafundOutputID : shape := (HSeq [(HFixed 32)]).
Definition g_dec_types_SiafundOutputID : shape := (HSeq [(HFixed 32)]).
Definition g_enc_types_V2SiafundOutput : shape := (HSeq [HU64; g_enc_types_Address]).
Definition g_dec_types_V2SiafundOutput : shape := (HSeq [HU64; g_dec_types_Address]).
Definition g_enc_types_SiafundElement : shape := (HSeq [g_enc_types_StateElement; g_enc_types_SiafundOutputID; g_enc_types_V2SiafundOutput; g_enc_types_V2Currency]).
Definition g_dec_types_SiafundElement : shape := (HSeq [g_dec_types_StateElement; g_dec_types_SiafundOutputID; g_dec_types_V2SiafundOutput; g_dec_types_V2Currency]).
Definition g_enc_types_SiafundInput : shape := (HSeq [g_enc_types_SiafundOutputID; g_enc_types_UnlockConditions; g_enc_types_Address]).
Definition g_dec_types_SiafundInput : shape := (HSeq [g_dec_types_SiafundOutputID; g_dec_types_UnlockConditions; g_dec_types_Address]).
Definition g_enc_types_StorageProof : shape := (HSeq [g_enc_types_FileContractID; (HFixed 64); (HSlice g_enc_types_Hash256)]).
Definition g_dec_types_StorageProof : shape := (HSeq [g_dec_types_FileContractID; (HFixed 64); (HSlice g_dec_types_Hash256)]).
Definition g_enc_types_TransactionSignature : shape := (HSeq [g_enc_types_Hash256; HU64; HU64; g_enc_types_CoveredFields; HBytes]).
Definition g_dec_types_TransactionSignature : shape := (HSeq [g_dec_types_Hash256; HU64; HU64; g_dec_types_CoveredFields; HBytes]).
Definition g_enc_types_V1SiafundOutput : shape := HNamed "types.V1SiafundOutput".
Definition g_dec_types_V1SiafundOutput : shape := HNamed "types.V1SiafundOutput".
(* opaque because: enc  | dec statement if val.Hi != 0 { d.SetErr(errors.New("value overflows siafund representation")) return } *)
Definition g_enc_types_txnSansSigs : shape := (HSeq [(HSlice g_enc_types_SiacoinInput); (HSlice g_enc_types_V1SiacoinOutput); (HSlice g_enc_types_FileContract); (HSlice g_enc_types_FileContractRevision); (HSlice g_enc_types_StorageProof); (HSlice g_enc_types_SiafundInput); (HSlice g_enc_types_V1SiafundOutput); (HSlice g_enc_types_V1Currency); (HSlice HBytes)]).
Definition g_dec_types_txnSansSigs : shape := (HSeq [(HSlice g_dec_types_SiacoinInput); (HSlice g_dec_types_V1SiacoinOutput); (HSlice g_dec_types_FileContract); (HSlice g_dec_types_FileContractRevision); (HSlice g_dec_types_StorageProof); (HSlice g_dec_types_SiafundInput); (HSlice g_dec_types_V1SiafundOutput); (HSlice g_dec_types_V1Currency); (HSlice HBytes)]).
Definition g_enc_types_Transaction : shape := (HSeq [g_enc_types_txnSansSigs; (HSlice g_enc_types_TransactionSignature)]).
Definition g_dec_types_Transaction : shape := (HSeq [(HSlice g_dec_types_SiacoinInput); (HSlice g_dec_types_V1SiacoinOutput); (HSlice g_dec_types_FileContract); (HSlice g_dec_types_FileContractRevision); (HSlice g_dec_types_StorageProof); (HSlice g_dec_types_SiafundInput); (HSlice g_dec_types_V1SiafundOutput); (HSlice g_dec_types_V1Currency); (HSlice HBytes); (HSlice g_dec_types_TransactionSignature)]).
Definition g_enc_types_TransactionID : shape := (HSeq [(HFixed 32)]).
Definition g_dec_types_TransactionID : shape := (HSeq [(HFixed 32)]).
Definition g_enc_types_V1Block : shape := (HSeq [g_enc_types_BlockID; HU64; HTime; (HSlice g_enc_types_V1SiacoinOutput); (HSlice g_enc_types_Transaction)]).
Definition g_dec_types_V1Block : shape := (HSeq [g_dec_types_BlockID; HU64; HTime; (HSlice g_dec_types_V1SiacoinOutput); (HSlice g_dec_types_Transaction)]).
Definition g_enc_types_V2TransactionsMultiproof : shape := HNamed "types.V2TransactionsMultiproof".
Definition g_dec_types_V2TransactionsMultiproof : shape := HNamed "types.V2TransactionsMultiproof".
(* opaque because: enc statement for i := range prooflessTxns { prooflessTxns[i] = txns[i].DeepCopy() } | dec cannot type ( *[]V2Transaction)(txns) *)
Definition g_enc_types_V2BlockData : shape := (HSeq [HU64; g_enc_types_Hash256; g_enc_types_V2TransactionsMultiproof]).
Definition g_dec_types_V2BlockData : shape := (HSeq [HU64; g_dec_types_Hash256; g_dec_types_V2TransactionsMultiproof]).
Definition g_enc_types_V2Block : shape := (HSeq [g_enc_types_V1Block; (HPtr g_enc_types_V2BlockData)]).
Definition g_dec_types_V2Block : shape := (HSeq [g_dec_types_V1Block; (HPtr g_dec_types_V2BlockData)]).
Definition g_enc_types_V2FileContract : shape := (HSeq [HU64; HU64; g_enc_types_Hash256; HU64; HU64; g_enc_types_V2SiacoinOutput; g_enc_types_V2SiacoinOutput; g_enc_types_V2Currency; g_enc_types_V2Currency; g_enc_types_PublicKey; g_enc_types_PublicKey; HU64; g_enc_types_Signature; g_enc_types_Signature]).
Definition g_dec_types_V2FileContract : shape := (HSeq [HU64; HU64; g_dec_types_Hash256; HU64; HU64; g_dec_types_V2SiacoinOutput; g_dec_types_V2SiacoinOutput; g_dec_types_V2Currency; g_dec_types_V2Currency; g_dec_types_PublicKey; g_dec_types_PublicKey; HU64; g_dec_types_Signature; g_dec_types_Signature]).
Definition g_enc_types_V2FileContractElement : shape := (HSeq [g_enc_types_StateElement; g_enc_types_FileContractID; g_enc_types_V2FileContract]).
Definition g_dec_types_V2FileContractElement : shape := (HSeq [g_dec_types_StateElement; g_dec_types_FileContractID; g_dec_types_V2FileContract]).
Definition g_enc_types_V2FileContractExpiration : shape := (HSeq []).
Definition g_dec_types_V2FileContractExpiration : shape := (HSeq []).
Definition g_enc_types_V2FileContractRenewal : shape := (HSeq [g_enc_types_V2SiacoinOutput; g_enc_types_V2SiacoinOutput; g_enc_types_V2Currency; g_enc_types_V2Currency; g_enc_types_V2FileContract; g_enc_types_Signature; g_enc_types_Signature]).
Definition g_dec_types_V2FileContractRenewal : shape := (HSeq [g_dec_types_V2SiacoinOutput; g_dec_types_V2SiacoinOutput; g_dec_types_V2Currency; g_dec_types_V2Currency; g_dec_types_V2FileContract; g_dec_types_Signature; g_dec_types_Signature]).
Definition g_enc_types_V2FileContractResolution : shape := HNamed "types.V2FileContractResolution".
Definition g_dec_types_V2FileContractResolution : shape := HNamed "types.V2FileContractResolution".
(* opaque because: enc statement switch r := res.Resolution.(type) { case *V2FileContractRenewal: e.WriteUint8(0) case *V2StorageProof: e.WriteUint8(1) case *V2FileContractExpiration: e.WriteUint8(2) default: panic(fmt.Sprintf("unhandled resolution type %T", r)) } | dec statement switch t := d.ReadUint8(); t { case 0: res.Resolution = new(V2FileContractRenewal) case 1: res.Resolution = new(V2StorageProof) case 2: res.Resolution = new(V2FileContractExpiration) default: d.SetErr(fmt.Errorf("unknown resolution type %d", t)) return } *)
Definition g_enc_types_V2FileContractRevision : shape := (HSeq [g_enc_types_V2FileContractElement; g_enc_types_V2FileContract]).
Definition g_dec_types_V2FileContractRevision : shape := (HSeq [g_dec_types_V2FileContractElement; g_dec_types_V2FileContract]).
Definition g_enc_types_V2SiacoinInput : shape := (HSeq [g_enc_types_SiacoinElement; g_enc_types_SatisfiedPolicy]).
Definition g_dec_types_V2SiacoinInput : shape := (HSeq [g_dec_types_SiacoinElement; g_dec_types_SatisfiedPolicy]).
Definition g_enc_types_V2SiafundInput : shape := (HSeq [g_enc_types_SiafundElement; g_enc_types_Address; g_enc_types_SatisfiedPolicy]).
Definition g_dec_types_V2SiafundInput : shape := (HSeq [g_dec_types_SiafundElement; g_dec_types_Address; g_dec_types_SatisfiedPolicy]).
Definition g_enc_types_V2StorageProof : shape := (HSeq [g_enc_types_ChainIndexElement; (HFixed 64); (HSlice g_enc_types_Hash256)]).
Definition g_dec_types_V2StorageProof : shape := (HSeq [g_dec_types_ChainIndexElement; (HFixed 64); (HSlice g_dec_types_Hash256)]).
Definition g_enc_types_V2Transaction : shape := HNamed "types.V2Transaction".
Definition g_dec_types_V2Transaction : shape := HNamed "types.V2Transaction".
(* opaque because: enc statement for i, b := range [...]bool{ len(txn.SiacoinInputs) != 0, len(txn.SiacoinOutputs) != 0, len(txn.SiafundInputs) != 0, len(txn.SiafundOutputs) != 0, len(txn.FileContracts) != 0, len(txn.FileContractRevisions) != 0, len(txn.FileContractResolutions) != 0, len(txn.Attestations) != 0, len(txn.ArbitraryData) != 0, txn.NewFoundationAddress != nil, !txn.MinerFee.IsZero(), } { if b { fields |= 1 << i } } | dec statement if version := d.ReadUint8(); version != 2 { d.SetErr(fmt.Errorf("unsupported transaction version (%v)", version)) return } *)
Definition g_enc_types_V2TransactionSemantics : shape := HNamed "types.V2TransactionSemantics".
Definition g_dec_types_V2TransactionSemantics : shape := HNamed "types.V2TransactionSemantics".
(* opaque because: enc statement nilSigs(&fc.RenterSignature, &fc.HostSignature) | dec statement nilSigs(&fc.RenterSignature, &fc.HostSignature) *)
Definition g_enc_consensus_ElementAccumulator : shape := HNamed "consensus.ElementAccumulator".
Definition g_dec_consensus_ElementAccumulator : shape := HNamed "consensus.ElementAccumulator".
(* opaque because: enc statement for i, root := range acc.Trees { if acc.hasTreeAtHeight(i) { types.Hash256(root).EncodeTo(e) } } | dec statement for i := range acc.Trees { if acc.hasTreeAtHeight(i) { ( *types.Hash256)(&acc.Trees[i]).DecodeFrom(d) } } *)
Definition g_enc_consensus_Work : shape := (HSeq [(HFixed 32)]).
Definition g_dec_consensus_Work : shape := (HSeq [(HFixed 32)]).
Definition g_enc_consensus_State : shape := HNamed "consensus.State".
Definition g_dec_consensus_State : shape := HNamed "consensus.State".
(* opaque because: enc statement for _, ts := range s.PrevTimestamps[:s.numTimestamps()] { e.WriteTime(ts) } | dec statement for i := range s.PrevTimestamps[:s.numTimestamps()] { s.PrevTimestamps[i] = d.ReadTime() } *)
Definition g_enc_consensus_V1StorageProofSupplement : shape := (HSeq [g_enc_types_FileContractElement; g_enc_types_BlockID]).
Definition g_dec_consensus_V1StorageProofSupplement : shape := (HSeq [g_dec_types_FileContractElement; g_dec_types_BlockID]).
Definition g_enc_consensus_V1TransactionSupplement : shape := (HSeq [(HSlice g_enc_types_SiacoinElement); (HSlice g_enc_types_SiafundElement); (HSlice g_enc_types_FileContractElement); (HSlice g_enc_consensus_V1StorageProofSupplement)]).
Definition g_dec_consensus_V1TransactionSupplement : shape := (HSeq [(HSlice g_dec_types_SiacoinElement); (HSlice g_dec_types_SiafundElement); (HSlice g_dec_types_FileContractElement); (HSlice g_dec_consensus_V1StorageProofSupplement)]).
Definition g_enc_consensus_V1BlockSupplement : shape := (HSeq [(HSlice g_enc_consensus_V1TransactionSupplement); (HSlice g_enc_types_FileContractElement)]).
Definition g_dec_consensus_V1BlockSupplement : shape := (HSeq [(HSlice g_dec_consensus_V1TransactionSupplement); (HSlice g_dec_types_FileContractElement)]).
Definition g_enc_rhp_v2_Challenge : shape := (HSeq [(HFixed 16)]).
Definition g_dec_rhp_v2_Challenge : shape := (HSeq [(HFixed 16)]).
Definition g_enc_rhp_v2_RPCError : shape := (HSeq [g_enc_types_Specifier; HBytes; HBytes]).
Definition g_dec_rhp_v2_RPCError : shape := (HSeq [g_dec_types_Specifier; HBytes; HBytes]).
Definition g_enc_rhp_v2_RPCFormContractAdditions : shape := (HSeq [(HSlice g_enc_types_Transaction); (HSlice g_enc_types_SiacoinInput); (HSlice g_enc_types_V1SiacoinOutput)]).
Definition g_dec_rhp_v2_RPCFormContractAdditions : shape := (HSeq [(HSlice g_dec_types_Transaction); (HSlice g_dec_types_SiacoinInput); (HSlice g_dec_types_V1SiacoinOutput)]).
Definition g_enc_rhp_v2_RPCFormContractRequest : shape := (HSeq [(HSlice g_enc_types_Transaction); g_enc_types_UnlockKey]).
Definition g_dec_rhp_v2_RPCFormContractRequest : shape := (HSeq [(HSlice g_dec_types_Transaction); g_dec_types_UnlockKey]).
Definition g_enc_rhp_v2_RPCFormContractSignatures : shape := (HSeq [(HSlice g_enc_types_TransactionSignature); g_enc_types_TransactionSignature]).
Definition g_dec_rhp_v2_RPCFormContractSignatures : shape := (HSeq [(HSlice g_dec_types_TransactionSignature); g_dec_types_TransactionSignature]).
Definition g_enc_rhp_v2_RPCLockRequest : shape := (HSeq [g_enc_types_FileContractID; HBytes; HU64]).
Definition g_dec_rhp_v2_RPCLockRequest : shape := (HSeq [g_dec_types_FileContractID; HBytes; HU64]).
Definition g_enc_rhp_v2_RPCLockResponse : shape := (HSeq [HBool; g_enc_rhp_v2_Challenge; g_enc_types_FileContractRevision; (HSlice g_enc_types_TransactionSignature)]).
Definition g_dec_rhp_v2_RPCLockResponse : shape := (HSeq [HBool; g_dec_rhp_v2_Challenge; g_dec_types_FileContractRevision; (HSlice g_dec_types_TransactionSignature)]).
Definition g_enc_rhp_v2_RPCReadRequest : shape := HNamed "rhp/v2.RPCReadRequest".
Definition g_dec_rhp_v2_RPCReadRequest : shape := HNamed "rhp/v2.RPCReadRequest".
(* opaque because: enc  | dec cannot type s.MerkleRoot *)
Definition g_enc_rhp_v2_RPCReadResponse : shape := HNamed "rhp/v2.RPCReadResponse".
Definition g_dec_rhp_v2_RPCReadResponse : shape := HNamed "rhp/v2.RPCReadResponse".
(* opaque because: enc  | dec statement append(r.Data[:0], d.ReadBytes()...) *)
Definition g_enc_rhp_v2_RPCRenewAndClearContractRequest : shape := (HSeq [(HSlice g_enc_types_Transaction); g_enc_types_UnlockKey; (HSlice g_enc_types_V1Currency); (HSlice g_enc_types_V1Currency)]).
Definition g_dec_rhp_v2_RPCRenewAndClearContractRequest : shape := (HSeq [(HSlice g_dec_types_Transaction); g_dec_types_UnlockKey; (HSlice g_dec_types_V1Currency); (HSlice g_dec_types_V1Currency)]).
Definition g_enc_rhp_v2_RPCRenewAndClearContractSignatures : shape := (HSeq [(HSlice g_enc_types_TransactionSignature); g_enc_types_TransactionSignature; HBytes]).
Definition g_dec_rhp_v2_RPCRenewAndClearContractSignatures : shape := (HSeq [(HSlice g_dec_types_TransactionSignature); g_dec_types_TransactionSignature; HBytes]).
Definition g_enc_rhp_v2_RPCSectorRootsRequest : shape := (HSeq [HU64; HU64; HU64; (HSlice g_enc_types_V1Currency); (HSlice g_enc_types_V1Currency); HBytes]).
Definition g_dec_rhp_v2_RPCSectorRootsRequest : shape := (HSeq [HU64; HU64; HU64; (HSlice g_dec_types_V1Currency); (HSlice g_dec_types_V1Currency); HBytes]).
Definition g_enc_rhp_v2_RPCSectorRootsResponse : shape := (HSeq [HBytes; (HSlice g_enc_types_Hash256); (HSlice g_enc_types_Hash256)]).
Definition g_dec_rhp_v2_RPCSectorRootsResponse : shape := (HSeq [HBytes; (HSlice g_dec_types_Hash256); (HSlice g_dec_types_Hash256)]).
Definition g_enc_rhp_v2_RPCSettingsResponse : shape := (HSeq [HBytes]).
Definition g_dec_rhp_v2_RPCSettingsResponse : shape := (HSeq [HBytes]).
Definition g_enc_rhp_v2_RPCWriteMerkleProof : shape := (HSeq [(HSlice g_enc_types_Hash256); (HSlice g_enc_types_Hash256); g_enc_types_Hash256]).
Definition g_dec_rhp_v2_RPCWriteMerkleProof : shape := (HSeq [(HSlice g_dec_types_Hash256); (HSlice g_dec_types_Hash256); g_dec_types_Hash256]).
Definition g_enc_rhp_v2_RPCWriteRequest : shape := HNamed "rhp/v2.RPCWriteRequest".
Definition g_dec_rhp_v2_RPCWriteRequest : shape := HNamed "rhp/v2.RPCWriteRequest".
(* opaque because: enc  | dec cannot type a.Type *)
Definition g_enc_rhp_v2_RPCWriteResponse : shape := (HSeq [HBytes]).
Definition g_dec_rhp_v2_RPCWriteResponse : shape := (HSeq [HBytes]).
Definition g_enc_rhp_v2_loopKeyExchangeRequest : shape := HNamed "rhp/v2.loopKeyExchangeRequest".
Definition g_dec_rhp_v2_loopKeyExchangeRequest : shape := HNamed "rhp/v2.loopKeyExchangeRequest".
(* opaque because: enc cannot type loopEnter | dec cannot type new(types.Specifier) *)
Definition g_enc_rhp_v2_loopKeyExchangeResponse : shape := (HSeq [(HFixed 32); HBytes; g_enc_types_Specifier]).
Definition g_dec_rhp_v2_loopKeyExchangeResponse : shape := (HSeq [(HFixed 32); HBytes; g_dec_types_Specifier]).
Definition g_enc_rhp_v2_rpcResponse : shape := HNamed "rhp/v2.rpcResponse".
Definition g_dec_rhp_v2_rpcResponse : shape := HNamed "rhp/v2.rpcResponse".
(* opaque because: enc statement if resp.err != nil { resp.err.EncodeTo(e) return } | dec statement if d.ReadBool() { resp.err = new(RPCError) resp.err.DecodeFrom(d) return } *)
Definition g_enc_rhp_v3_Account : shape := HNamed "rhp/v3.Account".
Definition g_dec_rhp_v3_Account : shape := HNamed "rhp/v3.Account".
(* opaque because: enc statement if *a != ZeroAccount { uk.Algorithm = types.SpecifierEd25519 uk.Key = a[:] } | dec statement if spk.Algorithm == (types.Specifier{}) && len(spk.Key) == 0 { *a = ZeroAccount return } else if spk.Algorithm != types.SpecifierEd25519 { d.SetErr(fmt.Errorf("unsupported signature algorithm: %v", spk.Algorithm)) return } *)
Definition g_enc_rhp_v3_FundAccountReceipt : shape := (HSeq [g_enc_types_UnlockKey; g_enc_rhp_v3_Account; g_enc_types_V1Currency; HTime]).
Definition g_dec_rhp_v3_FundAccountReceipt : shape := (HSeq [g_dec_types_UnlockKey; g_dec_rhp_v3_Account; g_dec_types_V1Currency; HTime]).
Definition g_enc_rhp_v3_InstrAppendSector : shape := (HSeq [HU64; HBool]).
Definition g_dec_rhp_v3_InstrAppendSector : shape := (HSeq [HU64; HBool]).
Definition g_enc_rhp_v3_InstrAppendSectorRoot : shape := (HSeq [HU64; HBool]).
Definition g_dec_rhp_v3_InstrAppendSectorRoot : shape := (HSeq [HU64; HBool]).
Definition g_enc_rhp_v3_InstrDropSectors : shape := (HSeq [HU64; HBool]).
Definition g_dec_rhp_v3_InstrDropSectors : shape := (HSeq [HU64; HBool]).
Definition g_enc_rhp_v3_InstrHasSector : shape := (HSeq [HU64]).
Definition g_dec_rhp_v3_InstrHasSector : shape := (HSeq [HU64]).
Definition g_enc_rhp_v3_InstrReadOffset : shape := (HSeq [HU64; HU64; HBool]).
Definition g_dec_rhp_v3_InstrReadOffset : shape := (HSeq [HU64; HU64; HBool]).
Definition g_enc_rhp_v3_InstrReadRegistry : shape := (HSeq [HU64; HU64; HU64; HU8]).
Definition g_dec_rhp_v3_InstrReadRegistry : shape := (HSeq [HU64; HU64; HU64; HU8]).
Definition g_enc_rhp_v3_InstrReadRegistryNoVersion : shape := (HSeq [HU64; HU64; HU64]).
Definition g_dec_rhp_v3_InstrReadRegistryNoVersion : shape := (HSeq [HU64; HU64; HU64]).
Definition g_enc_rhp_v3_InstrReadSector : shape := (HSeq [HU64; HU64; HU64; HBool]).
Definition g_dec_rhp_v3_InstrReadSector : shape := (HSeq [HU64; HU64; HU64; HBool]).
Definition g_enc_rhp_v3_InstrRevision : shape := (HSeq []).
Definition g_dec_rhp_v3_InstrRevision : shape := (HSeq []).
Definition g_enc_rhp_v3_InstrStoreSector : shape := (HSeq [HU64; HU64]).
Definition g_dec_rhp_v3_InstrStoreSector : shape := (HSeq [HU64; HU64]).
Definition g_enc_rhp_v3_InstrSwapSector : shape := (HSeq [HU64; HU64; HBool]).
Definition g_dec_rhp_v3_InstrSwapSector : shape := (HSeq [HU64; HU64; HBool]).
Definition g_enc_rhp_v3_InstrUpdateRegistry : shape := (HSeq [HU64; HU64; HU64; HU64; HU64; HU64; HU64; HU8]).
Definition g_dec_rhp_v3_InstrUpdateRegistry : shape := (HSeq [HU64; HU64; HU64; HU64; HU64; HU64; HU64; HU8]).
Definition g_enc_rhp_v3_InstrUpdateRegistryNoType : shape := (HSeq [HU64; HU64; HU64; HU64; HU64; HU64; HU64]).
Definition g_dec_rhp_v3_InstrUpdateRegistryNoType : shape := (HSeq [HU64; HU64; HU64; HU64; HU64; HU64; HU64]).
Definition g_enc_rhp_v3_InstrUpdateSector : shape := (HSeq [HU64; HU64; HU64; HBool]).
Definition g_dec_rhp_v3_InstrUpdateSector : shape := (HSeq [HU64; HU64; HU64; HBool]).
Definition g_enc_rhp_v3_PayByContractRequest : shape := (HSeq [g_enc_types_FileContractID; HU64; (HSlice g_enc_types_V1Currency); (HSlice g_enc_types_V1Currency); g_enc_rhp_v3_Account; HBytes]).
Definition g_dec_rhp_v3_PayByContractRequest : shape := (HSeq [g_dec_types_FileContractID; HU64; (HSlice g_dec_types_V1Currency); (HSlice g_dec_types_V1Currency); g_dec_rhp_v3_Account; HBytes]).
Definition g_enc_rhp_v3_PayByEphemeralAccountRequest : shape := (HSeq [g_enc_rhp_v3_Account; HU64; g_enc_types_V1Currency; (HFixed 8); g_enc_types_Signature; HU64]).
Definition g_dec_rhp_v3_PayByEphemeralAccountRequest : shape := (HSeq [g_dec_rhp_v3_Account; HU64; g_dec_types_V1Currency; (HFixed 8); g_dec_types_Signature; HU64]).
Definition g_enc_rhp_v3_PaymentResponse : shape := (HSeq [g_enc_types_Signature]).
Definition g_dec_rhp_v3_PaymentResponse : shape := (HSeq [g_dec_types_Signature]).
Definition g_enc_rhp_v3_RPCAccountBalanceRequest : shape := (HSeq [g_enc_rhp_v3_Account]).
Definition g_dec_rhp_v3_RPCAccountBalanceRequest : shape := (HSeq [g_dec_rhp_v3_Account]).
Definition g_enc_rhp_v3_RPCAccountBalanceResponse : shape := (HSeq [g_enc_types_V1Currency]).
Definition g_dec_rhp_v3_RPCAccountBalanceResponse : shape := (HSeq [g_dec_types_V1Currency]).
Definition g_enc_rhp_v3_RPCError : shape := (HSeq [g_enc_types_Specifier; HBytes; HBytes]).
Definition g_dec_rhp_v3_RPCError : shape := (HSeq [g_dec_types_Specifier; HBytes; HBytes]).
Definition g_enc_rhp_v3_RPCExecuteProgramRequest : shape := HNamed "rhp/v3.RPCExecuteProgramRequest".
Definition g_dec_rhp_v3_RPCExecuteProgramRequest : shape := HNamed "rhp/v3.RPCExecuteProgramRequest".
(* opaque because: enc cannot type instructionID(instr) | dec statement instructionForID(id, d.ReadUint64()) *)
Definition g_enc_rhp_v3_RPCExecuteProgramResponse : shape := HNamed "rhp/v3.RPCExecuteProgramResponse".
Definition g_dec_rhp_v3_RPCExecuteProgramResponse : shape := HNamed "rhp/v3.RPCExecuteProgramResponse".
(* opaque because: enc statement if r.Error != nil { errString = r.Error.Error() } | dec statement if s := d.ReadString(); s != "" { r.Error = errors.New(s) } *)
Definition g_enc_rhp_v3_RPCFinalizeProgramRequest : shape := (HSeq [HBytes; HU64; (HSlice g_enc_types_V1Currency); (HSlice g_enc_types_V1Currency)]).
Definition g_dec_rhp_v3_RPCFinalizeProgramRequest : shape := (HSeq [HBytes; HU64; (HSlice g_dec_types_V1Currency); (HSlice g_dec_types_V1Currency)]).
Definition g_enc_rhp_v3_RPCFinalizeProgramResponse : shape := (HSeq [HBytes]).
Definition g_dec_rhp_v3_RPCFinalizeProgramResponse : shape := (HSeq [HBytes]).
Definition g_enc_rhp_v3_RPCFundAccountRequest : shape := (HSeq [g_enc_rhp_v3_Account]).
Definition g_dec_rhp_v3_RPCFundAccountRequest : shape := (HSeq [g_dec_rhp_v3_Account]).
Definition g_enc_rhp_v3_RPCFundAccountResponse : shape := (HSeq [g_enc_types_V1Currency; g_enc_rhp_v3_FundAccountReceipt; g_enc_types_Signature]).
Definition g_dec_rhp_v3_RPCFundAccountResponse : shape := (HSeq [g_dec_types_V1Currency; g_dec_rhp_v3_FundAccountReceipt; g_dec_types_Signature]).
Definition g_enc_rhp_v3_RPCLatestRevisionRequest : shape := (HSeq [g_enc_types_FileContractID]).
Definition g_dec_rhp_v3_RPCLatestRevisionRequest : shape := (HSeq [g_dec_types_FileContractID]).
Definition g_enc_rhp_v3_RPCLatestRevisionResponse : shape := (HSeq [g_enc_types_FileContractRevision]).
Definition g_dec_rhp_v3_RPCLatestRevisionResponse : shape := (HSeq [g_dec_types_FileContractRevision]).
Definition g_enc_rhp_v3_RPCPriceTableResponse : shape := (HSeq []).
Definition g_dec_rhp_v3_RPCPriceTableResponse : shape := (HSeq []).
Definition g_enc_rhp_v3_RPCRenewContractHostAdditions : shape := (HSeq [(HSlice g_enc_types_Transaction); (HSlice g_enc_types_SiacoinInput); (HSlice g_enc_types_V1SiacoinOutput); g_enc_types_Signature]).
Definition g_dec_rhp_v3_RPCRenewContractHostAdditions : shape := (HSeq [(HSlice g_dec_types_Transaction); (HSlice g_dec_types_SiacoinInput); (HSlice g_dec_types_V1SiacoinOutput); g_dec_types_Signature]).
Definition g_enc_rhp_v3_RPCRenewContractRequest : shape := (HSeq [(HSlice g_enc_types_Transaction); g_enc_types_UnlockKey; g_enc_types_Signature]).
Definition g_dec_rhp_v3_RPCRenewContractRequest : shape := (HSeq [(HSlice g_dec_types_Transaction); g_dec_types_UnlockKey; g_dec_types_Signature]).
Definition g_enc_rhp_v3_RPCRenewSignatures : shape := (HSeq [(HSlice g_enc_types_TransactionSignature); g_enc_types_TransactionSignature]).
Definition g_dec_rhp_v3_RPCRenewSignatures : shape := (HSeq [(HSlice g_dec_types_TransactionSignature); g_dec_types_TransactionSignature]).
Definition g_enc_rhp_v3_RPCUpdatePriceTableResponse : shape := (HSeq [HBytes]).
Definition g_dec_rhp_v3_RPCUpdatePriceTableResponse : shape := (HSeq [HBytes]).
Definition g_enc_rhp_v3_SettingsID : shape := (HSeq [(HFixed 16)]).
Definition g_dec_rhp_v3_SettingsID : shape := (HSeq [(HFixed 16)]).
Definition g_enc_rhp_v3_rpcResponse : shape := HNamed "rhp/v3.rpcResponse".
Definition g_dec_rhp_v3_rpcResponse : shape := HNamed "rhp/v3.rpcResponse".
(* opaque because: enc statement if resp.err != nil { resp.err.EncodeTo(e) return } | dec statement if d.ReadBool() { resp.err = new(RPCError) resp.err.DecodeFrom(d) return } *)
Definition g_enc_rhp_v4_Account : shape := (HSeq [(HFixed 32)]).
Definition g_dec_rhp_v4_Account : shape := (HSeq [(HFixed 32)]).
Definition g_enc_rhp_v4_AccountDeposit : shape := (HSeq [g_enc_rhp_v4_Account; g_enc_types_V2Currency]).
Definition g_dec_rhp_v4_AccountDeposit : shape := (HSeq [g_dec_rhp_v4_Account; g_dec_types_V2Currency]).
Definition g_enc_rhp_v4_HostPrices : shape := (HSeq [g_enc_types_V2Currency; g_enc_types_V2Currency; g_enc_types_V2Currency; g_enc_types_V2Currency; g_enc_types_V2Currency; g_enc_types_V2Currency; HU64; HTime; g_enc_types_Signature]).
Definition g_dec_rhp_v4_HostPrices : shape := (HSeq [g_dec_types_V2Currency; g_dec_types_V2Currency; g_dec_types_V2Currency; g_dec_types_V2Currency; g_dec_types_V2Currency; g_dec_types_V2Currency; HU64; HTime; g_dec_types_Signature]).
Definition g_enc_rhp_v4_HostSettings : shape := (HSeq [(HFixed 3); HBytes; g_enc_types_Address; HBool; g_enc_types_V2Currency; HU64; HU64; HU64; g_enc_rhp_v4_HostPrices]).
Definition g_dec_rhp_v4_HostSettings : shape := (HSeq [(HFixed 3); HBytes; g_dec_types_Address; HBool; g_dec_types_V2Currency; HU64; HU64; HU64; g_dec_rhp_v4_HostPrices]).
Definition g_enc_rhp_v4_PoolAttachment : shape := (HSeq [g_enc_rhp_v4_Account; g_enc_rhp_v4_Account; HTime; g_enc_types_Signature]).
Definition g_dec_rhp_v4_PoolAttachment : shape := (HSeq [g_dec_rhp_v4_Account; g_dec_rhp_v4_Account; HTime; g_dec_types_Signature]).
Definition g_enc_rhp_v4_PoolDetachment : shape := (HSeq [g_enc_rhp_v4_Account; g_enc_rhp_v4_Account; HTime; g_enc_types_Signature]).
Definition g_dec_rhp_v4_PoolDetachment : shape := (HSeq [g_dec_rhp_v4_Account; g_dec_rhp_v4_Account; HTime; g_dec_types_Signature]).

Definition golden_types : list (string * shape * shape) := [
  ("types.Address", g_enc_types_Address, g_dec_types_Address);
  ("types.PublicKey", g_enc_types_PublicKey, g_dec_types_PublicKey);
  ("types.Signature", g_enc_types_Signature, g_dec_types_Signature);
  ("types.Attestation", g_enc_types_Attestation, g_dec_types_Attestation);
  ("types.AttestationID", g_enc_types_AttestationID, g_dec_types_AttestationID);
  ("types.BlockID", g_enc_types_BlockID, g_dec_types_BlockID);
  ("types.Hash256", g_enc_types_Hash256, g_dec_types_Hash256);
  ("types.BlockHeader", g_enc_types_BlockHeader, g_dec_types_BlockHeader);
  ("types.ChainIndex", g_enc_types_ChainIndex, g_dec_types_ChainIndex);
  ("types.StateElement", g_enc_types_StateElement, g_dec_types_StateElement);
  ("types.ChainIndexElement", g_enc_types_ChainIndexElement, g_dec_types_ChainIndexElement);
  ("types.CoveredFields", g_enc_types_CoveredFields, g_dec_types_CoveredFields);
  ("types.V1SiacoinOutput", g_enc_types_V1SiacoinOutput, g_dec_types_V1SiacoinOutput);
  ("types.FileContract", g_enc_types_FileContract, g_dec_types_FileContract);
  ("types.FileContractID", g_enc_types_FileContractID, g_dec_types_FileContractID);
  ("types.FileContractElement", g_enc_types_FileContractElement, g_dec_types_FileContractElement);
  ("types.Specifier", g_enc_types_Specifier, g_dec_types_Specifier);
  ("types.UnlockKey", g_enc_types_UnlockKey, g_dec_types_UnlockKey);
  ("types.UnlockConditions", g_enc_types_UnlockConditions, g_dec_types_UnlockConditions);
  ("types.FileContractRevision", g_enc_types_FileContractRevision, g_dec_types_FileContractRevision);
  ("types.FoundationAddressUpdate", g_enc_types_FoundationAddressUpdate, g_dec_types_FoundationAddressUpdate);
  ("types.SatisfiedPolicy", g_enc_types_SatisfiedPolicy, g_dec_types_SatisfiedPolicy);
  ("types.SiacoinOutputID", g_enc_types_SiacoinOutputID, g_dec_types_SiacoinOutputID);
  ("types.V2Currency", g_enc_types_V2Currency, g_dec_types_V2Currency);
  ("types.V2SiacoinOutput", g_enc_types_V2SiacoinOutput, g_dec_types_V2SiacoinOutput);
  ("types.SiacoinElement", g_enc_types_SiacoinElement, g_dec_types_SiacoinElement);
  ("types.SiacoinInput", g_enc_types_SiacoinInput, g_dec_types_SiacoinInput);
  ("types.SiafundOutputID", g_enc_types_SiafundOutputID, g_dec_types_SiafundOutputID);
  ("types.V2SiafundOutput", g_enc_types_V2SiafundOutput, g_dec_types_V2SiafundOutput);
  ("types.SiafundElement", g_enc_types_SiafundElement, g_dec_types_SiafundElement);
  ("types.SiafundInput", g_enc_types_SiafundInput, g_dec_types_SiafundInput);
  ("types.StorageProof", g_enc_types_StorageProof, g_dec_types_StorageProof);
  ("types.TransactionSignature", g_enc_types_TransactionSignature, g_dec_types_TransactionSignature);
  ("types.txnSansSigs", g_enc_types_txnSansSigs, g_dec_types_txnSansSigs);
  ("types.Transaction", g_enc_types_Transaction, g_dec_types_Transaction);
  ("types.TransactionID", g_enc_types_TransactionID, g_dec_types_TransactionID);
  ("types.V1Block", g_enc_types_V1Block, g_dec_types_V1Block);
  ("types.V2BlockData", g_enc_types_V2BlockData, g_dec_types_V2BlockData);
  ("types.V2Block", g_enc_types_V2Block, g_dec_types_V2Block);
  ("types.V2FileContract", g_enc_types_V2FileContract, g_dec_types_V2FileContract);
  ("types.V2FileContractElement", g_enc_types_V2FileContractElement, g_dec_types_V2FileContractElement);
  ("types.V2FileContractExpiration", g_enc_types_V2FileContractExpiration, g_dec_types_V2FileContractExpiration);
  ("types.V2FileContractRenewal", g_enc_types_V2FileContractRenewal, g_dec_types_V2FileContractRenewal);
  ("types.V2FileContractRevision", g_enc_types_V2FileContractRevision, g_dec_types_V2FileContractRevision);
  ("types.V2SiacoinInput", g_enc_types_V2SiacoinInput, g_dec_types_V2SiacoinInput);
  ("types.V2SiafundInput", g_enc_types_V2SiafundInput, g_dec_types_V2SiafundInput);
  ("types.V2StorageProof", g_enc_types_V2StorageProof, g_dec_types_V2StorageProof);
  ("consensus.Work", g_enc_consensus_Work, g_dec_consensus_Work);
  ("consensus.V1StorageProofSupplement", g_enc_consensus_V1StorageProofSupplement, g_dec_consensus_V1StorageProofSupplement);
  ("consensus.V1TransactionSupplement", g_enc_consensus_V1TransactionSupplement, g_dec_consensus_V1TransactionSupplement);
  ("consensus.V1BlockSupplement", g_enc_consensus_V1BlockSupplement, g_dec_consensus_V1BlockSupplement);
  ("rhp/v2.Challenge", g_enc_rhp_v2_Challenge, g_dec_rhp_v2_Challenge);
  ("rhp/v2.RPCError", g_enc_rhp_v2_RPCError, g_dec_rhp_v2_RPCError);
  ("rhp/v2.RPCFormContractAdditions", g_enc_rhp_v2_RPCFormContractAdditions, g_dec_rhp_v2_RPCFormContractAdditions);
  ("rhp/v2.RPCFormContractRequest", g_enc_rhp_v2_RPCFormContractRequest, g_dec_rhp_v2_RPCFormContractRequest);
  ("rhp/v2.RPCFormContractSignatures", g_enc_rhp_v2_RPCFormContractSignatures, g_dec_rhp_v2_RPCFormContractSignatures);
  ("rhp/v2.RPCLockRequest", g_enc_rhp_v2_RPCLockRequest, g_dec_rhp_v2_RPCLockRequest);
  ("rhp/v2.RPCLockResponse", g_enc_rhp_v2_RPCLockResponse, g_dec_rhp_v2_RPCLockResponse);
  ("rhp/v2.RPCRenewAndClearContractRequest", g_enc_rhp_v2_RPCRenewAndClearContractRequest, g_dec_rhp_v2_RPCRenewAndClearContractRequest);
  ("rhp/v2.RPCRenewAndClearContractSignatures", g_enc_rhp_v2_RPCRenewAndClearContractSignatures, g_dec_rhp_v2_RPCRenewAndClearContractSignatures);
  ("rhp/v2.RPCSectorRootsRequest", g_enc_rhp_v2_RPCSectorRootsRequest, g_dec_rhp_v2_RPCSectorRootsRequest);
  ("rhp/v2.RPCSectorRootsResponse", g_enc_rhp_v2_RPCSectorRootsResponse, g_dec_rhp_v2_RPCSectorRootsResponse);
  ("rhp/v2.RPCSettingsResponse", g_enc_rhp_v2_RPCSettingsResponse, g_dec_rhp_v2_RPCSettingsResponse);
  ("rhp/v2.RPCWriteMerkleProof", g_enc_rhp_v2_RPCWriteMerkleProof, g_dec_rhp_v2_RPCWriteMerkleProof);
  ("rhp/v2.RPCWriteResponse", g_enc_rhp_v2_RPCWriteResponse, g_dec_rhp_v2_RPCWriteResponse);
  ("rhp/v2.loopKeyExchangeResponse", g_enc_rhp_v2_loopKeyExchangeResponse, g_dec_rhp_v2_loopKeyExchangeResponse);
  ("rhp/v3.FundAccountReceipt", g_enc_rhp_v3_FundAccountReceipt, g_dec_rhp_v3_FundAccountReceipt);
  ("rhp/v3.InstrAppendSector", g_enc_rhp_v3_InstrAppendSector, g_dec_rhp_v3_InstrAppendSector);
  ("rhp/v3.InstrAppendSectorRoot", g_enc_rhp_v3_InstrAppendSectorRoot, g_dec_rhp_v3_InstrAppendSectorRoot);
  ("rhp/v3.InstrDropSectors", g_enc_rhp_v3_InstrDropSectors, g_dec_rhp_v3_InstrDropSectors);
  ("rhp/v3.InstrHasSector", g_enc_rhp_v3_InstrHasSector, g_dec_rhp_v3_InstrHasSector);
  ("rhp/v3.InstrReadOffset", g_enc_rhp_v3_InstrReadOffset, g_dec_rhp_v3_InstrReadOffset);
  ("rhp/v3.InstrReadRegistry", g_enc_rhp_v3_InstrReadRegistry, g_dec_rhp_v3_InstrReadRegistry);
  ("rhp/v3.InstrReadRegistryNoVersion", g_enc_rhp_v3_InstrReadRegistryNoVersion, g_dec_rhp_v3_InstrReadRegistryNoVersion);
  ("rhp/v3.InstrReadSector", g_enc_rhp_v3_InstrReadSector, g_dec_rhp_v3_InstrReadSector);
  ("rhp/v3.InstrRevision", g_enc_rhp_v3_InstrRevision, g_dec_rhp_v3_InstrRevision);
  ("rhp/v3.InstrStoreSector", g_enc_rhp_v3_InstrStoreSector, g_dec_rhp_v3_InstrStoreSector);
  ("rhp/v3.InstrSwapSector", g_enc_rhp_v3_InstrSwapSector, g_dec_rhp_v3_InstrSwapSector);
  ("rhp/v3.InstrUpdateRegistry", g_enc_rhp_v3_InstrUpdateRegistry, g_dec_rhp_v3_InstrUpdateRegistry);
  ("rhp/v3.InstrUpdateRegistryNoType", g_enc_rhp_v3_InstrUpdateRegistryNoType, g_dec_rhp_v3_InstrUpdateRegistryNoType);
  ("rhp/v3.InstrUpdateSector", g_enc_rhp_v3_InstrUpdateSector, g_dec_rhp_v3_InstrUpdateSector);
  ("rhp/v3.PayByContractRequest", g_enc_rhp_v3_PayByContractRequest, g_dec_rhp_v3_PayByContractRequest);
  ("rhp/v3.PayByEphemeralAccountRequest", g_enc_rhp_v3_PayByEphemeralAccountRequest, g_dec_rhp_v3_PayByEphemeralAccountRequest);
  ("rhp/v3.PaymentResponse", g_enc_rhp_v3_PaymentResponse, g_dec_rhp_v3_PaymentResponse);
  ("rhp/v3.RPCAccountBalanceRequest", g_enc_rhp_v3_RPCAccountBalanceRequest, g_dec_rhp_v3_RPCAccountBalanceRequest);
  ("rhp/v3.RPCAccountBalanceResponse", g_enc_rhp_v3_RPCAccountBalanceResponse, g_dec_rhp_v3_RPCAccountBalanceResponse);
  ("rhp/v3.RPCError", g_enc_rhp_v3_RPCError, g_dec_rhp_v3_RPCError);
  ("rhp/v3.RPCFinalizeProgramRequest", g_enc_rhp_v3_RPCFinalizeProgramRequest, g_dec_rhp_v3_RPCFinalizeProgramRequest);
  ("rhp/v3.RPCFinalizeProgramResponse", g_enc_rhp_v3_RPCFinalizeProgramResponse, g_dec_rhp_v3_RPCFinalizeProgramResponse);
  ("rhp/v3.RPCFundAccountRequest", g_enc_rhp_v3_RPCFundAccountRequest, g_dec_rhp_v3_RPCFundAccountRequest);
  ("rhp/v3.RPCFundAccountResponse", g_enc_rhp_v3_RPCFundAccountResponse, g_dec_rhp_v3_RPCFundAccountResponse);
  ("rhp/v3.RPCLatestRevisionRequest", g_enc_rhp_v3_RPCLatestRevisionRequest, g_dec_rhp_v3_RPCLatestRevisionRequest);
  ("rhp/v3.RPCLatestRevisionResponse", g_enc_rhp_v3_RPCLatestRevisionResponse, g_dec_rhp_v3_RPCLatestRevisionResponse);
  ("rhp/v3.RPCPriceTableResponse", g_enc_rhp_v3_RPCPriceTableResponse, g_dec_rhp_v3_RPCPriceTableResponse);
  ("rhp/v3.RPCRenewContractHostAdditions", g_enc_rhp_v3_RPCRenewContractHostAdditions, g_dec_rhp_v3_RPCRenewContractHostAdditions);
  ("rhp/v3.RPCRenewContractRequest", g_enc_rhp_v3_RPCRenewContractRequest, g_dec_rhp_v3_RPCRenewContractRequest);
  ("rhp/v3.RPCRenewSignatures", g_enc_rhp_v3_RPCRenewSignatures, g_dec_rhp_v3_RPCRenewSignatures);
  ("rhp/v3.RPCUpdatePriceTableResponse", g_enc_rhp_v3_RPCUpdatePriceTableResponse, g_dec_rhp_v3_RPCUpdatePriceTableResponse);
  ("rhp/v3.SettingsID", g_enc_rhp_v3_SettingsID, g_dec_rhp_v3_SettingsID);
  ("rhp/v4.Account", g_enc_rhp_v4_Account, g_dec_rhp_v4_Account);
  ("rhp/v4.AccountDeposit", g_enc_rhp_v4_AccountDeposit, g_dec_rhp_v4_AccountDeposit);
  ("rhp/v4.HostPrices", g_enc_rhp_v4_HostPrices, g_dec_rhp_v4_HostPrices);
  ("rhp/v4.HostSettings", g_enc_rhp_v4_HostSettings, g_dec_rhp_v4_HostSettings);
  ("rhp/v4.PoolAttachment", g_enc_rhp_v4_PoolAttachment, g_dec_rhp_v4_PoolAttachment);
  ("rhp/v4.PoolDetachment", g_enc_rhp_v4_PoolDetachment, g_dec_rhp_v4_PoolDetachment)].

Definition golden_opaque : list string := [
  "types.DecoderFunc";
  "types.EncoderFunc";
  "types.V1Currency";
  "types.SpendPolicy";
  "types.V1SiafundOutput";
  "types.V2TransactionsMultiproof";
  "types.V2FileContractResolution";
  "types.V2Transaction";
  "types.V2TransactionSemantics";
  "consensus.ElementAccumulator";
  "consensus.State";
  "rhp/v2.RPCReadRequest";
  "rhp/v2.RPCReadResponse";
  "rhp/v2.RPCWriteRequest";
  "rhp/v2.loopKeyExchangeRequest";
  "rhp/v2.rpcResponse";
  "rhp/v3.Account";
  "rhp/v3.RPCExecuteProgramRequest";
  "rhp/v3.RPCExecuteProgramResponse";
  "rhp/v3.rpcResponse"].

(* struct fields and the expressions each encoder writes *)
Definition golden_fields : list (string * list string * list string) := [
  ("types.Address", [], ["a"]);
  ("types.PublicKey", [], ["pk"]);
  ("types.Signature", [], ["s"]);
  ("types.Attestation", ["PublicKey"; "Key"; "Value"; "Signature"], ["a.PublicKey"; "a.Key"; "a.Value"; "a.Signature"]);
  ("types.AttestationID", [], ["id"]);
  ("types.BlockID", [], ["id"]);
  ("types.Hash256", [], ["h"]);
  ("types.BlockHeader", ["ParentID"; "Nonce"; "Timestamp"; "Commitment"], ["h.ParentID"; "h.Nonce"; "h.Timestamp"; "h.Commitment"]);
  ("types.ChainIndex", ["Height"; "ID"], ["index.Height"; "index.ID"]);
  ("types.StateElement", ["LeafIndex"; "MerkleProof"; "shared"], ["se.LeafIndex"; "se.MerkleProof"]);
  ("types.ChainIndexElement", ["ID"; "StateElement"; "ChainIndex"], ["cie.StateElement"; "cie.ID"; "cie.ChainIndex"]);
  ("types.CoveredFields", ["WholeTransaction"; "SiacoinInputs"; "SiacoinOutputs"; "FileContracts"; "FileContractRevisions"; "StorageProofs"; "SiafundInputs"; "SiafundOutputs"; "MinerFees"; "ArbitraryData"; "Signatures"], ["cf.WholeTransaction"; "cf.SiacoinInputs"; "cf.SiacoinOutputs"; "cf.FileContracts"; "cf.FileContractRevisions"; "cf.StorageProofs"; "cf.SiafundInputs"; "cf.SiafundOutputs"; "cf.MinerFees"; "cf.ArbitraryData"; "cf.Signatures"]);
  ("types.DecoderFunc", [], []);
  ("types.EncoderFunc", [], []);
  ("types.V1Currency", ["Lo"; "Hi"], ["bytes.TrimLeft(buf[:], '\x00')"]);
  ("types.V1SiacoinOutput", ["Value"; "Address"], ["V1Currency(sco.Value)"; "sco.Address"]);
  ("types.FileContract", ["Filesize"; "FileMerkleRoot"; "WindowStart"; "WindowEnd"; "Payout"; "ValidProofOutputs"; "MissedProofOutputs"; "UnlockHash"; "RevisionNumber"], ["fc.Filesize"; "fc.FileMerkleRoot"; "fc.WindowStart"; "fc.WindowEnd"; "V1Currency(fc.Payout)"; "fc.ValidProofOutputs"; "fc.MissedProofOutputs"; "fc.UnlockHash"; "fc.RevisionNumber"]);
  ("types.FileContractID", [], ["id"]);
  ("types.FileContractElement", ["ID"; "StateElement"; "FileContract"], ["fce.StateElement"; "fce.ID"; "fce.FileContract"]);
  ("types.Specifier", [], ["s"]);
  ("types.UnlockKey", ["Algorithm"; "Key"], ["uk.Algorithm"; "uk.Key"]);
  ("types.UnlockConditions", ["Timelock"; "PublicKeys"; "SignaturesRequired"], ["uc.Timelock"; "uc.PublicKeys"; "uc.SignaturesRequired"]);
  ("types.FileContractRevision", ["ParentID"; "UnlockConditions"; "FileContract"], ["rev.ParentID"; "rev.UnlockConditions"; "rev.FileContract.RevisionNumber"; "rev.FileContract.Filesize"; "rev.FileContract.FileMerkleRoot"; "rev.FileContract.WindowStart"; "rev.FileContract.WindowEnd"; "rev.FileContract.ValidProofOutputs"; "rev.FileContract.MissedProofOutputs"; "rev.FileContract.UnlockHash"]);
  ("types.FoundationAddressUpdate", ["NewPrimary"; "NewFailsafe"], ["fau.NewPrimary"; "fau.NewFailsafe"]);
  ("types.SpendPolicy", ["Type"], ["version"]);
  ("types.SatisfiedPolicy", ["Policy"; "Signatures"; "Preimages"], ["sp.Policy"; "sp.Signatures"; "sp.Preimages"]);
  ("types.SiacoinOutputID", [], ["id"]);
  ("types.V2Currency", ["Lo"; "Hi"], ["c.Lo"; "c.Hi"]);
  ("types.V2SiacoinOutput", ["Value"; "Address"], ["V2Currency(sco.Value)"; "sco.Address"]);
  ("types.SiacoinElement", ["ID"; "StateElement"; "SiacoinOutput"; "MaturityHeight"], ["sce.StateElement"; "sce.ID"; "V2SiacoinOutput(sce.SiacoinOutput)"; "sce.MaturityHeight"]);
  ("types.SiacoinInput", ["ParentID"; "UnlockConditions"], ["in.ParentID"; "in.UnlockConditions"]);
  ("types.SiafundOutputID", [], ["id"]);
  ("types.V2SiafundOutput", ["Value"; "Address"], ["sfo.Value"; "sfo.Address"]);
  ("types.SiafundElement", ["ID"; "StateElement"; "SiafundOutput"; "ClaimStart"], ["sfe.StateElement"; "sfe.ID"; "V2SiafundOutput(sfe.SiafundOutput)"; "V2Currency(sfe.ClaimStart)"]);
  ("types.SiafundInput", ["ParentID"; "UnlockConditions"; "ClaimAddress"], ["in.ParentID"; "in.UnlockConditions"; "in.ClaimAddress"]);
  ("types.StorageProof", ["ParentID"; "Leaf"; "Proof"], ["sp.ParentID"; "sp.Leaf"; "sp.Proof"]);
  ("types.TransactionSignature", ["ParentID"; "PublicKeyIndex"; "Timelock"; "CoveredFields"; "Signature"], ["ts.ParentID"; "ts.PublicKeyIndex"; "ts.Timelock"; "ts.CoveredFields"; "ts.Signature"]);
  ("types.V1SiafundOutput", ["Value"; "Address"], ["V1Currency(NewCurrency64(sfo.Value))"; "sfo.Address"; "(V1Currency{})"]);
  ("types.txnSansSigs", ["SiacoinInputs"; "SiacoinOutputs"; "FileContracts"; "FileContractRevisions"; "StorageProofs"; "SiafundInputs"; "SiafundOutputs"; "MinerFees"; "ArbitraryData"; "Signatures"], ["txn.SiacoinInputs"; "txn.SiacoinOutputs"; "txn.FileContracts"; "txn.FileContractRevisions"; "txn.StorageProofs"; "txn.SiafundInputs"; "txn.SiafundOutputs"; "txn.MinerFees"; "txn.ArbitraryData"]);
  ("types.Transaction", ["SiacoinInputs"; "SiacoinOutputs"; "FileContracts"; "FileContractRevisions"; "StorageProofs"; "SiafundInputs"; "SiafundOutputs"; "MinerFees"; "ArbitraryData"; "Signatures"], ["txnSansSigs(txn)"; "txn.Signatures"]);
  ("types.TransactionID", [], ["id"]);
  ("types.V1Block", ["ParentID"; "Nonce"; "Timestamp"; "MinerPayouts"; "Transactions"; "V2"], ["b.ParentID"; "b.Nonce"; "b.Timestamp"; "b.MinerPayouts"; "b.Transactions"]);
  ("types.V2TransactionsMultiproof", [], ["numLeaves"]);
  ("types.V2BlockData", ["Height"; "Commitment"; "Transactions"], ["b.Height"; "b.Commitment"; "V2TransactionsMultiproof(b.Transactions)"]);
  ("types.V2Block", ["ParentID"; "Nonce"; "Timestamp"; "MinerPayouts"; "Transactions"; "V2"], ["V1Block(b)"; "b.V2"]);
  ("types.V2FileContract", ["Capacity"; "Filesize"; "FileMerkleRoot"; "ProofHeight"; "ExpirationHeight"; "RenterOutput"; "HostOutput"; "MissedHostValue"; "TotalCollateral"; "RenterPublicKey"; "HostPublicKey"; "RevisionNumber"; "RenterSignature"; "HostSignature"], ["fc.Capacity"; "fc.Filesize"; "fc.FileMerkleRoot"; "fc.ProofHeight"; "fc.ExpirationHeight"; "V2SiacoinOutput(fc.RenterOutput)"; "V2SiacoinOutput(fc.HostOutput)"; "V2Currency(fc.MissedHostValue)"; "V2Currency(fc.TotalCollateral)"; "fc.RenterPublicKey"; "fc.HostPublicKey"; "fc.RevisionNumber"; "fc.RenterSignature"; "fc.HostSignature"]);
  ("types.V2FileContractElement", ["ID"; "StateElement"; "V2FileContract"], ["fce.StateElement"; "fce.ID"; "fce.V2FileContract"]);
  ("types.V2FileContractExpiration", [], []);
  ("types.V2FileContractRenewal", ["FinalRenterOutput"; "FinalHostOutput"; "RenterRollover"; "HostRollover"; "NewContract"; "RenterSignature"; "HostSignature"], ["V2SiacoinOutput(ren.FinalRenterOutput)"; "V2SiacoinOutput(ren.FinalHostOutput)"; "V2Currency(ren.RenterRollover)"; "V2Currency(ren.HostRollover)"; "ren.NewContract"; "ren.RenterSignature"; "ren.HostSignature"]);
  ("types.V2FileContractResolution", ["Parent"; "Resolution"], ["res.Parent"]);
  ("types.V2FileContractRevision", ["Parent"; "Revision"], ["rev.Parent"; "rev.Revision"]);
  ("types.V2SiacoinInput", ["Parent"; "SatisfiedPolicy"], ["in.Parent"; "in.SatisfiedPolicy"]);
  ("types.V2SiafundInput", ["Parent"; "ClaimAddress"; "SatisfiedPolicy"], ["in.Parent"; "in.ClaimAddress"; "in.SatisfiedPolicy"]);
  ("types.V2StorageProof", ["ProofIndex"; "Leaf"; "Proof"], ["sp.ProofIndex"; "sp.Leaf"; "sp.Proof"]);
  ("types.V2Transaction", ["SiacoinInputs"; "SiacoinOutputs"; "SiafundInputs"; "SiafundOutputs"; "FileContracts"; "FileContractRevisions"; "FileContractResolutions"; "Attestations"; "ArbitraryData"; "NewFoundationAddress"; "MinerFee"], ["version"; "fields"]);
  ("types.V2TransactionSemantics", ["SiacoinInputs"; "SiacoinOutputs"; "SiafundInputs"; "SiafundOutputs"; "FileContracts"; "FileContractRevisions"; "FileContractResolutions"; "Attestations"; "ArbitraryData"; "NewFoundationAddress"; "MinerFee"], ["uint64(len(txn.SiacoinInputs))"; "txn.SiacoinInputs"; "in.Parent.ID"; "uint64(len(txn.SiacoinOutputs))"; "txn.SiacoinOutputs"; "V2SiacoinOutput(out)"; "uint64(len(txn.SiafundInputs))"; "txn.SiafundInputs"; "in.Parent.ID"; "uint64(len(txn.SiafundOutputs))"; "txn.SiafundOutputs"; "V2SiafundOutput(out)"; "uint64(len(txn.FileContracts))"; "txn.FileContracts"; "fc"; "uint64(len(txn.FileContractRevisions))"; "txn.FileContractRevisions"; "fcr.Parent.ID"; "fcr.Revision"; "uint64(len(txn.FileContractResolutions))"; "txn.FileContractResolutions"; "fcr.Parent.ID"; "uint64(len(txn.Attestations))"; "txn.Attestations"; "a"; "txn.ArbitraryData"; "txn.NewFoundationAddress"; "V2Currency(txn.MinerFee)"]);
  ("consensus.ElementAccumulator", ["Trees"; "NumLeaves"], ["acc.NumLeaves"]);
  ("consensus.Work", ["n"], ["w.n"]);
  ("consensus.State", ["Network"; "Index"; "PrevTimestamps"; "Depth"; "ChildTarget"; "SiafundTaxRevenue"; "OakTime"; "OakTarget"; "FoundationSubsidyAddress"; "FoundationManagementAddress"; "TotalWork"; "Difficulty"; "OakWork"; "Elements"; "Attestations"], ["s.Index"; "s.Depth"; "s.ChildTarget"; "types.V2Currency(s.SiafundTaxRevenue)"; "uint64(s.OakTime)"; "s.OakTarget"; "s.FoundationSubsidyAddress"; "s.FoundationManagementAddress"; "s.TotalWork"; "s.Difficulty"; "s.OakWork"; "s.Elements"; "s.Attestations"]);
  ("consensus.V1StorageProofSupplement", ["FileContract"; "WindowID"], ["sps.FileContract"; "sps.WindowID"]);
  ("consensus.V1TransactionSupplement", ["SiacoinInputs"; "SiafundInputs"; "RevisedFileContracts"; "StorageProofs"], ["ts.SiacoinInputs"; "ts.SiafundInputs"; "ts.RevisedFileContracts"; "ts.StorageProofs"]);
  ("consensus.V1BlockSupplement", ["Transactions"; "ExpiringFileContracts"], ["bs.Transactions"; "bs.ExpiringFileContracts"]);
  ("rhp/v2.Challenge", [], ["c"]);
  ("rhp/v2.RPCError", ["Type"; "Data"; "Description"], ["r.Type"; "r.Data"; "r.Description"]);
  ("rhp/v2.RPCFormContractAdditions", ["Parents"; "Inputs"; "Outputs"], ["r.Parents"; "r.Inputs"; "r.Outputs"]);
  ("rhp/v2.RPCFormContractRequest", ["Transactions"; "RenterKey"], ["r.Transactions"; "r.RenterKey"]);
  ("rhp/v2.RPCFormContractSignatures", ["ContractSignatures"; "RevisionSignature"], ["r.ContractSignatures"; "r.RevisionSignature"]);
  ("rhp/v2.RPCLockRequest", ["ContractID"; "Signature"; "Timeout"], ["r.ContractID"; "r.Signature[:]"; "r.Timeout"]);
  ("rhp/v2.RPCLockResponse", ["Acquired"; "NewChallenge"; "Revision"; "Signatures"], ["r.Acquired"; "r.NewChallenge"; "r.Revision"; "r.Signatures"]);
  ("rhp/v2.RPCReadRequest", ["Sections"; "MerkleProof"; "RevisionNumber"; "ValidProofValues"; "MissedProofValues"; "Signature"], ["r.Sections"; "r.MerkleProof"; "r.RevisionNumber"; "r.ValidProofValues"; "r.MissedProofValues"; "r.Signature[:]"]);
  ("rhp/v2.RPCReadResponse", ["Signature"; "Data"; "MerkleProof"], ["r.Signature[:]"; "r.Data"; "r.MerkleProof"]);
  ("rhp/v2.RPCRenewAndClearContractRequest", ["Transactions"; "RenterKey"; "FinalValidProofValues"; "FinalMissedProofValues"], ["r.Transactions"; "r.RenterKey"; "r.FinalValidProofValues"; "r.FinalMissedProofValues"]);
  ("rhp/v2.RPCRenewAndClearContractSignatures", ["ContractSignatures"; "RevisionSignature"; "FinalRevisionSignature"], ["r.ContractSignatures"; "r.RevisionSignature"; "r.FinalRevisionSignature[:]"]);
  ("rhp/v2.RPCSectorRootsRequest", ["RootOffset"; "NumRoots"; "RevisionNumber"; "ValidProofValues"; "MissedProofValues"; "Signature"], ["r.RootOffset"; "r.NumRoots"; "r.RevisionNumber"; "r.ValidProofValues"; "r.MissedProofValues"; "r.Signature[:]"]);
  ("rhp/v2.RPCSectorRootsResponse", ["Signature"; "SectorRoots"; "MerkleProof"], ["r.Signature[:]"; "r.SectorRoots"; "r.MerkleProof"]);
  ("rhp/v2.RPCSettingsResponse", ["Settings"], ["r.Settings"]);
  ("rhp/v2.RPCWriteMerkleProof", ["OldSubtreeHashes"; "OldLeafHashes"; "NewMerkleRoot"], ["r.OldSubtreeHashes"; "r.OldLeafHashes"; "r.NewMerkleRoot"]);
  ("rhp/v2.RPCWriteRequest", ["Actions"; "MerkleProof"; "RevisionNumber"; "ValidProofValues"; "MissedProofValues"], ["r.Actions"; "r.MerkleProof"; "r.RevisionNumber"; "r.ValidProofValues"; "r.MissedProofValues"]);
  ("rhp/v2.RPCWriteResponse", ["Signature"], ["r.Signature[:]"]);
  ("rhp/v2.loopKeyExchangeRequest", ["PublicKey"; "Ciphers"], ["r.PublicKey"; "r.Ciphers"]);
  ("rhp/v2.loopKeyExchangeResponse", ["PublicKey"; "Signature"; "Cipher"], ["r.PublicKey"; "r.Signature[:]"; "r.Cipher"]);
  ("rhp/v2.rpcResponse", ["err"; "data"], ["resp.err != nil"]);
  ("rhp/v3.Account", [], ["uk"]);
  ("rhp/v3.FundAccountReceipt", ["Host"; "Account"; "Amount"; "Timestamp"], ["r.Host"; "r.Account"; "types.V1Currency(r.Amount)"; "r.Timestamp"]);
  ("rhp/v3.InstrAppendSector", ["SectorDataOffset"; "ProofRequired"], ["i.SectorDataOffset"; "i.ProofRequired"]);
  ("rhp/v3.InstrAppendSectorRoot", ["MerkleRootOffset"; "ProofRequired"], ["i.MerkleRootOffset"; "i.ProofRequired"]);
  ("rhp/v3.InstrDropSectors", ["SectorCountOffset"; "ProofRequired"], ["i.SectorCountOffset"; "i.ProofRequired"]);
  ("rhp/v3.InstrHasSector", ["MerkleRootOffset"], ["i.MerkleRootOffset"]);
  ("rhp/v3.InstrReadOffset", ["LengthOffset"; "OffsetOffset"; "ProofRequired"], ["i.OffsetOffset"; "i.LengthOffset"; "i.ProofRequired"]);
  ("rhp/v3.InstrReadRegistry", ["PublicKeyOffset"; "PublicKeyLength"; "TweakOffset"; "Version"], ["i.PublicKeyOffset"; "i.PublicKeyLength"; "i.TweakOffset"; "i.Version"]);
  ("rhp/v3.InstrReadRegistryNoVersion", ["InstrReadRegistry"], ["i.PublicKeyOffset"; "i.PublicKeyLength"; "i.TweakOffset"]);
  ("rhp/v3.InstrReadSector", ["LengthOffset"; "OffsetOffset"; "MerkleRootOffset"; "ProofRequired"], ["i.MerkleRootOffset"; "i.OffsetOffset"; "i.LengthOffset"; "i.ProofRequired"]);
  ("rhp/v3.InstrRevision", [], []);
  ("rhp/v3.InstrStoreSector", ["DataOffset"; "Duration"], ["i.DataOffset"; "i.Duration"]);
  ("rhp/v3.InstrSwapSector", ["Sector1Offset"; "Sector2Offset"; "ProofRequired"], ["i.Sector1Offset"; "i.Sector2Offset"; "i.ProofRequired"]);
  ("rhp/v3.InstrUpdateRegistry", ["TweakOffset"; "RevisionOffset"; "SignatureOffset"; "PublicKeyOffset"; "PublicKeyLength"; "DataOffset"; "DataLength"; "EntryType"], ["i.TweakOffset"; "i.RevisionOffset"; "i.SignatureOffset"; "i.PublicKeyOffset"; "i.PublicKeyLength"; "i.DataOffset"; "i.DataLength"; "uint8(i.EntryType)"]);
  ("rhp/v3.InstrUpdateRegistryNoType", ["InstrUpdateRegistry"], ["i.TweakOffset"; "i.RevisionOffset"; "i.SignatureOffset"; "i.PublicKeyOffset"; "i.PublicKeyLength"; "i.DataOffset"; "i.DataLength"]);
  ("rhp/v3.InstrUpdateSector", ["Offset"; "Length"; "DataOffset"; "ProofRequired"], ["i.Offset"; "i.Length"; "i.DataOffset"; "i.ProofRequired"]);
  ("rhp/v3.PayByContractRequest", ["ContractID"; "RevisionNumber"; "ValidProofValues"; "MissedProofValues"; "RefundAccount"; "Signature"], ["r.ContractID"; "r.RevisionNumber"; "r.ValidProofValues"; "r.MissedProofValues"; "r.RefundAccount"; "r.Signature[:]"]);
  ("rhp/v3.PayByEphemeralAccountRequest", ["Account"; "Expiry"; "Amount"; "Nonce"; "Signature"; "Priority"], ["r.Account"; "r.Expiry"; "types.V1Currency(r.Amount)"; "r.Nonce"; "r.Signature"; "uint64(r.Priority)"]);
  ("rhp/v3.PaymentResponse", ["Signature"], ["r.Signature"]);
  ("rhp/v3.RPCAccountBalanceRequest", ["Account"], ["r.Account"]);
  ("rhp/v3.RPCAccountBalanceResponse", ["Balance"], ["types.V1Currency(r.Balance)"]);
  ("rhp/v3.RPCError", ["Type"; "Data"; "Description"], ["r.Type"; "r.Data"; "r.Description"]);
  ("rhp/v3.RPCExecuteProgramRequest", ["FileContractID"; "Program"; "ProgramData"], ["r.FileContractID"; "uint64(len(r.Program))"; "r.Program"; "buf.Bytes()"; "r.ProgramData"]);
  ("rhp/v3.RPCExecuteProgramResponse", ["AdditionalCollateral"; "OutputLength"; "NewMerkleRoot"; "NewSize"; "Proof"; "Error"; "TotalCost"; "FailureRefund"; "Output"], ["types.V1Currency(r.AdditionalCollateral)"; "r.OutputLength"; "r.NewMerkleRoot"; "r.NewSize"; "r.Proof"; "errString"; "types.V1Currency(r.TotalCost)"; "types.V1Currency(r.FailureRefund)"]);
  ("rhp/v3.RPCFinalizeProgramRequest", ["Signature"; "RevisionNumber"; "ValidProofValues"; "MissedProofValues"], ["r.Signature[:]"; "r.RevisionNumber"; "r.ValidProofValues"; "r.MissedProofValues"]);
  ("rhp/v3.RPCFinalizeProgramResponse", ["Signature"], ["r.Signature[:]"]);
  ("rhp/v3.RPCFundAccountRequest", ["Account"], ["r.Account"]);
  ("rhp/v3.RPCFundAccountResponse", ["Balance"; "Receipt"; "Signature"], ["types.V1Currency(r.Balance)"; "r.Receipt"; "r.Signature"]);
  ("rhp/v3.RPCLatestRevisionRequest", ["ContractID"], ["r.ContractID"]);
  ("rhp/v3.RPCLatestRevisionResponse", ["Revision"], ["r.Revision"]);
  ("rhp/v3.RPCPriceTableResponse", [], []);
  ("rhp/v3.RPCRenewContractHostAdditions", ["Parents"; "SiacoinInputs"; "SiacoinOutputs"; "FinalRevisionSignature"], ["r.Parents"; "r.SiacoinInputs"; "r.SiacoinOutputs"; "r.FinalRevisionSignature"]);
  ("rhp/v3.RPCRenewContractRequest", ["TransactionSet"; "RenterKey"; "FinalRevisionSignature"], ["r.TransactionSet"; "r.RenterKey"; "r.FinalRevisionSignature"]);
  ("rhp/v3.RPCRenewSignatures", ["TransactionSignatures"; "RevisionSignature"], ["r.TransactionSignatures"; "r.RevisionSignature"]);
  ("rhp/v3.RPCUpdatePriceTableResponse", ["PriceTableJSON"], ["r.PriceTableJSON"]);
  ("rhp/v3.SettingsID", [], ["s"]);
  ("rhp/v3.rpcResponse", ["err"; "data"], ["resp.err != nil"]);
  ("rhp/v4.Account", [], ["a"]);
  ("rhp/v4.AccountDeposit", ["Account"; "Amount"], ["ad.Account"; "types.V2Currency(ad.Amount)"]);
  ("rhp/v4.HostPrices", ["ContractPrice"; "Collateral"; "StoragePrice"; "IngressPrice"; "EgressPrice"; "FreeSectorPrice"; "TipHeight"; "ValidUntil"; "Signature"], ["types.V2Currency(hp.ContractPrice)"; "types.V2Currency(hp.Collateral)"; "types.V2Currency(hp.StoragePrice)"; "types.V2Currency(hp.IngressPrice)"; "types.V2Currency(hp.EgressPrice)"; "types.V2Currency(hp.FreeSectorPrice)"; "hp.TipHeight"; "hp.ValidUntil"; "hp.Signature"]);
  ("rhp/v4.HostSettings", ["ProtocolVersion"; "Release"; "WalletAddress"; "AcceptingContracts"; "MaxCollateral"; "MaxContractDuration"; "RemainingStorage"; "TotalStorage"; "Prices"], ["hs.ProtocolVersion"; "hs.Release"; "hs.WalletAddress"; "hs.AcceptingContracts"; "types.V2Currency(hs.MaxCollateral)"; "hs.MaxContractDuration"; "hs.RemainingStorage"; "hs.TotalStorage"; "hs.Prices"]);
  ("rhp/v4.PoolAttachment", ["Account"; "Pool"; "ValidUntil"; "Signature"], ["a.Account"; "a.Pool"; "a.ValidUntil"; "a.Signature"]);
  ("rhp/v4.PoolDetachment", ["Account"; "Pool"; "ValidUntil"; "Signature"], ["d.Account"; "d.Pool"; "d.ValidUntil"; "d.Signature"])].
