(* Two irregular constructions built on the generic codec, as hand-modelled fragments for it:
   - a tagged union: a fixed prefix, a one-byte tag, then the layout the tag selects
     (types.V2FileContractResolution: parent element, 0 renewal / 1 storage proof / 2 expiration);
   - a versioned, bit-masked record: a version byte, a u64 field mask, then the fields whose bit is set, in bit order
     (types.V2Transaction). The encoder sets a bit exactly when the field is not its default (empty list, empty
     bytes, zero currency; a pointer field when non-nil); the decoder reads whatever the mask announces, ignores
     bits beyond the last field, and so accepts non-canonical inputs, which re-encode canonically. *)
From Coq Require Import String.
From Coq Require Import List NArith Lia Bool PeanoNat ZifyN ZifyNat ZifyBool.
From Sia Require Import Prim.Tok Codec.Schema Codec.Canonical.
Import ListNotations.
Local Open Scope N_scope.

Section Tagged.
Variable recog : string -> bytes -> option (bytes * bytes).
Variable rvalid : string -> bytes -> Prop.
Hypothesis recog_ok : forall name b rest, rvalid name b -> recog name (b ++ rest) = Some (b, rest).
Hypothesis rvalid_nonempty : forall name b, rvalid name b -> (1 <= length b)%nat.
Hypothesis recog_extend : forall name b x r q, recog name b = Some (x, r) -> recog name (b ++ q) = Some (x, r ++ q).

(* ---------------- tagged union ---------------- *)
Section Union.
Variable pre : schema.
Variable cases : list schema.
Hypothesis pre_wf : wf pre.
Hypothesis cases_wf : Forall wf cases.

Definition enc_union (p : val) (t : nat) (x : val) : bytes := enc pre p ++ N.of_nat t :: enc (nth t cases SUnit) x.
Definition valid_union (b : bytes) : Prop :=
  exists p t x, wt rvalid pre p /\ (t < length cases)%nat /\ wt rvalid (nth t cases SUnit) x /\ b = enc_union p t x.
Definition recog_union (b : bytes) : option (bytes * bytes) :=
  match dec recog pre b with
  | Some (p, t :: r1) =>
    match nth_error cases (N.to_nat t) with
    | Some s => match dec recog s r1 with Some (x, r2) => Some (enc pre p ++ t :: enc s x, r2) | None => None end
    | None => None
    end
  | _ => None
  end.

Lemma recog_union_ok b rest : valid_union b -> recog_union (b ++ rest) = Some (b, rest).
Proof.
  intros (p & t & x & Wp & Lt & Wx & ->). unfold recog_union, enc_union. rewrite <- app_assoc. cbn [app].
  rewrite (roundtrip recog rvalid recog_ok rvalid_nonempty pre pre_wf p _ Wp). rewrite Nat2N.id.
  rewrite (nth_error_nth' cases SUnit Lt).
  assert (Ws : wf (nth t cases SUnit)) by (apply (proj1 (Forall_forall _ _) cases_wf), nth_In; exact Lt).
  rewrite (roundtrip recog rvalid recog_ok rvalid_nonempty _ Ws x rest Wx). reflexivity.
Qed.
Lemma valid_union_nonempty b : valid_union b -> (1 <= length b)%nat.
Proof. intros (p & t & x & _ & _ & _ & ->). unfold enc_union. rewrite app_length. cbn [length]. lia. Qed.
Lemma recog_union_extend b x r q : recog_union b = Some (x, r) -> recog_union (b ++ q) = Some (x, r ++ q).
Proof.
  unfold recog_union. intros E. destruct (dec recog pre b) as [[p [|t r1]]|] eqn:D; try discriminate.
  rewrite (dec_extend recog recog_extend pre _ _ _ q D). cbn [app].
  destruct (nth_error cases (N.to_nat t)) as [s|]; [|discriminate].
  destruct (dec recog s r1) as [[y r2]|] eqn:D2; [|discriminate]. inversion E; subst.
  rewrite (dec_extend recog recog_extend s _ _ _ q D2). reflexivity.
Qed.
Hypothesis recog_sound : forall name b x r, byte_okl b -> recog name b = Some (x, r) -> b = x ++ r /\ rvalid name x.
Lemma recog_union_sound b x r : byte_okl b -> recog_union b = Some (x, r) -> b = x ++ r /\ valid_union x.
Proof.
  unfold recog_union. intros O E. destruct (dec recog pre b) as [[p [|t r1]]|] eqn:D; try discriminate.
  destruct (nth_error cases (N.to_nat t)) as [s|] eqn:NE; [|discriminate].
  destruct (dec recog s r1) as [[y r2]|] eqn:D2; [|discriminate]. inversion E; subst.
  destruct (dec_canonical recog rvalid recog_sound pre _ _ _ O D) as [-> Wp].
  destruct (byte_okl_app _ _ O) as [_ O1]. inversion O1 as [|? ? Ht O2]; subst.
  destruct (dec_canonical recog rvalid recog_sound s _ _ _ O2 D2) as [-> Wy].
  split; [rewrite <- app_assoc; reflexivity|].
  assert (Lt : (N.to_nat t < length cases)%nat) by (apply nth_error_Some; rewrite NE; discriminate).
  assert (Es : nth (N.to_nat t) cases SUnit = s) by (apply nth_error_nth; exact NE).
  exists p, (N.to_nat t), y. unfold enc_union. rewrite Es, N2Nat.id. repeat split; auto.
Qed.
End Union.

(* ---------------- versioned bit-masked record ---------------- *)
Section Masked.
Variable ver : N.
(* each field: its layout and the test for "default" (not transmitted) *)
Variable fields : list (schema * (val -> bool)).
Hypothesis fields_wf : Forall (fun f => wf (fst f)) fields.

Fixpoint body (fs : list (schema * (val -> bool))) (os : list (option val)) : bytes :=
  match fs, os with
  | f :: fs', o :: os' => (match o with Some v => enc (fst f) v | None => [] end) ++ body fs' os'
  | _, _ => []
  end.
Fixpoint mask (os : list (option val)) : N :=
  match os with [] => 0 | o :: t => (match o with Some _ => 1 | None => 0 end) + 2 * mask t end.
Definition enc_masked (os : list (option val)) : bytes := ver :: le_bytes 8 (mask os) ++ body fields os.

(* a present field is well typed and not its default *)
Fixpoint wt_fields (fs : list (schema * (val -> bool))) (os : list (option val)) : Prop :=
  match fs, os with
  | [], [] => True
  | f :: fs', o :: os' => (match o with Some v => wt rvalid (fst f) v /\ snd f v = false | None => True end) /\ wt_fields fs' os'
  | _, _ => False
  end.
Definition valid_masked (b : bytes) : Prop := (length fields <= 64)%nat /\ exists os, wt_fields fields os /\ b = enc_masked os.

Fixpoint dec_fields (fs : list (schema * (val -> bool))) (m : N) (b : bytes) : option (list (option val) * bytes) :=
  match fs with
  | [] => Some ([], b)
  | f :: fs' =>
    if N.odd m then
      match dec recog (fst f) b with
      | Some (v, r) => match dec_fields fs' (m / 2) r with Some (vs, r') => Some (Some v :: vs, r') | None => None end
      | None => None
      end
    else match dec_fields fs' (m / 2) b with Some (vs, r') => Some (None :: vs, r') | None => None end
  end.
Definition dec_masked (b : bytes) : option (list (option val) * bytes) :=
  match b with
  | v :: r => if v =? ver then match take 8 r with Some (h, r1) => dec_fields fields (le_val h) r1 | None => None end else None
  | [] => None
  end.
(* what the encoder does to a decoded record: default fields are dropped *)
Fixpoint normalise (fs : list (schema * (val -> bool))) (os : list (option val)) : list (option val) :=
  match fs, os with
  | f :: fs', o :: os' => (match o with Some v => if snd f v then None else Some v | None => None end) :: normalise fs' os'
  | _, _ => []
  end.
Definition recog_masked (b : bytes) : option (bytes * bytes) :=
  match dec_masked b with Some (os, r) => Some (enc_masked (normalise fields os), r) | None => None end.

Lemma mask_odd (o : option val) t : N.odd ((match o with Some _ => 1 | None => 0 end : N) + 2 * mask t) = match o with Some _ => true | None => false end.
Proof. destruct o; [rewrite N.odd_add_mul_2 | rewrite N.add_0_l, N.odd_mul, N.odd_2]; reflexivity. Qed.
Lemma mask_half (o : option val) t : ((match o with Some _ => 1 | None => 0 end : N) + 2 * mask t) / 2 = mask t.
Proof. destruct o; lia. Qed.
Lemma mask_bound os : mask os < 2 ^ N.of_nat (length os).
Proof.
  induction os as [|o os IH]; [cbn; lia|]. cbn [mask length]. rewrite Nat2N.inj_succ, N.pow_succ_r'. destruct o; lia.
Qed.
Lemma wt_fields_length fs : forall os, wt_fields fs os -> length os = length fs.
Proof. induction fs as [|f fs IH]; intros [|o os] W; cbn in *; try tauto. f_equal. apply IH. tauto. Qed.

Lemma dec_fields_ok fs : Forall (fun f => wf (fst f)) fs -> forall os rest, wt_fields fs os ->
  dec_fields fs (mask os) (body fs os ++ rest) = Some (os, rest) /\ normalise fs os = os.
Proof.
  induction 1 as [|f fs Wf _ IH]; intros [|o os] rest W; cbn [wt_fields] in W; try (exfalso; exact W).
  - split; reflexivity.
  - destruct W as [Wo Wr]. cbn [dec_fields mask body normalise]. rewrite mask_odd, mask_half.
    destruct (IH os rest Wr) as [D N]. destruct o as [v|].
    + destruct Wo as [Wv Dv]. rewrite <- app_assoc. rewrite (roundtrip recog rvalid recog_ok rvalid_nonempty _ Wf v _ Wv).
      rewrite D, N, Dv. split; reflexivity.
    + cbn [app]. rewrite D, N. split; reflexivity.
Qed.
Lemma recog_masked_ok b rest : valid_masked b -> recog_masked (b ++ rest) = Some (b, rest).
Proof.
  intros (L64 & os & W & ->). unfold recog_masked, dec_masked, enc_masked. cbn [app]. rewrite N.eqb_refl.
  rewrite <- app_assoc, take_app by apply le_bytes_length.
  assert (B : mask os < 256 ^ N.of_nat 8).
  { pose proof (mask_bound os) as B. rewrite (wt_fields_length _ _ W) in B.
    apply N.lt_le_trans with (1 := B). change (256 ^ N.of_nat 8) with (2 ^ 64). apply N.pow_le_mono_r; lia. }
  rewrite (le_val_bytes 8 _ B). destruct (dec_fields_ok fields fields_wf os rest W) as [-> ->]. reflexivity.
Qed.
Lemma valid_masked_nonempty b : valid_masked b -> (1 <= length b)%nat.
Proof. intros (_ & os & _ & ->). unfold enc_masked. cbn [length]. lia. Qed.

Lemma dec_fields_extend fs : forall m b os r q, dec_fields fs m b = Some (os, r) -> dec_fields fs m (b ++ q) = Some (os, r ++ q).
Proof.
  induction fs as [|f fs IH]; intros m b os r q E; cbn [dec_fields] in E |- *.
  - inversion E; subst. reflexivity.
  - destruct (N.odd m).
    + destruct (dec recog (fst f) b) as [[v r1]|] eqn:D; [|discriminate].
      destruct (dec_fields fs (m / 2) r1) as [[vs r2]|] eqn:D2; [|discriminate]. inversion E; subst.
      rewrite (dec_extend recog recog_extend _ _ _ _ q D), (IH _ _ _ _ q D2). reflexivity.
    + destruct (dec_fields fs (m / 2) b) as [[vs r2]|] eqn:D2; [|discriminate]. inversion E; subst.
      rewrite (IH _ _ _ _ q D2). reflexivity.
Qed.
Lemma recog_masked_extend b x r q : recog_masked b = Some (x, r) -> recog_masked (b ++ q) = Some (x, r ++ q).
Proof.
  unfold recog_masked, dec_masked. intros E. destruct b as [|v b1]; [discriminate|]. cbn [app].
  destruct (v =? ver); [|discriminate]. destruct (take 8 b1) as [[h r1]|] eqn:T; [|discriminate].
  rewrite (take_extend _ _ _ _ q T). destruct (dec_fields fields (le_val h) r1) as [[os r2]|] eqn:D; [|discriminate].
  inversion E; subst. rewrite (dec_fields_extend _ _ _ _ _ q D). reflexivity.
Qed.
End Masked.
End Tagged.
