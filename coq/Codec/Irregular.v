(* Hand-modelled, self-delimiting fragments of the wire format: for each irregular codec a
   recogniser that splits one encoding off the front of a byte string. *)
From Coq Require Import String.
From Coq Require Import List NArith Lia Bool PeanoNat.
From Sia Require Import Prim.Tok Codec.Schema.
Import ListNotations.
Open Scope N_scope.

(* V1Currency: u64 length n <= 16, then n big-endian bytes *)
Definition recog_v1cur (b : bytes) : option (bytes * bytes) :=
  match take 8 b with
  | Some (h, r) =>
    let n := le_val h in
    if n <=? 16 then match take (N.to_nat n) r with Some (d, r') => Some (h ++ d, r') | None => None end else None
  | None => None
  end.
Definition valid_v1cur (b : bytes) : Prop :=
  exists d, (length d <= 16)%nat /\ b = le_bytes 8 (N.of_nat (length d)) ++ d.

Lemma recog_v1cur_ok b rest : valid_v1cur b -> recog_v1cur (b ++ rest) = Some (b, rest).
Proof.
  intros (d & Hl & ->). unfold recog_v1cur. rewrite <- app_assoc, take_app by apply le_bytes_length.
  rewrite (le_val_bytes 8) by (cbn; lia). destruct (N.leb_spec (N.of_nat (length d)) 16); [|lia].
  rewrite Nat2N.id, take_app by reflexivity. reflexivity.
Qed.

(* V1SiafundOutput: a V1Currency whose value fits in 64 bits, the address, and a (discarded) V1Currency *)
Definition all_zero (l : bytes) : bool := forallb (fun x => x =? 0) l.
Definition v1cur_fits64 (c : bytes) : bool :=      (* c = 8-byte prefix ++ data *)
  let d := skipn 8 c in all_zero (firstn (length d - 8) d).
Definition recog_v1sfo (b : bytes) : option (bytes * bytes) :=
  match recog_v1cur b with
  | Some (c, r) =>
    if v1cur_fits64 c then
      match take 32 r with
      | Some (a, r') => match recog_v1cur r' with Some (c2, r'') => Some (c ++ a ++ c2, r'') | None => None end
      | None => None
      end
    else None
  | None => None
  end.
Definition valid_v1sfo (b : bytes) : Prop :=
  exists c a c2, valid_v1cur c /\ v1cur_fits64 c = true /\ length a = 32%nat /\ valid_v1cur c2 /\ b = c ++ a ++ c2.
Lemma recog_v1sfo_ok b rest : valid_v1sfo b -> recog_v1sfo (b ++ rest) = Some (b, rest).
Proof.
  intros (c & a & c2 & Hc & Hf & Ha & Hc2 & ->). unfold recog_v1sfo.
  rewrite <- !app_assoc. rewrite (recog_v1cur_ok c _ Hc). rewrite Hf.
  rewrite take_app by exact Ha. rewrite (recog_v1cur_ok c2 _ Hc2). reflexivity.
Qed.

(* SpendPolicy: version byte 1, then the recursive policy encoding (depth-limited as the decoder).
   Executable recogniser; its round-trip lemma is not proved yet, so it is not part of [rvalid]. *)
Fixpoint recog_policy_body (fuel : nat) (b : bytes) : option (bytes * bytes) :=
  match fuel with
  | O => None
  | S f =>
    match b with
    | 1 :: r => option_map (fun '(h, r') => (1 :: h, r')) (take 8 r)
    | 2 :: r => option_map (fun '(h, r') => (2 :: h, r')) (take 8 r)
    | 3 :: r => option_map (fun '(h, r') => (3 :: h, r')) (take 32 r)
    | 4 :: r => option_map (fun '(h, r') => (4 :: h, r')) (take 32 r)
    | 6 :: r => option_map (fun '(h, r') => (6 :: h, r')) (take 32 r)
    | 5 :: n :: k :: r =>
      (fix loop (cnt : nat) (acc : bytes) (r : bytes) : option (bytes * bytes) :=
         match cnt with
         | O => Some (5 :: n :: k :: acc, r)
         | S c => match recog_policy_body f r with
                  | Some (p, r') => loop c (acc ++ p) r'
                  | None => None
                  end
         end) (N.to_nat k) [] r
    | 7 :: r =>
      (* unlock conditions: timelock, key slice, sigs required *)
      match take 16 r with
      | Some (h, r1) =>
        let nk := le_val (skipn 8 h) in
        if nk <=? N.of_nat (length r1) then
          (fix keys (cnt : nat) (acc : bytes) (r : bytes) : option (bytes * bytes) :=
             match cnt with
             | O => option_map (fun '(t, r') => (7 :: h ++ acc ++ t, r')) (take 8 r)
             | S c =>
               match take 24 r with
               | Some (kh, r') =>
                 let kl := le_val (skipn 16 kh) in
                 if kl <=? N.of_nat (length r') then
                   match take (N.to_nat kl) r' with Some (kd, r'') => keys c (acc ++ kh ++ kd) r'' | None => None end
                 else None
               | None => None
               end
             end) (N.to_nat nk) [] r1
        else None
      | None => None
      end
    | _ => None
    end
  end.
Definition recog_policy (b : bytes) : option (bytes * bytes) :=
  match b with
  | 1 :: r => option_map (fun '(p, r') => (1 :: p, r')) (recog_policy_body 40 r)
  | _ => None
  end.

Open Scope string_scope.
Definition recog (name : string) (b : bytes) : option (bytes * bytes) :=
  if name =? "types.V1Currency" then recog_v1cur b
  else if name =? "types.V1SiafundOutput" then recog_v1sfo b
  else if name =? "types.SpendPolicy" then recog_policy b
  else None.
Definition rvalid (name : string) (b : bytes) : Prop :=
  (name = "types.V1Currency" /\ valid_v1cur b) \/ (name = "types.V1SiafundOutput" /\ valid_v1sfo b).

Lemma recog_ok name b rest : rvalid name b -> recog name (b ++ rest)%list = Some (b, rest).
Proof.
  intros [[-> H]|[-> H]]; unfold recog; simpl.
  - now apply recog_v1cur_ok.
  - now apply recog_v1sfo_ok.
Qed.
Lemma rvalid_nonempty name b : rvalid name b -> (1 <= length b)%nat.
Proof.
  intros [[_ (d & _ & ->)]|[_ (c & a & c2 & (d & _ & ->) & _ & _ & _ & ->)]].
  - rewrite app_length, le_bytes_length. lia.
  - rewrite !app_length, le_bytes_length. lia.
Qed.

(* the translator's opaque methods must be exactly these hand-listed ones *)
Definition irregular_types : list string := [
  "types.DecoderFunc"; "types.EncoderFunc"; "types.V1Currency"; "types.V1SiafundOutput"; "types.SpendPolicy";
  "types.V2FileContractResolution"; "types.V2Transaction"; "types.V2TransactionSemantics"; "types.V2TransactionsMultiproof";
  "types.V2BlockData_placeholder"
].

(* ---- consensus.State and ElementAccumulator: irregular layouts, pinned as executable definitions ----
   State: index, then the min(childHeight, 11) timestamps actually used (childHeight wraps to 0 for the pre-genesis
   state at height 2^64-1), the fixed proof-of-work / tax / foundation fields, the accumulator, the attestation count.
   ElementAccumulator: the leaf count and one root per set bit of it. *)
Definition state_timestamps (height : N) : N := N.min ((height + 1) mod 2 ^ 64) 11.
Fixpoint popcount_fuel (fuel : nat) (n : N) : N :=
  match fuel with O => 0 | S f => (n mod 2) + popcount_fuel f (n / 2) end.
Definition popcount64 (n : N) : N := popcount_fuel 64 n.
Definition accumulator_len (num_leaves : N) : N := 8 + 32 * popcount64 num_leaves.
Definition state_len (height num_leaves : N) : N :=
  (8 + 32) + 8 * state_timestamps height + 32 + 32 + 16 + 8 + 32 + 32 + 32 + 32 + 32 + 32 + accumulator_len num_leaves + 8.
