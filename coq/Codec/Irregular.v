(* Hand-modelled, self-delimiting fragments of the wire format: for each irregular codec a
   recogniser that splits one encoding off the front of a byte string. *)
From Coq Require Import String.
From Coq Require Import List NArith Lia Bool PeanoNat ZifyN ZifyNat ZifyBool.
From Sia Require Import Prim.Tok Codec.Schema Codec.Canonical Codec.PolicyWire.
Import ListNotations.
Open Scope N_scope.

(* V1Currency: u64 length n <= 16, then n big-endian bytes *)
Definition recog_v1cur (b : bytes) : option (bytes * bytes) :=
  match take 8 b with
  | Some (h, r) =>
    let n := le_val h in
    if n <=? 16 then match take (N.to_nat n) r with Some (d, r') => Some (h ++ d, r') | None => None end else None
  | None => None
  end.
Definition valid_v1cur (b : bytes) : Prop :=
  exists d, (length d <= 16)%nat /\ b = le_bytes 8 (N.of_nat (length d)) ++ d.

Lemma recog_v1cur_ok b rest : valid_v1cur b -> recog_v1cur (b ++ rest) = Some (b, rest).
Proof.
  intros (d & Hl & ->). unfold recog_v1cur. rewrite <- app_assoc, take_app by apply le_bytes_length.
  rewrite (le_val_bytes 8) by (cbn; lia). destruct (N.leb_spec (N.of_nat (length d)) 16); [|lia].
  rewrite Nat2N.id, take_app by reflexivity. reflexivity.
Qed.

(* V1SiafundOutput: a V1Currency whose value fits in 64 bits, the address, and a (discarded) V1Currency *)
Definition all_zero (l : bytes) : bool := forallb (fun x => x =? 0) l.
Definition v1cur_fits64 (c : bytes) : bool :=      (* c = 8-byte prefix ++ data *)
  let d := skipn 8 c in all_zero (firstn (length d - 8) d).
Definition recog_v1sfo (b : bytes) : option (bytes * bytes) :=
  match recog_v1cur b with
  | Some (c, r) =>
    if v1cur_fits64 c then
      match take 32 r with
      | Some (a, r') => match recog_v1cur r' with Some (c2, r'') => Some (c ++ a ++ c2, r'') | None => None end
      | None => None
      end
    else None
  | None => None
  end.
Definition valid_v1sfo (b : bytes) : Prop :=
  exists c a c2, valid_v1cur c /\ v1cur_fits64 c = true /\ length a = 32%nat /\ valid_v1cur c2 /\ b = c ++ a ++ c2.
Lemma recog_v1sfo_ok b rest : valid_v1sfo b -> recog_v1sfo (b ++ rest) = Some (b, rest).
Proof.
  intros (c & a & c2 & Hc & Hf & Ha & Hc2 & ->). unfold recog_v1sfo.
  rewrite <- !app_assoc. rewrite (recog_v1cur_ok c _ Hc). rewrite Hf.
  rewrite take_app by exact Ha. rewrite (recog_v1cur_ok c2 _ Hc2). reflexivity.
Qed.

(* soundness: what the recognisers split off is a valid fragment and a prefix of the input *)
Lemma recog_v1cur_sound b x r : byte_okl b -> recog_v1cur b = Some (x, r) -> b = (x ++ r) /\ valid_v1cur x.
Proof.
  intros O E. unfold recog_v1cur in E.
  destruct (take 8 b) as [[h r1]|] eqn:T; [|discriminate].
  destruct (le_val h <=? 16) eqn:L16; [|discriminate].
  destruct (take (N.to_nat (le_val h)) r1) as [[d r2]|] eqn:T2; [|discriminate]. inversion E; subst.
  destruct (take_split _ _ _ _ T) as [-> L]. destruct (take_split _ _ _ _ T2) as [-> L2].
  destruct (byte_okl_app _ _ O) as [Oh _].
  split; [rewrite <- app_assoc; reflexivity|]. exists d. split; [lia|].
  assert (E2 : N.of_nat (length d) = le_val h) by lia. rewrite E2. rewrite <- L at 1. rewrite (le_bytes_val h Oh). reflexivity.
Qed.
Lemma recog_v1sfo_sound b x r : byte_okl b -> recog_v1sfo b = Some (x, r) -> b = (x ++ r) /\ valid_v1sfo x.
Proof.
  intros O E. unfold recog_v1sfo in E.
  destruct (recog_v1cur b) as [[c r1]|] eqn:R1; [|discriminate].
  destruct (v1cur_fits64 c) eqn:F; [|discriminate].
  destruct (take 32 r1) as [[a r2]|] eqn:T; [|discriminate].
  destruct (recog_v1cur r2) as [[c2 r3]|] eqn:R2; [|discriminate]. inversion E; subst.
  destruct (recog_v1cur_sound _ _ _ O R1) as [-> V1]. destruct (byte_okl_app _ _ O) as [_ O1].
  destruct (take_split _ _ _ _ T) as [-> La]. destruct (byte_okl_app _ _ O1) as [_ O2].
  destruct (recog_v1cur_sound _ _ _ O2 R2) as [-> V2].
  split; [rewrite <- !app_assoc; reflexivity|]. exists c, a, c2. repeat split; auto.
Qed.

(* extension stability: the recognisers do not look past what they consume *)
Lemma recog_v1cur_extend b x r q : recog_v1cur b = Some (x, r) -> recog_v1cur (b ++ q) = Some (x, r ++ q).
Proof.
  intros E. unfold recog_v1cur in E |- *.
  destruct (take 8 b) as [[h r1]|] eqn:T; [|discriminate]. rewrite (take_extend _ _ _ _ q T).
  destruct (le_val h <=? 16); [|discriminate].
  destruct (take (N.to_nat (le_val h)) r1) as [[d r2]|] eqn:T2; [|discriminate]. inversion E; subst.
  rewrite (take_extend _ _ _ _ q T2). reflexivity.
Qed.
Lemma recog_v1sfo_extend b x r q : recog_v1sfo b = Some (x, r) -> recog_v1sfo (b ++ q) = Some (x, r ++ q).
Proof.
  intros E. unfold recog_v1sfo in E |- *.
  destruct (recog_v1cur b) as [[c r1]|] eqn:R1; [|discriminate]. rewrite (recog_v1cur_extend _ _ _ q R1).
  destruct (v1cur_fits64 c); [|discriminate].
  destruct (take 32 r1) as [[a r2]|] eqn:T; [|discriminate]. rewrite (take_extend _ _ _ _ q T).
  destruct (recog_v1cur r2) as [[c2 r3]|] eqn:R2; [|discriminate]. inversion E; subst.
  rewrite (recog_v1cur_extend _ _ _ q R2). reflexivity.
Qed.
(* SpendPolicy: Codec/PolicyWire.v *)

Open Scope string_scope.
Definition recog (name : string) (b : bytes) : option (bytes * bytes) :=
  if name =? "types.V1Currency" then recog_v1cur b
  else if name =? "types.V1SiafundOutput" then recog_v1sfo b
  else if name =? "types.SpendPolicy" then recog_policy b
  else None.
Definition rvalid (name : string) (b : bytes) : Prop :=
  (name = "types.V1Currency" /\ valid_v1cur b) \/ (name = "types.V1SiafundOutput" /\ valid_v1sfo b) \/
  (name = "types.SpendPolicy" /\ valid_policy b).

Lemma recog_ok name b rest : rvalid name b -> recog name (b ++ rest)%list = Some (b, rest).
Proof.
  intros [[-> H]|[[-> H]|[-> H]]]; unfold recog; cbn [String.eqb Ascii.eqb Bool.eqb].
  - now apply recog_v1cur_ok.
  - now apply recog_v1sfo_ok.
  - now apply recog_policy_ok.
Qed.
Lemma rvalid_nonempty name b : rvalid name b -> (1 <= length b)%nat.
Proof.
  intros [[_ (d & _ & ->)]|[[_ (c & a & c2 & (d & _ & ->) & _ & _ & _ & ->)]|[_ V]]].
  - rewrite app_length, le_bytes_length. lia.
  - rewrite !app_length, le_bytes_length. lia.
  - now apply valid_policy_nonempty.
Qed.


Lemma recog_sound name b x r : byte_okl b -> recog name b = Some (x, r) -> b = (x ++ r)%list /\ rvalid name x.
Proof.
  intros O E. unfold recog in E. destruct (name =? "types.V1Currency") eqn:A.
  - apply String.eqb_eq in A. subst. destruct (recog_v1cur_sound _ _ _ O E) as [-> V]. split; [reflexivity | left; auto].
  - destruct (name =? "types.V1SiafundOutput") eqn:B.
    + apply String.eqb_eq in B. subst. destruct (recog_v1sfo_sound _ _ _ O E) as [-> V]. split; [reflexivity | right; left; auto].
    + destruct (name =? "types.SpendPolicy") eqn:C; [|discriminate].
      apply String.eqb_eq in C. subst. destruct (recog_policy_sound _ _ _ O E) as [-> V]. split; [reflexivity | right; right; auto].
Qed.

Lemma recog_extend name b x r q : recog name b = Some (x, r) -> recog name (b ++ q)%list = Some (x, (r ++ q)%list).
Proof.
  unfold recog. destruct (name =? "types.V1Currency"); [apply recog_v1cur_extend|].
  destruct (name =? "types.V1SiafundOutput"); [apply recog_v1sfo_extend|].
  destruct (name =? "types.SpendPolicy"); [apply recog_policy_extend | discriminate].
Qed.

(* the translator's opaque methods must be exactly these hand-listed ones *)
Definition irregular_types : list string := [
  "types.DecoderFunc"; "types.EncoderFunc"; "types.V1Currency"; "types.V1SiafundOutput"; "types.SpendPolicy";
  "types.V2FileContractResolution"; "types.V2Transaction"; "types.V2TransactionSemantics"; "types.V2TransactionsMultiproof";
  "types.V2BlockData_placeholder"
].

(* ---- consensus.State and ElementAccumulator: irregular layouts, pinned as executable definitions ----
   State: index, then the min(childHeight, 11) timestamps actually used (childHeight wraps to 0 for the pre-genesis
   state at height 2^64-1), the fixed proof-of-work / tax / foundation fields, the accumulator, the attestation count.
   ElementAccumulator: the leaf count and one root per set bit of it. *)
Definition state_timestamps (height : N) : N := N.min ((height + 1) mod 2 ^ 64) 11.
Fixpoint popcount_fuel (fuel : nat) (n : N) : N :=
  match fuel with O => 0 | S f => (n mod 2) + popcount_fuel f (n / 2) end.
Definition popcount64 (n : N) : N := popcount_fuel 64 n.
Definition accumulator_len (num_leaves : N) : N := 8 + 32 * popcount64 num_leaves.
Definition state_len (height num_leaves : N) : N :=
  (8 + 32) + 8 * state_timestamps height + 32 + 32 + 16 + 8 + 32 + 32 + 32 + 32 + 32 + 32 + accumulator_len num_leaves + 8.
