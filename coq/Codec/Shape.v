(* Shapes as emitted by the translator, and their compilation to schemas. *)
From Coq Require Import String Ascii.
From Coq Require Import List NArith Bool PeanoNat.
From Sia Require Import Prim.Tok Codec.Schema.
Import ListNotations.

Inductive shape :=
| HU8 | HU64 | HBool | HTime | HBytes | HFixed (n : nat)
| HSlice (s : shape) | HPtr (s : shape) | HLoop (s : shape) | HSeq (l : list shape)
| HNamed (name : string) | HOpaque (why : string).

(* nested sequences are the same bytes as one flat sequence *)
Definition reseq (l : list shape) : shape := match l with [x] => x | _ => HSeq l end.
Fixpoint flat (h : shape) : list shape :=
  match h with
  | HSeq l => (fix go (l : list shape) : list shape := match l with [] => [] | x :: r => flat x ++ go r end) l
  | HSlice s => [HSlice (reseq (flat s))]
  | HPtr s => [HPtr (reseq (flat s))]
  | HLoop s => [HLoop (reseq (flat s))]
  | x => [x]
  end.
Definition norm (h : shape) : shape := reseq (flat h).

Fixpoint to_schema_raw (h : shape) : option schema :=
  match h with
  | HU8 => Some SU8 | HU64 => Some SU64 | HBool => Some SBool | HTime => Some SU64 | HBytes => Some SBytes
  | HFixed n => Some (SFixed n)
  | HSlice s => option_map SSlice (to_schema_raw s)
  | HPtr s => option_map SPtr (to_schema_raw s)
  | HLoop _ => None
  | HSeq l => (fix go (l : list shape) : option schema :=
                 match l with
                 | [] => Some SUnit
                 | [x] => to_schema_raw x
                 | x :: r => match to_schema_raw x, go r with Some a, Some b => Some (SPair a b) | _, _ => None end
                 end) l
  | HNamed n => Some (SRaw n)
  | HOpaque _ => None
  end.
Definition to_schema (h : shape) : option schema := to_schema_raw (norm h).

Fixpoint schema_eqb (a b : schema) : bool :=
  match a, b with
  | SU8, SU8 | SU64, SU64 | SBool, SBool | SBytes, SBytes | SUnit, SUnit => true
  | SFixed n, SFixed m => Nat.eqb n m
  | SSlice x, SSlice y | SPtr x, SPtr y => schema_eqb x y
  | SPair x1 x2, SPair y1 y2 => schema_eqb x1 y1 && schema_eqb x2 y2
  | SRaw n, SRaw m => String.eqb n m
  | _, _ => false
  end.
Lemma schema_eqb_eq a b : schema_eqb a b = true -> a = b.
Proof.
  revert b. induction a; intros b0 H; destruct b0; simpl in H; try discriminate; try reflexivity.
  - apply Nat.eqb_eq in H. now subst.
  - f_equal; auto.
  - f_equal; auto.
  - apply andb_true_iff in H. destruct H. f_equal; auto.
  - apply String.eqb_eq in H. now subst.
Qed.

Definition opt_schema_eqb (a b : option schema) : bool :=
  match a, b with Some x, Some y => schema_eqb x y | _, _ => false end.

(* substring test, for the field-coverage obligation *)
Fixpoint prefixb (p s : string) : bool :=
  match p, s with
  | EmptyString, _ => true
  | String a p', String b s' => Ascii.eqb a b && prefixb p' s'
  | _, _ => false
  end.
Fixpoint substringb (p s : string) : bool :=
  prefixb p s || match s with EmptyString => false | String _ s' => substringb p s' end.
