(* Generic wire codec over schemas, mirroring types.Encoder/Decoder: little-endian u64, strict
   bool, fixed arrays, length-prefixed bytes and slices with the "length prefix vs bytes remaining"
   check before any element is read, pointers as bool + value, sequences, and self-delimiting
   hand-modelled fragments (SRaw) recognised by a supplied parser. *)
From Coq Require Import String.
From Coq Require Import List NArith Lia Bool PeanoNat.
From Sia Require Import Prim.Tok.
Import ListNotations.
Open Scope N_scope.

Fixpoint le_bytes (k : nat) (n : N) : bytes :=
  match k with O => [] | S k => (n mod 256) :: le_bytes k (n / 256) end.
Fixpoint le_val (bs : bytes) : N :=
  match bs with [] => 0 | b :: t => b + 256 * le_val t end.
Lemma le_bytes_length k n : length (le_bytes k n) = k.
Proof. revert n; induction k; simpl; auto. Qed.
Lemma le_val_bytes k n : n < 256 ^ N.of_nat k -> le_val (le_bytes k n) = n.
Proof.
  revert n. induction k as [|k IH]; intros n H.
  - simpl in *. lia.
  - cbn [le_bytes le_val]. rewrite IH.
    + pose proof (N.div_mod n 256). lia.
    + rewrite Nat2N.inj_succ, N.pow_succ_r' in H. apply N.div_lt_upper_bound; lia.
Qed.

Inductive schema :=
| SU8 | SU64 | SBool | SFixed (n : nat) | SBytes
| SSlice (s : schema) | SPtr (s : schema)
| SUnit | SPair (a b : schema)
| SRaw (name : string).

Inductive val :=
| VN (n : N) | VB (b : bool) | VBytes (l : bytes)
| VList (l : list val) | VOpt (o : option val) | VUnit | VPair (a b : val)
| VRaw (b : bytes).

Section Codec.
(* hand-modelled fragments: [recog name b] splits one canonical encoding off the front of b *)
Variable recog : string -> bytes -> option (bytes * bytes).
Variable rvalid : string -> bytes -> Prop.
Hypothesis recog_ok : forall name b rest, rvalid name b -> recog name (b ++ rest) = Some (b, rest).
Hypothesis rvalid_nonempty : forall name b, rvalid name b -> (1 <= length b)%nat.

Fixpoint wt (s : schema) (v : val) {struct s} : Prop :=
  match s, v with
  | SU8, VN n => n < 256
  | SU64, VN n => n < 2^64
  | SBool, VB _ => True
  | SFixed k, VBytes l => length l = k
  | SBytes, VBytes l => N.of_nat (length l) < 2^64
  | SSlice s, VList l => N.of_nat (length l) < 2^64 /\ (fix all (l : list val) := match l with [] => True | x :: t => wt s x /\ all t end) l
  | SPtr s, VOpt None => True
  | SPtr s, VOpt (Some x) => wt s x
  | SUnit, VUnit => True
  | SPair a b, VPair x y => wt a x /\ wt b y
  | SRaw name, VRaw b => rvalid name b
  | _, _ => False
  end.

Fixpoint enc (s : schema) (v : val) {struct s} : bytes :=
  match s, v with
  | SU8, VN n => [n]
  | SU64, VN n => le_bytes 8 n
  | SBool, VB b => [if b then 1 else 0]
  | SFixed k, VBytes l => l
  | SBytes, VBytes l => le_bytes 8 (N.of_nat (length l)) ++ l
  | SSlice s, VList l => le_bytes 8 (N.of_nat (length l)) ++ flat_map (enc s) l
  | SPtr s, VOpt None => [0]
  | SPtr s, VOpt (Some x) => 1 :: enc s x
  | SPair a b, VPair x y => enc a x ++ enc b y
  | SRaw _, VRaw b => b
  | _, _ => []
  end.

Fixpoint minsize (s : schema) : nat :=
  match s with
  | SU8 => 1 | SU64 => 8 | SBool => 1 | SFixed k => k | SBytes => 8 | SSlice _ => 8 | SPtr _ => 1
  | SUnit => 0 | SPair a b => minsize a + minsize b | SRaw _ => 1
  end.

Definition take (k : nat) (b : bytes) : option (bytes * bytes) :=
  if Nat.leb k (length b) then Some (firstn k b, skipn k b) else None.

Fixpoint dec (s : schema) (b : bytes) {struct s} : option (val * bytes) :=
  match s with
  | SU8 => match b with x :: r => Some (VN x, r) | [] => None end
  | SU64 => match take 8 b with Some (h, r) => Some (VN (le_val h), r) | None => None end
  | SBool => match b with 0 :: r => Some (VB false, r) | 1 :: r => Some (VB true, r) | _ => None end
  | SFixed k => match take k b with Some (h, r) => Some (VBytes h, r) | None => None end
  | SBytes => match take 8 b with
              | Some (h, r) => let n := le_val h in
                 if n <=? N.of_nat (length r) then
                   match take (N.to_nat n) r with Some (d, r') => Some (VBytes d, r') | None => None end
                 else None
              | None => None end
  | SSlice s => match take 8 b with
              | Some (h, r) => let n := le_val h in
                 if n <=? N.of_nat (length r) then
                   match (fix loop (k : nat) (r : bytes) : option (list val * bytes) :=
                      match k with
                      | O => Some ([], r)
                      | S k => match dec s r with
                               | Some (x, r') => match loop k r' with Some (xs, r'') => Some (x :: xs, r'') | None => None end
                               | None => None end
                      end) (N.to_nat n) r with Some (xs, r) => Some (VList xs, r) | None => None end
                 else None
              | None => None end
  | SPtr s => match b with
              | 0 :: r => Some (VOpt None, r)
              | 1 :: r => match dec s r with Some (x, r') => Some (VOpt (Some x), r') | None => None end
              | _ => None end
  | SUnit => Some (VUnit, b)
  | SPair a c => match dec a b with
                 | Some (x, r) => match dec c r with Some (y, r') => Some (VPair x y, r') | None => None end
                 | None => None end
  | SRaw name => match recog name b with Some (x, r) => Some (VRaw x, r) | None => None end
  end.

Lemma take_app k a r : length a = k -> take k (a ++ r) = Some (a, r).
Proof.
  intros <-. unfold take. rewrite app_length.
  destruct (Nat.leb_spec (length a) (length a + length r)); [|lia].
  now rewrite firstn_app, Nat.sub_diag, firstn_all, skipn_app, Nat.sub_diag, skipn_all, app_nil_r.
Qed.

(* every slice element occupies at least one byte: a length prefix can never request more elements
   than there are bytes left, which is what bounds allocation by the input size *)
Fixpoint wf (s : schema) : Prop :=
  match s with
  | SSlice s => (1 <= minsize s)%nat /\ wf s
  | SPtr s => wf s
  | SPair a b => wf a /\ wf b
  | _ => True
  end.
Fixpoint wfb (s : schema) : bool :=
  match s with
  | SSlice s => Nat.leb 1 (minsize s) && wfb s
  | SPtr s => wfb s
  | SPair a b => wfb a && wfb b
  | _ => true
  end.
Lemma wfb_wf s : wfb s = true -> wf s.
Proof.
  induction s; cbn [wfb wf]; auto; intros H.
  - apply andb_true_iff in H. destruct H as [A B]. apply Nat.leb_le in A. auto.
  - apply andb_true_iff in H. destruct H; auto.
Qed.

Lemma enc_minsize s : forall v, wt s v -> (minsize s <= length (enc s v))%nat.
Proof.
  induction s; intros v H; destruct v; cbn [wt enc minsize] in *; try contradiction;
    rewrite ?app_length, ?le_bytes_length; cbn [length]; try lia.
  - destruct o; cbn [length]; lia.
  - destruct H as [H1 H2]. specialize (IHs1 _ H1). specialize (IHs2 _ H2). lia.
  - now apply rvalid_nonempty in H.
Qed.

Lemma flat_map_len s l : (1 <= minsize s)%nat ->
  (fix all (l : list val) := match l with [] => True | x :: t => wt s x /\ all t end) l ->
  (length l <= length (flat_map (enc s) l))%nat.
Proof.
  intros Hm. induction l as [|x l IH]; simpl; intros H; [lia|].
  destruct H as [Hx Hl]. rewrite app_length. pose proof (enc_minsize s x Hx). specialize (IH Hl). lia.
Qed.

Theorem roundtrip s : wf s -> forall v rest, wt s v -> dec s (enc s v ++ rest) = Some (v, rest).
Proof.
  induction s; intros Hwf v rest H; destruct v; simpl in H; try contradiction.
  - reflexivity.
  - cbn [enc dec]. rewrite take_app by apply le_bytes_length. now rewrite (le_val_bytes 8).
  - destruct b; reflexivity.
  - cbn [enc dec]. now rewrite take_app.
  - cbn [enc dec]. rewrite <- app_assoc, take_app by apply le_bytes_length.
    rewrite (le_val_bytes 8) by exact H. cbv zeta.
    rewrite app_length. destruct (N.leb_spec (N.of_nat (length l)) (N.of_nat (length l + length rest))); [|lia].
    rewrite Nat2N.id. now rewrite take_app.
  - destruct H as [Hlen Hall]. destruct Hwf as [Hm Hwf].
    cbn [enc dec]. rewrite <- app_assoc, take_app by apply le_bytes_length.
    rewrite (le_val_bytes 8) by exact Hlen. cbv zeta.
    pose proof (flat_map_len s l Hm Hall) as HL.
    rewrite app_length. destruct (N.leb_spec (N.of_nat (length l)) (N.of_nat (length (flat_map (enc s) l) + length rest))); [|lia].
    rewrite Nat2N.id. clear HL H Hlen.
    induction l as [|x l IHl]; [reflexivity|].
    destruct Hall as [Hx Hall]. cbn [length flat_map]. rewrite <- app_assoc.
    rewrite (IHs Hwf x _ Hx).
    specialize (IHl Hall).
    destruct ((fix loop (k : nat) (r : bytes) {struct k} : option (list val * bytes) :=
               match k with
               | 0%nat => Some ([], r)
               | S k0 => match dec s r with
                         | Some (x0, r') => match loop k0 r' with Some (xs, r'') => Some (x0 :: xs, r'') | None => None end
                         | None => None end
               end) (length l) (flat_map (enc s) l ++ rest)) as [[xs r]|] eqn:E; [|discriminate].
    inversion IHl; subst. reflexivity.
  - destruct o as [x|]; cbn [enc dec]; [|reflexivity].
    simpl. now rewrite (IHs Hwf x rest H).
  - reflexivity.
  - destruct H as [H1 H2]. destruct Hwf as [W1 W2]. cbn [enc dec]. rewrite <- app_assoc.
    rewrite (IHs1 W1 _ _ H1), (IHs2 W2 _ _ H2). reflexivity.
  - cbn [enc dec]. now rewrite (recog_ok _ _ rest H).
Qed.

(* canonical: re-encoding the decoded value of an encoding reproduces the bytes; encoding is injective *)
Corollary reencode s v : wf s -> wt s v ->
  match dec s (enc s v) with Some (v', []) => enc s v' = enc s v | _ => False end.
Proof. intros W T. pose proof (roundtrip s W v [] T) as R. rewrite app_nil_r in R. rewrite R. reflexivity. Qed.

Corollary enc_injective s v w : wf s -> wt s v -> wt s w -> enc s v = enc s w -> v = w.
Proof.
  intros W Tv Tw E. pose proof (roundtrip s W v [] Tv) as A. pose proof (roundtrip s W w [] Tw) as B.
  rewrite E in A. rewrite A in B. inversion B. reflexivity.
Qed.
End Codec.

(* a decoded slice or byte string never has more elements than the input has bytes: the length prefix
   is compared with the bytes remaining before anything is allocated *)
Section Bound.
Variable recog : string -> bytes -> option (bytes * bytes).
Lemma take_some k b h r : take k b = Some (h, r) -> length h = k /\ (length r + k = length b)%nat.
Proof.
  unfold take. destruct (Nat.leb_spec k (length b)); [|discriminate]. intros E; inversion E; subst.
  rewrite firstn_length, skipn_length. lia.
Qed.

Theorem slice_alloc_bound s b l r : dec recog (SSlice s) b = Some (VList l, r) -> (length l + 8 <= length b)%nat.
Proof.
  cbn [dec]. destruct (take 8 b) as [[h r0]|] eqn:E; [|discriminate].
  destruct (take_some _ _ _ _ E) as [_ Hl].
  destruct (N.leb_spec (le_val h) (N.of_nat (length r0))) as [Hn|]; [|discriminate].
  set (n := N.to_nat (le_val h)). assert (Hn' : (n <= length r0)%nat) by (unfold n; lia). clearbody n.
  intros Hd.
  assert (G : forall k r1 xs r2,
    (fix loop (k : nat) (r : bytes) : option (list val * bytes) :=
       match k with
       | O => Some ([], r)
       | S k => match dec recog s r with
                | Some (x, r') => match loop k r' with Some (xs, r'') => Some (x :: xs, r'') | None => None end
                | None => None end
       end) k r1 = Some (xs, r2) -> length xs = k).
  { induction k as [|k IH]; intros r1 xs r2 EE.
    - inversion EE; reflexivity.
    - destruct (dec recog s r1) as [[x r']|]; [|discriminate].
      match type of EE with match ?X with _ => _ end = _ => destruct X as [[xs' r'']|] eqn:EL; [|discriminate] end.
      inversion EE; subst. simpl. f_equal. eapply IH; eauto. }
  match type of Hd with match ?X with _ => _ end = _ => destruct X as [[xs r']|] eqn:EL; [|discriminate] end.
  inversion Hd; subst. apply G in EL. lia.
Qed.

Theorem bytes_alloc_bound b d r : dec recog SBytes b = Some (VBytes d, r) -> (length d + 8 <= length b)%nat.
Proof.
  cbn [dec]. destruct (take 8 b) as [[h r0]|] eqn:E; [|discriminate].
  destruct (take_some _ _ _ _ E) as [_ Hl].
  destruct (N.leb_spec (le_val h) (N.of_nat (length r0))); [|discriminate].
  destruct (take (N.to_nat (le_val h)) r0) as [[d' r']|] eqn:E2; [|discriminate].
  intros EE; inversion EE; subst. destruct (take_some _ _ _ _ E2). lia.
Qed.
End Bound.
