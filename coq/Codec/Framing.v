(* RPC framing (rhp/v4/transport.go): a receiver decodes from an io.LimitedReader of maxLen bytes.
   - whatever is sent, at most maxLen bytes are consumed;
   - a message whose encoding fits the limit is decoded to the same object, whatever follows it on the stream;
   - a response is a flag byte followed by an error or the object; an error is delivered as that error.
   Together with Size.enc_size and the per-object obligations at the end (re-checked on every run against the
   regenerated shapes and the implementation's own maxLen() values), every object within the protocol's batch
   limits is accepted by the limit the receiver applies to it. *)
From Coq Require Import String.
From Coq Require Import List NArith Lia Bool PeanoNat ZifyN ZifyNat.
From Sia Require Import Prim.Tok Codec.Schema Codec.Shape Codec.Irregular Codec.Size Gen.Schemas Gen.Limits.
Import ListNotations.
Local Open Scope nat_scope.
Local Open Scope list_scope.

Section Framing.
Variable recog : string -> bytes -> option (bytes * bytes).
Variable rvalid : string -> bytes -> Prop.
Hypothesis recog_ok : forall name b rest, rvalid name b -> recog name (b ++ rest) = Some (b, rest).
Hypothesis rvalid_nonempty : forall name b, rvalid name b -> 1 <= length b.

(* withDecoder(r, maxLen, decode) *)
Definition read_limited (maxLen : nat) (s : schema) (stream : bytes) : option (val * bytes) :=
  dec recog s (firstn maxLen stream).

Lemma firstn_app_le {A} n (a b : list A) : length a <= n -> firstn n (a ++ b) = a ++ firstn (n - length a) b.
Proof. intros L. rewrite firstn_app. rewrite firstn_all2 by exact L. reflexivity. Qed.

Theorem frame_accepts maxLen s v rest : wf s -> wt rvalid s v -> length (enc s v) <= maxLen ->
  read_limited maxLen s (enc s v ++ rest) = Some (v, firstn (maxLen - length (enc s v)) rest).
Proof.
  intros Wf Wt L. unfold read_limited. rewrite firstn_app_le by exact L.
  apply (roundtrip recog rvalid recog_ok rvalid_nonempty); assumption.
Qed.

(* the decoder only ever sees the first maxLen bytes of the stream *)
Theorem frame_bounded maxLen (stream : bytes) : length (firstn maxLen stream) <= maxLen.
Proof. apply firstn_le_length. Qed.
Theorem frame_ignores_beyond maxLen s s1 s2 : firstn maxLen s1 = firstn maxLen s2 ->
  read_limited maxLen s s1 = read_limited maxLen s s2.
Proof. unfold read_limited. intros ->. reflexivity. Qed.

(* WriteResponse / ReadResponse *)
Definition enc_response (se so : schema) (r : val + val) : bytes :=
  match r with inl e => 1%N :: enc se e | inr o => 0%N :: enc so o end.
Definition dec_response (se so : schema) (b : bytes) : option ((val + val) * bytes) :=
  match b with
  | 1%N :: r => match dec recog se r with Some (e, r') => Some (inl e, r') | None => None end
  | 0%N :: r => match dec recog so r with Some (o, r') => Some (inr o, r') | None => None end
  | _ => None
  end.
Definition read_response (limit : nat) (se so : schema) (stream : bytes) := dec_response se so (firstn limit stream).

Theorem response_delivered limit se so r rest : wf se -> wf so ->
  match r with inl e => wt rvalid se e | inr o => wt rvalid so o end ->
  length (enc_response se so r) <= limit ->
  read_response limit se so (enc_response se so r ++ rest) = Some (r, firstn (limit - length (enc_response se so r)) rest).
Proof.
  intros We Wo Wt L. unfold read_response. rewrite firstn_app_le by exact L.
  destruct r as [e|o]; cbn [enc_response dec_response app].
  - rewrite (roundtrip recog rvalid recog_ok rvalid_nonempty se We e _ Wt). reflexivity.
  - rewrite (roundtrip recog rvalid recog_ok rvalid_nonempty so Wo o _ Wt). reflexivity.
Qed.

(* an error response is delivered as that error (never as an object), whatever the object type *)
Corollary error_delivered_as_error limit se so e rest : wf se -> wf so -> wt rvalid se e ->
  1 + length (enc se e) <= limit ->
  exists rest', read_response limit se so (enc_response se so (inl e) ++ rest) = Some (inl e, rest').
Proof.
  intros We Wo Wt L. eexists. apply (response_delivered limit se so (inl e)); auto.
Qed.

(* size bound + limit: accepted *)
Corollary sized_accepted maxLen s b v rest : wf s -> wt rvalid s v -> within s b v ->
  (maxsize s b <= N.of_nat maxLen)%N ->
  read_limited maxLen s (enc s v ++ rest) = Some (v, firstn (maxLen - length (enc s v)) rest).
Proof.
  intros Wf Wt Wi M. apply frame_accepts; auto.
  pose proof (enc_size rvalid s b v Wt Wi) as E. unfold len in E. lia.
Qed.
End Framing.

(* ---- per-object obligations against /repo ---- *)
Local Open Scope string_scope.
Local Open Scope N_scope.
Fixpoint lookupN (n : string) (l : list (string * N)) : option N :=
  match l with [] => None | (m, v) :: r => if String.eqb n m then Some v else lookupN n r end.
Definition const (n : string) : N := match lookupN n gen_consts with Some v => v | None => 0 end.
Definition BATCH : N := const "MaxSectorBatchSize".
Definition ACCTS : N := const "MaxAccountBatchSize".
Definition ERRMAX : N := match lookupN "rhp/v4.RPCError" gen_maxlen with Some v => v | None => 0 end.

(* the protocol's own limits on every collection of each RPC object, in encoding order
   (rhp/v4/validation.go, rhp/v4/rhp.go; Merkle proof lengths from the tree heights) *)
Definition rpc_limits : list (string * list N) := [
  ("rhp/v4.RPCAccountBalanceRequest", []); ("rhp/v4.RPCAccountBalanceResponse", []);
  ("rhp/v4.RPCAppendSectorsRequest", [BATCH]);
  ("rhp/v4.RPCAppendSectorsResponse", [BATCH; BATCH]);
  ("rhp/v4.RPCAppendSectorsSecondResponse", []); ("rhp/v4.RPCAppendSectorsThirdResponse", []);
  ("rhp/v4.RPCAttachPoolsRequest", [ACCTS]); ("rhp/v4.RPCAttachPoolsResponse", []);
  ("rhp/v4.RPCDetachPoolsRequest", [ACCTS]); ("rhp/v4.RPCDetachPoolsResponse", []);
  ("rhp/v4.RPCFreeSectorsRequest", [BATCH]);
  ("rhp/v4.RPCFreeSectorsSecondResponse", []); ("rhp/v4.RPCFreeSectorsThirdResponse", []);
  ("rhp/v4.RPCFundAccountsRequest", [ACCTS]); ("rhp/v4.RPCFundAccountsResponse", [ACCTS]);
  ("rhp/v4.RPCLatestRevisionRequest", []); ("rhp/v4.RPCLatestRevisionResponse", []);
  ("rhp/v4.RPCReadSectorRequest", []); ("rhp/v4.RPCReadSectorResponse", [32]);
  ("rhp/v4.RPCReplenishAccountsRequest", [ACCTS]); ("rhp/v4.RPCReplenishAccountsResponse", [ACCTS]);
  ("rhp/v4.RPCReplenishAccountsSecondResponse", []); ("rhp/v4.RPCReplenishAccountsThirdResponse", []);
  ("rhp/v4.RPCSectorRootsRequest", []); ("rhp/v4.RPCSectorRootsResponse", [128; BATCH]);
  ("rhp/v4.RPCSettingsRequest", []);
  ("rhp/v4.RPCVerifySectorRequest", []); ("rhp/v4.RPCVerifySectorResponse", [32]);
  ("rhp/v4.RPCWriteSectorRequest", []); ("rhp/v4.RPCWriteSectorResponse", []) ].

Fixpoint find_shape (n : string) (l : list (string * shape * shape)) : option shape :=
  match l with [] => None | (m, e, _) :: r => if String.eqb n m then Some e else find_shape n r end.
Definition is_response (n : string) : bool := substringb "Response" n.
(* the limit the receiver applies: ReadRequest: maxLen; ReadResponse: error maxLen + maxLen, for flag byte + body *)
Definition receiver_limit (n : string) : option N :=
  match lookupN n gen_maxlen with
  | Some ml => Some (if is_response n then ERRMAX + ml else ml)
  | None => None
  end.
Definition object_size (n : string) (lims : list N) : option N :=
  match find_shape n gen_types with
  | Some e => match to_schema e with
              | Some s => Some ((if is_response n then 1 else 0) + maxsize_with s lims)
              | None => None
              end
  | None => None
  end.
Definition check_obj (x : string * list N) : bool :=
  match object_size (fst x) (snd x), receiver_limit (fst x) with
  | Some sz, Some lim => sz <=? lim
  | _, _ => false
  end.
Definition failing_objects : list string := map fst (filter (fun x => negb (check_obj x)) rpc_limits).

Lemma limits_accept_all : failing_objects = [].
Proof. vm_compute. reflexivity. Qed.

(* an error whose description has at most ERRDESC bytes fits the limit of every response *)
Definition ERRDESC : N := ERRMAX - 1 - 1 - 8.
Lemma error_fits : match object_size "rhp/v4.RPCError" [ERRDESC] with Some sz => sz <=? ERRMAX | None => false end = true.
Proof. vm_compute. reflexivity. Qed.
