(* Encoded sizes: an upper bound of the generic encoding under per-collection length limits.
   The bound tree mirrors the schema: a limit for every length-prefixed collection / byte string /
   hand-modelled fragment, nested limits for the elements of a slice.  Sizes are in N (binary), so
   that protocol limits of millions of elements are evaluated by the kernel without unary numbers. *)
From Coq Require Import String.
From Coq Require Import List NArith Lia Bool PeanoNat ZifyN ZifyNat.
From Sia Require Import Prim.Tok Codec.Schema.
Import ListNotations.
Local Open Scope N_scope.

Inductive bnd := BNone | BLen (n : N) (inner : bnd) | BPair (a b : bnd) | BRaw (n : N).

Fixpoint maxsize (s : schema) (b : bnd) : N :=
  match s with
  | SU8 => 1 | SU64 => 8 | SBool => 1 | SFixed k => N.of_nat k
  | SBytes => match b with BLen n _ => 8 + n | _ => 8 end
  | SSlice s => match b with BLen n i => 8 + n * maxsize s i | _ => 8 end
  | SPtr s => 1 + maxsize s b
  | SUnit => 0
  | SPair a c => match b with BPair x y => maxsize a x + maxsize c y | _ => 0 end
  | SRaw _ => match b with BRaw n => n | _ => 0 end
  end.

Definition len (l : bytes) : N := N.of_nat (length l).

Fixpoint within (s : schema) (b : bnd) (v : val) {struct s} : Prop :=
  match s, v with
  | SBytes, VBytes l => match b with BLen n _ => len l <= n | _ => False end
  | SSlice s, VList l =>
      match b with
      | BLen n i => N.of_nat (length l) <= n /\ (fix all (l : list val) := match l with [] => True | x :: t => within s i x /\ all t end) l
      | _ => False
      end
  | SPtr s, VOpt (Some x) => within s b x
  | SPair a c, VPair x y => match b with BPair bx bc => within a bx x /\ within c bc y | _ => False end
  | SRaw _, VRaw r => match b with BRaw n => len r <= n | _ => False end
  | _, _ => True
  end.

Section Size.
Variable rvalid : string -> bytes -> Prop.

Lemma flat_map_bound s i (IH : forall v, wt rvalid s v -> within s i v -> len (enc s v) <= maxsize s i) :
  forall l, (fix all (l : list val) := match l with [] => True | x :: t => wt rvalid s x /\ all t end) l ->
            (fix all (l : list val) := match l with [] => True | x :: t => within s i x /\ all t end) l ->
            len (flat_map (enc s) l) <= N.of_nat (length l) * maxsize s i.
Proof.
  unfold len in *. induction l as [|x t IHl]; intros W B; cbn [flat_map length]; [lia|].
  destruct W as [Wx Wt]. destruct B as [Bx Bt]. rewrite app_length.
  specialize (IH x Wx Bx). specialize (IHl Wt Bt). lia.
Qed.

(* every well-typed value within the limits encodes to at most maxsize bytes *)
Theorem enc_size s : forall b v, wt rvalid s v -> within s b v -> len (enc s v) <= maxsize s b.
Proof.
  unfold len.
  induction s as [| | |k| |s IH|s IH| |a IHa c IHc|name]; intros b v W B; destruct v; cbn [wt] in W; try contradiction;
    cbn [enc maxsize within] in *; unfold len in *; try (cbn [length]; lia).
  - rewrite le_bytes_length. lia.
  - destruct b as [|n i| |]; try contradiction. rewrite app_length, le_bytes_length. lia.
  - destruct b as [|n i| |]; try contradiction. destruct W as [_ W]. destruct B as [Bn B].
    rewrite app_length, le_bytes_length.
    pose proof (flat_map_bound s i (IH i) l W B) as F. unfold len in F.
    assert (N.of_nat (length l) * maxsize s i <= n * maxsize s i) by (apply N.mul_le_mono_r; exact Bn). lia.
  - destruct o as [x|]; cbn [length].
    + specialize (IH b x W B). lia.
    + lia.
  - destruct b as [| |bx bc|]; try contradiction. destruct W as [Wa Wc]. destruct B as [Ba Bc].
    rewrite app_length. specialize (IHa bx _ Wa Ba). specialize (IHc bc _ Wc Bc). lia.
  - destruct b as [| | |n]; try contradiction. exact B.
Qed.
End Size.

(* bound trees from a flat list of limits, consumed left to right by the collections of the schema
   (the elements of a slice share the limits that follow it) *)
Fixpoint auto_bnd (s : schema) (lims : list N) : bnd * list N :=
  match s with
  | SBytes => match lims with n :: r => (BLen n BNone, r) | [] => (BNone, []) end
  | SSlice s => match lims with
                | n :: r => let (i, r') := auto_bnd s r in (BLen n i, r')
                | [] => (BNone, [])
                end
  | SPtr s => auto_bnd s lims
  | SPair a c => let (x, r) := auto_bnd a lims in let (y, r') := auto_bnd c r in (BPair x y, r')
  | SRaw _ => match lims with n :: r => (BRaw n, r) | [] => (BNone, []) end
  | _ => (BNone, lims)
  end.
Definition maxsize_with (s : schema) (lims : list N) : N := maxsize s (fst (auto_bnd s lims)).
