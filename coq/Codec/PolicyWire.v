(* The SpendPolicy wire format (types.SpendPolicy.EncodeTo / DecodeFrom): a version byte, then a tree of
   opcode-tagged nodes; the decoder refuses nesting deeper than maxPolicyDepth = 32. The unlock-conditions
   leaf is the regular UnlockConditions codec. Round trip and decoder canonicity are proved, which makes the
   fragment a sound, complete recogniser for the generic codec. *)
From Coq Require Import String.
From Coq Require Import List NArith Lia Bool PeanoNat ZifyN ZifyNat ZifyBool.
From Sia Require Import Prim.Tok Codec.Schema Codec.Canonical.
Import ListNotations.
Local Open Scope N_scope.

Definition norecog (_ : string) (_ : bytes) : option (bytes * bytes) := None.
Definition norvalid (_ : string) (_ : bytes) : Prop := False.
Definition uc_schema : schema := SPair SU64 (SPair (SSlice (SPair (SFixed 16) SBytes)) SU64).
Lemma uc_wf : wf uc_schema. Proof. cbn. lia. Qed.

Inductive pw :=
| PLeaf (op : N) (payload : bytes)     (* 1 above, 2 after: 8 bytes; 3 public key, 4 hash, 6 opaque: 32 bytes *)
| PUc (v : val)                        (* 7: unlock conditions *)
| PThresh (n : N) (of : list pw).      (* 5: n, count, children *)

Definition leaf_len (op : N) : option nat :=
  match op with 1 | 2 => Some 8%nat | 3 | 4 | 6 => Some 32%nat | _ => None end.

Fixpoint enc_pw (p : pw) : bytes :=
  match p with
  | PLeaf op pl => op :: pl
  | PUc v => 7 :: enc uc_schema v
  | PThresh n of => 5 :: n :: N.of_nat (length of) :: flat_map enc_pw of
  end.

Fixpoint dec_list (d : bytes -> option (pw * bytes)) (cnt : nat) (r : bytes) : option (list pw * bytes) :=
  match cnt with
  | O => Some ([], r)
  | S c => match d r with
           | Some (p, r') => match dec_list d c r' with Some (ps, r'') => Some (p :: ps, r'') | None => None end
           | None => None
           end
  end.

(* [fuel] is the number of nesting levels still allowed *)
Fixpoint dec_pw (fuel : nat) (b : bytes) : option (pw * bytes) :=
  match fuel with
  | O => None
  | S f =>
    match b with
    | [] => None
    | op :: r =>
      if op =? 5 then
        match r with
        | n :: k :: r2 => match dec_list (dec_pw f) (N.to_nat k) r2 with Some (ps, r3) => Some (PThresh n ps, r3) | None => None end
        | _ => None
        end
      else if op =? 7 then
        match dec norecog uc_schema r with Some (v, r') => Some (PUc v, r') | None => None end
      else
        match leaf_len op with
        | Some l => match take l r with Some (pl, r') => Some (PLeaf op pl, r') | None => None end
        | None => None
        end
    end
  end.

(* the values that have an encoding the decoder accepts: payload sizes, at most 255 children, nesting within fuel *)
Fixpoint pw_ok (fuel : nat) (p : pw) : Prop :=
  match fuel with
  | O => False
  | S f =>
    match p with
    | PLeaf op pl => leaf_len op = Some (length pl)
    | PUc v => wt norvalid uc_schema v
    | PThresh n of => n < 256 /\ (length of < 256)%nat /\ Forall (pw_ok f) of
    end
  end.

Definition max_policy_levels : nat := 33.   (* depths 0 .. maxPolicyDepth *)

Lemma norecog_ok name b rest : norvalid name b -> norecog name (b ++ rest) = Some (b, rest).
Proof. intros []. Qed.
Lemma norvalid_nonempty name b : norvalid name b -> (1 <= length b)%nat.
Proof. intros []. Qed.
Lemma norecog_sound name b x r : byte_okl b -> norecog name b = Some (x, r) -> b = x ++ r /\ norvalid name x.
Proof. discriminate. Qed.

Lemma leaf_len_not57 op l : leaf_len op = Some l -> (op =? 5) = false /\ (op =? 7) = false.
Proof. intros H; split; [destruct (op =? 5) eqn:E | destruct (op =? 7) eqn:E]; auto; apply N.eqb_eq in E; subst; discriminate. Qed.

Lemma dec_list_ok d ps : forall rest, Forall (fun p => forall rest, d (enc_pw p ++ rest) = Some (p, rest)) ps ->
  dec_list d (length ps) (flat_map enc_pw ps ++ rest) = Some (ps, rest).
Proof.
  induction ps as [|p ps IH]; intros rest F; [reflexivity|]. inversion F as [|? ? Hp Hps]; subst.
  cbn [length dec_list flat_map]. rewrite <- app_assoc, Hp, (IH _ Hps). reflexivity.
Qed.

Theorem dec_pw_enc fuel : forall p rest, pw_ok fuel p -> dec_pw fuel (enc_pw p ++ rest) = Some (p, rest).
Proof.
  induction fuel as [|f IH]; intros p rest OK; [destruct OK|]. destruct p as [op pl|v|n of]; cbn [pw_ok] in OK.
  - cbn [enc_pw app dec_pw]. destruct (leaf_len_not57 _ _ OK) as [-> ->]. rewrite OK, take_app by reflexivity. reflexivity.
  - cbn [enc_pw app dec_pw]. replace (7 =? 5) with false by reflexivity. replace (7 =? 7) with true by reflexivity.
    rewrite (roundtrip norecog norvalid norecog_ok norvalid_nonempty uc_schema uc_wf v rest OK). reflexivity.
  - destruct OK as (Hn & Hl & F). cbn [enc_pw app dec_pw]. replace (5 =? 5) with true by reflexivity.
    rewrite Nat2N.id, dec_list_ok; [reflexivity|].
    apply Forall_forall. intros p Hin rest'. apply IH. exact (proj1 (Forall_forall _ _) F p Hin).
Qed.

Lemma dec_list_canon d P cnt : (forall b p r, byte_okl b -> d b = Some (p, r) -> b = enc_pw p ++ r /\ P p) ->
  forall b ps r, byte_okl b -> dec_list d cnt b = Some (ps, r) -> b = flat_map enc_pw ps ++ r /\ length ps = cnt /\ Forall P ps.
Proof.
  intros Hd. induction cnt as [|c IH]; intros b ps r O E; cbn [dec_list] in E.
  - inversion E; subst. repeat split. constructor.
  - destruct (d b) as [[p r1]|] eqn:D1; [|discriminate]. destruct (dec_list d c r1) as [[ps' r2]|] eqn:D2; [|discriminate].
    inversion E; subst. destruct (Hd _ _ _ O D1) as [-> Pp]. destruct (byte_okl_app _ _ O) as [_ O1].
    destruct (IH _ _ _ O1 D2) as (-> & L & F). cbn [flat_map length]. rewrite <- app_assoc. repeat split; auto.
Qed.

Theorem dec_pw_canonical fuel : forall b p r, byte_okl b -> dec_pw fuel b = Some (p, r) -> b = enc_pw p ++ r /\ pw_ok fuel p.
Proof.
  induction fuel as [|f IH]; intros b p r O D; [discriminate|]. cbn [dec_pw] in D.
  destruct b as [|op b1]; [discriminate|]. inversion O as [|? ? Hop O1]; subst.
  destruct (op =? 5) eqn:E5.
  - assert (op = 5) by lia. subst op. destruct b1 as [|n [|k r2]]; try discriminate.
    inversion O1 as [|? ? Hn O2]; subst. inversion O2 as [|? ? Hk O3]; subst.
    destruct (dec_list (dec_pw f) (N.to_nat k) r2) as [[ps r3]|] eqn:DL; [|discriminate]. inversion D; subst.
    destruct (dec_list_canon (dec_pw f) (pw_ok f) (N.to_nat k) IH _ _ _ O3 DL) as (-> & L & F).
    cbn [enc_pw pw_ok app]. rewrite L, N2Nat.id. repeat split; auto. lia.
  - destruct (op =? 7) eqn:E7.
    + assert (op = 7) by lia. subst op. destruct (dec norecog uc_schema b1) as [[v r']|] eqn:DU; [|discriminate]. inversion D; subst.
      destruct (dec_canonical norecog norvalid norecog_sound uc_schema _ _ _ O1 DU) as [-> W]. split; [reflexivity | exact W].
    + destruct (leaf_len op) as [l|] eqn:LL; [|discriminate]. destruct (take l b1) as [[pl r']|] eqn:T; [|discriminate]. inversion D; subst.
      destruct (take_split _ _ _ _ T) as [-> L]. cbn [enc_pw pw_ok app]. rewrite L. split; [reflexivity | exact LL].
Qed.

(* ---- the fragment as seen by the generic codec: version byte 1, then the tree ---- *)
Definition recog_policy (b : bytes) : option (bytes * bytes) :=
  match b with
  | v :: r => if v =? 1 then match dec_pw max_policy_levels r with Some (p, r') => Some (1 :: enc_pw p, r') | None => None end else None
  | [] => None
  end.
Definition valid_policy (b : bytes) : Prop := exists p, pw_ok max_policy_levels p /\ b = 1 :: enc_pw p.

Lemma recog_policy_ok b rest : valid_policy b -> recog_policy (b ++ rest) = Some (b, rest).
Proof. intros (p & OK & ->). cbn [recog_policy app]. replace (1 =? 1) with true by reflexivity. rewrite (dec_pw_enc _ p rest OK). reflexivity. Qed.
Lemma recog_policy_sound b x r : byte_okl b -> recog_policy b = Some (x, r) -> b = x ++ r /\ valid_policy x.
Proof.
  intros O E. destruct b as [|v b1]; [discriminate|]. cbn [recog_policy] in E. destruct (v =? 1) eqn:V; [|discriminate].
  assert (v = 1) by lia. subst v. inversion O as [|? ? _ O1]; subst.
  destruct (dec_pw max_policy_levels b1) as [[p r']|] eqn:D; [|discriminate]. inversion E; subst.
  destruct (dec_pw_canonical _ _ _ _ O1 D) as [-> OK]. split; [reflexivity|]. exists p. split; [exact OK | reflexivity].
Qed.
Lemma valid_policy_nonempty b : valid_policy b -> (1 <= length b)%nat.
Proof. intros (p & _ & ->). cbn. lia. Qed.


(* extension stability: the decoder does not look past what it consumes *)
Lemma norecog_extend name b x r q : norecog name b = Some (x, r) -> norecog name (b ++ q) = Some (x, r ++ q).
Proof. discriminate. Qed.
Lemma dec_list_extend d cnt q : (forall b p r, d b = Some (p, r) -> d (b ++ q) = Some (p, r ++ q)) ->
  forall b ps r, dec_list d cnt b = Some (ps, r) -> dec_list d cnt (b ++ q) = Some (ps, r ++ q).
Proof.
  intros Hd. induction cnt as [|c IH]; intros b ps r E; cbn [dec_list] in E |- *.
  - inversion E; subst. reflexivity.
  - destruct (d b) as [[p r1]|] eqn:D1; [|discriminate]. destruct (dec_list d c r1) as [[ps' r2]|] eqn:D2; [|discriminate].
    inversion E; subst. rewrite (Hd _ _ _ D1), (IH _ _ _ D2). reflexivity.
Qed.
Theorem dec_pw_extend fuel q : forall b p r, dec_pw fuel b = Some (p, r) -> dec_pw fuel (b ++ q) = Some (p, r ++ q).
Proof.
  induction fuel as [|f IH]; intros b p r D; [discriminate|]. cbn [dec_pw] in D |- *.
  destruct b as [|op b1]; [discriminate|]. cbn [app]. destruct (op =? 5).
  - destruct b1 as [|n [|k r2]]; try discriminate. cbn [app].
    destruct (dec_list (dec_pw f) (N.to_nat k) r2) as [[ps r3]|] eqn:DL; [|discriminate]. inversion D; subst.
    rewrite (dec_list_extend _ _ q IH _ _ _ DL). reflexivity.
  - destruct (op =? 7).
    + destruct (dec norecog uc_schema b1) as [[v r']|] eqn:DU; [|discriminate]. inversion D; subst.
      rewrite (dec_extend norecog norecog_extend uc_schema _ _ _ q DU). reflexivity.
    + destruct (leaf_len op) as [l|]; [|discriminate]. destruct (take l b1) as [[pl r']|] eqn:T; [|discriminate]. inversion D; subst.
      rewrite (take_extend _ _ _ _ q T). reflexivity.
Qed.
Lemma recog_policy_extend b x r q : recog_policy b = Some (x, r) -> recog_policy (b ++ q) = Some (x, r ++ q).
Proof.
  intros E. destruct b as [|v b1]; [discriminate|]. cbn [recog_policy app] in E |- *. destruct (v =? 1); [|discriminate].
  destruct (dec_pw max_policy_levels b1) as [[p r']|] eqn:D; [|discriminate]. inversion E; subst.
  rewrite (dec_pw_extend _ q _ _ _ D). reflexivity.
Qed.

(* nesting: a chain of thresholds 32 deep around a leaf is accepted, 33 deep is not *)
Fixpoint nest (k : nat) (p : pw) : pw := match k with O => p | S k => PThresh 1 [nest k p] end.
Example depth_32_accepted : pw_ok max_policy_levels (nest 32 (PLeaf 1 (le_bytes 8 0))).
Proof. unfold max_policy_levels. repeat (cbn [nest pw_ok]; split; [lia|]; split; [cbn; lia|]; constructor; [|constructor]). cbn. reflexivity. Qed.
Example depth_33_refused : dec_pw max_policy_levels (enc_pw (nest 33 (PLeaf 1 (le_bytes 8 0)))) = None.
Proof. vm_compute. reflexivity. Qed.
