(* Three-valued results: Go code either returns a value, returns an error, or panics.
   "Never panics" is therefore a statement about the model, not an artefact of totality. *)
From Coq Require Import List.
Import ListNotations.

Inductive pan := PIndex | POverflow | PUnderflow | PDivZero | PShared | PMissing | PNilIface | PAlloc | PFuel.
Inductive res (E A : Type) := Ok (a : A) | Err (e : E) | Panic (p : pan).
Arguments Ok {E A} a.
Arguments Err {E A} e.
Arguments Panic {E A} p.

Definition bind {E A B} (r : res E A) (f : A -> res E B) : res E B :=
  match r with Ok a => f a | Err e => Err e | Panic p => Panic p end.
Notation "'do' x <- r ; k" := (bind r (fun x => k)) (at level 200, x pattern, r at level 100, k at level 200).

Definition no_panic {E A} (r : res E A) : Prop := forall p, r <> Panic p.
Definition is_ok {E A} (r : res E A) : bool := match r with Ok _ => true | _ => false end.

Lemma bind_ok {E A B} (r : res E A) (f : A -> res E B) b :
  bind r f = Ok b -> exists a, r = Ok a /\ f a = Ok b.
Proof. destruct r; simpl; intros H; try discriminate. eauto. Qed.

Lemma no_panic_bind {E A B} (r : res E A) (f : A -> res E B) :
  no_panic r -> (forall a, r = Ok a -> no_panic (f a)) -> no_panic (bind r f).
Proof.
  intros Hr Hf p. destruct r as [a|e|q]; simpl.
  - apply Hf; reflexivity.
  - discriminate.
  - exfalso; exact (Hr q eq_refl).
Qed.
