(* The line protocol shared by the Go harness, the extracted OCaml driver and in-Coq cases:
   every model entry point takes and returns a list of tokens. *)
From Coq Require Import ZArith NArith List String.
From Sia Require Import Prim.Result.
Import ListNotations.

Definition bytes := list N.          (* each element < 256 *)
Inductive tok := TZ (z : Z) | TB (b : bytes).

Definition pan_code (p : pan) : Z :=
  match p with
  | PIndex => 1 | POverflow => 2 | PUnderflow => 3 | PDivZero => 4 | PShared => 5
  | PMissing => 6 | PNilIface => 7 | PAlloc => 8 | PFuel => 9
  end%Z.

(* results are rendered as  0 v...  (ok) | 1 code (error) | 2 code (panic) *)
Definition tok_res {E A} (fe : E -> Z) (fa : A -> list tok) (r : res E A) : list tok :=
  match r with
  | Ok a => TZ 0 :: fa a
  | Err e => [TZ 1; TZ (fe e)]
  | Panic p => [TZ 2; TZ (pan_code p)]
  end.
Definition tbool (b : bool) : tok := TZ (if b then 1 else 0).
Definition bad_args : list tok := [TZ (-1)].

(* ---- a small parser over token lists ---- *)
Definition parser (A : Type) := list tok -> option (A * list tok).
Definition pret {A} (a : A) : parser A := fun ts => Some (a, ts).
Definition pbind {A B} (p : parser A) (f : A -> parser B) : parser B :=
  fun ts => match p ts with Some (a, ts') => f a ts' | None => None end.
Notation "'let*' x := p 'in' k" := (pbind p (fun x => k)) (at level 200, x pattern, p at level 100, k at level 200).
Definition pZ : parser Z := fun ts => match ts with TZ z :: r => Some (z, r) | _ => None end.
Definition pN : parser N := fun ts => match ts with TZ z :: r => Some (Z.to_N z, r) | _ => None end.
Definition pnat : parser nat := fun ts => match ts with TZ z :: r => Some (Z.to_nat z, r) | _ => None end.
Definition pbool : parser bool := fun ts => match ts with TZ z :: r => Some (negb (Z.eqb z 0), r) | _ => None end.
Definition pB : parser bytes := fun ts => match ts with TB b :: r => Some (b, r) | _ => None end.
Fixpoint prep {A} (n : nat) (p : parser A) : parser (list A) :=
  match n with
  | O => pret []
  | S n' => let* a := p in let* r := prep n' p in pret (a :: r)
  end.
(* count-prefixed list *)
Definition plist {A} (p : parser A) : parser (list A) := let* n := pnat in prep n p.
Definition run_parser {A} (p : parser A) (ts : list tok) : option A :=
  match p ts with Some (a, []) => Some a | _ => None end.
Definition tN (n : N) : tok := TZ (Z.of_N n).
Definition tnat (n : nat) : tok := TZ (Z.of_nat n).
