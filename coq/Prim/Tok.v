(* The line protocol shared by the Go harness, the extracted OCaml driver and in-Coq cases:
   every model entry point takes and returns a list of tokens. *)
From Coq Require Import ZArith NArith List String.
From Sia Require Import Prim.Result.
Import ListNotations.

Definition bytes := list N.          (* each element < 256 *)
Inductive tok := TZ (z : Z) | TB (b : bytes).

Definition pan_code (p : pan) : Z :=
  match p with
  | PIndex => 1 | POverflow => 2 | PUnderflow => 3 | PDivZero => 4 | PShared => 5
  | PMissing => 6 | PNilIface => 7 | PAlloc => 8 | PFuel => 9
  end%Z.

(* results are rendered as  0 v...  (ok) | 1 code (error) | 2 code (panic) *)
Definition tok_res {E A} (fe : E -> Z) (fa : A -> list tok) (r : res E A) : list tok :=
  match r with
  | Ok a => TZ 0 :: fa a
  | Err e => [TZ 1; TZ (fe e)]
  | Panic p => [TZ 2; TZ (pan_code p)]
  end.
Definition tbool (b : bool) : tok := TZ (if b then 1 else 0).
Definition bad_args : list tok := [TZ (-1)].
