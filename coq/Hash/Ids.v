(* Derived identifiers: the pre-images hashed by types/types.go and consensus/state.go, and why
   distinct derivations give distinct pre-images. H is an arbitrary hash function; a statement
   "IDs differ or a collision is exhibited" needs nothing about BLAKE2b. *)
From Coq Require Import List NArith Bool Lia.
From Sia Require Import Prim.Tok.
Import ListNotations.

Definition BAR : N := 124.            (* '|' *)
Definition dist (name : bytes) : bytes := [115; 105; 97; 47]%N ++ name ++ [BAR].   (* "sia/" name "|" *)
Definition no_bar (l : bytes) : Prop := ~ In BAR l.
Fixpoint no_barb (l : bytes) : bool := match l with [] => true | x :: r => negb (N.eqb x BAR) && no_barb r end.
Lemma no_barb_ok l : no_barb l = true -> no_bar l.
Proof.
  induction l as [|x r IH]; simpl; intros H; [intros []|].
  apply andb_true_iff in H. destruct H as [A B]. intros [E|E]; [subst; rewrite N.eqb_refl in A; discriminate|].
  exact (IH B E).
Qed.

Fixpoint le_bytes (n : nat) (x : N) : bytes :=
  match n with O => [] | S n' => N.modulo x 256 :: le_bytes n' (N.div x 256) end.
Definition u64 (x : N) : bytes := le_bytes 8 x.

Section Ids.
Variable H : bytes -> bytes.
Definition Collision : Prop := exists x y, x <> y /\ H x = H y.

(* hashAll(distinguisher, args...) *)
Definition derive (name : bytes) (args : bytes) : bytes := H (dist name ++ args).

(* the text up to the first '|' determines the distinguisher, the rest the arguments *)
Lemma split_at_bar l1 l2 r1 r2 : no_bar l1 -> no_bar l2 -> l1 ++ BAR :: r1 = l2 ++ BAR :: r2 -> l1 = l2 /\ r1 = r2.
Proof.
  revert l2. induction l1 as [|a l1 IH]; intros [|b l2] N1 N2 E; simpl in E.
  - inversion E; auto.
  - inversion E; subst. exfalso. apply N2. left; reflexivity.
  - inversion E; subst. exfalso. apply N1. left; reflexivity.
  - inversion E; subst. destruct (IH l2) as [A B]; auto.
    + intros X; apply N1; right; exact X.
    + intros X; apply N2; right; exact X.
    + subst; auto.
Qed.

Theorem derive_injective n1 n2 a1 a2 : no_bar n1 -> no_bar n2 ->
  derive n1 a1 = derive n2 a2 -> (n1 = n2 /\ a1 = a2) \/ Collision.
Proof.
  intros N1 N2 E. unfold derive in E.
  destruct (list_eq_dec N.eq_dec (dist n1 ++ a1) (dist n2 ++ a2)) as [Eq|Ne].
  - left. unfold dist in Eq. simpl in Eq. inversion Eq as [Eq']. clear Eq.
    rewrite <- !app_assoc in Eq'. simpl in Eq'. apply split_at_bar in Eq'; auto.
  - right. exists (dist n1 ++ a1), (dist n2 ++ a2). auto.
Qed.

(* fixed-width arguments: a 32-byte ID followed by an index *)
Lemma le_bytes_length n x : length (le_bytes n x) = n.
Proof. revert x; induction n; intros; simpl; auto. Qed.
Lemma le_bytes_inj n x y : (x < 256 ^ N.of_nat n)%N -> (y < 256 ^ N.of_nat n)%N -> le_bytes n x = le_bytes n y -> x = y.
Proof.
  revert x y. induction n as [|n IH]; intros x y Hx Hy E.
  - simpl in *. lia.
  - simpl in E. inversion E as [[E1 E2]].
    rewrite Nat2N.inj_succ, N.pow_succ_r' in Hx, Hy.
    assert (x / 256 = y / 256)%N.
    { apply IH; auto; apply N.div_lt_upper_bound; lia. }
    pose proof (N.div_mod x 256). pose proof (N.div_mod y 256). lia.
Qed.

Definition id_index_args (i : bytes) (k : N) : bytes := i ++ u64 k.
Lemma id_index_inj i1 i2 k1 k2 : length i1 = length i2 -> (k1 < 2 ^ 64)%N -> (k2 < 2 ^ 64)%N ->
  id_index_args i1 k1 = id_index_args i2 k2 -> i1 = i2 /\ k1 = k2.
Proof.
  intros L K1 K2 E. unfold id_index_args in E.
  assert (A : i1 = i2 /\ u64 k1 = u64 k2).
  { revert i2 L E. induction i1 as [|a r IH]; intros [|b r2] L E; simpl in *; try discriminate; auto.
    inversion E; subst. destruct (IH r2) as [X Y]; auto. subst; auto. }
  destruct A as [-> B]. split; [reflexivity|].
  apply (le_bytes_inj 8); auto.
Qed.

(* distinct (kind, parent id, index) derivations never coincide, or a collision of H is exhibited *)
Theorem derived_ids_distinct n1 n2 i1 i2 k1 k2 : no_bar n1 -> no_bar n2 -> length i1 = length i2 ->
  (k1 < 2 ^ 64)%N -> (k2 < 2 ^ 64)%N ->
  derive n1 (id_index_args i1 k1) = derive n2 (id_index_args i2 k2) ->
  (n1 = n2 /\ i1 = i2 /\ k1 = k2) \/ Collision.
Proof.
  intros N1 N2 L K1 K2 E. destruct (derive_injective _ _ _ _ N1 N2 E) as [[A B]|C]; [|right; exact C].
  left. destruct (id_index_inj _ _ _ _ L K1 K2 B). auto.
Qed.

(* an identifier that hashes an injective encoding binds what the encoding binds *)
Theorem id_binds {A} (enc : A -> bytes) (prefix : bytes) (x y : A) :
  (forall a b, enc a = enc b -> a = b) ->
  H (prefix ++ enc x) = H (prefix ++ enc y) -> x = y \/ Collision.
Proof.
  intros Inj E. destruct (list_eq_dec N.eq_dec (prefix ++ enc x) (prefix ++ enc y)) as [Eq|Ne].
  - left. apply app_inv_head in Eq. auto.
  - right. exists (prefix ++ enc x), (prefix ++ enc y). auto.
Qed.
Theorem id_ignores {A B} (proj : A -> B) (encB : B -> bytes) (prefix : bytes) (x y : A) :
  proj x = proj y -> H (prefix ++ encB (proj x)) = H (prefix ++ encB (proj y)).
Proof. intros ->. reflexivity. Qed.
End Ids.
