(* Entry points of the executable model, by name. One dispatcher so that the OCaml driver and
   the in-Coq case files need no per-function glue. *)
From Coq Require Import ZArith NArith List String Bool.
From Sia Require Import Prim.Result Prim.Tok Currency.Model Merkle.Tree Merkle.Forest Merkle.Acc Merkle.Rhp Policy.Model Pow.Model Codec.Schema Codec.Shape Codec.Irregular Gen.Schemas.
Import ListNotations.
Open Scope string_scope.
Open Scope list_scope.

Definition tcur (c : cur) : list tok := [TZ (lo c); TZ (hi c)].
Definition tcurb (r : cur * bool) : list tok := (tcur (fst r) ++ [tbool (snd r)])%list.
Definition unit_err (_ : unit) : Z := 0%Z.

Definition api_c15 (name : string) (args : list tok) : option (list tok) :=
  match args with
  | [TZ al; TZ ah; TZ bl; TZ bh] =>
    let a := mkCur al ah in let b := mkCur bl bh in
    if name =? "c15.add_wo" then Some (tcurb (add_wo a b))
    else if name =? "c15.sub_wu" then Some (tcurb (sub_wu a b))
    else if name =? "c15.mul_wo" then Some (tcurb (mul_wo a b))
    else if name =? "c15.cmp" then Some [TZ (cmp a b)]
    else if name =? "c15.add" then Some (tok_res unit_err tcur (add a b))
    else if name =? "c15.sub" then Some (tok_res unit_err tcur (sub a b))
    else if name =? "c15.mul" then Some (tok_res unit_err tcur (mul a b))
    else if name =? "c15.div" then Some (tok_res unit_err tcur (div a b))
    else if name =? "c15.quorem" then Some (tok_res unit_err (fun qr => (tcur (fst qr) ++ tcur (snd qr))%list) (quorem a b))
    else None
  | [TZ al; TZ ah; TZ v] =>
    let a := mkCur al ah in
    if name =? "c15.mul64_wo" then Some (tcurb (mul64_wo a v))
    else if name =? "c15.mul64" then Some (tok_res unit_err tcur (mul_64 a v))
    else if name =? "c15.div64" then Some (tok_res unit_err tcur (div_64 a v))
    else if name =? "c15.quorem64" then Some (tok_res unit_err (fun qr => (tcur (fst qr) ++ [TZ (snd qr)])%list) (quorem64 a v))
    else None
  | _ => None
  end.

Section Dispatch.
  Variable H : bytes -> bytes.     (* BLAKE2b-256, supplied by the driver *)

  (* ---- C05/C04: accumulator ---- *)
  Definition p_upd : parser eleaf := let* i := pN in let* e := pB in let* s := pbool in pret (mkLeaf e i s).
  Definition p_add : parser (hash * bool) := let* e := pB in let* s := pbool in pret (e, s).
  Definition p_block : parser block := let* us := plist p_upd in let* ads := plist p_add in pret {| b_updated := us; b_added := ads |}.
  Definition p_query : parser (eleaf * list hash) :=
    let* e := pB in let* i := pN in let* s := pbool in let* pr := plist pB in pret (mkLeaf e i s, pr).
  Definition t_digits (a : acc) : list tok :=
    List.concat (map (fun hd => match snd hd with Some r => [tnat (fst hd); TB r] | None => [] end) (combine (seq 0 (List.length a)) a)).
  Definition t_hashes (l : list hash) : list tok := (tnat (List.length l) :: map TB l)%list.
  Definition api_c05 (args : list tok) : list tok :=
    match run_parser (let* bs := plist p_block in let* tr := plist pN in let* qs := plist p_query in pret (bs, tr, qs)) args with
    | Some (bs, tr, qs) =>
      let L := run bs in
      let LH := map (leaf_hash H) L in
      let a := roots H LH in
      (tN (num_leaves a) :: t_digits a ++ [TZ (-1)]
        ++ List.concat (map (fun k => t_hashes (naive_proof H LH k)) tr)
        ++ [TZ (-1)]
        ++ map (fun q => tbool (contains_leaf H a (fst q) (snd q))) qs)%list
    | None => bad_args
    end.
  (* ---- C14: spend policies ---- *)
  Definition spec_of (l : list N) : bytes := firstn 16 (l ++ repeat 0%N 16).
  Definition SPEC_ED25519 := spec_of [101; 100; 50; 53; 53; 49; 57]%N.
  Definition SPEC_ENTROPY := spec_of [101; 110; 116; 114; 111; 112; 121]%N.
  Fixpoint p_policy (fuel : nat) : parser policy :=
    match fuel with
    | O => fun _ => None
    | S f =>
      let* k := pnat in
      match k with
      | 1 => let* h := pN in pret (PAbove h)
      | 2 => let* t := pZ in pret (PAfter t)
      | 3 => let* b := pB in pret (PPK b)
      | 4 => let* b := pB in pret (PHash b)
      | 5 => let* n := pN in let* ps := plist (p_policy f) in pret (PThresh n ps)
      | 6 => let* b := pB in pret (POpaque b)
      | 7 => let* tl := pN in let* ks := plist (let* a := pB in let* k := pB in pret (a, k)) in let* r := pN in pret (PUC tl ks r)
      | _ => fun _ => None
      end%nat
    end.
  Definition in_tab (tab : list (bytes * bytes)) (a b : bytes) : bool :=
    existsb (fun ab => Policy.Model.bytes_eqb (fst ab) a && Policy.Model.bytes_eqb (snd ab) b) tab.
  Definition p_pairs : parser (list (bytes * bytes)) := plist (let* a := pB in let* b := pB in pret (a, b)).
  Definition api_c14 (name : string) (args : list tok) : option (list tok) :=
    if name =? "c14.verify" then
      option_map (fun '(h, m, p, sg, pr, st, pt) =>
          tok_res perr_code (fun _ => []) (verify_policy h m (in_tab st) (in_tab pt) SPEC_ENTROPY SPEC_ED25519 p sg pr))
        (run_parser (let* h := pN in let* m := pZ in let* p := p_policy (List.length args) in let* sg := plist pB in let* pr := plist pB in
                     let* st := p_pairs in let* pt := p_pairs in pret (h, m, p, sg, pr, st, pt)) args)
    else if name =? "c14.address" then
      option_map (fun p => [TB (address H p)]) (run_parser (p_policy (List.length args)) args)
    else if name =? "c14.encode" then
      option_map (fun p => [TB (1%N :: enc_policy p)]) (run_parser (p_policy (List.length args)) args)
    else None.

  (* ---- C13: proof of work ---- *)
  Definition p_net : parser network :=
    let* a := pZ in let* b := pZ in let* c := pZ in let* d := pZ in let* e := pZ in let* f := pZ in
    let* g := pZ in let* h := pZ in let* i := pZ in let* j := pZ in
    pret {| n_interval := a; n_oak_height := b; n_oak_fix := c; n_oak_genesis := d; n_asic_height := e;
            n_asic_oaktime := f; n_asic_oaktarget := g; n_asic_nonce := h; n_v2_allow := i; n_v2_final := j |}.
  Definition p_pstate : parser pstate :=
    let* h := pZ in let* pv := prep 11 pZ in let* d := pZ in let* ct := pZ in let* ot := pZ in
    let* tw := pZ in let* df := pZ in let* ow := pZ in let* otm := pZ in
    pret {| p_height := h; p_prev := pv; p_depth := d; p_child_target := ct; p_oak_target := ot;
            p_total_work := tw; p_difficulty := df; p_oak_work := ow; p_oak_time := otm |}.
  Definition t_pstate (s : pstate) : list tok :=
    TZ (p_height s) :: map TZ (p_prev s) ++ [TZ (p_depth s); TZ (p_child_target s); TZ (p_oak_target s);
      TZ (p_total_work s); TZ (p_difficulty s); TZ (p_oak_work s); TZ (p_oak_time s)].
  Definition api_c13 (name : string) (args : list tok) : option (list tok) :=
    if name =? "c13.apply" then
      option_map (fun '(net, s, g, ts, tgt) => tok_res unit_err t_pstate (apply_header net s g ts tgt))
        (run_parser (let* net := p_net in let* s := p_pstate in let* g := pbool in let* ts := pZ in let* tgt := pZ in pret (net, s, g, ts, tgt)) args)
    else if name =? "c13.validate" then
      option_map (fun '(net, s, po, ts, nonce, id) => tok_res unit_err (fun z => [TZ z]) (validate_header net s po ts nonce id))
        (run_parser (let* net := p_net in let* s := p_pstate in let* po := pbool in let* ts := pZ in let* nonce := pZ in let* id := pZ in
                     pret (net, s, po, ts, nonce, id)) args)
    else if name =? "c13.heavier" then
      option_map (fun '(s, t) => tok_res unit_err (fun b => [tbool b]) (sufficiently_heavier s t))
        (run_parser (let* s := p_pstate in let* t := p_pstate in pret (s, t)) args)
    else if name =? "c13.powtarget" then
      option_map (fun '(net, s) => tok_res unit_err (fun z => [TZ z]) (pow_target net s))
        (run_parser (let* net := p_net in let* s := p_pstate in pret (net, s)) args)
    else None.

  (* ---- C11/C10: generated wire shapes ---- *)
  Definition ascii_of_byte (b : N) : Ascii.ascii := Ascii.ascii_of_N b.
  Definition string_of_bytes (l : bytes) : string := fold_right (fun b s => String (ascii_of_byte b) s) EmptyString l.
  Fixpoint find_type (n : string) (l : list (string * shape * shape)) : option (shape * shape) :=
    match l with [] => None | (m, e, d) :: r => if String.eqb n m then Some (e, d) else find_type n r end.
  Definition api_c11 (name : string) (args : list tok) : option (list tok) :=
    match args with
    | [TB tn; TB b] =>
      let tname := string_of_bytes tn in
      let found := match find_type tname gen_types with
                   | Some ed => Some ed
                   | None => if (tname =? "types.V1Currency") || (tname =? "types.V1SiafundOutput") || (tname =? "types.SpendPolicy")
                             then Some (HNamed tname, HNamed tname) else None
                   end in
      match found with
      | None => Some [TZ 3]
      | Some (e, d) =>
        if name =? "c11.recode" then
          Some (match to_schema d, to_schema e with
                | Some sd, Some se =>
                  match dec recog sd b with
                  | Some (v, rest) => [TZ 0; TB (enc se v); tnat (List.length rest)]
                  | None => [TZ 1]
                  end
                | _, _ => [TZ 3]
                end)
        else if name =? "c11.decode" then
          Some (match to_schema d with
                | Some sd => match dec recog sd b with Some _ => [TZ 0] | None => [TZ 1] end
                | None => [TZ 3]
                end)
        else None
      end
    | _ => None
    end.

  (* ---- C16: RHP Merkle ---- *)
  Definition p_action : parser action :=
    let* k := pnat in
    match k with
    | O => pret AAppend
    | S O => let* a := pN in pret (ATrim a)
    | _ => let* a := pN in let* b := pN in pret (ASwap a b)
    end.
  Definition t_obool (o : option bool) : list tok := match o with Some b => [tbool b] | None => [TZ 2; TZ 1] end.
  Definition api_c16 (name : string) (args : list tok) : option (list tok) :=
    if name =? "c16.mroot" then
      option_map (fun ls => [TB (mroot H ls)]) (run_parser (plist pB) args)
    else if name =? "c16.dataroot" then          (* leaves are 64-byte data blocks *)
      option_map (fun ls => [TB (mroot H (map (leafh H) ls))]) (run_parser (plist pB) args)
    else if name =? "c16.sizes" then
      option_map (fun '(n, s, e) => [tN (range_proof_size n s e)])
        (run_parser (let* n := pN in let* s := pN in let* e := pN in pret (n, s, e)) args)
    else if name =? "c16.build_range" then
      option_map (fun '(ls, s, e) => t_hashes (build_range_proof H ls s e))
        (run_parser (let* ls := plist pB in let* s := pN in let* e := pN in pret (ls, s, e)) args)
    else if name =? "c16.verify_range" then
      option_map (fun '(pr, rr, s, e, n, root) => [tbool (verify_range_proof H pr rr s e n root)])
        (run_parser (let* pr := plist pB in let* rr := plist pB in let* s := pN in let* e := pN in let* n := pN in let* root := pB in
                     pret (pr, rr, s, e, n, root)) args)
    else if name =? "c16.range_subtrees" then
      option_map (fun '(ls, s, e) => t_hashes (range_subtrees H 200 ls s e))
        (run_parser (let* ls := plist pB in let* s := pN in let* e := pN in pret (ls, s, e)) args)
    else if name =? "c16.verify_append" then
      option_map (fun '(n, th, sr, o, nw) => [tbool (verify_append H n th sr o nw)])
        (run_parser (let* n := pN in let* th := plist pB in let* sr := pB in let* o := pB in let* nw := pB in pret (n, th, sr, o, nw)) args)
    else if name =? "c16.build_append" then
      option_map (fun '(rs, ap) => let r := build_append_proof H rs ap in t_hashes (fst r) ++ [TB (snd r)])
        (run_parser (let* rs := plist pB in let* ap := plist pB in pret (rs, ap)) args)
    else if name =? "c16.verify_append_sectors" then
      option_map (fun '(n, st, ap, o, nw) => [tbool (verify_append_sectors H n st ap o nw)])
        (run_parser (let* n := pN in let* st := plist pB in let* ap := plist pB in let* o := pB in let* nw := pB in pret (n, st, ap, o, nw)) args)
    else if name =? "c16.build_diff" then
      option_map (fun '(acts, rs) => let r := build_diff_proof H acts rs in t_hashes (fst r) ++ t_hashes (snd r) ++ [tN (diff_proof_size acts (N.of_nat (List.length rs)))])
        (run_parser (let* acts := plist p_action in let* rs := plist pB in pret (acts, rs)) args)
    else if name =? "c16.verify_diff" then
      option_map (fun '(acts, n, th, lh, o, nw, ar) => t_obool (verify_diff_proof H acts n th lh o nw ar))
        (run_parser (let* acts := plist p_action in let* n := pN in let* th := plist pB in let* lh := plist pB in
                     let* o := pB in let* nw := pB in let* ar := plist pB in pret (acts, n, th, lh, o, nw, ar)) args)
    else if name =? "c16.build_free" then
      option_map (fun '(fr, rs) => let r := build_diff_proof H (convert_free_actions fr (N.of_nat (List.length rs))) rs in t_hashes (fst r) ++ t_hashes (snd r))
        (run_parser (let* fr := plist pN in let* rs := plist pB in pret (fr, rs)) args)
    else if name =? "c16.verify_free" then
      option_map (fun '(fr, n, th, lh, o, nw) => t_obool (verify_diff_proof H (convert_free_actions fr n) n th lh o nw []))
        (run_parser (let* fr := plist pN in let* n := pN in let* th := plist pB in let* lh := plist pB in
                     let* o := pB in let* nw := pB in pret (fr, n, th, lh, o, nw)) args)
    else if name =? "c16.free_actions" then
      option_map (fun '(fr, n) => List.concat (map (fun a => match a with AAppend => [TZ 0] | ATrim x => [TZ 1; tN x] | ASwap x y => [TZ 2; tN x; tN y] end) (convert_free_actions fr n)))
        (run_parser (let* fr := plist pN in let* n := pN in pret (fr, n)) args)
    else if name =? "c16.convert_order" then
      option_map (fun '(pr, i) => t_hashes (convert_proof_ordering pr i))
        (run_parser (let* pr := plist pB in let* i := pN in pret (pr, i)) args)
    else None.

  Definition api_dispatch (name : string) (args : list tok) : list tok :=
    match api_c15 name args with
    | Some r => r
    | None =>
    match api_c16 name args with
    | Some r => r
    | None =>
    match api_c14 name args with
    | Some r => r
    | None =>
    match api_c13 name args with
    | Some r => r
    | None =>
    match api_c11 name args with
    | Some r => r
    | None =>
    match name, args with
    | "hash", [TB b] => [TB (H b)]
    | "c05.run", _ => api_c05 args
    | "c05.leafhash", [TB e; TZ i; TZ s] => [TB (leaf_hash H (mkLeaf e (Z.to_N i) (negb (Z.eqb s 0))))]
    | "c05.proofroot", TB x :: TZ i :: ps => [TB (proofRootN H x (Z.to_N i) (List.concat (map (fun t => match t with TB b => [b] | _ => [] end) ps)))]
    | _, _ => bad_args
    end end end end end end.
End Dispatch.
