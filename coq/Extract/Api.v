(* Entry points of the executable model, by name. One dispatcher so that the OCaml driver and
   the in-Coq case files need no per-function glue. *)
From Coq Require Import ZArith NArith List String Bool.
From Sia Require Import Prim.Result Prim.Tok Currency.Model Merkle.Tree Merkle.Forest Merkle.Acc.
Import ListNotations.
Open Scope string_scope.
Open Scope list_scope.

Definition tcur (c : cur) : list tok := [TZ (lo c); TZ (hi c)].
Definition tcurb (r : cur * bool) : list tok := (tcur (fst r) ++ [tbool (snd r)])%list.
Definition unit_err (_ : unit) : Z := 0%Z.

Definition api_c15 (name : string) (args : list tok) : option (list tok) :=
  match args with
  | [TZ al; TZ ah; TZ bl; TZ bh] =>
    let a := mkCur al ah in let b := mkCur bl bh in
    if name =? "c15.add_wo" then Some (tcurb (add_wo a b))
    else if name =? "c15.sub_wu" then Some (tcurb (sub_wu a b))
    else if name =? "c15.mul_wo" then Some (tcurb (mul_wo a b))
    else if name =? "c15.cmp" then Some [TZ (cmp a b)]
    else if name =? "c15.add" then Some (tok_res unit_err tcur (add a b))
    else if name =? "c15.sub" then Some (tok_res unit_err tcur (sub a b))
    else if name =? "c15.mul" then Some (tok_res unit_err tcur (mul a b))
    else if name =? "c15.div" then Some (tok_res unit_err tcur (div a b))
    else if name =? "c15.quorem" then Some (tok_res unit_err (fun qr => (tcur (fst qr) ++ tcur (snd qr))%list) (quorem a b))
    else None
  | [TZ al; TZ ah; TZ v] =>
    let a := mkCur al ah in
    if name =? "c15.mul64_wo" then Some (tcurb (mul64_wo a v))
    else if name =? "c15.mul64" then Some (tok_res unit_err tcur (mul_64 a v))
    else if name =? "c15.div64" then Some (tok_res unit_err tcur (div_64 a v))
    else if name =? "c15.quorem64" then Some (tok_res unit_err (fun qr => (tcur (fst qr) ++ [TZ (snd qr)])%list) (quorem64 a v))
    else None
  | _ => None
  end.

Section Dispatch.
  Variable H : bytes -> bytes.     (* BLAKE2b-256, supplied by the driver *)

  (* ---- C05/C04: accumulator ---- *)
  Definition p_upd : parser eleaf := let* i := pN in let* e := pB in let* s := pbool in pret (mkLeaf e i s).
  Definition p_add : parser (hash * bool) := let* e := pB in let* s := pbool in pret (e, s).
  Definition p_block : parser block := let* us := plist p_upd in let* ads := plist p_add in pret {| b_updated := us; b_added := ads |}.
  Definition p_query : parser (eleaf * list hash) :=
    let* e := pB in let* i := pN in let* s := pbool in let* pr := plist pB in pret (mkLeaf e i s, pr).
  Definition t_digits (a : acc) : list tok :=
    List.concat (map (fun hd => match snd hd with Some r => [tnat (fst hd); TB r] | None => [] end) (combine (seq 0 (List.length a)) a)).
  Definition t_hashes (l : list hash) : list tok := (tnat (List.length l) :: map TB l)%list.
  Definition api_c05 (args : list tok) : list tok :=
    match run_parser (let* bs := plist p_block in let* tr := plist pN in let* qs := plist p_query in pret (bs, tr, qs)) args with
    | Some (bs, tr, qs) =>
      let L := run bs in
      let LH := map (leaf_hash H) L in
      let a := roots H LH in
      (tN (num_leaves a) :: t_digits a ++ [TZ (-1)]
        ++ List.concat (map (fun k => t_hashes (naive_proof H LH k)) tr)
        ++ [TZ (-1)]
        ++ map (fun q => tbool (contains_leaf H a (fst q) (snd q))) qs)%list
    | None => bad_args
    end.
  Definition api_dispatch (name : string) (args : list tok) : list tok :=
    match api_c15 name args with
    | Some r => r
    | None =>
    match name, args with
    | "hash", [TB b] => [TB (H b)]
    | "c05.run", _ => api_c05 args
    | "c05.leafhash", [TB e; TZ i; TZ s] => [TB (leaf_hash H (mkLeaf e (Z.to_N i) (negb (Z.eqb s 0))))]
    | "c05.proofroot", TB x :: TZ i :: ps => [TB (proofRootN H x (Z.to_N i) (List.concat (map (fun t => match t with TB b => [b] | _ => [] end) ps)))]
    | _, _ => bad_args
    end end.
End Dispatch.
