(* Entry points of the executable model, by name. One dispatcher so that the OCaml driver and
   the in-Coq case files need no per-function glue. *)
From Coq Require Import ZArith NArith List String Bool.
From Sia Require Import Prim.Result Prim.Tok Currency.Model Merkle.Tree Merkle.Update Merkle.UpdateProofs Merkle.Forest Merkle.Acc Merkle.Rhp Policy.Model Pow.Model Codec.Schema Codec.Shape Codec.Irregular Gen.Schemas Codec.Wire Ledger.Types Ledger.Mid Ledger.Validate Ledger.Apply Ledger.Kinds Ledger.Fresh Ledger.Fresh2 Merkle.StorageProof Hash.Ids Merkle.Multi Gateway.Outline Rhp4.Model Codec.Size Gen.Limits Codec.Framing Text.Hex Text.Currency Text.PolicyText Text.Forms.
Import ListNotations.
Open Scope string_scope.
Open Scope list_scope.

Definition tcur (c : cur) : list tok := [TZ (lo c); TZ (hi c)].
Definition tcurb (r : cur * bool) : list tok := (tcur (fst r) ++ [tbool (snd r)])%list.
Definition unit_err (_ : unit) : Z := 0%Z.

Definition api_c15 (name : string) (args : list tok) : option (list tok) :=
  match args with
  | [TZ al; TZ ah; TZ bl; TZ bh] =>
    let a := mkCur al ah in let b := mkCur bl bh in
    if name =? "c15.add_wo" then Some (tcurb (add_wo a b))
    else if name =? "c15.sub_wu" then Some (tcurb (sub_wu a b))
    else if name =? "c15.mul_wo" then Some (tcurb (mul_wo a b))
    else if name =? "c15.cmp" then Some [TZ (cmp a b)]
    else if name =? "c15.add" then Some (tok_res unit_err tcur (add a b))
    else if name =? "c15.sub" then Some (tok_res unit_err tcur (sub a b))
    else if name =? "c15.mul" then Some (tok_res unit_err tcur (mul a b))
    else if name =? "c15.div" then Some (tok_res unit_err tcur (div a b))
    else if name =? "c15.quorem" then Some (tok_res unit_err (fun qr => (tcur (fst qr) ++ tcur (snd qr))%list) (quorem a b))
    else None
  | [TZ al; TZ ah; TZ v] =>
    let a := mkCur al ah in
    if name =? "c15.mul64_wo" then Some (tcurb (mul64_wo a v))
    else if name =? "c15.mul64" then Some (tok_res unit_err tcur (mul_64 a v))
    else if name =? "c15.div64" then Some (tok_res unit_err tcur (div_64 a v))
    else if name =? "c15.quorem64" then Some (tok_res unit_err (fun qr => (tcur (fst qr) ++ [TZ (snd qr)])%list) (quorem64 a v))
    else None
  | _ => None
  end.

Section Dispatch.
  Variable H : bytes -> bytes.     (* BLAKE2b-256, supplied by the driver *)

  (* ---- C05/C04: accumulator ---- *)
  Definition p_upd : parser eleaf := let* i := pN in let* e := pB in let* s := pbool in pret (mkLeaf e i s).
  Definition p_add : parser (hash * bool) := let* e := pB in let* s := pbool in pret (e, s).
  Definition p_block : parser block := let* us := plist p_upd in let* ads := plist p_add in pret {| b_updated := us; b_added := ads |}.
  Definition p_query : parser (eleaf * list hash) :=
    let* e := pB in let* i := pN in let* s := pbool in let* pr := plist pB in pret (mkLeaf e i s, pr).
  Definition t_digits (a : acc) : list tok :=
    List.concat (map (fun hd => match snd hd with Some r => [tnat (fst hd); TB r] | None => [] end) (combine (seq 0 (List.length a)) a)).
  Definition t_hashes (l : list hash) : list tok := (tnat (List.length l) :: map TB l)%list.
  Definition api_c05 (args : list tok) : list tok :=
    match run_parser (let* bs := plist p_block in let* tr := plist pN in let* qs := plist p_query in pret (bs, tr, qs)) args with
    | Some (bs, tr, qs) =>
      let L := run bs in
      let LH := map (leaf_hash H) L in
      let a := roots H LH in
      (tN (num_leaves a) :: t_digits a ++ [TZ (-1)]
        ++ List.concat (map (fun k => t_hashes (naive_proof H LH k)) tr)
        ++ [TZ (-1)]
        ++ map (fun q => tbool (contains_leaf H a (fst q) (snd q))) qs)%list
    | None => bad_args
    end.

  (* updateLeaves + updateProof inside one tree of height h: the updated leaves (index, new leaf hash, proof before the
     block, bottom-up) and other leaves of the tree (index, proof before the block); returns the new root, the updated
     leaves' new proofs and the other leaves' patched proofs, bottom-up *)
  Definition api_c05_update (args : list tok) : list tok :=
    match run_parser (let* h := pnat in
                      let* us := plist (let* i := pN in let* y := pB in let* pr := plist pB in pret (i, y, pr)) in
                      let* ts := plist (let* i := pN in let* pr := plist pB in pret (i, pr)) in pret (h, us, ts)) args with
    | Some (h, us, ts) =>
      let pos_of (i : N) := path h (N.modulo i (2 ^ N.of_nat h)) in
      let ls := map (fun '(i, y, pr) => Build_uleaf hash (pos_of i) y (rev pr)) us in
      let '(rt, ls') := recompute hash (Acc.node H) h [] ls in
      let find_new (p : list bool) := match find (fun u => if list_eq_dec Bool.bool_dec (pos hash u) p then true else false) ls' with
                                      | Some u => rev (prf hash u) | None => [] end in
      (TB rt :: List.concat (map (fun '(i, _, _) => t_hashes (find_new (pos_of i))) us)
         ++ List.concat (map (fun '(i, pr) => t_hashes (rev (update_proof hash (Acc.node H) (pos_of i) (rev pr) ls'))) ts))%list
    | None => bad_args
    end.

  (* ---- C18: multiproofs and block outlines ---- *)
  Definition p_mleaf : parser (mleaf hash) :=
    let* i := pN in let* x := pB in let* pr := plist pB in pret {| ml_idx := i; ml_hash := x; ml_proof := pr |}.
  Definition bytes_eqb (a b : bytes) : bool := if list_eq_dec N.eq_dec a b then true else false.
  Definition find_proof (out : list (nat * list (N * list hash))) (h : nat) (i : N) : option (list hash) :=
    match find (fun e => Nat.eqb (fst e) h) out with
    | Some (_, l) => match find (fun e => N.eqb (fst e) i) l with Some (_, p) => Some p | None => None end
    | None => None
    end.
  Definition api_c18 (name : string) (args : list tok) : option (list tok) :=
    if name =? "c18.multiproof" then
      option_map (fun ls =>
        match compute_all hash ls with
        | Some mp => (TZ 0 :: tN (infer_leaves (map (fun x => (ml_idx hash x, List.length (ml_proof hash x))) ls))
                        :: tnat (msize_all hash ls) :: t_hashes mp)%list
        | None => [TZ 2]
        end) (run_parser (plist p_mleaf) args)
    else if (name =? "c18.expand") || (name =? "c18.verdict") then
      option_map (fun '(nl, ls, mp) =>
        (if name =? "c18.verdict" then firstn 1 else (fun l : list tok => l)) (
        let lens := map (fun x => proof_len (fst x) nl) ls in
        if existsb (fun o => match o with None => true | Some _ => false end) lens then [TZ 1] else
        let blank := map (fun x => {| ml_idx := fst x; ml_hash := snd x;
                                      ml_proof := repeat (@nil N) (match proof_len (fst x) nl with Some h => h | None => 0 end) |}) ls in
        match expand_all hash (node H) blank mp with
        | None => [TZ 2]
        | Some (out, rest) =>
          (TZ 0 :: tnat (List.length rest) ::
            List.concat (map (fun x => match find_proof out (List.length (ml_proof hash x)) (ml_idx hash x) with
                                       | Some p => t_hashes p
                                       | None => [TZ (-1)]
                                       end) blank))%list
        end)) (run_parser (let* nl := pN in let* ls := plist (let* i := pN in let* x := pB in pret (i, x)) in
                          let* mp := plist pB in pret (nl, ls, mp)) args)
    else if name =? "c18.outline" then
      option_map (fun '(b, omit, pool) =>
        let o := complete bytes bytes bytes_eqb (fun x => x) (outline bytes bytes bytes_eqb (fun x => x) b omit) pool in
        (map (fun e => tbool (match o_txn bytes bytes e with Some _ => true | None => false end)) o
          ++ TZ (-1) :: map TB (missing bytes bytes o))%list)
        (run_parser (let* b := plist pB in let* om := plist pB in let* pool := plist pB in pret (b, om, pool)) args)
    else None.


  (* ---- C17: RHP4 constructors ---- *)
  Definition p_fcnum : parser fc2 :=
    let* cap := pZ in let* fs := pZ in let* ph := pZ in let* eh := pZ in let* rv := pZ in let* hv := pZ in
    let* mh := pZ in let* tc := pZ in let* rn := pZ in
    pret {| c_capacity := cap; c_filesize := fs; c_root := []; c_proof_height := ph; c_exp_height := eh;
            c_renter := {| sco_value := rv; sco_addr := [] |}; c_host := {| sco_value := hv; sco_addr := [] |};
            c_missed_host := mh; c_collateral := tc; c_renter_key := []; c_host_key := []; c_revnum := rn;
            c_renter_sig := []; c_host_sig := []; c_sighash := []; c_tax := 0 |}.
  Definition t_fcnum (fc : fc2) : list tok :=
    [TZ (c_capacity fc); TZ (c_filesize fc); TZ (c_proof_height fc); TZ (c_exp_height fc); TZ (sco_value (c_renter fc));
     TZ (sco_value (c_host fc)); TZ (c_missed_host fc); TZ (c_collateral fc); TZ (c_revnum fc)].
  Definition p_prices : parser prices :=
    let* a := pZ in let* b := pZ in let* c := pZ in let* d := pZ in let* e := pZ in let* f := pZ in let* g := pZ in
    pret {| pr_contract := a; pr_collateral := b; pr_storage := c; pr_ingress := d; pr_egress := e; pr_free := f; pr_tip := g |}.
  Definition t_usage (u : usage) : list tok :=
    [TZ (u_rpc u); TZ (u_storage u); TZ (u_egress u); TZ (u_ingress u); TZ (u_fund u); TZ (u_risked u)].
  Definition t_R {A} (f : A -> list tok) (r : R A) : list tok :=
    match r with Ok a => (TZ 0 :: f a)%list | Err c => [TZ 1; TZ c] | Panic _ => [TZ 2] end.
  Definition api_c17 (name : string) (args : list tok) : option (list tok) :=
    if name =? "c17.revise" then
      option_map (fun '(k, fc, p, n) =>
        t_R (fun x => (t_fcnum (fst x) ++ t_usage (snd x))%list)
          (match k with
           | 0%Z => revise_append fc p [] n
           | 1%Z => revise_free fc p [] n
           | 2%Z => revise_roots fc p n
           | _ => revise_fund fc n
           end)) (run_parser (let* k := pZ in let* fc := p_fcnum in let* p := p_prices in let* n := pZ in pret (k, fc, p, n)) args)
    else if name =? "c17.new" then
      option_map (fun '(p, al, co, ph, fee) =>
        t_R (fun x => (t_fcnum (fst x) ++ t_usage (snd x) ++ t_R (fun c => [TZ (fst c); TZ (snd c)]) (contract_cost (fst x) fee))%list)
          (new_contract p al co ph [] [] [] []))
        (run_parser (let* p := p_prices in let* al := pZ in let* co := pZ in let* ph := pZ in let* fee := pZ in pret (p, al, co, ph, fee)) args)
    else if name =? "c17.renew" then
      option_map (fun '(k, fc, p, al, co, ph, fee) =>
        let r := match k with 0%Z => renew_contract fc p [] al co ph | 1%Z => refresh_partial fc p [] al co | _ => refresh_full fc p [] al co end in
        t_R (fun x => let rn := fst x in
               ([TZ (sco_value (rn_final_renter rn)); TZ (sco_value (rn_final_host rn)); TZ (rn_renter_rollover rn); TZ (rn_host_rollover rn)]
                ++ t_fcnum (rn_new rn) ++ t_usage (snd x)
                ++ t_R (fun c => [TZ (fst c); TZ (snd c)]) (match k with 0%Z => renewal_cost rn fee | _ => refresh_cost p rn fee end))%list) r)
        (run_parser (let* k := pZ in let* fc := p_fcnum in let* p := p_prices in let* al := pZ in let* co := pZ in let* ph := pZ in
                     let* fee := pZ in pret (k, fc, p, al, co, ph, fee)) args)
    else if name =? "c17.tax" then
      option_map (fun t => [TZ (tax_adjusted_payout t); TZ (fc_tax (tax_adjusted_payout t))]) (run_parser pZ args)
    else if name =? "c17.minmax" then
      option_map (fun '(p, x) => (t_R (fun v => [TZ v]) (min_renter_allowance p x) ++ t_R (fun v => [TZ v]) (max_host_collateral p x))%list)
        (run_parser (let* p := p_prices in let* x := pZ in pret (p, x)) args)
    else None.

  (* ---- C14: spend policies ---- *)
  Definition spec_of (l : list N) : bytes := firstn 16 (l ++ repeat 0%N 16).
  Definition SPEC_ED25519 := spec_of [101; 100; 50; 53; 53; 49; 57]%N.
  Definition SPEC_ENTROPY := spec_of [101; 110; 116; 114; 111; 112; 121]%N.
  Fixpoint p_policy (fuel : nat) : parser policy :=
    match fuel with
    | O => fun _ => None
    | S f =>
      let* k := pnat in
      match k with
      | 1 => let* h := pN in pret (PAbove h)
      | 2 => let* t := pZ in pret (PAfter t)
      | 3 => let* b := pB in pret (PPK b)
      | 4 => let* b := pB in pret (PHash b)
      | 5 => let* n := pN in let* ps := plist (p_policy f) in pret (PThresh n ps)
      | 6 => let* b := pB in pret (POpaque b)
      | 7 => let* tl := pN in let* ks := plist (let* a := pB in let* k := pB in pret (a, k)) in let* r := pN in pret (PUC tl ks r)
      | _ => fun _ => None
      end%nat
    end.
  Definition in_tab (tab : list (bytes * bytes)) (a b : bytes) : bool :=
    existsb (fun ab => Policy.Model.bytes_eqb (fst ab) a && Policy.Model.bytes_eqb (snd ab) b) tab.
  Definition p_pairs : parser (list (bytes * bytes)) := plist (let* a := pB in let* b := pB in pret (a, b)).
  Definition api_c14 (name : string) (args : list tok) : option (list tok) :=
    if name =? "c14.verify" then
      option_map (fun '(h, m, p, sg, pr, st, pt) =>
          tok_res perr_code (fun _ => []) (verify_policy h m (in_tab st) (in_tab pt) SPEC_ENTROPY SPEC_ED25519 p sg pr))
        (run_parser (let* h := pN in let* m := pZ in let* p := p_policy (List.length args) in let* sg := plist pB in let* pr := plist pB in
                     let* st := p_pairs in let* pt := p_pairs in pret (h, m, p, sg, pr, st, pt)) args)
    else if name =? "c14.address" then
      option_map (fun p => [TB (address H p)]) (run_parser (p_policy (List.length args)) args)
    else if name =? "c14.encode" then
      option_map (fun p => [TB (1%N :: enc_policy p)]) (run_parser (p_policy (List.length args)) args)
    else None.

  (* ---- C13: proof of work ---- *)
  Definition p_net : parser network :=
    let* a := pZ in let* b := pZ in let* c := pZ in let* d := pZ in let* e := pZ in let* f := pZ in
    let* g := pZ in let* h := pZ in let* i := pZ in let* j := pZ in
    pret {| n_interval := a; n_oak_height := b; n_oak_fix := c; n_oak_genesis := d; n_asic_height := e;
            n_asic_oaktime := f; n_asic_oaktarget := g; n_asic_nonce := h; n_v2_allow := i; n_v2_final := j |}.
  Definition p_pstate : parser pstate :=
    let* h := pZ in let* pv := prep 11 pZ in let* d := pZ in let* ct := pZ in let* ot := pZ in
    let* tw := pZ in let* df := pZ in let* ow := pZ in let* otm := pZ in
    pret {| p_height := h; p_prev := pv; p_depth := d; p_child_target := ct; p_oak_target := ot;
            p_total_work := tw; p_difficulty := df; p_oak_work := ow; p_oak_time := otm |}.
  Definition t_pstate (s : pstate) : list tok :=
    TZ (p_height s) :: map TZ (p_prev s) ++ [TZ (p_depth s); TZ (p_child_target s); TZ (p_oak_target s);
      TZ (p_total_work s); TZ (p_difficulty s); TZ (p_oak_work s); TZ (p_oak_time s)].
  Definition api_c13 (name : string) (args : list tok) : option (list tok) :=
    if name =? "c13.apply" then
      option_map (fun '(net, s, g, ts, tgt) => tok_res unit_err t_pstate (apply_header net s g ts tgt))
        (run_parser (let* net := p_net in let* s := p_pstate in let* g := pbool in let* ts := pZ in let* tgt := pZ in pret (net, s, g, ts, tgt)) args)
    else if name =? "c13.validate" then
      option_map (fun '(net, s, po, ts, nonce, id) => tok_res unit_err (fun z => [TZ z]) (validate_header net s po ts nonce id))
        (run_parser (let* net := p_net in let* s := p_pstate in let* po := pbool in let* ts := pZ in let* nonce := pZ in let* id := pZ in
                     pret (net, s, po, ts, nonce, id)) args)
    else if name =? "c13.heavier" then
      option_map (fun '(s, t) => tok_res unit_err (fun b => [tbool b]) (sufficiently_heavier s t))
        (run_parser (let* s := p_pstate in let* t := p_pstate in pret (s, t)) args)
    else if name =? "c13.powtarget" then
      option_map (fun '(net, s) => tok_res unit_err (fun z => [TZ z]) (pow_target net s))
        (run_parser (let* net := p_net in let* s := p_pstate in pret (net, s)) args)
    else None.

  (* ---- C11/C10: generated wire shapes ---- *)
  Definition ascii_of_byte (b : N) : Ascii.ascii := Ascii.ascii_of_N b.
  Definition string_of_bytes (l : bytes) : string := fold_right (fun b s => String (ascii_of_byte b) s) EmptyString l.
  Fixpoint find_type (n : string) (l : list (string * shape * shape)) : option (shape * shape) :=
    match l with [] => None | (m, e, d) :: r => if String.eqb n m then Some (e, d) else find_type n r end.
  Definition api_c11 (name : string) (args : list tok) : option (list tok) :=
    if negb ((name =? "c11.recode") || (name =? "c11.decode")) then None else
    match args with
    | [TB tn; TB b] =>
      let tname := string_of_bytes tn in
      let found := match find_type tname gen_types with
                   | Some ed => Some ed
                   | None => if (tname =? "types.V1Currency") || (tname =? "types.V1SiafundOutput") || (tname =? "types.SpendPolicy")
                                || (tname =? "types.V2FileContractResolution") || (tname =? "types.V2Transaction")
                             then Some (HNamed tname, HNamed tname) else None
                   end in
      match found with
      | None => Some [TZ 3]
      | Some (e, d) =>
        if name =? "c11.recode" then
          Some (match to_schema d, to_schema e with
                | Some sd, Some se =>
                  match dec recog_all sd b with
                  | Some (v, rest) => [TZ 0; TB (enc se v); tnat (List.length rest)]
                  | None => [TZ 1]
                  end
                | _, _ => [TZ 3]
                end)
        else if name =? "c11.decode" then
          Some (match to_schema d with
                | Some sd => match dec recog_all sd b with Some _ => [TZ 0] | None => [TZ 1] end
                | None => [TZ 3]
                end)
        else None
      end
    | _ => None
    end.


  (* ---- C19: sizes and framing ---- *)
  Definition api_c19 (name : string) (args : list tok) : option (list tok) :=
    if name =? "c19.maxsize" then
      option_map (fun '(tn, lims) =>
        let n := string_of_bytes tn in
        match object_size n lims, receiver_limit n with
        | Some sz, Some lim => [TZ 0; tN sz; tN lim]
        | _, _ => [TZ 3]
        end) (run_parser (let* tn := pB in let* lims := plist pN in pret (tn, lims)) args)
    else if name =? "c19.frame" then
      (* ReadRequest / ReadResponse of the named object on a stream: 0 decoded, 1 rejected *)
      option_map (fun (x : bytes * bool * bytes) => let '(tn, resp, stream) := x in
        let n := string_of_bytes tn in
        match find_type n gen_types, find_type "rhp/v4.RPCError" gen_types, receiver_limit n, lookupN n gen_maxlen with
        | Some (_, d), Some (_, de), Some lim, Some ml =>
          match to_schema d, to_schema de with
          | Some so, Some se =>
            if resp then
              match read_response recog_all (N.to_nat (N.min lim (N.of_nat (List.length stream)))) se so stream with
              | Some (inl _, _) => [TZ 2]        (* delivered as an error *)
              | Some (inr _, _) => [TZ 0]
              | None => [TZ 1]
              end
            else match read_limited recog_all (N.to_nat (N.min ml (N.of_nat (List.length stream)))) so stream with Some _ => [TZ 0] | None => [TZ 1] end
          | _, _ => [TZ 3]
          end
        | _, _, _, _ => [TZ 3]
        end) (run_parser (let* tn := pB in let* resp := pbool in let* st := pB in pret (tn, resp, st)) args)
    else None.


  (* ---- C20: text forms ---- *)
  Definition api_c20 (name : string) (args : list tok) : option (list tok) :=
    match name, args with
    | "c20.hex", [TZ k; TB s] => Some (match unmarshal_hex (Z.to_nat k) s with Some b => [TZ 0; TB b] | None => [TZ 1] end)
    | "c20.pk_render", [TB b] => Some [TB (pk_render b)]
    | "c20.pk_parse", [TB s] => Some (match pk_parse s with Some a => [TZ 0; TB a] | None => [TZ 1] end)
    | "c20.ci_render", [TZ h; TB b] => Some [TB (ci_render (Z.to_N h) b)]
    | "c20.ci_parse", [TB s] => Some (match ci_parse s with Some (h, a) => [TZ 0; tN h; TB a] | None => [TZ 1] end)
    | "c20.hexenc", [TB b] => Some [TB (hex_encode b)]
    | "c20.addr_parse", [TB s] => Some (match addr_parse H s with Some a => [TZ 0; TB a] | None => [TZ 1] end)
    | "c20.addr_render", [TB a] => Some [TB (addr_render H a)]
    | "c20.cur_render", [TZ c] => Some [TB (cur_render (Z.to_N c))]
    | "c20.cur_exact", [TZ c] => Some [TB (digits (Z.to_N c))]
    | "c20.pol_parse", [TB s] =>
        Some (match parse_spend_policy s with
              | TOk p => match render p with Some t => [TZ 0; TB t] | None => [TZ 3] end
              | TErr => [TZ 1]
              | TUn => [TZ 3]
              end)
    | "c20.cur_parse", [TB s] => Some (match cur_parse s with POk v => [TZ 0; tN v] | PErr => [TZ 1] | PUnmodelled => [TZ 3] end)
    | "c20.pol_render", _ :: _ =>
        Some (match run_parser (p_policy (List.length args)) args with
              | Some p => match render p with Some t => [TZ 0; TB t] | None => [TZ 3] end
              | None => [TZ 4]
              end)
    | _, _ => None
    end.

  (* ---- ledger ---- *)
  Definition p_sco : parser sco := let* v := pZ in let* a := pB in pret {| sco_value := v; sco_addr := a |}.
  Definition p_sce : parser sce := let* i := pB in let* o := p_sco in let* m := pZ in pret {| sce_id := i; sce_out := o; sce_maturity := m |}.
  Definition p_pres {A} (p : parser A) : parser (pres A) :=
    let* l := pZ in let* ok := pbool in let* v := p in pret {| p_leaf := l; p_proof_ok := ok; p_val := v |}.
  Definition p_sfe : parser sfe := let* i := pB in let* v := pZ in let* a := pB in let* c := pZ in pret {| sfe_id := i; sfe_value := v; sfe_addr := a; sfe_claim := c |}.
  Definition p_fc1 : parser fc1 :=
    let* fs := pZ in let* rt := pB in let* ws := pZ in let* we := pZ in let* po := pZ in let* v := plist p_sco in let* ms := plist p_sco in
    let* uh := pB in let* rn := pZ in
    pret {| fc_filesize := fs; fc_root := rt; fc_wstart := ws; fc_wend := we; fc_payout := po; fc_valid := v; fc_missed := ms; fc_uh := uh; fc_revnum := rn |}.
  Definition p_fce1 : parser fce1 := let* i := pB in let* fc := p_fc1 in pret {| fce_id := i; fce_fc := fc |}.
  Definition p_fc2 : parser fc2 :=
    let* cap := pZ in let* fs := pZ in let* rt := pB in let* ph := pZ in let* eh := pZ in let* ro := p_sco in let* ho := p_sco in
    let* mh := pZ in let* tc := pZ in let* rk := pB in let* hk := pB in let* rn := pZ in let* rs := pB in let* hs := pB in let* sh := pB in
    pret {| c_capacity := cap; c_filesize := fs; c_root := rt; c_proof_height := ph; c_exp_height := eh; c_renter := ro; c_host := ho;
            c_missed_host := mh; c_collateral := tc; c_renter_key := rk; c_host_key := hk; c_revnum := rn; c_renter_sig := rs; c_host_sig := hs;
            c_sighash := sh; c_tax := 0%Z |}.
  Definition p_fce2 : parser fce2 := let* i := pB in let* fc := p_fc2 in pret {| v2_id := i; v2_fc := fc |}.
  Definition p_keys : parser (list (bytes * bytes)) := plist (let* a := pB in let* k := pB in pret (a, k)).
  Definition p_sci1 : parser sci1 := let* p := pB in let* tl := pZ in let* uh := pB in let* ks := p_keys in let* n := pZ in
    pret {| i1_parent := p; i1_timelock := tl; i1_uh := uh; i1_keys := ks; i1_need := n |}.
  Definition p_sfi1 : parser sfi1 := let* p := pB in let* tl := pZ in let* uh := pB in let* ks := p_keys in let* n := pZ in let* ca := pB in let* ci := pB in
    pret {| f1_parent := p; f1_timelock := tl; f1_uh := uh; f1_keys := ks; f1_need := n; f1_claim_addr := ca; f1_claim_id := ci |}.
  Definition p_rev1 : parser rev1 := let* p := pB in let* tl := pZ in let* uh := pB in let* ks := p_keys in let* n := pZ in let* fc := p_fc1 in
    pret {| r1_parent := p; r1_timelock := tl; r1_uh := uh; r1_keys := ks; r1_need := n; r1_fc := fc |}.
  Definition p_sp1 : parser sp1 := let* p := pB in let* lf := pB in let* pr := plist pB in let* ids := plist pB in
    pret {| s1_parent := p; s1_leaf := lf; s1_proof := pr; s1_valid_ids := ids |}.
  Definition p_sig1 : parser sig1 := let* p := pB in let* ki := pZ in let* tl := pZ in let* w := pbool in let* c := pbool in let* sg := pB in let* sh := pB in
    pret {| g_parent := p; g_keyidx := ki; g_timelock := tl; g_whole := w; g_covered_ok := c; g_sig := sg; g_sighash := sh |}.
  Definition p_arb : parser arb := let* k := pnat in
    match k with O => pret ArbOther | S O => pret ArbBadUpdate | _ => let* a := pB in let* b := pB in pret (ArbUpdate a b) end.
  Definition p_idsco : parser (id * sco) := let* i := pB in let* o := p_sco in pret (i, o).
  Definition p_idsfo : parser (id * (Z * bytes)) := let* i := pB in let* v := pZ in let* a := pB in pret (i, (v, a)).
  Definition p_txn1 : parser txn1 :=
    let* i := pB in let* w := pZ in let* a := plist p_sci1 in let* b := plist p_idsco in let* c := plist p_sfi1 in let* d := plist p_idsfo in
    let* e := plist (let* i := pB in let* fc := p_fc1 in pret (i, fc, 0%Z)) in let* f := plist p_rev1 in let* g := plist p_sp1 in
    let* h := plist pZ in let* ar := plist p_arb in let* sg := plist p_sig1 in
    pret {| t1_id := i; t1_weight := w; t1_sci := a; t1_sco := b; t1_sfi := c; t1_sfo := d; t1_fc := e; t1_rev := f; t1_sp := g;
            t1_fees := h; t1_arb := ar; t1_sigs := sg |}.
  Definition p_supp1 : parser supp1 :=
    let* a := plist (p_pres p_sce) in let* b := plist (p_pres p_sfe) in let* c := plist (p_pres p_fce1) in
    let* d := plist (let* fc := p_pres p_fce1 in let* w := pB in pret {| ss_fc := fc; ss_window := w |}) in
    pret {| u_sci := a; u_sfi := b; u_rev := c; u_sp := d |}.
  Definition p_sat (fuel : nat) : parser satisfied :=
    let* p := p_policy fuel in let* sg := plist pB in let* pr := plist pB in pret {| sp_policy := p; sp_sigs := sg; sp_pres := pr |}.
  Definition p_sci2 (fuel : nat) : parser sci2 := let* p := p_pres p_sce in let* s := p_sat fuel in pret {| i2_parent := p; i2_policy := s |}.
  Definition p_sfi2 (fuel : nat) : parser sfi2 := let* p := p_pres p_sfe in let* ca := pB in let* ci := pB in let* s := p_sat fuel in
    pret {| f2_parent := p; f2_claim_addr := ca; f2_claim_id := ci; f2_policy := s |}.
  Definition p_rev2 : parser rev2 := let* p := p_pres p_fce2 in let* r := p_fc2 in pret {| r2_parent := p; r2_rev := r |}.
  Definition p_res2 : parser res2 :=
    let* p := p_pres p_fce2 in let* k := pnat in
    let* r := match k with
              | O => let* fr := p_sco in let* fh := p_sco in let* rr := pZ in let* hr := pZ in let* nc := p_fc2 in let* rs := pB in let* hs := pB in
                     let* sh := pB in let* ni := pB in
                     pret (RRenewal {| rn_final_renter := fr; rn_final_host := fh; rn_renter_rollover := rr; rn_host_rollover := hr; rn_new := nc;
                                       rn_renter_sig := rs; rn_host_sig := hs; rn_sighash := sh; rn_new_id := ni |})
              | S O => let* ix := p_pres (let* i := pB in let* h := pZ in pret (i, h)) in let* lf := pB in let* pr := plist pB in
                       pret (RProof {| sp2_index := ix; sp2_leaf := lf; sp2_proof := pr |})
              | _ => pret RExpiration
              end in
    let* ri := pB in let* hi := pB in pret {| rs_parent := p; rs_res := r; rs_renter_id := ri; rs_host_id := hi |}.
  Definition p_att : parser att := let* i := pB in let* ke := pbool in let* pk := pB in let* sg := pB in let* sh := pB in
    pret {| at_id := i; at_key_empty := ke; at_pubkey := pk; at_sig := sg; at_sighash := sh |}.
  Definition p_txn2 (fuel : nat) : parser txn2 :=
    let* i := pB in let* w := pZ in let* sh := pB in let* a := plist (p_sci2 fuel) in let* b := plist p_idsco in let* c := plist (p_sfi2 fuel) in
    let* d := plist p_idsfo in let* e := plist (let* i := pB in let* fc := p_fc2 in pret (i, fc)) in let* f := plist p_rev2 in let* g := plist p_res2 in
    let* atts := plist p_att in let* nf := pnat in
    let* nfa := match nf with O => pret None | _ => let* a := pB in pret (Some a) end in
    let* fee := pZ in
    pret {| t2_id := i; t2_weight := w; t2_sighash := sh; t2_sci := a; t2_sco := b; t2_sfi := c; t2_sfo := d; t2_fc := e; t2_rev := f; t2_res := g;
            t2_att := atts; t2_new_foundation := nfa; t2_fee := fee |}.
  Definition p_lblock (fuel : nat) : parser lblock :=
    let* i := pB in let* v2 := pbool in let* vh := pZ in let* co := pbool in let* hc := pZ in let* po := plist p_idsco in let* fi := pB in
    let* t1 := plist p_txn1 in let* t2 := plist (p_txn2 fuel) in let* su := plist p_supp1 in
    let* ex := plist (let* fc := p_pres p_fce1 in let* ids := plist pB in pret (fc, ids)) in let* nm := pZ in
    pret {| b_id := i; b_is_v2 := v2; b_v2_height := vh; b_commit_ok := co; b_header_code := hc; b_payouts := po; b_foundation_id := fi;
            b_txns := t1; b_v2txns := t2; b_supp := su; b_expiring := ex; b_next_median := nm |}.
  Definition p_lnet : parser lnetwork :=
    let* a := pZ in let* b := pZ in let* c := pZ in let* d := pZ in let* e := pZ in let* f := pZ in let* g := pZ in let* h := pZ in
    let* i := pZ in let* j := pB in let* k := pB in let* l := pZ in let* m := pZ in let* n := pZ in let* o := pZ in
    pret {| ln_v2_allow := a; ln_v2_require := b; ln_v2_final := c; ln_v2_ephemeral := d; ln_maturity_delay := e; ln_tax_height := f;
            ln_sp_height := g; ln_foundation_height := h; ln_devaddr_height := i; ln_devaddr_old := j; ln_devaddr_new := k;
            ln_initial_coinbase := l; ln_min_coinbase := m; ln_blocks_per_month := n; ln_blocks_per_year := o |}.
  Definition p_lleaf : parser leaf :=
    let* k := pnat in
    let* e := match k with
              | 0 => let* x := p_sce in pret (ESC x)
              | 1 => let* x := p_sfe in pret (ESF x)
              | 2 => let* x := p_fce1 in pret (EFC x)
              | 3 => let* x := p_fce2 in pret (EV2 x)
              | 4 => let* i := pB in let* h := pZ in pret (ECI i h)
              | _ => let* i := pB in pret (EAT i)
              end%nat in
    let* sp := pbool in pret {| l_elem := e; l_spent := sp |}.
  Definition p_lstate : parser lstate :=
    let* h := pZ in let* ii := pB in let* po := pZ in let* fs := pB in let* fm := pB in let* md := pZ in let* ls := plist p_lleaf in
    pret {| s_height := h; s_index_id := ii; s_pool := po; s_found_subsidy := fs; s_found_mgmt := fm; s_median := md; s_leaves := ls |}.
  Definition p_vt : parser vtab := plist (let* k := pB in let* h := pB in let* s := pB in pret (k, h, s)).
  Definition p_step (fuel : nat) : parser (nat * lblock * vtab * ptab) :=
    let* op := pnat in
    match op with
    | 2%nat => pret (op, {| b_id := []; b_is_v2 := false; b_v2_height := 0%Z; b_commit_ok := true; b_header_code := 0%Z; b_payouts := []; b_foundation_id := [];
                            b_txns := []; b_v2txns := []; b_supp := []; b_expiring := []; b_next_median := 0%Z |}, [], [])
    | _ => let* b := p_lblock fuel in let* v := p_vt in let* p := p_pairs in pret (op, b, v, p)
    end.
  Definition t_res_code (r : R unit) : list tok :=
    match r with Ok _ => [TZ 0] | Err c => [TZ 1; TZ c] | Panic p => [TZ 2; TZ (pan_code p)] end.
  (* created elements get consecutive leaf indices, in the order ApplyBlock appends them *)
  Fixpoint assign_leaves (ls : list Z) (next : Z) : list Z :=
    match ls with
    | [] => []
    | l :: r => if Z.eqb l UNASSIGNED then next :: assign_leaves r (next + 1)%Z else l :: assign_leaves r next
    end.
  Definition t_mid (base : Z) (m : mid) : list tok :=
    let lv := assign_leaves (map d_sc_leaf (m_sces m) ++ map d_sf_leaf (m_sfes m) ++ map d_fc_leaf (m_fces m) ++ map d_v2_leaf (m_v2fces m)) base in
    let n1 := List.length (m_sces m) in let n2 := List.length (m_sfes m) in let n3 := List.length (m_fces m) in
    let lfat (k : nat) := TZ (nth k lv 0%Z) in
    tnat n1
    :: List.concat (map (fun kd => let '(k, d) := kd in
                                   [TB (sce_id (d_sce d)); TZ (sco_value (sce_out (d_sce d))); TB (sco_addr (sce_out (d_sce d))); TZ (sce_maturity (d_sce d));
                                    lfat k; tbool (d_sc_created d); tbool (d_sc_spent d)]) (combine (seq 0 n1) (m_sces m)))
    ++ tnat n2
    :: List.concat (map (fun kd => let '(k, d) := kd in
                                   [TB (sfe_id (d_sfe d)); TZ (sfe_value (d_sfe d)); TB (sfe_addr (d_sfe d)); TZ (sfe_claim (d_sfe d));
                                    lfat (n1 + k)%nat; tbool (d_sf_created d); tbool (d_sf_spent d)]) (combine (seq 0 n2) (m_sfes m)))
    ++ tnat n3
    :: List.concat (map (fun kd => let '(k, d) := kd in
                                   [TB (fce_id (d_fce d)); lfat (n1 + n2 + k)%nat; tbool (d_fc_created d); TZ (fc_revnum (fce_fc (d_fce d)));
                                    TZ (match d_fc_rev d with Some r => fc_revnum r | None => (-1)%Z end); tbool (d_fc_resolved d); tbool (d_fc_valid d)])
                        (combine (seq 0 n3) (m_fces m)))
    ++ tnat (List.length (m_v2fces m))
    :: List.concat (map (fun kd => let '(k, d) := kd in
                                   [TB (v2_id (d_v2 d)); lfat (n1 + n2 + n3 + k)%nat; tbool (d_v2_created d); TZ (c_revnum (v2_fc (d_v2 d)));
                                    TZ (match d_v2_rev d with Some r => c_revnum r | None => (-1)%Z end);
                                    TZ (match d_v2_res d with Some k => k | None => (-1)%Z end)]) (combine (seq 0 (List.length (m_v2fces m))) (m_v2fces m)))
    ++ [tnat (List.length (m_aes m))].
  Definition t_summary (s : lstate) : list tok :=
    [TZ (s_height s); TZ (s_pool s); TB (s_found_subsidy s); TB (s_found_mgmt s); tnat (List.length (s_leaves s));
     TZ (siacoin_total s); TZ (siafund_total s)].
  (* fold the steps over a stack of states (a revert pops) *)
  Fixpoint run_steps (net : lnetwork) (stack : list lstate) (steps : list (nat * lblock * vtab * ptab)) : list tok :=
    match steps, stack with
    | [], _ => []
    | _, [] => [TZ (-2)]
    | (op, b, vt, pt) :: rest, s :: older =>
      match op with
      | 2%nat => match older with
                 | [] => [TZ (-3)]
                 | s' :: _ => TZ 7 :: t_summary s' ++ run_steps net older rest
                 end
      | _ =>
        let v := validate_block H net vt pt SPEC_ENTROPY SPEC_ED25519 s b in
        match op, v with
        | 1%nat, Ok _ =>
          match apply_block net s b with
          | Ok (s', m) => t_res_code v ++ t_summary s' ++ t_mid (Z.of_nat (List.length (s_leaves s))) m ++ [tbool (Kinds.consistent (Kinds.declsB b)); tbool (Fresh.fresh_sc b); tbool (Fresh2.fresh_sf b); tbool (Fresh2.fresh_v2 b)] ++ run_steps net (s' :: stack) rest
          | Err c => [TZ 1; TZ c; TZ (-4)]
          | Panic p => [TZ 2; TZ (pan_code p); TZ (-4)] ++ run_steps net stack rest
          end
        | _, _ => t_res_code v ++ run_steps net stack rest
        end
      end
    end.
  Definition api_ledger (name : string) (args : list tok) : option (list tok) :=
    if name =? "ledger.chain" then
      let fuel := List.length args in
      option_map (fun '(net, s0, steps) => t_summary s0 ++ run_steps net [s0] steps)
        (run_parser (let* net := p_lnet in let* s0 := p_lstate in let* steps := plist (p_step fuel) in pret (net, s0, steps)) args)
    else None.

  (* ---- C16: RHP Merkle ---- *)
  Definition p_action : parser action :=
    let* k := pnat in
    match k with
    | O => pret AAppend
    | S O => let* a := pN in pret (ATrim a)
    | _ => let* a := pN in let* b := pN in pret (ASwap a b)
    end.
  Definition t_obool (o : option bool) : list tok := match o with Some b => [tbool b] | None => [TZ 2; TZ 1] end.
  Definition api_c16 (name : string) (args : list tok) : option (list tok) :=
    if name =? "c16.mroot" then
      option_map (fun ls => [TB (mroot H ls)]) (run_parser (plist pB) args)
    else if name =? "c16.dataroot" then          (* leaves are 64-byte data blocks *)
      option_map (fun ls => [TB (mroot H (map (leafh H) ls))]) (run_parser (plist pB) args)
    else if name =? "c16.sizes" then
      option_map (fun '(n, s, e) => [tN (range_proof_size n s e)])
        (run_parser (let* n := pN in let* s := pN in let* e := pN in pret (n, s, e)) args)
    else if name =? "c16.build_range" then
      option_map (fun '(ls, s, e) => t_hashes (build_range_proof H ls s e))
        (run_parser (let* ls := plist pB in let* s := pN in let* e := pN in pret (ls, s, e)) args)
    else if name =? "c16.verify_range" then
      option_map (fun '(pr, rr, s, e, n, root) => [tbool (verify_range_proof H pr rr s e n root)])
        (run_parser (let* pr := plist pB in let* rr := plist pB in let* s := pN in let* e := pN in let* n := pN in let* root := pB in
                     pret (pr, rr, s, e, n, root)) args)
    else if name =? "c16.range_subtrees" then
      option_map (fun '(ls, s, e) => t_hashes (range_subtrees H 200 ls s e))
        (run_parser (let* ls := plist pB in let* s := pN in let* e := pN in pret (ls, s, e)) args)
    else if name =? "c16.rpv_verify" then
      option_map (fun '(pr, lv, s, e, n, root) => [tbool (rpv_verify H pr lv s e n root)])
        (run_parser (let* pr := plist pB in let* lv := plist pB in let* s := pN in let* e := pN in let* n := pN in let* root := pB in
                     pret (pr, lv, s, e, n, root)) args)
    else if name =? "c16.verify_append" then
      option_map (fun '(n, th, sr, o, nw) => [tbool (verify_append H n th sr o nw)])
        (run_parser (let* n := pN in let* th := plist pB in let* sr := pB in let* o := pB in let* nw := pB in pret (n, th, sr, o, nw)) args)
    else if name =? "c16.build_append" then
      option_map (fun '(rs, ap) => let r := build_append_proof H rs ap in t_hashes (fst r) ++ [TB (snd r)])
        (run_parser (let* rs := plist pB in let* ap := plist pB in pret (rs, ap)) args)
    else if name =? "c16.verify_append_sectors" then
      option_map (fun '(n, st, ap, o, nw) => [tbool (verify_append_sectors H n st ap o nw)])
        (run_parser (let* n := pN in let* st := plist pB in let* ap := plist pB in let* o := pB in let* nw := pB in pret (n, st, ap, o, nw)) args)
    else if name =? "c16.build_diff" then
      option_map (fun '(acts, rs) => let r := build_diff_proof H acts rs in t_hashes (fst r) ++ t_hashes (snd r) ++ [tN (diff_proof_size acts (N.of_nat (List.length rs)))])
        (run_parser (let* acts := plist p_action in let* rs := plist pB in pret (acts, rs)) args)
    else if name =? "c16.verify_diff" then
      option_map (fun '(acts, n, th, lh, o, nw, ar) => t_obool (verify_diff_proof H acts n th lh o nw ar))
        (run_parser (let* acts := plist p_action in let* n := pN in let* th := plist pB in let* lh := plist pB in
                     let* o := pB in let* nw := pB in let* ar := plist pB in pret (acts, n, th, lh, o, nw, ar)) args)
    else if name =? "c16.build_free" then
      option_map (fun '(fr, rs) => let r := build_diff_proof H (convert_free_actions fr (N.of_nat (List.length rs))) rs in t_hashes (fst r) ++ t_hashes (snd r))
        (run_parser (let* fr := plist pN in let* rs := plist pB in pret (fr, rs)) args)
    else if name =? "c16.verify_free" then
      option_map (fun '(fr, n, th, lh, o, nw) => t_obool (verify_diff_proof H (convert_free_actions fr n) n th lh o nw []))
        (run_parser (let* fr := plist pN in let* n := pN in let* th := plist pB in let* lh := plist pB in
                     let* o := pB in let* nw := pB in pret (fr, n, th, lh, o, nw)) args)
    else if name =? "c16.free_actions" then
      option_map (fun '(fr, n) => List.concat (map (fun a => match a with AAppend => [TZ 0] | ATrim x => [TZ 1; tN x] | ASwap x y => [TZ 2; tN x; tN y] end) (convert_free_actions fr n)))
        (run_parser (let* fr := plist pN in let* n := pN in pret (fr, n)) args)
    else if name =? "c16.convert_order" then
      option_map (fun '(pr, i) => t_hashes (convert_proof_ordering pr i))
        (run_parser (let* pr := plist pB in let* i := pN in pret (pr, i)) args)
    else None.

  Definition api_dispatch (name : string) (args : list tok) : list tok :=
    match api_c15 name args with
    | Some r => r
    | None =>
    match api_c16 name args with
    | Some r => r
    | None =>
    match api_c14 name args with
    | Some r => r
    | None =>
    match api_c13 name args with
    | Some r => r
    | None =>
    match api_c11 name args with
    | Some r => r
    | None =>
    match api_ledger name args with
    | Some r => r
    | None =>
    match api_c18 name args with
    | Some r => r
    | None =>
    match api_c17 name args with
    | Some r => r
    | None =>
    match api_c19 name args with
    | Some r => r
    | None =>
    match api_c20 name args with
    | Some r => r
    | None =>
    match name, args with
    | "hash", [TB b] => [TB (H b)]
    | "c11.state_len", [TZ h; TZ nl] => [tN (state_len (Z.to_N h) (Z.to_N nl))]
    | "c12.derive", [TB nm; TB i; TZ k] => [TB (derive H nm (id_index_args i (Z.to_N k)))]
    | "c12.derive1", [TB nm; TB i] => [TB (derive H nm i)]
    | "c12.raw", [TB i; TZ k] => [TB (H (id_index_args i (Z.to_N k)))]
    | "c05.run", _ => api_c05 args
    | "c05.update", _ => api_c05_update args
    | "c07.prove", _ =>
      match run_parser (let* ls := plist pB in let* i := pnat in let* sz := pZ in pret (ls, i, sz)) args with
      | Some (ls, i, sz) =>
        let proof := sp_prove H (List.length ls) ls i in
        (t_hashes proof ++ [TB (Rhp.mroot H ls); TB (sp_root_v2 H (nth i ls []) (Z.of_nat i) sz proof)])%list
      | None => bad_args
      end
    | "c07.verify", _ =>
      match run_parser (let* pr := plist pB in let* x := pB in let* i := pZ in let* sz := pZ in pret (pr, x, i, sz)) args with
      | Some (pr, x, i, sz) => [TB (sp_root_v2 H x i sz pr)]
      | None => bad_args
      end
    | "c05.leafhash", [TB e; TZ i; TZ s] => [TB (leaf_hash H (mkLeaf e (Z.to_N i) (negb (Z.eqb s 0))))]
    | "c05.proofroot", TB x :: TZ i :: ps => [TB (proofRootN H x (Z.to_N i) (List.concat (map (fun t => match t with TB b => [b] | _ => [] end) ps)))]
    | _, _ => bad_args
    end end end end end end end end end end end.
End Dispatch.
