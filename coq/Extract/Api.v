(* Entry points of the executable model, by name. One dispatcher so that the OCaml driver and
   the in-Coq case files need no per-function glue. *)
From Coq Require Import ZArith NArith List String Bool.
From Sia Require Import Prim.Result Prim.Tok Currency.Model.
Import ListNotations.
Open Scope string_scope.

Definition tcur (c : cur) : list tok := [TZ (lo c); TZ (hi c)].
Definition tcurb (r : cur * bool) : list tok := (tcur (fst r) ++ [tbool (snd r)])%list.
Definition unit_err (_ : unit) : Z := 0%Z.

Definition api_c15 (name : string) (args : list tok) : option (list tok) :=
  match args with
  | [TZ al; TZ ah; TZ bl; TZ bh] =>
    let a := mkCur al ah in let b := mkCur bl bh in
    if name =? "c15.add_wo" then Some (tcurb (add_wo a b))
    else if name =? "c15.sub_wu" then Some (tcurb (sub_wu a b))
    else if name =? "c15.mul_wo" then Some (tcurb (mul_wo a b))
    else if name =? "c15.cmp" then Some [TZ (cmp a b)]
    else if name =? "c15.add" then Some (tok_res unit_err tcur (add a b))
    else if name =? "c15.sub" then Some (tok_res unit_err tcur (sub a b))
    else if name =? "c15.mul" then Some (tok_res unit_err tcur (mul a b))
    else if name =? "c15.div" then Some (tok_res unit_err tcur (div a b))
    else if name =? "c15.quorem" then Some (tok_res unit_err (fun qr => (tcur (fst qr) ++ tcur (snd qr))%list) (quorem a b))
    else None
  | [TZ al; TZ ah; TZ v] =>
    let a := mkCur al ah in
    if name =? "c15.mul64_wo" then Some (tcurb (mul64_wo a v))
    else if name =? "c15.mul64" then Some (tok_res unit_err tcur (mul_64 a v))
    else if name =? "c15.div64" then Some (tok_res unit_err tcur (div_64 a v))
    else if name =? "c15.quorem64" then Some (tok_res unit_err (fun qr => (tcur (fst qr) ++ [TZ (snd qr)])%list) (quorem64 a v))
    else None
  | _ => None
  end.

Section Dispatch.
  Variable H : bytes -> bytes.     (* BLAKE2b-256, supplied by the driver *)
  Definition api_dispatch (name : string) (args : list tok) : list tok :=
    match api_c15 name args with
    | Some r => r
    | None =>
    match name, args with
    | "hash", [TB b] => [TB (H b)]
    | _, _ => bad_args
    end end.
End Dispatch.
