(* Extraction of the executable models to OCaml. ExtrOcamlBasic only: bool, option, unit, list,
   prod, sumbool, sumor are mapped to OCaml's own; N, Z, positive, nat, string/ascii stay the
   extracted inductives (values exceed OCaml's int). No Extract Constant of our own. *)
From Coq Require Import ExtrOcamlBasic ZArith NArith List String.
From Sia Require Import Prim.Tok Extract.Api.
Extraction Language OCaml.
Extraction "model.ml" api_dispatch.
