(* RHP sector-range proofs: completeness for every list of at most 2^30 roots and every range. *)
From Coq Require Import List NArith Arith Bool Lia ZifyN ZifyNat ZifyBool.
From Sia Require Import Prim.Tok Merkle.Tree Merkle.Forest Merkle.Rhp Merkle.RhpProofs Merkle.RhpRoot.
From Sia Require Import Merkle.RgBits Merkle.RgStruct Merkle.RgLoops Merkle.RgRight Merkle.RgCount Merkle.RgXor Merkle.RgFinal Merkle.RgLeft Merkle.RgRightCount.
Import ListNotations.
Local Open Scope N_scope.

Section RComplete.
Variable H : bytes -> bytes.
Notation mroot := (Rhp.mroot H).
Notation build_range := (Rhp.build_range H).

Lemma build_range_stable' (ls : list hash) n j : forall f f' i, (f <= f')%nat -> (length (build_range f' ls n i j) < f)%nat ->
  build_range f ls n i j = build_range f' ls n i j.
Proof.
  induction f as [|f IH]; intros f' i Hf Hl; [lia|].
  destruct f' as [|f']; [lia|]. cbn [Rhp.build_range] in *. destruct ((i <? j) && (i <? n)); [|reflexivity]. cbv zeta in *.
  cbn [length] in Hl. f_equal. apply IH; lia.
Qed.

Lemma right_count (ls : list hash) : 0 < N.of_nat (length ls) <= 2 ^ 30 ->
  forall k i fb, (N.to_nat (N.of_nat (length ls) - i) <= k)%nat -> 0 < i -> i <= N.of_nat (length ls) -> (N.to_nat (N.of_nat (length ls) - i) <= fb)%nat ->
    N.of_nat (length (build_range fb ls (N.of_nat (length ls)) i (2 ^ 31 - 1))) = rterm (N.of_nat (length ls)) i.
Proof.
  intros Hn. set (n := N.of_nat (length ls)) in *. induction k as [|k IH]; intros i fb Hk Hi0 Hi Hfb.
  - assert (i = n) by lia. subst i. rewrite rterm_end. destruct fb; cbn [Rhp.build_range]; [reflexivity|]. rewrite N.ltb_irrefl, andb_false_r. reflexivity.
  - destruct (N.eq_dec i n) as [->|Ne].
    + rewrite rterm_end. destruct fb; cbn [Rhp.build_range]; [reflexivity|]. rewrite N.ltb_irrefl, andb_false_r. reflexivity.
    + assert (Lt : i < n) by lia.
      destruct (nss_right i n Hi0 Lt ltac:(lia)) as (Eb & _ & C30 & _ & _).
      destruct (ctz_spec i Hi0) as (A & Ei). set (t := ctz i) in *.
      assert (Pt : 0 < 2 ^ t) by (apply N.neq_0_lt_0, N.pow_nonzero; lia).
      assert (P1 : 2 ^ (t + 1) = 2 * 2 ^ t) by (rewrite N.add_1_r, N.pow_succ_r'; reflexivity).
      assert (Ee : i - 1 = 2 ^ (t + 1) * A + 2 ^ t - 1) by (rewrite Ei, P1; clear - Pt; nia).
      destruct fb as [|fb]; [lia|]. cbn [Rhp.build_range].
      destruct (N.ltb_spec i (2 ^ 31 - 1)); [|lia]. destruct (N.ltb_spec i n); [|lia]. cbn [andb]. cbv zeta. rewrite Eb.
      destruct (N.ltb_spec n (i + 2 ^ t)) as [Clip|Full].
      * replace (i + (n - i)) with n by lia. cbn [length]. rewrite Nat2N.inj_succ.
        replace (build_range fb ls n n (2 ^ 31 - 1)) with (@nil hash) by (destruct fb; cbn [Rhp.build_range]; [reflexivity|]; rewrite N.ltb_irrefl, andb_false_r; reflexivity).
        cbn [length]. unfold rterm. rewrite Ee. symmetry. apply (rterm_last t A (n - 1)); [rewrite <- Ee; lia | rewrite <- Ee; lia | lia | lia].
      * cbn [length]. rewrite Nat2N.inj_succ, (IH (i + 2 ^ t) fb) by lia.
        destruct (N.eq_dec (i + 2 ^ t) n) as [En|Nn].
        -- rewrite En, rterm_end. unfold rterm. rewrite Ee. symmetry. apply (rterm_last t A (n - 1)); [rewrite <- Ee; lia | rewrite <- Ee; lia | lia | lia].
        -- unfold rterm. replace (i + 2 ^ t - 1) with (2 ^ (t + 1) * A + 2 ^ t - 1 + 2 ^ t) by (rewrite <- Ee; lia). rewrite Ee.
           rewrite (rterm_step t A (n - 1)); [lia | rewrite <- Ee; lia | lia].
Qed.

(* completeness: for every list of at most 2^30 roots and every non-empty range, the proof BuildSectorRangeProof produces is
   accepted by VerifySectorRangeProof together with the covered roots, against the plainly defined root *)
Theorem range_proof_complete (ls : list hash) start end_ :
  let n := N.of_nat (length ls) in
  0 < n <= 2 ^ 30 -> start < end_ -> end_ <= n ->
  verify_range_proof H (build_range_proof H ls start end_) (slice ls start (end_ - start)) start end_ n (mroot ls) = true.
Proof.
  intros n Hn Hse Hen.
  (* the two parts with ample fuel *)
  set (bigL := Nat.max FUEL (N.to_nat start)). set (bigR := Nat.max FUEL (N.to_nat n)).
  assert (CL : N.of_nat (length (build_range bigL ls n 0 start)) = popcount start).
  { pose proof (left_count H ls start ltac:(fold n; lia) ltac:(fold n; lia) (N.to_nat start) 0 bigL ltac:(lia) ltac:(lia) (or_introl eq_refl) ltac:(unfold bigL; lia)) as C.
    fold n in C. rewrite C. f_equal. lia. }
  assert (CR : N.of_nat (length (build_range bigR ls n end_ (2 ^ 31 - 1))) = rterm n end_).
  { apply (right_count ls ltac:(fold n; lia) (N.to_nat n) end_ bigR); fold n; unfold bigR; lia. }
  pose proof (popcount_le_64 start ltac:(lia)) as BL.
  assert (BR : rterm n end_ <= 64).
  { unfold rterm. apply popcount_le_64. apply bits_bound. intros i Hi. rewrite N.land_spec, N.ldiff_spec.
    rewrite (high_bits_zero (Rhp.W - 1) i) by (unfold Rhp.W; lia). reflexivity. }
  assert (EL : build_range FUEL ls n 0 start = build_range bigL ls n 0 start) by (apply build_range_stable'; [unfold bigL; lia | unfold FUEL; lia]).
  assert (ER : build_range FUEL ls n end_ (2 ^ 31 - 1) = build_range bigR ls n end_ (2 ^ 31 - 1)) by (apply build_range_stable'; [unfold bigR; lia | unfold FUEL; lia]).
  apply (range_proof_complete_sized H ls start end_); try assumption.
  - unfold build_range_proof. fold n. destruct (N.eqb_spec n 0); [lia|]. rewrite EL, ER, app_length, Nat2N.inj_add, CL, CR. reflexivity.
  - unfold build_range_proof. fold n. destruct (N.eqb_spec n 0); [lia|]. rewrite EL, ER, app_length. unfold FUEL. lia.
Qed.
End RComplete.
