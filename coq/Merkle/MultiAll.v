From Coq Require Import List NArith Lia Bool PeanoNat Sorted Permutation ZifyN ZifyNat ZifyBool.
From Sia Require Import Merkle.Tree Merkle.Multi Merkle.MultiProofs Merkle.MultiInfer.
Import ListNotations.
Open Scope N_scope.

Section Group.
Variable hash : Type.
Variable node : hash -> hash -> hash.
Notation mleaf := (mleaf hash).
Notation sorted := (sorted hash).

(* insertion sort by leaf index *)
Lemma insert_perm x ls : Permutation (x :: ls) (insert_sorted hash x ls).
Proof.
  induction ls as [|y r IH]; cbn [insert_sorted]; [reflexivity|].
  destruct (ml_idx hash y <=? ml_idx hash x); [|reflexivity].
  rewrite perm_swap. constructor. exact IH.
Qed.
Lemma insert_sorted_ok x ls : sorted ls -> sorted (insert_sorted hash x ls).
Proof.
  unfold MultiProofs.sorted. induction 1 as [|y r Sr IH Hy]; cbn [insert_sorted]; [repeat constructor|].
  destruct (ml_idx hash y <=? ml_idx hash x) eqn:E.
  - constructor; [exact IH|].
    eapply Permutation_Forall; [apply insert_perm|]. constructor; [lia | exact Hy].
  - constructor; [constructor; assumption|]. constructor; [lia|].
    eapply Forall_impl; [|exact Hy]. cbn. intros a Ha. lia.
Qed.
Lemma sort_acc_ok ls : forall acc, sorted acc ->
  sorted (fold_left (fun acc x => insert_sorted hash x acc) ls acc) /\
  Permutation (ls ++ acc) (fold_left (fun acc x => insert_sorted hash x acc) ls acc).
Proof.
  induction ls as [|x ls IH]; intros acc S; cbn [fold_left app]; [split; [exact S | reflexivity]|].
  destruct (IH (insert_sorted hash x acc) (insert_sorted_ok x acc S)) as [A B]. split; [exact A|].
  rewrite <- B. rewrite <- insert_perm. apply Permutation_middle.
Qed.
Lemma sort_leaves_ok ls : sorted (sort_leaves hash ls) /\ Permutation ls (sort_leaves hash ls).
Proof.
  destruct (sort_acc_ok ls [] ltac:(constructor)) as [A B]. split; [exact A|]. rewrite app_nil_r in B. exact B.
Qed.

Lemma group_spec ls h : sorted (group hash ls h) /\
  (forall x, In x (group hash ls h) <-> In x ls /\ length (ml_proof hash x) = h).
Proof.
  unfold group. destruct (sort_leaves_ok (filter (fun x => Nat.eqb (length (ml_proof hash x)) h) ls)) as [A B].
  split; [exact A|]. intros x. split.
  - intros I. apply (Permutation_in _ (Permutation_sym B)) in I. apply filter_In in I. destruct I as [I E].
    apply Nat.eqb_eq in E. auto.
  - intros [I E]. apply (Permutation_in _ B). apply filter_In. split; [exact I | apply Nat.eqb_eq; exact E].
Qed.

(* the base of a tree is recovered from any of its leaves *)
Lemma tree_base_ok base idx h k : base = k * pow2 (S h) -> base <= idx < base + pow2 h -> clear_low idx (S h) = base.
Proof.
  intros -> R. unfold clear_low.
  assert (P : pow2 (S h) = 2 * pow2 h) by (unfold pow2; rewrite Nat2N.inj_succ, N.pow_succ_r'; reflexivity).
  assert (NZ : pow2 h <> 0) by (unfold pow2; apply N.pow_nonzero; discriminate).
  rewrite P in *. f_equal. symmetry. apply (N.div_unique idx (2 * pow2 h) k (idx - k * (2 * pow2 h))); lia.
Qed.

(* leaves that agree on index, leaf hash and proof length are the same to the multiproof code *)
Variable f : mleaf -> mleaf.
Hypothesis f_idx : forall x, ml_idx hash (f x) = ml_idx hash x.
Hypothesis f_hash : forall x, ml_hash hash (f x) = ml_hash hash x.
Hypothesis f_len : forall x, length (ml_proof hash (f x)) = length (ml_proof hash x).

Lemma split_mid_map mid ls : split_mid hash mid (map f ls) =
  (map f (fst (split_mid hash mid ls)), map f (snd (split_mid hash mid ls))).
Proof.
  induction ls as [|x r IH]; [reflexivity|]. cbn [map split_mid]. rewrite f_idx.
  destruct (ml_idx hash x <? mid); [|reflexivity].
  rewrite IH. destruct (split_mid hash mid r); reflexivity.
Qed.
Lemma expand_map h : forall base ls pf, expand hash node h base (map f ls) pf = expand hash node h base ls pf.
Proof.
  induction h as [|h IH]; intros base ls pf; destruct ls as [|x r]; try reflexivity.
  - cbn [map expand]. rewrite f_hash, !map_map. reflexivity.
  - change (map f (x :: r)) with (f x :: map f r). cbn [expand].
    change (f x :: map f r) with (map f (x :: r)). rewrite split_mid_map.
    destruct (split_mid hash (base + pow2 h) (x :: r)) as [a b]. cbn [fst snd]. rewrite IH.
    destruct (expand hash node h base a pf) as [[[lr lp] pf1]|]; [rewrite IH|]; reflexivity.
Qed.
Lemma insert_map x acc : insert_sorted hash (f x) (map f acc) = map f (insert_sorted hash x acc).
Proof.
  induction acc as [|y r IH]; [reflexivity|]. cbn [map insert_sorted]. rewrite !f_idx.
  destruct (ml_idx hash y <=? ml_idx hash x); [|reflexivity]. rewrite IH. reflexivity.
Qed.
Lemma sort_map ls : sort_leaves hash (map f ls) = map f (sort_leaves hash ls).
Proof.
  unfold sort_leaves. change (@nil mleaf) with (map f []) at 1. generalize (@nil mleaf).
  induction ls as [|x r IH]; intros acc; [reflexivity|]. cbn [map fold_left]. rewrite insert_map. apply IH.
Qed.
Lemma group_map ls h : group hash (map f ls) h = map f (group hash ls h).
Proof.
  unfold group. rewrite <- sort_map. f_equal.
  induction ls as [|x r IH]; [reflexivity|]. cbn [map filter]. rewrite f_len.
  destruct (Nat.eqb (length (ml_proof hash x)) h); cbn [map]; rewrite IH; reflexivity.
Qed.
End Group.

Section All.
Variable hash : Type.
Variable node : hash -> hash -> hash.
Notation mleaf := (mleaf hash).
Variable T : nat -> ptree hash.
Variable B : nat -> N.

Definition group_ok (ls : list mleaf) (h : nat) : Prop :=
  group hash ls h = [] \/
  (perfect hash (T h) /\ height hash (T h) = h /\ tree_base hash (group hash ls h) h = B h /\
   Forall (valid hash node (T h) (B h)) (group hash ls h)).

Definition outs (ls : list mleaf) (hs : list nat) : list (nat * list (N * list hash)) :=
  flat_map (fun h => match group hash ls h with
                     | [] => []
                     | g => [(h, combine (map (ml_idx hash) g) (map (ml_proof hash) g))]
                     end) hs.

Definition stepC (ls : list mleaf) (acc : option (list hash)) (h : nat) : option (list hash) :=
  match acc with
  | None => None
  | Some a => match group hash ls h with
              | [] => Some a
              | g => match compute hash h (tree_base hash g h) g with Some b => Some (a ++ b) | None => None end
              end
  end.
Definition stepS (ls : list mleaf) (acc : nat) (h : nat) : nat :=
  match group hash ls h with [] => acc | g => (acc + msize hash h (tree_base hash g h) g)%nat end.
Definition stepE (ls : list mleaf) (acc : option (list (nat * list (N * list hash)) * list hash)) (h : nat) :=
  match acc with
  | None => None
  | Some (out, pf) =>
    match group hash ls h with
    | [] => Some (out, pf)
    | g => match expand hash node h (tree_base hash g h) g pf with
           | Some (_, ps, pf') => Some (out ++ [(h, combine (map (ml_idx hash) g) ps)], pf')
           | None => None
           end
    end
  end.

Lemma fold_all ls hs : (forall h, In h hs -> group_ok ls h) ->
  forall accC accN accO rest, exists mp,
    fold_left (stepC ls) hs (Some accC) = Some (accC ++ mp) /\
    fold_left (stepS ls) hs accN = (accN + length mp)%nat /\
    fold_left (stepE ls) hs (Some (accO, mp ++ rest)) = Some (accO ++ outs ls hs, rest).
Proof.
  induction hs as [|h hs IH]; intros OK accC accN accO rest.
  - exists []. cbn [fold_left outs flat_map app length]. rewrite !app_nil_r, Nat.add_0_r. repeat split.
  - assert (OKh : group_ok ls h) by (apply OK; left; reflexivity).
    assert (OKt : forall h', In h' hs -> group_ok ls h') by (intros h' I; apply OK; right; exact I).
    cbn [fold_left outs flat_map]. fold (outs ls hs).
    destruct OKh as [E|(P & Hh & Bh & V)].
    + unfold stepC at 2, stepS at 2, stepE at 2. rewrite E. cbn [app].
      destruct (IH OKt accC accN accO rest) as (mp & A1 & A2 & A3). exists mp. repeat split; assumption.
    + destruct (group hash ls h) as [|g0 gr] eqn:G.
      { unfold stepC at 2, stepS at 2, stepE at 2. rewrite G. cbn [app].
        destruct (IH OKt accC accN accO rest) as (mp & A1 & A2 & A3). exists mp. repeat split; assumption. }
      destruct (group_spec hash ls h) as [Sg Mg]. rewrite G in Sg, Mg.
      assert (Lg : Forall (fun x => length (ml_proof hash x) = h) (g0 :: gr)).
      { apply Forall_forall. intros x I. apply Mg in I. tauto. }
      assert (FP : map (fun x => firstn (height hash (T h)) (ml_proof hash x)) (g0 :: gr) = map (ml_proof hash) (g0 :: gr)).
      { apply map_ext_in. intros x I. rewrite Forall_forall in Lg. rewrite Hh, firstn_all2 by (rewrite (Lg x I); lia). reflexivity. }
      destruct (expand_compute hash node (T h) P (B h) (g0 :: gr) [] ltac:(congruence) Sg V) as (mph & Ch & Lh & _).
      destruct (IH OKt (accC ++ mph) (accN + length mph)%nat (accO ++ [(h, combine (map (ml_idx hash) (g0 :: gr)) (map (ml_proof hash) (g0 :: gr)))]) rest)
        as (mp & A1 & A2 & A3).
      destruct (expand_compute hash node (T h) P (B h) (g0 :: gr) (mp ++ rest) ltac:(congruence) Sg V) as (mph' & Ch' & _ & Xh).
      assert (mph' = mph) by congruence. subst mph'.
      exists (mph ++ mp). rewrite Hh in *.
      unfold stepC at 2, stepS at 2, stepE at 2. rewrite G. cbv beta iota. rewrite Bh, Ch.
      rewrite <- app_assoc. rewrite Xh, FP.
      repeat split.
      * rewrite app_assoc. exact A1.
      * rewrite <- Lh, A2, app_length. lia.
      * rewrite A3. rewrite <- app_assoc. reflexivity.
Qed.
End All.

Section Final.
Variable hash : Type.
Variable node : hash -> hash -> hash.
Notation mleaf := (mleaf hash).
Variable T : nat -> ptree hash.
Variable B : nat -> N.

(* every leaf comes with the sibling path of its position in the tree of its height; trees are aligned *)
Definition leaf_ok (x : mleaf) : Prop :=
  let h := length (ml_proof hash x) in
  (h < 64)%nat /\ perfect hash (T h) /\ height hash (T h) = h /\ (exists k, B h = k * pow2 (S h)) /\
  valid hash node (T h) (B h) x.

Lemma group_ok_of ls : Forall leaf_ok ls -> forall h, group_ok hash node T B ls h.
Proof.
  intros F h. unfold group_ok. destruct (group hash ls h) as [|x0 gr] eqn:G; [left; reflexivity | right].
  destruct (group_spec hash ls h) as [_ Mg]. rewrite G in Mg. rewrite Forall_forall in F.
  assert (I0 : In x0 ls /\ length (ml_proof hash x0) = h) by (apply Mg; left; reflexivity).
  destruct I0 as [I0 L0]. pose proof (F x0 I0) as K. unfold leaf_ok in K. rewrite L0 in K.
  destruct K as (_ & P & Hh & (k & Bk) & V).
  split; [exact P|]. split; [exact Hh|]. split.
  - cbn [tree_base]. destruct V as (R & _). rewrite Hh in R. eapply tree_base_ok; eauto.
  - apply Forall_forall. intros y Iy. apply Mg in Iy. destruct Iy as [Iy Ly].
    pose proof (F y Iy) as K. unfold leaf_ok in K. rewrite Ly in K. tauto.
Qed.

Definition lookup_proof (out : list (nat * list (N * list hash))) (h : nat) (i : N) : option (list hash) :=
  match find (fun e => Nat.eqb (fst e) h) out with
  | Some (_, l) => match find (fun e => N.eqb (fst e) i) l with Some (_, p) => Some p | None => None end
  | None => None
  end.

Lemma find_outs ls hs h : NoDup hs -> In h hs -> group hash ls h <> [] ->
  find (fun e => Nat.eqb (fst e) h) (outs hash ls hs) =
  Some (h, combine (map (ml_idx hash) (group hash ls h)) (map (ml_proof hash) (group hash ls h))).
Proof.
  induction hs as [|h' hs IH]; intros ND I NE; [contradiction|].
  cbn [outs flat_map]. fold (outs hash ls hs). inversion ND as [|? ? Nin ND']; subst.
  destruct (Nat.eq_dec h' h) as [->|Ne].
  - destruct (group hash ls h) as [|g0 gr]; [congruence|]. cbn [app find fst]. rewrite Nat.eqb_refl. reflexivity.
  - destruct I as [|I]; [congruence|].
    destruct (group hash ls h') as [|g0 gr]; cbn [app find fst]; [apply IH; auto|].
    assert (E : Nat.eqb h' h = false) by (apply Nat.eqb_neq; exact Ne). rewrite E. apply IH; auto.
Qed.

Lemma find_combine (g : list mleaf) (P : mleaf -> list hash) i :
  (exists x, In x g /\ ml_idx hash x = i) ->
  exists y, In y g /\ ml_idx hash y = i /\
    find (fun e => N.eqb (fst e) i) (combine (map (ml_idx hash) g) (map P g)) = Some (i, P y).
Proof.
  induction g as [|a g IH]; intros (x & I & E); [contradiction|].
  cbn [map combine find fst]. destruct (N.eqb_spec (ml_idx hash a) i) as [Ea|Na].
  - exists a. split; [left; reflexivity|]. split; [exact Ea|]. rewrite Ea. reflexivity.
  - destruct I as [->|I]; [congruence|]. destruct (IH (ex_intro _ x (conj I E))) as (y & Iy & Ey & F).
    exists y. split; [right; exact Iy|]. split; assumption.
Qed.

Lemma stepE_map (f : mleaf -> mleaf) ls :
  (forall x, ml_idx hash (f x) = ml_idx hash x) -> (forall x, ml_hash hash (f x) = ml_hash hash x) ->
  (forall x, length (ml_proof hash (f x)) = length (ml_proof hash x)) ->
  forall acc h, stepE hash node (map f ls) acc h = stepE hash node ls acc h.
Proof.
  intros Fi Fh Fl acc h. unfold stepE. destruct acc as [[out pf]|]; [|reflexivity].
  rewrite (group_map hash f Fi Fl ls h).
  destruct (group hash ls h) as [|g0 gr]; [reflexivity|].
  change (map f (g0 :: gr)) with (f g0 :: map f gr) at 1. cbv beta iota.
  change (f g0 :: map f gr) with (map f (g0 :: gr)).
  rewrite (expand_map hash node f Fi Fh).
  assert (TB : tree_base hash (map f (g0 :: gr)) h = tree_base hash (g0 :: gr) h) by (cbn [map tree_base]; rewrite Fi; reflexivity).
  rewrite TB. rewrite map_map. rewrite (map_ext (fun x => ml_idx hash (f x)) (ml_idx hash) Fi). reflexivity.
Qed.

(* the whole codec core: all trees of one state at once *)
Theorem multiproof_codec_lossless (f : mleaf -> mleaf) ls rest :
  (forall x, ml_idx hash (f x) = ml_idx hash x) -> (forall x, ml_hash hash (f x) = ml_hash hash x) ->
  (forall x, length (ml_proof hash (f x)) = length (ml_proof hash x)) ->
  Forall leaf_ok ls ->
  exists mp out, compute_all hash ls = Some mp /\ length mp = msize_all hash ls /\
    expand_all hash node (map f ls) (mp ++ rest) = Some (out, rest) /\
    forall x, In x ls -> lookup_proof out (length (ml_proof hash x)) (ml_idx hash x) = Some (ml_proof hash x).
Proof.
  intros Fi Fh Fl OK.
  destruct (fold_all hash node T B ls (seq 0 64) (fun h _ => group_ok_of ls OK h) [] 0%nat [] rest) as (mp & A1 & A2 & A3).
  exists mp, (outs hash ls (seq 0 64)). split; [exact A1|]. split; [symmetry; exact A2|]. split.
  - cbn [app] in A3. rewrite <- A3. unfold expand_all.
    change (fun (acc : option (list (nat * list (N * list hash)) * list hash)) (h : nat) => _) with (stepE hash node (map f ls)).
    generalize (Some (@nil (nat * list (N * list hash)), mp ++ rest)). generalize (seq 0 64).
    intros hs. induction hs as [|h hs IH]; intros acc; [reflexivity|]. cbn [fold_left].
    rewrite (stepE_map f ls Fi Fh Fl). apply IH.
  - intros x I. rewrite Forall_forall in OK. pose proof (OK x I) as K. unfold leaf_ok in K.
    set (h := length (ml_proof hash x)) in *. destruct K as (H64 & P & Hh & _ & V).
    destruct (group_spec hash ls h) as [_ Mg].
    assert (Ig : In x (group hash ls h)) by (apply Mg; split; [exact I | reflexivity]).
    unfold lookup_proof. rewrite (find_outs ls (seq 0 64) h (seq_NoDup 64 0)); [| apply in_seq; lia | intros E; rewrite E in Ig; contradiction].
    destruct (find_combine (group hash ls h) (ml_proof hash) (ml_idx hash x) (ex_intro _ x (conj Ig eq_refl))) as (y & Iy & Ey & Fy).
    rewrite Fy. f_equal.
    (* two leaves of the same tree with the same index carry the same sibling path *)
    apply Mg in Iy. destruct Iy as [Iy Ly]. pose proof (OK y Iy) as Ky. unfold leaf_ok in Ky. rewrite Ly in Ky.
    destruct Ky as (_ & _ & _ & _ & (_ & _ & Vy)). destruct V as (_ & _ & Vx).
    rewrite Hh in Vx, Vy. rewrite firstn_all2 in Vx by (fold h; lia). rewrite firstn_all2 in Vy by lia.
    rewrite Vx, Vy, Ey. reflexivity.
Qed.
End Final.
