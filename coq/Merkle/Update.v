(* Prototype: the recursion of consensus/merkle.go updateLeaves.recompute on one perfect tree. *)
From Coq Require Import List Arith Lia Bool.
Import ListNotations.
From Sia Require Import Merkle.Tree.

Section Update.
Variable hash : Type.
Variable node : hash -> hash -> hash.
Notation ptree := (ptree hash).
Notation root := (root hash node).
Notation sibs := (sibs hash node).
Notation set := (set hash).
Notation perfect := (perfect hash).
Notation height := (height hash).

(* an updated leaf: position (MSB first), new leaf hash, current proof (top-down) *)
Record uleaf := { pos : list bool; newh : hash; prf : list hash }.

Definition tl_leaf (u : uleaf) : uleaf := {| pos := tl (pos u); newh := newh u; prf := tl (prf u) |}.
Definition goes_right (u : uleaf) : bool := match pos u with b :: _ => b | [] => false end.
Definition with_top (s : hash) (b : bool) (u : uleaf) : uleaf :=
  {| pos := b :: pos u; newh := newh u; prf := s :: prf u |}.

Definition dflt (ls : list uleaf) (d : hash) : hash :=
  match ls with u :: _ => match prf u with s :: _ => s | [] => d end | [] => d end.

(* returns new subtree root and the leaves with proofs rewritten for this subtree *)
Fixpoint recompute (h : nat) (d : hash) (ls : list uleaf) : hash * list uleaf :=
  match h with
  | O => (match ls with u :: _ => newh u | [] => d end, ls)
  | S h' =>
    let left := filter (fun u => negb (goes_right u)) ls in
    let right := filter goes_right ls in
    let '(lroot, left') :=
      match left with
      | [] => (dflt right d, [])
      | _ => recompute h' d (map tl_leaf left)
      end in
    let '(rroot, right') :=
      match right with
      | [] => (dflt left d, [])
      | _ => recompute h' d (map tl_leaf right)
      end in
    (node lroot rroot, map (with_top rroot false) left' ++ map (with_top lroot true) right')
  end.

(* specification: apply all updates to the tree *)
Definition apply_updates (t : ptree) (ls : list uleaf) : ptree :=
  fold_left (fun t u => set t (pos u) (newh u)) ls t.

Definition valid_old (t : ptree) (u : uleaf) : Prop :=
  length (pos u) = height t /\ prf u = sibs t (pos u).

Lemma apply_updates_height t ls : height (apply_updates t ls) = height t.
Proof. revert t; induction ls as [|u ls IH]; intros t; simpl; auto. rewrite IH. apply set_height. Qed.

Lemma apply_updates_perfect t ls : perfect t -> perfect (apply_updates t ls).
Proof. revert t; induction ls as [|u ls IH]; intros t H; simpl; auto. apply IH. now apply set_perfect. Qed.

(* updates commute with Node when split by side *)
Lemma apply_updates_node l r ls :
  Forall (fun u => pos u <> []) ls ->
  apply_updates (Node hash l r) ls =
  Node hash (apply_updates l (map tl_leaf (filter (fun u => negb (goes_right u)) ls)))
            (apply_updates r (map tl_leaf (filter goes_right ls))).
Proof.
  revert l r. induction ls as [|u ls IH]; intros l r H; simpl; auto.
  inversion H as [|? ? Hu Hls]; subst.
  destruct u as [p y pr]. destruct p as [|b p]; [contradiction|].
  unfold goes_right at 1 3. simpl pos. destruct b; simpl; rewrite IH by assumption; reflexivity.
Qed.


Lemma nodup_nil_pos (ls : list uleaf) : NoDup (map pos ls) -> Forall (fun u => pos u = []) ls -> (length ls <= 1)%nat.
Proof.
  intros Hn Hf. destruct ls as [|u [|v ls]]; simpl; try lia.
  inversion Hf as [|? ? Hu Hf']; subst. inversion Hf' as [|? ? Hv _]; subst.
  inversion Hn as [|? ? Hnin _]; subst. simpl in Hnin. rewrite Hu, Hv in Hnin. tauto.
Qed.

Lemma filter_side_nodup (f : uleaf -> bool) (ls : list uleaf) :
  Forall (fun u => pos u <> []) ls -> NoDup (map pos ls) ->
  (forall u, In u ls -> f u = true -> forall v, In v ls -> f v = true -> goes_right u = goes_right v) ->
  NoDup (map pos (map tl_leaf (filter f ls))).
Proof.
  induction ls as [|u ls IH]; intros Hne Hnd Hside; simpl; [constructor|].
  inversion Hne as [|? ? Hu Hne']; subst. inversion Hnd as [|? ? Hnin Hnd']; subst.
  assert (IH' : NoDup (map pos (map tl_leaf (filter f ls)))).
  { apply IH; auto. intros; apply Hside; simpl; auto. }
  destruct (f u) eqn:Fu; [|exact IH'].
  simpl. constructor; [|exact IH'].
  intros Hin. apply Hnin.
  rewrite map_map in Hin. apply in_map_iff in Hin. destruct Hin as (v & Ev & Hv).
  apply filter_In in Hv. destruct Hv as [Hv Fv].
  apply in_map_iff. exists v. split; [|exact Hv].
  assert (G : goes_right u = goes_right v) by (apply Hside; simpl; auto).
  assert (Hvne : pos v <> []) by (rewrite Forall_forall in Hne'; auto).
  unfold goes_right, tl_leaf in *. simpl in Ev.
  destruct (pos u) as [|a pu]; [contradiction|]. destruct (pos v) as [|b pv]; [contradiction|].
  simpl in *. congruence.
Qed.

Lemma valid_old_side l r u : height l = height r -> valid_old (Node hash l r) u ->
  pos u <> [] /\ valid_old (if goes_right u then r else l) (tl_leaf u) /\
  prf u = root (if goes_right u then l else r) :: prf (tl_leaf u).
Proof.
  intros Hh [Hl Hp]. destruct u as [p y pr]. simpl in *. destruct p as [|b p]; [discriminate|].
  unfold goes_right, tl_leaf, valid_old. simpl in *. subst pr.
  split; [discriminate|]. destruct b; simpl; repeat split; auto; lia.
Qed.




Lemma filters_nonempty (ls : list uleaf) : ls <> [] ->
  filter (fun u => negb (goes_right u)) ls <> [] \/ filter goes_right ls <> [].
Proof. destruct ls as [|w ls]; [contradiction|]. intros _. simpl. destruct (goes_right w); simpl; [right|left]; discriminate. Qed.

Lemma in_filter_hd {A} (f : A -> bool) (ls : list A) v rest : filter f ls = v :: rest -> In v ls /\ f v = true.
Proof. intros E. assert (H : In v (filter f ls)) by (rewrite E; simpl; auto). now apply filter_In in H. Qed.

(* root part only, to size the effort *)
Theorem recompute_root t d ls : perfect t -> ls <> [] -> Forall (valid_old t) ls -> NoDup (map pos ls) ->
  fst (recompute (height t) d ls) = root (apply_updates t ls).
Proof.
  revert ls. induction t as [x|l IHl r IHr]; intros ls Hp Hne Hv Hnd.
  - assert (Hall : Forall (fun u => pos u = []) ls).
    { eapply Forall_impl; [|exact Hv]. intros u [Hl _]. simpl in Hl. now destruct (pos u). }
    pose proof (nodup_nil_pos ls Hnd Hall) as Hlen.
    destruct ls as [|u [|v ls]]; simpl in *; try contradiction; try lia.
    inversion Hall as [|? ? Hu _]; subst. destruct u as [p y pr]; simpl in *; subst p. reflexivity.
  - destruct Hp as (Hl & Hr & Hh).
    assert (Hsides : forall u, In u ls -> pos u <> [] /\ valid_old (if goes_right u then r else l) (tl_leaf u) /\
                       prf u = root (if goes_right u then l else r) :: prf (tl_leaf u)).
    { rewrite Forall_forall in Hv. intros u Hu. apply valid_old_side; auto. }
    assert (Hnonnil : Forall (fun u => pos u <> []) ls) by (apply Forall_forall; intros u Hu; apply (Hsides u Hu)).
    rewrite apply_updates_node by exact Hnonnil.
    cbn [height recompute root].
    remember (filter (fun u => negb (goes_right u)) ls) as L eqn:HL.
    remember (filter goes_right ls) as R eqn:HR.
    assert (HvL : Forall (valid_old l) (map tl_leaf L)).
    { apply Forall_forall. intros u Hu. apply in_map_iff in Hu. destruct Hu as (v & <- & Hv').
      subst L. apply filter_In in Hv'. destruct Hv' as [Hin Hs].
      destruct (Hsides v Hin) as (_ & Hvv & _). apply negb_true_iff in Hs. now rewrite Hs in Hvv. }
    assert (HvR : Forall (valid_old r) (map tl_leaf R)).
    { apply Forall_forall. intros u Hu. apply in_map_iff in Hu. destruct Hu as (v & <- & Hv').
      subst R. apply filter_In in Hv'. destruct Hv' as [Hin Hs].
      destruct (Hsides v Hin) as (_ & Hvv & _). now rewrite Hs in Hvv. }
    assert (HnL : NoDup (map pos (map tl_leaf L))).
    { subst L. apply filter_side_nodup; auto. intros u _ Fu v _ Fv. apply negb_true_iff in Fu, Fv. congruence. }
    assert (HnR : NoDup (map pos (map tl_leaf R))).
    { subst R. apply filter_side_nodup; auto. intros u _ Fu v _ Fv. congruence. }
    destruct (filters_nonempty ls Hne) as [NE|NE]; rewrite <- ?HL, <- ?HR in NE.
    + (* left nonempty *)
      destruct L as [|u0 L0]; [contradiction|].
      assert (EL : fst (recompute (height l) d (map tl_leaf (u0 :: L0))) = root (apply_updates l (map tl_leaf (u0 :: L0)))).
      { apply IHl; auto. discriminate. }
      destruct (recompute (height l) d (map tl_leaf (u0 :: L0))) as [lroot left'] eqn:EqRecL.
      destruct R as [|v0 R0].
      * (* right empty: sibling from first left leaf *)
        symmetry in HL. destruct (in_filter_hd _ _ _ _ HL) as [Hin Hs]. apply negb_true_iff in Hs.
        destruct (Hsides u0 Hin) as (_ & _ & Hprf). rewrite Hs in Hprf.
        simpl. unfold dflt. rewrite Hprf. simpl in EL. now rewrite EL.
      * assert (ER : fst (recompute (height l) d (map tl_leaf (v0 :: R0))) = root (apply_updates r (map tl_leaf (v0 :: R0)))).
        { rewrite Hh. apply IHr; auto. discriminate. }
        destruct (recompute (height l) d (map tl_leaf (v0 :: R0))) as [rroot right'] eqn:EqRecR.
        simpl in *. now rewrite EL, ER.
    + destruct R as [|v0 R0]; [contradiction|].
      assert (ER : fst (recompute (height l) d (map tl_leaf (v0 :: R0))) = root (apply_updates r (map tl_leaf (v0 :: R0)))).
      { rewrite Hh. apply IHr; auto. discriminate. }
      destruct (recompute (height l) d (map tl_leaf (v0 :: R0))) as [rroot right'] eqn:EqRecR.
      destruct L as [|u0 L0].
      * symmetry in HR. destruct (in_filter_hd _ _ _ _ HR) as [Hin Hs].
        destruct (Hsides v0 Hin) as (_ & _ & Hprf). rewrite Hs in Hprf.
        simpl. unfold dflt. rewrite Hprf. simpl in ER. now rewrite ER.
      * assert (EL : fst (recompute (height l) d (map tl_leaf (u0 :: L0))) = root (apply_updates l (map tl_leaf (u0 :: L0)))).
        { apply IHl; auto. discriminate. }
        destruct (recompute (height l) d (map tl_leaf (u0 :: L0))) as [lroot left'] eqn:EqRecL.
        simpl in *. now rewrite EL, ER.
Qed.
End Update.
