(* Multiproofs (types/multiproof.go): computeMultiproof / expandMultiproof / multiproofSize over one tree,
   the grouping of leaves into trees by proof length (forEachTree), and the leaf-count inference of the
   V2TransactionsMultiproof codec.  Executable definitions only; proofs are in MultiProofs.v. *)
From Coq Require Import List NArith Lia Bool.
From Sia Require Import Merkle.Tree.
Import ListNotations.
Open Scope N_scope.

Section Multi.
Variable hash : Type.
Variable node : hash -> hash -> hash.

(* an element leaf as the multiproof code sees it: leaf index, leaf hash, individual proof (bottom-up) *)
Record mleaf := { ml_idx : N; ml_hash : hash; ml_proof : list hash }.

(* splitLeaves: sort.Search for the first leaf with index >= mid, on a list sorted by index *)
Fixpoint split_mid (mid : N) (ls : list mleaf) : list mleaf * list mleaf :=
  match ls with
  | [] => ([], [])
  | x :: r => if ml_idx x <? mid then let (a, b) := split_mid mid r in (x :: a, b) else ([], ls)
  end.

Definition pow2 (h : nat) : N := 2 ^ N.of_nat h.

(* computeMultiproof's visit on the tree [base, base + 2^h); None is a Go panic (index out of range) *)
Fixpoint compute (h : nat) (base : N) (ls : list mleaf) : option (list hash) :=
  match h with
  | O => Some []
  | S h' =>
    let mid := base + pow2 h' in
    let (l, r) := split_mid mid ls in
    let a := match l with
             | [] => match r with x :: _ => option_map (fun s => [s]) (nth_error (ml_proof x) h') | [] => None end
             | _ => compute h' base l
             end in
    let b := match r with
             | [] => match l with x :: _ => option_map (fun s => [s]) (nth_error (ml_proof x) h') | [] => None end
             | _ => compute h' mid r
             end in
    match a, b with Some a, Some b => Some (a ++ b) | _, _ => None end
  end.

(* multiproofSize's proofSize *)
Fixpoint msize (h : nat) (base : N) (ls : list mleaf) : nat :=
  match ls with
  | [] => 1
  | _ => match h with
         | O => 0
         | S h' => let mid := base + pow2 h' in
                   let (l, r) := split_mid mid ls in (msize h' base l + msize h' mid r)%nat
         end
  end.

(* expandMultiproof's visit, functional form: returns the subtree root, the restored proof (bottom-up) of
   every leaf in order, and the unconsumed part of the multiproof; None is a Go panic (proof[0] on empty) *)
Fixpoint expand (h : nat) (base : N) (ls : list mleaf) (pf : list hash) : option (hash * list (list hash) * list hash) :=
  match ls with
  | [] => match pf with p :: rest => Some (p, [], rest) | [] => None end
  | x :: _ =>
    match h with
    | O => Some (ml_hash x, map (fun _ => []) ls, pf)
    | S h' =>
      let mid := base + pow2 h' in
      let (l, r) := split_mid mid ls in
      match expand h' base l pf with
      | None => None
      | Some (lr, lp, pf1) =>
        match expand h' mid r pf1 with
        | None => None
        | Some (rr, rp, pf2) =>
          Some (node lr rr, map (fun p => p ++ [rr]) lp ++ map (fun p => p ++ [lr]) rp, pf2)
        end
      end
    end
  end.

(* what a valid individual proof is: the siblings of position i in the perfect tree t rooted at base *)
Fixpoint proof_in (t : ptree hash) (base i : N) : list hash :=
  match t with
  | Leaf _ _ => []
  | Node _ l r => let mid := base + pow2 (height hash l) in
                if i <? mid then proof_in l base i ++ [root hash node r] else proof_in r mid i ++ [root hash node l]
  end.
Fixpoint leaf_in (t : ptree hash) (base i : N) : hash :=
  match t with
  | Leaf _ x => x
  | Node _ l r => let mid := base + pow2 (height hash l) in if i <? mid then leaf_in l base i else leaf_in r mid i
  end.

(* ---- forEachTree: leaves grouped by proof length, each group sorted by index ---- *)
Fixpoint insert_sorted (x : mleaf) (ls : list mleaf) : list mleaf :=
  match ls with
  | [] => [x]
  | y :: r => if ml_idx y <=? ml_idx x then y :: insert_sorted x r else x :: ls
  end.
Definition sort_leaves (ls : list mleaf) : list mleaf := fold_left (fun acc x => insert_sorted x acc) ls [].
Definition clear_low (x : N) (n : nat) : N := (x / pow2 n) * pow2 n.
Definition group (ls : list mleaf) (h : nat) : list mleaf :=
  sort_leaves (filter (fun x => Nat.eqb (length (ml_proof x)) h) ls).
Definition tree_base (g : list mleaf) (h : nat) : N := match g with x :: _ => clear_low (ml_idx x) (S h) | [] => 0 end.

(* computeMultiproof over all trees (heights 0..63) *)
Definition compute_all (ls : list mleaf) : option (list hash) :=
  fold_left (fun acc h => match acc with
                          | None => None
                          | Some a => match group ls h with
                                      | [] => Some a
                                      | g => match compute h (tree_base g h) g with Some b => Some (a ++ b) | None => None end
                                      end
                          end) (seq 0 64) (Some []).
Definition msize_all (ls : list mleaf) : nat :=
  fold_left (fun acc h => match group ls h with [] => acc | g => (acc + msize h (tree_base g h) g)%nat end) (seq 0 64) 0%nat.
(* expandMultiproof over all trees: the restored proofs, keyed by leaf index, per tree *)
Definition expand_all (ls : list mleaf) (pf : list hash) : option (list (nat * list (N * list hash)) * list hash) :=
  fold_left (fun acc h => match acc with
                          | None => None
                          | Some (out, pf) =>
                            match group ls h with
                            | [] => Some (out, pf)
                            | g => match expand h (tree_base g h) g pf with
                                   | Some (_, ps, pf') => Some (out ++ [(h, combine (map ml_idx g) ps)], pf')
                                   | None => None
                                   end
                            end
                          end) (seq 0 64) (Some ([], pf)).

(* ---- the codec's leaf-count inference ---- *)
(* encoder: numLeaves |= idx &^ (n-1) | n with n = 2^len(proof) *)
Definition infer_leaves (ls : list (N * nat)) : N :=
  fold_left (fun acc x => N.lor acc (N.lor (clear_low (fst x) (snd x)) (pow2 (snd x)))) ls 0.
(* decoder: len(proof) = bits.Len64(idx ^ numLeaves) - 1, rejected unless idx < numLeaves *)
Definition proof_len (idx numLeaves : N) : option nat :=
  if idx <? numLeaves then Some (N.to_nat (N.log2 (N.lxor idx numLeaves))) else None.
End Multi.
