(* Multiproof codec: the leaf-count inference recovers every proof length; the individual proofs of the lossless theorem are exactly those that verify. *)
From Coq Require Import List NArith Lia Bool PeanoNat ZifyN ZifyNat ZifyBool.
From Sia Require Import Merkle.Tree Merkle.Multi Merkle.MultiProofs.
Import ListNotations.
Open Scope N_scope.

(* leaf idx lives in the tree of height h of an accumulator with NL leaves *)
Definition in_tree (NL idx : N) (h : nat) : Prop :=
  N.testbit NL (N.of_nat h) = true /\ N.testbit idx (N.of_nat h) = false /\
  (forall b, N.of_nat h < b -> N.testbit idx b = N.testbit NL b).

Lemma clear_low_bits x n b : N.testbit (clear_low x n) b = if b <? N.of_nat n then false else N.testbit x b.
Proof.
  unfold clear_low, pow2. destruct (b <? N.of_nat n) eqn:E.
  - apply N.mul_pow2_bits_low. lia.
  - rewrite N.mul_pow2_bits_high by lia. rewrite N.div_pow2_bits. f_equal. lia.
Qed.

Lemma elem_bits NL idx h b : in_tree NL idx h ->
  N.testbit (N.lor (clear_low idx h) (pow2 h)) b = (N.of_nat h <=? b) && N.testbit NL b.
Proof.
  intros (H1 & H2 & H3). rewrite N.lor_spec, clear_low_bits. unfold pow2. rewrite N.pow2_bits_eqb.
  destruct (b <? N.of_nat h) eqn:E1.
  - assert ((N.of_nat h =? b) = false) by lia. assert ((N.of_nat h <=? b) = false) by lia. rewrite H, H0. reflexivity.
  - destruct (N.of_nat h =? b) eqn:E2.
    + assert (b = N.of_nat h) by lia. subst b. rewrite H1, H2. assert ((N.of_nat h <=? N.of_nat h) = true) by lia. rewrite H. reflexivity.
    + rewrite H3 by lia. assert ((N.of_nat h <=? b) = true) by lia. rewrite H. rewrite orb_false_r. reflexivity.
Qed.

Lemma infer_bits NL ls : Forall (fun x => in_tree NL (fst x) (snd x)) ls -> forall acc b,
  N.testbit (fold_left (fun acc x => N.lor acc (N.lor (clear_low (fst x) (snd x)) (pow2 (snd x)))) ls acc) b =
  N.testbit acc b || (existsb (fun x => N.of_nat (snd x) <=? b) ls && N.testbit NL b).
Proof.
  induction 1 as [|x ls Hx _ IH]; intros acc b; cbn [fold_left existsb].
  - rewrite orb_false_r. reflexivity.
  - rewrite IH, N.lor_spec, (elem_bits NL (fst x) (snd x) b Hx).
    destruct (N.testbit acc b), (N.of_nat (snd x) <=? b), (N.testbit NL b), (existsb _ ls); reflexivity.
Qed.

Lemma lt_arith p q ra rm : 0 < p -> ra < 2 * p -> rm < 2 * p -> (ra / p) mod 2 = 0 -> (rm / p) mod 2 = 1 ->
  q * (2 * p) + ra < q * (2 * p) + rm.
Proof.
  intros P Ra Rm Ba Bm.
  assert (La : ra / p < 2) by (apply N.div_lt_upper_bound; lia).
  assert (Lm : rm / p < 2) by (apply N.div_lt_upper_bound; lia).
  assert (Za : ra / p = 0) by (pose proof (N.mod_small (ra / p) 2 La); lia).
  assert (Om : rm / p = 1) by (pose proof (N.mod_small (rm / p) 2 Lm); lia).
  apply N.div_small_iff in Za; [|lia].
  pose proof (N.div_mod rm p ltac:(lia)) as Dr. rewrite Om in Dr. lia.
Qed.

Lemma lt_by_bits a m h : N.testbit a h = false -> N.testbit m h = true ->
  (forall b, h < b -> N.testbit a b = N.testbit m b) -> a < m.
Proof.
  intros Ha Hm Hb.
  assert (Q : a / 2 ^ (h + 1) = m / 2 ^ (h + 1)).
  { apply N.bits_inj. intros k. rewrite !N.div_pow2_bits. apply Hb. lia. }
  assert (NZ : 2 ^ (h + 1) <> 0) by (apply N.pow_nonzero; discriminate).
  pose proof (N.div_mod a (2 ^ (h + 1)) NZ) as Da.
  pose proof (N.div_mod m (2 ^ (h + 1)) NZ) as Dm.
  assert (Ra : a mod 2 ^ (h + 1) < 2 ^ (h + 1)) by (apply N.mod_lt; exact NZ).
  assert (Rm : m mod 2 ^ (h + 1) < 2 ^ (h + 1)) by (apply N.mod_lt; exact NZ).
  assert (Ba : N.testbit (a mod 2 ^ (h + 1)) h = false) by (rewrite N.mod_pow2_bits_low by lia; exact Ha).
  assert (Bm : N.testbit (m mod 2 ^ (h + 1)) h = true) by (rewrite N.mod_pow2_bits_low by lia; exact Hm).
  apply N.testbit_false in Ba. apply N.testbit_true in Bm.
  assert (P0 : 2 ^ h <> 0) by (apply N.pow_nonzero; discriminate).
  assert (PS : 2 ^ (h + 1) = 2 * 2 ^ h) by (rewrite N.pow_add_r, N.pow_1_r; apply N.mul_comm).
  rewrite Q in Da.
  set (ra := a mod 2 ^ (h + 1)) in *. set (rm := m mod 2 ^ (h + 1)) in *. set (qq := m / 2 ^ (h + 1)) in *.
  rewrite Da, Dm. rewrite PS in *. rewrite (N.mul_comm (2 * 2 ^ h)).
  apply lt_arith; auto. apply N.neq_0_lt_0; exact P0.
Qed.

(* the decoder recovers every proof length from the inferred leaf count, and no leaf is rejected *)
Theorem proof_len_recovered NL ls idx h : Forall (fun x => in_tree NL (fst x) (snd x)) ls -> In (idx, h) ls ->
  proof_len idx (infer_leaves ls) = Some h.
Proof.
  intros F I. unfold proof_len, infer_leaves.
  set (M := fold_left _ ls 0).
  assert (MB : forall b, N.testbit M b = existsb (fun x => N.of_nat (snd x) <=? b) ls && N.testbit NL b).
  { intros b. subst M. rewrite (infer_bits NL ls F 0 b). rewrite N.bits_0. reflexivity. }
  assert (IT : in_tree NL idx h) by (rewrite Forall_forall in F; exact (F (idx, h) I)).
  destruct IT as (H1 & H2 & H3).
  assert (EX : forall b, N.of_nat h <= b -> existsb (fun x => N.of_nat (snd x) <=? b) ls = true).
  { intros b L. apply existsb_exists. exists (idx, h). split; [exact I | cbn; lia]. }
  assert (Mh : N.testbit M (N.of_nat h) = true) by (rewrite MB, EX, H1 by lia; reflexivity).
  assert (Mhi : forall b, N.of_nat h < b -> N.testbit idx b = N.testbit M b) by (intros b L; rewrite MB, EX, H3 by lia; reflexivity).
  assert (LT : idx < M) by (apply (lt_by_bits idx M (N.of_nat h)); auto).
  assert (E : (idx <? M) = true) by lia. rewrite E. f_equal.
  assert (LG : N.log2 (N.lxor idx M) = N.of_nat h).
  { apply N.log2_bits_unique.
    - rewrite N.lxor_spec, H2, Mh. reflexivity.
    - intros m L. rewrite N.lxor_spec, (Mhi m L). apply xorb_nilpotent. }
  rewrite LG. lia.
Qed.

(* ---- the individual proofs the multiproof theorem speaks about are exactly the ones that verify ---- *)
Section Verify.
Variable hash : Type.
Variable node : hash -> hash -> hash.
Notation ptree := (ptree hash).
Notation height := (height hash).
Notation perfect := (perfect hash).
Notation root := (root hash node).

Definition lsb (r : N) (n : nat) : list bool := map (fun k => N.testbit r (N.of_nat k)) (seq 0 n).
Lemma lsb_S r n : lsb r (S n) = lsb r n ++ [N.testbit r (N.of_nat n)].
Proof. unfold lsb. rewrite seq_S, map_app. reflexivity. Qed.
Lemma lsb_length r n : length (lsb r n) = n.
Proof. unfold lsb. rewrite map_length, seq_length. reflexivity. Qed.
Lemma lsb_low r p n : lsb (r + pow2 n * p) n = lsb r n.
Proof.
  unfold lsb. apply map_ext_in. intros k Hk. apply in_seq in Hk.
  assert (NZ : pow2 n <> 0) by (unfold pow2; apply N.pow_nonzero; discriminate).
  rewrite <- (N.mod_pow2_bits_low (r + pow2 n * p) (N.of_nat n)) by lia.
  rewrite <- (N.mod_pow2_bits_low r (N.of_nat n) (N.of_nat k)) by lia.
  fold (pow2 n). rewrite (N.mul_comm (pow2 n) p), N.mod_add by exact NZ. reflexivity.
Qed.

(* proofRoot(leaf, index, sibling path) = root, for every leaf of every perfect tree *)
Theorem proof_in_verifies t : perfect t -> forall base i, base <= i < base + pow2 (height t) ->
  proofRoot hash node (leaf_in hash t base i) (lsb (i - base) (height t)) (proof_in hash node t base i) = root t.
Proof.
  induction t as [x|l IHl r IHr]; intros P base i R; cbn [Tree.height leaf_in proof_in Tree.root].
  - reflexivity.
  - destruct P as (Pl & Pr & E). fold (height l).
    assert (NZ : pow2 (height l) <> 0) by (unfold pow2; apply N.pow_nonzero; discriminate).
    assert (PS : pow2 (S (height l)) = 2 * pow2 (height l)) by (unfold pow2; rewrite Nat2N.inj_succ, N.pow_succ_r'; reflexivity).
    cbn [Tree.height] in R. fold (height l) in R. rewrite PS in R.
    rewrite lsb_S.
    destruct (i <? base + pow2 (height l)) eqn:C.
    + rewrite proofRoot_snoc by (rewrite lsb_length, (proof_in_length hash node l base i Pl); reflexivity).
      rewrite (IHl Pl base i) by lia.
      assert (B : N.testbit (i - base) (N.of_nat (height l)) = false).
      { apply N.testbit_false. fold (pow2 (height l)). rewrite N.div_small by lia. reflexivity. }
      rewrite B. reflexivity.
    + set (r' := i - (base + pow2 (height l))).
      assert (Ei : i - base = r' + pow2 (height l) * 1) by (subst r'; lia).
      rewrite Ei, lsb_low.
      rewrite proofRoot_snoc by (rewrite lsb_length, (proof_in_length hash node r (base + pow2 (height l)) i Pr); lia).
      subst r'. specialize (IHr Pr (base + pow2 (height l)) i ltac:(rewrite <- E; lia)). rewrite <- E in IHr. rewrite IHr.
      assert (B : N.testbit (i - (base + pow2 (height l)) + pow2 (height l) * 1) (N.of_nat (height l)) = true).
      { apply N.testbit_true. fold (pow2 (height l)). rewrite (N.mul_comm (pow2 (height l)) 1), N.div_add by exact NZ.
        rewrite N.div_small by lia. reflexivity. }
      rewrite B. reflexivity.
Qed.
End Verify.
