(* ConvertProofOrdering, part 2: the left-to-right proof of one leaf of a perfect tree, reordered, is the bottom-up sibling
   list that the consensus storage-proof verifier expects. *)
From Coq Require Import List NArith ZArith Arith Bool Lia ZifyN ZifyNat ZifyBool.
From Sia Require Import Prim.Tok Merkle.Tree Merkle.Forest Merkle.Rhp Merkle.RhpProofs Merkle.RhpRoot.
From Sia Require Import Merkle.RgBits Merkle.RgLoops Merkle.RgFinal Merkle.RgGap Merkle.RgMulti Merkle.RgDiff3 Merkle.RgRpv2 Merkle.StorageProof.
From Sia Require Import Merkle.RgConv1.
Import ListNotations.
Local Open Scope N_scope.

Lemma pow_N_nat a : N.of_nat (2 ^ a) = 2 ^ N.of_nat a.
Proof. rewrite Nat2N.inj_pow. reflexivity. Qed.

Section Conv2.
Variable H : bytes -> bytes.
Notation mroot := (Rhp.mroot H).
Notation range_subtrees := (Rhp.range_subtrees H).

(* the two halves of the proof, level by level from the top: at level a' the sibling is the other half *)
Fixpoint lefts (a : nat) (L : list hash) (i : N) : list hash :=
  match a with
  | O => []
  | S a' => let k := (2 ^ a')%nat in
            if N.testbit i (N.of_nat a') then mroot (firstn k L) :: lefts a' (skipn k L) i else lefts a' (firstn k L) i
  end.
Fixpoint rights (a : nat) (L : list hash) (i : N) : list hash :=
  match a with
  | O => []
  | S a' => let k := (2 ^ a')%nat in
            if N.testbit i (N.of_nat a') then rights a' (skipn k L) i else rights a' (firstn k L) i ++ [mroot (skipn k L)]
  end.
(* the consensus order: bottom-up *)
Fixpoint spb (a : nat) (L : list hash) (i : N) : list hash :=
  match a with
  | O => []
  | S a' => let k := (2 ^ a')%nat in
            if N.testbit i (N.of_nat a') then spb a' (skipn k L) i ++ [mroot (firstn k L)] else spb a' (firstn k L) i ++ [mroot (skipn k L)]
  end.

Lemma lefts_ext a : forall L i j, (forall b, b < N.of_nat a -> N.testbit i b = N.testbit j b) -> lefts a L i = lefts a L j.
Proof.
  induction a as [|a IH]; intros L i j E; cbn [lefts]; [reflexivity|]. rewrite (E (N.of_nat a)) by lia.
  destruct (N.testbit j (N.of_nat a)); [f_equal|]; apply IH; intros b Hb; apply E; lia.
Qed.
Lemma rights_ext a : forall L i j, (forall b, b < N.of_nat a -> N.testbit i b = N.testbit j b) -> rights a L i = rights a L j.
Proof.
  induction a as [|a IH]; intros L i j E; cbn [rights]; [reflexivity|]. rewrite (E (N.of_nat a)) by lia.
  destruct (N.testbit j (N.of_nat a)); [|f_equal]; apply IH; intros b Hb; apply E; lia.
Qed.
Lemma spb_ext a : forall L i j, (forall b, b < N.of_nat a -> N.testbit i b = N.testbit j b) -> spb a L i = spb a L j.
Proof.
  induction a as [|a IH]; intros L i j E; cbn [spb]; [reflexivity|]. rewrite (E (N.of_nat a)) by lia.
  destruct (N.testbit j (N.of_nat a)); f_equal; apply IH; intros b Hb; apply E; lia.
Qed.

Lemma phi_zero j : 0 < j -> j < 2 ^ 64 -> phi 0 j <= 64.
Proof.
  intros Hj B. unfold phi, tzz. cbn [N.eqb]. rewrite N.sub_0_r. assert (N.log2 j < 64) by (apply N.log2_lt_pow2; lia).
  destruct (N.leb_spec 64 (N.log2 j)); lia.
Qed.

Lemma halves (a : nat) (L : list hash) : length L = (2 ^ S a)%nat ->
  L = firstn (2 ^ a) L ++ skipn (2 ^ a) L /\ N.of_nat (length (firstn (2 ^ a) L)) = 2 ^ N.of_nat a /\ N.of_nat (length (skipn (2 ^ a) L)) = 2 ^ N.of_nat a /\
  length (firstn (2 ^ a) L) = (2 ^ a)%nat /\ length (skipn (2 ^ a) L) = (2 ^ a)%nat.
Proof.
  intros Ll. rewrite Nat.pow_succ_r' in Ll. rewrite firstn_length, skipn_length. rewrite <- pow_N_nat.
  repeat split; [symmetry; apply firstn_skipn | lia | lia | lia | lia].
Qed.

(* Claim A: the builder's two loops produce these lists *)
Lemma left_is_lefts a : forall (L : list hash) i f, (a <= 30)%nat -> length L = (2 ^ a)%nat -> i < 2 ^ N.of_nat a -> (128 <= f)%nat ->
  range_subtrees f L 0 i = lefts a L i.
Proof.
  induction a as [|a IH]; intros L i f Ha Ll Hi Hf.
  - cbn in Hi. assert (i = 0) by lia. subst i. cbn [lefts]. apply subtrees_nil. lia.
  - destruct (halves a L Ll) as (EL & N1 & N2 & M1 & M2). set (L1 := firstn (2 ^ a) L) in *. set (L2 := skipn (2 ^ a) L) in *.
    replace (N.of_nat (S a)) with (N.of_nat a + 1) in Hi by lia.
    assert (A62 : N.of_nat a < 62) by lia.
    assert (P : 0 < 2 ^ N.of_nat a) by (apply N.neq_0_lt_0, N.pow_nonzero; lia).
    assert (B64 : 2 ^ (N.of_nat a + 1) < 2 ^ 64) by (apply N.pow_lt_mono_r; lia).
    cbn [lefts]. fold L1 L2. rewrite (top_bit (N.of_nat a) i Hi). rewrite EL at 1. destruct (N.leb_spec (2 ^ N.of_nat a) i) as [Hi2|Lo].
    + destruct f as [|f']; [lia|]. rewrite (subtrees_left_high H L1 L2 (N.of_nat a) i N1 A62 Hi2 Hi f'). f_equal.
      rewrite (lefts_ext a L2 i (i - 2 ^ N.of_nat a)) by (intros b Hb; symmetry; apply low_bits_sub; assumption).
      destruct (N.eq_dec (i - 2 ^ N.of_nat a) 0) as [Z|NZ].
      * rewrite Z. rewrite <- (IH L2 0 128%nat) by (try lia; apply N.neq_0_lt_0, N.pow_nonzero; lia). rewrite !subtrees_nil by lia. reflexivity.
      * rewrite (subtrees_stable H L2 (i - 2 ^ N.of_nat a) ltac:(lia) f' (S f') 0); [apply IH; try lia; rewrite N.pow_add_r, N.pow_1_r in Hi; lia | lia | |];
          pose proof (phi_zero (i - 2 ^ N.of_nat a) ltac:(lia) ltac:(lia)); lia.
    + rewrite (subtrees_low H L1 L2 f 0 i) by lia. apply IH; try lia.
Qed.
Lemma right_is_rights a : forall (L : list hash) i f, (a <= 30)%nat -> length L = (2 ^ a)%nat -> i < 2 ^ N.of_nat a -> (128 <= f)%nat ->
  range_subtrees f L (i + 1) (2 ^ N.of_nat a) = rights a L i.
Proof.
  induction a as [|a IH]; intros L i f Ha Ll Hi Hf.
  - cbn in Hi. assert (i = 0) by lia. subst i. cbn [rights]. apply subtrees_nil. cbn. lia.
  - destruct (halves a L Ll) as (EL & N1 & N2 & M1 & M2). set (L1 := firstn (2 ^ a) L) in *. set (L2 := skipn (2 ^ a) L) in *.
    replace (N.of_nat (S a)) with (N.of_nat a + 1) in * by lia.
    assert (A62 : N.of_nat a < 62) by lia.
    assert (P : 0 < 2 ^ N.of_nat a) by (apply N.neq_0_lt_0, N.pow_nonzero; lia).
    assert (E2 : 2 ^ (N.of_nat a + 1) = 2 ^ N.of_nat a + 2 ^ N.of_nat a) by (rewrite N.pow_add_r, N.pow_1_r; lia).
    assert (B64 : 2 ^ (N.of_nat a + 1) < 2 ^ 64) by (apply N.pow_lt_mono_r; lia).
    cbn [rights]. fold L1 L2. rewrite (top_bit (N.of_nat a) i Hi). rewrite EL at 1. destruct (N.leb_spec (2 ^ N.of_nat a) i) as [Hi2|Lo].
    + rewrite (rights_ext a L2 i (i - 2 ^ N.of_nat a)) by (intros b Hb; symmetry; apply low_bits_sub; assumption).
      rewrite E2. replace (i + 1) with (2 ^ N.of_nat a + (i - 2 ^ N.of_nat a + 1)) by lia.
      rewrite (subtrees_shift H L1 L2 (N.of_nat a) N1 ltac:(lia) f) by lia. apply IH; try lia.
    + rewrite (subtrees_cross H L1 L2 (N.of_nat a) N1 N2 A62 f (i + 1)) by (try lia; pose proof (phi_bound (i + 1) (2 ^ (N.of_nat a + 1)) B64); lia).
      f_equal. apply IH; try lia.
Qed.

(* ---- the reordering loop ---- *)
Fixpoint cnt (j : N) (b : N) (k : nat) : nat := match k with O => O | S k' => ((if N.testbit j b then 1 else 0) + cnt j (b + 1) k')%nat end.
Lemma cnt_le j k : forall b, (cnt j b k <= k)%nat.
Proof. induction k as [|k IH]; intros b; cbn [cnt]; [lia|]. specialize (IH (b + 1)). destruct (N.testbit j b); lia. Qed.
Lemma cnt_snoc j k : forall b, cnt j b (S k) = (cnt j b k + (if N.testbit j (b + N.of_nat k) then 1 else 0))%nat.
Proof.
  induction k as [|k IH]; intros b; [cbn [cnt]; rewrite N.add_0_r; lia|].
  change (cnt j b (S (S k))) with ((if N.testbit j b then 1 else 0) + cnt j (b + 1) (S k))%nat. rewrite IH. cbn [cnt].
  replace (b + 1 + N.of_nat k) with (b + N.of_nat (S k)) by lia. lia.
Qed.
Lemma lefts_length a : forall L i, length (lefts a L i) = cnt i 0 a.
Proof.
  induction a as [|a IH]; intros L i; [reflexivity|]. rewrite cnt_snoc. cbn [lefts]. rewrite N.add_0_l.
  destruct (N.testbit i (N.of_nat a)); cbn [length]; rewrite IH; lia.
Qed.
Lemma rights_length a : forall L i, length (rights a L i) = (a - cnt i 0 a)%nat.
Proof.
  induction a as [|a IH]; intros L i; [reflexivity|]. rewrite cnt_snoc. cbn [rights]. rewrite N.add_0_l. pose proof (cnt_le i a 0).
  destruct (N.testbit i (N.of_nat a)); [rewrite IH; lia | rewrite app_length, IH; cbn [length]; lia].
Qed.

Lemma snoc_inv {A} (l : list A) : l <> [] -> exists l' x, l = l' ++ [x].
Proof. intros NE. destruct (exists_last NE) as (l' & x & E). exists l', x. exact E. Qed.

(* the top level has a right sibling: it comes out last *)
Lemma conv_right j R k : forall f b X Y, (S k <= f)%nat -> length X = cnt j b k -> length Y = (k - cnt j b k)%nat -> N.testbit j (b + N.of_nat k) = false ->
  convert_order f b j X (Y ++ [R]) (S k) = convert_order f b j X Y k ++ [R].
Proof.
  induction k as [|k IH]; intros f b X Y Hf LX LY Tb.
  - cbn [cnt] in LX, LY. destruct X; [|discriminate]. destruct Y; [|discriminate]. rewrite N.add_0_r in Tb.
    destruct f as [|f]; [lia|]. cbn [convert_order app rev]. rewrite Tb. destruct f; reflexivity.
  - destruct f as [|f]; [lia|]. cbn [cnt] in LX, LY. pose proof (cnt_le j k (b + 1)) as CL.
    replace (b + N.of_nat (S k)) with (b + 1 + N.of_nat k) in Tb by lia.
    cbn [convert_order]. destruct (N.testbit j b) eqn:Bb.
    + destruct (snoc_inv X ltac:(destruct X; [cbn [length] in LX; lia | discriminate])) as (X' & x & ->). rewrite rev_app_distr. cbn [rev app].
      rewrite rev_involutive. replace (S (S k) - 1)%nat with (S k) by lia. replace (S k - 1)%nat with k by lia.
      rewrite app_length in LX. cbn [length] in LX. rewrite (IH f (b + 1) X' Y) by (try lia; exact Tb). reflexivity.
    + destruct Y as [|y Y']; [cbn [length] in LY; lia|]. cbn [app]. replace (S (S k) - 1)%nat with (S k) by lia. replace (S k - 1)%nat with k by lia.
      cbn [length] in LY. rewrite (IH f (b + 1) X Y') by (try lia; exact Tb). reflexivity.
Qed.
(* the top level has a left sibling (the first of the lefts): it comes out last *)
Lemma conv_left j M k : forall f b X Y, (S k <= f)%nat -> length X = cnt j b k -> length Y = (k - cnt j b k)%nat -> N.testbit j (b + N.of_nat k) = true ->
  convert_order f b j (M :: X) Y (S k) = convert_order f b j X Y k ++ [M].
Proof.
  induction k as [|k IH]; intros f b X Y Hf LX LY Tb.
  - cbn [cnt] in LX, LY. destruct X; [|discriminate]. destruct Y; [|discriminate]. rewrite N.add_0_r in Tb.
    destruct f as [|f]; [lia|]. cbn [convert_order app rev]. rewrite Tb. destruct f; reflexivity.
  - destruct f as [|f]; [lia|]. cbn [cnt] in LX, LY. pose proof (cnt_le j k (b + 1)) as CL.
    replace (b + N.of_nat (S k)) with (b + 1 + N.of_nat k) in Tb by lia.
    cbn [convert_order]. destruct (N.testbit j b) eqn:Bb.
    + destruct (snoc_inv X ltac:(destruct X; [cbn [length] in LX; lia | discriminate])) as (X' & x & ->).
      change (M :: X' ++ [x]) with ((M :: X') ++ [x]). rewrite !rev_app_distr. cbn [rev app]. rewrite <- (rev_involutive X') at 2.
      change (rev X' ++ [M]) with (rev (M :: X')). rewrite !rev_involutive.
      replace (S (S k) - 1)%nat with (S k) by lia. replace (S k - 1)%nat with k by lia.
      rewrite app_length in LX. cbn [length] in LX. rewrite (IH f (b + 1) X' Y) by (try lia; exact Tb). reflexivity.
    + destruct Y as [|y Y']; [cbn [length] in LY; lia|]. replace (S (S k) - 1)%nat with (S k) by lia. replace (S k - 1)%nat with k by lia.
      cbn [length] in LY. rewrite (IH f (b + 1) X Y') by (try lia; exact Tb). reflexivity.
Qed.
Lemma cnt_ext j i k : forall b, (forall c, b <= c -> c < b + N.of_nat k -> N.testbit j c = N.testbit i c) -> cnt j b k = cnt i b k.
Proof. induction k as [|k IH]; intros b E; cbn [cnt]; [reflexivity|]. rewrite (E b) by lia. rewrite (IH (b + 1)) by (intros c C1 C2; apply E; lia). reflexivity. Qed.

Lemma conv_is_spb a : forall L i j f, (forall b, b < N.of_nat a -> N.testbit j b = N.testbit i b) -> (a <= f)%nat ->
  convert_order f 0 j (lefts a L i) (rights a L i) a = spb a L i.
Proof.
  induction a as [|a IH]; intros L i j f E Hf.
  - cbn [lefts rights spb]. destruct f; reflexivity.
  - assert (E' : forall b, b < N.of_nat a -> N.testbit j b = N.testbit i b) by (intros b Hb; apply E; lia).
    assert (Cj : cnt j 0 a = cnt i 0 a) by (apply cnt_ext; intros c _ Hc; apply E'; lia).
    cbn [lefts rights spb]. destruct (N.testbit i (N.of_nat a)) eqn:Ti.
    + rewrite conv_left; [rewrite IH by (try exact E'; lia); reflexivity | lia | rewrite lefts_length; lia | rewrite rights_length; lia | rewrite N.add_0_l, E by lia; exact Ti].
    + rewrite conv_right; [rewrite IH by (try exact E'; lia); reflexivity | lia | rewrite lefts_length; lia | rewrite rights_length; lia | rewrite N.add_0_l, E by lia; exact Ti].
Qed.

(* sp_prove (the plain recursive sibling list of the consensus side) on a perfect list, by the bits of the index *)
Lemma sp_prove_spb a : forall (L : list hash) i fuel, length L = (2 ^ a)%nat -> (length L <= fuel)%nat -> i < 2 ^ N.of_nat a ->
  sp_prove H fuel L (N.to_nat i) = spb a L i.
Proof.
  induction a as [|a IH]; intros L i fuel Ll Hf Hi.
  - destruct L as [|x [|y r]]; cbn in Ll; try lia. destruct fuel; reflexivity.
  - destruct (halves a L Ll) as (EL & N1 & N2 & M1 & M2). unfold hash in *.
    assert (P : (0 < 2 ^ a)%nat) by (apply Nat.neq_0_lt_0, Nat.pow_nonzero; lia).
    assert (PN : 0 < 2 ^ N.of_nat a) by (apply N.neq_0_lt_0, N.pow_nonzero; lia).
    replace (N.of_nat (S a)) with (N.of_nat a + 1) in Hi by lia.
    pose proof Ll as Ll'. rewrite Nat.pow_succ_r' in Ll'. destruct fuel as [|f]; [lia|].
    destruct L as [|x [|y r]]; [cbn in Ll'; lia | cbn in Ll'; lia |]. cbn [sp_prove]. set (L := x :: y :: r) in *.
    match goal with |- context [split_point ?n] => assert (K : split_point n = (2 ^ a)%nat) by (change n with (length L); rewrite Ll'; replace (2 * 2 ^ a)%nat with (2 ^ a + 2 ^ a)%nat by lia; apply split_point_pow; lia); rewrite K end. cbn [spb]. rewrite (top_bit (N.of_nat a) i Hi).
    destruct (N.leb_spec (2 ^ N.of_nat a) i) as [Hi2|Lo].
    + destruct (Nat.ltb_spec (N.to_nat i) (2 ^ a)) as [C|_]; [rewrite <- pow_N_nat in Hi2; lia|]. f_equal.
      replace (N.to_nat i - 2 ^ a)%nat with (N.to_nat (i - 2 ^ N.of_nat a)) by (rewrite <- pow_N_nat; lia).
      rewrite (IH _ (i - 2 ^ N.of_nat a) f); [| exact M2 | match goal with |- (?n <= f)%nat => assert (E : n = (2 ^ a)%nat) by exact M2; rewrite E end; clear - Hf Ll' P; lia | rewrite N.pow_add_r, N.pow_1_r in Hi; lia].
      apply spb_ext. intros b Hb. apply low_bits_sub; assumption.
    + destruct (Nat.ltb_spec (N.to_nat i) (2 ^ a)) as [_|C]; [|rewrite <- pow_N_nat in Lo; lia]. f_equal. apply IH; [exact M1 | match goal with |- (?n <= f)%nat => assert (E : n = (2 ^ a)%nat) by exact M1; rewrite E end; clear - Hf Ll' P; lia | exact Lo].
Qed.

(* ConvertProofOrdering of the single-leaf proof = the consensus sibling list *)
Theorem convert_is_storage_proof (a : nat) (L : list hash) i : (1 <= a <= 30)%nat -> length L = (2 ^ a)%nat -> i < 2 ^ N.of_nat a ->
  convert_proof_ordering (build_range_proof H L i (i + 1)) i = sp_prove H (length L) L (N.to_nat i).
Proof.
  intros Ha Ll Hi. assert (Ln : N.of_nat (length L) = 2 ^ N.of_nat a) by (rewrite Ll; apply pow_N_nat).
  assert (P : 0 < 2 ^ N.of_nat a) by (apply N.neq_0_lt_0, N.pow_nonzero; lia).
  assert (B30 : 2 ^ N.of_nat a <= 2 ^ 30) by (apply N.pow_le_mono_r; lia).
  unfold build_range_proof. rewrite Ln. destruct (N.eqb_spec (2 ^ N.of_nat a) 0); [lia|].
  rewrite <- Ln at 1. rewrite <- (subtrees_build H L i ltac:(lia) ltac:(lia)).
  rewrite (build_right_pow2 H (N.of_nat a) L ltac:(lia) ltac:(lia) Ln FUEL (i + 1) ltac:(lia) ltac:(lia)).
  rewrite (left_is_lefts a L i FUEL ltac:(lia) Ll Hi ltac:(unfold FUEL; lia)).
  rewrite (right_is_rights a L i FUEL ltac:(lia) Ll Hi ltac:(unfold FUEL; lia)).
  unfold convert_proof_ordering.
  assert (Lc : N.to_nat (popcount i) = length (lefts a L i)).
  { rewrite <- (left_is_lefts a L i FUEL ltac:(lia) Ll Hi ltac:(unfold FUEL; lia)).
    pose proof (gaps_length H L FUEL 0 i) as G. rewrite (cnt_left H (2 ^ N.of_nat a) i ltac:(lia) ltac:(lia)) in G. lia. }
  rewrite Lc. rewrite firstn_app, firstn_all, Nat.sub_diag. cbn [firstn]. rewrite app_nil_r.
  rewrite skipn_app, skipn_all, Nat.sub_diag. cbn [skipn app].
  rewrite app_length, lefts_length, rights_length. pose proof (cnt_le i a 0).
  replace (cnt i 0 a + (a - cnt i 0 a))%nat with a by lia.
  rewrite (conv_is_spb a L i i 200%nat) by (try reflexivity; lia).
  symmetry. apply sp_prove_spb; [exact Ll | lia | exact Hi].
Qed.
End Conv2.

(* hence the consensus verifier accepts the reordered RHP leaf proof against the plain root *)
Theorem converted_proof_accepted (H : bytes -> bytes) (a : nat) (L : list hash) i filesize d : (1 <= a <= 30)%nat -> length L = (2 ^ a)%nat -> i < 2 ^ N.of_nat a ->
  (0 < filesize < 2 ^ 64)%Z -> Z.of_nat (length L) = sp_num_leaves filesize ->
  Validate.sp_root_v2 H (nth (N.to_nat i) L d) (Z.of_nat (N.to_nat i)) filesize (convert_proof_ordering (build_range_proof H L i (i + 1)) i) = Rhp.mroot H L.
Proof.
  intros Ha Ll Hi Hf Hn. rewrite (convert_is_storage_proof H a L i Ha Ll Hi).
  apply (storage_proof_v2_complete H L filesize (N.to_nat i) d Hf Hn).
  match goal with |- (_ < ?n)%nat => assert (E : n = (2 ^ a)%nat) by exact Ll; rewrite E end. pose proof (pow_N_nat a). lia.
Qed.
