(* Gaps of multi-range (diff) proofs: the greedy decomposition of [i, j) into aligned subtrees takes at most 128 steps
   (heights strictly increase while the alignment of i is the limit, then strictly decrease), so the model's fuel never
   runs out; and inserting the gap's subtree roots moves an accumulator over the first i leaves to one over the first j. *)
From Coq Require Import List NArith Arith Bool Lia ZifyN ZifyNat ZifyBool.
From Sia Require Import Prim.Tok Merkle.Tree Merkle.Forest Merkle.Rhp Merkle.RhpProofs Merkle.RhpRoot.
From Sia Require Import Merkle.RgBits Merkle.RgStruct Merkle.RgLoops Merkle.RgFinal Merkle.RgComplete.
Import ListNotations.
Local Open Scope N_scope.

Definition tzz (i : N) : N := if i =? 0 then 64 else ctz i.
(* the potential: while alignment limits the size, 128 - alignment; afterwards, the bit length of what is left *)
Definition phi (i j : N) : N := if tzz i <=? N.log2 (j - i) then 128 - tzz i else N.log2 (j - i) + 1.

Lemma phi_bound i j : j < 2 ^ 64 -> phi i j <= 128.
Proof.
  intros Hj. unfold phi. destruct (N.leb_spec (tzz i) (N.log2 (j - i))); [lia|].
  destruct (N.eq_dec (j - i) 0) as [Z|NZ]; [rewrite Z; cbn; lia|].
  assert (N.log2 (j - i) < 64) by (apply N.log2_lt_pow2; lia). lia.
Qed.

Lemma log2_sub_lt r b : N.log2 r = b -> 0 < r -> 0 < r - 2 ^ b -> N.log2 (r - 2 ^ b) < b.
Proof.
  intros L R R'. pose proof (N.log2_spec r R) as [M1 M2]. rewrite L in M1, M2. rewrite N.pow_succ_r' in M2.
  apply N.log2_lt_pow2; lia.
Qed.

Lemma phi_step i j : i < j -> j < 2 ^ 64 -> i + next_subtree_size i j < j ->
  phi (i + next_subtree_size i j) j < phi i j.
Proof.
  intros Hij Hj Hnext. destruct (nss_spec i j Hij Hj) as (h & Es & Hh & (k & Dv) & Fit & _ & Eh). rewrite Es in *.
  fold (tzz i) in Eh. set (t := tzz i) in *. set (b := N.log2 (j - i)) in *.
  assert (Hb : b < 64) by (apply N.log2_lt_pow2; lia).
  assert (P : 0 < 2 ^ h) by (apply N.neq_0_lt_0, N.pow_nonzero; lia).
  unfold phi at 2. fold t b. destruct (N.leb_spec t b) as [Le|Gt].
  - (* alignment is the limit: the next position is aligned to at least t + 1 *)
    assert (h = t) by lia. clear Eh. subst h.
    assert (NZ : i <> 0). { intros Z. assert (t = 64) by (unfold t, tzz; rewrite Z; reflexivity). lia. }
    assert (Et : t = ctz i) by (unfold t, tzz; destruct (N.eqb_spec i 0); [contradiction | reflexivity]).
    destruct (ctz_spec i ltac:(lia)) as (q & E). rewrite <- Et in E.
    assert (T' : t + 1 <= tzz (i + 2 ^ t)).
    { unfold tzz. destruct (N.eqb_spec (i + 2 ^ t) 0); [lia|]. apply ctz_divides; [lia|]. exists (q + 1). rewrite N.pow_add_r. change (2 ^ 1) with 2. lia. }
    assert (B' : N.log2 (j - (i + 2 ^ t)) <= b) by (apply N.log2_le_mono; lia).
    unfold phi. clearbody t b. destruct (N.leb_spec (tzz (i + 2 ^ t)) (N.log2 (j - (i + 2 ^ t)))) as [A|A]; clear - Le Hb T' B' A; lia.
  - (* the remaining length is the limit: its top bit goes, and the new position is aligned to exactly that bit *)
    assert (h = b) by lia. clear Eh. subst h.
    assert (B' : N.log2 (j - (i + 2 ^ b)) < b).
    { replace (j - (i + 2 ^ b)) with (j - i - 2 ^ b) by lia. apply log2_sub_lt; [reflexivity | lia | lia]. }
    assert (T' : tzz (i + 2 ^ b) = b).
    { unfold tzz. destruct (N.eqb_spec (i + 2 ^ b) 0); [lia|]. destruct (N.eq_dec i 0) as [->|NZ]; [rewrite N.add_0_l; apply ctz_pow2|].
      assert (Et : t = ctz i) by (unfold t, tzz; destruct (N.eqb_spec i 0); [contradiction | reflexivity]).
      destruct (ctz_spec i ltac:(lia)) as (q & E). rewrite <- Et in E.
      replace (i + 2 ^ b) with (2 ^ b * (2 * (2 ^ (t - b - 1) * (2 * q + 1)) + 1)); [apply ctz_unique|].
      rewrite E. replace t with (b + (1 + (t - b - 1))) at 2 by lia. rewrite !N.pow_add_r. change (2 ^ 1) with 2. lia. }
    unfold phi. rewrite T'. clearbody t b. destruct (N.leb_spec b (N.log2 (j - (i + 2 ^ b)))) as [A|A]; clear - Gt Hb B' A; lia.
Qed.

Section Gap.
Variable H : bytes -> bytes.
Notation node := (Rhp.node H).
Notation mroot := (Rhp.mroot H).
Notation range_subtrees := (Rhp.range_subtrees H).
Notation build_range := (Rhp.build_range H).
Notation insert_range := (Rhp.insert_range H).

Lemma phi_pos i j : i < j -> j < 2 ^ 64 -> 1 <= phi i j.
Proof.
  intros L Hj. unfold phi. destruct (N.leb_spec (tzz i) (N.log2 (j - i))); [|lia]. assert (N.log2 (j - i) < 64) by (apply N.log2_lt_pow2; lia). lia.
Qed.
Lemma subtrees_nil (ls : list hash) f i j : j <= i -> range_subtrees f ls i j = [].
Proof. intros G. destruct f; cbn [Rhp.range_subtrees]; [reflexivity|]. destruct (N.ltb_spec i j); [lia | reflexivity]. Qed.

(* with enough fuel for the potential, the fuel does not matter, and the gap has at most phi hashes *)
Lemma subtrees_stable (ls : list hash) j : j < 2 ^ 64 -> forall f1 f2 i, i < j -> (N.to_nat (phi i j) <= f1)%nat -> (N.to_nat (phi i j) <= f2)%nat ->
  range_subtrees f1 ls i j = range_subtrees f2 ls i j.
Proof.
  intros Hj. induction f1 as [|f1 IH]; intros f2 i L F1 F2; pose proof (phi_pos i j L Hj) as P1; [lia|].
  destruct f2 as [|f2]; [lia|]. cbn [Rhp.range_subtrees]. destruct (N.ltb_spec i j); [|lia]. cbv zeta. f_equal.
  destruct (N.ltb_spec (i + next_subtree_size i j) j) as [L2|G2].
  - pose proof (phi_step i j L Hj L2). apply IH; lia.
  - rewrite !subtrees_nil by exact G2. reflexivity.
Qed.

Lemma subtrees_length (ls : list hash) j : j < 2 ^ 64 -> forall f i, i < j -> (length (range_subtrees f ls i j) <= N.to_nat (phi i j))%nat.
Proof.
  intros Hj. induction f as [|f IH]; intros i L; cbn [Rhp.range_subtrees]; [cbn; lia|].
  destruct (N.ltb_spec i j); [|lia]. cbv zeta. cbn [length]. pose proof (phi_pos i j L Hj) as P1.
  destruct (N.ltb_spec (i + next_subtree_size i j) j) as [L2|G2].
  - pose proof (phi_step i j L Hj L2). specialize (IH _ L2). lia.
  - rewrite subtrees_nil by exact G2. cbn [length]. lia.
Qed.

(* inside the list, the diff-proof gap builder is the range-proof builder *)
Lemma subtrees_build (ls : list hash) j : j <= N.of_nat (length ls) -> j < 2 ^ 64 -> forall f i,
  range_subtrees f ls i j = build_range f ls (N.of_nat (length ls)) i j.
Proof.
  intros Hjn Hj. induction f as [|f IH]; intros i; cbn [Rhp.range_subtrees Rhp.build_range]; [reflexivity|].
  destruct (N.ltb_spec i j) as [L|G]; [|reflexivity]. destruct (N.ltb_spec i (N.of_nat (length ls))); [|lia]. cbn [andb]. cbv zeta.
  destruct (nss_spec i j L Hj) as (h & Es & _ & _ & Fit & _). rewrite Es in *.
  destruct (N.ltb_spec (N.of_nat (length ls)) (i + 2 ^ h)); [lia|]. f_equal. apply IH.
Qed.

(* the verifier's loop over one gap, fed the builder's hashes for it *)
Lemma gap_sync (ls : list hash) i j acc rest : i <= j -> j <= N.of_nat (length ls) -> N.of_nat (length ls) < 2 ^ 64 ->
  Repr hash node (firstn (N.to_nat i) ls) acc ->
  exists acc', insert_range FUEL acc (range_subtrees FUEL ls i j ++ rest) i j = (acc', rest) /\ Repr hash node (firstn (N.to_nat j) ls) acc'.
Proof.
  intros Hij Hjn Hn R. set (big := Nat.max FUEL (N.to_nat (j - i))).
  assert (Hj : j < 2 ^ 64) by lia.
  assert (PB : (N.to_nat (phi i j) <= FUEL)%nat) by (pose proof (phi_bound i j Hj); unfold FUEL; lia).
  assert (E : range_subtrees FUEL ls i j = build_range big ls (N.of_nat (length ls)) i j).
  { rewrite <- (subtrees_build ls j Hjn Hj). destruct (N.eq_dec i j) as [->|Ne]; [rewrite !subtrees_nil by lia; reflexivity|].
    apply subtrees_stable; [exact Hj | lia | exact PB | unfold big; lia]. }
  assert (Len : (length (build_range big ls (N.of_nat (length ls)) i j) < FUEL)%nat).
  { rewrite <- E. destruct (N.eq_dec i j) as [->|Ne].
    - rewrite subtrees_nil by lia. cbn [length]. unfold FUEL. lia.
    - pose proof (subtrees_length ls j Hj FUEL i ltac:(lia)). pose proof (phi_bound i j Hj). unfold FUEL in *. lia. }
  rewrite E. apply (left_sync H ls j Hjn Hn (N.to_nat (j - i)) i acc rest big FUEL); [lia | exact Hij | exact R | unfold big; lia | exact Len].
Qed.
End Gap.
