(* The builder and verifier loops of RHP range proofs, in lock step. *)
From Coq Require Import List NArith Arith Bool Lia ZifyN ZifyNat ZifyBool.
From Sia Require Import Prim.Tok Merkle.Tree Merkle.Forest Merkle.Rhp Merkle.RhpProofs Merkle.RhpRoot.
From Sia Require Import Merkle.RgBits Merkle.RgStruct.
Import ListNotations.
Local Open Scope N_scope.

Section RLoops.
Variable H : bytes -> bytes.
Notation node := (Rhp.node H).
Notation mroot := (Rhp.mroot H).
Notation build_range := (Rhp.build_range H).
Notation insert_range := (Rhp.insert_range H).
Notation insert_node := (Rhp.insert_node H).

Lemma slice_length (ls : list hash) i s : i + s <= N.of_nat (length ls) -> length (slice ls i s) = N.to_nat s.
Proof. intros Hb. unfold slice. rewrite firstn_length, skipn_length. lia. Qed.
Lemma firstn_slice (ls : list hash) i s : firstn (N.to_nat i) ls ++ slice ls i s = firstn (N.to_nat (i + s)) ls.
Proof.
  unfold slice. rewrite <- (firstn_skipn (N.to_nat i) ls) at 3. rewrite firstn_app.
  destruct (le_lt_dec (length ls) (N.to_nat i)) as [Ge|Lt].
  - rewrite (firstn_all2 (n := N.to_nat (i + s))) by (rewrite firstn_length; lia).
    rewrite (skipn_all2 ls Ge). cbn. rewrite !firstn_nil. rewrite app_nil_r. reflexivity.
  - rewrite firstn_length, Nat.min_l by lia. rewrite (firstn_all2 (n := N.to_nat (i + s)) (firstn (N.to_nat i) ls)) by (rewrite firstn_length; lia).
    f_equal. f_equal. lia.
Qed.

(* the left part: subtrees covering [i, start), none clipped *)
Lemma left_sync (ls : list hash) start : start <= N.of_nat (length ls) -> N.of_nat (length ls) < 2 ^ 64 ->
  forall k i acc rest fb fv, (N.to_nat (start - i) <= k)%nat -> i <= start ->
    Repr hash node (firstn (N.to_nat i) ls) acc ->
    (N.to_nat (start - i) <= fb)%nat -> (length (build_range fb ls (N.of_nat (length ls)) i start) < fv)%nat ->
    exists acc', insert_range fv acc (build_range fb ls (N.of_nat (length ls)) i start ++ rest) i start = (acc', rest) /\
                 Repr hash node (firstn (N.to_nat start) ls) acc'.
Proof.
  intros Hs Hn. induction k as [|k IH]; intros i acc rest fb fv Hk Hi R Hfb Hfv.
  - assert (i = start) by lia. subst i. destruct fb as [|fb]; cbn [Rhp.build_range].
    + cbn [app]. exists acc. split; [|exact R]. destruct fv as [|fv]; [cbn in Hfv; lia|]. cbn [Rhp.insert_range]. destruct rest; [reflexivity|]. rewrite N.ltb_irrefl. reflexivity.
    + rewrite N.ltb_irrefl. cbn [andb app]. exists acc. split; [|exact R]. destruct fv as [|fv]; [cbn in Hfv; lia|]. cbn [Rhp.insert_range]. destruct rest; [reflexivity|]. rewrite N.ltb_irrefl. reflexivity.
  - destruct (N.eq_dec i start) as [->|Ne].
    + destruct fb as [|fb]; cbn [Rhp.build_range]; rewrite ?N.ltb_irrefl; cbn [andb app]; exists acc; (split; [|exact R]);
        (destruct fv as [|fv]; [cbn in Hfv; lia|]); cbn [Rhp.insert_range]; (destruct rest; [reflexivity|]); rewrite N.ltb_irrefl; reflexivity.
    + assert (Lt : i < start) by lia.
      destruct (nss_spec i start Lt ltac:(lia)) as (h & Es & Hh & (q & Dv) & Fit & Tz & _).
      destruct fb as [|fb]; [lia|]. cbn [Rhp.build_range] in *.
      destruct (N.ltb_spec i start); [|lia]. destruct (N.ltb_spec i (N.of_nat (length ls))); [|lia]. cbn [andb] in *. cbv zeta in *. rewrite Es in *.
      destruct (N.ltb_spec (N.of_nat (length ls)) (i + 2 ^ h)); [lia|]. cbn [length app] in *.
      destruct fv as [|fv]; [lia|]. cbn [Rhp.insert_range]. destruct (N.ltb_spec i start); [|lia]. cbv zeta. rewrite Es, Tz.
      assert (P : 0 < 2 ^ h) by (apply N.neq_0_lt_0, N.pow_nonzero; lia).
      assert (Sl : length (slice ls i (2 ^ h)) = (2 ^ N.to_nat h)%nat).
      { rewrite slice_length by lia. rewrite <- (N2Nat.id 2) at 1. rewrite <- (N2Nat.id h) at 1. rewrite <- Nat2N.inj_pow, Nat2N.id. reflexivity. }
      assert (R' : Repr hash node (firstn (N.to_nat (i + 2 ^ h)) ls) (insert_node (mroot (slice ls i (2 ^ h))) (N.to_nat h) acc)).
      { rewrite <- firstn_slice. apply (insert_aligned H); [exact R| |exact Sl].
        exists (N.to_nat q). rewrite firstn_length, Nat.min_l by lia. rewrite Dv.
        rewrite N2Nat.inj_mul. f_equal. rewrite <- (N2Nat.id 2) at 1. rewrite <- (N2Nat.id h) at 1. rewrite <- Nat2N.inj_pow, Nat2N.id. reflexivity. }
      apply (IH (i + 2 ^ h) _ rest fb fv); try lia. exact R'.
Qed.
End RLoops.
