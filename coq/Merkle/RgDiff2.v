(* Diff proofs, builder side: the verifier's bookkeeping (modifyLeaves, modifyProofRanges) follows the actions. *)
From Coq Require Import List NArith Arith Bool Lia ZifyN ZifyNat ZifyBool Sorted.
From Sia Require Import Prim.Tok Merkle.Rhp Merkle.RgMulti.
From Sia Require Import Merkle.RgDiff1.
Import ListNotations.
Local Open Scope N_scope.

(* what the actions do to the list of sector roots (append takes the next precomputed root) *)
Fixpoint apply_acts (acts : list action) (L ar : list hash) : option (list hash) :=
  match acts with
  | [] => Some L
  | AAppend :: r => match ar with x :: ar' => apply_acts r (L ++ [x]) ar' | [] => None end
  | ATrim a :: r => if N.of_nat (length L) <? a then None else apply_acts r (firstn (length L - N.to_nat a) L) ar
  | ASwap a b :: r =>
    match nth_error L (N.to_nat a), nth_error L (N.to_nat b) with
    | Some x, Some y => apply_acts r (Rhp.set_nth (N.to_nat b) x (Rhp.set_nth (N.to_nat a) y L)) ar
    | _, _ => None
    end
  end.

(* ---- lists ---- *)
Lemma set_nth_length {A} k (x : A) l : length (Rhp.set_nth k x l) = length l.
Proof.
  unfold Rhp.set_nth. rewrite app_length, firstn_length. pose proof (skipn_length k l) as Sk.
  destruct (skipn k l) as [|y r] eqn:E; cbn [length] in *; lia.
Qed.
Lemma set_nth_nth {A} k (x : A) l d p : nth p (Rhp.set_nth k x l) d = if (p =? k)%nat && (k <? length l)%nat then x else nth p l d.
Proof.
  unfold Rhp.set_nth. destruct (Nat.ltb_spec k (length l)) as [Lt|Ge].
  - pose proof (skipn_length k l) as Sk. destruct (skipn k l) as [|y r] eqn:E; [cbn in Sk; lia|].
    assert (El : l = firstn k l ++ y :: r) by (rewrite <- E; symmetry; apply firstn_skipn).
    assert (Lf : length (firstn k l) = k) by (rewrite firstn_length; lia).
    set (f := firstn k l) in *. clearbody f. rewrite El. clear El E Sk Lt. rewrite andb_true_r.
    destruct (Nat.eqb_spec p k) as [->|Ne].
    + rewrite !app_nth2 by lia. rewrite Lf, Nat.sub_diag. reflexivity.
    + destruct (Nat.lt_ge_cases p k) as [Lp|Gp].
      * rewrite !app_nth1 by lia. reflexivity.
      * rewrite !app_nth2 by lia. rewrite Lf. destruct (p - k)%nat as [|q] eqn:Eq; [lia | reflexivity].
  - rewrite andb_false_r. rewrite skipn_all2 by lia. rewrite app_nil_r, firstn_all2 by lia. reflexivity.
Qed.
Lemma nth_firstn_lt {A} (l : list A) m p d : (p < m)%nat -> nth p (firstn m l) d = nth p l d.
Proof. revert m p. induction l as [|y l IH]; intros m p L; [rewrite firstn_nil; reflexivity|]. destruct m; [lia|]. destruct p; [reflexivity|]. cbn. apply IH. lia. Qed.
Lemma nth_error_both {A} (l : list A) p d x : nth_error l p = Some x -> nth p l d = x /\ (p < length l)%nat.
Proof. intros E. split; [apply nth_error_nth; exact E | apply nth_error_Some; congruence]. Qed.
Lemma nth_nth_error {A} (l : list A) p d : (p < length l)%nat -> nth_error l p = Some (nth p l d).
Proof. intros L. apply List.nth_error_nth'. exact L. Qed.

Lemma leaves_at_length L I : length (leaves_at L I) = length I.
Proof. unfold leaves_at. apply map_length. Qed.
Lemma leaves_at_ext L L' I : (forall j, In j I -> nth (N.to_nat j) L zero_hash = nth (N.to_nat j) L' zero_hash) -> leaves_at L I = leaves_at L' I.
Proof. intros E. unfold leaves_at. apply map_ext_in. exact E. Qed.
Lemma leaves_at_app L I J : leaves_at L (I ++ J) = leaves_at L I ++ leaves_at L J.
Proof. unfold leaves_at. apply map_app. Qed.
Lemma leaves_at_nth L I p : (p < length I)%nat -> nth p (leaves_at L I) zero_hash = nth (N.to_nat (nth p I 0)) L zero_hash.
Proof. intros Lp. unfold leaves_at. rewrite (nth_indep _ zero_hash (nth (N.to_nat 0) L zero_hash)) by (rewrite map_length; exact Lp). rewrite (map_nth (fun j => nth (N.to_nat j) L zero_hash)). reflexivity. Qed.

Definition trm_sorted := trim_marks_sorted idH.

Section Inv.
Variable C : list N.
Hypothesis HC : SS C.

Lemma diff_inv : forall acts L ar S new,
  SS S -> changed_aux acts (N.of_nat (length L)) S = C -> apply_acts acts L ar = Some new ->
  exists nlh nidx,
    modify_leaves_aux (leaves_at L (below (N.of_nat (length L)) C)) acts C ar = Some nlh /\
    modify_ranges (below (N.of_nat (length L)) C) acts (N.of_nat (length L)) = Some nidx /\
    nidx = below (N.of_nat (length new)) C /\ nlh = leaves_at new nidx /\
    N.of_nat (length new) + N.of_nat (length (below (N.of_nat (length L)) C)) = N.of_nat (length L) + N.of_nat (length nidx) /\
    (forall i, ~ In (N.of_nat i) C -> (i < length L)%nat -> (i < length new)%nat -> nth i new zero_hash = nth i L zero_hash) /\
    (forall k, N.min (N.of_nat (length L)) (N.of_nat (length new)) <= k -> k < N.max (N.of_nat (length L)) (N.of_nat (length new)) -> In k C).
Proof.
  induction acts as [|act r IH]; intros L ar S new HS EC EA.
  - cbn [apply_acts] in EA. inversion EA; subst new. eexists. eexists. cbn [modify_leaves_aux modify_ranges].
    split; [reflexivity|]. split; [reflexivity|]. split; [reflexivity|]. split; [reflexivity|]. split; [lia|]. split; [reflexivity | intros k; lia].
  - set (c := N.of_nat (length L)) in *. destruct act as [|a|a b].
    + (* append *)
      cbn [apply_acts] in EA. destruct ar as [|x ar']; [discriminate|]. cbn [changed_aux] in EC.
      assert (Lc : N.of_nat (length (L ++ [x])) = c + 1) by (rewrite app_length; cbn [length]; lia).
      assert (InC : In c C) by (rewrite <- EC; apply changed_mono; apply ins_in; left; reflexivity).
      destruct (IH (L ++ [x]) ar' (insert_sorted c S) new (ins_sorted c S HS) ltac:(rewrite Lc; exact EC) EA) as (nlh & nidx & M1 & M2 & E1 & E2 & Cnt & F1 & F2).
      rewrite Lc in M1, M2, Cnt, F2. rewrite (below_succ C HC c InC) in M1, M2, Cnt.
      exists nlh, nidx. cbn [modify_leaves_aux modify_ranges].
      assert (LE : leaves_at (L ++ [x]) (below c C ++ [c]) = leaves_at L (below c C) ++ [x]).
      { rewrite leaves_at_app. f_equal.
        - apply leaves_at_ext. intros j Hj. apply below_mono in Hj. rewrite app_nth1 by (unfold c in Hj; lia). reflexivity.
        - unfold leaves_at. cbn [map]. unfold c. rewrite Nat2N.id, app_nth2 by lia. rewrite Nat.sub_diag. reflexivity. }
      rewrite LE in M1. split; [exact M1|]. split; [exact M2|]. split; [exact E1|]. split; [exact E2|].
      split; [rewrite app_length in Cnt; cbn [length] in Cnt; lia|]. split.
      * intros i Ni Li Ln. rewrite (F1 i Ni ltac:(rewrite app_length; cbn [length]; lia) Ln). apply app_nth1. exact Li.
      * intros k K1 K2. destruct (N.eq_dec k c) as [->|Ne]; [exact InC|]. apply F2; lia.
    + (* trim *)
      cbn [apply_acts] in EA. fold c in EA. destruct (N.ltb_spec c a) as [|Ha]; [discriminate|]. cbn [changed_aux] in EC.
      destruct (trim_marks (N.to_nat a) c S) as [c1 s1] eqn:ET.
      assert (Ec1 : c1 = c - a) by (change c1 with (fst (c1, s1)); rewrite <- ET, trim_marks_cur by lia; lia).
      assert (Ss1 : SS s1) by (change s1 with (snd (c1, s1)); rewrite <- ET; apply trm_sorted; exact HS).
      assert (Marks : forall k, c - a <= k -> k < c -> In k C).
      { intros k K1 K2. rewrite <- EC. apply changed_mono. change s1 with (snd (c1, s1)). rewrite <- ET. apply trim_marks_in; [lia|]. right. lia. }
      set (L' := firstn (length L - N.to_nat a) L) in *.
      assert (Lc : N.of_nat (length L') = c - a) by (unfold L'; rewrite firstn_length; unfold c; lia).
      destruct (IH L' ar s1 new Ss1 ltac:(rewrite Lc, <- Ec1; exact EC) EA) as (nlh & nidx & M1 & M2 & E1 & E2 & Cnt & F1 & F2).
      rewrite Lc in M1, M2, Cnt, F2.
      destruct (below_trim C HC (N.to_nat a) c ltac:(lia) ltac:(intros k K1 K2; apply Marks; lia)) as [BT BL]. rewrite N2Nat.id in BT.
      exists nlh, nidx. cbn [modify_leaves_aux modify_ranges]. rewrite leaves_at_length.
      destruct (N.ltb_spec (N.of_nat (length (below c C))) a); [lia|].
      assert (LE : firstn (length (below c C) - N.to_nat a) (leaves_at L (below c C)) = leaves_at L' (below (c - a) C)).
      { unfold leaves_at at 1. rewrite firstn_map, BT. apply leaves_at_ext. intros j Hj. apply below_mono in Hj.
        unfold L'. symmetry. apply nth_firstn_lt. unfold c in Hj. lia. }
      rewrite LE, BT. split; [exact M1|]. split; [exact M2|]. split; [exact E1|]. split; [exact E2|].
      split; [rewrite <- BT in Cnt; rewrite firstn_length in Cnt; lia|]. split.
      * intros i Ni Li Ln. assert (Li' : (i < length L')%nat).
        { destruct (Nat.lt_ge_cases i (length L')) as [|G]; [assumption|]. exfalso. apply Ni. apply Marks; unfold c; lia. }
        rewrite (F1 i Ni Li' Ln). unfold L'. apply nth_firstn_lt. unfold L' in Li'. rewrite firstn_length in Li'. lia.
      * intros k K1 K2. destruct (N.lt_ge_cases k (c - a)) as [Lk|Gk]; [apply F2; lia|].
        destruct (N.lt_ge_cases k c) as [Lk2|Gk2]; [apply Marks; lia | apply F2; lia].
    + (* swap *)
      cbn [apply_acts] in EA. destruct (nth_error L (N.to_nat a)) as [x|] eqn:Ea; [|discriminate]. destruct (nth_error L (N.to_nat b)) as [y|] eqn:Eb; [|discriminate].
      destruct (nth_error_both L _ zero_hash x Ea) as [Xa La]. destruct (nth_error_both L _ zero_hash y Eb) as [Yb Lb].
      cbn [changed_aux] in EC.
      set (L' := Rhp.set_nth (N.to_nat b) x (Rhp.set_nth (N.to_nat a) y L)) in *.
      assert (Lc : N.of_nat (length L') = c) by (unfold L'; rewrite !set_nth_length; reflexivity).
      assert (Ia : In a C) by (rewrite <- EC; apply changed_mono; apply ins_in; right; apply ins_in; left; reflexivity).
      assert (Ib : In b C) by (rewrite <- EC; apply changed_mono; apply ins_in; left; reflexivity).
      destruct (IH L' ar (insert_sorted b (insert_sorted a S)) new (ins_sorted b _ (ins_sorted a S HS)) ltac:(rewrite Lc; exact EC) EA)
        as (nlh & nidx & M1 & M2 & E1 & E2 & Cnt & F1 & F2).
      rewrite Lc in M1, M2, Cnt, F2.
      set (I := below c C) in *. destruct (below_prefix C HC c) as [rest EP]. fold I in EP.
      assert (IaI : In a I) by (apply below_mono; split; [exact Ia | unfold c; lia]).
      assert (IbI : In b I) by (apply below_mono; split; [exact Ib | unfold c; lia]).
      assert (NDI : NoDup I) by (apply ss_nodup, below_sorted; exact HC).
      destruct (index_of_spec a I 0 IaI) as [Ba Pa]. destruct (index_of_spec b I 0 IbI) as [Bb Pb]. rewrite Nat.sub_0_r in Pa, Pb.
      exists nlh, nidx. cbn [modify_leaves_aux modify_ranges]. cbv zeta.
      assert (Ei : index_of a C 0 = index_of a I 0) by (rewrite EP at 1; apply index_of_prefix; exact IaI).
      assert (Ej : index_of b C 0 = index_of b I 0) by (rewrite EP at 1; apply index_of_prefix; exact IbI).
      rewrite Ei, Ej. set (i := index_of a I 0) in *. set (j := index_of b I 0) in *.
      rewrite (nth_nth_error (leaves_at L I) i zero_hash) by (rewrite leaves_at_length; lia).
      rewrite (nth_nth_error (leaves_at L I) j zero_hash) by (rewrite leaves_at_length; lia).
      rewrite !leaves_at_nth by lia. rewrite Pa, Pb, Xa, Yb.
      assert (LE : Rhp.set_nth j x (Rhp.set_nth i y (leaves_at L I)) = leaves_at L' I).
      { apply (nth_ext _ _ zero_hash zero_hash); [rewrite !set_nth_length, !leaves_at_length; reflexivity|].
        intros p Lp. rewrite !set_nth_length, leaves_at_length in Lp. rewrite !set_nth_nth, set_nth_length, !leaves_at_length.
        rewrite !leaves_at_nth by exact Lp. unfold L'. rewrite !set_nth_nth, set_nth_length.
        destruct (Nat.ltb_spec j (length I)); [|lia]. destruct (Nat.ltb_spec i (length I)); [|lia].
        destruct (Nat.ltb_spec (N.to_nat b) (length L)); [|lia]. destruct (Nat.ltb_spec (N.to_nat a) (length L)); [|lia]. rewrite !andb_true_r.
        destruct (Nat.eqb_spec p j) as [->|Npj].
        - rewrite Pb, Nat.eqb_refl. reflexivity.
        - destruct (Nat.eqb_spec (N.to_nat (nth p I 0)) (N.to_nat b)) as [Eq|_].
          + exfalso. apply Npj. symmetry. apply nodup_pos; [exact NDI | exact Lp | lia].
          + destruct (Nat.eqb_spec p i) as [->|Npi]; [rewrite Pa, Nat.eqb_refl; reflexivity|].
            destruct (Nat.eqb_spec (N.to_nat (nth p I 0)) (N.to_nat a)) as [Eq|_]; [|reflexivity].
            exfalso. apply Npi. symmetry. apply nodup_pos; [exact NDI | exact Lp | lia]. }
      rewrite LE. split; [exact M1|]. split; [exact M2|]. split; [exact E1|]. split; [exact E2|]. split; [exact Cnt|]. split.
      * intros p Np Lp Ln. rewrite (F1 p Np ltac:(unfold L'; rewrite !set_nth_length; exact Lp) Ln). unfold L'. rewrite !set_nth_nth.
        destruct (Nat.eqb_spec p (N.to_nat b)) as [->|_]; [exfalso; apply Np; rewrite N2Nat.id; exact Ib|]. cbn [andb].
        destruct (Nat.eqb_spec p (N.to_nat a)) as [->|_]; [exfalso; apply Np; rewrite N2Nat.id; exact Ia|]. reflexivity.
      * exact F2.
Qed.
End Inv.
