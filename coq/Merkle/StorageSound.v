(* Storage proofs: soundness for every proof length the verifier lets through (at least the merge height). *)
From Coq Require Import List ZArith NArith Arith Bool Lia.
From Sia Require Import Prim.Result Prim.Tok Merkle.Rhp Merkle.RhpRoot Ledger.Types Ledger.Mid Ledger.Validate Merkle.StorageProof.
Import ListNotations.

Lemma Forall_firstn' {A} (P : A -> Prop) k : forall l, Forall P l -> Forall P (firstn k l).
Proof. induction k as [|k IH]; intros [|x l] F; cbn; try constructor; inversion F; subst; auto. Qed.
Lemma Forall_skipn' {A} (P : A -> Prop) k : forall l, Forall P l -> Forall P (skipn k l).
Proof. induction k as [|k IH]; intros [|x l] F; cbn; auto. inversion F; subst; auto. Qed.

Local Open Scope Z_scope.
(* at the highest bit where they differ, the smaller of two numbers has a zero *)
Lemma top_bit_zero i m : 0 <= i <= m -> 1 <= StorageProof.blen (Z.lxor i m) -> Z.testbit i (StorageProof.blen (Z.lxor i m) - 1) = false.
Proof.
  intros Him Hb. unfold StorageProof.blen in *. destruct (Z.eqb_spec (Z.lxor i m) 0) as [E0|NZ]; [lia|].
  set (x := Z.lxor i m) in *. assert (Hx : 0 < x) by (pose proof (Z.lxor_nonneg i m); lia).
  replace (Z.log2 x + 1 - 1) with (Z.log2 x) by lia. set (t := Z.log2 x). assert (Ht : 0 <= t) by apply Z.log2_nonneg.
  destruct (Z.testbit i t) eqn:Ti; [exfalso|reflexivity].
  assert (Tx : Z.testbit x t = true) by (apply Z.bit_log2; exact Hx).
  assert (Tm : Z.testbit m t = false) by (unfold x in Tx; rewrite Z.lxor_spec, Ti in Tx; destruct (Z.testbit m t); [discriminate | reflexivity]).
  (* shift everything down by t *)
  set (a := Z.shiftr i t). set (b := Z.shiftr m t).
  assert (X1 : Z.lxor a b = 1).
  { unfold a, b. rewrite <- Z.shiftr_lxor. fold x. rewrite Z.shiftr_div_pow2 by lia.
    pose proof (Z.log2_spec x Hx) as [L1 L2]. fold t in L1, L2. rewrite Z.pow_succ_r in L2 by lia.
    symmetry. apply Z.div_unique with (x - 2 ^ t); lia. }
  assert (B0 : Z.testbit b 0 = false) by (unfold b; rewrite Z.shiftr_spec by lia; exact Tm).
  assert (Ha : a = b + 1).
  { assert (E : a = Z.lxor 1 b) by (rewrite <- X1, Z.lxor_assoc, Z.lxor_nilpotent, Z.lxor_0_r; reflexivity).
    rewrite E. rewrite Z.add_comm. symmetry. apply Z.add_nocarry_lxor.
    apply Z.bits_inj'. intros n Hn. rewrite Z.land_spec, Z.bits_0. destruct (Z.eq_dec n 0) as [->|Nn]; [rewrite B0; apply andb_false_r|].
    replace 1 with (2 ^ 0) by reflexivity. rewrite Z.pow2_bits_false by lia. reflexivity. }
  unfold a, b in Ha. rewrite !Z.shiftr_div_pow2 in Ha by lia.
  assert (P : 0 < 2 ^ t) by (apply Z.pow_pos_nonneg; lia).
  pose proof (Z.div_le_mono i m (2 ^ t) P ltac:(lia)). lia.
Qed.
Local Close Scope Z_scope.

Section Full.
Variable H : bytes -> bytes.
Notation node := (Rhp.node H).
Notation mroot := (Rhp.mroot H).
Notation hash := bytes.
Variable is_leaf : hash -> Prop.

Definition LeafNodeCollision : Prop := exists y a b : hash, is_leaf y /\ y = node a b.
Definition Collision : Prop := NodeCollision H \/ LeafNodeCollision.

Lemma node_inj a b c d : node a b = node c d -> (a = c /\ b = d) \/ Collision.
Proof.
  intros E. destruct (bytes_eq_dec a c) as [->|Na]; [destruct (bytes_eq_dec b d) as [->|Nb]|].
  - left. split; reflexivity.
  - right. left. exists c, b, c, d. split; [congruence | exact E].
  - right. left. exists a, b, c, d. split; [congruence | exact E].
Qed.

(* the plain root of two or more leaves is a node *)
Lemma mroot_node L : (2 <= length L)%nat -> exists k, (0 < k < length L)%nat /\ k = split_point (length L) /\
  mroot L = node (mroot (firstn k L)) (mroot (skipn k L)).
Proof.
  intros Ln. destruct (split_point_spec (length L) Ln) as (a & E & A & B).
  assert (P : (0 < 2 ^ a)%nat) by (apply Nat.neq_0_lt_0, Nat.pow_nonzero; lia).
  exists (split_point (length L)). split; [rewrite E; lia|]. split; [reflexivity|]. apply (mroot_unfold H L Ln).
Qed.

(* one step of the fold from the top *)
Lemma fold_top x i sth p s : exists l r, fold_rule H x i sth (p ++ [s]) = node l r /\
  ((rule i sth (Z.of_nat (length p)) = true /\ l = s /\ r = fold_rule H x i sth p) \/
   (rule i sth (Z.of_nat (length p)) = false /\ l = fold_rule H x i sth p /\ r = s)).
Proof. rewrite fold_rule_snoc. destruct (rule i sth (Z.of_nat (length p))); eexists _, _; (split; [reflexivity|]); [left | right]; auto. Qed.

(* a chain longer than the tree is deep runs through a leaf: collision *)
Lemma too_long c : forall L x i sth p, Forall is_leaf L -> (1 <= length L <= 2 ^ c)%nat -> (c < length p)%nat ->
  fold_rule H x i sth p = mroot L -> Collision.
Proof.
  induction c as [|c IH]; intros L x i sth p FL Ln Lp E.
  - destruct L as [|l [|l2 r]]; cbn in Ln; try lia. destruct p as [|s p] using rev_ind; [cbn in Lp; lia|]. clear IHp.
    destruct (fold_top x i sth p s) as (a & b & Ef & _). rewrite Ef in E. cbn in E.
    right. exists l, a, b. split; [inversion FL; assumption | symmetry; exact E].
  - destruct p as [|s p] using rev_ind; [cbn in Lp; lia|]. clear IHp. rewrite app_length in Lp. cbn [length] in Lp.
    destruct (fold_top x i sth p s) as (a & b & Ef & Dir). rewrite Ef in E.
    destruct (le_lt_dec 2 (length L)) as [L2|L1].
    + destruct (mroot_node L L2) as (k & Hk & Ek & Em). rewrite Em in E.
      destruct (node_inj _ _ _ _ E) as [[Ea Eb]|C]; [|exact C].
      destruct (split_point_spec (length L) L2) as (a0 & E0 & A0 & B0).
      assert (K : k = (2 ^ a0)%nat) by (transitivity (split_point (length L)); [exact Ek | exact E0]).
      assert (P : (0 < 2 ^ a0)%nat) by (apply Nat.neq_0_lt_0, Nat.pow_nonzero; lia).
      assert (Hac : (a0 <= c)%nat). { destruct (Nat.le_gt_cases a0 c); [assumption|]. exfalso. assert (2 ^ S c <= 2 ^ a0)%nat by (apply Nat.pow_le_mono_r; lia). lia. }
      assert (Pc : (2 ^ a0 <= 2 ^ c)%nat) by (apply Nat.pow_le_mono_r; lia).
      rewrite Nat.pow_succ_r' in *.
      destruct Dir as [(_ & _ & Er)|(_ & El & _)].
      * apply (IH (skipn k L) x i sth p); [apply Forall_skipn'; exact FL | rewrite skipn_length; lia | lia | rewrite <- Er; exact Eb].
      * apply (IH (firstn k L) x i sth p); [apply Forall_firstn'; exact FL | rewrite firstn_length; lia | lia | rewrite <- El; exact Ea].
    + destruct L as [|l [|l2 r]]; cbn in Ln, L1; try lia. cbn in E.
      right. exists l, a, b. split; [inversion FL; assumption | symmetry; exact E].
Qed.

(* a chain shorter than a perfect tree is deep ends at an inner node: collision *)
Lemma too_short c : forall L x i sth p, is_leaf x -> (length L = 2 ^ c)%nat -> (length p < c)%nat ->
  fold_rule H x i sth p = mroot L -> Collision.
Proof.
  induction c as [|c IH]; intros L x i sth p Lx Ln Lp E; [lia|].
  assert (P : (0 < 2 ^ c)%nat) by (apply Nat.neq_0_lt_0, Nat.pow_nonzero; lia).
  rewrite Nat.pow_succ_r' in Ln.
  destruct (mroot_node L ltac:(lia)) as (k & Hk & Ek & Em).
  assert (K : k = (2 ^ c)%nat) by (rewrite Ek, Ln; replace (2 * 2 ^ c)%nat with (2 ^ c + 2 ^ c)%nat by lia; apply split_point_pow; lia).
  destruct p as [|s p] using rev_ind.
  - cbn in E. rewrite Em in E. right. exists x, (mroot (firstn k L)), (mroot (skipn k L)). split; [exact Lx | exact E].
  - clear IHp. rewrite app_length in Lp. cbn [length] in Lp.
    destruct (fold_top x i sth p s) as (a & b & Ef & Dir). rewrite Ef, Em in E.
    destruct (node_inj _ _ _ _ E) as [[Ea Eb]|C]; [|exact C].
    destruct Dir as [(_ & _ & Er)|(_ & El & _)].
    + apply (IH (skipn k L) x i sth p Lx); [rewrite skipn_length; lia | lia | rewrite <- Er; exact Eb].
    + apply (IH (firstn k L) x i sth p Lx); [rewrite firstn_length; lia | lia | rewrite <- El; exact Ea].
Qed.

Local Open Scope Z_scope.
Lemma blen_nonneg x : 0 <= StorageProof.blen x.
Proof. unfold StorageProof.blen. destruct (x =? 0); [lia|]. pose proof (Z.log2_nonneg x). lia. Qed.
Lemma blen_le x a : 0 <= a -> 0 <= x < 2 ^ a -> StorageProof.blen x <= a.
Proof.
  intros Ha Hx. unfold StorageProof.blen. destruct (Z.eqb_spec x 0); [lia|]. assert (Z.log2 x < a) by (apply Z.log2_lt_pow2; lia). lia.
Qed.
Local Close Scope Z_scope.

Lemma sp_prove_fuel f1 : forall L i f2, (length L <= f1)%nat -> (length L <= f2)%nat -> sp_prove H f1 L i = sp_prove H f2 L i.
Proof.
  induction f1 as [|f1 IH]; intros L i f2 A B.
  - destruct L as [|y0 [|y1 r]]; cbn in A; try lia. destruct f2; reflexivity.
  - destruct L as [|y0 [|y1 r]]; [destruct f2; reflexivity | destruct f2; reflexivity |].
    destruct f2 as [|f2]; [cbn in B; lia|]. cbn [sp_prove].
    destruct (split_point_spec (length (y0 :: y1 :: r)) ltac:(cbn; lia)) as (a & E & A0 & B0).
    assert (P : (0 < 2 ^ a)%nat) by (apply Nat.neq_0_lt_0, Nat.pow_nonzero; lia).
    unfold Rhp.hash in *. rewrite E. destruct (i <? 2 ^ a)%nat; f_equal; apply IH; rewrite ?firstn_length, ?skipn_length; lia.
Qed.

(* what verifies with at least merge-height many hashes is the true leaf with its true siblings, or a collision *)
Theorem sp_sound_fold n : forall L i d x p, length L = n -> Forall is_leaf L -> is_leaf x -> (i < length L)%nat ->
  let sth := StorageProof.blen (Z.lxor (Z.of_nat i) (Z.of_nat (length L) - 1)) in
  (sth <= Z.of_nat (length p))%Z ->
  fold_rule H x (Z.of_nat i) sth p = mroot L ->
  (x = nth i L d /\ p = sp_prove H (length L) L i) \/ Collision.
Proof.
  induction n as [n IHn] using lt_wf_ind. intros L i d x p Ln FL Lx Hi sth Hs E.
  destruct (le_lt_dec 2 (length L)) as [L2|L1].
  2:{ (* a single leaf *)
    destruct L as [|l [|l2 r]]; cbn in Hi, L1; try lia. assert (i = 0)%nat by lia. subst i.
    destruct p as [|s p] using rev_ind; [left; cbn in E |- *; split; [exact E | reflexivity]|]. clear IHp.
    destruct (fold_top x 0%Z sth p s) as (a & b & Ef & _). cbn [Z.of_nat] in E. rewrite Ef in E. cbn in E.
    right. right. exists l, a, b. split; [inversion FL; assumption | symmetry; exact E]. }
  destruct (mroot_node L L2) as (k & Hk & Ek & Em).
  destruct (split_point_spec (length L) L2) as (a0 & E0 & A0 & B0).
  assert (K : k = (2 ^ a0)%nat) by (transitivity (split_point (length L)); [exact Ek | exact E0]).
  assert (P : (0 < 2 ^ a0)%nat) by (apply Nat.neq_0_lt_0, Nat.pow_nonzero; lia).
  set (az := Z.of_nat a0). assert (Haz : (0 <= az)%Z) by lia.
  assert (PZ : Z.of_nat (2 ^ a0) = (2 ^ az)%Z) by apply nat_pow_Z.
  assert (PZ1 : (2 ^ (az + 1) = 2 * 2 ^ az)%Z) by (rewrite Z.pow_add_r by lia; lia).
  assert (Hm : (2 ^ az <= Z.of_nat (length L) - 1 < 2 ^ (az + 1))%Z) by (rewrite Nat.pow_succ_r' in B0; lia).
  set (L1 := firstn k L) in *. set (L2' := skipn k L) in *.
  assert (Len1 : length L1 = (2 ^ a0)%nat) by (unfold L1; rewrite firstn_length; lia).
  assert (Len2 : length L2' = (length L - 2 ^ a0)%nat) by (unfold L2'; rewrite skipn_length; lia).
  assert (F1 : Forall is_leaf L1) by (apply Forall_firstn'; exact FL).
  assert (F2 : Forall is_leaf L2') by (apply Forall_skipn'; exact FL).
  (* the honest proof of L in terms of the halves *)
  assert (Prove : sp_prove H (length L) L i = if (i <? 2 ^ a0)%nat then sp_prove H (length L - 1) L1 i ++ [mroot L2'] else sp_prove H (length L - 1) L2' (i - 2 ^ a0) ++ [mroot L1]).
  { destruct L as [|y0 [|y1 r]]; cbn [length] in L2; try lia. cbn [length]. replace (S (S (length r)) - 1)%nat with (S (length r)) by lia.
    cbn [sp_prove]. change (length (y0 :: y1 :: r)) with (S (S (length r))). fold (length (y0 :: y1 :: r)) in *.
    change (S (S (length r))) with (length (y0 :: y1 :: r)). unfold Rhp.hash in *. rewrite E0. unfold L1, L2'. rewrite K. reflexivity. }
  destruct p as [|s p] using rev_ind.
  - (* no hashes at all: the leaf would be the root of two or more leaves *)
    cbn in E. rewrite Em in E. right. right. exists x, (mroot L1), (mroot L2'). split; [exact Lx | exact E].
  - clear IHp. rewrite app_length in Hs. cbn [length] in Hs.
    destruct (fold_top x (Z.of_nat i) sth p s) as (a & b & Ef & Dir). rewrite Ef, Em in E.
    destruct (node_inj _ _ _ _ E) as [[Ea Eb]|C]; [|right; exact C].
    destruct (Nat.ltb_spec i (2 ^ a0)) as [Lt|Ge].
    + (* the claimed index is in the left, perfect half *)
      assert (Sth : sth = (az + 1)%Z) by (unfold sth; apply blen_low; lia).
      assert (Tb : forall j, (az <= j)%Z -> Z.testbit (Z.of_nat i) j = false).
      { intros j Hj. destruct (Z.eq_dec (Z.of_nat i) 0) as [->|NZ]; [apply Z.bits_0|]. apply Z.bits_above_log2; [lia|].
        assert (Z.log2 (Z.of_nat i) < az)%Z by (apply Z.log2_lt_pow2; lia). lia. }
      destruct Dir as [(Rt & _ & Er)|(Rf & El & Er)].
      * (* going right: more hashes than the right half is deep *)
        unfold rule in Rt. rewrite Tb in Rt by lia. cbn [orb] in Rt. apply Z.leb_le in Rt.
        right. apply (too_long a0 L2' x (Z.of_nat i) sth p F2); [rewrite Nat.pow_succ_r' in B0; lia | lia | rewrite <- Er; exact Eb].
      * unfold rule in Rf. apply orb_false_iff in Rf. destruct Rf as [_ Rf]. apply Z.leb_gt in Rf.
        assert (Lp : length p = a0) by lia.
        (* recurse into the perfect half with its own merge height *)
        set (sth1 := StorageProof.blen (Z.lxor (Z.of_nat i) (Z.of_nat (length L1) - 1))).
        assert (S1 : (sth1 <= Z.of_nat (length p))%Z).
        { unfold sth1. rewrite Len1, PZ. apply Z.le_trans with az; [|lia]. apply blen_le; [lia|]. apply lxor_bound; lia. }
        assert (E1 : fold_rule H x (Z.of_nat i) sth1 p = mroot L1).
        { transitivity a; [|exact Ea]. rewrite El. apply fold_rule_ext. intros j Hj. unfold rule. rewrite Sth.
          destruct (Z.leb_spec (az + 1) j); [lia|]. rewrite orb_false_r.
          destruct (Z.leb_spec sth1 j) as [Ab|Be]; [|rewrite orb_false_r; reflexivity].
          unfold sth1 in Ab. rewrite Len1, PZ in Ab. rewrite (ones_above (Z.of_nat i) az j) by lia. reflexivity. }
        destruct (IHn (length L1) ltac:(lia) L1 i d x p eq_refl F1 Lx ltac:(lia) S1 E1) as [[Ex Ep]|C]; [|right; exact C].
        left. split.
        -- rewrite Ex. unfold L1. rewrite <- (firstn_skipn k L) at 2. rewrite app_nth1 by (rewrite firstn_length; lia). reflexivity.
        -- rewrite Prove. destruct (Nat.ltb_spec i (2 ^ a0)); [|lia]. assert (Es : s = mroot L2') by (rewrite <- Er; exact Eb). rewrite Es, Ep. f_equal.
           apply sp_prove_fuel; lia.
    + (* the claimed index is in the right half *)
      assert (Hiz : (2 ^ az <= Z.of_nat i < 2 ^ (az + 1))%Z) by (rewrite Nat.pow_succ_r' in B0; lia).
      assert (Sx : Z.lxor (Z.of_nat i) (Z.of_nat (length L) - 1) = Z.lxor (Z.of_nat (i - 2 ^ a0)) (Z.of_nat (length L2') - 1)).
      { rewrite (lxor_high _ _ az Haz Hiz Hm). f_equal; lia. }
      assert (SthLe : (sth <= az)%Z).
      { unfold sth. rewrite Sx. apply blen_le; [lia|]. apply lxor_bound; [lia | lia | rewrite Nat.pow_succ_r' in B0; lia]. }
      assert (RuleEq : forall j, (0 <= j)%Z -> rule (Z.of_nat i) sth j = rule (Z.of_nat (i - 2 ^ a0)) sth j).
      { intros j Hj. unfold rule. destruct (Z.lt_ge_cases j az) as [Lj|Gj].
        - rewrite (testbit_high (Z.of_nat i) az j) by lia. do 2 f_equal. lia.
        - destruct (Z.leb_spec sth j); [rewrite !orb_true_r; reflexivity | lia]. }
      destruct Dir as [(Rt & El & Er)|(Rf & El & Er)].
      * (* going right *)
        destruct (Z.le_gt_cases sth (Z.of_nat (length p))) as [Ok|Short].
        -- assert (E2 : fold_rule H x (Z.of_nat (i - 2 ^ a0)) (StorageProof.blen (Z.lxor (Z.of_nat (i - 2 ^ a0)) (Z.of_nat (length L2') - 1))) p = mroot L2').
           { rewrite <- Sx. fold sth. transitivity b; [|exact Eb]. rewrite Er. apply fold_rule_ext. intros j Hj. symmetry. apply RuleEq. lia. }
           destruct (IHn (length L2') ltac:(lia) L2' (i - 2 ^ a0)%nat d x p eq_refl F2 Lx ltac:(lia) ltac:(rewrite <- Sx; exact Ok) E2) as [[Ex Ep]|C]; [|right; exact C].
           left. split.
           ++ rewrite Ex. unfold L2'. rewrite <- (firstn_skipn k L) at 2. rewrite app_nth2 by (rewrite firstn_length; lia). rewrite firstn_length. f_equal. lia.
           ++ rewrite Prove. destruct (Nat.ltb_spec i (2 ^ a0)); [lia|]. assert (Es : s = mroot L1) by (rewrite <- El; exact Ea). rewrite Es, Ep. f_equal. apply sp_prove_fuel; lia.
        -- (* exactly merge-height many hashes: the top direction is the top differing bit of i, which is zero *)
           exfalso. assert (Lp : Z.of_nat (length p) = (sth - 1)%Z) by lia.
           unfold rule in Rt. rewrite Lp in Rt. destruct (Z.leb_spec sth (sth - 1)); [lia|]. rewrite orb_false_r in Rt.
           pose proof (top_bit_zero (Z.of_nat i) (Z.of_nat (length L) - 1) ltac:(lia) ltac:(fold sth; lia)) as Z0. fold sth in Z0. congruence.
      * (* going left with an index of the right half: fewer hashes than the perfect half is deep *)
        unfold rule in Rf. apply orb_false_iff in Rf. destruct Rf as [_ Rf]. apply Z.leb_gt in Rf.
        right. apply (too_short a0 L1 x (Z.of_nat i) sth p Lx Len1); [lia | rewrite <- El; exact Ea].
Qed.
End Full.

(* ---- the verifier of the implementation ---- *)
Section FullV2.
Variable H : bytes -> bytes.
(* leaf hashes are hashes of 0x00-prefixed data, node hashes of 0x01-prefixed pairs *)
Definition leaf_hash_form (y : bytes) : Prop := exists d, y = H (0%N :: d).

(* a proof shorter than the merge height gets the invalid marker *)
Lemma sp_root_v2_short x i filesize proof :
  let last := (if (filesize mod 64 =? 0)%Z then ((filesize / 64 - 1) mod 2 ^ 64)%Z else (filesize / 64)%Z) in
  (length proof < Z.to_nat (StorageProof.blen (Z.lxor i last)))%nat -> sp_root_v2 H x i filesize proof = repeat 0%N 32.
Proof.
  cbv zeta. intros Hl. unfold sp_root_v2.
  change (Validate.bitlen (Z.lxor i (if (filesize mod 64 =? 0)%Z then ((filesize / 64 - 1) mod 2 ^ 64)%Z else (filesize / 64)%Z)))
    with (StorageProof.blen (Z.lxor i (if (filesize mod 64 =? 0)%Z then ((filesize / 64 - 1) mod 2 ^ 64)%Z else (filesize / 64)%Z))).
  destruct (Nat.ltb_spec (length proof) (Z.to_nat (StorageProof.blen (Z.lxor i (if (filesize mod 64 =? 0)%Z then ((filesize / 64 - 1) mod 2 ^ 64)%Z else (filesize / 64)%Z))))); [reflexivity | lia].
Qed.

(* soundness: for a file of any size and a proof of any length the verifier lets through, what verifies against the plain
   root of the leaf hashes is the hash of leaf i itself, with exactly the siblings of leaf i -- or a collision is in hand
   (two different pairs with one node hash, or a leaf hash that is also a node hash) *)
Theorem storage_proof_v2_sound (L : list bytes) filesize i d x proof : (0 < filesize < 2 ^ 64)%Z ->
  Z.of_nat (length L) = sp_num_leaves filesize -> (i < length L)%nat ->
  Forall leaf_hash_form L -> leaf_hash_form x ->
  (StorageProof.blen (Z.lxor (Z.of_nat i) (Z.of_nat (length L) - 1)) <= Z.of_nat (length proof))%Z ->
  sp_root_v2 H x (Z.of_nat i) filesize proof = Rhp.mroot H L ->
  (x = nth i L d /\ proof = sp_prove H (length L) L i) \/ Collision H leaf_hash_form.
Proof.
  intros Hf Hn Hi FL Lx Hs Hv.
  rewrite sp_root_v2_is_fold in Hv; rewrite (last_is_pred filesize Hf), <- Hn in *.
  - exact (sp_sound_fold H leaf_hash_form (length L) L i d x proof eq_refl FL Lx Hi Hs Hv).
  - split; [apply blen_nonneg | exact Hs].
Qed.
End FullV2.
