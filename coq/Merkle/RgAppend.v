(* RHP append proofs (rhp/v4 BuildAppendProof / VerifyAppendSectorsProof, rhp/v2 VerifyAppendProof): completeness and
   soundness against the plainly defined root, for every list of existing roots and every batch of appended roots. *)
From Coq Require Import List NArith Arith Bool Lia ZifyN ZifyNat ZifyBool.
From Sia Require Import Prim.Tok Merkle.Tree Merkle.Forest Merkle.Rhp Merkle.RhpProofs Merkle.RhpRoot Merkle.RgSound Merkle.RgSound2.
Import ListNotations.
Local Open Scope N_scope.

(* the verifier's digit filling, over any carrier *)
Section Gen.
Variable X : Type.
Fixpoint pfill (dflt : X) (bits : nat) (k n : N) (ths : list X) : list (option X) :=
  match bits with
  | O => []
  | S b => if N.testbit n k then
             match ths with
             | t :: rest => Some t :: pfill dflt b (k + 1) n rest
             | [] => Some dflt :: pfill dflt b (k + 1) n []
             end
           else None :: pfill dflt b (k + 1) n ths
  end.
Definition somes (ds : list (option X)) : list X := List.concat (map (fun d => match d with Some t => [t] | None => [] end) ds).
Fixpoint dval (ds : list (option X)) : N :=
  match ds with [] => 0 | d :: r => (match d with Some _ => 1 | None => 0 end) + 2 * dval r end.
(* no trailing empty digit *)
Fixpoint ntn (ds : list (option X)) : Prop :=
  match ds with [] => True | d :: r => match r with [] => d <> None | _ => ntn r end end.
End Gen.
Arguments pfill {X}. Arguments somes {X}. Arguments dval {X}. Arguments ntn {X}.

Lemma hom_fill (X Y : Type) (f : X -> Y) dflt bits : forall k n ths,
  map (option_map f) (pfill dflt bits k n ths) = pfill (f dflt) bits k n (map f ths).
Proof.
  induction bits as [|b IH]; intros k n ths; cbn [pfill map]; [reflexivity|].
  destruct (N.testbit n k); [|cbn [map option_map]; f_equal; apply IH].
  destruct ths as [|t rest]; cbn [map option_map]; f_equal; [exact (IH (k + 1) n []) | apply IH].
Qed.

Lemma somes_app (X : Type) (a b : list (option X)) : somes (a ++ b) = somes a ++ somes b.
Proof. unfold somes. rewrite map_app, concat_app. reflexivity. Qed.
Lemma somes_nones (X : Type) k : somes (repeat (@None X) k) = [].
Proof. induction k as [|k IH]; [reflexivity | exact IH]. Qed.

Section Append.
Variable H : bytes -> bytes.
Notation node := (Rhp.node H).
Notation mroot := (Rhp.mroot H).
Notation pa_root := (Rhp.pa_root H).
Notation pa_root_aux := (Rhp.pa_root_aux H).
Notation carry := (Rhp.carry H).
Notation ins0 := (fun a h => insert_node H h 0 a).

Lemma fill_p bits : forall k n ths, fill_trees bits k n ths = pfill zero_hash bits k n ths.
Proof.
  induction bits as [|b IH]; intros k n ths; cbn [fill_trees pfill]; [reflexivity|].
  destruct (N.testbit n k); [destruct ths; f_equal; apply IH | f_equal; apply IH].
Qed.

(* ---- the digits of an accumulator and the binary digits of its leaf count ---- *)
Lemma value_dval (ds : list (option hash)) : forall k, N.of_nat (value hash k ds) = 2 ^ N.of_nat k * dval ds.
Proof.
  induction ds as [|[t|] ds IH]; intros k; cbn [value dval].
  - lia.
  - rewrite Nat2N.inj_add, IH, Nat2N.inj_pow. replace (N.of_nat (S k)) with (N.of_nat k + 1) by lia. rewrite N.pow_add_r. change (N.of_nat 2) with 2. rewrite N.pow_1_r. ring.
  - rewrite IH. replace (N.of_nat (S k)) with (N.of_nat k + 1) by lia. rewrite N.pow_add_r, N.pow_1_r. ring.
Qed.
Lemma repr_dval L ds : Repr hash node L ds -> dval ds = N.of_nat (length L).
Proof. intros R. rewrite (acc_count H L ds R), value_dval. change (N.of_nat 0) with 0. rewrite N.pow_0_r. lia. Qed.

Lemma fill_zero bits : forall k n (ths : list hash), (forall j, k <= j -> N.testbit n j = false) -> pfill zero_hash bits k n ths = repeat None bits.
Proof.
  induction bits as [|b IH]; intros k n ths Z; cbn [pfill repeat]; [reflexivity|].
  rewrite (Z k) by lia. f_equal. apply IH. intros j Hj. apply Z. lia.
Qed.

Lemma fill_honest (ds : list (option hash)) : forall k n bits, N.shiftr n k = dval ds -> (length ds <= bits)%nat ->
  pfill zero_hash bits k n (somes ds) = ds ++ repeat None (bits - length ds).
Proof.
  induction ds as [|d ds IH]; intros k n bits E L.
  - cbn [somes map concat app length]. rewrite Nat.sub_0_r. apply fill_zero. intros j Hj.
    replace j with ((j - k) + k) by lia. rewrite <- N.shiftr_spec by lia. rewrite E. cbn [dval]. apply N.bits_0.
  - destruct bits as [|b]; [cbn in L; lia|]. cbn [length] in L. cbn [pfill].
    assert (T : N.testbit n k = match d with Some _ => true | None => false end).
    { replace k with (0 + k) at 1 by lia. rewrite <- N.shiftr_spec by lia. rewrite E. cbn [dval].
      destruct d; [rewrite (N.add_comm 1), N.testbit_odd_0; reflexivity | rewrite N.add_0_l, N.testbit_even_0; reflexivity]. }
    assert (E' : N.shiftr n (k + 1) = dval ds).
    { rewrite <- N.shiftr_shiftr, E. cbn [dval]. rewrite N.shiftr_div_pow2, N.pow_1_r. destruct d; [|rewrite N.add_0_l, N.mul_comm, N.div_mul by lia; reflexivity].
      rewrite N.add_comm, N.mul_comm, N.div_add_l by lia. change (1 / 2) with 0. lia. }
    rewrite T. destruct d as [t|].
    + change (somes (Some t :: ds)) with (t :: somes ds). cbn [app length]. f_equal. replace (S b - S (length ds))%nat with (b - length ds)%nat by lia.
      apply IH; [exact E' | lia].
    + change (somes (None :: ds)) with (somes ds). cbn [app length]. f_equal. replace (S b - S (length ds))%nat with (b - length ds)%nat by lia.
      apply IH; [exact E' | lia].
Qed.

(* ---- trailing empty digits change nothing ---- *)
Lemma root_trail ds : forall acc k, pa_root_aux acc (ds ++ repeat None k) = pa_root_aux acc ds.
Proof.
  induction ds as [|[t|] ds IH]; intros acc k; cbn [app Rhp.pa_root_aux]; [|apply IH|apply IH].
  induction k as [|k IHk]; [reflexivity | exact IHk].
Qed.
Lemma carry_trail ds : forall h k, exists k', carry h (ds ++ repeat None k) = carry h ds ++ repeat None k'.
Proof.
  induction ds as [|[t|] ds IH]; intros h k; cbn [app Rhp.carry].
  - destruct k as [|k]; [exists 0%nat; reflexivity | exists k; reflexivity].
  - destruct (IH (node t h) k) as [k' E]. exists k'. rewrite E. reflexivity.
  - exists k. reflexivity.
Qed.
Lemma fold_trail xs : forall ds k, exists k', fold_left ins0 xs (ds ++ repeat None k) = fold_left ins0 xs ds ++ repeat None k'.
Proof.
  induction xs as [|x xs IH]; intros ds k; cbn [fold_left]; [exists k; reflexivity|].
  cbn [insert_node]. destruct (carry_trail ds x k) as [k1 E]. rewrite E. apply IH.
Qed.

(* ---- the honest accumulator has no trailing empty digit, so it is no longer than the bit length of the count ---- *)
Lemma carry_nonempty h ds : carry h ds <> [].
Proof. destruct ds as [|[t|] ds]; discriminate. Qed.
Lemma carry_ntn ds : forall h, ntn ds -> ntn (carry h ds).
Proof.
  induction ds as [|[t|] ds IH]; intros h N0; cbn [Rhp.carry].
  - cbn. discriminate.
  - cbn [ntn]. pose proof (carry_nonempty (node t h) ds) as NE. destruct (carry (node t h) ds) as [|c cs] eqn:Ec; [contradiction|].
    rewrite <- Ec. apply IH. cbn [ntn] in N0. destruct ds; [exact I | exact N0].
  - cbn [ntn] in *. destruct ds; [discriminate | exact N0].
Qed.
Lemma fold_ntn xs : forall ds, ntn ds -> ntn (fold_left ins0 xs ds).
Proof. induction xs as [|x xs IH]; intros ds N0; cbn [fold_left]; [exact N0|]. apply IH. cbn [insert_node]. apply carry_ntn. exact N0. Qed.
Lemma ntn_bound (ds : list (option hash)) : ntn ds -> ds <> [] -> 2 ^ N.of_nat (length ds - 1) <= dval ds.
Proof.
  induction ds as [|d ds IH]; intros N0 NE; [contradiction|]. cbn [ntn] in N0. destruct ds as [|d' ds'].
  - destruct d; [cbn; lia | contradiction].
  - specialize (IH N0 ltac:(discriminate)). cbn [length dval] in *.
    replace (N.of_nat (S (S (length ds')) - 1)) with (N.of_nat (S (length ds') - 1) + 1) by lia. rewrite N.pow_add_r.
    destruct d; lia.
Qed.
Lemma ntn_length (ds : list (option hash)) : ntn ds -> (length ds <= N.to_nat (bitlen (dval ds)))%nat.
Proof.
  intros N0. destruct ds as [|d r] eqn:E; [cbn; lia|]. rewrite <- E in *. assert (NE : ds <> []) by (rewrite E; discriminate).
  pose proof (ntn_bound ds N0 NE) as B. unfold bitlen. assert (P : 0 < 2 ^ N.of_nat (length ds - 1)) by (apply N.neq_0_lt_0, N.pow_nonzero; lia).
  destruct (N.eqb_spec (dval ds) 0) as [Z|NZ]; [lia|].
  assert (LL : N.of_nat (length ds - 1) <= N.log2 (dval ds)) by (apply N.log2_le_pow2; lia).
  assert (0 < length ds)%nat by (rewrite E; cbn; lia). lia.
Qed.

(* ---- completeness ---- *)
Section Honest.
Variable ls : list hash.
Let ds0 := fold_left ins0 ls [].
Let n := N.of_nat (length ls).
Lemma honest_repr : Repr hash node ls ds0.
Proof. apply (acc_digits_repr H [] [] ls). apply repr_nil. Qed.
Lemma honest_val : dval ds0 = n.
Proof. apply repr_dval. exact honest_repr. Qed.
Lemma honest_fill bits : (length ds0 <= bits)%nat -> fill_trees bits 0 n (somes ds0) = ds0 ++ repeat None (bits - length ds0).
Proof. intros L. rewrite fill_p. apply fill_honest; [rewrite N.shiftr_0_r; symmetry; exact honest_val | exact L]. Qed.
Lemma honest_len_v4 : (length ds0 <= N.to_nat (bitlen n))%nat.
Proof. rewrite <- honest_val. apply ntn_length. apply fold_ntn. exact I. Qed.
Lemma honest_len_64 : n < 2 ^ 64 -> (length ds0 <= 64)%nat.
Proof.
  intros B. pose proof honest_len_v4 as L. assert (bitlen n <= 64); [|lia]. unfold bitlen. destruct (N.eqb_spec n 0); [lia|].
  assert (N.log2 n < 64) by (apply N.log2_lt_pow2; lia). lia.
Qed.
Lemma honest_old bits : (length ds0 <= bits)%nat -> pa_root (fill_trees bits 0 n (somes ds0)) = mroot ls.
Proof. intros L. rewrite (honest_fill bits L). unfold Rhp.pa_root. rewrite root_trail. apply (repr_root H). exact honest_repr. Qed.
Lemma honest_new bits app : (length ds0 <= bits)%nat -> pa_root (fold_left ins0 app (fill_trees bits 0 n (somes ds0))) = mroot (ls ++ app).
Proof.
  intros L. rewrite (honest_fill bits L). destruct (fold_trail app ds0 (bits - length ds0)) as [k' E]. rewrite E.
  unfold Rhp.pa_root. rewrite root_trail. apply (repr_root H). apply acc_digits_repr. exact honest_repr.
Qed.
End Honest.

Lemma fold1 (x : hash) ds : fold_left ins0 [x] ds = insert_node H x 0 ds.
Proof. reflexivity. Qed.
Lemma hash_eqb_refl (a : hash) : hash_eqb a a = true.
Proof. unfold hash_eqb. destruct (list_eq_dec N.eq_dec a a); [reflexivity | contradiction]. Qed.

(* BuildAppendProof returns the digits of the accumulator over the existing roots and the plain root of old ++ appended *)
Theorem build_append_root (ls app : list hash) : snd (build_append_proof H ls app) = mroot (ls ++ app).
Proof. unfold build_append_proof. cbn [snd]. apply (repr_root H). apply acc_digits_repr. apply honest_repr. Qed.
Theorem append_sectors_complete (ls app : list hash) :
  verify_append_sectors H (N.of_nat (length ls)) (fst (build_append_proof H ls app)) app (mroot ls) (snd (build_append_proof H ls app)) = true.
Proof.
  rewrite build_append_root. unfold verify_append_sectors, build_append_proof. cbn [fst].
  change (List.concat (map (fun d => match d with Some t => [t] | None => [] end) (fold_left ins0 ls []))) with (somes (fold_left ins0 ls [])).
  rewrite (honest_old ls _ (honest_len_v4 ls)), hash_eqb_refl. cbn [negb].
  rewrite (honest_new ls _ app (honest_len_v4 ls)). apply hash_eqb_refl.
Qed.
(* rhp/v2 VerifyAppendProof: the same digits, all 64 heights scanned, one appended root *)
Theorem append_v2_complete (ls : list hash) (x : hash) : N.of_nat (length ls) < 2 ^ 64 ->
  verify_append H (N.of_nat (length ls)) (somes (fold_left ins0 ls [])) x (mroot ls) (mroot (ls ++ [x])) = true.
Proof.
  intros B. unfold verify_append. rewrite (honest_old ls 64 (honest_len_64 ls B)), hash_eqb_refl. cbn [negb].
  pose proof (honest_new ls 64 [x] (honest_len_64 ls B)) as E. rewrite fold1 in E. rewrite E. apply hash_eqb_refl.
Qed.

(* ---- soundness ---- *)
(* how many hashes the filling consumes *)
Fixpoint need (bits : nat) (k n : N) : nat :=
  match bits with O => O | S b => (if N.testbit n k then 1 else 0) + need b (k + 1) n end.
Lemma need_somes (X : Type) (dflt : X) bits : forall k n ths, length (somes (pfill dflt bits k n ths)) = need bits k n.
Proof.
  induction bits as [|b IH]; intros k n ths; cbn [pfill need]; [reflexivity|].
  destruct (N.testbit n k); [|exact (IH (k + 1) n ths)].
  destruct ths as [|t rest]; [change (S (length (somes (pfill dflt b (k + 1) n []))) = (1 + need b (k + 1) n)%nat) | change (S (length (somes (pfill dflt b (k + 1) n rest))) = (1 + need b (k + 1) n)%nat)];
    rewrite IH; reflexivity.
Qed.
Lemma fill_pad (X : Type) (z : X) bits : forall k n c, pfill z bits k n (repeat z c) = pfill z bits k n [].
Proof.
  induction bits as [|b IH]; intros k n c; cbn [pfill]; [reflexivity|]. destruct (N.testbit n k); [|f_equal; apply IH].
  destruct c as [|c]; cbn [repeat]; [reflexivity|]. f_equal. apply IH.
Qed.
Lemma firstn_repeat_ex (X : Type) (z : X) c : forall m, exists c', firstn c (repeat z m) = repeat z c'.
Proof. induction c as [|c IH]; intros m; [exists 0%nat; reflexivity|]. destruct m as [|m]; [exists 0%nat; reflexivity|]. destruct (IH m) as [c' E]. exists (S c'). cbn. rewrite E. reflexivity. Qed.
(* only the first [need] hashes matter, missing ones read as the default *)
Lemma fill_norm (X : Type) (z : X) bits : forall k n ths c m, (need bits k n <= c)%nat -> (c <= m)%nat ->
  pfill z bits k n (firstn c (ths ++ repeat z m)) = pfill z bits k n ths.
Proof.
  induction bits as [|b IH]; intros k n ths c m Hc Hm; cbn [pfill]; [reflexivity|]. cbn [need] in Hc.
  destruct (N.testbit n k).
  - destruct c as [|c]; [lia|]. destruct ths as [|t rest].
    + cbn [app]. destruct m as [|m]; [lia|]. cbn [repeat firstn]. f_equal.
      destruct (firstn_repeat_ex X z c m) as [c' E]. rewrite E. apply fill_pad.
    + cbn [app firstn]. f_equal. apply IH; lia.
  - f_equal. apply IH; lia.
Qed.

(* equal-flagged pair digits project to equal digit lists *)
Lemma fill_pairs_eq (z : hash) bits : forall k n (a b : list hash), length a = length b ->
  allp (pfill (inj z z) bits k n (map (fun ab => inj (fst ab) (snd ab)) (combine a b))) ->
  pfill z bits k n a = pfill z bits k n b.
Proof.
  induction bits as [|bt IH]; intros k n a b L A; cbn [pfill] in *; [reflexivity|].
  destruct (N.testbit n k).
  - destruct a as [|x a]; destruct b as [|y b]; cbn [length] in L; try discriminate; cbn [combine map allp] in A.
    + reflexivity.
    + destruct A as [E A]. cbn in E. rewrite E. f_equal. apply IH; [lia | exact A].
  - cbn [allp] in A. f_equal. apply IH; assumption.
Qed.
Lemma fill_gooda (l : list (hash * hash)) (z : hash) bits : forall k n l,
  gooda H (pfill (inj z z) bits k n (map (fun ab => inj (fst ab) (snd ab)) l)).
Proof.
  induction bits as [|bt IH]; intros k n l0; cbn [pfill]; [apply Forall_nil|].
  destruct (N.testbit n k); [|apply Forall_cons; [exact I | apply IH]].
  destruct l0 as [|x l0]; cbn [map]; (apply Forall_cons; [apply good_inj|]); [exact (IH (k + 1) n []) | apply IH].
Qed.

(* whatever digits reproduce the plain root of ls under the filling for n = |ls| are the accumulator's own digits *)
Theorem fill_sound (ls proof : list hash) bits : (length (fold_left ins0 ls []) <= bits)%nat ->
  pa_root (fill_trees bits 0 (N.of_nat (length ls)) proof) = mroot ls ->
  fill_trees bits 0 (N.of_nat (length ls)) proof = fill_trees bits 0 (N.of_nat (length ls)) (somes (fold_left ins0 ls [])) \/ NodeCollision H.
Proof.
  intros L R. set (n := N.of_nat (length ls)) in *. set (ds0 := fold_left ins0 ls []) in *.
  pose proof (honest_old ls bits L) as R0. fold n ds0 in R0.
  set (p0 := somes ds0) in *. set (c := length p0).
  assert (Nc : need bits 0 n = c).
  { rewrite <- (need_somes hash zero_hash bits 0 n p0). rewrite <- fill_p. unfold p0, ds0, n. rewrite (honest_fill ls bits L).
    rewrite somes_app, somes_nones, app_nil_r. reflexivity. }
  set (p1 := firstn c (proof ++ repeat zero_hash c)).
  assert (L1 : length p1 = length p0).
  { unfold p1. rewrite firstn_length, app_length, repeat_length. fold c. lia. }
  assert (F1 : fill_trees bits 0 n proof = fill_trees bits 0 n p1).
  { rewrite !fill_p. unfold p1. symmetry. apply fill_norm; lia. }
  rewrite F1 in R. rewrite F1. clear F1.
  set (PP := map (fun ab => inj (fst ab) (snd ab)) (combine p1 p0)).
  set (D := pfill (inj zero_hash zero_hash) bits 0 n PP).
  assert (D1 : map (option_map f1) D = fill_trees bits 0 n p1).
  { unfold D. rewrite hom_fill, fill_p. unfold PP. rewrite (map_inj_fst H) by exact L1. reflexivity. }
  assert (D2 : map (option_map f2) D = fill_trees bits 0 n p0).
  { unfold D. rewrite hom_fill, fill_p. unfold PP. rewrite (map_inj_snd H) by exact L1. reflexivity. }
  assert (GD : gooda H D) by (unfold D, PP; apply (fill_gooda [])).
  pose proof (root_inv H D None GD I) as RI.
  pose proof (hom_root _ _ (nd2 H) node f1 (f1_hom H) D None) as H1. rewrite D1 in H1. cbn [option_map] in H1. rewrite <- (rootaux_p H) in H1.
  pose proof (hom_root _ _ (nd2 H) node f2 (f2_hom H) D None) as H2. rewrite D2 in H2. cbn [option_map] in H2. rewrite <- (rootaux_p H) in H2.
  unfold Rhp.pa_root in R, R0. rewrite <- H1 in R. rewrite <- H2 in R0.
  assert (A : allp D \/ NodeCollision H).
  { destruct (proot_aux (nd2 H) None D) as [v|].
    - cbn [option_map] in R, R0. destruct RI as [Gv B]. destruct (Gv ltac:(rewrite R, R0; reflexivity)) as [Sv|C]; [left; apply B; exact Sv | right; exact C].
    - left. apply RI. exact I. }
  destruct A as [A|C]; [left | right; exact C].
  rewrite !fill_p. apply fill_pairs_eq; [exact L1 | exact A].
Qed.

Lemma hash_eqb_eq (a b : hash) : hash_eqb a b = true -> a = b.
Proof. unfold hash_eqb. destruct (list_eq_dec N.eq_dec a b); [intros _; assumption | discriminate]. Qed.
Lemma guard2 (b x : bool) : (if negb b then false else x) = true -> b = true /\ x = true.
Proof. destruct b; cbn; [intros E; split; [reflexivity | exact E] | discriminate]. Qed.

(* VerifyAppendSectorsProof: if it accepts against the plain root of the existing roots (count held true), the new root it
   accepted is the plain root of existing ++ appended -- whatever subtree roots were supplied, too few or too many
   included -- or a node collision is exhibited *)
Theorem append_sectors_sound (ls app proof : list hash) (newRoot : hash) :
  verify_append_sectors H (N.of_nat (length ls)) proof app (mroot ls) newRoot = true ->
  newRoot = mroot (ls ++ app) \/ NodeCollision H.
Proof.
  unfold verify_append_sectors. intros V. apply guard2 in V. destruct V as [V1 V2]. apply hash_eqb_eq in V1. apply hash_eqb_eq in V2.
  destruct (fill_sound ls proof _ (honest_len_v4 ls) V1) as [E|C]; [left | right; exact C].
  rewrite E in V2. rewrite (honest_new ls _ app (honest_len_v4 ls)) in V2. symmetry. exact V2.
Qed.
Theorem append_v2_sound (ls proof : list hash) (x newRoot : hash) : N.of_nat (length ls) < 2 ^ 64 ->
  verify_append H (N.of_nat (length ls)) proof x (mroot ls) newRoot = true ->
  newRoot = mroot (ls ++ [x]) \/ NodeCollision H.
Proof.
  intros B. unfold verify_append. intros V. apply guard2 in V. destruct V as [V1 V2]. apply hash_eqb_eq in V1. apply hash_eqb_eq in V2.
  destruct (fill_sound ls proof 64 (honest_len_64 ls B) V1) as [E|C]; [left | right; exact C].
  rewrite E in V2. pose proof (honest_new ls 64 [x] (honest_len_64 ls B)) as E2. rewrite fold1 in E2. rewrite E2 in V2. symmetry. exact V2.
Qed.
End Append.
