(* Soundness of sector-range proofs, assembled. *)
From Coq Require Import List NArith Arith Bool Lia ZifyN ZifyNat ZifyBool.
From Sia Require Import Prim.Tok Merkle.Tree Merkle.Forest Merkle.Rhp Merkle.RhpProofs Merkle.RhpRoot.
From Sia Require Import Merkle.RgBits Merkle.RgStruct Merkle.RgLoops Merkle.RgRight Merkle.RgCount Merkle.RgXor Merkle.RgFinal Merkle.RgLeft Merkle.RgRightCount Merkle.RgComplete Merkle.RgSound.
Import ListNotations.
Local Open Scope N_scope.

Section RSound2.
Variable H : bytes -> bytes.
Notation node := (Rhp.node H).
Notation mroot := (Rhp.mroot H).

(* the model's verifier is the generic program at (hash, node) *)
Lemma carry_p h ds : carry H h ds = pcarry node h ds.
Proof. revert h. induction ds as [|[t|] ds IH]; intros h; cbn; [reflexivity | rewrite IH; reflexivity | reflexivity]. Qed.
Lemma ins_p h k : forall ds, insert_node H h k ds = pins node h k ds.
Proof. induction k as [|k IH]; intros ds; cbn [insert_node pins]; [apply carry_p|]. destruct ds; f_equal; apply IH. Qed.
Lemma rootaux_p ds : forall acc, pa_root_aux H acc ds = proot_aux node acc ds.
Proof. induction ds as [|[t|] ds IH]; intros acc; cbn [pa_root_aux proot_aux]; [reflexivity | apply IH | apply IH]. Qed.
Lemma range_p fuel : forall acc proof i j, insert_range H fuel acc proof i j = pins_range node fuel acc proof i j.
Proof.
  induction fuel as [|f IH]; intros acc proof i j; cbn [insert_range pins_range]; [reflexivity|].
  destruct proof; [reflexivity|]. destruct (i <? j); [|reflexivity]. cbv zeta. rewrite ins_p. apply IH.
Qed.
Lemma fold_p roots : forall acc, fold_left (fun a h => insert_node H h 0 a) roots acc = fold_left (fun a h => pins node h 0 a) roots acc.
Proof. induction roots as [|x r IH]; intros acc; cbn [fold_left]; [reflexivity|]. rewrite ins_p. apply IH. Qed.

Lemma verify_p proof roots s e n root : n <> 0 ->
  verify_range_proof H proof roots s e n root =
  if negb (N.of_nat (length proof) =? range_proof_size n s e) then false
  else hash_eqb (match pverify_root node proof roots s e with Some r => r | None => zero_hash end) root.
Proof.
  intros Hn. unfold verify_range_proof. destruct (N.eqb_spec n 0); [contradiction|].
  destruct (negb (N.of_nat (length proof) =? range_proof_size n s e)); [reflexivity|].
  unfold pverify_root, pverify_state. rewrite range_p. destruct (pins_range node FUEL [] proof 0 s) as [a1 r1].
  rewrite fold_p, range_p. destruct (pins_range node FUEL (fold_left (fun a h => pins node h 0 a) roots a1) r1 e (Rhp.W - 1)) as [a3 r3].
  cbn [fst]. unfold pa_root. rewrite rootaux_p. reflexivity.
Qed.
End RSound2.

(* a non-empty list of covered roots leaves the accumulator non-empty, so the verifier has a root *)
Section NonEmpty.
Variable X : Type.
Variable nd : X -> X -> X.
Definition has_some (ds : list (option X)) : bool := existsb (fun d => match d with Some _ => true | None => false end) ds.
Lemma carry_some h ds : has_some (pcarry nd h ds) = true.
Proof. revert h. induction ds as [|[t|] ds IH]; intros h; cbn [pcarry has_some existsb]; [reflexivity | apply IH | reflexivity]. Qed.
Lemma ins_some h k : forall ds, has_some (pins nd h k ds) = true.
Proof.
  induction k as [|k IH]; intros ds; cbn [pins]; [apply carry_some|]. destruct ds as [|d ds]; cbn [has_some existsb].
  - exact (IH []).
  - destruct d; [reflexivity | exact (IH ds)].
Qed.
Lemma range_some fuel : forall acc proof i j, has_some acc = true -> has_some (fst (pins_range nd fuel acc proof i j)) = true.
Proof.
  induction fuel as [|f IH]; intros acc proof i j Ha; cbn [pins_range]; [exact Ha|].
  destruct proof; [exact Ha|]. destruct (i <? j); [|exact Ha]. cbv zeta. apply IH. apply ins_some.
Qed.
Lemma root_some ds : forall acc, has_some ds = true \/ acc <> None -> proot_aux nd acc ds <> None.
Proof.
  induction ds as [|[t|] ds IH]; intros acc Hs; cbn [proot_aux has_some existsb] in *.
  - destruct Hs as [Hs|Hs]; [discriminate | exact Hs].
  - apply IH. right. discriminate.
  - apply IH. exact Hs.
Qed.
Lemma verify_some proof roots s e : roots <> [] -> pverify_root nd proof roots s e <> None.
Proof.
  intros Hr. unfold pverify_root, pverify_state. destruct (pins_range nd FUEL [] proof 0 s) as [a1 r1].
  assert (F : has_some (fold_left (fun a h => pins nd h 0 a) roots a1) = true).
  { destruct roots as [|x rs]; [contradiction|]. cbn [fold_left]. generalize (ins_some x 0%nat a1). generalize (pins nd x 0 a1). clear.
    induction rs as [|y rs IH]; intros a Ha; cbn [fold_left]; [exact Ha|]. apply IH. apply ins_some. }
  pose proof (range_some FUEL _ r1 e (Rhp.W - 1) F) as G. destruct (pins_range nd FUEL (fold_left (fun a h => pins nd h 0 a) roots a1) r1 e (Rhp.W - 1)) as [a3 r3].
  cbn [fst] in *. apply root_some. left. exact G.
Qed.
End NonEmpty.

Section Final.
Variable H : bytes -> bytes.
Notation node := (Rhp.node H).
Notation mroot := (Rhp.mroot H).
Notation build_range := (Rhp.build_range H).

(* the honest run consumes the whole proof *)
Lemma honest_left (ls : list hash) start end_ :
  let n := N.of_nat (length ls) in
  0 < n <= 2 ^ 30 -> start < end_ -> end_ <= n ->
  pverify_left node (build_range_proof H ls start end_) (slice ls start (end_ - start)) start end_ = [].
Proof.
  intros n Hn Hse Hen.
  set (bigL := Nat.max FUEL (N.to_nat start)). set (bigR := Nat.max FUEL (N.to_nat n)).
  assert (CL : N.of_nat (length (build_range bigL ls n 0 start)) = popcount start).
  { pose proof (left_count H ls start ltac:(fold n; lia) ltac:(fold n; lia) (N.to_nat start) 0 bigL ltac:(lia) ltac:(lia) (or_introl eq_refl) ltac:(unfold bigL; lia)) as C.
    fold n in C. rewrite C. f_equal. lia. }
  assert (CR : N.of_nat (length (build_range bigR ls n end_ (2 ^ 31 - 1))) = rterm n end_).
  { apply (right_count H ls ltac:(fold n; lia) (N.to_nat n) end_ bigR); fold n; unfold bigR; lia. }
  pose proof (popcount_le_64 start ltac:(lia)) as BL.
  assert (BR : rterm n end_ <= 64).
  { unfold rterm. apply popcount_le_64. apply bits_bound. intros i Hi. rewrite N.land_spec, N.ldiff_spec.
    rewrite (high_bits_zero (Rhp.W - 1) i) by (unfold Rhp.W; lia). reflexivity. }
  assert (EL : build_range FUEL ls n 0 start = build_range bigL ls n 0 start) by (apply build_range_stable'; [unfold bigL; lia | unfold FUEL; lia]).
  assert (ER : build_range FUEL ls n end_ (2 ^ 31 - 1) = build_range bigR ls n end_ (2 ^ 31 - 1)) by (apply build_range_stable'; [unfold bigR; lia | unfold FUEL; lia]).
  unfold pverify_left, pverify_state, build_range_proof. fold n. destruct (N.eqb_spec n 0); [lia|]. rewrite EL, ER.
  set (pL := build_range bigL ls n 0 start) in *. set (pR := build_range bigR ls n end_ (2 ^ 31 - 1)) in *.
  destruct (left_sync H ls start ltac:(fold n; lia) ltac:(fold n; lia) (N.to_nat start) 0 [] pR bigL FUEL) as (accL & IL & RL);
    [lia | lia | cbn; apply repr_nil | unfold bigL; lia | fold n; fold pL; unfold FUEL; lia |].
  fold n in IL. fold pL in IL. rewrite (range_p H) in IL. rewrite IL.
  set (accM := fold_left (fun a h => pins node h 0 a) (slice ls start (end_ - start)) accL).
  assert (RM : Repr hash node (firstn (N.to_nat end_) ls) accM).
  { unfold accM. rewrite <- (fold_p H). replace end_ with (start + (end_ - start)) at 1 by lia. rewrite <- firstn_slice. apply acc_digits_repr. exact RL. }
  destruct (right_sync H ls ltac:(fold n; lia) (N.to_nat n) end_ accM bigR FUEL) as (accR & IR & RR);
    [fold n; lia | lia | fold n; lia | exact RM | fold n; unfold bigR; lia | fold n; fold pR; unfold FUEL; lia |].
  fold n in IR. fold pR in IR. rewrite (range_p H) in IR. rewrite IR. reflexivity.
Qed.

Lemma map_inj_fst (a b : list hash) : length a = length b -> map f1 (map (fun ab => inj (fst ab) (snd ab)) (combine a b)) = a.
Proof. revert b. induction a as [|x a IH]; intros [|y b] E; cbn in *; try lia; [reflexivity|]. f_equal. apply IH. lia. Qed.
Lemma map_inj_snd (a b : list hash) : length a = length b -> map f2 (map (fun ab => inj (fst ab) (snd ab)) (combine a b)) = b.
Proof. revert b. induction a as [|x a IH]; intros [|y b] E; cbn in *; try lia; [reflexivity|]. f_equal. apply IH. lia. Qed.
Lemma lall_eq (a b : list hash) : length a = length b -> lall (map (fun ab => inj (fst ab) (snd ab)) (combine a b)) -> a = b.
Proof. revert b. induction a as [|x a IH]; intros [|y b] E L; cbn in *; try lia; [reflexivity|]. destruct L as [-> L]. f_equal. apply IH; [lia | exact L]. Qed.
Lemma good_all (l : list (hash * hash)) : Forall (Good H) (map (fun ab => inj (fst ab) (snd ab)) l).
Proof. induction l as [|x l IH]; cbn [map]; constructor; [apply good_inj | exact IH]. Qed.

(* the pair argument over abstract lists: two runs of the verifier with equal roots, the second consuming its whole proof *)
Lemma sound_core (proof roots p0 r0 : list hash) start end_ (v1 v2 : hash) :
  length proof = length p0 -> length roots = length r0 -> roots <> [] ->
  pverify_root node proof roots start end_ = Some v1 ->
  pverify_root node p0 r0 start end_ = Some v2 -> v1 = v2 ->
  pverify_left node p0 r0 start end_ = [] ->
  (roots = r0 /\ proof = p0) \/ NodeCollision H.
Proof.
  intros LP LR Rne E1 E2 E12 HH.
  remember (map (fun ab => inj (fst ab) (snd ab)) (combine proof p0)) as PP eqn:EPP.
  remember (map (fun ab => inj (fst ab) (snd ab)) (combine roots r0)) as RR eqn:ERR.
  assert (P1 : map f1 PP = proof) by (rewrite EPP; apply map_inj_fst; exact LP).
  assert (P2 : map f2 PP = p0) by (rewrite EPP; apply map_inj_snd; exact LP).
  assert (R1 : map f1 RR = roots) by (rewrite ERR; apply map_inj_fst; exact LR).
  assert (R2 : map f2 RR = r0) by (rewrite ERR; apply map_inj_snd; exact LR).
  pose proof (hom_verify _ _ (nd2 H) node f1 (f1_hom H) PP RR start end_) as H1. rewrite P1, R1, E1 in H1.
  pose proof (hom_verify _ _ (nd2 H) node f2 (f2_hom H) PP RR start end_) as H2. rewrite P2, R2, E2 in H2.
  pose proof (hom_left _ _ (nd2 H) node f2 (f2_hom H) PP RR start end_) as HL. rewrite P2, R2, HH in HL. apply map_eq_nil in HL.
  assert (GP : Forall (Good H) PP) by (rewrite EPP; apply good_all). assert (GR : Forall (Good H) RR) by (rewrite ERR; apply good_all).
  pose proof (verify_inv H PP RR start end_ GP GR) as Inv.
  destruct (pverify_root (nd2 H) PP RR start end_) as [v|]; [|discriminate]. cbn [option_map] in H1, H2.
  injection H1 as H1. injection H2 as H2.
  destruct Inv as [Gv Pv]. destruct (Gv ltac:(rewrite H1, H2; exact E12)) as [Sv|C]; [|right; exact C]. left.
  destruct (Pv Sv) as [LRR LPP]. split.
  - apply lall_eq; [exact LR | rewrite <- ERR; exact LRR].
  - apply lall_eq; [exact LP | rewrite <- EPP; exact (LPP HL)].
Qed.

Lemma hash_eqb_true (a b : hash) : hash_eqb a b = true -> a = b.
Proof. unfold hash_eqb. destruct (list_eq_dec N.eq_dec a b); [intros _; assumption | discriminate]. Qed.

Lemma guard_true (b x : bool) : (if negb b then false else x) = true -> b = true /\ x = true.
Proof. destruct b; cbn; [intros E; split; [reflexivity | exact E] | discriminate]. Qed.
Lemma some_of (o : option hash) (d root : hash) : o <> None -> match o with Some r => r | None => d end = root -> o = Some root.
Proof. destruct o; [intros _ E; rewrite E; reflexivity | intros E; contradiction]. Qed.

Lemma verify_true proof roots s e n root : n <> 0 -> roots <> [] ->
  verify_range_proof H proof roots s e n root = true ->
  N.of_nat (length proof) = range_proof_size n s e /\ pverify_root node proof roots s e = Some root.
Proof.
  intros Hn Hr Hv. rewrite (verify_p H) in Hv by exact Hn. apply guard_true in Hv. destruct Hv as [Lp Hv].
  split; [apply N.eqb_eq; exact Lp|]. apply hash_eqb_true in Hv.
  exact (some_of _ _ _ (verify_some _ node proof roots s e Hr) Hv).
Qed.

(* soundness: whatever VerifySectorRangeProof accepts against the plain root of a list of at most 2^30 roots, for a range of
   the right length, is the list's own roots for that range, with exactly the proof the builder produces -- or two
   different pairs with the same node hash are in hand *)
Lemma honest_root (ls : list hash) start end_ :
  0 < N.of_nat (length ls) <= 2 ^ 30 -> start < end_ -> end_ <= N.of_nat (length ls) ->
  N.of_nat (length (build_range_proof H ls start end_)) = range_proof_size (N.of_nat (length ls)) start end_ /\
  pverify_root node (build_range_proof H ls start end_) (slice ls start (end_ - start)) start end_ = Some (mroot ls).
Proof.
  intros Hn Hse Hen.
  pose proof (range_proof_complete H ls start end_ Hn Hse Hen) as Hc.
  apply verify_true in Hc; [exact Hc | lia |].
  intros E. apply (f_equal (@length hash)) in E. rewrite slice_length in E by lia. cbn in E. lia.
Qed.

Lemma honest_left' (ls : list hash) start end_ :
  0 < N.of_nat (length ls) <= 2 ^ 30 -> start < end_ -> end_ <= N.of_nat (length ls) ->
  pverify_left node (build_range_proof H ls start end_) (slice ls start (end_ - start)) start end_ = [].
Proof. intros Hn Hse Hen. exact (honest_left ls start end_ Hn Hse Hen). Qed.

Theorem range_proof_sound (ls : list hash) start end_ proof roots :
  0 < N.of_nat (length ls) <= 2 ^ 30 -> start < end_ -> end_ <= N.of_nat (length ls) -> N.of_nat (length roots) = end_ - start ->
  verify_range_proof H proof roots start end_ (N.of_nat (length ls)) (mroot ls) = true ->
  (roots = slice ls start (end_ - start) /\ proof = build_range_proof H ls start end_) \/ NodeCollision H.
Proof.
  intros Hn Hse Hen Hlr Hv.
  destruct (honest_root ls start end_ Hn Hse Hen) as [L2 V2].
  pose proof (honest_left' ls start end_ Hn Hse Hen) as HH.
  assert (LR : length roots = length (slice ls start (end_ - start))) by (rewrite slice_length by lia; lia).
  assert (Rne : roots <> []) by (destruct roots; [cbn in Hlr; lia | discriminate]).
  apply verify_true in Hv; [|lia | exact Rne].
  destruct Hv as [L1 V1].
  assert (LP : length proof = length (build_range_proof H ls start end_)) by lia.
  exact (sound_core proof roots (build_range_proof H ls start end_) (slice ls start (end_ - start)) start end_ (mroot ls) (mroot ls) LP LR Rne V1 V2 eq_refl HH).
Qed.
End Final.

Lemma range_collision_same (H : bytes -> bytes) : NodeCollision H <-> Tree.NodeCollision hash (Rhp.node H).
Proof. unfold NodeCollision, Tree.NodeCollision. split; intros C; exact C. Qed.

(* single leaves of a 65536-leaf sector: instances of the range theorems *)
Section Leaf.
Variable H : bytes -> bytes.
Lemma slice_one (ls : list hash) i : (N.to_nat i < length ls)%nat -> slice ls i 1 = [nth (N.to_nat i) ls zero_hash].
Proof.
  intros L. unfold slice. change (N.to_nat 1) with 1%nat. revert ls L. generalize (N.to_nat i) as k.
  induction k as [|k IH]; intros [|x ls] L; cbn in L; try lia; [reflexivity|]. cbn [skipn nth]. apply IH. lia.
Qed.
Theorem leaf_proof_complete (ls : list hash) i : N.of_nat (length ls) = 65536 -> i < 65536 ->
  verify_range_proof H (build_range_proof H ls i (i + 1)) [nth (N.to_nat i) ls zero_hash] i (i + 1) 65536 (Rhp.mroot H ls) = true.
Proof.
  intros L Hi. pose proof (range_proof_complete H ls i (i + 1)) as C. cbv zeta in C. rewrite L in C.
  replace (i + 1 - i) with 1 in C by lia. rewrite slice_one in C by lia. apply C; lia.
Qed.
Theorem leaf_proof_sound (ls : list hash) i proof leaf : N.of_nat (length ls) = 65536 -> i < 65536 ->
  verify_range_proof H proof [leaf] i (i + 1) 65536 (Rhp.mroot H ls) = true ->
  (leaf = nth (N.to_nat i) ls zero_hash /\ proof = build_range_proof H ls i (i + 1)) \/ NodeCollision H.
Proof.
  intros L Hi V. pose proof (range_proof_sound H ls i (i + 1) proof [leaf]) as S. rewrite L in S.
  replace (i + 1 - i) with 1 in S by lia. rewrite slice_one in S by lia.
  destruct (S ltac:(lia) ltac:(lia) ltac:(lia) ltac:(reflexivity) V) as [[E1 E2]|C]; [left | right; exact C]. split; [inversion E1; reflexivity | exact E2].
Qed.
End Leaf.
