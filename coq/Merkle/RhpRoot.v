(* The streaming accumulators (rhp/v2 sectorAccumulator / proofAccumulator with height-0 inserts,
   blake2b.Accumulator) compute the root of the plainly defined tree [mroot] (split at the largest power of two
   strictly below the length), for every list of leaves. *)
From Coq Require Import List NArith Arith Bool Lia.
From Sia Require Import Prim.Tok Merkle.Tree Merkle.Forest Merkle.Rhp Merkle.RhpProofs.
Import ListNotations.

Section RhpRoot.
Variable H : bytes -> bytes.
Notation node := (Rhp.node H).
Notation mroot := (Rhp.mroot H).
Notation mroot_fuel := (Rhp.mroot_fuel H).

(* ---- the split point ---- *)
Lemma pow2_below_spec fuel : forall p n, (0 < p)%nat -> (p < n)%nat -> (n <= p * 2 ^ fuel)%nat ->
  exists a, pow2_below fuel p n = (p * 2 ^ a)%nat /\ (p * 2 ^ a < n)%nat /\ (n <= 2 * (p * 2 ^ a))%nat.
Proof.
  induction fuel as [|f IH]; intros p n Hp Hlt Hn; cbn [pow2_below].
  - cbn in Hn. lia.
  - destruct (Nat.ltb_spec (2 * p) n) as [L|L].
    + destruct (IH (2 * p)%nat n ltac:(lia) L) as (a & E & A & B).
      { rewrite Nat.pow_succ_r' in Hn. lia. }
      exists (S a). rewrite Nat.pow_succ_r'. rewrite E. split; [lia|]. split; lia.
    + exists 0%nat. cbn. lia.
Qed.
Lemma pow_gt_self n : (n < 2 ^ n)%nat.
Proof. apply Nat.pow_gt_lin_r. lia. Qed.
Lemma split_point_spec n : (2 <= n)%nat -> exists a, split_point n = (2 ^ a)%nat /\ (2 ^ a < n)%nat /\ (n <= 2 ^ S a)%nat.
Proof.
  intros Hn. unfold split_point. destruct (pow2_below_spec n 1 n ltac:(lia) ltac:(lia)) as (a & E & A & B).
  { pose proof (pow_gt_self n). lia. }
  exists a. rewrite E. rewrite Nat.pow_succ_r'. lia.
Qed.
Lemma pow2_sandwich a k n : (2 ^ a < n)%nat -> (n <= 2 ^ S a)%nat -> (2 ^ k < n)%nat -> (n <= 2 ^ S k)%nat -> a = k.
Proof.
  intros A1 A2 K1 K2.
  assert (X : (2 ^ a < 2 ^ S k)%nat) by lia. apply Nat.pow_lt_mono_r_iff in X; [|lia].
  assert (Y : (2 ^ k < 2 ^ S a)%nat) by lia. apply Nat.pow_lt_mono_r_iff in Y; [|lia]. lia.
Qed.
Lemma split_point_pow k m : (0 < m)%nat -> (m <= 2 ^ k)%nat -> split_point (2 ^ k + m) = (2 ^ k)%nat.
Proof.
  intros M1 M2. assert (P : (0 < 2 ^ k)%nat) by (apply Nat.neq_0_lt_0, Nat.pow_nonzero; lia).
  destruct (split_point_spec (2 ^ k + m) ltac:(lia)) as (a & E & A & B).
  rewrite E. f_equal. apply (pow2_sandwich a k (2 ^ k + m)); auto; [lia|]. rewrite Nat.pow_succ_r'. lia.
Qed.

(* ---- the fuel of [mroot_fuel] is irrelevant once it covers the length ---- *)
Lemma mroot_fuel_S f x y r :
  mroot_fuel (S f) (x :: y :: r) =
  node (mroot_fuel f (firstn (split_point (length (x :: y :: r))) (x :: y :: r))) (mroot_fuel f (skipn (split_point (length (x :: y :: r))) (x :: y :: r))).
Proof. reflexivity. Qed.
Lemma mroot_fuel_irrelevant f1 : forall ls f2, (length ls <= f1)%nat -> (length ls <= f2)%nat -> mroot_fuel f1 ls = mroot_fuel f2 ls.
Proof.
  induction f1 as [|f1 IH]; intros ls f2 L1 L2.
  - destruct ls as [|x [|y r]]; cbn in L1; try lia. destruct f2; reflexivity.
  - destruct ls as [|x [|y r]]; [destruct f2; reflexivity | destruct f2; reflexivity |].
    destruct f2 as [|f2]; [cbn in L2; lia|]. rewrite !mroot_fuel_S.
    set (ls := x :: y :: r) in *. assert (Ln : (2 <= length ls)%nat) by (cbn; lia).
    destruct (split_point_spec (length ls) Ln) as (a & E & A & B).
    assert (P : (0 < 2 ^ a)%nat) by (apply Nat.neq_0_lt_0, Nat.pow_nonzero; lia).
    f_equal; apply IH; rewrite ?firstn_length, ?skipn_length; lia.
Qed.
Lemma mroot_unfold ls : (2 <= length ls)%nat ->
  mroot ls = node (mroot (firstn (split_point (length ls)) ls)) (mroot (skipn (split_point (length ls)) ls)).
Proof.
  intros Ln. destruct ls as [|x [|y r]]; cbn [length] in Ln; try lia.
  destruct (split_point_spec (length (x :: y :: r)) Ln) as (a & E & A & B).
  assert (P : (0 < 2 ^ a)%nat) by (apply Nat.neq_0_lt_0, Nat.pow_nonzero; lia).
  unfold Rhp.mroot at 1. change (length (x :: y :: r)) with (S (S (length r))) at 1. rewrite mroot_fuel_S.
  unfold Rhp.mroot. f_equal; apply mroot_fuel_irrelevant; rewrite ?firstn_length, ?skipn_length; cbn [length] in *; lia.
Qed.
Lemma mroot_single x : mroot [x] = x. Proof. reflexivity. Qed.

(* [a ++ b] with |a| = 2^k and 0 < |b| <= 2^k splits at a *)
Lemma mroot_app a b k : length a = (2 ^ k)%nat -> (0 < length b)%nat -> (length b <= 2 ^ k)%nat ->
  mroot (a ++ b) = node (mroot a) (mroot b).
Proof.
  intros La B1 B2. assert (P : (0 < 2 ^ k)%nat) by (apply Nat.neq_0_lt_0, Nat.pow_nonzero; lia).
  rewrite mroot_unfold by (rewrite app_length; lia).
  rewrite app_length, La, (split_point_pow k (length b) B1 B2), <- La.
  rewrite firstn_app, Nat.sub_diag, firstn_all, skipn_app, Nat.sub_diag, skipn_all. cbn [firstn skipn]. rewrite app_nil_r. reflexivity.
Qed.

(* ---- a perfect tree's root is the plain root of its leaves ---- *)
Lemma perfect_root t : perfect hash t -> mroot (leaves hash t) = root hash node t.
Proof.
  induction t as [x|l IHl r IHr]; cbn [perfect leaves root]; intros P; [reflexivity|].
  destruct P as (Pl & Pr & Hh).
  assert (Ll := leaves_length hash l Pl). assert (Lr := leaves_length hash r Pr).
  assert (P0 : (0 < 2 ^ height hash r)%nat) by (apply Nat.neq_0_lt_0, Nat.pow_nonzero; lia).
  rewrite (mroot_app _ _ (height hash l) Ll) by (rewrite Lr, ?Hh; lia). rewrite IHl, IHr by assumption. reflexivity.
Qed.

(* ---- folding the digits, least significant first ---- *)
Definition oroot (L : list hash) : option hash := match L with [] => None | _ :: _ => Some (mroot L) end.
Lemma forest_root k ts : wf_from hash k ts -> forall R,
  (length R < 2 ^ k)%nat ->
  pa_root_aux H (oroot R) (roots_of hash node ts) = oroot (all_leaves hash ts ++ R).
Proof.
  revert k. induction ts as [|[t|] ts IH]; intros k W R LR; cbn [roots_of map option_map pa_root_aux all_leaves wf_from] in *.
  - reflexivity.
  - destruct W as (Pt & Ht & W). assert (Lt := leaves_length hash t Pt). rewrite Ht in Lt.
    assert (P0 : (0 < 2 ^ k)%nat) by (apply Nat.neq_0_lt_0, Nat.pow_nonzero; lia).
    rewrite <- app_assoc.
    assert (E : Some (match oroot R with None => root hash node t | Some r => node (root hash node t) r end) = oroot (leaves hash t ++ R)).
    { destruct R as [|x R']; cbn [oroot].
      - rewrite app_nil_r. rewrite <- (perfect_root t Pt). destruct (leaves hash t) eqn:El; [cbn in Lt; lia | reflexivity].
      - rewrite <- (perfect_root t Pt), <- (mroot_app _ _ k Lt) by (cbn [length] in *; lia).
        destruct (leaves hash t ++ x :: R') eqn:El; [destruct (leaves hash t); discriminate | reflexivity]. }
    fold (roots_of hash node ts). rewrite E.
    apply (IH (S k) W (leaves hash t ++ R)). rewrite app_length, Lt, Nat.pow_succ_r'. lia.
  - fold (roots_of hash node ts). apply (IH (S k) W R). rewrite Nat.pow_succ_r'. lia.
Qed.

(* the accumulator's root over any digits that represent L is the plain root of L *)
Theorem repr_root L ds : Repr hash node L ds -> pa_root H ds = mroot L.
Proof.
  intros (ts & W & <- & <-). unfold pa_root. pose proof (forest_root 0 ts W [] ltac:(cbn; lia)) as E. change (oroot []) with (@None hash) in E.
  rewrite app_nil_r in E. rewrite E. destruct (all_leaves hash ts); reflexivity.
Qed.

(* appending leaves one at a time from the empty accumulator (sectorAccumulator.appendNode, proofAccumulator.insertNode
   at height 0, blake2b.Accumulator.AddLeaf) and taking the root gives the plain tree root, for every list *)
Theorem streaming_root_is_plain_root (ls : list hash) :
  pa_root H (fold_left (fun a h => insert_node H h 0 a) ls []) = mroot ls.
Proof. apply repr_root. apply (acc_digits_repr H [] [] ls). apply repr_nil. Qed.

(* rhp/v2 MetaRoot: the accumulator for up to [limit] (= 65536) roots, above that a split at the largest power of two
   below the length and recursion; equal to the plain root for every list and every limit >= 1 *)
Fixpoint meta_root (fuel limit : nat) (ls : list hash) : hash :=
  if (length ls <=? limit)%nat then pa_root H (fold_left (fun a h => insert_node H h 0 a) ls [])
  else match fuel with
       | O => []
       | S f => let k := split_point (length ls) in node (meta_root f limit (firstn k ls)) (meta_root f limit (skipn k ls))
       end.
Theorem meta_root_is_plain_root fuel limit : (1 <= limit)%nat -> forall ls, (length ls <= fuel)%nat -> meta_root fuel limit ls = mroot ls.
Proof.
  intros Hl. induction fuel as [|f IH]; intros ls Lf; cbn [meta_root].
  - destruct (Nat.leb_spec (length ls) limit); [apply streaming_root_is_plain_root | lia].
  - destruct (Nat.leb_spec (length ls) limit) as [L|L]; [apply streaming_root_is_plain_root|].
    destruct (split_point_spec (length ls) ltac:(lia)) as (a & E & A & B).
    assert (P : (0 < 2 ^ a)%nat) by (apply Nat.neq_0_lt_0, Nat.pow_nonzero; lia).
    rewrite (mroot_unfold ls) by lia. cbv zeta. f_equal; apply IH; rewrite ?firstn_length, ?skipn_length; lia.
Qed.
End RhpRoot.
