(* The right-hand part of a range proof: aligned subtrees from [end_] to the end of the list, the last one possibly
   partial; after inserting them the accumulator's root is the plain root of the whole list. *)
From Coq Require Import List NArith Arith Bool Lia ZifyN ZifyNat ZifyBool.
From Sia Require Import Prim.Tok Merkle.Tree Merkle.Forest Merkle.Rhp Merkle.RhpProofs Merkle.RhpRoot.
From Sia Require Import Merkle.RgBits Merkle.RgStruct Merkle.RgLoops.
Import ListNotations.

Section RRight.
Variable H : bytes -> bytes.
Notation node := (Rhp.node H).
Notation mroot := (Rhp.mroot H).
Notation ptree := (ptree hash).
Notation root := (root hash node).
Notation perfect := (perfect hash).
Notation height := (height hash).
Notation leaves := (leaves hash).
Notation all_leaves := (all_leaves hash).
Notation wf_from := (wf_from hash).
Notation roots_of := (roots_of hash node).
Notation value := (value hash).
Notation oroot := (RhpRoot.oroot H).

Lemma oroot_nonempty (R : list hash) : R <> [] -> oroot R = Some (mroot R).
Proof. destruct R; [contradiction | reflexivity]. Qed.

(* carrying the root of up to 2^lv trailing leaves into the forest *)
Lemma carry_root ts : forall lv (R : list hash), wf_from lv ts -> (0 < length R <= 2 ^ lv)%nat ->
  pa_root_aux H None (carry H (mroot R) (roots_of ts)) = oroot (all_leaves ts ++ R).
Proof.
  induction ts as [|[t0|] ts IH]; intros lv R W HR; cbn [Forest.roots_of map option_map carry pa_root_aux Forest.all_leaves Forest.wf_from] in *.
  - cbn [app]. rewrite oroot_nonempty by (destruct R; cbn in HR; [lia | discriminate]). reflexivity.
  - destruct W as (P0 & H0 & W). fold (Forest.roots_of hash node ts).
    assert (L0 := leaves_length hash t0 P0). rewrite H0 in L0.
    rewrite <- (perfect_root H t0 P0), <- (mroot_app H (leaves t0) R lv L0) by lia.
    rewrite <- app_assoc. apply (IH (S lv) (leaves t0 ++ R) W). rewrite app_length, L0, Nat.pow_succ_r'. lia.
  - fold (Forest.roots_of hash node ts).
    replace (Some (mroot R)) with (oroot R) by (apply oroot_nonempty; destruct R; cbn in HR; [lia | discriminate]).
    apply (forest_root H (S lv) ts W R). rewrite Nat.pow_succ_r'. lia.
Qed.

Lemma insert_root h : forall lv ts (R : list hash), wf_from lv ts -> (exists k, value lv (roots_of ts) = k * 2 ^ (lv + h))%nat ->
  (0 < length R <= 2 ^ (lv + h))%nat ->
  pa_root_aux H None (insert_node H (mroot R) h (roots_of ts)) = oroot (all_leaves ts ++ R).
Proof.
  induction h as [|h IH]; intros lv ts R W Dv HR.
  - rewrite Nat.add_0_r in HR. cbn [insert_node]. apply (carry_root ts lv R W HR).
  - destruct ts as [|d r]; cbn [Forest.roots_of map insert_node].
    + cbn [pa_root_aux]. replace (lv + S h)%nat with (S lv + h)%nat in HR by lia.
      exact (IH (S lv) [] R I ltac:(exists 0%nat; reflexivity) HR).
    + destruct d as [t0|].
      * exfalso. unfold Forest.roots_of in *. cbn [Forest.wf_from map option_map Forest.value] in *. destruct Dv as (k & E).
        destruct (value_mult (S lv) (map (option_map root) r)) as (q & Eq). rewrite Eq in E.
        replace (lv + S h)%nat with (S lv + h)%nat in E by lia. rewrite Nat.pow_add_r, Nat.pow_succ_r' in E.
        assert (P : (0 < 2 ^ lv)%nat) by (apply Nat.neq_0_lt_0, Nat.pow_nonzero; lia).
        assert (E2 : (2 ^ lv * (1 + 2 * q) = 2 ^ lv * (2 * (k * 2 ^ h)))%nat) by lia.
        apply Nat.mul_cancel_l in E2; lia.
      * unfold Forest.roots_of in *. cbn [Forest.wf_from map option_map Forest.value Forest.all_leaves pa_root_aux] in *.
        replace (lv + S h)%nat with (S lv + h)%nat in HR by lia.
        apply (IH (S lv) r R W); [|exact HR]. destruct Dv as (k & E). exists k. rewrite E. f_equal. f_equal. lia.
Qed.

(* on the representation invariant *)
Theorem insert_last L ds h (R : list hash) : Repr hash node L ds -> (exists k, length L = k * 2 ^ h)%nat -> (0 < length R <= 2 ^ h)%nat ->
  pa_root H (insert_node H (mroot R) h ds) = mroot (L ++ R).
Proof.
  intros (ts & W & EL & ER) Dv HR.
  assert (Dv' : (exists k, value 0 (roots_of ts) = k * 2 ^ (0 + h))%nat).
  { destruct Dv as (k & E). exists k. rewrite <- (wf_value hash node 0 ts W), EL. exact E. }
  unfold pa_root. rewrite <- ER, (insert_root h 0%nat ts R W Dv' HR), EL.
  rewrite oroot_nonempty; [reflexivity|]. destruct R; cbn in HR; [lia|]. destruct L; discriminate.
Qed.
End RRight.
